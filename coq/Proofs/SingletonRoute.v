(* C09 singleton_route at model level: compress_graph of the one-node-per-k-mer graph of a table (the table itself
   read as a graph: node sequence = key, same extension byte, same payload) walks EXACTLY the same vertex lists as
   compress_kmers of the table - the static step relations coincide ([rnext] of the graph = [knext] of the table), so
   the two instances of AbstractWalk.compress are the same function application.  Hence node i of one result and node
   i of the other consist of the same k-mers. *)
From Coq Require Import NArith List Bool Arith Lia Permutation Sorting.Sorted.
From DBG Require Import Proofs.AbstractWalk.
From DBG Require Import Spec.Dna Spec.GraphIndex Spec.Unitig Spec.CompressSpec Packed.ExtsModel Algo.Compress Algo.KmerHist
  Algo.GraphModel Algo.Recompress Check.RecompCheck Proofs.ListFacts Proofs.DnaFacts Proofs.KmerAlgebra
  Proofs.CompressBasics Proofs.CompressRefine Proofs.CompressWalk Proofs.CompressProofs
  Proofs.RecompSweeps Proofs.RecompCheckProofs Proofs.RecompressProofs Proofs.RecompIdem Proofs.RecompKmers Proofs.FilterProofs.
Import ListNotations.
Local Open Scope nat_scope.

(* ---- AbstractWalk.compress depends on [next] only pointwise ---------------------------------------------------- *)
Section Ext.
Variable V : Type.
Variable eq_dec : forall x y : V, {x = y} + {x <> y}.
Variables next1 next2 : V -> side -> option (V * side).
Hypothesis Hext : forall v s, next1 v s = next2 v s.
Lemma extend_ext fuel : forall avail v s,
  AbstractWalk.extend V eq_dec next1 fuel avail v s = AbstractWalk.extend V eq_dec next2 fuel avail v s.
Proof.
  induction fuel as [|f IH]; intros avail v s; [reflexivity|]. cbn [AbstractWalk.extend]. rewrite Hext.
  destruct (next2 v s) as [[w t]|]; [|reflexivity]. destruct (mem V eq_dec w avail); [|reflexivity]. now rewrite IH.
Qed.
Lemma build_ext avail seed : build V eq_dec next1 avail seed = build V eq_dec next2 avail seed.
Proof.
  unfold build. rewrite extend_ext. destruct (AbstractWalk.extend V eq_dec next2 _ _ seed L) as [lp a2].
  now rewrite extend_ext.
Qed.
Lemma compress_ext order : forall avail, compress V eq_dec next1 order avail = compress V eq_dec next2 order avail.
Proof.
  induction order as [|v o IH]; intro avail; [reflexivity|]. cbn [compress].
  destruct (mem V eq_dec v avail); [|apply IH]. rewrite build_ext.
  destruct (build V eq_dec next2 avail v) as [[lp rp] a']. now rewrite IH.
Qed.
End Ext.

(* ---- a sorted list is determined by its elements (with multiplicity) --------------------------------------------- *)
Lemma dna_leb_antisym a b : dna_leb a b = true -> dna_leb b a = true -> a = b.
Proof.
  intros H1 H2. destruct (dna_leb_cases a b H1) as [E|L]; [exact E|]. apply dna_ltb_antisym in L. congruence.
Qed.
Lemma sorted_perm_eq (l l' : list dna) : StronglySorted dle l -> StronglySorted dle l' -> Permutation l l' -> l = l'.
Proof.
  revert l'. induction l as [|x l IH]; intros l' S1 S2 P.
  - apply Permutation_nil in P. now subst.
  - destruct l' as [|y l']; [apply Permutation_sym, Permutation_nil in P; discriminate|].
    apply StronglySorted_inv in S1 as [S1 F1]. apply StronglySorted_inv in S2 as [S2 F2].
    rewrite Forall_forall in F1, F2.
    assert (E : x = y).
    { assert (Hx : In x (y :: l')) by (eapply Permutation_in; [exact P | now left]).
      assert (Hy : In y (x :: l)) by (eapply Permutation_in; [apply Permutation_sym; exact P | now left]).
      destruct Hx as [->|Hx]; [reflexivity|]. destruct Hy as [->|Hy]; [reflexivity|].
      apply dna_leb_antisym; [apply F1 | apply F2]; assumption. }
    subst y. f_equal. apply IH; auto. now apply Permutation_cons_inv in P.
Qed.
Lemma sort_perm_eq (l l' : list dna) : Permutation l l' -> sort_by dna_leb l = sort_by dna_leb l'.
Proof.
  intro P. apply sorted_perm_eq; try apply sort_sorted.
  eapply Permutation_trans; [apply sort_by_perm|]. eapply Permutation_trans; [exact P|]. apply Permutation_sym, sort_by_perm.
Qed.

Section SR.
Variable D : Type.
Variable reduce : D -> D -> D.
Variable join : D -> D -> bool.
Variable K : nat.
Variable stranded : bool.
Hypothesis HK : 1 <= K.
Hypothesis join_sym : forall a b, join a b = join b a.
Variable T : table D.
Hypothesis Hok : tbl_ok D K stranded T.
Local Notation kkey := (kkey D T).
Local Notation U := (seq 0 (length T)).

(* the table read as a graph: node = entry *)
Lemma ends_single side : ends_of K (g_seqs D T) side = keys D T.
Proof.
  unfold ends_of, g_seqs, Unitig.keys. rewrite map_map. apply map_ext_in. intros e He.
  change (n_seq D e) with (e_key D e). apply GraphQueryProofs.term_kmer_single. now apply (ok_len _ _ _ _ Hok).
Qed.
Lemma find_link_single k d :
  find_link D K stranded T k d = find_link_ends stranded (keys D T) (keys D T) k d.
Proof. unfold find_link, find_link_spec. now rewrite !ends_single. Qed.

Lemma noncanon_absent k : stranded = false -> wf_dna k -> canon k <> k -> get_id D T k = None.
Proof.
  intros Hs W Hne. destruct (get_id D T k) as [j|] eqn:E; [|reflexivity]. exfalso.
  destruct (get_id_Some D T _ _ E) as [ent [Hj Hk]]. apply Hne. rewrite <- Hk.
  apply (ok_canon _ _ _ _ Hok Hs). eapply nth_error_In; eauto.
Qed.

Lemma dna_ltb_canon k : dna_ltb k (rc k) = true -> canon k = k.
Proof. unfold canon. now intros ->. Qed.
Lemma dna_nltb_canon k : dna_ltb k (rc k) = false -> canon k = rc k.
Proof. unfold canon. now intros ->. Qed.

(* node-level mergeability of the singleton graph = k-mer-level mergeability of the table *)
Theorem rnext_knext i d : rnext D join K stranded T i d = knext D join stranded T i d.
Proof.
  unfold rnext, knext. unfold gnode, entry in *. destruct (@nth_error (dna * N * D)%type T i) as [ent|] eqn:Hi; [|reflexivity].
  assert (Hin : In ent T) by (eapply nth_error_In; eauto).
  pose proof (ok_len _ _ _ _ Hok _ Hin) as Hlen. pose proof (ok_wf _ _ _ _ Hok _ Hin) as Hwf.
  change (n_seq D ent) with (e_key D ent). change (n_exts D ent) with (e_exts D ent). change (n_data D ent) with (e_data D ent).
  assert (Hps : pal_single D K stranded ent = kpal stranded (e_key D ent)).
  { unfold pal_single, kpal. change (n_seq D ent) with (e_key D ent). rewrite Hlen, Nat.eqb_refl, andb_true_r.
    f_equal. f_equal. unfold first_kmer, kmer_at, sub. cbn [skipn]. apply firstn_all2. lia. }
  rewrite Hps. destruct (negb (e_num_ext_dir (e_exts D ent) (dirb d) =? 1)%N || kpal stranded (e_key D ent)); [reflexivity|].
  destruct (e_get_unique_extension (e_exts D ent) (dirb d)) as [b|] eqn:Hu; [|reflexivity]. cbv zeta.
  assert (Hb : (b < 4)%N).
  { unfold e_get_unique_extension in Hu. destruct (negb _); [discriminate|]. apply find_some in Hu as [Hu _].
    cbn in Hu. destruct Hu as [<-|[<-|[<-|[<-|[]]]]]; lia. }
  rewrite (GraphQueryProofs.term_kmer_single K (e_key D ent) d Hlen).
  set (nk := extend (e_key D ent) b d).
  assert (Wnk : wf_dna nk) by (apply extend_wf; auto).
  rewrite find_link_single.
  change (end_index (keys D T)) with (get_id D T) in *.
  assert (Hfl : forall k dd, find_link_ends stranded (keys D T) (keys D T) k dd =
            match get_id D T k with
            | Some j => Some (j, dflip dd, false)
            | None => if stranded then None else match get_id D T (rc k) with Some j => Some (j, dd, true) | None => None end
            end).
  { intros k dd. unfold find_link_ends, get_id, Unitig.keys. destruct dd; reflexivity. }
  rewrite Hfl. unfold kcanon_flip, kpal.
  (* the final test, once the target is known *)
  assert (Hfin : forall (P J N : bool) (r : nat * dir),
            (if P || negb J then None else if N then Some r else None) = (if J && N && negb P then Some r else None))
    by (intros [] [] [] r; reflexivity).
  assert (Hst : stranded = true \/ stranded = false) by (destruct stranded; auto).
  destruct Hst as [St|St]; rewrite St.
  - cbn [fst snd cond_flip negb andb orb]. destruct (get_id D T nk) as [j|]; [|reflexivity].
    destruct (@nth_error (dna * N * D)%type T j) as [yent|]; [|reflexivity].
    change (n_data D yent) with (e_data D yent). change (n_exts D yent) with (e_exts D yent).
    destruct (join (e_data D ent) (e_data D yent)), (e_num_ext_dir (e_exts D yent) (dirb (dflip d)) =? 1)%N; reflexivity.
  - cbn [negb andb]. unfold canon_flip. destruct (dna_ltb nk (rc nk)) eqn:Hlt; cbn [fst snd cond_flip].
    + (* nk canonical, not a palindrome *)
      destruct (get_id D T nk) as [j|] eqn:Hg.
      * destruct (@nth_error (dna * N * D)%type T j) as [yent|]; [|reflexivity].
        change (n_data D yent) with (e_data D yent). change (n_exts D yent) with (e_exts D yent). apply Hfin.
      * rewrite noncanon_absent; auto using rc_wf.
        rewrite canon_rc by exact Wnk. rewrite (dna_ltb_canon _ Hlt). intro E.
        rewrite <- E in Hlt. now rewrite dna_ltb_irrefl in Hlt.
    + (* the canonical form is rc nk *)
      destruct (get_id D T nk) as [j|] eqn:Hg.
      * (* then nk is a key, hence canonical, hence a palindrome: both sides refuse *)
        assert (Epal : nk = rc nk).
        { destruct (get_id_Some D T _ _ Hg) as [e' [Hj Hk]].
          pose proof (ok_canon _ _ _ _ Hok St e' (nth_error_In _ _ Hj)) as Hc. rewrite Hk in Hc.
          rewrite (dna_nltb_canon _ Hlt) in Hc. now symmetry. }
        rewrite <- Epal, Hg. assert (Hp : is_palindrome nk = true) by now apply palindrome_iff. rewrite Hp.
        destruct (@nth_error (dna * N * D)%type T j) as [yent|]; [|reflexivity]. cbn [orb negb]. rewrite !andb_false_r. reflexivity.
      * destruct (get_id D T (rc nk)) as [j|]; [|reflexivity].
        destruct (@nth_error (dna * N * D)%type T j) as [yent|]; [|reflexivity].
        change (n_data D yent) with (e_data D yent). change (n_exts D yent) with (e_exts D yent).
        rewrite (is_palindrome_rc nk Wnk), !dflip_dflip. apply Hfin.
Qed.

Lemma wnext_anext v s : wnext D join K stranded T U v s = anext D join stranded T v s.
Proof.
  unfold wnext, anext. rewrite rnext_knext. destruct (mem_nat v U) eqn:E; [reflexivity|].
  unfold knext. destruct (nth_error T v) eqn:E2; [|reflexivity]. exfalso.
  assert (Hv : In v U) by (apply in_seq; split; [lia|]; cbn; apply nth_error_Some; congruence).
  apply mem_nat_In in Hv. congruence.
Qed.

(* ---- same vertex lists -------------------------------------------------------------------------------------------- *)
Hypothesis Hval : rvalid D K stranded T.

Lemma restrict_all : restrict D K stranded T U = Some T.
Proof.
  unfold restrict. destruct (fix_exts_spec D K stranded T (Some U)) as (g1 & Hg1 & _). rewrite Hg1. f_equal.
  eapply (fix_exts_id D K stranded); [| |exact Hg1].
  - intros i n Hn. apply (ok_exts _ _ _ _ Hok). eapply nth_error_In; eauto.
  - apply rvalid_keeps_all; auto. intros t Ht. cbn. apply mem_nat_In. apply in_seq. split; [apply Nat.le_0_l | exact Ht].
Qed.

Theorem singleton_paths out paths :
  compress_graph_paths D reduce join K stranded T None = Some (out, paths) ->
  map (map fst) paths =
  map (fun x => node_verts nat (fst (fst x)) (snd (fst x)) (snd x)) (compress_struct D join stranded T U U).
Proof.
  intro H. destruct (recompress_refines_walk_ D reduce join K stranded join_sym T None Hval) as (g1 & out' & r & Hg1 & W & Hc & Hres & Hp).
  change (survivors D T None) with U in *. rewrite restrict_all in Hg1. injection Hg1 as <-.
  rewrite Hc in H. injection H as <- <-. rewrite (result_ok_nodes D reduce join K stranded _ _ _ _ Hres).
  rewrite compress_struct_verts. apply compress_ext. exact wnext_anext.
Qed.

(* ---- same k-mers, node by node ---------------------------------------------------------------------------------- *)
Hypothesis Hsym : CompressSpec.exts_sym D stranded T.

Lemma nk_single i : i < length T -> nk D K stranded T i = [kkey i].
Proof.
  intro Hi. unfold nk, CompressRefine.kkey. unfold gnode, entry in *.
  destruct (@nth_error (dna * N * D)%type T i) as [ent|] eqn:E; [|exfalso; apply nth_error_None in E; exact (Nat.lt_irrefl _ (Nat.lt_le_trans _ _ _ Hi E))].
  assert (Hin : In ent T) by (eapply nth_error_In; eauto).
  unfold node_kmers. change (n_seq D ent) with (e_key D ent).
  rewrite (kmers_exact K _ HK (ok_len _ _ _ _ Hok _ Hin)). cbn [map]. f_equal.
  unfold ck9. destruct stranded eqn:St; [reflexivity|]. now apply (ok_canon _ _ _ _ Hok).
Qed.
Lemma nk_all l : (forall i, In i l -> i < length T) -> concat (map (nk D K stranded T) l) = map kkey l.
Proof.
  induction l as [|i l IH]; intro H; [reflexivity|]. cbn [map concat]. rewrite nk_single by (apply H; now left).
  cbn [app]. f_equal. apply IH. intros j Hj. apply H. now right.
Qed.

Theorem singleton_route_nodes a paths b :
  compress_graph_paths D reduce join K stranded T None = Some (a, paths) ->
  compress_kmers D reduce join stranded T = Some b ->
  Forall2 (fun na nb => Permutation (node_kmers D K stranded na) (node_kmers D K stranded nb)) a b.
Proof.
  intros Ha Hb.
  pose proof (singleton_paths a paths Ha) as Hv.
  destruct (recompress_partition D reduce join K stranded join_sym T None a paths Hval Ha) as (Hlen & _ & Hin).
  destruct (recompress_nodes D reduce join K stranded join_sym T None a paths Hval Ha) as (g1 & Hg1 & HF).
  change (survivors D T None) with U in Hg1. rewrite restrict_all in Hg1. injection Hg1 as <-.
  assert (W : winv D K stranded T U).
  { apply (restrict_winv D K stranded T T U Hval); [|exact restrict_all]. intros x Hx. apply in_seq in Hx. exact (proj2 Hx). }
  destruct (compress_refines D reduce join K stranded HK T Hok Hsym) as [b' [Hb' Hrel]].
  assert (b' = b) by congruence. subst b'.
  set (cs := compress_struct D join stranded T U U) in *.
  assert (L1 : length paths = length cs).
  { apply (f_equal (@length _)) in Hv. now rewrite !map_length in Hv. }
  assert (L2 : length b = length cs) by (eapply Forall2_length_; eauto).
  apply Forall2_nth_intro; [unfold node, gnode in *; lia|]. intros i na nb Hna Hnb.
  assert (Hi : i < length paths) by (rewrite <- Hlen; apply nth_error_Some; congruence).
  destruct (nth_error paths i) as [p|] eqn:Ep; [|apply nth_error_None in Ep; lia].
  destruct (nth_error cs i) as [[[lp s] rp]|] eqn:Ec; [|apply nth_error_None in Ec; lia].
  pose proof (Forall2_nth_elim _ _ _ _ _ HF Hna) as (p' & Hp' & Hnp). rewrite Ep in Hp'. injection Hp' as <-.
  pose proof (Forall2_nth_elim _ _ _ _ _ Hrel Hnb) as (x' & Hx' & Hr). rewrite Ec in Hx'. injection Hx' as <-.
  assert (Hvp : map fst p = node_verts nat lp s rp).
  { apply (f_equal (fun l => nth_error l i)) in Hv. rewrite !nth_error_map, Ep, Ec in Hv. cbn in Hv. now injection Hv. }
  assert (Hval_p : forall x, In x (map fst p) -> x < length T).
  { intros x Hx. apply (Hin x). apply in_concat. exists (map fst p). split; [|exact Hx]. apply in_map. eapply nth_error_In; eauto. }
  eapply Permutation_trans; [apply (node_of_path_kmers D reduce join K stranded T U na p W Hnp Hval_p)|].
  rewrite nk_all by exact Hval_p. rewrite Hvp.
  destruct (node_facts D reduce join K stranded HK T Hok Hsym nb lp s rp Hr (nth_error_In _ _ Ec)) as (_ & F2 & _).
  change (node_kmers D K stranded nb) with (node_keys D K stranded nb). rewrite F2. apply Permutation_refl.
Qed.
End SR.

(* for the harness payload: the Prop decided by chk.c09.singleton_route *)
Theorem singleton_route_same_partition reduce join K stranded (T : table rpay) a b :
  1 <= K -> (forall x y, join x y = join y x) ->
  tbl_ok rpay K stranded T -> CompressSpec.exts_sym rpay stranded T -> rvalid rpay K stranded T ->
  compress_graph rpay reduce join K stranded T None = Some a ->
  compress_kmers rpay reduce join stranded T = Some b ->
  same_partition K stranded a b.
Proof.
  intros HK Js Hok Hsym Hval Ha Hb. unfold compress_graph in Ha.
  destruct (compress_graph_paths rpay reduce join K stranded T None) as [[a' paths]|] eqn:E; [|discriminate].
  cbn in Ha. injection Ha as ->.
  pose proof (singleton_route_nodes rpay reduce join K stranded HK Js T Hok Hval Hsym a paths b E Hb) as HF.
  unfold same_partition. apply Permutation_refl'. clear - HF. induction HF as [|na nb a b P HF IH]; [reflexivity|].
  cbn [map]. f_equal; [|exact IH]. unfold kpart. now apply sort_perm_eq.
Qed.
