(* e2e: the DIRECT pipeline model produces THE assembly of its reads.
   [tbl_spec] (Proofs/E2eTable.v) => C01's [tbl_ok] and [links_ok] w.r.t. the Layer-S link set [spec_links];
   then Proofs/E2eGraph.v gives graph_exact, unitig_graph and payload_ok for the graph compress_kmers builds. *)
From Coq Require Import NArith List Bool Arith Lia Permutation.
From DBG Require Import Spec.Dna Spec.GraphIndex Spec.Unitig Spec.CompressSpec Packed.ExtsModel Algo.Compress
  Algo.KmerHist Algo.Filter Algo.GraphModel Algo.Pipeline Check.GraphCheck Check.PipelineCheck
  Proofs.ListFacts Proofs.DnaFacts Proofs.KmerAlgebra Proofs.ExtsProofs Proofs.FilterProofs
  Proofs.CompressRefine Proofs.CompressWalk Proofs.CompressProofs Proofs.CompressGraphOk Proofs.UnitigUnique
  Proofs.PipelineCheckProofs Proofs.GraphRcProofs Proofs.PipelineProofs
  Proofs.E2eDefs Proofs.E2eSym Proofs.E2eGraph Proofs.E2eObs Proofs.E2eTable.
Import ListNotations.
Local Open Scope nat_scope.

Section Spec2Links.
Variable K : nat.
Variable st : bool.
Variable thr : N.
Variable lreads : list lread.
Variable T : table pay.
Hypothesis HK : 1 <= K.
Hypothesis Hwf : Forall (fun r => wf_dna (fst r)) lreads.
Hypothesis HT : tbl_spec K st thr lreads T.
Local Notation reads := (map fst lreads).
Local Notation ret := (retained K st thr reads).
Local Notation SL := (spec_links K st thr reads).
Local Notation W := (wins K lreads).
Local Notation isr := (is_retained K st thr reads).

Lemma key_ret ent : In ent T -> In (e_key pay ent) ret.
Proof. intro H. eapply Permutation_in; [apply (ts_keys _ _ _ _ _ HT)|]. unfold keys. now apply in_map. Qed.
Lemma ret_key k : In k ret -> exists ent, In ent T /\ e_key pay ent = k.
Proof.
  intro H. apply (Permutation_in _ (Permutation_sym (ts_keys _ _ _ _ _ HT))) in H. unfold keys in H.
  apply in_map_iff in H as [e [E He]]. eauto.
Qed.

Theorem spec_tbl_ok : tbl_ok pay K st T.
Proof.
  constructor.
  - eapply Permutation_NoDup; [symmetry; apply (ts_keys _ _ _ _ _ HT) | apply retained_nodup].
  - intros e He. now destruct (ret_ok K st thr lreads Hwf _ (key_ret e He)).
  - intros e He. now destruct (ret_ok K st thr lreads Hwf _ (key_ret e He)) as (_ & ? & _).
  - intros Hs e He. destruct (ret_ok K st thr lreads Hwf _ (key_ret e He)) as (_ & _ & C & _).
    unfold cn in C. now rewrite Hs in C.
  - intros e He. now apply (ts_lt _ _ _ _ _ HT).
Qed.

Lemma in_spec_links w : In w SL <-> exists v, In v W /\ link_retained K st thr reads v = true /\ w = cn st v.
Proof.
  unfold spec_links, wins. rewrite in_map_iff. split.
  - intros [v [<- Hv]]. apply filter_In in Hv as [Hv Hr]. eauto.
  - intros (v & Hv & Hr & ->). exists v. split; [reflexivity|]. apply filter_In. auto.
Qed.

Lemma link_retained_lk x d b : length x = K ->
  (link_retained K st thr reads (lk x d b) = true <-> isr (cn st x) = true /\ isr (cn st (extend x b d)) = true).
Proof.
  intro L. unfold link_retained. rewrite andb_true_iff.
  destruct (lk_kmers K HK x d b L) as [[-> ->]|[-> ->]]; tauto.
Qed.
Lemma link_retained_rc_ v : length v = S K -> wf_dna v -> st = false ->
  link_retained K st thr reads (rc v) = link_retained K st thr reads v.
Proof. intros L Wv Hs. rewrite Hs. now apply link_retained_rc. Qed.

Definition occurs (k : dna) (d : dir) (b : N) : Prop := In (lk k d b) W \/ (st = false /\ In (rc (lk k d b)) W).

(* the canonical (K+1)-mer of key k and base b is a link of the reads iff it occurs and its other k-mer is retained *)
Lemma links_char k d b : In k ret -> (b < 4)%N ->
  (In (cn st (lk k d b)) SL <-> occurs k d b /\ In (cn st (extend k b d)) ret).
Proof.
  intros Hk Hb. destruct (ret_ok K st thr lreads Hwf k Hk) as (Lk & Wk & Ck & Rk).
  assert (Lv : length (lk k d b) = S K) by (now rewrite lk_length, Lk).
  assert (Wv : wf_dna (lk k d b)) by (now apply lk_wf).
  rewrite in_spec_links. split.
  - intros (v & Hv & Hr & Ec). destruct (win_kmers K st lreads HK Hwf v Hv) as (Lvv & Wvv & _).
    apply cn_eq_cases in Ec; auto.
    assert (Hocc : occurs k d b /\ link_retained K st thr reads (lk k d b) = true).
    { destruct Ec as [Ec|[Hs Ec]]; [split; [left; rewrite Ec; exact Hv | rewrite Ec; exact Hr]|].
      assert (Ev : v = rc (lk k d b)) by (rewrite Ec; symmetry; now apply ListFacts.rc_involutive).
      split; [right; split; [exact Hs | now rewrite <- Ev]|]. rewrite <- (link_retained_rc_ _ Lv Wv Hs), <- Ev. exact Hr. }
    destruct Hocc as [Hocc Hlr]. split; [exact Hocc|]. apply (link_retained_lk k d b Lk) in Hlr as [_ Hlr].
    apply retained_in. split; [|exact Hlr]. now apply (link_other_observed K st lreads HK Hwf k d b).
  - intros [Hocc Hr]. apply retained_in in Hr as [_ Hr].
    assert (Hlr : link_retained K st thr reads (lk k d b) = true) by (apply link_retained_lk; auto; now rewrite Ck).
    destruct Hocc as [Hv|[Hs Hv]].
    + exists (lk k d b). auto.
    + exists (rc (lk k d b)). split; [exact Hv|]. split; [now rewrite link_retained_rc_|]. symmetry. now apply cn_rc_.
Qed.

Theorem spec_links_ok : links_ok pay st T SL.
Proof.
  constructor.
  - intros ent d b Hin Hb P. rewrite (ts_exts _ _ _ _ _ HT ent d b Hin Hb), (links_char _ d b (key_ret ent Hin) Hb).
    unfold ext_spec, occurs. rewrite P. intuition congruence.
  - intros ent d b Hin Hb P. pose proof (key_ret ent Hin) as Hk. set (k := e_key pay ent) in *.
    destruct (ret_ok K st thr lreads Hwf k Hk) as (Lk & Wk & Ck & Rk).
    assert (Nk : k <> []) by (intro E; rewrite E in Lk; cbn in Lk; lia).
    pose proof (proj1 (kpal_iff st k) P) as [Hs Ekk].
    rewrite (ts_exts _ _ _ _ _ HT ent d b Hin Hb), (ts_exts _ _ _ _ _ HT ent (dflip d) (comp b) Hin (comp_lt4 b)), (links_char k d b Hk Hb).
    fold k. unfold ext_spec, occurs. rewrite P.
    assert (E1 : rc (lk k (dflip d) (comp b)) = lk k d b).
    { rewrite rc_lk, dflip_dflip, comp_involutive by exact Hb. now rewrite <- Ekk. }
    assert (E2 : cn st (extend k (comp b) (dflip d)) = cn st (extend k b d)).
    { rewrite Ekk at 1. rewrite <- rc_extend by exact Nk. apply cn_rc_; auto. now apply extend_wf. }
    rewrite E1, E2. intuition congruence.
  - intros ent d b Hin Hb Hh. apply (ts_exts _ _ _ _ _ HT ent d b Hin Hb) in Hh as [_ Hr].
    eapply Permutation_in; [symmetry; apply (ts_keys _ _ _ _ _ HT) | exact Hr].
  - intros w Hw. apply in_spec_links in Hw as (v & Hv & Hr & ->).
    pose proof Hv as Hv'. apply in_wins in Hv' as [r [Hrr Hvk]]. apply kmers_in in Hvk as [q [Hq Ev]].
    pose proof (read_wf lreads Hwf r Hrr) as Wr. destruct (kmer_at_ok K _ q Wr ltac:(lia)) as [Lx Wx].
    set (x := kmer_at K (fst r) q) in *. set (c := nth (q + K) (fst r) 0%N).
    assert (Evl : v = lk x DRight c) by (rewrite Ev; apply kmer_at_S_snoc; exact Hq).
    assert (Hc : (c < 4)%N) by (apply wf_nth_; exact Wr).
    rewrite Evl in Hr. apply (link_retained_lk x DRight c Lx) in Hr as [Hrx _].
    assert (Hkx : In (cn st x) ret).
    { apply retained_in. split; [|exact Hrx]. apply (read_kmers_in K st lreads). exists r, q. repeat split; auto. lia. }
    destruct (ret_key _ Hkx) as [ent [Hin Ek]]. exists ent.
    assert (Hcase : cn st x = x \/ (st = false /\ cn st x = rc x)).
    { unfold cn. assert (Hst : st = true \/ st = false) by (clear; destruct st; auto). destruct Hst as [Hs|Hs]; rewrite Hs; [now left|].
      destruct (canon_choice x); auto. }
    destruct Hcase as [E|[Hs E]]; rewrite E in Ek.
    + exists DRight, c. rewrite Ek, Evl. auto.
    + exists DLeft, (comp c). split; [exact Hin|]. split; [apply comp_lt4|]. rewrite Ek, Evl.
      replace (lk (rc x) DLeft (comp c)) with (rc (lk x DRight c)) by (now rewrite rc_lk).
      symmetry. apply cn_rc_; auto. now apply lk_wf.
Qed.
End Spec2Links.

(* ---- the theorems ---- *)
Theorem direct_assembly K st thr mode (lreads : list lread) order g :
  4 <= K -> Forall (fun r => wf_dna (fst r)) lreads -> NoDup order ->
  direct K st thr mode 0 lreads order = Some g ->
  assembly_of K st thr mode lreads g.
Proof.
  intros HK Hwf Hnd Hd. unfold direct in Hd.
  destruct (table_of K st thr (if (1 <? thr)%N then 1%N else 0%N) (whole_reads lreads) order) as [T|] eqn:ET; [|discriminate].
  cbn [N.eqb] in Hd.
  pose proof (table_of_spec K st thr lreads order T HK Hwf Hnd ET) as HT.
  assert (HK1 : 1 <= K) by lia.
  pose proof (spec_tbl_ok K st thr lreads T Hwf HT) as Hok.
  pose proof (spec_links_ok K st thr lreads T HK1 Hwf HT) as HL.
  destruct (compress_assembly_abs K st mode T (spec_links K st thr (map fst lreads)) rank (kmer_colour K st lreads) g
              HK1 Hok HL (ts_data _ _ _ _ _ HT) Hd) as (G1 & G2 & G3 & G4).
  split; [|split; assumption]. split; [|exact G2].
  etransitivity; [exact G1 | apply (ts_keys _ _ _ _ _ HT)].
Qed.

Theorem direct_total K st thr mode (lreads : list lread) order :
  4 <= K -> Forall (fun r => wf_dna (fst r)) lreads ->
  Permutation order (retained K st thr (map fst lreads)) ->
  exists g, direct K st thr mode 0 lreads order = Some g.
Proof.
  intros HK Hwf P. destruct (table_of_total K st thr lreads order HK Hwf P) as [T ET].
  assert (Hnd : NoDup order) by (eapply Permutation_NoDup; [symmetry; exact P | apply retained_nodup]).
  pose proof (table_of_spec K st thr lreads order T HK Hwf Hnd ET) as HT.
  assert (HK1 : 1 <= K) by lia.
  pose proof (spec_tbl_ok K st thr lreads T Hwf HT) as Hok.
  pose proof (spec_links_ok K st thr lreads T HK1 Hwf HT) as HL.
  destruct (compress_c01 pay pay_reduce (pay_join mode) K st HK1 T Hok (links_exts_sym pay K st HK1 T _ Hok (links_ok_loose _ _ _ _ HL))) as [g [Hc _]].
  exists g. unfold direct. rewrite ET. cbn [N.eqb]. exact Hc.
Qed.

(* both together: for every iteration order of the hash table the direct pipeline succeeds and returns the assembly *)
Corollary direct_correct K st thr mode (lreads : list lread) order :
  4 <= K -> Forall (fun r => wf_dna (fst r)) lreads ->
  Permutation order (retained K st thr (map fst lreads)) ->
  exists g, direct K st thr mode 0 lreads order = Some g /\ assembly_of K st thr mode lreads g.
Proof.
  intros HK Hwf P. destruct (direct_total K st thr mode lreads order HK Hwf P) as [g Hg]. exists g. split; [exact Hg|].
  apply (direct_assembly K st thr mode lreads order g HK Hwf); auto.
  eapply Permutation_NoDup; [symmetry; exact P | apply retained_nodup].
Qed.
Print Assumptions direct_assembly.
Print Assumptions direct_total.
