(* Generic greedy unitig walk (DESIGN Appendix A.1): vertices with two sides, a static step function [next],
   "grow left fully, then right fully, mark used".  Both CompressFromHash and CompressFromGraph refine it.
   [compress_partition]: outputs are disjoint and cover every available vertex (C01).
   [compress_maximal]: under symmetry of [next], no link leaves a node (C02, C09). *)
From Coq Require Import List Bool Arith Lia Permutation.
Import ListNotations.

Inductive side := L | R.
Definition flip s := match s with L => R | R => L end.
Lemma flip_flip s : flip (flip s) = s. Proof. destruct s; reflexivity. Qed.

Section Walk.
Variable V : Type.
Variable eq_dec : forall x y : V, {x = y} + {x <> y}.
(* leaving v through side s you enter w through side t *)
Variable next : V -> side -> option (V * side).

Definition mem (v : V) (l : list V) : bool := if in_dec eq_dec v l then true else false.
Lemma mem_In v l : mem v l = true <-> In v l.
Proof. unfold mem; destruct (in_dec eq_dec v l); split; intros; auto; discriminate. Qed.

(* path elements: (vertex, side through which it was entered) *)
Fixpoint extend (fuel : nat) (avail : list V) (v : V) (s : side) : list (V * side) * list V :=
  match fuel with
  | 0 => ([], avail)
  | S f =>
    match next v s with
    | Some (w, t) =>
        if mem w avail then
          let '(p, a') := extend f (remove eq_dec w avail) w (flip t) in ((w, t) :: p, a')
        else ([], avail)
    | None => ([], avail)
    end
  end.

(* chain from (v, out side s) *)
Inductive chain : V -> side -> list (V * side) -> Prop :=
| ch_nil v s : chain v s []
| ch_cons v s w t p : next v s = Some (w, t) -> chain w (flip t) p -> chain v s ((w, t) :: p).

(* last vertex and its outgoing side *)
Fixpoint last_out (v : V) (s : side) (p : list (V * side)) : V * side :=
  match p with [] => (v, s) | (w, t) :: p' => last_out w (flip t) p' end.

Definition verts (p : list (V * side)) := map fst p.


Lemma NoDup_remove_ l w : NoDup l -> NoDup (remove eq_dec w l).
Proof.
  induction l as [|a l IH]; simpl; intro H; [constructor|]. inversion H; subst.
  destruct (eq_dec w a); auto. constructor; auto. intro Hin. apply in_remove in Hin. tauto.
Qed.

Lemma NoDup_app_ (l l' : list V) : NoDup l -> NoDup l' -> (forall x, In x l -> ~ In x l') -> NoDup (l ++ l').
Proof.
  induction l as [|a l IH]; simpl; intros H1 H2 H3; auto. inversion H1; subst.
  constructor. - rewrite in_app_iff. intros [H|H]; [tauto | eapply H3; eauto].
  - apply IH; auto.
Qed.

Definition stuck (a' : list V) (xs : V * side) : Prop :=
  forall w t, next (fst xs) (snd xs) = Some (w, t) -> ~ In w a'.

Record ext_ok (avail : list V) (v : V) (s : side) (p : list (V*side)) (a' : list V) : Prop := {
  ok_chain : chain v s p;
  ok_ndp : NoDup (verts p);
  ok_nda : NoDup a';
  ok_split : forall x, In x avail <-> In x (verts p) \/ In x a';
  ok_disj : forall x, In x (verts p) -> ~ In x a';
  ok_stuck : stuck a' (last_out v s p) }.

Lemma extend_spec fuel : forall avail v s p a',
  length avail < fuel -> NoDup avail ->
  extend fuel avail v s = (p, a') -> ext_ok avail v s p a'.
Proof.
  induction fuel as [|f IH]; intros avail v s p a' Hlen Hnd He; [lia|].
  cbn [extend] in He. destruct (next v s) as [[w t]|] eqn:Hn.
  - destruct (mem w avail) eqn:Hm.
    + destruct (extend f (remove eq_dec w avail) w (flip t)) as [p0 a0] eqn:He0.
      injection He as <- <-.
      apply mem_In in Hm.
      assert (Hlen' : length (remove eq_dec w avail) < f).
      { pose proof (remove_length_lt eq_dec avail w Hm). lia. }
      destruct (IH _ _ _ _ _ Hlen' (NoDup_remove_ _ w Hnd) He0) as [Hc Hndp Hnda Hsplit Hdisj Hlast].
      assert (Hw : ~ In w (verts p0) /\ ~ In w a0).
      { split; intro Hin; assert (H : In w (remove eq_dec w avail)) by (apply Hsplit; tauto);
        apply in_remove in H; tauto. }
      constructor.
      * econstructor; eauto.
      * simpl. constructor; tauto.
      * exact Hnda.
      * intro x. simpl. split.
        -- intro Hin. destruct (eq_dec w x); [tauto|].
           assert (H : In x (remove eq_dec w avail)) by (apply in_in_remove; auto).
           apply Hsplit in H. tauto.
        -- intros [[->|Hin]|Hin]; auto;
           assert (H : In x (remove eq_dec w avail)) by (apply Hsplit; tauto); apply in_remove in H; tauto.
      * simpl. intros x [<-|Hin]; [tauto | auto].
      * simpl. exact Hlast.
    + injection He as <- <-. constructor; simpl; try constructor; try tauto.
      intros w0 t0 H; simpl in H. rewrite Hn in H. injection H as <- <-. intro Hin. apply mem_In in Hin. congruence.
  - injection He as <- <-. constructor; simpl; try constructor; try tauto. intros w0 t0 H; simpl in H; congruence.
Qed.


Hypothesis next_sym : forall v s w t, next v s = Some (w, t) -> next w t = Some (v, s).

Lemma chain_local v s p : chain v s p -> forall x tx, In (x, tx) p ->
  (exists u su, (u = v /\ su = s \/ In u (verts p)) /\ next u su = Some (x, tx)) /\
  (forall w t, next x (flip tx) = Some (w, t) -> In w (verts p) \/ (x, flip tx) = last_out v s p).
Proof.
  induction 1 as [v s | v s w0 t0 p Hn Hc IH]; intros x tx Hin; [destruct Hin|].
  destruct Hin as [Heq | Hin].
  - injection Heq as <- <-. split.
    + exists v, s. split; [left; auto | exact Hn].
    + intros w t Hnx. simpl. destruct p as [|[w1 t1] p'].
      * right. reflexivity.
      * left. inversion Hc; subst. rewrite Hnx in H3. injection H3 as -> ->. simpl. auto.
  - destruct (IH _ _ Hin) as [(u & su & Hu & Hnu) Hsucc]. split.
    + exists u, su. split; [|exact Hnu]. right. simpl. destruct Hu as [[-> ->]|Hu]; auto.
    + intros w t Hnx. destruct (Hsucc _ _ Hnx) as [H|H]; [left; simpl; auto | right; simpl; exact H].
Qed.

Definition build (avail : list V) (seed : V) :=
  let a1 := remove eq_dec seed avail in
  let '(lp, a2) := extend (S (length a1)) a1 seed L in
  let '(rp, a3) := extend (S (length a2)) a2 seed R in (lp, rp, a3).

Definition node_verts (lp : list (V*side)) (seed : V) (rp : list (V*side)) := rev (verts lp) ++ seed :: verts rp.

Lemma In_verts x p : In x (verts p) -> exists tx, In (x, tx) p.
Proof. unfold verts. rewrite in_map_iff. intros [[y t] [<- H]]. eauto. Qed.

Lemma in_node x lp seed rp : In x (node_verts lp seed rp) <-> In x (verts lp) \/ x = seed \/ In x (verts rp).
Proof. unfold node_verts. rewrite in_app_iff, <- in_rev. simpl. intuition. Qed.

Lemma side_cases (s t : side) : s = t \/ s = flip t.
Proof. destruct s, t; simpl; auto. Qed.

(* Lemma A *)
Lemma build_closed avail seed lp rp a3 :
  NoDup avail -> In seed avail -> build avail seed = (lp, rp, a3) ->
  (NoDup (node_verts lp seed rp) /\ NoDup a3 /\
   (forall x, In x avail <-> In x (node_verts lp seed rp) \/ In x a3) /\
   (forall x, In x (node_verts lp seed rp) -> ~ In x a3)) /\
  forall x s w t, In x (node_verts lp seed rp) -> next x s = Some (w, t) ->
     In w (node_verts lp seed rp) \/ ~ In w avail.
Proof.
  intros Hnd Hseed Hb. unfold build in Hb.
  set (a1 := remove eq_dec seed avail) in *.
  destruct (extend (S (length a1)) a1 seed L) as [lp0 a2] eqn:HeL.
  destruct (extend (S (length a2)) a2 seed R) as [rp0 a3'] eqn:HeR.
  injection Hb as <- <- <-.
  assert (Hnd1 : NoDup a1) by (apply NoDup_remove_; auto).
  destruct (extend_spec _ _ _ _ _ _ (Nat.lt_succ_diag_r _) Hnd1 HeL) as [HcL HndL Hnd2 HspL HdjL HstL].
  destruct (extend_spec _ _ _ _ _ _ (Nat.lt_succ_diag_r _) Hnd2 HeR) as [HcR HndR Hnd3 HspR HdjR HstR].
  assert (Ha1 : forall x, In x a1 <-> In x avail /\ x <> seed).
  { intro x. unfold a1. split; [intro H; apply in_remove in H; tauto | intros [H1 H2]; apply in_in_remove; auto]. }
  assert (Hcases : forall x, In x avail <-> x = seed \/ In x (verts lp0) \/ In x (verts rp0) \/ In x a3').
  { intro x. split.
    - intro Hx. destruct (eq_dec x seed); [auto|]. assert (H : In x a1) by (apply Ha1; auto).
      apply HspL in H. destruct H as [H|H]; [auto|]. apply HspR in H. tauto.
    - intros [->|[H|[H|H]]]; auto.
      + apply Ha1, HspL; auto.
      + apply Ha1, HspL. right. apply HspR. auto.
      + apply Ha1, HspL. right. apply HspR. auto. }
  assert (HseedL : ~ In seed (verts lp0)) by (intro H; assert (In seed a1) by (apply HspL; auto); apply Ha1 in H0; tauto).
  assert (HseedR : ~ In seed (verts rp0)) by (intro H; assert (In seed a1) by (apply HspL; right; apply HspR; auto); apply Ha1 in H0; tauto).
  assert (Hseed3 : ~ In seed a3') by (intro H; assert (In seed a1) by (apply HspL; right; apply HspR; auto); apply Ha1 in H0; tauto).
  assert (HLR : forall x, In x (verts lp0) -> ~ In x (verts rp0)).
  { intros x H1 H2. apply (HdjL x H1). apply HspR. auto. }
  split.
  - split; [|split; [exact Hnd3|split]].
    + unfold node_verts. apply NoDup_app_; [apply NoDup_rev; auto | constructor; auto |].
      intros x H1 H2. apply in_rev in H1. destruct H2 as [<-|H2]; [tauto | eapply HLR; eauto].
    + intro x. rewrite in_node, Hcases. tauto.
    + intros x Hx. apply in_node in Hx. destruct Hx as [H|[->|H]]; auto.
      intro H3. apply (HdjL x H). apply HspR. auto.
  - intros x s w t Hx Hnx. apply in_node in Hx.
    (* w not in a3' suffices *)
    assert (Hgoal : ~ In w a3' -> In w (node_verts lp0 seed rp0) \/ ~ In w avail).
    { intro Hw. destruct (in_dec eq_dec w avail) as [Hin|]; [|auto]. left. apply in_node.
      apply Hcases in Hin. tauto. }
    assert (Hgoal2 : ~ In w a2 -> In w (node_verts lp0 seed rp0) \/ ~ In w avail).
    { intro Hw. apply Hgoal. intro H. apply Hw. apply HspR. auto. }
    destruct Hx as [Hx|[->|Hx]].
    + (* x in left path *)
      destruct (In_verts _ _ Hx) as [tx Hin].
      destruct (chain_local _ _ _ HcL _ _ Hin) as [(u & su & Hu & Hnu) Hsucc].
      destruct (side_cases s tx) as [->| ->].
      * apply next_sym in Hnu. rewrite Hnu in Hnx. injection Hnx as <- <-.
        left. apply in_node. destruct Hu as [[-> _]|Hu]; auto.
      * destruct (Hsucc _ _ Hnx) as [H|H]; [left; apply in_node; auto|].
        apply Hgoal2. unfold stuck in HstL. rewrite <- H in HstL. simpl in HstL. eauto.
    + (* seed *)
      destruct s.
      * destruct lp0 as [|[w0 t0] lp'].
        -- apply Hgoal2. unfold stuck in HstL. simpl in HstL. eauto.
        -- inversion HcL; subst. rewrite Hnx in H3. injection H3 as -> ->. left. apply in_node. simpl. auto.
      * destruct rp0 as [|[w0 t0] rp'].
        -- apply Hgoal. unfold stuck in HstR. simpl in HstR. eauto.
        -- inversion HcR; subst. rewrite Hnx in H3. injection H3 as -> ->. left. apply in_node. simpl. auto.
    + destruct (In_verts _ _ Hx) as [tx Hin].
      destruct (chain_local _ _ _ HcR _ _ Hin) as [(u & su & Hu & Hnu) Hsucc].
      destruct (side_cases s tx) as [->| ->].
      * apply next_sym in Hnu. rewrite Hnu in Hnx. injection Hnx as <- <-.
        left. apply in_node. destruct Hu as [[-> _]|Hu]; auto.
      * destruct (Hsucc _ _ Hnx) as [H|H]; [left; apply in_node; auto|].
        apply Hgoal. unfold stuck in HstR. rewrite <- H in HstR. simpl in HstR. eauto.
Qed.


Fixpoint compress (order : list V) (avail : list V) : list (list V) :=
  match order with
  | [] => []
  | v :: o =>
      if mem v avail then
        let '(lp, rp, a') := build avail v in node_verts lp v rp :: compress o a'
      else compress o avail
  end.

Variable U : list V.   (* the universe: all table ids *)
Definition closed (avail : list V) : Prop :=
  forall x s w t, In x avail -> next x s = Some (w, t) -> In w U -> In w avail.

Theorem compress_partition order : forall avail,
  NoDup avail -> (forall x, In x avail -> In x order) ->
  NoDup (concat (compress order avail)) /\ (forall x, In x (concat (compress order avail)) <-> In x avail).
Proof.
  induction order as [|v o IH]; intros avail Hnd Hincl; simpl.
  - split; [constructor|]. intro x; split; [tauto|]. intro H; apply Hincl in H; destruct H.
  - destruct (mem v avail) eqn:Hm.
    + apply mem_In in Hm. destruct (build avail v) as [[lp rp] a'] eqn:Hb.
      destruct (build_closed _ _ _ _ _ Hnd Hm Hb) as [(HndN & Hnda & Hsp & Hdj) _].
      assert (Hincl' : forall x, In x a' -> In x o).
      { intros x Hx. assert (Hxa : In x avail) by (apply Hsp; auto). destruct (Hincl _ Hxa) as [<-|]; auto.
        exfalso. apply (Hdj v); auto. apply in_node; auto. }
      destruct (IH a' Hnda Hincl') as [IH1 IH2]. simpl. split.
      * apply NoDup_app_; auto. intros x H1 H2. apply IH2 in H2. eapply Hdj; eauto.
      * intro x. rewrite in_app_iff, IH2, Hsp. tauto.
    + apply IH; auto. intros x Hx. destruct (Hincl _ Hx) as [<-|]; auto.
      exfalso. apply mem_In in Hx. congruence.
Qed.

Theorem compress_maximal order : forall avail,
  NoDup avail -> (forall x, In x avail -> In x order) -> closed avail ->
  forall N, In N (compress order avail) ->
  forall x s w t, In x N -> next x s = Some (w, t) -> In w U -> In w N.
Proof.
  induction order as [|v o IH]; intros avail Hnd Hincl Hcl N HN; simpl in HN; [destruct HN|].
  destruct (mem v avail) eqn:Hm.
  - apply mem_In in Hm. destruct (build avail v) as [[lp rp] a'] eqn:Hb.
    destruct (build_closed _ _ _ _ _ Hnd Hm Hb) as [(HndN & Hnda & Hsp & Hdj) HA].
    destruct HN as [<-|HN].
    + intros x s w t Hx Hn Hw. destruct (HA _ _ _ _ Hx Hn) as [H|H]; auto.
      exfalso. apply H. apply (Hcl x s w t); auto. apply Hsp; auto.
    + assert (Hincl' : forall x, In x a' -> In x o).
      { intros x Hx. assert (Hxa : In x avail) by (apply Hsp; auto). destruct (Hincl _ Hxa) as [<-|]; auto.
        exfalso. apply (Hdj v); auto. apply in_node; auto. }
      apply (IH a'); auto.
      intros x s w t Hx Hn Hw.
      assert (Hxa : In x avail) by (apply Hsp; auto).
      assert (Hwa : In w avail) by (apply (Hcl x s w t); auto).
      apply Hsp in Hwa. destruct Hwa as [HwN|]; auto. exfalso.
      apply next_sym in Hn. destruct (HA _ _ _ _ HwN Hn) as [H|H]; [eapply Hdj; eauto | tauto].
  - apply (IH avail); auto. intros x Hx. destruct (Hincl _ Hx) as [<-|]; auto.
    exfalso. apply mem_In in Hx. congruence.
Qed.

End Walk.
