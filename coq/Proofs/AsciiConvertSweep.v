(* C16: the exhaustive part of the convert_bases proof.  One byte of the result of [convert_bases_vec]
   depends on its own byte and on the 16-bit lane it lives in (srli_epi16 crosses the byte boundary inside
   a lane), and on its position only through the tables.  [conv_byte] is that per-byte function; the
   sweep evaluates it at all 32 positions for all 65 536 values of the lane (lo, hi). *)
From Coq Require Import NArith List Bool Arith Lia.
From DBG Require Import Gen.SourceConsts Spec.Dna Packed.Avx2Model Packed.AsciiModel.
Import ListNotations.
Open Scope N_scope.

Definition shuf1 (tbl : vec) (lane : nat) (c : N) : N :=
  if N.testbit c 7 then 0 else nth (16 * lane + N.to_nat (N.land c 15)) tbl 0.

(* byte i of (res, mask) as a function of byte i of the input [c] and of its 16-bit lane [w]; the position
   enters through its 128-bit lane, its parity and the bytes of the two constant vectors at i *)
Definition conv_core (lane : nat) (par : bool) (mk z : N) (c w : N) : N * N :=
  let sr := if Nat.ltb 15 avx_srli_hi then 0 else N.shiftr w (N.of_nat avx_srli_hi) in
  let srb := if par then lo8 sr else hi8 sr in
  let hi := N.land srb mk in
  let m := if N.land (shuf1 lo_lut lane c) (shuf1 hi_lut lane hi) =? z then 255 else 0 in
  (N.land (N.lxor m 255) (shuf1 lut lane c), m).
Definition conv_byte (i : nat) (c w : N) : N * N :=
  conv_core (i / 16) (Nat.even i) (nth i lo_mask 0) (nth i setzero_si256 0) c w.

Definition lane_word (lo hi : N) : N := N.lor lo (N.shiftl hi 8 mod 2 ^ 16).
Definition bytes256 : list N := map N.of_nat (seq 0 256).

Definition conv_expected (c : N) : N * N := (ascii_base c, if ascii_valid c then 0 else 255).
Definition pair_eqb (a b : N * N) : bool := (fst a =? fst b) && (snd a =? snd b).

Definition lane_pair_ok (lane : nat) (par : bool) (lo hi : N) : bool :=
  pair_eqb (conv_core lane par avx_lo_mask 0 (if par then lo else hi) (lane_word lo hi))
           (conv_expected (if par then lo else hi)).

(* both 128-bit lanes x both bytes of a 16-bit lane x all 65 536 values of the 16-bit lane *)
Lemma convert_lane_pair_sweep :
  forallb (fun lane => forallb (fun par => forallb (fun lo => forallb (fun hi =>
     lane_pair_ok lane par lo hi) bytes256) bytes256) [true; false]) [0; 1]%nat = true.
Proof. vm_compute. reflexivity. Qed.

(* the 32 positions: the constant vectors are uniform, the lane index is 0 or 1 *)
Lemma positions_sweep :
  forallb (fun i => (nth i lo_mask 0 =? avx_lo_mask) && (nth i setzero_si256 0 =? 0) &&
                    (Nat.ltb (i / 16) 2)) (seq 0 32) = true.
Proof. vm_compute. reflexivity. Qed.

(* the byte tables of lib.rs agree with the specification-level functions on every byte *)
Lemma tables_sweep :
  forallb (fun c => (base_to_bits c =? ascii_base c) &&
                    (match dna_only_base_to_bits c with
                     | Some b => ascii_valid c && (b =? ascii_base c)
                     | None => negb (ascii_valid c) end) &&
                    (nth (N.to_nat c) tbl_is_valid_base 0 =? (if ascii_valid c then 1 else 0)) &&
                    (let v := nth (N.to_nat c) tbl_hashn_arms 4 in
                     if ascii_valid c then v =? ascii_base c else v =? 4)) bytes256 = true.
Proof. vm_compute. reflexivity. Qed.
