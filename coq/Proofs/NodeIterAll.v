(* C18, second sentence: iterating ALL nodes of a constructed graph visits every k-mer of the table exactly once.
   Per node, stepping with next() until the reported count is used up yields exactly the node's k-mers
   (spec_run_all_next, the list iterator; C18_iter_refines ties the real iterator to it); over all nodes of
   compress_kmers's output the canonical forms of the visited k-mers are a permutation of the table keys, which are
   pairwise distinct (C01 partition) - so an index built from that iteration sees every key exactly once. *)
From Coq Require Import NArith List Bool Arith Lia Permutation.
From DBG Require Import Spec.Dna Spec.GraphIndex Spec.Unitig Spec.CompressSpec Algo.Compress Algo.NodeIter
  Proofs.CompressBasics Proofs.CompressRefine Proofs.CompressWalk Proofs.CompressProofs.
Import ListNotations.

Lemma spec_run_all_next {A} : forall (l : list A), spec_run l (repeat CNext (length l)) = map Some l.
Proof. induction l as [|x l IH]; [reflexivity|]. cbn [length repeat spec_run map]. now rewrite IH. Qed.
Lemma spec_run_after_all {A} (l : list A) n : spec_run l (repeat CNext (length l) ++ repeat CNext n) = map Some l ++ repeat None n.
Proof.
  induction l as [|x l IH]; cbn [length repeat app spec_run map].
  - induction n as [|n IHn]; [reflexivity|]. cbn [repeat spec_run]. now rewrite IHn.
  - now rewrite IH.
Qed.

Section All.
Variable D : Type.
Variable reduce : D -> D -> D.
Variable join : D -> D -> bool.
Variable K : nat.
Variable stranded : bool.

(* the k-mers visited by iterating the nodes in order, each node from its first to its last k-mer *)
Definition iter_all_nodes (nodes : list (node D)) : list dna := concat (map (fun n => kmers K (n_seq D n)) nodes).

Theorem all_nodes_once : (1 <= K)%nat -> forall T : table D, tbl_ok D K stranded T -> exts_sym D stranded T ->
  exists nodes, compress_kmers D reduce join stranded T = Some nodes /\
    Permutation (map (canon_k stranded) (iter_all_nodes nodes)) (keys D T) /\
    NoDup (map (canon_k stranded) (iter_all_nodes nodes)).
Proof.
  intros HK T Hok Hsym.
  destruct (compress_c01 D reduce join K stranded HK T Hok Hsym) as [nodes [E [P _]]].
  exists nodes. split; [exact E|].
  assert (Eq : map (canon_k stranded) (iter_all_nodes nodes) = concat (map (node_keys D K stranded) nodes)).
  { unfold iter_all_nodes. rewrite concat_map, map_map. reflexivity. }
  rewrite Eq. split; [exact P|]. apply (Permutation_NoDup (Permutation_sym P)). exact (ok_nodup D K stranded T Hok).
Qed.
End All.
