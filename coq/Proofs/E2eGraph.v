(* e2e, graph level: for a table T whose extension bytes are the membership of canonical (K+1)-mers in a set S
   ([links_ok]) and whose payloads are (colour of the key, [id of the key]), the graph compress_kmers builds
   - has exactly the keys of T as its k-mers and exactly S as its link set,
   - is a unitig graph of its own link set (every inner step is a merge, every merge is an inner step or closes a node),
   - carries the payloads of its k-mers. *)
From Coq Require Import NArith List Bool Arith Lia Permutation.
From DBG Require Import Proofs.AbstractWalk.
From DBG Require Import Spec.Dna Spec.GraphIndex Spec.Unitig Spec.CompressSpec Packed.ExtsModel Algo.Compress
  Algo.KmerHist Algo.GraphModel Spec.EdgeSpec Check.GraphCheck Check.PipelineCheck
  Proofs.ListFacts Proofs.DnaFacts Proofs.KmerAlgebra Proofs.ExtsProofs Proofs.ExtsWalk
  Proofs.CompressBasics Proofs.CompressRefine Proofs.CompressWalk Proofs.CompressProofs Proofs.CompressGraphOk
  Proofs.UnitigProofs Proofs.FilterProofs Proofs.GraphQueryProofs Proofs.PipelineCheckProofs Proofs.UnitigUnique
  Proofs.E2eDefs Proofs.E2eSym.
Import ListNotations.
Local Open Scope nat_scope.

(* ---- windows of a sequence ---- *)
Lemma kmers_nth K (s : dna) i : i < length s + 1 - K -> nth i (kmers K s) [] = kmer_at K s i.
Proof.
  intro H. unfold kmers. rewrite (nth_indep _ [] (kmer_at K s 0)) by (rewrite map_length, seq_length; exact H).
  rewrite map_nth. f_equal. now rewrite seq_nth.
Qed.
Lemma kmers_len K (s : dna) : length (kmers K s) = length s + 1 - K.
Proof. unfold kmers. now rewrite map_length, seq_length. Qed.
Lemma kmer_at_S_snoc K (s : dna) p : p + S K <= length s -> kmer_at (S K) s p = kmer_at K s p ++ [nth (p + K) s 0%N].
Proof.
  intro H. unfold kmer_at, sub. rewrite (firstn_S_snoc K (skipn p s) 0%N) by (rewrite skipn_length; lia).
  now rewrite nth_skipn_'.
Qed.
Lemma kmer_at_S_cons K (s : dna) p : p + S K <= length s -> kmer_at (S K) s p = nth p s 0%N :: kmer_at K s (S p).
Proof. intro H. unfold kmer_at, sub. rewrite (skipn_S_nth p s 0%N) by lia. reflexivity. Qed.
Lemma kmer_at_next K (s : dna) p : 1 <= K -> p + S K <= length s ->
  kmer_at K s (S p) = extend (kmer_at K s p) (nth (p + K) s 0%N) DRight.
Proof. intros HK H. cbn [extend]. symmetry. apply kmer_at_shift; lia. Qed.
Lemma kmer_at_hd K (s : dna) p : 1 <= K -> p + K <= length s -> hd 0%N (kmer_at K s p) = nth p s 0%N.
Proof.
  intros HK H. unfold kmer_at, sub. rewrite (skipn_S_nth p s 0%N) by lia. destruct K; [lia|]. reflexivity.
Qed.
Lemma kmer_at_last K (s : dna) p : 1 <= K -> p + K <= length s -> last (kmer_at K s p) 0%N = nth (p + K - 1) s 0%N.
Proof.
  intros HK H. rewrite <- nth_last. unfold kmer_at. rewrite sub_length by exact H. rewrite nth_sub by lia. f_equal. lia.
Qed.

Lemma e_get_has e dir b : In b (e_get e dir) <-> In b bases4 /\ e_has_ext e dir b = true.
Proof.
  unfold e_get. rewrite filter_In. unfold bases4.
  split; intros [Hb H]; (split; [exact Hb|]); cbn [In] in Hb; destruct Hb as [<-|[<-|[<-|[<-|[]]]]]; exact H.
Qed.
Lemma wf_nth_ (s : dna) i : wf_dna s -> (nth i s 0 < 4)%N.
Proof.
  intro W. destruct (Nat.lt_ge_cases i (length s)) as [H|H].
  - unfold wf_dna in W. rewrite Forall_forall in W. apply W. now apply nth_In.
  - rewrite nth_overflow by exact H. lia.
Qed.
Lemma in_bases4_lt b : In b bases4 -> (b < 4)%N.
Proof. unfold bases4. cbn [In]. intros [<-|[<-|[<-|[<-|[]]]]]; lia. Qed.
Lemma linked_and {A} (R R' : A -> A -> Prop) l : linked R l -> linked R' l -> linked (fun a b => R a b /\ R' a b) l.
Proof.
  induction l as [|a [|b r] IH]; cbn [linked]; auto. intros [H1 H2] [H3 H4]. split; [split; assumption|]. apply IH; assumption.
Qed.

Lemma num_ext_filter e dir : (e < 256)%N ->
  (e_num_ext_dir e dir = 1%N <-> length (filter (e_has_ext e dir) bases4) = 1).
Proof.
  intro He.
  assert (E : forallb (fun e => forallb (fun dir =>
     Bool.eqb (e_num_ext_dir e dir =? 1)%N (Nat.eqb (length (filter (e_has_ext e dir) bases4)) 1)) bools) all_exts = true)
    by (vm_compute; reflexivity).
  rewrite forallb_forall in E. specialize (E e (in_all_exts e He)).
  rewrite forallb_forall in E. specialize (E dir (in_bools dir)). apply eqb_prop in E.
  rewrite <- N.eqb_eq, <- Nat.eqb_eq, E. reflexivity.
Qed.
Lemma filter_single e dir b : (e < 256)%N -> e_num_ext_dir e dir = 1%N -> (b < 4)%N -> e_has_ext e dir b = true ->
  filter (e_has_ext e dir) bases4 = [b].
Proof.
  intros He Hn Hb Hh. apply (num_ext_filter e dir He) in Hn.
  assert (Hin : In b (filter (e_has_ext e dir) bases4)) by (apply filter_In; split; [now apply in_bases4 | exact Hh]).
  destruct (filter (e_has_ext e dir) bases4) as [|c [|? ?]]; try discriminate. destruct Hin as [->|[]]. reflexivity.
Qed.
Lemma in_combine_tl_nth {A} (l : list A) d x y : In (x, y) (combine l (tl l)) ->
  exists i, S i < length l /\ x = nth i l d /\ y = nth (S i) l d.
Proof.
  induction l as [|a [|b r] IH]; cbn [tl combine]; intro H; try (destruct H; fail).
  destruct H as [H|H].
  - injection H as <- <-. exists 0. cbn. split; [lia | auto].
  - destruct (IH H) as (i & Hi & E1 & E2). exists (S i). cbn [length] in *. split; [lia|]. auto.
Qed.

Section Graph.
Variable K : nat.
Variable st : bool.
Variable mode : N.
Hypothesis HK : 1 <= K.
Variable T : table pay.
Variable LS : list dna.
Variables idf colf : dna -> N.
Hypothesis Hok : tbl_ok pay K st T.
Hypothesis HL : links_loose pay st T LS.
Hypothesis Hdata : forall ent, In ent T -> e_data pay ent = (colf (e_key pay ent), [idf (e_key pay ent)]).
Variable g : list node_t.
Hypothesis Hc : compress_kmers pay pay_reduce (pay_join mode) st T = Some g.

Local Notation Hsym := (links_exts_sym pay K st HK T LS Hok HL).
Local Notation Hpal := (links_exts_sym_pal pay K st HK T LS Hok HL).
Local Notation oexts := (Unitig.oexts pay st T).
Local Notation ck := (canon_k st).
Local Notation join := (pay_join mode).
Local Notation wm := (wm pay st T join).
Local Notation step_ok := (CompressSpec.step_ok pay st T).

Lemma join_sym : forall a b : pay, join a b = join b a.
Proof. intros a b. unfold pay_join. destruct (mode =? 0)%N; [reflexivity | apply N.eqb_sym]. Qed.

(* ---- what is known about one node ---- *)
Lemma node_len_wf n : In n g -> K <= length (nd_seq n) /\ wf_dna (nd_seq n).
Proof.
  intro Hn. destruct (nodes_facts pay pay_reduce join K st HK T Hok Hsym Hpal g Hc n Hn) as [F1 F2 _ _ _]. auto.
Qed.
Lemma node_chain n : In n g -> linked (fun a b => step_ok a b /\ wm a b) (kmers K (nd_seq n)).
Proof.
  intro Hn. apply linked_and.
  - pose proof (nodes_rel pay pay_reduce join K st HK T Hok Hsym g Hc) as Hrel.
    destruct (Forall2_in_l _ _ _ Hrel n Hn) as [[[lp i] rp] [Hin Hr]].
    now destruct (node_facts pay pay_reduce join K st HK T Hok Hsym n lp i rp Hr Hin) as (_ & _ & _ & F & _).
  - exact (nodes_merge pay K st HK T Hok Hsym join join_sym pay_reduce g n Hc Hn).
Qed.
Lemma node_step n p : In n g -> p + S K <= length (nd_seq n) ->
  step_ok (kmer_at K (nd_seq n) p) (kmer_at K (nd_seq n) (S p)) /\ wm (kmer_at K (nd_seq n) p) (kmer_at K (nd_seq n) (S p)).
Proof.
  intros Hn Hp. pose proof (linked_nth _ [] _ (node_chain n Hn) p) as H. rewrite kmers_len in H.
  rewrite !kmers_nth in H by lia. apply H. lia.
Qed.
Lemma node_win_key n w : In n g -> In w (kmers K (nd_seq n)) -> In (ck w) (keys pay T).
Proof.
  intros Hn Hw. destruct (nodes_facts pay pay_reduce join K st HK T Hok Hsym Hpal g Hc n Hn) as [_ _ F _ _]. now apply F.
Qed.
Lemma node_win_ok n p : In n g -> p + K <= length (nd_seq n) ->
  let x := kmer_at K (nd_seq n) p in length x = K /\ wf_dna x /\ x <> [] /\ In (ck x) (keys pay T) /\ exists e, oexts x = Some e.
Proof.
  intros Hn Hp x. destruct (node_len_wf n Hn) as [L W]. destruct (kmer_at_ok K _ p W Hp) as [Lx Wx]. fold x in Lx, Wx.
  assert (Hk : In (ck x) (keys pay T)).
  { apply (node_win_key n); auto. unfold kmers. apply in_map_iff. exists p. split; [reflexivity|]. apply in_seq. lia. }
  repeat split; auto.
  - intro E. rewrite E in Lx. cbn in Lx. lia.
  - now apply (oexts_of_key pay K st T Hok).
Qed.
Lemma node_term n s : In n g -> exists e, oexts (term_kmer K (nd_seq n) s) = Some e /\
  forall b, In b bases4 -> e_has_ext (nd_exts n) (dirb s) b = e_has_ext e (dirb s) b.
Proof. intro Hn. exact (node_term_exts pay pay_reduce join K st HK T Hok Hsym Hpal g Hc n s Hn). Qed.

(* ---- the k-mers ---- *)
Theorem graph_kmers_keys : Permutation (graph_kmers K st g) (keys pay T).
Proof.
  destruct (compress_c01 pay pay_reduce join K st HK T Hok Hsym) as [g' [Hc' [Hp _]]].
  assert (g' = g) by congruence. subst g'. unfold partition_ok in Hp. unfold graph_kmers. rewrite flat_map_concat_map. exact Hp.
Qed.
Lemma graph_kmers_nodup : NoDup (graph_kmers K st g).
Proof. eapply Permutation_NoDup; [symmetry; apply graph_kmers_keys | apply (ok_nodup _ _ _ _ Hok)]. Qed.

(* ---- the links: every link of the graph is in S ---- *)
Lemma graph_links_sound w : In w (graph_links K st g) -> In w LS.
Proof.
  unfold graph_links. intro H. apply in_flat_map in H as [n [Hn H]].
  destruct (node_len_wf n Hn) as [L W]. unfold node_links in H. apply in_app_or in H as [H|H]; [|apply in_app_or in H as [H|H]].
  - apply in_map_iff in H as [v [<- Hv]]. apply kmers_in in Hv as [p [Hp ->]].
    destruct (node_step n p Hn Hp) as [(ex & ey & Hx & Hy & Hh & _) _].
    destruct (node_win_ok n p Hn ltac:(lia)) as (Lx & Wx & _).
    rewrite kmer_at_S_snoc by exact Hp. rewrite kmer_at_last in Hh by lia. replace (S p + K - 1) with (p + K) in Hh by lia.
    exact (frame_fwd pay K st HK T LS Hok HL _ ex DRight _ Wx (wf_nth_ _ _ W) Hx Hh).
  - apply in_map_iff in H as [b [<- Hb]]. apply e_get_has in Hb as [Hb Hh].
    destruct (node_term n DLeft Hn) as (e & He & Heb). cbn [term_kmer dirb] in He, Heb. rewrite (Heb b Hb) in Hh.
    destruct (term_kmer_ok K _ DLeft W L) as [_ Wx]. cbn [term_kmer] in Wx.
    exact (frame_fwd pay K st HK T LS Hok HL _ e DLeft b Wx (in_bases4_lt b Hb) He Hh).
  - apply in_map_iff in H as [b [<- Hb]]. apply e_get_has in Hb as [Hb Hh].
    destruct (node_term n DRight Hn) as (e & He & Heb). cbn [term_kmer dirb] in He, Heb. rewrite (Heb b Hb) in Hh.
    destruct (term_kmer_ok K _ DRight W L) as [_ Wx]. cbn [term_kmer] in Wx.
    exact (frame_fwd pay K st HK T LS Hok HL _ e DRight b Wx (in_bases4_lt b Hb) He Hh).
Qed.

Lemma unique_ext e dir b c : (e < 256)%N -> e_num_ext_dir e dir = 1%N -> (b < 4)%N -> (c < 4)%N ->
  e_has_ext e dir b = true -> e_has_ext e dir c = true -> b = c.
Proof.
  intros He Hn Hb Hcc H1 H2. destruct (unique_ext_spec e dir He Hn) as (u & _ & _ & _ & Hu).
  rewrite (Hu b Hb H1), (Hu c Hcc H2). reflexivity.
Qed.
Lemma oexts_lt_ x e : oexts x = Some e -> (e < 256)%N.
Proof. exact (oexts_lt pay K st T Hok Hsym Hpal x e). Qed.

(* an extension recorded at an occurrence inside a node is a link of the node: the step to its neighbour, or an
   extension of the node's end *)
Lemma occ_link n p e d b : In n g -> p + K <= length (nd_seq n) -> (b < 4)%N ->
  oexts (kmer_at K (nd_seq n) p) = Some e -> e_has_ext e (dirb d) b = true ->
  In (cn st (lk (kmer_at K (nd_seq n) p) d b)) (node_links K st n).
Proof.
  intros Hn Hp Hb He Hh. destruct (node_len_wf n Hn) as [L W]. pose proof (oexts_lt_ _ _ He) as He256.
  unfold node_links. destruct d; cbn [dirb lk] in *.
  - destruct p as [|q].
    + apply in_or_app; right; apply in_or_app; left. apply in_map_iff. exists b. split; [reflexivity|].
      apply e_get_has. split; [now apply in_bases4|]. destruct (node_term n DLeft Hn) as (e' & He' & Heb).
      cbn [term_kmer dirb] in He', Heb. unfold first_kmer in He'. rewrite He in He'. injection He' as <-.
      rewrite Heb by (now apply in_bases4). exact Hh.
    + apply in_or_app; left. destruct (node_step n q Hn ltac:(lia)) as [(ex & ey & _ & Hy & _ & Hhy) (ex' & ey' & _ & _ & _ & Hy' & _ & _ & _ & Hny & _)].
      rewrite He in Hy, Hy'. injection Hy as <-. injection Hy' as <-.
      rewrite kmer_at_hd in Hhy by lia.
      assert (E : b = nth q (nd_seq n) 0%N) by (apply (unique_ext e false); auto using wf_nth_).
      rewrite E, <- kmer_at_S_cons by lia. apply in_map. unfold kmers. apply in_map_iff. exists q. split; [reflexivity|].
      apply in_seq. lia.
  - destruct (Nat.eq_dec (p + K) (length (nd_seq n))) as [Hl|Hl].
    + apply in_or_app; right; apply in_or_app; right. apply in_map_iff. exists b.
      assert (Ep : p = length (nd_seq n) - K) by lia. split; [unfold last_kmer; now rewrite <- Ep|].
      apply e_get_has. split; [now apply in_bases4|]. destruct (node_term n DRight Hn) as (e' & He' & Heb).
      cbn [term_kmer dirb] in He', Heb. unfold last_kmer in He'. rewrite <- Ep, He in He'. injection He' as <-.
      rewrite Heb by (now apply in_bases4). exact Hh.
    + apply in_or_app; left. destruct (node_step n p Hn ltac:(lia)) as [(ex & ey & Hx & _ & Hhx & _) (ex' & ey' & _ & _ & Hx' & _ & _ & _ & Hnx & _)].
      rewrite He in Hx, Hx'. injection Hx as <-. injection Hx' as <-.
      rewrite kmer_at_last in Hhx by lia. replace (S p + K - 1) with (p + K) in Hhx by lia.
      assert (E : b = nth (p + K) (nd_seq n) 0%N) by (apply (unique_ext e true); auto using wf_nth_).
      rewrite E, <- kmer_at_S_snoc by lia. apply in_map. unfold kmers. apply in_map_iff. exists p. split; [reflexivity|].
      apply in_seq. lia.
Qed.

Lemma key_canon ent : In ent T -> cn st (e_key pay ent) = e_key pay ent.
Proof. intro H. unfold cn. destruct st eqn:E; [reflexivity|]. now apply (ok_canon _ _ _ _ Hok). Qed.

Lemma key_link ent d b : In ent T -> (b < 4)%N -> e_has_ext (e_exts pay ent) (dirb d) b = true ->
  In (cn st (lk (e_key pay ent) d b)) (graph_links K st g).
Proof.
  intros Hin Hb Hh. destruct (key_facts pay K st HK T Hok ent Hin) as (Lk & Wk & Nk & He).
  assert (Hk : In (e_key pay ent) (graph_kmers K st g)).
  { eapply Permutation_in; [symmetry; apply graph_kmers_keys|]. unfold keys. now apply in_map. }
  unfold graph_kmers in Hk. apply in_flat_map in Hk as [n [Hn Hk]]. unfold node_kmers in Hk.
  apply in_map_iff in Hk as [x [Ex Hx]]. apply kmers_in in Hx as [p [Hp ->]].
  destruct (node_len_wf n Hn) as [L W]. destruct (kmer_at_ok K _ p W Hp) as [Lx Wx].
  unfold graph_links. apply in_flat_map. exists n. split; [exact Hn|].
  rewrite <- (key_canon ent Hin) in Ex. apply cn_eq_cases in Ex; auto.
  assert (Hcase : kmer_at K (nd_seq n) p = e_key pay ent \/
                  (st = false /\ kmer_at K (nd_seq n) p = rc (e_key pay ent) /\ e_key pay ent <> rc (e_key pay ent))).
  { destruct Ex as [Ex|[Hs Ex]]; [now left|]. destruct (list_eq_dec N.eq_dec (e_key pay ent) (rc (e_key pay ent))) as [E|E].
    - left. congruence.
    - right. auto. }
  destruct Hcase as [Ex'|(Hs & Ex' & Hne)].
  - rewrite <- Ex'. apply (occ_link n p (e_exts pay ent)); auto. rewrite Ex'. now apply (oexts_key pay K st T Hok Hsym Hpal).
  - assert (Hh' : e_has_ext (e_rc (e_exts pay ent)) (dirb (dflip d)) (comp b) = true).
    { rewrite has_ext_rc' by auto using comp_lt4. rewrite dflip_dflip, comp_involutive by exact Hb. exact Hh. }
    pose proof (occ_link n p (e_rc (e_exts pay ent)) (dflip d) (comp b) Hn Hp (comp_lt4 b)) as H.
    rewrite Ex' in H. specialize (H (oexts_rckey pay K st T Hok Hsym Hpal ent Hin Hs Hne) Hh').
    rewrite <- rc_lk, cn_rc_ in H; auto. now apply lk_wf.
Qed.

(* closure and the source clause of [links_ok]: only used for the completeness of the link set, [merge_elim] and
   maximality; everything else holds for tables whose extensions may lead to absent k-mers *)
Hypothesis Hcl : forall ent d b, In ent T -> (b < 4)%N -> e_has_ext (e_exts pay ent) (dirb d) b = true ->
  In (canon_k st (extend (e_key pay ent) b d)) (keys pay T).
Hypothesis Hsrc : forall w, In w LS -> exists ent d b, In ent T /\ (b < 4)%N /\ w = cn st (lk (e_key pay ent) d b).

Lemma graph_links_complete w : In w LS -> In w (graph_links K st g).
Proof.
  intro Hw. destruct (Hsrc w Hw) as (ent & d & b & Hin & Hb & ->).
  destruct (key_facts pay K st HK T Hok ent Hin) as (Lk & Wk & Nk & He).
  destruct (kpal st (e_key pay ent)) eqn:P.
  - destruct (proj2 (ll_pal _ _ _ _ HL ent d b Hin Hb P) Hw) as [Hh|Hh]; [now apply key_link|].
    pose proof (key_link ent _ _ Hin (comp_lt4 b) Hh) as H. apply kpal_iff in P as [Hs P].
    rewrite P in H at 1. rewrite <- rc_lk, cn_rc_ in H; auto. now apply lk_wf.
  - apply key_link; auto. now apply (ll_np _ _ _ _ HL ent d b Hin Hb P).
Qed.

Theorem graph_links_iff w : In w (graph_links K st g) <-> In w LS.
Proof. split; [apply graph_links_sound | apply graph_links_complete]. Qed.

(* ---- the merge predicate of Check/PipelineCheck.v over the graph's own link set, in terms of the table ---- *)
Local Notation L := (graph_links K st g).
Local Notation kj := (kjoin_f mode colf).

Lemma has_link_iff v : has_link st L v = true <-> In (cn st v) LS.
Proof. unfold has_link. rewrite existsb_dna_in. apply graph_links_iff. Qed.
Lemma rlinks_np x e : wf_dna x -> oexts x = Some e -> kpal st x = false -> rlinks st L x = filter (e_has_ext e true) bases4.
Proof.
  intros W He P. unfold rlinks. apply filter_ext_in. intros b Hb. apply eq_true_iff_eq. rewrite has_link_iff.
  symmetry. exact (frame_iff pay K st HK T LS Hok HL x e DRight b W (in_bases4_lt b Hb) He P).
Qed.
Lemma llinks_np x e : wf_dna x -> oexts x = Some e -> kpal st x = false -> llinks st L x = filter (e_has_ext e false) bases4.
Proof.
  intros W He P. unfold llinks. apply filter_ext_in. intros b Hb. apply eq_true_iff_eq. rewrite has_link_iff.
  symmetry. exact (frame_iff pay K st HK T LS Hok HL x e DLeft b W (in_bases4_lt b Hb) He P).
Qed.
Lemma join_kj a b : In a T -> In b T -> join (e_data pay a) (e_data pay b) = kj (e_key pay a) (e_key pay b).
Proof.
  intros Ha Hb. rewrite (Hdata a Ha), (Hdata b Hb). unfold pay_join, kjoin_f. cbn [fst]. destruct (mode =? 0)%N; reflexivity.
Qed.

(* a merge, in the frame of x: y is the sole right neighbour of x, x the sole left neighbour of y *)
Definition fm (x y : dna) : Prop :=
  wf_dna x /\ length x = K /\ kpal st x = false /\ kpal st y = false /\ cn st x <> cn st y /\
  exists b ex ey, (b < 4)%N /\ y = extend x b DRight /\ oexts x = Some ex /\ oexts y = Some ey /\
    e_num_ext_dir ex true = 1%N /\ e_num_ext_dir ey false = 1%N /\
    e_has_ext ex true b = true /\ e_has_ext ey false (hd 0%N x) = true.

Lemma fm_wf_y x y : fm x y -> wf_dna y /\ length y = K /\ x <> [] /\ y <> [].
Proof.
  intros (W & Lx & _ & _ & _ & b & ex & ey & Hb & -> & _).
  assert (Nx : x <> []) by (intro E; rewrite E in Lx; cbn in Lx; lia).
  assert (Ly : length (extend x b DRight) = K) by (rewrite KmerAlgebra.extend_length by exact Nx; exact Lx).
  repeat split; auto.
  - now apply extend_wf.
  - intro E. rewrite E in Ly. cbn in Ly. lia.
Qed.

Lemma merge_intro x y : fm x y -> kj (cn st x) (cn st y) = true -> mergeableb st kj L x y = true.
Proof.
  intros Hfm Hj. destruct (fm_wf_y x y Hfm) as (Wy & Ly & Nx & Ny).
  destruct Hfm as (W & Lx & Px & Py & Hne & b & ex & ey & Hb & Ey & Hx & Hy & Nxx & Nyy & Hhx & Hhy).
  unfold mergeableb. rewrite (rlinks_np x ex W Hx Px), (llinks_np y ey Wy Hy Py).
  rewrite (filter_single ex true b (oexts_lt_ _ _ Hx) Nxx Hb Hhx).
  assert (Hc4 : (hd 0 x < 4)%N) by (apply wf_hd; auto).
  rewrite (filter_single ey false (hd 0%N x) (oexts_lt_ _ _ Hy) Nyy Hc4 Hhy).
  rewrite Hj, N.eqb_refl. change (palb st x) with (kpal st x). change (palb st y) with (kpal st y). rewrite Px, Py.
  replace (dna_eqb y (tl x ++ [b])) with true by (symmetry; apply dna_eqb_eq; exact Ey).
  replace (dna_eqb (cn st x) (cn st y)) with false by (symmetry; now apply dna_eqb_neq). reflexivity.
Qed.

Lemma merge_elim x y : wf_dna x -> length x = K -> In (ck x) (keys pay T) -> mergeableb st kj L x y = true ->
  fm x y /\ kj (cn st x) (cn st y) = true.
Proof.
  intros W Lx Hk Hm. unfold mergeableb in Hm.
  destruct (rlinks st L x) as [|b [|? ?]] eqn:Er; try discriminate.
  destruct (llinks st L y) as [|c [|? ?]] eqn:El; try discriminate.
  repeat (apply andb_true_iff in Hm as [Hm ?]).
  apply dna_eqb_eq in Hm. apply N.eqb_eq in H3. apply negb_true_iff in H2, H1, H0.
  change (palb st x) with (kpal st x) in H2. change (palb st y) with (kpal st y) in H1. apply dna_eqb_neq in H0.
  destruct (oexts_of_key pay K st T Hok x W Hk) as [ex Hx].
  rewrite (rlinks_np x ex W Hx H2) in Er.
  assert (Hbin : In b (filter (e_has_ext ex true) bases4)) by (rewrite Er; now left).
  apply filter_In in Hbin as [Hb4 Hhx]. apply in_bases4_lt in Hb4.
  assert (Nxx : e_num_ext_dir ex true = 1%N) by (apply (num_ext_filter ex true (oexts_lt_ _ _ Hx)); now rewrite Er).
  assert (Ey : y = extend x b DRight) by exact Hm.
  assert (Wy : wf_dna y) by (rewrite Ey; now apply extend_wf).
  pose proof (link_closed pay K st HK T LS Hok HL Hcl x ex DRight b W Lx Hb4 Hx Hhx) as Hky. rewrite <- Ey in Hky.
  destruct (oexts_of_key pay K st T Hok y Wy Hky) as [ey Hy].
  rewrite (llinks_np y ey Wy Hy H1) in El.
  assert (Hcin : In c (filter (e_has_ext ey false) bases4)) by (rewrite El; now left).
  apply filter_In in Hcin as [_ Hhy]. subst c.
  assert (Nyy : e_num_ext_dir ey false = 1%N) by (apply (num_ext_filter ey false (oexts_lt_ _ _ Hy)); now rewrite El).
  split; [|assumption]. repeat split; auto. exists b, ex, ey. repeat split; auto.
Qed.

(* ---- positions inside a node ---- *)
Lemma node_kmers_nodup n : In n g -> NoDup (map (cn st) (kmers K (nd_seq n))).
Proof. intro Hn. exact (flat_map_nodup_elem (node_kmers K st) g n graph_kmers_nodup Hn). Qed.
Lemma win_inj n p q : In n g -> p + K <= length (nd_seq n) -> q + K <= length (nd_seq n) ->
  cn st (kmer_at K (nd_seq n) p) = cn st (kmer_at K (nd_seq n) q) -> p = q.
Proof.
  intros Hn Hp Hq E. pose proof (node_kmers_nodup n Hn) as Hnd.
  apply (proj1 (NoDup_nth _ (cn st [])) Hnd); try (rewrite map_length, kmers_len; lia).
  rewrite !map_nth, !kmers_nth by lia. exact E.
Qed.
Lemma in_kmers_at K0 (s : dna) p : p + K0 <= length s -> In (kmer_at K0 s p) (kmers K0 s).
Proof. intro H. unfold kmers. apply in_map_iff. exists p. split; [reflexivity|]. apply in_seq. lia. Qed.

(* every step inside a node is a merge *)
Lemma inner_fm n p : In n g -> p + S K <= length (nd_seq n) ->
  fm (kmer_at K (nd_seq n) p) (kmer_at K (nd_seq n) (S p)) /\
  kj (cn st (kmer_at K (nd_seq n) p)) (cn st (kmer_at K (nd_seq n) (S p))) = true.
Proof.
  intros Hn Hp. destruct (node_len_wf n Hn) as [L W].
  destruct (node_step n p Hn Hp) as [(ex & ey & Hx & Hy & Hhx & Hhy) (ex' & ey' & entx & enty & Hx' & Hy' & Gx & Gy & Nx & Ny & Px & Py & Hj)].
  rewrite Hx in Hx'. injection Hx' as <-. rewrite Hy in Hy'. injection Hy' as <-.
  destruct (node_win_ok n p Hn ltac:(lia)) as (Lx & Wx & _).
  rewrite kmer_at_last in Hhx by lia. replace (S p + K - 1) with (p + K) in Hhx by lia.
  split.
  - repeat split; auto.
    + intro E. apply (win_inj n p (S p) Hn) in E; lia.
    + exists (nth (p + K) (nd_seq n) 0%N), ex, ey. repeat split; auto using wf_nth_. now apply kmer_at_next.
  - destruct (get_entry_Some pay T _ _ Gx) as [Hinx Hkx]. destruct (get_entry_Some pay T _ _ Gy) as [Hiny Hky].
    rewrite (join_kj entx enty Hinx Hiny), Hkx, Hky in Hj. exact Hj.
Qed.

Theorem graph_unbranched : unbranched K st kj L g.
Proof.
  intros n [x y] Hn Hp. cbn [fst snd]. unfold inner_pairs in Hp.
  apply (in_combine_tl_nth _ []) in Hp as (i & Hi & -> & ->). rewrite kmers_len in Hi.
  rewrite !kmers_nth by lia. destruct (inner_fm n i Hn ltac:(lia)) as [Hfm Hj]. now apply merge_intro.
Qed.

(* ---- merges are symmetric under reverse complement ---- *)
Lemma fm_rc x y : st = false -> fm x y -> fm (rc y) (rc x).
Proof.
  intros Hs Hfm. destruct (fm_wf_y x y Hfm) as (Wy & Ly & Nx & Ny).
  destruct Hfm as (W & Lx & Px & Py & Hne & b & ex & ey & Hb & Ey & Hx & Hy & Nxx & Nyy & Hhx & Hhy).
  assert (Hc4 : (hd 0 x < 4)%N) by (apply wf_hd; auto).
  pose proof (oexts_lt_ _ _ Hx) as Lex. pose proof (oexts_lt_ _ _ Hy) as Ley.
  assert (Hxb : extend y (hd 0%N x) DLeft = x).
  { rewrite Ey. exact (KmerAlgebra.extend_back x b DRight Nx). }
  repeat split.
  - apply rc_wf.
  - now rewrite rc_length.
  - now rewrite kpal_rc.
  - now rewrite kpal_rc.
  - rewrite !cn_rc_ by auto. auto.
  - exists (comp (hd 0%N x)), (e_rc ey), (e_rc ex). repeat split.
    + apply comp_lt4.
    + rewrite <- Hxb at 1. now rewrite rc_extend.
    + apply (oexts_rc pay K st T Hok Hsym Hpal); auto. now apply (kpal_false_ne st).
    + apply (oexts_rc pay K st T Hok Hsym Hpal); auto. now apply (kpal_false_ne st).
    + now rewrite num_ext_rc.
    + now rewrite num_ext_rc.
    + rewrite (has_ext_rc' ey DRight) by auto using comp_lt4. cbn [dflip dirb]. now rewrite comp_involutive.
    + assert (E : hd 0%N (rc y) = comp b).
      { change (hd 0%N (rc y)) with (outer (rc y) DLeft). rewrite outer_rc by exact Ny. cbn [dflip outer].
        rewrite Ey. cbn [extend]. unfold extend_right. now rewrite last_last. }
      rewrite E, (has_ext_rc' ex DLeft) by auto using comp_lt4. cbn [dflip dirb]. now rewrite comp_involutive.
Qed.

(* the merge leaving / entering an inner occurrence is the step to its neighbour in the node *)
Lemma fm_next n p y : In n g -> p + S K <= length (nd_seq n) -> fm (kmer_at K (nd_seq n) p) y ->
  y = kmer_at K (nd_seq n) (S p).
Proof.
  intros Hn Hp (W & Lx & _ & _ & _ & b & ex & ey & Hb & -> & Hx & _ & Nxx & _ & Hhx & _).
  destruct (node_len_wf n Hn) as [L Ws].
  destruct (node_step n p Hn Hp) as [(ex' & ey' & Hx' & _ & Hhx' & _) _].
  rewrite Hx in Hx'. injection Hx' as <-.
  rewrite kmer_at_last in Hhx' by lia. replace (S p + K - 1) with (p + K) in Hhx' by lia.
  rewrite (unique_ext ex true b _ (oexts_lt_ _ _ Hx) Nxx Hb (wf_nth_ _ _ Ws) Hhx Hhx'). symmetry. now apply kmer_at_next.
Qed.
Lemma fm_prev n q x : In n g -> q + S K <= length (nd_seq n) -> fm x (kmer_at K (nd_seq n) (S q)) ->
  x = kmer_at K (nd_seq n) q.
Proof.
  intros Hn Hq Hfm. destruct (fm_wf_y _ _ Hfm) as (_ & _ & Nx & _).
  destruct Hfm as (W & Lx & _ & _ & _ & b & ex & ey & Hb & Ey & _ & Hy & _ & Nyy & _ & Hhy).
  destruct (node_len_wf n Hn) as [L Ws].
  destruct (node_step n q Hn Hq) as [(ex' & ey' & _ & Hy' & _ & Hhy') _].
  rewrite Hy in Hy'. injection Hy' as <-.
  destruct (node_win_ok n q Hn ltac:(lia)) as (Lz & Wz & Nz & _).
  assert (E : hd 0%N x = hd 0%N (kmer_at K (nd_seq n) q)).
  { apply (unique_ext ey false); auto using (oexts_lt_ _ _ Hy); apply wf_hd; auto. }
  pose proof (KmerAlgebra.extend_back x b DRight Nx) as B1. rewrite <- Ey in B1. cbn [dflip outer] in B1.
  pose proof (KmerAlgebra.extend_back (kmer_at K (nd_seq n) q) (nth (q + K) (nd_seq n) 0%N) DRight Nz) as B2.
  rewrite <- kmer_at_next in B2 by lia. cbn [dflip outer] in B2. rewrite <- B1, <- B2, E. reflexivity.
Qed.

Lemma closing_pair n : In n g ->
  (last (kmers K (nd_seq n)) [], hd [] (kmers K (nd_seq n))) =
  (kmer_at K (nd_seq n) (length (nd_seq n) - K), kmer_at K (nd_seq n) 0).
Proof.
  intro Hn. destruct (node_len_wf n Hn) as [L W].
  rewrite <- (last_kmer_last K HK K _ HK L), <- (first_kmer_hd K HK K _ HK L). reflexivity.
Qed.
Lemma in_node_kmers n w : In w (node_kmers K st n) -> exists q, q + K <= length (nd_seq n) /\ w = cn st (kmer_at K (nd_seq n) q).
Proof.
  unfold node_kmers. intro H. apply in_map_iff in H as [y [<- Hy]]. apply kmers_in in Hy as [q [Hq ->]]. eauto.
Qed.
(* a merge leaving an occurrence x of node n towards a k-mer of the same node is a step of n, or closes n *)
Lemma fm_in_node n x y : In n g -> fm x y -> In x (kmers K (nd_seq n)) -> In (cn st y) (node_kmers K st n) ->
  In (x, y) (node_pairs K n).
Proof.
  intros Hn Hfm Hx Hy. destruct (node_len_wf n Hn) as [L Ws]. destruct (fm_wf_y _ _ Hfm) as (Wy & Ly & Nx & Ny).
  apply kmers_in in Hx as [p [Hp ->]]. unfold node_pairs. apply in_or_app.
  destruct (Nat.eq_dec (p + K) (length (nd_seq n))) as [Hl|Hl].
  2:{ left. rewrite (fm_next n p y Hn ltac:(lia) Hfm). unfold inner_pairs.
      pose proof (in_combine_tl (kmers K (nd_seq n)) [] p) as H. rewrite kmers_len, !kmers_nth in H by lia. apply H. lia. }
  right. cbv zeta. rewrite (closing_pair n Hn). replace (length (nd_seq n) - K) with p by lia. left. f_equal.
  apply in_node_kmers in Hy as [q [Hq Ey]].
  destruct (node_win_ok n q Hn Hq) as (Lz & Wz & Nz & _).
  symmetry in Ey. apply cn_eq_cases in Ey; auto. destruct Ey as [Ey|[Hs Ey]].
  - destruct q as [|q']; [exact Ey|]. exfalso. rewrite <- Ey in Hfm.
    pose proof (fm_prev n q' _ Hn ltac:(lia) Hfm) as E. apply (f_equal (cn st)) in E. apply (win_inj n p q' Hn) in E; lia.
  - exfalso. pose proof (fm_rc _ _ Hs Hfm) as Hr. rewrite <- Ey in Hr.
    destruct Hfm as (W & _ & Px & _ & Hne & _).
    destruct (Nat.eq_dec (q + K) (length (nd_seq n))) as [Hql|Hql].
    + assert (q = p) by lia. subst q. apply Hne. rewrite Ey. now rewrite cn_rc_.
    + pose proof (fm_next n q _ Hn ltac:(lia) Hr) as E.
      assert (E' : cn st (kmer_at K (nd_seq n) p) = cn st (kmer_at K (nd_seq n) (S q))) by (rewrite <- E; now rewrite cn_rc_).
      apply (win_inj n p (S q) Hn) in E'; try lia. subst p. symmetry in E. now apply (kpal_false_ne st _ Hs Px).
Qed.
(* ... and a merge entering an occurrence y of node n from a k-mer of the same node *)
Lemma fm_in_node' n x y : In n g -> fm x y -> In y (kmers K (nd_seq n)) -> In (cn st x) (node_kmers K st n) ->
  In (x, y) (node_pairs K n).
Proof.
  intros Hn Hfm Hy Hx. destruct (node_len_wf n Hn) as [L Ws]. destruct (fm_wf_y _ _ Hfm) as (Wy & Ly & Nx & Ny).
  apply kmers_in in Hy as [q [Hq ->]]. unfold node_pairs. apply in_or_app.
  destruct q as [|q'].
  2:{ left. rewrite (fm_prev n q' x Hn ltac:(lia) Hfm). unfold inner_pairs.
      pose proof (in_combine_tl (kmers K (nd_seq n)) [] q') as H. rewrite kmers_len, !kmers_nth in H by lia. apply H. lia. }
  right. cbv zeta. rewrite (closing_pair n Hn). left. f_equal.
  apply in_node_kmers in Hx as [p [Hp Ex]].
  destruct (node_win_ok n p Hn Hp) as (Lz & Wz & Nz & _).
  pose proof Hfm as (W & _ & Px & Py & Hne & _).
  symmetry in Ex. apply cn_eq_cases in Ex; auto. destruct Ex as [Ex|[Hs Ex]].
  - destruct (Nat.eq_dec (p + K) (length (nd_seq n))) as [Hl|Hl]; [rewrite <- Ex; f_equal; lia|]. exfalso.
    rewrite <- Ex in Hfm. pose proof (fm_next n p _ Hn ltac:(lia) Hfm) as E. apply (f_equal (cn st)) in E.
    apply (win_inj n 0 (S p) Hn) in E; lia.
  - exfalso. pose proof (fm_rc _ _ Hs Hfm) as Hr. rewrite <- Ex in Hr.
    destruct p as [|p'].
    + apply Hne. rewrite <- (cn_rc_ st x) by auto. now rewrite <- Ex.
    + pose proof (fm_prev n p' _ Hn ltac:(lia) Hr) as E.
      assert (E' : cn st (kmer_at K (nd_seq n) 0) = cn st (kmer_at K (nd_seq n) p')) by (rewrite <- E; now rewrite cn_rc_).
      apply (win_inj n 0 p' Hn) in E'; try lia. subst p'. now apply (kpal_false_ne st _ Hs Py).
Qed.

(* ---- a merge in the frame of x is a mergeable link of the table (Spec/Unitig.v) ---- *)
Local Notation kkey := (kkey pay T).
Lemma fst_kcanon_flip raw : fst (kcanon_flip st raw) = ck raw.
Proof. unfold kcanon_flip, canon_k, canon_flip, canon. destruct st; [reflexivity|]. now destruct (dna_ltb raw (rc raw)). Qed.

Lemma knext_intro i j ent yent d b fl : nth_error T i = Some ent -> nth_error T j = Some yent ->
  e_num_ext_dir (e_exts pay ent) (dirb d) = 1%N -> kpal st (e_key pay ent) = false -> (b < 4)%N ->
  e_has_ext (e_exts pay ent) (dirb d) b = true ->
  kcanon_flip st (extend (e_key pay ent) b d) = (e_key pay yent, fl) ->
  join (e_data pay ent) (e_data pay yent) = true ->
  e_num_ext_dir (e_exts pay yent) (dirb (cond_flip (dflip d) fl)) = 1%N -> kpal st (e_key pay yent) = false ->
  knext pay join st T i d = Some (j, cond_flip (dflip d) fl).
Proof.
  intros Hi Hj Hn Hp Hb Hh Hf Hjn Hn' Hp'. unfold knext. rewrite Hi, Hn, Hp. cbn [N.eqb Pos.eqb negb orb].
  assert (Hin : In ent T) by (eapply nth_error_In; eauto).
  destruct (unique_ext_spec _ _ (ok_exts _ _ _ _ Hok _ Hin) Hn) as (u & Hu & _ & _ & Huu).
  rewrite Hu, <- (Huu b Hb Hh), Hf. cbn [fst snd]. rewrite (get_id_key pay K st T Hok _ _ Hj), Hj, Hjn, Hn', Hp'.
  reflexivity.
Qed.

Lemma fm_mstep x y : fm x y -> kj (cn st x) (cn st y) = true ->
  exists i j, kkey i = ck x /\ kkey j = ck y /\ mstep pay join st T i j.
Proof.
  intros Hfm Hj. destruct (fm_wf_y x y Hfm) as (Wy & Ly & Nx & Ny).
  destruct Hfm as (W & Lx & Px & Py & Hne & b & ex & ey & Hb & Ey & Hx & Hy & Nxx & Nyy & Hhx & Hhy).
  destruct (oexts_inv pay K st T Hok Hsym Hpal x ex Hx) as (entx & Hinx & _ & Hkx & Cx).
  destruct (oexts_inv pay K st T Hok Hsym Hpal y ey Hy) as (enty & Hiny & _ & Hky & Cy).
  destruct (In_nth_error _ _ Hinx) as [i Hi]. destruct (In_nth_error _ _ Hiny) as [j Hjj].
  pose proof (ok_exts _ _ _ _ Hok _ Hinx) as Lex. pose proof (ok_exts _ _ _ _ Hok _ Hiny) as Ley.
  exists i, j. split; [unfold CompressRefine.kkey; now rewrite Hi|]. split; [unfold CompressRefine.kkey; now rewrite Hjj|].
  assert (Hij : Nat.eqb i j = false).
  { apply Nat.eqb_neq. intro E. subst j. rewrite Hi in Hjj. injection Hjj as <-. apply Hne. change (ck x = ck y). congruence. }
  assert (Hjn : join (e_data pay entx) (e_data pay enty) = true).
  { rewrite (join_kj entx enty Hinx Hiny), Hkx, Hky. exact Hj. }
  assert (Pkx : kpal st (e_key pay entx) = false) by (rewrite Hkx, (kpal_ck pay K st T Hok Hsym Hpal); auto).
  assert (Pky : kpal st (e_key pay enty) = false) by (rewrite Hky, (kpal_ck pay K st T Hok Hsym Hpal); auto).
  assert (Ynp : st = false -> y <> rc y) by (intro Hs; now apply (kpal_false_ne st)).
  destruct Cx as [[Ex ->]|(Hnex & Hs & Ex & ->)].
  - (* x is the key: leave through its right side *)
    destruct (kcanon_flip st (extend (e_key pay entx) b DRight)) as [yk fl] eqn:Ef.
    pose proof (fst_kcanon_flip (extend (e_key pay entx) b DRight)) as Ek. rewrite Ef, <- Ex, <- Ey, <- Hky in Ek. cbn [fst] in Ek. subst yk.
    exists DRight, (cond_flip DLeft fl). rewrite mlink_knext.
    enough (Hk : knext pay join st T i DRight = Some (j, cond_flip (dflip DRight) fl)) by (rewrite Hk; now rewrite Hij).
    apply (knext_intro i j entx enty DRight b fl Hi Hjj); auto.
    destruct (kcanon_flip_cases _ _ _ _ Ef) as [[-> Ek]|(Hs & -> & Ek)]; rewrite <- Ex, <- Ey in Ek; cbn [cond_flip dflip dirb].
    + destruct Cy as [[_ ->]|(Hney & _)]; [exact Nyy | congruence].
    + destruct Cy as [[Eyy _]|(_ & _ & _ & ->)]; [exfalso; apply (Ynp Hs); congruence|].
      rewrite num_ext_rc in Nyy by exact Ley. exact Nyy.
  - (* x is the reverse complement of the key: leave through the key's left side *)
    assert (Eraw : extend (e_key pay entx) (comp b) DLeft = rc y).
    { rewrite Ex, Ey. symmetry. exact (KmerAlgebra.rc_extend x b DRight Nx). }
    destruct (kcanon_flip st (rc y)) as [yk fl] eqn:Ef.
    pose proof (fst_kcanon_flip (rc y)) as Ek. rewrite Ef, (ck_rc pay K st T Hok Hsym Hpal y Wy Hs), <- Hky in Ek. cbn [fst] in Ek. subst yk.
    exists DLeft, (cond_flip DRight fl). rewrite mlink_knext.
    rewrite num_ext_rc in Nxx by exact Lex. rewrite (has_ext_rc' _ DRight) in Hhx by auto. cbn [negb dflip dirb] in Nxx, Hhx.
    enough (Hk : knext pay join st T i DLeft = Some (j, cond_flip (dflip DLeft) fl)) by (rewrite Hk; now rewrite Hij).
    apply (knext_intro i j entx enty DLeft (comp b) fl Hi Hjj); auto using comp_lt4; [now rewrite Eraw|].
    destruct (kcanon_flip_cases _ _ _ _ Ef) as [[-> Ek]|(_ & -> & Ek)]; cbn [cond_flip dflip dirb].
    + destruct Cy as [[Eyy _]|(_ & _ & _ & ->)]; [exfalso; apply (Ynp Hs); congruence|].
      rewrite num_ext_rc in Nyy by exact Ley. exact Nyy.
    + rewrite ListFacts.rc_involutive in Ek by exact Wy. destruct Cy as [[_ ->]|(Hney & _)]; [exact Nyy | congruence].
Qed.

(* ---- U3: every merge of the link set is a step inside a node, or closes it ---- *)
Theorem graph_maximal : maximal K st kj L g.
Proof.
  intros n x y Hn Hx Hm. destruct (node_len_wf n Hn) as [Ln Ws].
  assert (Hxf : wf_dna x /\ length x = K /\ In (cn st x) (node_kmers K st n) /\
                (In x (kmers K (nd_seq n)) \/ (st = false /\ In (rc x) (kmers K (nd_seq n))))).
  { unfold okmers in Hx. apply in_app_or in Hx as [Hx|Hx].
    - pose proof Hx as Hx'. apply kmers_in in Hx' as [p [Hp ->]]. destruct (node_win_ok n p Hn Hp) as (Lx & Wx & _).
      repeat split; auto. unfold node_kmers. now apply in_map.
    - assert (Hst : st = true \/ st = false) by (clear; destruct st; auto).
      destruct Hst as [Hs|Hs]; rewrite Hs in Hx; [destruct Hx|]. apply in_map_iff in Hx as [z [<- Hz]].
      pose proof Hz as Hz'. apply kmers_in in Hz' as [p [Hp ->]]. destruct (node_win_ok n p Hn Hp) as (Lx & Wx & _).
      split; [apply rc_wf|]. split; [now rewrite rc_length|]. split.
      + rewrite cn_rc_ by auto. unfold node_kmers. now apply in_map.
      + right. split; [exact Hs|]. now rewrite ListFacts.rc_involutive. }
  destruct Hxf as (Wx & Lx & Hxk & Hcase).
  assert (Hkey : In (ck x) (keys pay T)).
  { eapply Permutation_in; [apply graph_kmers_keys|]. unfold graph_kmers. apply in_flat_map. exists n. auto. }
  destruct (merge_elim x y Wx Lx Hkey Hm) as [Hfm Hj].
  destruct (fm_wf_y x y Hfm) as (Wy & Ly & Nx & Ny).
  (* y lies in the same node *)
  assert (Hyk : In (cn st y) (node_kmers K st n)).
  { destruct (fm_mstep x y Hfm Hj) as (i & j & Ei & Ej & Hms).
    destruct (no_mergeable_pair_across pay pay_reduce join K st HK T Hok Hsym join_sym) as (g' & Hc' & Hsame).
    assert (g' = g) by congruence. subst g'. destruct (Hsame i j Hms) as (n' & Hn' & Hi & Hjn).
    rewrite Ei in Hi. rewrite Ej in Hjn.
    assert (n = n') by (apply (flat_map_in_unique (node_kmers K st) g n n' (cn st x) graph_kmers_nodup); auto).
    subst n'. exact Hjn. }
  destruct Hcase as [Hin|[Hs Hin]].
  - exists n, (x, y). repeat split; auto. unfold opairs. apply in_or_app. left. now apply fm_in_node.
  - pose proof (fm_rc x y Hs Hfm) as Hr.
    assert (Hp : In (rc y, rc x) (node_pairs K n)) by (apply fm_in_node'; auto; now rewrite cn_rc_).
    exists n, (x, y). repeat split; auto. unfold opairs. rewrite Hs. apply in_or_app. right.
    apply in_map_iff. exists (rc y, rc x). split; [|exact Hp]. cbn [fst snd]. now rewrite !ListFacts.rc_involutive.
Qed.

(* ---- payloads ---- *)
Lemma fold_pay (ds : list pay) : forall d0, fold_left pay_reduce ds d0 = (fst d0, snd d0 ++ concat (map snd ds)).
Proof.
  induction ds as [|d ds IH]; intro d0; cbn [fold_left map concat]; [rewrite app_nil_r; now destruct d0|].
  rewrite IH. unfold pay_reduce. cbn [fst snd]. now rewrite <- app_assoc.
Qed.
Lemma ids_of_entries es : (forall e, In e es -> In e T) ->
  concat (map snd (map (e_data pay) es)) = map idf (map (e_key pay) es).
Proof.
  induction es as [|e es IH]; intro H; [reflexivity|]. cbn [map concat]. rewrite (Hdata e (H e (or_introl eq_refl))).
  cbn [snd app]. f_equal. apply IH. intros e' He'. apply H. now right.
Qed.
Lemma node_colour_const n p : In n g -> mode <> 0%N -> p + K <= length (nd_seq n) ->
  colf (cn st (kmer_at K (nd_seq n) p)) = colf (cn st (kmer_at K (nd_seq n) 0)).
Proof.
  intros Hn Hm. induction p as [|p IH]; intro Hp; [reflexivity|]. rewrite <- IH by lia.
  destruct (inner_fm n p Hn ltac:(lia)) as [_ Hj]. unfold kjoin_f in Hj.
  destruct (mode =? 0)%N eqn:E; [apply N.eqb_eq in E; contradiction|]. cbn [orb] in Hj. apply N.eqb_eq in Hj. now symmetry.
Qed.

Theorem graph_payload : PipelineCheck.payload_ok K st mode idf colf g.
Proof.
  intros n Hn.
  destruct (compress_c01 pay pay_reduce join K st HK T Hok Hsym) as [g' [Hc' [_ [_ Hp]]]].
  assert (g' = g) by congruence. subst g'. destruct (Hp n Hn) as (e0 & es & Hperm & Hin & Hd).
  change (CompressSpec.node_keys pay K st n) with (node_kmers K st n) in Hperm.
  change (CompressSpec.n_data pay n) with (snd n) in Hd.
  assert (Hnd : snd n = (colf (e_key pay e0), map idf (map (e_key pay) (e0 :: es)))).
  { rewrite Hd, fold_pay, (Hdata e0 (Hin e0 (or_introl eq_refl))). cbn [fst snd map app]. f_equal. f_equal.
    apply ids_of_entries. intros e He. apply Hin. now right. }
  assert (Hk0 : In (e_key pay e0) (node_kmers K st n)) by (eapply Permutation_in; [exact Hperm | now left]).
  unfold nd_ids, nd_colour. rewrite Hnd. cbn [fst snd]. split; [|split].
  - now apply Permutation_map.
  - intros Hm k Hk. apply in_node_kmers in Hk as [q [Hq ->]]. apply in_node_kmers in Hk0 as [q0 [Hq0 ->]].
    now rewrite (node_colour_const n q Hn Hm Hq), (node_colour_const n q0 Hn Hm Hq0).
  - intros _. exists (e_key pay e0). auto.
Qed.

Theorem graph_unitig : unitig_graph K st mode colf g.
Proof.
  split; [exact HK|]. split; [|split; [exact graph_unbranched | exact graph_maximal]].
  apply Forall_forall. intros n Hn. destruct (node_len_wf n Hn). split; assumption.
Qed.
End Graph.

(* closed form *)
Theorem compress_assembly_abs K st mode (T : table pay) (LS : list dna) (idf colf : dna -> N) g : 1 <= K ->
  tbl_ok pay K st T -> links_ok pay st T LS ->
  (forall ent, In ent T -> e_data pay ent = (colf (e_key pay ent), [idf (e_key pay ent)])) ->
  compress_kmers pay pay_reduce (pay_join mode) st T = Some g ->
  Permutation (graph_kmers K st g) (keys pay T) /\ (forall w, In w (graph_links K st g) <-> In w LS) /\
  unitig_graph K st mode colf g /\ PipelineCheck.payload_ok K st mode idf colf g.
Proof.
  intros HK Hok HL Hd Hc. pose proof (links_ok_loose _ _ _ _ HL) as HLl.
  pose proof (lo_closed _ _ _ _ HL) as Hcl. pose proof (lo_src _ _ _ _ HL) as Hsrc.
  split; [exact (graph_kmers_keys K st mode HK T LS Hok HLl g Hc)|].
  split; [eapply (graph_links_iff K st mode HK T LS Hok HLl g Hc); eassumption|].
  split; [eapply (graph_unitig K st mode HK T LS idf colf Hok HLl Hd g Hc); eassumption
         | exact (graph_payload K st mode HK T LS idf colf Hok HLl Hd g Hc)].
Qed.
Print Assumptions compress_assembly_abs.
