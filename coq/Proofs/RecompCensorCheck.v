(* a boolean checker for [lgraph_ok] (Proofs/LooseGraph.v), sound; and the censored re-compression theorem of
   Proofs/RecompCensor.v with computable hypotheses (link set of the survivors = a filter), for concrete examples. *)
From Coq Require Import NArith List Bool Arith Lia Permutation.
From DBG Require Import Spec.Dna Spec.GraphIndex Spec.Unitig Spec.CompressSpec Packed.ExtsModel Algo.Compress
  Algo.KmerHist Algo.GraphModel Algo.Recompress Spec.EdgeSpec Check.GraphCheck Check.PipelineCheck Check.RecompCheck Check.RecompLooseCheck
  Proofs.ListFacts Proofs.DnaFacts Proofs.KmerAlgebra Proofs.ExtsProofs Proofs.ExtsWalk
  Proofs.CompressBasics Proofs.CompressProofs Proofs.CompressGraphOk Proofs.FilterProofs Proofs.GraphQueryProofs
  Proofs.ValidGraphProofs Proofs.PipelineCheckProofs Proofs.UnitigUnique Proofs.RecompCheckProofs
  Proofs.E2eDefs Proofs.E2eSym Proofs.E2eGraph Proofs.E2eTable Proofs.LooseGraph Proofs.LooseValid Proofs.RecompUnitig
  Proofs.RecompCensorMain Proofs.RecompCensor.
Import ListNotations.
Local Open Scope nat_scope.

Local Notation gk := PipelineCheck.graph_kmers.

Section Chk.
Variable K : nat.
Variable st : bool.
Variable kj : dna -> dna -> bool.
Variable SS : list dna.

Definition inSb (w : dna) : bool := existsb (dna_eqb w) SS.
Definition ends_matchb (n : node_t) : bool :=
  forallb (fun s => forallb (fun c =>
    let X := term_kmer K (nd_seq n) s in
    Bool.eqb (if kpal st X then e_has_ext (nd_exts n) (dirb s) c || e_has_ext (nd_exts n) (dirb (dflip s)) (comp c)
              else e_has_ext (nd_exts n) (dirb s) c)
             (inSb (cn st (lk X s c)))) bases4) dirs2.
Definition pal_aloneb (n : node_t) : bool :=
  forallb (fun w => negb (kpal st w) || Nat.eqb (length (nd_seq n)) K) (kmers K (nd_seq n)).
Definition lnode_okb (n : node_t) : bool :=
  node_wfb K n && (nd_exts n <? 256)%N &&
  forallb (fun p => mergeableb st kj SS (fst p) (snd p)) (inner_pairs K n) && ends_matchb n && pal_aloneb n.
Definition lgraph_okb (g : list node_t) : bool := forallb lnode_okb g.

Lemma in_dirs2 s : In s dirs2.
Proof. destruct s; cbn; auto. Qed.

Theorem lgraph_okb_sound g : lgraph_okb g = true -> lgraph_ok K st kj SS g.
Proof.
  unfold lgraph_okb. rewrite forallb_forall. intro H.
  assert (G : forall n, In n g -> node_wf K n /\ (nd_exts n < 256)%N /\
            (forall p, In p (inner_pairs K n) -> mergeableb st kj SS (fst p) (snd p) = true) /\ ends_match K st SS n /\ pal_alone K st n).
  { intros n Hn. specialize (H n Hn). unfold lnode_okb in H.
    apply andb_true_iff in H as [H H5]. apply andb_true_iff in H as [H H4]. apply andb_true_iff in H as [H H3].
    apply andb_true_iff in H as [H1 H2].
    split.
    { unfold node_wfb in H1. apply andb_true_iff in H1 as [A B]. split; [now apply wf_dnab_sound | now apply Nat.leb_le]. }
    split; [now apply N.ltb_lt|].
    split; [intros p Hp; rewrite forallb_forall in H3; exact (H3 p Hp)|].
    split.
    - intros s c0 Hc. unfold ends_matchb in H4. rewrite forallb_forall in H4. specialize (H4 s (in_dirs2 s)).
      rewrite forallb_forall in H4. specialize (H4 c0 (in_bases4 c0 Hc)). cbv zeta in H4. apply eqb_prop in H4.
      unfold inSb in H4.
      split; intro P; rewrite P in H4; rewrite <- existsb_dna_in, <- H4; [reflexivity|]. now rewrite orb_true_iff.
    - intros w Hw P. unfold pal_aloneb in H5. rewrite forallb_forall in H5. specialize (H5 w Hw). rewrite P in H5.
      cbn [negb orb] in H5. now apply Nat.eqb_eq. }
  constructor.
  - apply Forall_forall. intros n Hn. exact (proj1 (G n Hn)).
  - intros n Hn. exact (proj1 (proj2 (G n Hn))).
  - intros n p Hn Hp. exact (proj1 (proj2 (proj2 (G n Hn))) p Hp).
  - intros n Hn. exact (proj1 (proj2 (proj2 (proj2 (G n Hn))))).
  - intros n Hn. exact (proj2 (proj2 (proj2 (proj2 (G n Hn))))).
Qed.
End Chk.

(* the links of S' between two k-mers of the list ks, and well-formedness of a link set, computably *)
Definition both_inb (K : nat) (st : bool) (ks : list dna) (w : dna) : bool :=
  existsb (dna_eqb (cn st (firstn K w))) ks && existsb (dna_eqb (cn st (skipn 1 w))) ks.
Definition links_between (K : nat) (st : bool) (S' ks : list dna) : list dna := filter (both_inb K st ks) S'.
Definition links_wfb (K : nat) (st : bool) (S' : list dna) : bool :=
  forallb (fun w => wf_dnab w && Nat.eqb (length w) (S K) && dna_eqb w (cn st w)) S'.

Lemma links_between_spec K st S' ks w :
  In w (links_between K st S' ks) <-> In w S' /\ both_in K st (fun k => In k ks) w.
Proof.
  unfold links_between, both_inb, both_in. rewrite filter_In, andb_true_iff, !existsb_dna_in. reflexivity.
Qed.
Lemma links_wfb_sound K st S' : links_wfb K st S' = true ->
  forall w, In w S' -> exists v, wf_dna v /\ length v = S K /\ w = cn st v.
Proof.
  unfold links_wfb. rewrite forallb_forall. intros H w Hw. specialize (H w Hw).
  apply andb_true_iff in H as [H H3]. apply andb_true_iff in H as [H1 H2].
  exists w. split; [now apply wf_dnab_sound|]. split; [now apply Nat.eqb_eq | now apply dna_eqb_eq].
Qed.

(* Proofs/RecompCensor.v with decidable hypotheses about the graph and its link set *)
Theorem recompress_censor_unitig_chk K st mode (idf colf : dna -> N) (S' : list dna) (G : list node_t) (c : list nat) (out : list node_t) :
  1 <= K -> lgraph_okb K st (kjoin_f mode colf) S' G = true -> nodupb (gk K st G) = true -> links_wfb K st S' = true ->
  PipelineCheck.payload_ok K st mode idf colf G ->
  compress_graph pay pay_reduce (pay_join mode) K st G (Some c) = Some out ->
  Permutation (gk K st out) (gk K st (surv_nodes G c)) /\
  (forall w, In w (graph_links K st out) <-> In w (links_between K st S' (gk K st (surv_nodes G c)))) /\
  unitig_graph K st mode colf out /\ PipelineCheck.payload_ok K st mode idf colf out.
Proof.
  intros HK HG Hnd Hwf Hpay Hc.
  apply (recompress_censor_unitig K st mode idf colf S' _ G c out HK (lgraph_okb_sound _ _ _ _ G HG) (nodupb_sound _ Hnd)); auto.
  - intro w. apply links_between_spec.
  - intros w Hw. apply links_between_spec in Hw as [Hw _]. exact (links_wfb_sound K st S' Hwf w Hw).
Qed.
Print Assumptions lgraph_okb_sound.
Print Assumptions recompress_censor_unitig_chk.
