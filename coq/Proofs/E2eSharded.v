(* e2e: the SHARDED pipeline model produces THE assembly of its reads.
   msp_sequence per read -> pieces grouped by bucket -> per shard: filter_kmers (CountFilterSet), sort, pruning by
   remove_censored_exts_sharded with the shard's all_kmers (variant 2; none for variant 0), reorder, compress_kmers ->
   BaseGraph::combine -> compress_graph without censoring.
   Proofs/ShardTable.v (the table of one shard on Layer S, [links_loose] w.r.t. the loose link set) ->
   Proofs/LooseGraph.v (each shard graph is [lgraph_ok] w.r.t. the loose link set; local to nodes, hence inherited by the
   combined graph) -> Proofs/LooseValid.v (the combined graph is loosely valid - cross-shard links included -, its pruned
   graph is valid and [lgraph_ok] w.r.t. the link specification) -> Proofs/RecompUnitig.v (compress_graph returns the
   unitig graph of the link specification). *)
From Coq Require Import NArith List Bool Arith Lia Permutation.
From DBG Require Import Spec.Dna Spec.GraphIndex Spec.Unitig Spec.CompressSpec Packed.ExtsModel Algo.Compress
  Algo.KmerHist Algo.Filter Algo.GraphModel Algo.Recompress Algo.Pipeline Check.GraphCheck Check.PipelineCheck
  Proofs.ListFacts Proofs.DnaFacts Proofs.KmerAlgebra Proofs.CompressProofs Proofs.FilterProofs Proofs.MspProofs Proofs.ShardProofs Proofs.CombineProofs
  Proofs.PipelineCheckProofs Proofs.UnitigUnique Proofs.GraphRcProofs Proofs.TableSpecProofs Proofs.PipelineProofs
  Proofs.E2eDefs Proofs.E2eSym Proofs.E2eGraph Proofs.E2eObs Proofs.E2eTable Proofs.E2eDirect Proofs.E2eCorollaries
  Proofs.ShardTable Proofs.LooseGraph Proofs.LooseValid Proofs.RecompUnitig.
Import ListNotations.
Local Open Scope nat_scope.

Local Notation gk := PipelineCheck.graph_kmers.

Lemma omap2_inv {A B C} (f : A -> B -> option C) : forall a b c, omap2 f a b = Some c ->
  Forall2 (fun x z => exists y, In y b /\ f x y = Some z) a c.
Proof.
  induction a as [|x a IH]; intros [|y b] c H; cbn [omap2] in H; try discriminate.
  - injection H as <-. constructor.
  - destruct (f x y) as [z|] eqn:E; [|discriminate]. destruct (omap2 f a b) as [t|] eqn:Et; [|discriminate]. injection H as <-.
    constructor; [exists y; split; [now left | exact E]|].
    eapply Forall2_imp; [|exact (IH b t Et)]. intros x' z' (y' & Hy' & E'). exists y'. split; [now right | exact E'].
Qed.
Lemma omap2_total {A B C} (f : A -> B -> option C) (R : A -> B -> Prop) : (forall x y, R x y -> f x y <> None) ->
  forall a b, Forall2 R a b -> exists c, omap2 f a b = Some c.
Proof.
  intros Hf a b H. induction H as [|x y a b Hxy _ IH]; [now exists []|]. cbn [omap2].
  destruct (f x y) as [z|] eqn:E; [|exfalso; exact (Hf x y Hxy E)]. destruct IH as [t ->]. eauto.
Qed.

Section Sharded.
Variable max_len : N.
Variable K P : nat.
Variable perm : option (list N).
Variable st : bool.
Variable thr mode : N.
Variable variant : N.
Variable lreads : list lread.
Hypothesis Hpar : params_ok max_len K P.
Hypothesis Hperm : perm_ok P perm.
Hypothesis HK : 4 <= K.
Hypothesis Hok : Forall lread_ok lreads.
Hypothesis Hvar : variant <> 1%N.
Variable ps : list (N * (dna * N * N)).
Hypothesis Eps : pieces_of max_len K P perm (negb st) lreads = Some ps.
Local Notation sh := (SH P perm (negb st)).
Local Notation pr := (variant =? 2)%N.
Local Notation reads := (map fst lreads).
Local Notation ret := (retained K st thr reads).
Local Notation LL := (loose_links K st thr lreads sh pr).
Local Notation SLk := (spec_links K st thr reads).
Local Notation colf := (kmer_colour K st lreads).
Local Notation kj := (kjoin_f mode colf).

Lemma HK1 : 1 <= K. Proof. lia. Qed.
Lemma Hwf : Forall (fun r => wf_dna (fst r)) lreads.
Proof. exact (lreads_wf lreads Hok). Qed.

(* ---- one shard ---- *)
Lemma shard_graph_facts b order g : NoDup order ->
  shard_graph K st thr mode variant (shard_seqs ps b) order = Some g ->
  lgraph_ok K st kj LL g /\ Permutation (gk K st g) (filter (fun k => (sh k =? b)%N) ret) /\
  PipelineCheck.payload_ok K st mode rank colf g.
Proof.
  intros Hnd H. unfold shard_graph in H.
  destruct (table_of K st thr variant (shard_seqs ps b) order) as [T|] eqn:ET; [|discriminate].
  pose proof (table_of_shard_spec max_len K P perm st thr lreads Hpar Hperm HK Hok ps Eps variant b order T Hvar Hnd ET) as HT.
  pose proof (shard_tbl_ok K st thr lreads sh Hwf pr b T HT) as Htok.
  pose proof (shard_links_loose K st thr lreads sh HK1 Hwf pr b T HT) as HLl.
  pose proof (ss_data _ _ _ _ _ _ _ _ HT) as Hd.
  split; [exact (compress_lgraph_ok K st mode HK1 T LL rank colf Htok HLl Hd g H)|].
  split; [|exact (compress_loose_payload K st mode HK1 T LL rank colf Htok HLl Hd g H)].
  etransitivity; [exact (compress_loose_kmers K st mode HK1 T LL Htok HLl g H) | exact (ss_keys _ _ _ _ _ _ _ _ HT)].
Qed.

(* ---- all shards, combined ---- *)
Variable orders : list (list dna).
Hypothesis Hord : Forall (@NoDup dna) orders.
Variable gs : list (list node_t).
Hypothesis Hgs : omap2 (fun b order => shard_graph K st thr mode variant (shard_seqs ps b) order) (buckets_of ps) orders = Some gs.
Local Notation G := (combine_graphs gs).

Lemma shards_facts : Forall2 (fun b g => lgraph_ok K st kj LL g /\ Permutation (gk K st g) (filter (fun k => (sh k =? b)%N) ret) /\
                                          PipelineCheck.payload_ok K st mode rank colf g) (buckets_of ps) gs.
Proof.
  eapply Forall2_imp; [|exact (omap2_inv _ _ _ _ Hgs)]. intros b g (order & Ho & H). apply (shard_graph_facts b order g); [|exact H].
  rewrite Forall_forall in Hord. now apply Hord.
Qed.

Lemma G_lgraph_ok : lgraph_ok K st kj LL G.
Proof.
  unfold combine_graphs. apply lgraph_ok_concat. pose proof shards_facts as F. clear Hgs. induction F as [|b g bs gs' (H & _) _ IH]; constructor; auto.
Qed.
Lemma G_payload : PipelineCheck.payload_ok K st mode rank colf G.
Proof.
  intros n Hn. unfold combine_graphs in Hn. apply in_concat in Hn as (g & Hg & Hn).
  destruct (Forall2_in_r_ _ _ _ g shards_facts Hg) as (b & _ & _ & _ & Hp). exact (Hp n Hn).
Qed.
Lemma bucket_of_ret k : In k ret -> In (sh k) (buckets_of ps).
Proof.
  intro Hk. rewrite <- (table_keys_retained K st thr true lreads) in Hk. apply in_map_iff in Hk as [e [<- He]].
  exact (buckets_cover max_len K P perm st Hpar Hperm (count_filter_set thr) true lreads Hok ps Eps e He).
Qed.
Lemma G_kmers : NoDup (gk K st G) /\ forall x, In x (gk K st G) <-> In x ret.
Proof.
  pose proof shards_facts as F.
  assert (F' : Forall2 (fun b g => NoDup (gk K st g) /\ forall x, In x (gk K st g) -> sh x = b) (buckets_of ps) gs).
  { eapply Forall2_imp; [|exact F]. intros b g (_ & Pm & _). split.
    - eapply Permutation_NoDup; [symmetry; exact Pm|]. apply NoDup_filter, retained_nodup.
    - intros x Hx. apply (Permutation_in _ Pm) in Hx. apply filter_In in Hx as [_ Hx]. now apply N.eqb_eq. }
  destruct (combine_spec K st sh (buckets_of ps) gs (buckets_nodup ps) F') as (Hnd & Hin & _).
  split; [exact Hnd|]. intro x. rewrite Hin. split.
  - intros (g & Hg & Hx). destruct (Forall2_in_r_ _ _ _ g F Hg) as (b & _ & _ & Pm & _).
    apply (Permutation_in _ Pm) in Hx. apply filter_In in Hx. tauto.
  - intro Hx. pose proof (bucket_of_ret x Hx) as Hb. destruct (Forall2_in_l _ _ _ F (sh x) Hb) as (g & Hg & _ & Pm & _).
    exists g. split; [exact Hg|]. eapply Permutation_in; [symmetry; exact Pm|]. apply filter_In. split; [exact Hx | now apply N.eqb_eq].
Qed.

(* the link specification = the loose links with both k-mers in the combined graph *)
Lemma spec_of_loose w : In w SLk <-> In w LL /\ both_in K st (fun k => In k (gk K st G)) w.
Proof.
  destruct G_kmers as [_ Hin]. split.
  - intro Hw. split; [now apply spec_loose|]. apply (in_spec_links K st thr lreads) in Hw as (v & Hv & Hr & ->).
    destruct (win_kmers K st lreads HK1 Hwf v Hv) as (Lv & Wv & H1 & H2). apply (both_in_cn K st _ v Wv Lv).
    unfold link_retained in Hr. apply andb_true_iff in Hr as [R1 R2]. split; apply Hin, retained_in; auto.
  - intros [Hw Hb]. apply in_loose_links in Hw as (v & Hv & _ & ->).
    destruct (win_kmers K st lreads HK1 Hwf v Hv) as (Lv & Wv & _). apply (both_in_cn K st _ v Wv Lv) in Hb as [B1 B2].
    apply Hin, retained_in in B1 as [_ B1]. apply Hin, retained_in in B2 as [_ B2]. now apply loose_spec.
Qed.
Lemma spec_wf w : In w SLk -> exists v, wf_dna v /\ length v = S K /\ w = cn st v.
Proof.
  intro Hw. apply (in_spec_links K st thr lreads) in Hw as (v & Hv & _ & ->).
  destruct (win_kmers K st lreads HK1 Hwf v Hv) as (Lv & Wv & _). eauto.
Qed.

Theorem combined_assembly g : compress_graph pay pay_reduce (pay_join mode) K st G None = Some g ->
  assembly_of K st thr mode lreads g.
Proof.
  intro Hc. destruct G_kmers as [Hnd Hin].
  destruct (recompress_loose_unitig K st mode rank colf LL SLk G g HK1 G_lgraph_ok Hnd spec_of_loose spec_wf G_payload Hc)
    as (Pk & Hl & Hu & Hp).
  split; [|split; assumption]. split; [|exact Hl].
  transitivity (gk K st G); [exact Pk|]. apply NoDup_Permutation; [exact Hnd | apply retained_nodup | exact Hin].
Qed.
Theorem combined_total : exists g, compress_graph pay pay_reduce (pay_join mode) K st G None = Some g.
Proof. exact (recompress_loose_total K st mode colf LL G HK1 G_lgraph_ok (proj1 G_kmers)). Qed.

(* the combined graph is loosely valid: in particular every link that crosses from one shard graph to another is
   symmetric (the proviso of C09X_combine_rvalid_loose) *)
Theorem combined_rvalid_loose : RecompLooseCheck.rvalid_loose pay K st G.
Proof. exact (G_rvalid_loose K st kj LL G HK1 G_lgraph_ok (proj1 G_kmers)). Qed.
End Sharded.

(* ---- the theorems ---- *)
Theorem sharded_assembly max_len K P perm st thr mode variant (lreads : list lread) orders bs gs g :
  params_ok max_len K P -> perm_ok P perm -> 4 <= K -> Forall lread_ok lreads -> Forall (@NoDup dna) orders ->
  variant <> 1%N ->
  sharded max_len K P perm st thr mode variant lreads orders = Some (bs, gs, g) ->
  assembly_of K st thr mode lreads g.
Proof.
  intros Hpar Hperm HK Hok Hord Hvar H. unfold sharded in H.
  destruct (pieces_of max_len K P perm (negb st) lreads) as [ps|] eqn:Eps; [|discriminate].
  destruct (omap2 _ (buckets_of ps) orders) as [gs'|] eqn:Egs; [|discriminate].
  destruct (compress_graph pay pay_reduce (pay_join mode) K st (combine_graphs gs') None) as [g'|] eqn:Eg; [|discriminate].
  injection H as <- <- <-.
  exact (combined_assembly max_len K P perm st thr mode variant lreads Hpar Hperm HK Hok Hvar ps Eps orders Hord gs' Egs g' Eg).
Qed.

(* the graph handed to compress_graph is loosely valid (every link between nodes of different shards is symmetric) *)
Theorem sharded_combined_rvalid_loose max_len K P perm st thr mode variant (lreads : list lread) orders bs gs g :
  params_ok max_len K P -> perm_ok P perm -> 4 <= K -> Forall lread_ok lreads -> Forall (@NoDup dna) orders ->
  variant <> 1%N ->
  sharded max_len K P perm st thr mode variant lreads orders = Some (bs, gs, g) ->
  RecompLooseCheck.rvalid_loose pay K st (combine_graphs gs) /\
  NoDup (gk K st (combine_graphs gs)) /\ (forall x, In x (gk K st (combine_graphs gs)) <-> In x (retained K st thr (map fst lreads))).
Proof.
  intros Hpar Hperm HK Hok Hord Hvar H. unfold sharded in H.
  destruct (pieces_of max_len K P perm (negb st) lreads) as [ps|] eqn:Eps; [|discriminate].
  destruct (omap2 _ (buckets_of ps) orders) as [gs'|] eqn:Egs; [|discriminate].
  destruct (compress_graph pay pay_reduce (pay_join mode) K st (combine_graphs gs') None) as [g'|] eqn:Eg; [|discriminate].
  injection H as <- <- <-.
  split; [exact (combined_rvalid_loose max_len K P perm st thr mode variant lreads Hpar Hperm HK Hok Hvar ps Eps orders Hord gs' Egs)|].
  exact (G_kmers max_len K P perm st thr mode variant lreads Hpar Hperm HK Hok Hvar ps Eps orders Hord gs' Egs).
Qed.

(* it never panics when every [order] lists the keys of its shard table (the retained k-mers with that shard id), in any
   order - and then returns the assembly *)
Theorem sharded_total max_len K P perm st thr mode variant (lreads : list lread) :
  params_ok max_len K P -> perm_ok P perm -> 4 <= K -> Forall lread_ok lreads -> variant <> 1%N ->
  exists ps, pieces_of max_len K P perm (negb st) lreads = Some ps /\
    forall orders,
      Forall2 (fun b order => Permutation order (filter (fun k => (SH P perm (negb st) k =? b)%N) (retained K st thr (map fst lreads))))
              (buckets_of ps) orders ->
      exists gs g, sharded max_len K P perm st thr mode variant lreads orders = Some (buckets_of ps, gs, g) /\
                   assembly_of K st thr mode lreads g.
Proof.
  intros Hpar Hperm HK Hok Hvar.
  destruct (shard_observations max_len K P perm st Hpar lreads Hok) as (ps & Eps & _). exists ps. split; [exact Eps|].
  intros orders Ho.
  assert (Hord : Forall (@NoDup dna) orders).
  { clear -Ho. induction Ho as [|b o bs os Hp _ IH]; constructor; [|exact IH].
    eapply Permutation_NoDup; [symmetry; exact Hp|]. apply NoDup_filter, retained_nodup. }
  assert (Hwf : Forall (fun r => wf_dna (fst r)) lreads) by exact (lreads_wf lreads Hok).
  assert (HK1 : 1 <= K) by lia.
  assert (Hf : forall b order, Permutation order (filter (fun k => (SH P perm (negb st) k =? b)%N) (retained K st thr (map fst lreads))) ->
                 shard_graph K st thr mode variant (shard_seqs ps b) order <> None).
  { intros b order Hp. unfold shard_graph.
    destruct (table_of_shard_total max_len K P perm st thr lreads Hpar Hperm HK Hok ps Eps variant b order Hvar Hp) as [T ET].
    rewrite ET.
    assert (Hnd : NoDup order) by (eapply Permutation_NoDup; [symmetry; exact Hp|]; apply NoDup_filter, retained_nodup).
    pose proof (table_of_shard_spec max_len K P perm st thr lreads Hpar Hperm HK Hok ps Eps variant b order T Hvar Hnd ET) as HT.
    pose proof (shard_tbl_ok K st thr lreads (SH P perm (negb st)) Hwf _ b T HT) as Htok.
    pose proof (shard_links_loose K st thr lreads (SH P perm (negb st)) HK1 Hwf _ b T HT) as HLl.
    destruct (compress_loose_total K st mode HK1 T _ Htok HLl) as [g0 E0]. rewrite E0. discriminate. }
  destruct (omap2_total (fun b order => shard_graph K st thr mode variant (shard_seqs ps b) order) _ Hf (buckets_of ps) orders Ho) as [gs Egs].
  destruct (combined_total max_len K P perm st thr mode variant lreads Hpar Hperm HK Hok Hvar ps Eps orders Hord gs Egs) as [g Eg].
  exists gs, g. split.
  - unfold sharded. rewrite Eps, Egs, Eg. reflexivity.
  - exact (combined_assembly max_len K P perm st thr mode variant lreads Hpar Hperm HK Hok Hvar ps Eps orders Hord gs Egs g Eg).
Qed.
Print Assumptions sharded_assembly.
Print Assumptions sharded_total.
Print Assumptions sharded_combined_rvalid_loose.
