(* pipecor (1): bridge lemmas between the validity notions of C09 ([rvalid], Check/RecompCheck.v), C03 ([graph_ok] /
   [valid_graph], Spec/EdgeSpec.v) and C20 ([tab_symmetric], Spec/ExportSpec.v).
     rvalid g + ends_ok g (+ 1 <= K)  ->  valid_graph g          (rvalid_ends_valid_graph)
   the converse of RecompLooseGraphOk.valid_graph_rvalid.  [rvalid] alone is not enough when unstranded: it asks only for
   distinct left ends and distinct right ends, [ends_ok] also forbids a facing end equal to the rc of an end outside a
   single-k-mer node.  [links_sym] (some extension leads back) is weaker in FORM than [exts_sym] (the extension with the
   back base leads back) - but a return extension that resolves to the source end can only be the back base:
   [back_unique].
     graph_ok g  ->  tab_symmetric (pal_node g) (etab_of g)      (graph_ok_tab_symmetric)
   C03's edges_symmetric read on C20's edge table; the palindromic single-k-mer clauses coincide
   (EdgeSpec.pal_single g v <-> pal_node g v = true). *)
From Coq Require Import NArith List Bool Arith Lia Permutation.
From DBG Require Import Spec.Dna Spec.GraphIndex Spec.ExportSpec Packed.ExtsModel Algo.Compress Algo.GraphModel Algo.Recompress
  Algo.Export Spec.EdgeSpec Check.RecompCheck Check.RecompLooseCheck
  Proofs.ListFacts Proofs.DnaFacts Proofs.GraphQueryProofs Proofs.RecompCheckProofs Proofs.RecompressProofs Proofs.RecompLoose Proofs.RecompLooseGraphOk
  Proofs.ExportProofs Proofs.ExportEdgesProofs.
Import ListNotations.
Local Open Scope nat_scope.

(* ---- a return extension that restores the k-mer is the back base ---- *)
Lemma back_unique x b b' s : 1 <= length x -> extend (extend x b s) b' (dflip s) = x -> b' = back_base x s false.
Proof.
  intros H E. destruct x as [|a x]; [cbn in H; lia|]. destruct s; cbn [dflip extend back_base] in *.
  - unfold extend_left, extend_right in E. cbn [tl] in E.
    assert (E2 : removelast (a :: x) ++ [b'] = removelast (a :: x) ++ [last (a :: x) 0%N]).
    { rewrite E. apply app_removelast_last. discriminate. }
    apply app_inv_head in E2. now inversion E2.
  - unfold extend_left, extend_right in E. cbn [tl hd] in *. rewrite removelast_snoc in E. now inversion E.
Qed.
(* ... across a strand flip *)
Lemma back_unique_rc x b b' s : 1 <= length x -> wf_dna x ->
  extend (rc (extend x b s)) b' s = rc x -> b' = back_base x s true.
Proof.
  intros H W E. rewrite rc_extend in E. rewrite <- (back_base_flip x s H W).
  apply (back_unique (rc x) (comp b) b' (dflip s)); [now rewrite rc_length|]. now rewrite dflip_invol.
Qed.

Section Bridge.
Variable D : Type.
Variable K : nat.
Variable stranded : bool.
Local Notation graph := (graph D).
Local Notation gnode := (gnode D).

Lemma rpal_single_inv (n : gnode) : RecompCheck.pal_single D K stranded n = true ->
  stranded = false /\ length (n_seq D n) = K /\ n_seq D n = rc (n_seq D n).
Proof.
  unfold RecompCheck.pal_single. intro H. apply andb_true_iff in H as [H H3]. apply andb_true_iff in H as [H1 H2].
  apply Nat.eqb_eq in H2. split; [now destruct stranded|]. split; [exact H2|].
  apply palindrome_iff. now rewrite (first_kmer_whole K _ H2) in H3.
Qed.

(* the terminal k-mer of a node on two sides that may differ only when the node is a palindromic single k-mer *)
Lemma term_two_sides (n : gnode) a b : (RecompCheck.pal_single D K stranded n = false -> a = b) ->
  term_kmer K (n_seq D n) a = term_kmer K (n_seq D n) b /\
  (a <> b -> stranded = false /\ length (n_seq D n) = K /\ term_kmer K (n_seq D n) b = rc (term_kmer K (n_seq D n) b)).
Proof.
  intro H. destruct (RecompCheck.pal_single D K stranded n) eqn:P.
  - apply rpal_single_inv in P as (St & L & Pl). rewrite !(GraphQueryProofs.term_kmer_single K (n_seq D n)) by exact L. split; [reflexivity|]. intros _. split; [exact St|]. split; [exact L | exact Pl].
  - rewrite (H eq_refl). split; [reflexivity|]. intro N. now contradiction N.
Qed.

Lemma dir_cases (a b : dir) : a = b \/ a = dflip b.
Proof. destruct a, b; auto. Qed.
Lemma dflip_neq (a : dir) : dflip a <> a.
Proof. destruct a; discriminate. Qed.

Theorem rvalid_ends_exts_sym (g : graph) :
  rvalid D K stranded g -> ends_ok D K stranded g -> EdgeSpec.exts_sym D K stranded g.
Proof.
  intros (Hok & NL & NR & Hpal & Hres & Hsym) EO u s b v t f Hu Hb He Hl. cbn zeta.
  destruct (nth_error g u) as [n|] eqn:En; [|apply nth_error_None in En; lia].
  pose proof (find_link_some D K stranded g _ _ _ _ _ Hl) as FS.
  assert (Hv : v < length g) by (destruct FS as [(_ & _ & [H _])|(_ & _ & _ & [H _] & _)]; exact H).
  destruct (nth_error g v) as [m|] eqn:Em; [|apply nth_error_None in Em; lia].
  assert (Nu : node_seq D g u = n_seq D n) by (unfold node_seq; now rewrite En).
  assert (Nv : node_seq D g v = n_seq D m) by (unfold node_seq; now rewrite Em).
  assert (Xu : node_exts D g u = n_exts D n) by (unfold node_exts; now rewrite En).
  assert (Xv : node_exts D g v = n_exts D m) by (unfold node_exts; now rewrite Em).
  rewrite Nu, Xu in *. rewrite Xv.
  pose proof (node_ok_nth D K g u n Hok En) as (Wn & Ln & _).
  pose proof (node_ok_nth D K g v m Hok Em) as (Wm & Lm & _).
  assert (HeL : ext_link D K stranded g u s b = Some (v, t, f)) by (unfold ext_link; now rewrite En, He).
  destruct (Hsym u s b v t f n m En Em Hb HeL) as (t' & b' & d' & f' & Hb' & Hback & Ht & Hd).
  unfold ext_link in Hback. rewrite Em in Hback.
  destruct (e_has_ext (n_exts D m) (dirb t') b') eqn:Hh; [|discriminate].
  apply in_bases in Hb. apply in_bases in Hb'.
  set (X := term_kmer K (n_seq D n) s) in *. set (Z := term_kmer K (n_seq D m) t).
  destruct (term_kmer_ok K (n_seq D n) s Wn (proj2 Ln)) as [LX WX]. fold X in LX, WX.
  destruct (term_kmer_ok K (n_seq D m) t Wm (proj2 Lm)) as [LZ WZ]. fold Z in LZ, WZ.
  assert (L1 : 1 <= length X) by lia.
  set (y := extend X b s) in *.
  assert (Ly : length y = K) by (unfold y; rewrite extend_length; lia).
  assert (Wy : wf_dna y) by (now apply extend_wf).
  destruct (term_two_sides m t' t) as [EZ PZ].
  { intro P. destruct (dir_cases t' t) as [E|E]; [exact E|]. now apply Ht. }
  destruct (term_two_sides n d' s) as [EX PX].
  { intro P. destruct (dir_cases d' s) as [E|E]; [exact E|]. now apply Hd. }
  fold X in EX, PX. fold Z in EZ, PZ. rewrite EZ in Hback.
  (* what the return link says about X *)
  assert (BK : (d' = dflip t' /\ X = extend Z b' t') \/ (d' = t' /\ stranded = false /\ X = rc (extend Z b' t'))).
  { destruct (find_link_some D K stranded g _ _ _ _ _ Hback) as [(_ & Ed & [_ E])|(_ & St & Ed & [_ E] & _)].
    - left. split; [exact Ed|]. rewrite Nu, EX in E. now symmetry.
    - right. split; [exact Ed|]. split; [exact St|]. rewrite Nu, EX in E. now symmetry. }
  assert (PV : t' <> t -> EdgeSpec.pal_single D K stranded g v /\ Z = rc Z).
  { intro N. destruct (PZ N) as (St & L & P). split; [|exact P]. split; [exact St|]. split; [exact Hv|]. rewrite Nv. split; [exact L|].
    unfold Z in P. now rewrite GraphQueryProofs.term_kmer_single in P by exact L. }
  assert (Wzb : wf_dna (extend Z b' t')) by (now apply extend_wf).
  destruct FS as [(-> & -> & [_ EF])|(-> & St & -> & [_ EF] & NF)]; rewrite Nv in EF; fold Z in EF; fold X y in EF.
  - (* direct hit: Z = y, t = dflip s *)
    destruct (dir_cases t' (dflip s)) as [->|Et].
    + left. replace (back_base X s false) with b'; [exact Hh|].
      apply (back_unique X b b' s L1). fold y. rewrite <- EF.
      destruct BK as [(_ & E)|(Ed & _ & E)]; [now symmetry|].
      destruct (PX ltac:(rewrite Ed; apply dflip_neq)) as (_ & _ & P).
      rewrite P, E. symmetry. now apply rc_involutive.
    + rewrite dflip_invol in Et. subst t'.
      destruct (PV ltac:(intro E; symmetry in E; now apply dflip_neq in E)) as [PVv PZz].
      right. split; [exact PVv|]. rewrite dflip_invol.
      replace (comp (back_base X s false)) with b'; [exact Hh|].
      rewrite <- (comp_involutive b' Hb'). f_equal.
      apply (back_unique X b (comp b') s L1). fold y. rewrite <- EF.
      assert (E : extend Z (comp b') (dflip s) = rc (extend Z b' s)) by (rewrite rc_extend; now rewrite <- PZz).
      rewrite E. destruct BK as [(Ed & E1)|(_ & _ & E1)]; [|now symmetry].
      destruct (PX ltac:(rewrite Ed; apply dflip_neq)) as (_ & _ & P). rewrite <- E1. now symmetry.
  - (* hit through the reverse complement: Z = rc y, t = s *)
    destruct (dir_cases t' s) as [-> | ->].
    + left. replace (back_base X s true) with b'; [exact Hh|].
      apply (back_unique_rc X b b' s L1 WX). fold y. rewrite <- EF.
      destruct BK as [(Ed & E)|(_ & _ & E)].
      * destruct (PX ltac:(rewrite Ed; apply dflip_neq)) as (_ & _ & P). rewrite <- P. now symmetry.
      * rewrite E. symmetry. now apply rc_involutive.
    + exfalso. destruct (PV (dflip_neq s)) as [_ PZz]. apply (NF v). split; [exact Hv|].
      rewrite Nv.
      rewrite EZ. rewrite PZz, EF. now apply rc_involutive.
Qed.

Lemma resolvable_exts_resolvable (g : graph) : resolvable D K stranded g -> exts_resolvable D K stranded g.
Proof.
  intros R u s b Hu Hb Hh. destruct (nth_error g u) as [n|] eqn:En; [|apply nth_error_None in En; lia].
  unfold node_exts, node_seq in *. rewrite En in *. pose proof (R u s b n En Hb Hh) as H. unfold ext_link in H. now rewrite En, Hh in H.
Qed.

Theorem rvalid_ends_valid_graph (g : graph) : 1 <= K ->
  rvalid D K stranded g -> ends_ok D K stranded g -> valid_graph D K stranded g.
Proof.
  intros HK V EO. split; [|apply resolvable_exts_resolvable; apply V].
  split; [|split; [exact EO | now apply rvalid_ends_exts_sym]].
  split; [exact HK|]. intros n Hn. destruct V as [Hok _]. rewrite Forall_forall in Hok.
  destruct (Hok n Hn) as (W & L & _). split; [lia | exact W].
Qed.

(* ---- C03 graph_ok -> C20 tab_symmetric ---- *)
Lemma pal_single_pal_node (g : graph) v : EdgeSpec.pal_single D K stranded g v -> pal_node D K stranded g v = true.
Proof.
  intros (St & Hv & L & P). unfold pal_node, node_seq in *.
  destruct (nth_error g v) as [n|] eqn:En; [|apply nth_error_None in En; lia].
  rewrite St, L, Nat.eqb_refl. cbn [negb andb]. now apply palindrome_iff.
Qed.
Lemma pal_node_pal_single (g : graph) v : pal_node D K stranded g v = true -> EdgeSpec.pal_single D K stranded g v.
Proof.
  intro H. apply pal_node_cases in H as (n & En & St & L & P). split; [exact St|].
  split; [apply nth_error_Some; congruence|]. unfold node_seq. now rewrite En.
Qed.

Theorem graph_ok_tab_symmetric (g : graph) : graph_ok D K stranded g ->
  tab_symmetric (pal_node D K stranded g) (etab_of D K stranded g).
Proof.
  intros G u a v b Hin. rewrite tab_edges_etab in Hin. apply in_map_iff in Hin as ([[v0 t] f] & E & Hin).
  unfold target in E. cbn [fst] in E. injection E as -> ->.
  change (Export.edges D K stranded g u a) with (edges_of D K stranded g u a) in Hin.
  assert (Hu : u < length g) by (apply in_edges_of in Hin; tauto).
  destruct (edges_symmetric D K stranded g G u a v b f Hu Hin) as (s' & t' & f' & Hback & Ht & Hs & _).
  exists s', t'. split; [|split].
  - destruct Hs as [Hs|Hs]; [now left | right; now apply pal_single_pal_node].
  - destruct Ht as [Ht|Ht]; [now left | right; now apply pal_single_pal_node].
  - rewrite tab_edges_etab. apply in_map_iff. exists (u, s', f'). split; [reflexivity | exact Hback].
Qed.

(* ---- "every (canonical) k-mer once", in the two spellings ---- *)
Lemma graph_wf_of_wf_graph (g : graph) : wf_graph D K g -> graph_wf D K g.
Proof. intros [_ H]. apply Forall_forall. intros n Hn. destruct (H n Hn). auto. Qed.
End Bridge.

Print Assumptions rvalid_ends_valid_graph.
Print Assumptions graph_ok_tab_symmetric.
