(* C01: the theorems about compress_kmers (model) for every well-formed table. *)
From Coq Require Import NArith List Bool Arith Lia Permutation.
From DBG Require Import Proofs.AbstractWalk.
From DBG Require Import Spec.Dna Spec.GraphIndex Spec.Unitig Spec.CompressSpec Packed.ExtsModel Algo.Compress
  Proofs.ListFacts Proofs.DnaFacts Proofs.ExtsProofs Proofs.ExtsWalk Proofs.KmerAlgebra Proofs.CompressBasics
  Proofs.CompressRefine Proofs.CompressWalk.
Import ListNotations.
Local Open Scope nat_scope.

Section WalkGen.
Variable V : Type.
Variable eq_dec : forall x y : V, {x = y} + {x <> y}.
Variable next : V -> side -> option (V * side).
Lemma build_chains avail seed lp rp a3 : NoDup avail -> build V eq_dec next avail seed = (lp, rp, a3) ->
  chain V next seed L lp /\ chain V next seed R rp /\ NoDup a3 /\ (forall x, In x a3 -> In x avail /\ x <> seed).
Proof.
  intros Hnd Hb. unfold build in Hb.
  set (a1 := remove eq_dec seed avail) in *.
  destruct (AbstractWalk.extend V eq_dec next (S (length a1)) a1 seed L) as [lp0 a2] eqn:HeL.
  destruct (AbstractWalk.extend V eq_dec next (S (length a2)) a2 seed R) as [rp0 a3'] eqn:HeR.
  injection Hb as <- <- <-.
  assert (Hnd1 : NoDup a1) by (apply (NoDup_remove_ V eq_dec next); auto).
  destruct (extend_spec V eq_dec next _ _ _ _ _ _ (Nat.lt_succ_diag_r _) Hnd1 HeL) as [HcL _ Hnd2 HspL _ _].
  destruct (extend_spec V eq_dec next _ _ _ _ _ _ (Nat.lt_succ_diag_r _) Hnd2 HeR) as [HcR _ Hnd3 HspR _ _].
  repeat split; auto.
  - assert (In x a1) by (apply HspL; right; apply HspR; now right). unfold a1 in H0. apply in_remove in H0. tauto.
  - assert (In x a1) by (apply HspL; right; apply HspR; now right). unfold a1 in H0. apply in_remove in H0. tauto.
Qed.

(* the partition half of AbstractWalk.build_closed / compress_partition, without the symmetry hypothesis *)
Lemma build_split avail seed lp rp a3 :
  NoDup avail -> In seed avail -> build V eq_dec next avail seed = (lp, rp, a3) ->
  NoDup (node_verts V lp seed rp) /\ NoDup a3 /\
  (forall x, In x avail <-> In x (node_verts V lp seed rp) \/ In x a3) /\
  (forall x, In x (node_verts V lp seed rp) -> ~ In x a3).
Proof.
  intros Hnd Hseed Hb. unfold build in Hb.
  set (a1 := remove eq_dec seed avail) in *.
  destruct (AbstractWalk.extend V eq_dec next (S (length a1)) a1 seed L) as [lp0 a2] eqn:HeL.
  destruct (AbstractWalk.extend V eq_dec next (S (length a2)) a2 seed R) as [rp0 a3'] eqn:HeR.
  injection Hb as <- <- <-.
  assert (Hnd1 : NoDup a1) by (apply (NoDup_remove_ V eq_dec next); auto).
  destruct (extend_spec V eq_dec next _ _ _ _ _ _ (Nat.lt_succ_diag_r _) Hnd1 HeL) as [HcL HndL Hnd2 HspL HdjL HstL].
  destruct (extend_spec V eq_dec next _ _ _ _ _ _ (Nat.lt_succ_diag_r _) Hnd2 HeR) as [HcR HndR Hnd3 HspR HdjR HstR].
  assert (Ha1 : forall x, In x a1 <-> In x avail /\ x <> seed).
  { intro x. unfold a1. split; [intro H; apply in_remove in H; tauto | intros [H1 H2]; apply in_in_remove; auto]. }
  assert (Hcases : forall x, In x avail <-> x = seed \/ In x (verts V lp0) \/ In x (verts V rp0) \/ In x a3').
  { intro x. split.
    - intro Hx. destruct (eq_dec x seed); [auto|]. assert (H : In x a1) by (apply Ha1; auto).
      apply HspL in H. destruct H as [H|H]; [auto|]. apply HspR in H. tauto.
    - intros [->|[H|[H|H]]]; auto.
      + apply Ha1, HspL; auto.
      + apply Ha1, HspL. right. apply HspR. auto.
      + apply Ha1, HspL. right. apply HspR. auto. }
  assert (HseedL : ~ In seed (verts V lp0)) by (intro H; assert (In seed a1) by (apply HspL; auto); apply Ha1 in H0; tauto).
  assert (HseedR : ~ In seed (verts V rp0)) by (intro H; assert (In seed a1) by (apply HspL; right; apply HspR; auto); apply Ha1 in H0; tauto).
  assert (Hseed3 : ~ In seed a3') by (intro H; assert (In seed a1) by (apply HspL; right; apply HspR; auto); apply Ha1 in H0; tauto).
  assert (HLR : forall x, In x (verts V lp0) -> ~ In x (verts V rp0)).
  { intros x H1 H2. apply (HdjL x H1). apply HspR. auto. }
  split; [|split; [exact Hnd3|split]].
  - unfold node_verts. apply (NoDup_app_ V next); [apply NoDup_rev; auto | constructor; auto |].
    intros x H1 H2. apply in_rev in H1. destruct H2 as [<-|H2]; [tauto | eapply HLR; eauto].
  - intro x. rewrite in_node, Hcases. tauto.
  - intros x Hx. apply in_node in Hx. destruct Hx as [H|[->|H]]; auto.
    intro H3. apply (HdjL x H). apply HspR. auto.
Qed.

Theorem compress_partition_nosym order : forall avail,
  NoDup avail -> (forall x, In x avail -> In x order) ->
  NoDup (concat (compress V eq_dec next order avail)) /\
  (forall x, In x (concat (compress V eq_dec next order avail)) <-> In x avail).
Proof.
  induction order as [|v o IH]; intros avail Hnd Hincl; cbn [compress].
  - split; [constructor|]. intro x; split; [intros []|]. intro H; apply Hincl in H; destruct H.
  - destruct (mem V eq_dec v avail) eqn:Hm.
    + apply mem_In in Hm. destruct (build V eq_dec next avail v) as [[lp rp] a'] eqn:Hb.
      destruct (build_split _ _ _ _ _ Hnd Hm Hb) as (HndN & Hnda & Hsp & Hdj).
      assert (Hincl' : forall x, In x a' -> In x o).
      { intros x Hx. assert (Hxa : In x avail) by (apply Hsp; auto). destruct (Hincl _ Hxa) as [<-|]; auto.
        exfalso. apply (Hdj v); auto. apply in_node; auto. }
      destruct (IH a' Hnda Hincl') as [IH1 IH2]. cbn [concat]. split.
      * apply (NoDup_app_ V next); auto. intros x H1 H2. apply IH2 in H2. eapply Hdj; eauto.
      * intro x. rewrite in_app_iff, IH2, Hsp. tauto.
    + apply IH; auto. intros x Hx. destruct (Hincl _ Hx) as [<-|]; auto.
      exfalso. apply (mem_In V eq_dec) in Hx. congruence.
Qed.

Lemma NoDup_app_inv (a b : list V) : NoDup (a ++ b) -> NoDup a /\ NoDup b /\ forall y, In y a -> ~ In y b.
Proof.
  induction a as [|x a IH]; cbn; intro H; [repeat split; auto; constructor|]. inversion H; subst.
  destruct (IH H3) as (Ha & Hb & Hd). split; [|split; auto].
  - constructor; auto. intro Hx. apply H2. apply in_or_app. now left.
  - intros y [<-|Hy]; [intro Hy; apply H2; apply in_or_app; now right | now apply Hd].
Qed.
Lemma concat_unique (l : list (list V)) : NoDup (concat l) ->
  forall N1 N2 x, In N1 l -> In N2 l -> In x N1 -> In x N2 -> N1 = N2.
Proof.
  induction l as [|a l IH]; intros Hnd N1 N2 x H1 H2 Hx1 Hx2; [destruct H1|].
  cbn [concat] in Hnd. destruct (NoDup_app_inv _ _ Hnd) as (_ & Hl & Hdisj).
  assert (Hc : forall N, In N l -> In x N -> In x (concat l)) by (intros N HN HxN; apply in_concat; eauto).
  destruct H1 as [<-|H1], H2 as [<-|H2]; auto.
  - exfalso. apply (Hdisj x Hx1). eauto.
  - exfalso. apply (Hdisj x Hx2). eauto.
  - eapply IH; eauto.
Qed.
End WalkGen.

Section C01.
Variable D : Type.
Variable reduce : D -> D -> D.
Variable join : D -> D -> bool.
Variable K : nat.
Variable stranded : bool.
Hypothesis HK : 1 <= K.
Variable T : table D.
Hypothesis Hok : tbl_ok D K stranded T.
Hypothesis Hsym : exts_sym D stranded T.
Local Notation knext := (knext D join stranded T).
Local Notation kkey := (kkey D T).
Local Notation anext := (anext D join stranded T).
Local Notation ck := (canon_k stranded).
Local Notation cstruct := (compress_struct D join stranded T).
Local Notation U := (seq 0 (length T)).

Lemma map_kkey_U : map kkey U = keys D T.
Proof.
  unfold Unitig.keys. apply (nth_ext _ _ [] []); [now rewrite !map_length, seq_length|].
  intros n Hn. rewrite map_length, seq_length in Hn.
  rewrite (nth_indep _ [] (kkey 0)) by (now rewrite map_length, seq_length).
  rewrite map_nth, seq_nth by auto. cbn [Nat.add]. unfold CompressRefine.kkey.
  destruct (nth_error T n) as [e|] eqn:E; [|apply nth_error_None in E; lia].
  rewrite (nth_indep _ [] (e_key D e)) by (now rewrite map_length).
  rewrite map_nth. f_equal. symmetry. now apply nth_error_nth.
Qed.

Lemma struct_chains order : forall avail, NoDup avail ->
  forall lp i rp, In (lp, i, rp) (cstruct order avail) ->
  chain nat anext i L lp /\ chain nat anext i R rp /\ In i order.
Proof.
  induction order as [|v o IH]; intros avail Hnd lp i rp Hin; [destruct Hin|].
  cbn [compress_struct] in Hin. destruct (mem nat Nat.eq_dec v avail) eqn:Hm.
  - destruct (build nat Nat.eq_dec anext avail v) as [[lp0 rp0] a'] eqn:Hb.
    destruct (build_chains nat Nat.eq_dec anext avail v lp0 rp0 a' Hnd Hb) as (HcL & HcR & Hnd' & _).
    destruct Hin as [Heq|Hin].
    + injection Heq as <- <- <-. repeat split; auto. now left.
    + destruct (IH a' Hnd' _ _ _ Hin) as (H1 & H2 & H3). repeat split; auto. now right.
  - destruct (IH avail Hnd _ _ _ Hin) as (H1 & H2 & H3). repeat split; auto. now right.
Qed.

Lemma Forall2_in_l {A B} (R : A -> B -> Prop) l l' : Forall2 R l l' -> forall a, In a l -> exists b, In b l' /\ R a b.
Proof.
  induction 1 as [|a b l l' Hab H IH]; intros x Hx; [destruct Hx|].
  destruct Hx as [<-|Hx]; [exists b; split; [now left | auto]|].
  destruct (IH _ Hx) as [b' [Hb' Hr]]. exists b'. split; [now right | auto].
Qed.
Lemma Forall2_map_eq {A B C} (R : A -> B -> Prop) (f : A -> C) (g : B -> C) l l' :
  Forall2 R l l' -> (forall a b, In b l' -> R a b -> f a = g b) -> map f l = map g l'.
Proof.
  induction 1 as [|a b l l' Hab H IH]; intro Hfg; [reflexivity|]. cbn [map]. f_equal.
  - apply Hfg; [now left | auto].
  - apply IH. intros a' b' Hb' Hr. apply Hfg; [now right | auto].
Qed.

Local Notation node_rel := (node_rel D reduce T).

Definition pents (p : list (nat * side)) : list (entry D) :=
  flat_map (fun wt => match nth_error T (fst wt) with Some e => [e] | None => [] end) p.
Lemma pdata_pents p : pdata D T p = map (e_data D) (pents p).
Proof.
  unfold pdata, pents. induction p as [|wt p IH]; [reflexivity|]. cbn [flat_map]. rewrite map_app, IH.
  destruct (nth_error T (fst wt)); reflexivity.
Qed.
Lemma pents_keys p : valid_path D T p -> map (e_key D) (pents p) = map kkey (verts nat p).
Proof.
  induction p as [|wt p IH]; intro Hv; [reflexivity|]. cbn [pents flat_map verts map].
  destruct (Hv wt (or_introl eq_refl)) as [e He]. unfold CompressRefine.kkey at 1. rewrite He. cbn [app map].
  f_equal. apply IH. intros x Hx. apply Hv. now right.
Qed.
Lemma pents_in p e : In e (pents p) -> In e T.
Proof.
  unfold pents. rewrite in_flat_map. intros [wt [_ H]]. destruct (nth_error T (fst wt)) as [e'|] eqn:E; [|destruct H].
  destruct H as [<-|[]]. eapply nth_error_In; eauto.
Qed.

(* the facts about one output node *)
Lemma node_facts n lp i rp : node_rel n (lp, i, rp) -> In (lp, i, rp) (cstruct U U) ->
  node_windows D K n = node_wins D T lp i rp /\
  node_keys D K stranded n = map kkey (node_verts nat lp i rp) /\
  length (n_seq D n) = length lp + K + length rp /\
  linked (step_ok D stranded T) (node_windows D K n) /\
  exists ent, nth_error T i = Some ent /\
    Permutation (map (e_key D) (ent :: pents (lp ++ rp))) (node_keys D K stranded n) /\
    n_data D n = fold_left reduce (map (e_data D) (pents (lp ++ rp))) (e_data D ent).
Proof.
  intros [ent [Hi Hn]] Hin.
  destruct (struct_chains U U (seq_NoDup _ _) _ _ _ Hin) as (HcL & HcR & _).
  destruct (node_spelling D join K stranded HK T Hok Hsym lp i rp ent Hi HcL HcR) as (S1 & S2 & S3 & S4).
  subst n. unfold node_keys, node_windows, n_seq, n_data. cbn [fst snd].
  rewrite S1. repeat split; auto.
  exists ent. split; [exact Hi|]. split.
  - rewrite S4. cbn [map].
    assert (Hv : valid_path D T (lp ++ rp)).
    { intros wt Hwt. apply in_app_or in Hwt. destruct Hwt as [H|H];
      [eapply (chain_valid D join stranded T) in HcL | eapply (chain_valid D join stranded T) in HcR]; eauto. }
    rewrite (pents_keys _ Hv). unfold node_verts, verts. rewrite !map_app, map_rev. cbn [map].
    assert (Hk : kkey i = e_key D ent) by (unfold CompressRefine.kkey; now rewrite Hi). rewrite <- Hk.
    apply Permutation_cons_app. apply Permutation_app_tail. apply Permutation_rev.
  - unfold node_data. now rewrite pdata_pents.
Qed.

Theorem compress_c01 : exists nodes,
  compress_kmers D reduce join stranded T = Some nodes /\
  partition_ok D K stranded T nodes /\ steps_ok D K stranded T nodes /\ payload_ok D K stranded reduce T nodes.
Proof.
  destruct (compress_refines D reduce join K stranded HK T Hok Hsym) as [nodes [Hc Hrel]].
  exists nodes. split; [exact Hc|].
  assert (Hper : forall n, In n nodes -> exists x, In x (cstruct U U) /\ node_rel n x) by (apply Forall2_in_l; auto).
  split; [|split].
  - unfold partition_ok.
    assert (E : map (node_keys D K stranded) nodes =
                map (fun x => map kkey (node_verts nat (fst (fst x)) (snd (fst x)) (snd x))) (cstruct U U)).
    { eapply Forall2_map_eq; [exact Hrel|]. intros n [[lp i] rp] Hin Hr. cbn [fst snd]. now apply node_facts. }
    rewrite E. rewrite <- (map_map (fun x => node_verts nat (fst (fst x)) (snd (fst x)) (snd x)) (map kkey)).
    rewrite compress_struct_verts. rewrite <- concat_map. rewrite <- map_kkey_U. apply Permutation_map.
    destruct (compress_partition_nosym nat Nat.eq_dec anext U U (seq_NoDup _ _) (fun x H => H)) as [Hnd Hiff].
    apply NoDup_Permutation; auto. apply seq_NoDup.
  - intros n Hn i Hi. destruct (Hper n Hn) as [[[lp s] rp] [Hin Hr]].
    destruct (node_facts _ _ _ _ Hr Hin) as (_ & _ & _ & Hl & _). now apply linked_nth.
  - intros n Hn. destruct (Hper n Hn) as [[[lp s] rp] [Hin Hr]].
    destruct (node_facts _ _ _ _ Hr Hin) as (_ & _ & _ & _ & ent & Hi & Hp & Hd).
    exists ent, (pents (lp ++ rp)). split; [exact Hp|]. split; [|exact Hd].
    intros e [<-|He]; [eapply nth_error_In; eauto | eapply pents_in; eauto].
Qed.
(* the node extensions are those of the node's two end k-mers, read in the node's frame (C03 terminal_exts) *)
Theorem compress_terminal : exists nodes,
  compress_kmers D reduce join stranded T = Some nodes /\ terminal_ok D K stranded T nodes.
Proof.
  destruct (compress_refines D reduce join K stranded HK T Hok Hsym) as [nodes [Hc Hrel]].
  exists nodes. split; [exact Hc|]. intros n Hn.
  destruct (Forall2_in_l _ _ _ Hrel n Hn) as [[[lp s] rp] [Hin [ent [Hi Heq]]]].
  destruct (struct_chains U U (seq_NoDup _ _) _ _ _ Hin) as (HcL & HcR & _).
  destruct (node_terminal D join K stranded HK T Hok Hsym lp s rp ent Hi HcL HcR) as (el & er & H1 & H2 & H3).
  subst n. unfold n_seq, n_exts. cbn [fst snd]. exists el, er. auto.
Qed.
End C01.
