(* The two models of `KmerExtsIter` (lib.rs) agree.
     * packed, incremental:  Algo/Iter.v `iter_kmer_exts` (extend_right per step; full Exts model Packed/ExtsModel.v),
       proved per container in Proofs/IterProofs.v (property C13);
     * list-level, positional: Algo/Filter.v `kmer_exts` (small Exts model Packed/ExtsMini.v) - what `observations` /
       `filter_kmers` of the C05 model consume.
   The C13 theorems describe the extension byte of an item only through its two base SETS (exts_left / exts_right); the
   filter model needs the byte itself.  [ext_byte_determined] closes that gap: a byte is determined by its two sets. *)
From Coq Require Import NArith List Bool Arith Lia.
From DBG Require Import Spec.Dna Packed.KmerModel Packed.ExtsModel Packed.Blocks Packed.DnaStringModel Packed.SliceModel
  Packed.LmerModel Algo.Iter Algo.SeqHist Algo.KmerHist Proofs.KmerDefaults Proofs.ExtsProofs Proofs.LmerProofs
  Proofs.IterProofs Proofs.DnaStringProofs Proofs.ExtsBridge.
From DBG Require Packed.ExtsMini Algo.Filter.
Import ListNotations.
Open Scope N_scope.

(* ---------------------------------------------------------------- 1. a byte is determined by its two base sets *)
Definition byte_of_sets (L R : list N) : N :=
  fold_right (fun b acc => N.lor (N.shiftl 1 b) acc) 0 L + 16 * fold_right (fun b acc => N.lor (N.shiftl 1 b) acc) 0 R.
Lemma byte_of_sets_exts a : a < 256 -> byte_of_sets (exts_left a) (exts_right a) = a.
Proof.
  intro Ha.
  assert (E : forallb (fun a => byte_of_sets (exts_left a) (exts_right a) =? a) all_exts = true) by (vm_compute; reflexivity).
  rewrite forallb_forall in E. specialize (E a (in_all_exts a Ha)). now apply N.eqb_eq.
Qed.
Theorem ext_byte_determined : forall a b, a < 256 -> b < 256 ->
  exts_left a = exts_left b -> exts_right a = exts_right b -> a = b.
Proof.
  intros a b Ha Hb EL ER. rewrite <- (byte_of_sets_exts a Ha), <- (byte_of_sets_exts b Hb), EL, ER. reflexivity.
Qed.

(* ---------------------------------------------------------------- the small Exts model on the iterator's bytes *)
Lemma ex_mk_left_spec b : b < 4 -> ExtsMini.ex_mk_left b < 256 /\ exts_left (ExtsMini.ex_mk_left b) = [b].
Proof.
  intro Hb. destruct (mk_left_spec b Hb) as [e [E [He Hl]]].
  destruct (exts_models_agree_mk b Hb) as [M _]. rewrite M in E. injection E as <-. split; assumption.
Qed.
Lemma ex_mk_right_spec b : b < 4 -> ExtsMini.ex_mk_right b < 256 /\ exts_right (ExtsMini.ex_mk_right b) = [b].
Proof.
  intro Hb. destruct (mk_right_spec b Hb) as [e [E [He Hl]]].
  destruct (exts_models_agree_mk b Hb) as [_ M]. rewrite M in E. injection E as <-. split; assumption.
Qed.
Lemma ex_merge_spec x y : x < 256 -> y < 256 ->
  ExtsMini.ex_merge x y < 256 /\ exts_left (ExtsMini.ex_merge x y) = exts_left x /\
  exts_right (ExtsMini.ex_merge x y) = exts_right y.
Proof.
  intros Hx Hy. destruct (exts_models_agree_binary x y Hx Hy) as [-> _].
  destruct (merge_spec x y Hx Hy) as [A [B C]]. auto.
Qed.
(* a read of length exactly K: both halves come from the caller's byte *)
Lemma ex_merge_same e : e < 256 -> ExtsMini.ex_merge e e = e.
Proof.
  intro He. destruct (ex_merge_spec e e He He) as [A [B C]]. now apply ext_byte_determined.
Qed.

(* ---------------------------------------------------------------- 2. the generic bridge *)
(* the projection of a packed item that the filter model sees: decoded k-mer, the extension byte itself *)
Definition item_obs (c : kcfg) (it : N * N) : dna * N := (decode (kK c) (fst it), snd it).

Section Bridge.
Variable c : kcfg.
Let K := kK c.
Variable l : dna.
Hypothesis Hl : wf_dna l.
Variable e : N.
Hypothesis He : e < 256.

(* item i of Filter.kmer_exts *)
Definition filter_item (i : nat) : dna * N :=
  (kmer_at K l i,
   ExtsMini.ex_merge (if Nat.eqb i 0 then e else ExtsMini.ex_mk_left (nth (i - 1) l 0))
                     (if Nat.ltb (i + K) (length l) then ExtsMini.ex_mk_right (nth (i + K) l 0) else e)).
Lemma kmer_exts_unfold : Filter.kmer_exts K l e = map filter_item (seq 0 (length l + 1 - K)).
Proof. reflexivity. Qed.

Lemma nth_wf i : (i < length l)%nat -> nth i l 0 < 4.
Proof. intro Hi. unfold wf_dna in Hl. rewrite Forall_forall in Hl. apply Hl. now apply nth_In. Qed.

(* the filter model's item, seen through item_view, is the item C13 expects *)
Lemma filter_item_view i : (i + K <= length l)%nat ->
  snd (filter_item i) < 256 /\
  (fst (filter_item i), exts_left (snd (filter_item i)), exts_right (snd (filter_item i))) = kmer_exts_item c l e i.
Proof.
  intro Hi. unfold filter_item, kmer_exts_item. cbn [fst snd]. fold K.
  set (L := if Nat.eqb i 0 then e else ExtsMini.ex_mk_left (nth (i - 1) l 0)).
  set (R := if Nat.ltb (i + K) (length l) then ExtsMini.ex_mk_right (nth (i + K) l 0) else e).
  assert (HL : L < 256 /\ exts_left L = (if Nat.eqb i 0 then exts_left e else [nth (i - 1) l 0])).
  { unfold L. destruct (Nat.eqb i 0) eqn:E0; [split; [exact He | reflexivity]|].
    apply Nat.eqb_neq in E0. apply ex_mk_left_spec. apply nth_wf. lia. }
  assert (HR : R < 256 /\ exts_right R = (if Nat.eqb i (length l - K) then exts_right e else [nth (i + K) l 0])).
  { unfold R. destruct (Nat.ltb (i + K) (length l)) eqn:E1.
    - apply Nat.ltb_lt in E1. replace (Nat.eqb i (length l - K)) with false by (symmetry; apply Nat.eqb_neq; lia).
      apply ex_mk_right_spec. apply nth_wf. exact E1.
    - apply Nat.ltb_ge in E1. replace (Nat.eqb i (length l - K)) with true by (symmetry; apply Nat.eqb_eq; lia).
      split; [exact He | reflexivity]. }
  destruct HL as [HL1 HL2]. destruct HR as [HR1 HR2].
  destruct (ex_merge_spec L R HL1 HR1) as [M0 [M1 M2]].
  split; [exact M0|]. rewrite M1, M2, HL2, HR2. reflexivity.
Qed.

Lemma bridge_list : forall items idx,
  Forall (item_wf c) items -> Forall (fun i => (i + K <= length l)%nat) idx ->
  map (item_view c) items = map (kmer_exts_item c l e) idx ->
  map (item_obs c) items = map filter_item idx.
Proof.
  induction items as [|it items IH]; intros [|i idx] Hw Hi Hm; cbn [map] in *; try discriminate; [reflexivity|].
  inversion Hw as [|? ? [_ Hb] Hw']; subst. inversion Hi as [|? ? Hi0 Hi']; subst.
  assert (Hm0 : item_view c it = kmer_exts_item c l e i) by (exact (f_equal (hd (item_view c it)) Hm)).
  assert (Hm' : map (item_view c) items = map (kmer_exts_item c l e) idx) by (exact (f_equal (@tl _) Hm)).
  f_equal; [|now apply IH].
  destruct (filter_item_view i Hi0) as [F0 F1]. rewrite <- Hm0 in F1. unfold item_view in F1. fold K in F1.
  injection F1 as Fk Fl Fr. unfold item_obs. fold K. rewrite <- Fk.
  rewrite (surjective_pairing (filter_item i)) at 1. f_equal.
  apply ext_byte_determined; [exact Hb | exact F0 | now symmetry | now symmetry].
Qed.

(* THE BRIDGE, generic in the container: whatever C13 proves about the items determines them as the positional list *)
Theorem iter_items_are_filter_kmer_exts items :
  Forall (item_wf c) items ->
  map (item_view c) items = map (kmer_exts_item c l e) (seq 0 (length l + 1 - K)) ->
  map (item_obs c) items = Filter.kmer_exts K l e.
Proof.
  intros Hw Hm. rewrite kmer_exts_unfold. apply bridge_list; [exact Hw | | exact Hm].
  apply Forall_forall. intros i Hi. apply in_seq in Hi. lia.
Qed.
End Bridge.

(* boundary conventions of the positional model *)
Lemma filter_kmer_exts_short K (l : dna) e : (length l < K)%nat -> Filter.kmer_exts K l e = [].
Proof. intro H. unfold Filter.kmer_exts. replace (length l + 1 - K)%nat with 0%nat by lia. reflexivity. Qed.
Lemma filter_kmer_exts_exact K (l : dna) e : (0 < K)%nat -> length l = K -> e < 256 ->
  Filter.kmer_exts K l e = [(l, e)].
Proof.
  intros HK HL He. unfold Filter.kmer_exts. rewrite HL. replace (K + 1 - K)%nat with 1%nat by lia.
  cbn [seq map Nat.eqb Nat.add]. rewrite Nat.ltb_irrefl, (ex_merge_same e He).
  unfold kmer_at, sub. cbn [skipn]. rewrite <- HL, firstn_all. reflexivity.
Qed.
Lemma filter_kmer_exts_length K (l : dna) e : length (Filter.kmer_exts K l e) = (length l + 1 - K)%nat.
Proof. unfold Filter.kmer_exts. now rewrite map_length, seq_length. Qed.

(* ---------------------------------------------------------------- 2'. per container *)
Section Containers.
Variable c : kcfg.
Hypothesis Hc : In c shipped.
Let K := kK c.

Theorem bytes_iter_is_filter_kmer_exts (l : dna) e : wf_dna l -> e < 256 ->
  exists items, iter_kmer_exts c (length l) (nth_opt l) (bytes_get_kmer c l) e = Some items /\
                Forall (item_wf c) items /\ map (item_obs c) items = Filter.kmer_exts K l e.
Proof.
  intros Hl He. destruct (bytes_iter_kmer_exts_spec c Hc l e Hl He) as [items [E [W M]]].
  exists items. split; [exact E|]. split; [exact W|]. now apply iter_items_are_filter_kmer_exts.
Qed.
Theorem d_iter_is_filter_kmer_exts s e : d_inv s -> e < 256 ->
  exists items, iter_kmer_exts c (d_len s) (d_get s) (d_get_kmer c s) e = Some items /\
                Forall (item_wf c) items /\ map (item_obs c) items = Filter.kmer_exts K (d_abs s) e.
Proof.
  intros Hinv He. destruct (d_iter_kmer_exts_spec c Hc s e Hinv He) as [items [E [W M]]].
  exists items. split; [exact E|]. split; [exact W|].
  rewrite <- (d_abs_length s Hinv) in M. apply iter_items_are_filter_kmer_exts; [apply d_abs_wf | exact He | exact W | exact M].
Qed.
Theorem l_iter_is_filter_kmer_exts x len e : l_inv x -> l_len x = Some len -> e < 256 ->
  exists items, iter_kmer_exts c len (l_get x) (l_get_kmer c x) e = Some items /\
                Forall (item_wf c) items /\ map (item_obs c) items = Filter.kmer_exts K (l_abs x) e.
Proof.
  intros Hinv Hlen He. destruct (l_iter_kmer_exts_spec c Hc x len e Hinv Hlen He) as [items [E [W M]]].
  exists items. split; [exact E|]. split; [exact W|].
  rewrite <- (l_abs_length x len Hinv Hlen) in M.
  apply iter_items_are_filter_kmer_exts; [apply l_abs_wf | exact He | exact W | exact M].
Qed.
Theorem sl_iter_is_filter_kmer_exts d s e : d_inv d -> (s_start s + s_length s <= d_len d)%nat -> e < 256 ->
  exists items, iter_kmer_exts c (s_length s) (sl_get d s) (sl_get_kmer c d s) e = Some items /\
                Forall (item_wf c) items /\ map (item_obs c) items = Filter.kmer_exts K (sl_view (d_abs d) s) e.
Proof.
  intros Hinv Hs He. destruct (sl_iter_kmer_exts_spec c Hc d s e Hinv Hs He) as [items [E [W M]]].
  exists items. split; [exact E|]. split; [exact W|].
  rewrite <- (sl_view_length d s Hinv Hs) in M.
  apply iter_items_are_filter_kmer_exts; [apply sl_view_wf | exact He | exact W | exact M].
Qed.

(* ---------------------------------------------------------------- 3. composed with the DnaString history (C14) *)
Theorem dnastring_history_iter_is_filter_kmer_exts ops e : dops_ok 0 ops = true -> e < 256 ->
  let l := fold_left sdstep ops [] in
  exists s items, dsteps d_new ops = Some s /\ d_len s = length l /\
    iter_kmer_exts c (d_len s) (d_get s) (d_get_kmer c s) e = Some items /\
    Forall (item_wf c) items /\ map (item_obs c) items = Filter.kmer_exts K l e /\
    (* and through every window of it, forward or reverse-complemented *)
    (forall sl, (s_start sl + s_length sl <= length l)%nat ->
       exists sitems, iter_kmer_exts c (s_length sl) (sl_get s sl) (sl_get_kmer c s sl) e = Some sitems /\
         Forall (item_wf c) sitems /\ map (item_obs c) sitems = Filter.kmer_exts K (sl_view l sl) e).
Proof.
  intros Hok He l. destruct (d_history ops Hok) as (s & Hs & Hinv & Habs). fold l in Habs.
  pose proof (d_abs_length s Hinv) as HL.
  destruct (d_iter_is_filter_kmer_exts s e Hinv He) as [items [E [W M]]].
  exists s, items. split; [exact Hs|]. split; [rewrite <- Habs; symmetry; exact HL|].
  split; [exact E|]. split; [exact W|]. split; [rewrite <- Habs; exact M|].
  intros sl Hsl. rewrite <- Habs. apply sl_iter_is_filter_kmer_exts; [exact Hinv | | exact He].
  rewrite <- HL, Habs. exact Hsl.
Qed.
End Containers.
