(* pipecor (3): the query / export / index / iteration theorems on every [valid_graph] (any payload type), and their
   instances on the graphs the model pipelines return (every route of [direct], [sharded]) - no hypothesis on the graph.
   The conclusions are named here ([max_path_concl], ...) and restated in full in Properties/PipelineCorollaries.v. *)
From Coq Require Import NArith ZArith List Bool Arith Lia Permutation.
From DBG Require Import Spec.Dna Spec.GraphIndex Spec.Unitig Spec.ExportSpec Packed.ExtsModel Algo.Compress Algo.KmerHist Algo.GraphModel
  Algo.Beam Algo.Export Algo.Pipeline Algo.BBHash Spec.EdgeSpec Check.GraphCheck Check.PipelineCheck
  Proofs.ListFacts Proofs.GraphQueryProofs Proofs.WalkProofs Proofs.BeamProofs Proofs.ValidGraphProofs
  Proofs.ExportGfaProofs Proofs.ExportProofs Proofs.ExportEdgesProofs Proofs.BBHashProofs Proofs.BBHashOrder Proofs.NodeIterAll
  Proofs.MspProofs Proofs.ShardProofs Proofs.PipelineCheckProofs Proofs.E2eDirect Proofs.E2eSharded Proofs.RoutesDirect
  Proofs.PipeCorBridge Proofs.PipeCorValid.
Import ListNotations.
Local Open Scope nat_scope.

(* ================================================================= conclusions, for a graph g *)
Section Concl.
Variable D : Type.
Variable K : nat.
Variable st : bool.
Variable g : GraphModel.graph D.

(* a best path: a valid walk without repeated node whose sequence spells the k-mers of the walked nodes *)
Definition good_path (p : list (nat * dir)) : Prop :=
  valid_walk D K st g p /\ NoDup (map fst p) /\
  exists sq, sequence_of_path D K g p = Some sq /\ kmers K sq = walk_kmers D K g p.
Definition max_path_concl : Prop :=
  forall (score : D -> Z) (solid : D -> bool), exists p, max_path D K st score solid g = Some p /\ good_path p.
Definition beam_concl : Prop :=
  forall (score : D -> Z) beam, 0 < beam -> exists p, max_path_beam D K st score false g beam = Some p /\ good_path p.
Definition edges_concl : Prop :=
  (forall u s v t f, u < length g -> In (v, t, f) (edges_of D K st g u s) ->
     exists s' t' f', In (u, s', f') (edges_of D K st g v t') /\
       (t' = t \/ EdgeSpec.pal_single D K st g v) /\ (s' = s \/ EdgeSpec.pal_single D K st g u) /\ f' = dir_eqb t' s') /\
  (forall u s l, In l (edges_of D K st g u s) -> edge_ok D K st g u s l).
Definition gfa_concl : Prop :=
  tab_symmetric (pal_node D K st g) (etab_of D K st g) /\
  forall u a es v b flip, find_edges D K st g u a = Some es -> In (v, b, flip) es ->
    once_or_twice (pal_node D K st g) (gfa_links (write_gfa D K st g)) (u, a) (v, b).
(* the node-end index (model Algo/BBHash.v, keys = [enc] of the first / last k-mers) of any base graph holding g's
   sequences: boomphf's precondition holds, the parallel build is the serial one, find_link on the built index is the
   list-level find_link of the graph *)
Definition index_concl : Prop :=
  forall (h : nat -> nat -> key -> nat) (sz : nat -> nat), (forall iter n k, h iter (sz n) k < sz n) ->
  forall bg, BBHash.g_seqs bg = GraphModel.g_seqs D g -> BBHash.g_stranded bg = st ->
    good_graph K bg /\
    (forall r, finish_par h sz K bg r -> r = finish_serial h sz K bg) /\
    (forall d kmer dr, finish_serial h sz K bg = Some d \/ finish_par h sz K bg (Some d) -> length kmer = K -> wf_dna kmer ->
       BBHash.find_link h d kmer dr = Some (GraphModel.find_link D K st g kmer dr)).
End Concl.

(* ================================================================= every valid graph *)
Section Valid.
Variable D : Type.
Variable K : nat.
Variable st : bool.
Variable g : GraphModel.graph D.
Hypothesis V : valid_graph D K st g.

Let G : graph_ok D K st g := proj1 V.
Let W : wf_graph D K g := proj1 G.

Lemma walk_good p : valid_walk D K st g p -> NoDup (map fst p) -> good_path D K st g p.
Proof. intros Hw Hn. split; [exact Hw|]. split; [exact Hn|]. exact (path_spelling D K st g p W Hw). Qed.

Theorem vg_max_path : max_path_concl D K st g.
Proof.
  intros score solid. destruct (max_path_valid D K st score solid g G) as (p & Hp & Hw & Hn).
  exists p. split; [exact Hp | now apply walk_good].
Qed.

Theorem vg_beam : beam_concl D K st g.
Proof.
  intros score beam B.
  destruct (beam_total D K st score g beam B (resolvable_terminal D K st g (proj2 V))) as [p Hp].
  exists p. split; [exact Hp|]. destruct (beam_valid D K st score g beam p Hp) as [Hw Hn]. now apply walk_good.
Qed.

Theorem vg_edges : edges_concl D K st g.
Proof.
  split.
  - exact (edges_symmetric D K st g G).
  - intros u s l. exact (edges_overlap D K st g u s l W).
Qed.

Theorem vg_gfa : gfa_concl D K st g.
Proof.
  pose proof (graph_ok_tab_symmetric D K st g G) as T. split; [exact T|].
  exact (gfa_links_complete_once_sym D K st g (proj1 W) (graph_wf_of_wf_graph D K g W) T).
Qed.

Lemma ends_facts side x : In x (ends_of K (GraphModel.g_seqs D g) side) -> length x = K /\ wf_dna x.
Proof.
  unfold ends_of, GraphModel.g_seqs. rewrite map_map. intro H. apply in_map_iff in H as (n & <- & Hn).
  destruct (proj2 W n Hn) as [L Wn]. now apply term_kmer_ok.
Qed.

Theorem vg_index : index_concl D K st g.
Proof.
  intros h sz Hh bg Es Est.
  assert (GG : good_graph K bg).
  { pose proof G as (_ & (NL & NR & _) & _). split; [|split].
    - rewrite Es. unfold GraphModel.g_seqs. apply Forall_forall. intros s Hs. apply in_map_iff in Hs as (n & <- & Hn).
      destruct (proj2 W n Hn) as [L Wn]. auto.
    - rewrite end_keys_map, Es. apply NoDup_map_inj_on; [exact NL|]. intros x y Hx Hy E.
      destruct (ends_facts DLeft x Hx), (ends_facts DLeft y Hy). now apply (enc_inj K).
    - rewrite end_keys_map, Es. apply NoDup_map_inj_on; [exact NR|]. intros x y Hx Hy E.
      destruct (ends_facts DRight x Hx), (ends_facts DRight y Hy). now apply (enc_inj K). }
  split; [exact GG|]. split; [intros r Hr; exact (finish_par_eq h sz Hh K bg r Hr)|].
  intros d kmer dr Hd Lk Wk. unfold GraphModel.find_link. rewrite <- Es, <- Est. destruct Hd as [Hd|Hd].
  - exact (find_link_exact h sz Hh K bg d kmer dr GG Hd Lk Wk).
  - exact (find_link_exact_par h sz Hh K bg d kmer dr GG Hd Lk Wk).
Qed.
End Valid.

(* ================================================================= iteration (C18, second sentence) from [assembly_of] *)
Definition iter_concl K st thr (lreads : list lread) (g : list node_t) : Prop :=
  Permutation (map (canon_k st) (iter_all_nodes pay K g)) (retained K st thr (map fst lreads)) /\
  NoDup (map (canon_k st) (iter_all_nodes pay K g)).

Lemma iter_all_gk K st (g : list node_t) : map (canon_k st) (iter_all_nodes pay K g) = PipelineCheck.graph_kmers K st g.
Proof.
  unfold iter_all_nodes, PipelineCheck.graph_kmers. rewrite concat_map, map_map, flat_map_concat_map. reflexivity.
Qed.

Theorem assembly_iter_once K st thr mode (lreads : list lread) (g : list node_t) :
  assembly_of K st thr mode lreads g -> iter_concl K st thr lreads g.
Proof.
  intro A. unfold iter_concl. rewrite iter_all_gk. split; [exact (proj1 (proj1 A))|].
  exact (assembly_nodup K st thr mode lreads g A).
Qed.

(* ================================================================= the pipelines *)
Section Direct.
Variables (K : nat) (st : bool) (thr mode route : N) (lreads : list lread) (order : list dna) (g : list node_t).
Hypothesis HK : 4 <= K.
Hypothesis Hwf : Forall (fun r => wf_dna (fst r)) lreads.
Hypothesis Hnd : NoDup order.
Hypothesis Hd : direct K st thr mode route lreads order = Some g.

Let V : valid_graph pay K st g := direct_route_valid_graph K st thr mode route lreads order g HK Hwf Hnd Hd.
Lemma direct_route_assembly_ : assembly_of K st thr mode lreads g.
Proof. exact (direct_route_assembly K st thr mode lreads order HK Hwf Hnd route g Hd). Qed.

Theorem direct_max_path : max_path_concl pay K st g. Proof. exact (vg_max_path pay K st g V). Qed.
Theorem direct_beam : beam_concl pay K st g. Proof. exact (vg_beam pay K st g V). Qed.
Theorem direct_edges : edges_concl pay K st g. Proof. exact (vg_edges pay K st g V). Qed.
Theorem direct_gfa : gfa_concl pay K st g. Proof. exact (vg_gfa pay K st g V). Qed.
Theorem direct_index : index_concl pay K st g. Proof. exact (vg_index pay K st g V). Qed.
Theorem direct_iter : iter_concl K st thr lreads g. Proof. exact (assembly_iter_once K st thr mode lreads g direct_route_assembly_). Qed.
End Direct.

Section Sharded.
Variables (max_len : N) (K P : nat) (perm : option (list N)) (st : bool) (thr mode variant : N) (lreads : list lread)
  (orders : list (list dna)) (bs : list N) (gs : list (list node_t)) (g : list node_t).
Hypothesis Hpar : params_ok max_len K P.
Hypothesis Hperm : perm_ok P perm.
Hypothesis HK : 4 <= K.
Hypothesis Hok : Forall lread_ok lreads.
Hypothesis Hord : Forall (@NoDup dna) orders.
Hypothesis Hvar : variant <> 1%N.
Hypothesis Hs : sharded max_len K P perm st thr mode variant lreads orders = Some (bs, gs, g).

Let V : valid_graph pay K st g :=
  sharded_valid_graph max_len K P perm st thr mode variant lreads orders bs gs g Hpar Hperm HK Hok Hord Hvar Hs.
Let A : assembly_of K st thr mode lreads g :=
  sharded_assembly max_len K P perm st thr mode variant lreads orders bs gs g Hpar Hperm HK Hok Hord Hvar Hs.

Theorem sharded_max_path : max_path_concl pay K st g. Proof. exact (vg_max_path pay K st g V). Qed.
Theorem sharded_beam : beam_concl pay K st g. Proof. exact (vg_beam pay K st g V). Qed.
Theorem sharded_edges : edges_concl pay K st g. Proof. exact (vg_edges pay K st g V). Qed.
Theorem sharded_gfa : gfa_concl pay K st g. Proof. exact (vg_gfa pay K st g V). Qed.
Theorem sharded_index : index_concl pay K st g. Proof. exact (vg_index pay K st g V). Qed.
Theorem sharded_iter : iter_concl K st thr lreads g. Proof. exact (assembly_iter_once K st thr mode lreads g A). Qed.
End Sharded.

Print Assumptions direct_max_path.
Print Assumptions direct_index.
Print Assumptions sharded_max_path.
Print Assumptions sharded_gfa.
Print Assumptions sharded_index.
Print Assumptions sharded_iter.
