(* kout (1): the graph that compress_kmers builds has NO MERGEABLE PAIR OF NODES, for every congruent compression spec
   and every table with C01's hypotheses (tbl_ok, exts_sym, exts_sym_pal); extensions towards absent k-mers allowed.
   Generalises Proofs/RoutesIdem.v (pipeline payload, closed tables) to an arbitrary payload type.
   [node_data_join]   the payload of a result node answers every join test like the payload of ANY k-mer of the node
                      (the node payload is the fold over a chain of pairwise accepted payloads: RecompOut.fold_join);
   [fm_mstep]         a k-mer level merge in the frame of a k-mer occurrence (sole extension on both facing sides, no
                      palindrome, join accepted on the two table payloads) is a mergeable link of the table (C02's mstep);
   [kmers_out_no_pair] an [rnext] link between result nodes x, y is such a merge between the END k-mers of x and y, so by
                      C02 (no mergeable link crosses a node boundary) x = y.
   The statement is about [nodes] as returned, with its extension bytes as they are.  For the PRUNED graph
   (fix_exts nodes None) it is false as soon as a dangling bit made a k-mer look branching: Properties/C02Out.v. *)
From Coq Require Import NArith List Bool Arith Lia Permutation.
From DBG Require Import Proofs.AbstractWalk.
From DBG Require Import Spec.Dna Spec.GraphIndex Spec.Unitig Spec.CompressSpec Packed.ExtsModel Algo.Compress
  Algo.KmerHist Algo.GraphModel Algo.Recompress Spec.EdgeSpec Check.RecompCheck Check.RecompLooseCheck
  Proofs.ListFacts Proofs.DnaFacts Proofs.KmerAlgebra Proofs.ExtsProofs Proofs.ExtsWalk
  Proofs.CompressBasics Proofs.CompressRefine Proofs.CompressWalk Proofs.CompressProofs Proofs.CompressGraphOk
  Proofs.UnitigProofs Proofs.GraphQueryProofs Proofs.UnitigUnique Proofs.RecompCheckProofs
  Proofs.RecompLooseGraphOk Proofs.E2eSym Proofs.RecompOut Proofs.RoutesIdem.
Import ListNotations.
Local Open Scope nat_scope.

Section KmersOut.
Variable D : Type.
Variable reduce : D -> D -> D.
Variable join : D -> D -> bool.
Variable K : nat.
Variable st : bool.
Hypothesis HK : 1 <= K.
Hypothesis C : congruent D reduce join.
Variable T : table D.
Hypothesis Hok : tbl_ok D K st T.
Hypothesis Hsym : CompressSpec.exts_sym D st T.
Hypothesis Hpal : exts_sym_pal D st T.

Local Notation oexts := (Unitig.oexts D st T).
Local Notation ck := (canon_k st).
Local Notation kkey := (kkey D T).
Local Notation anext := (anext D join st T).
Local Notation knext := (knext D join st T).
Local Notation U := (seq 0 (length T)).

Let join_sym : forall a b, join a b = join b a := congruent_sym D reduce join C.
Let C3 : forall a b c, join a b = true -> join a c = join b c := proj2 (proj2 C).

(* ---------------------------------------------------------------- entries and keys *)
Lemma entry_of_key e e' : In e T -> In e' T -> e_key D e = e_key D e' -> e = e'.
Proof.
  intros H H' E. destruct (In_nth_error _ _ H) as [i Hi]. destruct (In_nth_error _ _ H') as [j Hj].
  assert (i = j).
  { apply (proj1 (NoDup_nth_error (keys D T)) (ok_nodup _ _ _ _ Hok)).
    - unfold keys. rewrite map_length. apply nth_error_Some. congruence.
    - rewrite (nth_error_keys D T i e Hi), (nth_error_keys D T j e' Hj). now rewrite E. }
  subst j. congruence.
Qed.

Lemma fst_kcanon_flip raw : fst (kcanon_flip st raw) = ck raw.
Proof. unfold kcanon_flip, canon_k, canon_flip, canon. destruct st; [reflexivity|]. now destruct (dna_ltb raw (rc raw)). Qed.

(* ---------------------------------------------------------------- the payload of a result node *)
Lemma chain_join i s p : AbstractWalk.chain nat anext i s p -> forall ent d0, nth_error T i = Some ent ->
  (forall c, join d0 c = join (e_data D ent) c) -> forall e, In e (pents D T p) -> join d0 (e_data D e) = true.
Proof.
  induction 1 as [v s | v s w t p Hn Hch IH]; intros ent d0 Hv H0 e He; [destruct He|].
  apply (anext_knext D join st T) in Hn.
  destruct (knext_inv D join K st T Hok _ _ _ _ Hn) as (ent' & yent & b & fl & Hi & Hj & _ & _ & _ & _ & _ & _ & _ & Hjn & _).
  assert (ent' = ent) by congruence. subst ent'.
  assert (Hy : join d0 (e_data D yent) = true) by (rewrite H0; exact Hjn).
  unfold pents in He. cbn [flat_map fst] in He. rewrite Hj in He. cbn [app] in He. destruct He as [<-|He]; [exact Hy|].
  apply (IH yent d0 Hj); [|exact He]. intro c. now apply C3.
Qed.

Variable nodes : list (node D).
Hypothesis Hc : compress_kmers D reduce join st T = Some nodes.

Lemma node_data_join n ent : In n nodes -> In ent T -> In (e_key D ent) (node_keys D K st n) ->
  forall c, join (snd n) c = join (e_data D ent) c.
Proof.
  intros Hn Hent Hk c.
  destruct (compress_refines D reduce join K st HK T Hok Hsym) as [nodes' [Hc' Hrel]].
  assert (nodes' = nodes) by congruence. subst nodes'.
  destruct (Forall2_in_l _ _ _ Hrel n Hn) as [[[lp i] rp] [Hin Hr]].
  destruct (node_facts D reduce join K st HK T Hok Hsym n lp i rp Hr Hin) as (_ & _ & _ & _ & ent0 & Hi & Hp & Hd).
  destruct (struct_chains D join st T U U (seq_NoDup _ _) _ _ _ Hin) as (HcL & HcR & _).
  change (snd n) with (CompressSpec.n_data D n). rewrite Hd.
  assert (Hall : forall d, In d (map (e_data D) (pents D T (lp ++ rp))) -> join (e_data D ent0) d = true).
  { intros d Hd'. apply in_map_iff in Hd' as [e [<- He]]. unfold pents in He. rewrite flat_map_app in He.
    apply in_app_or in He as [He|He].
    - exact (chain_join i L lp HcL ent0 (e_data D ent0) Hi (fun _ => eq_refl) e He).
    - exact (chain_join i R rp HcR ent0 (e_data D ent0) Hi (fun _ => eq_refl) e He). }
  apply (Permutation_in _ (Permutation_sym Hp)) in Hk. apply in_map_iff in Hk as [e' [Ek He']].
  assert (He'T : In e' T) by (destruct He' as [<-|He']; [eapply nth_error_In; eauto | eapply pents_in; eauto]).
  assert (e' = ent) by (apply entry_of_key; auto). subst e'.
  destruct He' as [<-|He'].
  - now apply (fold_join D reduce join C).
  - apply (fold_join_member D reduce join C); [exact Hall|]. apply Hall. now apply in_map.
Qed.

(* ---------------------------------------------------------------- k-mer level merges are mergeable links of the table *)
(* a merge, in the frame of x: y is the sole right neighbour of x, x the sole left neighbour of y *)
Definition fm (x y : dna) : Prop :=
  wf_dna x /\ length x = K /\ kpal st x = false /\ kpal st y = false /\ ck x <> ck y /\
  exists b ex ey, (b < 4)%N /\ y = extend x b DRight /\ oexts x = Some ex /\ oexts y = Some ey /\
    e_num_ext_dir ex true = 1%N /\ e_num_ext_dir ey false = 1%N /\
    e_has_ext ex true b = true /\ e_has_ext ey false (hd 0%N x) = true.

Lemma fm_wf_y x y : fm x y -> wf_dna y /\ length y = K /\ x <> [] /\ y <> [].
Proof.
  intros (W & Lx & _ & _ & _ & b & ex & ey & Hb & -> & _).
  assert (Nx : x <> []) by (intro E; rewrite E in Lx; cbn in Lx; lia).
  assert (Ly : length (extend x b DRight) = K) by (rewrite KmerAlgebra.extend_length by exact Nx; exact Lx).
  repeat split; auto.
  - now apply extend_wf.
  - intro E. rewrite E in Ly. cbn in Ly. lia.
Qed.

Lemma knext_intro i j ent yent d b fl : nth_error T i = Some ent -> nth_error T j = Some yent ->
  e_num_ext_dir (e_exts D ent) (dirb d) = 1%N -> kpal st (e_key D ent) = false -> (b < 4)%N ->
  e_has_ext (e_exts D ent) (dirb d) b = true ->
  kcanon_flip st (extend (e_key D ent) b d) = (e_key D yent, fl) ->
  join (e_data D ent) (e_data D yent) = true ->
  e_num_ext_dir (e_exts D yent) (dirb (cond_flip (dflip d) fl)) = 1%N -> kpal st (e_key D yent) = false ->
  knext i d = Some (j, cond_flip (dflip d) fl).
Proof.
  intros Hi Hj Hn Hp Hb Hh Hf Hjn Hn' Hp'. unfold CompressSpec.knext. rewrite Hi, Hn, Hp. cbn [N.eqb Pos.eqb negb orb].
  assert (Hin : In ent T) by (eapply nth_error_In; eauto).
  destruct (ExtsWalk.unique_ext_spec _ _ (ok_exts _ _ _ _ Hok _ Hin) Hn) as (u & Hu & _ & _ & Huu).
  rewrite Hu, <- (Huu b Hb Hh), Hf. cbn [fst snd]. rewrite (get_id_key D K st T Hok _ _ Hj), Hj, Hjn, Hn', Hp'.
  reflexivity.
Qed.

Lemma fm_mstep x y : fm x y ->
  (forall entx enty, In entx T -> In enty T -> e_key D entx = ck x -> e_key D enty = ck y ->
     join (e_data D entx) (e_data D enty) = true) ->
  exists i j, kkey i = ck x /\ kkey j = ck y /\ mstep D join st T i j.
Proof.
  intros Hfm Hj. destruct (fm_wf_y x y Hfm) as (Wy & Ly & Nx & Ny).
  destruct Hfm as (W & Lx & Px & Py & Hne & b & ex & ey & Hb & Ey & Hx & Hy & Nxx & Nyy & Hhx & Hhy).
  destruct (oexts_inv D K st T Hok Hsym Hpal x ex Hx) as (entx & Hinx & _ & Hkx & Cx).
  destruct (oexts_inv D K st T Hok Hsym Hpal y ey Hy) as (enty & Hiny & _ & Hky & Cy).
  destruct (In_nth_error _ _ Hinx) as [i Hi]. destruct (In_nth_error _ _ Hiny) as [j Hjj].
  pose proof (ok_exts _ _ _ _ Hok _ Hinx) as Lex. pose proof (ok_exts _ _ _ _ Hok _ Hiny) as Ley.
  exists i, j. split; [unfold CompressRefine.kkey; now rewrite Hi|]. split; [unfold CompressRefine.kkey; now rewrite Hjj|].
  assert (Hij : Nat.eqb i j = false).
  { apply Nat.eqb_neq. intro E. subst j. rewrite Hi in Hjj. injection Hjj as <-. apply Hne. congruence. }
  assert (Hjn : join (e_data D entx) (e_data D enty) = true) by (apply Hj; auto).
  assert (Pkx : kpal st (e_key D entx) = false) by (rewrite Hkx, (kpal_ck D K st T Hok Hsym Hpal); auto).
  assert (Pky : kpal st (e_key D enty) = false) by (rewrite Hky, (kpal_ck D K st T Hok Hsym Hpal); auto).
  assert (Ynp : st = false -> y <> rc y) by (intro Hs; now apply (kpal_false_ne st)).
  destruct Cx as [[Ex ->]|(Hnex & Hs & Ex & ->)].
  - (* x is the key: leave through its right side *)
    destruct (kcanon_flip st (extend (e_key D entx) b DRight)) as [yk fl] eqn:Ef.
    pose proof (fst_kcanon_flip (extend (e_key D entx) b DRight)) as Ek. rewrite Ef, <- Ex, <- Ey, <- Hky in Ek. cbn [fst] in Ek. subst yk.
    exists DRight, (cond_flip DLeft fl). rewrite (mlink_knext D join st T).
    enough (Hk : knext i DRight = Some (j, cond_flip (dflip DRight) fl)) by (rewrite Hk; now rewrite Hij).
    apply (knext_intro i j entx enty DRight b fl Hi Hjj); auto.
    destruct (kcanon_flip_cases _ _ _ _ Ef) as [[-> Ek]|(Hs & -> & Ek)]; rewrite <- Ex, <- Ey in Ek; cbn [cond_flip dflip dirb].
    + destruct Cy as [[_ ->]|(Hney & _)]; [exact Nyy | congruence].
    + destruct Cy as [[Eyy _]|(_ & _ & _ & ->)]; [exfalso; apply (Ynp Hs); congruence|].
      rewrite num_ext_rc in Nyy by exact Ley. exact Nyy.
  - (* x is the reverse complement of the key: leave through the key's left side *)
    assert (Eraw : extend (e_key D entx) (comp b) DLeft = rc y).
    { rewrite Ex, Ey. symmetry. exact (KmerAlgebra.rc_extend x b DRight Nx). }
    destruct (kcanon_flip st (rc y)) as [yk fl] eqn:Ef.
    pose proof (fst_kcanon_flip (rc y)) as Ek. rewrite Ef, (ck_rc D K st T Hok Hsym Hpal y Wy Hs), <- Hky in Ek. cbn [fst] in Ek. subst yk.
    exists DLeft, (cond_flip DRight fl). rewrite (mlink_knext D join st T).
    rewrite num_ext_rc in Nxx by exact Lex. rewrite (has_ext_rc' _ DRight) in Hhx by auto. cbn [negb dflip dirb] in Nxx, Hhx.
    enough (Hk : knext i DLeft = Some (j, cond_flip (dflip DLeft) fl)) by (rewrite Hk; now rewrite Hij).
    apply (knext_intro i j entx enty DLeft (comp b) fl Hi Hjj); auto using comp_lt4; [now rewrite Eraw|].
    destruct (kcanon_flip_cases _ _ _ _ Ef) as [[-> Ek]|(_ & -> & Ek)]; cbn [cond_flip dflip dirb].
    + destruct Cy as [[Eyy _]|(_ & _ & _ & ->)]; [exfalso; apply (Ynp Hs); congruence|].
      rewrite num_ext_rc in Nyy by exact Ley. exact Nyy.
    + rewrite ListFacts.rc_involutive in Ek by exact Wy. destruct Cy as [[_ ->]|(Hney & _)]; [exact Nyy | congruence].
Qed.
(* ---------------------------------------------------------------- facts about the result nodes *)
Local Notation nseq := (GraphModel.n_seq D).
Local Notation nexts := (GraphModel.n_exts D).
Local Notation nkeys := (node_keys D K st).

Lemma nodes_loose : rvalid_loose D K st nodes.
Proof.
  destruct (compress_kmers_rvalid_loose D reduce join K st HK T Hok Hsym Hpal) as (nodes' & Hc' & _ & V).
  assert (nodes' = nodes) by congruence. now subst.
Qed.
Lemma nd_len_wf n : In n nodes -> K <= length (nseq n) /\ wf_dna (nseq n).
Proof. intro Hn. destruct (nodes_facts D reduce join K st HK T Hok Hsym Hpal nodes Hc n Hn) as [F1 F2 _ _ _]. auto. Qed.
Lemma nd_term n s : In n nodes -> exists e, oexts (term_kmer K (nseq n) s) = Some e /\
  forall b, In b bases4 -> e_has_ext (nexts n) (dirb s) b = e_has_ext e (dirb s) b.
Proof. intro Hn. exact (node_term_exts D reduce join K st HK T Hok Hsym Hpal nodes Hc n s Hn). Qed.
Lemma nd_exts_lt n : In n nodes -> (nexts n < 256)%N.
Proof.
  intro Hn. destruct nodes_loose as (Hno & _). rewrite Forall_forall in Hno. now destruct (Hno n Hn) as (_ & _ & H).
Qed.
Lemma ox_lt x e : oexts x = Some e -> (e < 256)%N.
Proof. exact (oexts_lt D K st T Hok Hsym Hpal x e). Qed.
Lemma keys_nodup : NoDup (flat_map nkeys nodes).
Proof.
  destruct (compress_c01 D reduce join K st HK T Hok Hsym) as [nodes' [Hc' [Hp _]]].
  assert (nodes' = nodes) by congruence. subst nodes'. unfold partition_ok in Hp. rewrite flat_map_concat_map.
  eapply Permutation_NoDup; [symmetry; exact Hp | apply (ok_nodup _ _ _ _ Hok)].
Qed.
Lemma term_in_node n s : In n nodes -> In (ck (term_kmer K (nseq n) s)) (nkeys n).
Proof.
  intro Hn. unfold node_keys, node_windows. apply in_map. apply term_in_kmers; [exact HK | now destruct (nd_len_wf n Hn)].
Qed.
Lemma node_keys_ne n : In n nodes -> nkeys n <> [].
Proof. intros Hn E. pose proof (term_in_node n DLeft Hn) as H. rewrite E in H. destruct H. Qed.
Lemma key_entry x n : In n nodes -> In (ck x) (nkeys n) -> exists ent, In ent T /\ e_key D ent = ck x.
Proof.
  intros Hn Hx. destruct (compress_c01 D reduce join K st HK T Hok Hsym) as [nodes' [Hc' [Hp _]]].
  assert (nodes' = nodes) by congruence. subst nodes'. unfold partition_ok in Hp.
  assert (Hin : In (ck x) (keys D T)).
  { eapply Permutation_in; [exact Hp|]. rewrite <- flat_map_concat_map. apply in_flat_map. exists n. auto. }
  unfold keys in Hin. apply in_map_iff in Hin as [ent [E Hent]]. exists ent. auto.
Qed.

(* the payloads of two joinable result nodes: every k-mer of the one is joinable with every k-mer of the other *)
Lemma node_join n m x y entx enty : In n nodes -> In m nodes -> In (ck x) (nkeys n) -> In (ck y) (nkeys m) ->
  join (snd n) (snd m) = true -> In entx T -> In enty T -> e_key D entx = ck x -> e_key D enty = ck y ->
  join (e_data D entx) (e_data D enty) = true.
Proof.
  intros Hn Hm Hx Hy Hj Hex Hey Ex Ey. rewrite <- Ex in Hx. rewrite <- Ey in Hy.
  rewrite (node_data_join n entx Hn Hex Hx) in Hj. rewrite join_sym in Hj.
  rewrite (node_data_join m enty Hm Hey Hy) in Hj. now rewrite join_sym.
Qed.

(* a k-mer-level merge between the end k-mer of a node and the k-mer its sole extension leads to *)
Lemma end_merge a d b nk ea ek : wf_dna a -> length a = K -> (b < 4)%N -> nk = extend a b d ->
  kpal st a = false -> kpal st nk = false -> ck a <> ck nk ->
  oexts a = Some ea -> oexts nk = Some ek ->
  e_num_ext_dir ea (dirb d) = 1%N -> e_num_ext_dir ek (dirb (dflip d)) = 1%N -> e_has_ext ea (dirb d) b = true ->
  match d with DRight => fm a nk | DLeft => fm nk a end.
Proof.
  intros Wa La Hb Enk Pa Pk Hne Ha Hk Na Nk Hh.
  assert (Na0 : a <> []) by (intro E; rewrite E in La; cbn in La; lia).
  assert (Wk : wf_dna nk) by (rewrite Enk; now apply extend_wf).
  assert (Lk : length nk = K) by (rewrite Enk, KmerAlgebra.extend_length by exact Na0; exact La).
  destruct (osym_frame D K st HK T Hok Hsym Hpal a d b ea ek Wa La Hb Ha Hh) as [Hback _]; [now rewrite <- Enk|].
  rewrite <- Enk in Hback. specialize (Hback Pk).
  destruct d; cbn [dflip dirb outer] in *.
  - (* d = DLeft: nk = b :: removelast a, the merge is nk -> a *)
    repeat split; auto.
    exists (last a 0%N), ek, ea. repeat split; auto.
    + now apply wf_last.
    + pose proof (KmerAlgebra.extend_back a b DLeft Na0) as E. cbn [dflip outer] in E. now rewrite <- Enk in E.
    + rewrite Enk. cbn [extend]. unfold extend_left. cbn [hd]. exact Hh.
  - repeat split; auto.
    exists b, ea, ek. repeat split; auto.
Qed.

(* ---------------------------------------------------------------- THE THEOREM *)
Theorem kmers_out_no_pair x d y t : rnext D join K st nodes x d = Some (y, t) -> y = x.
Proof.
  intro H. unfold rnext in H.
  change (@nth_error (gnode D) nodes) with (@nth_error (node D) nodes) in H.
  destruct (nth_error nodes x) as [n|] eqn:En; [|discriminate].
  destruct (negb (e_num_ext_dir (nexts n) (dirb d) =? 1)%N || pal_single D K st n) eqn:E1; [discriminate|].
  apply orb_false_iff in E1 as [E1a E1b]. apply negb_false_iff, N.eqb_eq in E1a.
  destruct (e_get_unique_extension (nexts n) (dirb d)) as [b|] eqn:Eu; [|discriminate]. cbv zeta in H.
  set (a := term_kmer K (nseq n) d) in *. set (nk := extend a b d) in *.
  destruct (find_link D K st nodes nk d) as [[[y' t'] f]|] eqn:Ef; [|discriminate].
  change (@nth_error (gnode D) nodes) with (@nth_error (node D) nodes) in H.
  destruct (nth_error nodes y') as [m|] eqn:Em; [|discriminate].
  destruct ((negb st && is_palindrome nk) || negb (join (GraphModel.n_data D n) (GraphModel.n_data D m))) eqn:E2; [discriminate|].
  apply orb_false_iff in E2 as [Pk Ej]. apply negb_false_iff in Ej.
  destruct (e_num_ext_dir (nexts m) (dirb t') =? 1)%N eqn:E3; [|discriminate]. apply N.eqb_eq in E3.
  injection H as -> ->.
  assert (Hn : In n nodes) by (eapply nth_error_In; eauto). assert (Hm : In m nodes) by (eapply nth_error_In; eauto).
  destruct (nd_len_wf n Hn) as [Ln Wn]. destruct (nd_len_wf m Hm) as [Lm Wm].
  destruct (GraphQueryProofs.term_kmer_ok K _ d Wn Ln) as [La Wa]. fold a in La, Wa.
  assert (Na0 : a <> []) by (intro E; rewrite E in La; cbn in La; lia).
  destruct (ExtsWalk.unique_ext_spec _ _ (nd_exts_lt n Hn) E1a) as (u & Hu & Hb & Hhas & _). rewrite Eu in Hu. injection Hu as <-.
  assert (Wk : wf_dna nk) by (apply extend_wf; auto).
  (* the two k-mers and their nodes *)
  assert (HA : In (ck a) (nkeys n)) by (apply term_in_node; exact Hn).
  assert (Hend : (f = false /\ t = dflip d /\ term_kmer K (nseq m) t = nk) \/
                 (f = true /\ st = false /\ t = d /\ term_kmer K (nseq m) t = rc nk)).
  { destruct (find_link_some D K st nodes nk d y t f Ef) as [(-> & -> & _ & Ev)|(-> & Hs & -> & (_ & Ev) & _)];
      unfold EdgeSpec.node_seq in Ev; unfold graph, gnode, node in *; rewrite Em in Ev; [left | right]; auto. }
  assert (HB : In (ck nk) (nkeys m)).
  { pose proof (term_in_node m t Hm) as Hin. destruct Hend as [(_ & _ & Ev)|(_ & Hs & _ & Ev)]; rewrite Ev in Hin; [exact Hin|].
    now rewrite (ck_rc D K st T Hok Hsym Hpal nk Wk Hs) in Hin. }
  (* it suffices that both k-mers lie in one node *)
  enough (Hsame : n = m).
  { subst m. symmetry. apply (flat_map_nodup_index nkeys nodes keys_nodup x y n En Em). now apply node_keys_ne. }
  destruct (list_eq_dec N.eq_dec (ck a) (ck nk)) as [Ecn|Hne].
  { apply (flat_map_in_unique nkeys nodes n m (ck a) keys_nodup Hn Hm HA). now rewrite Ecn. }
  (* extension data in the frames of the two k-mers *)
  destruct (nd_term n d Hn) as (ea & Hea & Hag). fold a in Hea.
  pose proof (ox_lt _ _ Hea) as Lea.
  assert (Nea : e_num_ext_dir ea (dirb d) = 1%N) by (apply (num_ext_agree (nexts n) ea); auto using nd_exts_lt).
  assert (Hha : e_has_ext ea (dirb d) b = true) by (rewrite <- Hag by (now apply in_bases4); exact Hhas).
  assert (Pa : kpal st a = false).
  { unfold kpal. destruct (negb st && is_palindrome a) eqn:Pa; [|reflexivity]. exfalso.
    apply andb_true_iff in Pa as [Hs Pa]. apply negb_true_iff in Hs.
    destruct nodes_loose as (_ & _ & _ & Hpe & _).
    pose proof (Hpe Hs n d Hn Pa) as Lk. unfold pal_single in E1b.
    rewrite Lk, Nat.eqb_refl, Hs in E1b. cbn [negb andb] in E1b.
    rewrite (first_kmer_whole K (nseq n) Lk) in E1b. unfold a in Pa.
    rewrite (GraphQueryProofs.term_kmer_single K _ d Lk) in Pa. congruence. }
  assert (Hek : exists ek, oexts nk = Some ek /\ e_num_ext_dir ek (dirb (dflip d)) = 1%N).
  { destruct (nd_term m t Hm) as (em & Hem & Hagm). pose proof (ox_lt _ _ Hem) as Lem.
    assert (Nem : e_num_ext_dir em (dirb t) = 1%N) by (apply (num_ext_agree (nexts m) em); auto using nd_exts_lt).
    destruct Hend as [(_ & Et & Ev)|(_ & Hs & Et & Ev)]; rewrite Ev in Hem; subst t.
    - exists em. auto.
    - exists (e_rc em). split.
      + rewrite <- (ListFacts.rc_involutive nk Wk). apply (oexts_rc D K st T Hok Hsym Hpal); auto using rc_wf.
        rewrite ListFacts.rc_involutive by exact Wk. intro E. rewrite Hs in Pk. cbn [negb andb] in Pk.
        assert (is_palindrome nk = true) by (apply palindrome_iff; now symmetry). congruence.
      + rewrite num_ext_rc by exact Lem. now rewrite dirb_dflip, negb_involutive. }
  destruct Hek as (ek & Hek & Nek).
  pose proof (end_merge a d b nk ea ek Wa La Hb eq_refl Pa Pk Hne Hea Hek Nea Nek Hha) as Hfm.
  assert (Hms : exists i j, kkey i = ck a /\ kkey j = ck nk /\
                            (mstep D join st T i j \/ mstep D join st T j i)).
  { destruct d.
    - destruct (fm_mstep nk a Hfm) as (i & j & Ei & Ej' & Hms).
      + intros entx enty Hx Hy Ex Ey. apply (node_join m n nk a entx enty); auto. now rewrite join_sym.
      + exists j, i. auto.
    - destruct (fm_mstep a nk Hfm) as (i & j & Ei & Ej' & Hms).
      + intros entx enty Hx Hy Ex Ey. now apply (node_join n m a nk entx enty).
      + exists i, j. auto. }
  destruct Hms as (i & j & Ei & Ej' & Hms).
  destruct (no_mergeable_pair_across D reduce join K st HK T Hok Hsym join_sym) as (g' & Hc' & Hsame).
  assert (g' = nodes) by congruence. subst g'.
  assert (Hnode : exists n', In n' nodes /\ In (ck a) (nkeys n') /\ In (ck nk) (nkeys n')).
  { destruct Hms as [Hms|Hms]; destruct (Hsame _ _ Hms) as (n' & Hn' & H1 & H2); exists n'; (split; [exact Hn'|]).
    - rewrite Ei in H1. rewrite Ej' in H2. split; [exact H1 | exact H2].
    - rewrite Ej' in H1. rewrite Ei in H2. split; [exact H2 | exact H1]. }
  destruct Hnode as (n' & Hn' & H1 & H2).
  assert (n = n') by (apply (flat_map_in_unique nkeys nodes n n' (ck a) keys_nodup); auto).
  assert (m = n') by (apply (flat_map_in_unique nkeys nodes m n' (ck nk) keys_nodup); auto).
  congruence.
Qed.
End KmersOut.

Print Assumptions node_data_join.
Print Assumptions fm_mstep.
Print Assumptions kmers_out_no_pair.
