(* C03: a concrete unstranded K=4 graph (from reads of the harness grammar) with two palindromic single-k-mer
   nodes (AATT, ACGT), on which the hypotheses of the C03 theorems hold and the palindrome rule is needed:
   node 0 reaches node 3 (ACGT) arriving at its Right side, node 3 reaches node 0 back through its LEFT side. *)
From Coq Require Import NArith ZArith List Bool Arith.
From DBG Require Import Spec.Dna Spec.GraphIndex Packed.ExtsModel Algo.Compress Algo.GraphModel Spec.EdgeSpec
  Check.EdgeCheck Proofs.EdgeCheckProofs.
Import ListNotations.
Local Open Scope nat_scope.

Definition ex_pay := (Z * bool)%type.
Definition ex_g : graph ex_pay :=
  [ ([1;2;3;0;0;0;3]%N, 129%N, (1%Z, false));          (* CGTAAAT *)
    ([0;0;0;0;2;2;1;0;1;2]%N, 128%N, (5%Z, false));    (* AAAAGGCACG *)
    ([0;0;3;3]%N, 128%N, (2%Z, true));                 (* AATT *)
    ([0;1;2;3]%N, 72%N, (3%Z, false)) ].               (* ACGT *)

Lemma ex_valid : valid_graph ex_pay 4 false ex_g.
Proof. apply chk_valid_graph_sound. vm_compute. reflexivity. Qed.
Lemma ex_graph_ok : graph_ok ex_pay 4 false ex_g.
Proof. exact (proj1 ex_valid). Qed.
Lemma ex_edges :
  map (fun u => (edges_of ex_pay 4 false ex_g u DLeft, edges_of ex_pay 4 false ex_g u DRight)) [0; 1; 2; 3] =
  [ ([(3, DRight, false)], [(2, DLeft, false)]);
    ([], [(3, DLeft, false)]);
    ([], [(0, DRight, true)]);
    ([(0, DLeft, true)], [(1, DRight, true)]) ].
Proof. vm_compute. reflexivity. Qed.
Lemma ex_pal : pal_single ex_pay 4 false ex_g 3 /\ pal_single ex_pay 4 false ex_g 2.
Proof. split; apply pal_singleb_iff; vm_compute; reflexivity. Qed.
Lemma ex_max_path :
  max_path ex_pay 4 false fst snd ex_g = Some [(1, DLeft); (3, DLeft)] /\
  sequence_of_path ex_pay 4 ex_g [(1, DLeft); (3, DLeft)] = Some [0;0;0;0;2;2;1;0;1;2;3]%N.
Proof. split; vm_compute; reflexivity. Qed.
(* a walk that is valid only because the two sides of the palindromic node 3 are identified *)
Lemma ex_walk :
  valid_walk ex_pay 4 false ex_g [(1, DLeft); (3, DLeft); (0, DLeft)] /\
  sequence_of_path ex_pay 4 ex_g [(1, DLeft); (3, DLeft); (0, DLeft)] = Some [0;0;0;0;2;2;1;0;1;2;3;0;0;0;3]%N.
Proof. split; [apply chk_valid_walk_iff|]; vm_compute; reflexivity. Qed.

(* pruning (stranded): table {AAAC, AACG}; AACG keeps its left extension to AAAC and loses the right one to the absent ACGG *)
Lemma ex_prune :
  remove_censored_exts unit true [([0;0;0;1]%N, 64%N, tt); ([0;0;1;2]%N, 65%N, tt)] =
  [([0;0;0;1]%N, 64%N, tt); ([0;0;1;2]%N, 1%N, tt)].
Proof. vm_compute. reflexivity. Qed.

(* observed adjacencies: reads AAACG, AAAC with threshold 2 retain only AAAC; no adjacency between retained k-mers *)
Lemma ex_observed :
  observed_adjs 4 true 1 [[0;0;0;1;2]%N] = [[0;0;0;1;2]%N] /\ observed_adjs 4 true 2 [[0;0;0;1;2]%N; [0;0;0;1]%N] = [].
Proof. split; vm_compute; reflexivity. Qed.
