(* C09 for input graphs with dangling extension bits: [rvalid_loose] (= [rvalid] without [resolvable]) suffices.
   Two routes, both proved here:
   (a) directly: the first step of compress_graph, fix_exts(Some(available)), establishes the walk invariant from
       [rvalid_loose] already ([restrict_winv_loose]);
   (b) by transfer: [prune g] = fix_exts g None removes exactly the dangling bits, does not change what any extension
       resolves to ([ext_link_prune]), hence fix_exts g' v = fix_exts g v for EVERY valid set and
       compress_graph_paths g' = compress_graph_paths g ([compress_graph_prune], no hypothesis on g at all); and the
       pruned graph of an [rvalid_loose] graph is [rvalid] ([prune_rvalid]).  So every C09 theorem proved under
       [rvalid] holds under [rvalid_loose] (Proofs/RecompLooseMain.v). *)
From Coq Require Import NArith List Bool Arith Lia Permutation.
From DBG Require Import Spec.Dna Spec.GraphIndex Packed.ExtsModel Algo.Compress Algo.KmerHist Algo.GraphModel
  Algo.Recompress Check.RecompCheck Check.RecompLooseCheck Proofs.ListFacts Proofs.DnaFacts Proofs.AbstractWalk
  Proofs.RecompSweeps Proofs.RecompCheckProofs Proofs.RecompressProofs.
Import ListNotations.
Open Scope N_scope.

Section Loose.
Variable D : Type.
Variable K : nat.
Variable stranded : bool.
Local Notation graph := (graph D).
Local Notation gnode := (gnode D).
Local Notation ext_link := (ext_link D K stranded).
Local Notation pal_single := (pal_single D K stranded).
Local Notation keeps := (keeps D K stranded).
Local Notation fix_exts := (fix_exts D K stranded).
Local Notation rvalid := (rvalid D K stranded).
Local Notation rvalid_loose := (rvalid_loose D K stranded).
Local Notation prune := (prune D K stranded).

(* ---------------------------------------------------------------- rvalid = rvalid_loose + resolvable *)
Lemma rvalid_loose_of_rvalid (g : graph) : rvalid g -> rvalid_loose g.
Proof. intros (H1 & H2 & H3 & H4 & _ & H6). repeat split; assumption. Qed.

Lemma rvalid_iff_loose (g : graph) : rvalid g <-> rvalid_loose g /\ resolvable D K stranded g.
Proof.
  split.
  - intro V. split; [now apply rvalid_loose_of_rvalid | apply V].
  - intros [(H1 & H2 & H3 & H4 & H6) H5]. repeat split; assumption.
Qed.

(* ---------------------------------------------------------------- (a) the walk invariant, directly *)
Theorem restrict_winv_loose (g g1 : graph) S :
  rvalid_loose g -> (forall x, In x S -> (x < length g)%nat) ->
  restrict D K stranded g S = Some g1 -> winv D K stranded g1 S.
Proof.
  intros (Hok & _ & _ & Hpal & Hsym) HS Hr.
  assert (Hlen : length g1 = length g).
  { unfold restrict in Hr. destruct (fix_exts_spec D K stranded g (Some S)) as (g' & Hg' & Hlen & _). congruence. }
  constructor.
  - apply Forall_forall. intros n1 Hin. apply In_nth_error in Hin. destruct Hin as [x Hx].
    destruct (restrict_nth D K stranded g g1 S x n1 Hr Hx) as (n & Hn & Hs & _ & Hlt & _).
    destruct (node_ok_nth D K g x n Hok Hn) as (H1 & H2 & _). unfold node_ok. rewrite Hs. auto.
  - intros Es n1 d Hin Hp. apply In_nth_error in Hin. destruct Hin as [x Hx].
    destruct (restrict_nth D K stranded g g1 S x n1 Hr Hx) as (n & Hn & Hs & _). rewrite Hs in *.
    eapply Hpal; eauto. eapply nth_error_In; eauto.
  - intros x d b n1 Hn1 Hb Hh.
    destruct (restrict_nth D K stranded g g1 S x n1 Hr Hn1) as (n & Hn & Hs & _ & _ & Hk). rewrite (Hk d b Hb) in Hh.
    rewrite (ext_link_restrict D K stranded g g1 S x d b Hr Hb), Hh. unfold RecompressProofs.keeps in Hh.
    destruct (ext_link g x d b) as [[[y t] f]|]; [|discriminate]. exists y, t, f. split; auto.
    cbn in Hh. now apply mem_nat_In.
  - intros x d b y t f n1 m1 Hx Hn1 Hm1 Hb He.
    rewrite (ext_link_restrict D K stranded g g1 S x d b Hr Hb) in He.
    destruct (keeps g (Some S) x d b); [|discriminate].
    destruct (restrict_nth D K stranded g g1 S x n1 Hr Hn1) as (n & Hn & Hs & _).
    destruct (restrict_nth D K stranded g g1 S y m1 Hr Hm1) as (m & Hm & Hsm & _).
    destruct (Hsym x d b y t f n m Hn Hm Hb He) as (t' & b' & d' & f' & Hb' & He' & Ht' & Hd').
    exists t', b', d', f'. split; auto. split.
    + rewrite (ext_link_restrict D K stranded g g1 S y t' b' Hr Hb'). unfold RecompressProofs.keeps. rewrite He'. cbn.
      now rewrite (proj2 (mem_nat_In x S) Hx).
    + rewrite (pal_single_seq D K stranded m m1 Hsm), (pal_single_seq D K stranded n n1 Hs). auto.
  - intros x Hx. rewrite Hlen. auto.
Qed.

(* ---------------------------------------------------------------- fix_exts with an arbitrary valid set *)
Lemma fix_exts_length (g g1 : graph) valid : fix_exts g valid = Some g1 -> length g1 = length g.
Proof. intro H. destruct (fix_exts_spec D K stranded g valid) as (g' & Hg' & Hlen & _). congruence. Qed.

Lemma fix_exts_seqs (g g1 : graph) valid : fix_exts g valid = Some g1 -> g_seqs D g1 = g_seqs D g.
Proof. intro H. destruct (fix_exts_spec D K stranded g valid) as (g' & Hg' & _ & Hs & _). congruence. Qed.

Lemma fix_exts_nth (g g1 : graph) valid x n1 :
  fix_exts g valid = Some g1 -> nth_error g1 x = Some n1 ->
  exists n, nth_error g x = Some n /\ n_seq D n1 = n_seq D n /\ n_data D n1 = n_data D n /\ n_exts D n1 < 256 /\
    forall d b, In b bases4 -> e_has_ext (n_exts D n1) (dirb d) b = keeps g valid x d b.
Proof.
  intros Hr Hn1. destruct (fix_exts_spec D K stranded g valid) as (g' & Hg' & Hlen & _ & Hsp).
  assert (g' = g1) by congruence. subst g'.
  assert (Hx : (x < length g)%nat) by (rewrite <- Hlen; apply nth_error_Some; congruence).
  destruct (nth_error g x) as [n|] eqn:En; [|apply nth_error_None in En; lia].
  destruct (Hsp x n En) as (e & He & Hlt & Hb). rewrite Hn1 in He. injection He as ->.
  exists n. cbn. auto.
Qed.

Lemma fix_exts_nth_fwd (g g1 : graph) valid x n :
  fix_exts g valid = Some g1 -> nth_error g x = Some n ->
  exists e, nth_error g1 x = Some (n_seq D n, e, n_data D n) /\ e < 256 /\
    forall d b, In b bases4 -> e_has_ext e (dirb d) b = keeps g valid x d b.
Proof.
  intros Hr Hn. destruct (fix_exts_spec D K stranded g valid) as (g' & Hg' & _ & _ & Hsp).
  assert (g' = g1) by congruence. subst g'. exact (Hsp x n Hn).
Qed.

Lemma ext_link_fix_exts (g g1 : graph) valid x d b :
  fix_exts g valid = Some g1 -> In b bases4 ->
  ext_link g1 x d b = if keeps g valid x d b then ext_link g x d b else None.
Proof.
  intros Hr Hb.
  unfold RecompCheck.ext_link at 1. destruct (nth_error g1 x) as [n1|] eqn:En1.
  - destruct (fix_exts_nth g g1 valid x n1 Hr En1) as (n & Hn & Hs & _ & _ & Hh). rewrite (Hh d b Hb).
    destruct (keeps g valid x d b) eqn:Ek; [|reflexivity].
    unfold RecompressProofs.keeps in Ek. unfold RecompCheck.ext_link in *. rewrite Hn in *.
    destruct (e_has_ext (n_exts D n) (dirb d) b); [|discriminate]. rewrite Hs.
    apply find_link_seqs. eapply fix_exts_seqs; eauto.
  - assert (nth_error g x = None).
    { apply nth_error_None. rewrite <- (fix_exts_length g g1 valid Hr). now apply nth_error_None. }
    unfold RecompressProofs.keeps, RecompCheck.ext_link. rewrite H. reflexivity.
Qed.

(* two graphs with the same node sequences and payloads whose extensions are kept alike are fixed alike *)
Theorem fix_exts_congr (g g' : graph) valid valid' :
  length g' = length g ->
  (forall x n, nth_error g x = Some n ->
     exists n', nth_error g' x = Some n' /\ n_seq D n' = n_seq D n /\ n_data D n' = n_data D n) ->
  (forall x d b, In b bases4 -> keeps g' valid' x d b = keeps g valid x d b) ->
  fix_exts g' valid' = fix_exts g valid.
Proof.
  intros Hlen Hnodes Hk.
  destruct (fix_exts_spec D K stranded g valid) as (a & Ha & Hla & _ & Hspa).
  destruct (fix_exts_spec D K stranded g' valid') as (a' & Ha' & Hla' & _ & Hspa').
  rewrite Ha, Ha'. f_equal. apply nth_error_ext_. intro i.
  destruct (nth_error g i) as [n|] eqn:En.
  - destruct (Hspa i n En) as (e & He & Hlt & Hb).
    destruct (Hnodes i n En) as (n' & Hn' & Hs & Hd).
    destruct (Hspa' i n' Hn') as (e' & He' & Hlt' & Hb').
    rewrite He, He', Hs, Hd. f_equal.
    assert (E : e' = e).
    { apply exts_ext_eq; auto. intros d b Hb0.
      assert (Hdd : forall d0, e_has_ext e' (dirb d0) b = e_has_ext e (dirb d0) b).
      { intro d0. now rewrite (Hb' d0 b Hb0), (Hb d0 b Hb0), Hk. }
      destruct d; [exact (Hdd DRight) | exact (Hdd DLeft)]. }
    now rewrite E.
  - assert (E1 : nth_error a i = None).
    { apply nth_error_None. rewrite Hla. now apply nth_error_None. }
    assert (E2 : nth_error a' i = None).
    { apply nth_error_None. rewrite Hla', Hlen. now apply nth_error_None. }
    now rewrite E1, E2.
Qed.

Corollary fix_exts_ext (g : graph) valid valid' :
  (forall x d b, In b bases4 -> keeps g valid' x d b = keeps g valid x d b) ->
  fix_exts g valid' = fix_exts g valid.
Proof.
  intro Hk. apply fix_exts_congr; auto. intros x n Hn. exists n. auto.
Qed.

(* ---------------------------------------------------------------- pruning the dangling bits *)
(* pruning does not change what any extension resolves to *)
Lemma ext_link_prune (g g' : graph) x d b :
  prune g = Some g' -> In b bases4 -> ext_link g' x d b = ext_link g x d b.
Proof.
  intros Hp Hb. unfold RecompLooseCheck.prune in Hp. rewrite (ext_link_fix_exts g g' None x d b Hp Hb).
  unfold RecompressProofs.keeps. destruct (ext_link g x d b) as [[[y t] f]|]; reflexivity.
Qed.

Lemma keeps_prune (g g' : graph) valid x d b :
  prune g = Some g' -> In b bases4 -> keeps g' valid x d b = keeps g valid x d b.
Proof. intros Hp Hb. unfold RecompressProofs.keeps. now rewrite (ext_link_prune g g' x d b Hp Hb). Qed.

Lemma prune_total (g : graph) : exists g', prune g = Some g'.
Proof. destruct (fix_exts_spec D K stranded g None) as (g' & Hg' & _). eauto. Qed.

Lemma prune_length (g g' : graph) : prune g = Some g' -> length g' = length g.
Proof. apply fix_exts_length. Qed.
Lemma prune_seqs (g g' : graph) : prune g = Some g' -> g_seqs D g' = g_seqs D g.
Proof. apply fix_exts_seqs. Qed.

(* what the pruned graph is: same sequences and payloads; a bit is kept iff it was set and resolves *)
Theorem prune_spec (g g' : graph) x n :
  prune g = Some g' -> nth_error g x = Some n ->
  exists e, nth_error g' x = Some (n_seq D n, e, n_data D n) /\ e < 256 /\
    forall d b, In b bases4 ->
      e_has_ext e (dirb d) b =
      e_has_ext (n_exts D n) (dirb d) b && match ext_link g x d b with Some _ => true | None => false end.
Proof.
  intros Hp Hn. destruct (fix_exts_nth_fwd g g' None x n Hp Hn) as (e & He & Hlt & Hk).
  exists e. split; [exact He|]. split; [exact Hlt|]. intros d b Hb. rewrite (Hk d b Hb).
  unfold RecompressProofs.keeps, RecompCheck.ext_link. rewrite Hn.
  destruct (e_has_ext (n_exts D n) (dirb d) b); cbn [andb]; [|reflexivity].
  destruct (GraphModel.find_link D K stranded g _ d) as [[[y t] f]|]; reflexivity.
Qed.

(* fixing the pruned graph = fixing the graph, for every valid set *)
Theorem fix_exts_prune (g g' : graph) valid : prune g = Some g' -> fix_exts g' valid = fix_exts g valid.
Proof.
  intro Hp. apply fix_exts_congr.
  - eapply prune_length; eauto.
  - intros x n Hn. destruct (fix_exts_nth_fwd g g' None x n Hp Hn) as (e & He & _). eexists. split; [exact He|]. auto.
  - intros x d b Hb. now apply keeps_prune.
Qed.

Corollary restrict_prune (g g' : graph) S :
  prune g = Some g' -> restrict D K stranded g' S = restrict D K stranded g S.
Proof. apply fix_exts_prune. Qed.

(* a target of a resolved extension is a node of the graph *)
Lemma ext_link_target (g : graph) x d b y t f : ext_link g x d b = Some (y, t, f) -> (y < length g)%nat.
Proof.
  unfold RecompCheck.ext_link. destruct (nth_error g x) as [n|]; [|discriminate].
  destruct (e_has_ext (n_exts D n) (dirb d) b); [|discriminate]. intro E.
  destruct (find_link_end D K stranded g _ d y t f E) as (m & Hm & _). apply nth_error_Some. congruence.
Qed.

(* fix_exts(Some(all node ids)) = fix_exts(None) *)
Theorem restrict_all_prune (g : graph) : restrict D K stranded g (seq 0 (length g)) = prune g.
Proof.
  unfold restrict, RecompLooseCheck.prune. apply fix_exts_ext. intros x d b Hb. unfold RecompressProofs.keeps.
  destruct (ext_link g x d b) as [[[y t] f]|] eqn:E; [|reflexivity]. cbn [chk_valid].
  apply mem_nat_In. apply in_seq. apply ext_link_target in E. lia.
Qed.

(* the pruned graph of a loosely valid graph is valid *)
Theorem prune_rvalid (g g' : graph) : rvalid_loose g -> prune g = Some g' -> rvalid g'.
Proof.
  intros (Hok & HL & HR & Hpal & Hsym) Hp.
  pose proof (prune_seqs g g' Hp) as Hseq.
  assert (Hnode : forall x n', nth_error g' x = Some n' ->
            exists n, nth_error g x = Some n /\ n_seq D n' = n_seq D n /\ n_exts D n' < 256 /\
              forall d b, In b bases4 -> e_has_ext (n_exts D n') (dirb d) b = keeps g None x d b).
  { intros x n' Hn'. destruct (fix_exts_nth g g' None x n' Hp Hn') as (n & H1 & H2 & _ & H3 & H4). eauto. }
  split; [|split; [|split; [|split; [|split]]]].
  - apply Forall_forall. intros n' Hin. apply In_nth_error in Hin. destruct Hin as [x Hx].
    destruct (Hnode x n' Hx) as (n & Hn & Hs & Hlt & _).
    destruct (node_ok_nth D K g x n Hok Hn) as (H1 & H2 & _). unfold node_ok. rewrite Hs. auto.
  - now rewrite Hseq.
  - now rewrite Hseq.
  - intros Es n' d Hin Hpd. apply In_nth_error in Hin. destruct Hin as [x Hx].
    destruct (Hnode x n' Hx) as (n & Hn & Hs & _). rewrite Hs in *.
    eapply Hpal; eauto. eapply nth_error_In; eauto.
  - intros x d b n' Hn' Hb Hh.
    destruct (Hnode x n' Hn') as (n & Hn & Hs & _ & Hk). rewrite (Hk d b Hb) in Hh.
    rewrite (ext_link_prune g g' x d b Hp Hb). unfold RecompressProofs.keeps in Hh.
    destruct (ext_link g x d b); [discriminate | discriminate].
  - intros x d b y t f n' m' Hn' Hm' Hb He.
    rewrite (ext_link_prune g g' x d b Hp Hb) in He.
    destruct (Hnode x n' Hn') as (n & Hn & Hs & _).
    destruct (Hnode y m' Hm') as (m & Hm & Hsm & _).
    destruct (Hsym x d b y t f n m Hn Hm Hb He) as (t' & b' & d' & f' & Hb' & He' & Ht' & Hd').
    exists t', b', d', f'. split; [exact Hb'|]. split.
    + now rewrite (ext_link_prune g g' y t' b' Hp Hb').
    + rewrite (pal_single_seq D K stranded m m' Hsm), (pal_single_seq D K stranded n n' Hs). auto.
Qed.

(* the bridge lemma in the form of the brief *)
Corollary restrict_of_rvalid_loose (g g1 : graph) :
  rvalid_loose g -> restrict D K stranded g (seq 0 (length g)) = Some g1 -> rvalid g1.
Proof. intros V H. rewrite restrict_all_prune in H. eapply prune_rvalid; eauto. Qed.

(* a valid graph has nothing to prune *)
Lemma prune_rvalid_id (g : graph) : rvalid g -> prune g = Some g.
Proof.
  intro V. destruct (prune_total g) as [g' Hp]. rewrite Hp. f_equal.
  apply nth_error_ext_. intro i. destruct (nth_error g i) as [n|] eqn:En.
  - destruct (prune_spec g g' i n Hp En) as (e & He & Hlt & Hk). rewrite He. f_equal.
    assert (Hn256 : n_exts D n < 256).
    { destruct V as (Hok & _). destruct (node_ok_nth D K g i n Hok En) as (_ & _ & H). exact H. }
    assert (E : e = n_exts D n).
    { apply exts_ext_eq; auto. intros d b Hb.
      assert (Hdd : forall d0, e_has_ext e (dirb d0) b = e_has_ext (n_exts D n) (dirb d0) b).
      { intro d0. rewrite (Hk d0 b Hb). destruct (e_has_ext (n_exts D n) (dirb d0) b) eqn:Eh; [|reflexivity].
        destruct V as (_ & _ & _ & _ & Hres & _). pose proof (Hres i d0 b n En Hb Eh) as Hr.
        destruct (ext_link g i d0 b); [reflexivity | congruence]. }
      destruct d; [exact (Hdd DRight) | exact (Hdd DLeft)]. }
    rewrite E. destruct n as [[? ?] ?]. reflexivity.
  - apply nth_error_None. rewrite (prune_length g g' Hp). now apply nth_error_None.
Qed.

(* survivors and surviving k-mers only depend on lengths / sequences *)
Lemma survivors_length (g g' : graph) censor : length g' = length g -> survivors D g' censor = survivors D g censor.
Proof. unfold survivors. now intros ->. Qed.

Lemma nth_seq_of_seqs (g g' : graph) i :
  g_seqs D g' = g_seqs D g ->
  option_map (n_seq D) (nth_error g' i) = option_map (n_seq D) (nth_error g i).
Proof.
  intro H. unfold g_seqs in H. apply (f_equal (fun l => nth_error l i)) in H. now rewrite !nth_error_map in H.
Qed.

Lemma surv_kmers_seqs (g g' : graph) S :
  g_seqs D g' = g_seqs D g -> surv_kmers D K stranded g' S = surv_kmers D K stranded g S.
Proof.
  intro H. unfold surv_kmers. f_equal. apply map_ext. intro i.
  pose proof (nth_seq_of_seqs g g' i H) as E.
  destruct (nth_error g' i) as [n'|], (nth_error g i) as [n|]; cbn in E; try discriminate; auto.
  injection E as E. unfold node_kmers. now rewrite E.
Qed.
End Loose.

(* ================================================================ compress_graph does not see dangling bits *)
Section LooseCompress.
Variable D : Type.
Variable reduce : D -> D -> D.
Variable join : D -> D -> bool.
Variable K : nat.
Variable stranded : bool.
Local Notation graph := (graph D).
Local Notation compress_graph_paths := (compress_graph_paths D reduce join K stranded).
Local Notation keeps := (keeps D K stranded).

(* graphs with the same sequences and payloads whose extensions RESOLVE TO SURVIVORS alike are compressed alike *)
Theorem compress_graph_congr (g g' : graph) censor :
  length g' = length g ->
  (forall x n, nth_error g x = Some n ->
     exists n', nth_error g' x = Some n' /\ n_seq D n' = n_seq D n /\ n_data D n' = n_data D n) ->
  (forall x d b, In b bases4 ->
     keeps g' (Some (survivors D g censor)) x d b = keeps g (Some (survivors D g censor)) x d b) ->
  compress_graph_paths g' censor = compress_graph_paths g censor.
Proof.
  intros Hlen Hnodes Hk. unfold Recompress.compress_graph_paths. rewrite Hlen.
  change (initial_avail (length g) censor) with (survivors D g censor).
  now rewrite (fix_exts_congr D K stranded g g' _ _ Hlen Hnodes Hk).
Qed.

(* in particular compress_graph of the pruned graph = compress_graph of the graph (no hypothesis on g) *)
Theorem compress_graph_prune (g g' : graph) censor :
  prune D K stranded g = Some g' -> compress_graph_paths g' censor = compress_graph_paths g censor.
Proof.
  intro Hp. apply compress_graph_congr.
  - eapply prune_length; eauto.
  - intros x n Hn. destruct (fix_exts_nth_fwd D K stranded g g' None x n Hp Hn) as (e & He & _).
    eexists. split; [exact He|]. auto.
  - intros x d b Hb. now apply keeps_prune.
Qed.
End LooseCompress.
