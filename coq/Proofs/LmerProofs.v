(* C17: Lmer<[u64; n]> (src/vmer.rs) refines a plain list of bases, for capacities 1..6 words. *)
From Coq Require Import NArith ZArith List Bool Arith Lia ZifyNat ZifyBool.
From DBG Require Import Bits.SymBV Spec.Dna Packed.KmerModel Packed.Blocks Packed.LmerModel Algo.SeqHist
  Proofs.ListFacts Proofs.DnaFacts Proofs.KmerLanes Proofs.KmerSweeps Proofs.KmerOps Proofs.BlockSweeps Proofs.BlockProofs
  Proofs.LmerSweeps.
Import ListNotations.
Open Scope N_scope.

Ltac Zify.zify_post_hook ::= Z.div_mod_to_equations.

(* ---------------------------------------------------------------- list plumbing: splice *)
Lemma splice_length {A} pos (run l : list A) : (pos + length run <= length l)%nat ->
  length (splice pos run l) = length l.
Proof. intro H. unfold splice. rewrite !app_length, firstn_length, skipn_length. lia. Qed.

Lemma nth_splice {A} pos run (l : list A) d i : (pos + length run <= length l)%nat ->
  nth i (splice pos run l) d =
  if Nat.ltb i pos then nth i l d else if Nat.ltb i (pos + length run) then nth (i - pos) run d else nth i l d.
Proof.
  intro H. unfold splice.
  assert (Hf : length (firstn pos l) = pos) by (rewrite firstn_length; lia).
  destruct (Nat.ltb_spec i pos) as [H1|H1].
  - rewrite app_nth1 by lia. now apply nth_firstn_lt.
  - rewrite app_nth2 by lia. rewrite Hf. destruct (Nat.ltb_spec i (pos + length run)) as [H2|H2].
    + rewrite app_nth1 by lia. reflexivity.
    + rewrite app_nth2 by lia. rewrite nth_skipn_'. f_equal. lia.
Qed.

Lemma nth_ext' {A} (a b : list A) : length a = length b ->
  (forall d i, (i < length a)%nat -> nth i a d = nth i b d) -> a = b.
Proof.
  destruct a as [|x a]; intros Hl H.
  - destruct b; [reflexivity | discriminate].
  - apply (nth_ext _ _ x x); auto.
Qed.

Lemma splice_app_l {A} (a x run : list A) o : splice (length a + o) run (a ++ x) = a ++ splice o run x.
Proof.
  unfold splice. rewrite firstn_app_2, <- app_assoc. f_equal. f_equal. f_equal.
  rewrite skipn_app. rewrite skipn_all2 by lia. cbn [app]. f_equal. lia.
Qed.
Lemma splice_app_r {A} (m c run : list A) o : (o + length run <= length m)%nat ->
  splice o run (m ++ c) = splice o run m ++ c.
Proof.
  intro H. unfold splice. rewrite firstn_app, skipn_app.
  replace (o - length m)%nat with 0%nat by lia. replace (o + length run - length m)%nat with 0%nat by lia.
  cbn [firstn skipn]. rewrite app_nil_r, <- !app_assoc. reflexivity.
Qed.
Lemma splice_splice {A} p (r1 r2 l : list A) : (p + length r1 + length r2 <= length l)%nat ->
  splice (p + length r1) r2 (splice p r1 l) = splice p (r1 ++ r2) l.
Proof.
  intro H. apply nth_ext'.
  - rewrite !splice_length; rewrite ?splice_length, ?app_length; lia.
  - intros d i Hi. rewrite !nth_splice by (rewrite ?splice_length, ?app_length; lia). rewrite app_length.
    destruct (Nat.ltb_spec i (p + length r1)), (Nat.ltb_spec i p), (Nat.ltb_spec i (p + length r1 + length r2)),
      (Nat.ltb_spec i (p + (length r1 + length r2))); try lia; try reflexivity.
    + rewrite app_nth1 by lia. reflexivity.
    + rewrite app_nth2 by lia. f_equal. lia.
Qed.
Lemma firstn_splice {A} n pos (run l : list A) : (pos + length run <= n)%nat -> (n <= length l)%nat ->
  firstn n (splice pos run l) = splice pos run (firstn n l).
Proof.
  intros H Hn. apply nth_ext'.
  - rewrite firstn_length, !splice_length; rewrite ?firstn_length; lia.
  - intros d i Hi. rewrite firstn_length, splice_length in Hi by lia.
    rewrite nth_firstn_lt by lia. rewrite !nth_splice by (rewrite ?firstn_length; lia).
    destruct (Nat.ltb_spec i pos), (Nat.ltb_spec i (pos + length run)); try reflexivity;
      now rewrite nth_firstn_lt by lia.
Qed.
Lemma skipn_splice {A} n pos (run l : list A) : (pos + length run <= n)%nat -> (n <= length l)%nat ->
  skipn n (splice pos run l) = skipn n l.
Proof.
  intros H Hn. apply nth_ext'.
  - rewrite !skipn_length, splice_length; lia.
  - intros d i Hi. rewrite !nth_skipn_'. rewrite nth_splice by lia.
    destruct (Nat.ltb_spec (n + i) pos), (Nat.ltb_spec (n + i) (pos + length run)); try lia. reflexivity.
Qed.
Lemma sub_firstn {A} i n m (l : list A) : (i + n <= m)%nat -> sub i n (firstn m l) = sub i n l.
Proof.
  intro H. unfold sub. rewrite skipn_firstn_comm, firstn_firstn. f_equal. lia.
Qed.
Lemma sub_sub {A} a n b m (l : list A) : (b + m <= n)%nat -> sub b m (sub a n l) = sub (a + b) m l.
Proof.
  intro H. unfold sub at 2. rewrite sub_firstn by lia. unfold sub. now rewrite skipn_skipn.
Qed.
Lemma firstn_firstn_skipn {A} a b (l : list A) : firstn a l ++ firstn b (skipn a l) = firstn (a + b) l.
Proof.
  revert l; induction a as [|a IH]; intros l; [reflexivity|]. destruct l as [|x l]; cbn [firstn skipn Nat.add app].
  - now rewrite firstn_nil.
  - now rewrite IH.
Qed.

(* ---------------------------------------------------------------- the length byte, read through the lanes *)
Lemma l_max_len_eq n : l_max_len n = (32 * n - 4)%nat.
Proof. unfold l_max_len. lia. Qed.

Lemma skipn28_decode w : skipn 28 (decode 32 w) = decode 4 w.
Proof. reflexivity. Qed.
Lemma land255 w : N.land w 255 = w mod 256.
Proof. change 255 with (N.ones 8). rewrite N.land_ones. reflexivity. Qed.
Lemma rank_decode4 w : rank (decode 4 w) = w mod 256.
Proof. rewrite rank_decode. reflexivity. Qed.

(* the last four lanes of the lane vector are the four lanes of the length byte *)
Lemma skipn_last4 x : (1 <= length x)%nat ->
  skipn (32 * length x - 4) (lanes_of x) = decode 4 (nth (length x - 1) x 0).
Proof.
  induction x as [|w x IH]; intro H; [cbn in H; lia|]. destruct x as [|w' x].
  - cbn [length Nat.sub nth]. rewrite lanes_of_cons. change (lanes_of []) with (@nil N). rewrite app_nil_r. reflexivity.
  - rewrite lanes_of_cons. set (y := w' :: x) in *.
    assert (Hy : (1 <= length y)%nat) by (subst y; cbn [length]; lia). clearbody y. cbn [length].
    rewrite skipn_app, decode_length. rewrite skipn_all2 by (rewrite decode_length; lia). cbn [app].
    replace (32 * S (length y) - 4 - 32)%nat with (32 * length y - 4)%nat by lia.
    rewrite IH by exact Hy.
    replace (S (length y) - 1)%nat with (S (length y - 1)) by lia. reflexivity.
Qed.

Definition len_of_lanes (size : nat) (L : dna) : nat := N.to_nat (rank (skipn (32 * size - 4) L)).
Lemma l_len_lanes x : (1 <= l_size x)%nat -> l_len x = Some (len_of_lanes (l_size x) (lanes_of x)).
Proof.
  intro H. unfold l_len, l_size in *. unfold subn. destruct (Nat.leb_spec 1 (length x)) as [_|?]; [|lia]. cbn [obind].
  rewrite (nth_opt_some _ _ 0) by lia. cbn [obind]. unfold len_of_lanes.
  rewrite skipn_last4 by exact H. now rewrite rank_decode4, land255.
Qed.

(* ---------------------------------------------------------------- invariant and abstraction *)
(* Prop version of l_invb: capacity 1..6 words (the shipped arrays), words are u64, the length byte holds a length
   <= max_len, and every lane between the sequence and the length byte is zero. *)
Definition l_inv (x : lmer) : Prop :=
  (1 <= l_size x <= 6)%nat /\ Forall (fun w => w < two64) x /\
  exists len, l_len x = Some len /\ (len <= l_max_len (l_size x))%nat /\
    firstn (32 * l_size x - 4 - len) (skipn len (lanes_of x)) = repeat 0 (32 * l_size x - 4 - len).

Lemma forallb_zero_repeat l : forallb (fun b => b =? 0) l = true <-> l = repeat 0 (length l).
Proof.
  induction l as [|b l IH]; cbn [forallb length repeat]; [tauto|]. rewrite andb_true_iff, IH, N.eqb_eq. split.
  - intros [-> <-]. reflexivity.
  - intro H. injection H as -> H. auto.
Qed.
Theorem l_invb_iff x : (1 <= l_size x <= 6)%nat -> (l_invb x = true <-> l_inv x).
Proof.
  intro Hs. unfold l_invb, l_inv. split.
  - destruct (l_len x) as [len|] eqn:E; [|discriminate]. intro H. apply andb_prop in H as [H H3]. apply andb_prop in H as [H1 H2].
    split; [exact Hs|]. split.
    + apply Forall_forall. intros w Hw. rewrite forallb_forall in H2. apply N.ltb_lt. auto.
    + exists len. split; [reflexivity|]. apply Nat.leb_le in H1. split; [exact H1|].
      apply forallb_zero_repeat in H3. rewrite H3 at 1. f_equal.
      rewrite firstn_length, skipn_length, lanes_of_length. rewrite l_max_len_eq in H1. unfold l_size in *. lia.
  - intros [_ [Hw [len [E [H1 H3]]]]]. rewrite E. apply andb_true_intro. split; [apply andb_true_intro; split|].
    + now apply Nat.leb_le.
    + apply forallb_forall. intros w Hin. rewrite Forall_forall in Hw. apply N.ltb_lt. auto.
    + apply forallb_zero_repeat. rewrite H3 at 1. f_equal. now rewrite H3, repeat_length.
Qed.

Lemma l_abs_len x len : l_len x = Some len -> l_abs x = firstn len (lanes_of x).
Proof. intro E. unfold l_abs. now rewrite E. Qed.
Lemma l_abs_length x len : l_inv x -> l_len x = Some len -> length (l_abs x) = len.
Proof.
  intros [Hs [_ [len' [E [H1 _]]]]] E'. rewrite E in E'. injection E' as ->. rewrite (l_abs_len x len E).
  rewrite firstn_length, lanes_of_length. rewrite l_max_len_eq in H1. unfold l_size in *. lia.
Qed.
Lemma l_inv_len x : l_inv x -> exists len, l_len x = Some len /\ (len <= l_max_len (l_size x))%nat /\ length (l_abs x) = len.
Proof.
  intro H. pose proof H as [_ [_ [len [E [H1 _]]]]]. exists len. split; [exact E|]. split; [exact H1|]. now apply l_abs_length.
Qed.
Lemma l_abs_wf x : wf_dna (l_abs x).
Proof.
  unfold l_abs. destruct (l_len x) as [len|]; [|constructor]. unfold wf_dna. apply Forall_forall. intros b Hb. apply in_firstn in Hb.
  unfold lanes_of in Hb. apply in_concat in Hb as [l [Hl Hb]]. apply in_map_iff in Hl as [w [<- _]].
  pose proof (decode_lt4 32 w) as H. unfold wf_dna in H. rewrite Forall_forall in H. auto.
Qed.

(* any update of the words that leaves the lanes from [len] on untouched keeps the invariant and the length *)
Lemma l_inv_update x x' len : l_inv x -> l_len x = Some len -> length x' = length x ->
  Forall (fun w => w < two64) x' -> skipn len (lanes_of x') = skipn len (lanes_of x) ->
  l_inv x' /\ l_len x' = Some len.
Proof.
  intros [Hs [Hw [len' [E [H1 H3]]]]] E' Hl Hw' Hsk. rewrite E in E'. injection E' as ->.
  assert (Hsz : l_size x' = l_size x) by exact Hl.
  assert (El : l_len x' = Some len).
  { rewrite l_len_lanes by lia. rewrite l_len_lanes in E by lia. rewrite <- E. f_equal. unfold len_of_lanes. rewrite Hsz.
    rewrite l_max_len_eq in H1.
    replace (32 * l_size x - 4)%nat with (len + (32 * l_size x - 4 - len))%nat by lia.
    rewrite <- !skipn_skipn. now rewrite Hsk. }
  split; [|exact El]. split; [lia|]. split; [exact Hw'|]. exists len. split; [exact El|]. rewrite Hsz. split; [exact H1|].
  now rewrite Hsk.
Qed.

Lemma l_block_lt64 x b : l_inv x -> (b < length x)%nat -> nth b x 0 < two64.
Proof. intros [_ [Hw _]] Hb. rewrite Forall_forall in Hw. apply Hw. now apply nth_In. Qed.
Lemma l_block_in_range x len i : l_inv x -> l_len x = Some len -> (i < len)%nat -> (i / 32 < length x)%nat.
Proof.
  intros [Hs [_ [len' [E [H1 _]]]]] E' Hi. rewrite E in E'. injection E' as ->. rewrite l_max_len_eq in H1. unfold l_size in *. lia.
Qed.

(* ---------------------------------------------------------------- new *)
Lemma decode_byte_top w : w < 256 -> firstn 28 (decode 32 w) = repeat 0 28.
Proof.
  intro H. rewrite <- (N.mod_small w (2 ^ N.of_nat 8)) by exact H.
  rewrite <- (decode_var (fun _ => w) 0 8 32). rewrite firstn_map.
  replace (firstn 28 (lanesS 32 (s_var 0 8))) with (repeat (BF, BF) 28) by (vm_compute; reflexivity).
  reflexivity.
Qed.
Lemma lanes_of_zeros m : lanes_of (repeat 0 m) = repeat 0 (32 * m).
Proof.
  induction m as [|m IH]; [reflexivity|]. cbn [repeat]. rewrite lanes_of_cons, IH.
  replace (decode 32 0) with (repeat 0 32) by (vm_compute; reflexivity). rewrite <- repeat_app. f_equal. lia.
Qed.
Lemma upd_repeat_last {A} (a : A) m y : upd m (repeat a (S m)) y = repeat a m ++ [y].
Proof.
  unfold upd. replace (repeat a (S m)) with (repeat a m ++ [a]) by (change [a] with (repeat a 1); rewrite <- repeat_app; f_equal; lia).
  rewrite firstn_app_exact by now rewrite repeat_length. rewrite skipn_all2 by (rewrite app_length, repeat_length; cbn; lia).
  reflexivity.
Qed.

Theorem l_new_spec n len : (1 <= n <= 6)%nat -> (len <= l_max_len n)%nat ->
  exists x, l_new n len = Some x /\ l_size x = n /\ l_inv x /\ l_len x = Some len /\ l_abs x = repeat 0 len.
Proof.
  intros Hn Hlen. rewrite l_max_len_eq in Hlen. unfold l_new, subn. destruct (Nat.leb_spec 1 n) as [_|?]; [|lia]. cbn [obind].
  rewrite set_nth_some by (rewrite repeat_length; lia). eexists; split; [reflexivity|].
  set (lw := N.land (N.of_nat len) 255).
  assert (Hlw : lw = N.of_nat len) by (subst lw; rewrite land255; apply N.mod_small; lia).
  replace (repeat 0 n) with (repeat 0 (S (n - 1))) by (f_equal; lia). rewrite upd_repeat_last.
  set (x := repeat 0 (n - 1) ++ [lw]).
  assert (Hsz : length x = n) by (subst x; rewrite app_length, repeat_length; cbn [length]; lia).
  assert (HL : lanes_of x = repeat 0 (32 * n - 4) ++ decode 4 lw).
  { subst x. rewrite lanes_of_app, lanes_of_zeros. unfold lanes_of at 1. cbn [map concat]. rewrite app_nil_r.
    rewrite <- (firstn_skipn 28 (decode 32 lw)), skipn28_decode, decode_byte_top by lia.
    rewrite app_assoc, <- repeat_app. f_equal. f_equal. lia. }
  assert (El : l_len x = Some len).
  { rewrite l_len_lanes by (unfold l_size; lia). f_equal. unfold len_of_lanes, l_size. rewrite Hsz, HL.
    rewrite skipn_app_exact by now rewrite repeat_length. rewrite rank_decode4, Hlw. rewrite N.mod_small by lia. lia. }
  split; [exact Hsz|]. split; [|split; [exact El|]].
  - split; [unfold l_size; lia|]. split.
    + subst x. apply Forall_app. split.
      * apply Forall_forall. intros w Hw. apply repeat_spec in Hw. subst. unfold two64. lia.
      * constructor; [|constructor]. unfold two64. lia.
    + exists len. split; [exact El|]. unfold l_size. rewrite Hsz, l_max_len_eq. split; [lia|]. rewrite HL.
      replace (32 * n - 4)%nat with (len + (32 * n - 4 - len))%nat at 2 by lia. rewrite repeat_app, <- app_assoc.
      rewrite skipn_app_exact by now rewrite repeat_length. apply firstn_app_exact. now rewrite repeat_length.
  - rewrite (l_abs_len x len El), HL.
    replace (32 * n - 4)%nat with (len + (32 * n - 4 - len))%nat by lia. rewrite repeat_app, <- app_assoc.
    apply firstn_app_exact. now rewrite repeat_length.
Qed.

(* ---------------------------------------------------------------- get / set_mut *)
Theorem l_get_spec x len pos : l_inv x -> l_len x = Some len -> (pos < len)%nat ->
  l_get x pos = Some (nth pos (l_abs x) 0).
Proof.
  intros Hinv E Hp. pose proof (l_block_in_range x len pos Hinv E Hp) as Hb. unfold l_get.
  rewrite (nth_opt_some _ _ 0 Hb). cbn [obind]. rewrite block_get_spec by (try apply l_block_lt64; auto; lia).
  f_equal. rewrite (l_abs_len x len E), nth_firstn_lt by exact Hp.
  rewrite <- nth_lanes_of by (auto; lia). f_equal. lia.
Qed.

Theorem l_set_mut_spec x len pos v : l_inv x -> l_len x = Some len -> (pos < len)%nat -> v < 4 ->
  exists x', l_set_mut x pos v = Some x' /\ l_size x' = l_size x /\ l_inv x' /\ l_len x' = Some len /\
             l_abs x' = upd pos (l_abs x) v.
Proof.
  intros Hinv E Hp Hv. pose proof (l_block_in_range x len pos Hinv E Hp) as Hb. unfold l_set_mut.
  rewrite (nth_opt_some _ _ 0 Hb). cbn [obind].
  destruct (block_set_spec (nth (pos / 32) x 0) (pos mod 32) v) as [w' [Ew [W D]]]; [now apply l_block_lt64 | lia | exact Hv |].
  rewrite Ew. cbn [obind]. rewrite set_nth_some by exact Hb. eexists; split; [reflexivity|].
  assert (HL : lanes_of (upd (pos / 32) x w') = upd pos (lanes_of x) v).
  { rewrite (lanes_of_upd_lane _ _ (pos mod 32) w' v); [| exact Hb | lia | exact D]. f_equal. lia. }
  assert (HpL : (pos < length (lanes_of x))%nat) by (rewrite lanes_of_length; lia).
  assert (Hlen' : length (upd (pos / 32) x w') = length x) by now apply upd_length.
  destruct (l_inv_update x (upd (pos / 32) x w') len Hinv E Hlen') as [I' E'].
  - destruct Hinv as [_ [Hw _]]. now apply Forall_upd.
  - rewrite HL. apply skipn_upd; assumption.
  - split; [exact Hlen'|]. split; [exact I'|]. split; [exact E'|].
    rewrite (l_abs_len _ len E'), (l_abs_len x len E), HL. now apply firstn_upd.
Qed.

(* ---------------------------------------------------------------- set_slice_mut: the two word kernels, all values *)
Lemma valS_decode s v : v < two64 -> map (pv (rho_of (env2 s v))) valS = decode 32 v.
Proof. intro H. unfold valS. rewrite decode_var. cbn [env2]. now rewrite N.mod_small by exact H. Qed.
Lemma stoS64_decode w v : w < two64 -> map (pv (rho_of (env2 w v))) (stoS c64) = decode 32 w.
Proof. intro H. apply (stoS_decode c64 w v c64_shipped). now apply wf64. Qed.

Lemma l_word0_spec bp n is_last w value : w < two64 -> value < two64 -> (bp < 32)%nat -> (1 <= n <= 32)%nat ->
  (is_last = true -> (bp + n <= 28)%nat) ->
  exists r, run (k_l_word0 bp n is_last (Var 0 64) (Var 1 64)) w value = Some r /\ r < two64 /\
    decode 32 r = splice bp (firstn (Nat.min n (32 - bp)) (decode 32 value)) (decode 32 w).
Proof.
  intros Hw Hv Hbp Hn Hlast. pose proof sweep_l_word0 as H. rewrite forallb_forall in H. specialize (H bp (in_seq32 bp Hbp)).
  rewrite forallb_forall in H. specialize (H is_last ltac:(destruct is_last; cbn; auto)).
  rewrite forallb_forall in H. specialize (H n).
  assert (Hin : In n (runs0 bp is_last)).
  { unfold runs0. destruct is_last; apply in_seq; [specialize (Hlast eq_refl)|]; lia. }
  specialize (H Hin). unfold chk_l_word0 in H.
  destruct (lane_check_lift c64 64 _ _ w value H (proj1 (wf64 w) Hw) Hv) as [r [Hr [Hwf Hd]]].
  exists r. split; [exact Hr|]. split; [now apply wf64|].
  change (kK c64) with 32%nat in Hd. rewrite Hd, splice_map, <- firstn_map, valS_decode, stoS64_decode by assumption. reflexivity.
Qed.

Lemma l_word1_spec nb0 nb1 w value : w < two64 -> value < two64 -> (1 <= nb0)%nat -> (1 <= nb1)%nat -> (nb0 + nb1 <= 32)%nat ->
  exists r, run (k_l_word1 nb0 nb1 (Var 0 64) (Var 1 64)) w value = Some r /\ r < two64 /\
    decode 32 r = splice 0 (firstn nb1 (skipn nb0 (decode 32 value))) (decode 32 w).
Proof.
  intros Hw Hv H0 H1 H01. pose proof sweep_l_word1 as H. rewrite forallb_forall in H.
  specialize (H nb0 ltac:(apply in_seq; lia)). rewrite forallb_forall in H. specialize (H nb1 ltac:(apply in_seq; lia)).
  unfold chk_l_word1 in H.
  destruct (lane_check_lift c64 64 _ _ w value H (proj1 (wf64 w) Hw) Hv) as [r [Hr [Hwf Hd]]].
  exists r. split; [exact Hr|]. split; [now apply wf64|].
  change (kK c64) with 32%nat in Hd.
  rewrite Hd, splice_map, <- firstn_map, <- skipn_map, valS_decode, stoS64_decode by assumption. reflexivity.
Qed.

(* writing a run inside block b of a block vector *)
Lemma upd_nth_same {A} b (ws : list A) d : (b < length ws)%nat -> upd b ws (nth b ws d) = ws.
Proof.
  intro H. unfold upd. rewrite <- (skipn_S_nth b ws d H). apply firstn_skipn.
Qed.
Lemma lanes_of_upd_splice ws b o r w' : (b < length ws)%nat -> (o + length r <= 32)%nat ->
  decode 32 w' = splice o r (decode 32 (nth b ws 0)) ->
  lanes_of (upd b ws w') = splice (32 * b + o) r (lanes_of ws).
Proof.
  intros Hb Ho Hd. rewrite lanes_of_upd by exact Hb. rewrite Hd.
  set (A := firstn (32 * b) (lanes_of ws)). set (C := skipn (32 * S b) (lanes_of ws)). set (M := decode 32 (nth b ws 0)).
  assert (HL : lanes_of ws = A ++ M ++ C).
  { rewrite <- (upd_nth_same b ws 0 Hb) at 1. now rewrite lanes_of_upd by exact Hb. }
  assert (HA : length A = (32 * b)%nat) by (subst A; rewrite firstn_length, lanes_of_length; lia).
  rewrite HL, <- HA. rewrite splice_app_l. rewrite splice_app_r by (subst M; rewrite decode_length; lia). reflexivity.
Qed.

Lemma l_set_slice_mut_lanes x pos n value : (1 <= l_size x)%nat -> Forall (fun w => w < two64) x ->
  (1 <= n <= 32)%nat -> (pos + n <= 32 * l_size x - 4)%nat -> value < two64 ->
  exists x', l_set_slice_mut x pos n value = Some x' /\ length x' = length x /\ Forall (fun w => w < two64) x' /\
    lanes_of x' = splice pos (firstn n (decode 32 value)) (lanes_of x).
Proof.
  intros Hs Hw Hn Hp Hv. unfold l_size in *. unfold l_set_slice_mut, l_size, subn.
  destruct (Nat.leb_spec 1 (length x)) as [_|?]; [|lia]. cbn [obind].
  set (b0 := (pos / 32)%nat). set (bp := (pos mod 32)%nat).
  assert (Hb0 : (b0 < length x)%nat) by (subst b0; lia).
  assert (Hbp : (bp < 32)%nat) by (subst bp; lia).
  assert (Hpos : (pos = 32 * b0 + bp)%nat) by (subst b0 bp; lia).
  rewrite (nth_opt_some _ _ 0 Hb0). cbn [obind].
  assert (Hw0 : nth b0 x 0 < two64) by (rewrite Forall_forall in Hw; apply Hw; now apply nth_In).
  destruct (l_word0_spec bp n (Nat.eqb b0 (length x - 1)) (nth b0 x 0) value Hw0 Hv Hbp Hn) as [v0 [E0 [W0 D0]]].
  { intro E. apply Nat.eqb_eq in E. lia. }
  rewrite E0. cbn [obind]. rewrite set_nth_some by exact Hb0. cbn [obind].
  set (run := decode 32 value) in *.
  assert (Hrl : length run = 32%nat) by (subst run; apply decode_length).
  set (x1 := upd b0 x v0).
  assert (Hl1 : length x1 = length x) by (subst x1; now apply upd_length).
  assert (Hw1 : Forall (fun w => w < two64) x1) by (subst x1; now apply Forall_upd).
  assert (HL1 : lanes_of x1 = splice pos (firstn (Nat.min n (32 - bp)) run) (lanes_of x)).
  { subst x1. rewrite Hpos. apply lanes_of_upd_splice; [exact Hb0 | rewrite firstn_length; lia | exact D0]. }
  destruct (Nat.ltb_spec (32 - bp) n) as [Hcross|Hin].
  - (* the run continues in the next word *)
    assert (Hb1 : (S b0 < length x1)%nat) by lia.
    rewrite (nth_opt_some _ _ 0 Hb1). cbn [obind].
    assert (Hw1' : nth (S b0) x1 0 < two64) by (rewrite Forall_forall in Hw1; apply Hw1; now apply nth_In).
    destruct (l_word1_spec (32 - bp) (n - (32 - bp)) (nth (S b0) x1 0) value Hw1' Hv) as [v1 [E1 [W1 D1]]]; try lia.
    rewrite E1. cbn [obind]. rewrite set_nth_some by exact Hb1. eexists; split; [reflexivity|].
    split; [rewrite upd_length by exact Hb1; exact Hl1|]. split; [now apply Forall_upd|].
    fold run in D1.
    rewrite (lanes_of_upd_splice x1 (S b0) 0 (firstn (n - (32 - bp)) (skipn (32 - bp) run)) v1 Hb1);
      [| rewrite firstn_length; lia | exact D1].
    rewrite HL1. replace (Nat.min n (32 - bp)) with (32 - bp)%nat by lia.
    replace (32 * S b0 + 0)%nat with (pos + length (firstn (32 - bp) run))%nat by (rewrite firstn_length; lia).
    rewrite splice_splice.
    + rewrite firstn_firstn_skipn. do 2 f_equal. lia.
    + rewrite !firstn_length, skipn_length, lanes_of_length. lia.
  - eexists; split; [reflexivity|]. split; [exact Hl1|]. split; [exact Hw1|].
    rewrite HL1. now replace (Nat.min n (32 - bp)) with n by lia.
Qed.

Theorem l_set_slice_mut_spec x len pos n value : l_inv x -> l_len x = Some len ->
  (1 <= n <= 32)%nat -> (pos + n <= len)%nat -> value < two64 ->
  exists x', l_set_slice_mut x pos n value = Some x' /\ l_size x' = l_size x /\ l_inv x' /\ l_len x' = Some len /\
             l_abs x' = splice pos (firstn n (decode 32 value)) (l_abs x).
Proof.
  intros Hinv E Hn Hp Hv. pose proof Hinv as [Hs [Hw [len' [E' [Hmax _]]]]]. rewrite E in E'. injection E' as <-.
  rewrite l_max_len_eq in Hmax.
  destruct (l_set_slice_mut_lanes x pos n value) as [x' [Es [Hl [Hw' HL]]]]; try assumption; try lia.
  assert (Hrl : length (firstn n (decode 32 value)) = n) by (rewrite firstn_length, decode_length; lia).
  assert (HLl : (len <= length (lanes_of x))%nat) by (rewrite lanes_of_length; unfold l_size in *; lia).
  destruct (l_inv_update x x' len Hinv E Hl Hw') as [I' E'].
  - rewrite HL. apply skipn_splice; lia.
  - exists x'. split; [exact Es|]. split; [exact Hl|]. split; [exact I'|]. split; [exact E'|].
    rewrite (l_abs_len _ len E'), (l_abs_len x len E), HL. apply firstn_splice; lia.
Qed.

(* ---------------------------------------------------------------- rc *)
(* a run inside one block, read from the lane vector *)
Lemma sub_lanes_of ws b o n : (b < length ws)%nat -> (o + n <= 32)%nat ->
  sub (32 * b + o) n (lanes_of ws) = sub o n (decode 32 (nth b ws 0)).
Proof.
  intros Hb Ho. apply nth_ext'.
  - rewrite !sub_length; rewrite ?decode_length, ?lanes_of_length; lia.
  - intros d i Hi. rewrite sub_length in Hi by (rewrite lanes_of_length; lia).
    rewrite !nth_sub by exact Hi. replace (32 * b + o + i)%nat with (32 * b + (o + i))%nat by lia.
    apply nth_lanes_of; lia.
Qed.

Lemma map_pv_zeros rho k : map (pv rho) (repeat (BF, BF) k) = repeat 0 k.
Proof. induction k as [|k IH]; [reflexivity|]. cbn [repeat map]. now rewrite IH. Qed.

Lemma l_rcword_spec n is_last w : w < two64 -> (1 <= n <= 32)%nat -> (is_last = true -> (n <= 28)%nat) ->
  exists r, run (k_l_rcword n is_last (Var 0 64)) w 0 = Some r /\ r < two64 /\
    decode 32 r = rc (firstn n (decode 32 w)) ++ repeat 0 (32 - n).
Proof.
  intros Hw Hn Hlast. pose proof sweep_l_rcword as H. rewrite forallb_forall in H. specialize (H n ltac:(apply in_seq; lia)).
  apply andb_prop in H as [H1 H2].
  assert (H : chk_l_rcword n is_last = true).
  { destruct is_last; [|exact H1]. specialize (Hlast eq_refl). apply orb_prop in H2 as [H2|H2]; [|exact H2].
    apply Nat.ltb_lt in H2. lia. }
  unfold chk_l_rcword in H.
  destruct (lane_check_lift c64 0 _ _ w 0 H (proj1 (wf64 w) Hw) ltac:(cbn; lia)) as [r [Hr [Hwf Hd]]].
  exists r. split; [exact Hr|]. split; [now apply wf64|].
  change (kK c64) with 32%nat in Hd. rewrite Hd, map_app, map_pv_zeros. f_equal.
  rewrite map_map. unfold rc. rewrite <- (stoS64_decode w 0 Hw). rewrite firstn_map, <- map_rev, map_map.
  apply map_ext. intro p. apply pv_compS.
Qed.

Lemma firstn_repeat_le {A} (a : A) n m : (n <= m)%nat -> firstn n (repeat a m) = repeat a n.
Proof.
  intro H. replace m with (n + (m - n))%nat by lia. rewrite repeat_app. apply firstn_app_exact. now rewrite repeat_length.
Qed.
Lemma splice_tail {A} o (r m : list A) : length m = (o + length r)%nat -> splice o r m = firstn o m ++ r.
Proof. intro H. unfold splice. rewrite skipn_all2 by lia. now rewrite app_nil_r. Qed.

Lemma l_rc_loop_spec x len : l_inv x -> l_len x = Some len ->
  forall fuel new block pos,
  l_inv new -> l_len new = Some len -> l_size new = l_size x ->
  (pos <= len)%nat -> ((pos < len)%nat -> pos = (32 * block)%nat) -> (len - pos <= 32 * fuel)%nat ->
  l_abs new = repeat 0 (len - pos) ++ rc (firstn pos (l_abs x)) ->
  exists r, l_rc_loop fuel x new len block pos = Some r /\ l_size r = l_size x /\ l_inv r /\ l_len r = Some len /\
            l_abs r = rc (l_abs x).
Proof.
  intros Hinv E. pose proof Hinv as [Hs [Hw [len' [E' [Hmax _]]]]]. rewrite E in E'. injection E' as <-.
  rewrite l_max_len_eq in Hmax. pose proof (l_abs_length x len Hinv E) as HA.
  assert (Hdone : forall new, l_abs new = repeat 0 (len - len) ++ rc (firstn len (l_abs x)) -> l_abs new = rc (l_abs x)).
  { intros new H. rewrite H, Nat.sub_diag. cbn [repeat app]. now rewrite firstn_all2 by lia. }
  induction fuel as [|fuel IH]; intros new block pos Inew Enew Snew Hpl Hblk Hfuel Habs.
  - assert (pos = len) by lia. subst pos. cbn [l_rc_loop]. rewrite Nat.ltb_irrefl. cbn [negb].
    exists new. split; [reflexivity|]. split; [exact Snew|]. split; [exact Inew|]. split; [exact Enew|]. now apply Hdone.
  - cbn [l_rc_loop]. destruct (Nat.ltb_spec pos len) as [Hlt|Hge]; cbn [negb].
    + specialize (Hblk Hlt). set (n := Nat.min 32 (len - pos)).
      assert (Hn : (1 <= n <= 32)%nat /\ (pos + n <= len)%nat) by (subst n; lia). destruct Hn as [Hn Hpn].
      unfold subn at 1. unfold l_size in *. destruct (Nat.leb_spec 1 (length x)) as [_|?]; [|lia]. cbn [obind].
      assert (Hb : (block < length x)%nat) by lia.
      rewrite (nth_opt_some _ _ 0 Hb). cbn [obind].
      destruct (l_rcword_spec n (Nat.eqb block (length x - 1)) (nth block x 0)) as [vrc [Er [Wr Dr]]];
        [now apply l_block_lt64 | exact Hn | intro Eq; apply Nat.eqb_eq in Eq; subst n; lia |].
      rewrite Er. cbn [obind]. unfold subn. destruct (Nat.leb_spec n (len - pos)) as [_|?]; [|lia]. cbn [obind].
      destruct (l_set_slice_mut_spec new len (len - pos - n) n vrc Inew Enew Hn ltac:(lia) Wr) as [new' [Es [Ss [Is [Ls As]]]]].
      rewrite Es. cbn [obind].
      assert (Hrun : firstn n (decode 32 vrc) = rc (sub pos n (l_abs x))).
      { rewrite Dr. rewrite firstn_app_exact by (rewrite rc_length, firstn_length, decode_length; lia). f_equal.
        rewrite (l_abs_len x len E), sub_firstn by lia. rewrite Hblk.
        change (firstn n (decode 32 (nth block x 0))) with (sub 0 n (decode 32 (nth block x 0))).
        rewrite <- sub_lanes_of by lia. f_equal. lia. }
      apply IH; try assumption; try lia.
      * unfold l_size in *. lia.
      * rewrite As, Hrun, Habs.
        assert (Hsl : length (sub pos n (l_abs x)) = n) by (apply sub_length; lia).
        rewrite splice_app_r by (rewrite rc_length, repeat_length; lia).
        rewrite splice_tail by (rewrite rc_length, repeat_length; lia).
        rewrite firstn_repeat_le by lia. rewrite <- app_assoc. f_equal; [f_equal; lia|].
        rewrite <- rc_app. f_equal. unfold sub. apply firstn_firstn_skipn.
    + assert (pos = len) by lia. subst pos. exists new. split; [reflexivity|]. split; [exact Snew|]. split; [exact Inew|]. split; [exact Enew|]. now apply Hdone.
Qed.

Theorem l_rc_spec x len : l_inv x -> l_len x = Some len ->
  exists r, l_rc x = Some r /\ l_size r = l_size x /\ l_inv r /\ l_len r = Some len /\ l_abs r = rc (l_abs x).
Proof.
  intros Hinv E. pose proof Hinv as [Hs [Hw [len' [E' [Hmax _]]]]]. rewrite E in E'. injection E' as <-.
  unfold l_rc. rewrite E. cbn [obind].
  destruct (l_new_spec (l_size x) len Hs Hmax) as [new [En [Sn [In [Ln An]]]]]. rewrite En. cbn [obind].
  rewrite l_max_len_eq in Hmax.
  apply (l_rc_loop_spec x len Hinv E); try assumption; try lia.
  rewrite An, Nat.sub_0_r. cbn [firstn]. unfold rc. cbn [rev map]. now rewrite app_nil_r.
Qed.

(* ---------------------------------------------------------------- from_slice, to_bytes *)
Lemma l_set_all_spec l : forall x len i, l_inv x -> l_len x = Some len -> wf_dna l -> (i + length l <= len)%nat ->
  exists x', l_set_all x i l = Some x' /\ l_size x' = l_size x /\ l_inv x' /\ l_len x' = Some len /\
             l_abs x' = splice i l (l_abs x).
Proof.
  induction l as [|b l IH]; intros x len i Hinv E Hl Hi.
  - exists x. cbn [l_set_all]. split; [reflexivity|]. split; [reflexivity|]. split; [exact Hinv|]. split; [exact E|].
    rewrite splice_nil; [reflexivity|]. rewrite (l_abs_length x len Hinv E). cbn [length] in Hi. lia.
  - inversion Hl; subst. cbn [length] in Hi.
    destruct (l_set_mut_spec x len i b Hinv E ltac:(lia) H1) as [x1 [E1 [S1 [I1 [L1 A1]]]]].
    destruct (IH x1 len (S i) I1 L1 H2 ltac:(lia)) as [x2 [E2 [S2 [I2 [L2 A2]]]]].
    exists x2. cbn [l_set_all]. rewrite E1. cbn [obind]. split; [exact E2|]. split; [congruence|]. split; [exact I2|].
    split; [exact L2|]. rewrite A2, A1. apply splice_step. rewrite (l_abs_length x len Hinv E). lia.
Qed.

Theorem l_from_slice_spec n l : (1 <= n <= 6)%nat -> wf_dna l -> (length l <= l_max_len n)%nat ->
  exists x, l_from_slice n l = Some x /\ l_size x = n /\ l_inv x /\ l_len x = Some (length l) /\ l_abs x = l.
Proof.
  intros Hn Hl Hlen. unfold l_from_slice.
  destruct (l_new_spec n (length l) Hn Hlen) as [x0 [E0 [S0 [I0 [L0 A0]]]]]. rewrite E0. cbn [obind].
  destruct (l_set_all_spec l x0 (length l) 0 I0 L0 Hl ltac:(lia)) as [x [E [S1 [I [L A]]]]].
  exists x. split; [exact E|]. split; [congruence|]. split; [exact I|]. split; [exact L|].
  rewrite A. apply splice_all. now rewrite A0, repeat_length.
Qed.

Theorem l_to_bytes_spec x : l_inv x -> l_to_bytes x = Some (l_abs x).
Proof.
  intro Hinv. destruct (l_inv_len x Hinv) as [len [E [_ HA]]]. unfold l_to_bytes. rewrite E. cbn [obind].
  assert (G : forall ps, Forall (fun i => (i < len)%nat) ps -> omapN (l_get x) ps = Some (map (fun i => nth i (l_abs x) 0) ps)).
  { induction ps as [|i ps IH]; intro H; [reflexivity|]. inversion H; subst. cbn [omapN map].
    rewrite (l_get_spec x (length (l_abs x)) i Hinv E) by assumption. cbn [obind]. rewrite IH by assumption. reflexivity. }
  rewrite G.
  - f_equal. rewrite <- HA. apply map_nth_seq.
  - apply Forall_forall. intros i Hi. apply in_seq in Hi. lia.
Qed.

(* ---------------------------------------------------------------- histories *)
Lemma decode_digits4' K s : decode K s = digits4 K s.
Proof. unfold decode, digits4. apply map_ext. intro p. apply lane_div. Qed.

(* the same with the payload read as base-4 digits (the form used by the list-level history step) *)
Corollary l_set_slice_mut_digits x len pos n value : l_inv x -> l_len x = Some len ->
  (1 <= n <= 32)%nat -> (pos + n <= len)%nat -> value < two64 ->
  exists x', l_set_slice_mut x pos n value = Some x' /\ l_size x' = l_size x /\ l_inv x' /\ l_len x' = Some len /\
             l_abs x' = splice pos (firstn n (digits4 32 value)) (l_abs x).
Proof. rewrite <- decode_digits4'. apply l_set_slice_mut_spec. Qed.

(* guards of a history step (what the API documents): positions inside the sequence, bases < 4, runs of 1..32
   bases inside the sequence, a u64 payload *)
Definition lop_ok (len : nat) (o : lop) : bool :=
  match o with
  | LSet p b => Nat.ltb p len && (b <? 4)
  | LSetSlice p n v => Nat.leb 1 n && Nat.leb n 32 && Nat.leb (p + n) len && (v <? two64)
  | LRc => true
  end.

Theorem lstep_refines x len o : l_inv x -> l_len x = Some len -> lop_ok len o = true ->
  exists x', lstep x o = Some x' /\ l_size x' = l_size x /\ l_inv x' /\ l_len x' = Some len /\
             l_abs x' = slstep (l_abs x) o.
Proof.
  intros Hinv E Hok. destruct o as [p b|p n v|]; cbn [lop_ok lstep slstep] in *.
  - apply andb_prop in Hok as [H1 H2]. apply Nat.ltb_lt in H1. apply N.ltb_lt in H2. now apply l_set_mut_spec.
  - apply andb_prop in Hok as [Hok H4]. apply andb_prop in Hok as [Hok H3]. apply andb_prop in Hok as [H1 H2].
    apply Nat.leb_le in H1, H2, H3. apply N.ltb_lt in H4. rewrite <- decode_digits4'.
    apply l_set_slice_mut_spec; auto.
  - now apply l_rc_spec.
Qed.

(* every in-range history keeps the invariant, the capacity and the length, and the contents are those of the
   plain list subjected to the same operations *)
Theorem lsteps_refines ops : forall x len, l_inv x -> l_len x = Some len -> forallb (lop_ok len) ops = true ->
  exists x', lsteps x ops = Some x' /\ l_size x' = l_size x /\ l_inv x' /\ l_len x' = Some len /\
             l_abs x' = fold_left slstep ops (l_abs x).
Proof.
  induction ops as [|o ops IH]; intros x len Hinv E Hok.
  - exists x. cbn. auto.
  - cbn [forallb] in Hok. apply andb_prop in Hok as [Ho Hr].
    destruct (lstep_refines x len o Hinv E Ho) as [x1 [E1 [S1 [I1 [L1 A1]]]]].
    destruct (IH x1 len I1 L1 Hr) as [x2 [E2 [S2 [I2 [L2 A2]]]]].
    exists x2. cbn [lsteps fold_left]. rewrite E1. split; [exact E2|]. split; [congruence|]. split; [exact I2|].
    split; [exact L2|]. now rewrite A2, A1.
Qed.

(* from Lmer::new(len): all A's, then any in-range history *)
Theorem l_history n len ops : (1 <= n <= 6)%nat -> (len <= l_max_len n)%nat -> forallb (lop_ok len) ops = true ->
  exists x0 x, l_new n len = Some x0 /\ lsteps x0 ops = Some x /\ l_size x = n /\ l_inv x /\ l_len x = Some len /\
               l_abs x = fold_left slstep ops (repeat 0 len).
Proof.
  intros Hn Hlen Hok. destruct (l_new_spec n len Hn Hlen) as [x0 [E0 [S0 [I0 [L0 A0]]]]].
  destruct (lsteps_refines ops x0 len I0 L0 Hok) as [x [E [S1 [I [L A]]]]].
  exists x0, x. split; [exact E0|]. split; [exact E|]. split; [congruence|]. split; [exact I|]. split; [exact L|].
  now rewrite A, A0.
Qed.

(* ---------------------------------------------------------------- equality and hash input *)
(* the canonical form of the lane vector: bases, zero padding, the four lanes of the length byte *)
Lemma l_lanes_canon x len : l_inv x -> l_len x = Some len ->
  lanes_of x = l_abs x ++ repeat 0 (32 * l_size x - 4 - len) ++ decode 4 (N.of_nat len).
Proof.
  intros Hinv E. pose proof Hinv as [Hs [Hw [len' [E' [Hmax Hz]]]]]. rewrite E in E'. injection E' as <-.
  rewrite l_max_len_eq in Hmax. rewrite (l_abs_len x len E).
  rewrite <- (firstn_skipn len (lanes_of x)) at 1. f_equal.
  rewrite <- (firstn_skipn (32 * l_size x - 4 - len) (skipn len (lanes_of x))). rewrite Hz. f_equal.
  rewrite skipn_skipn. replace (len + (32 * l_size x - 4 - len))%nat with (32 * l_size x - 4)%nat by lia.
  unfold l_size in *. rewrite skipn_last4 by lia.
  rewrite l_len_lanes in E by (unfold l_size; lia). injection E as E. unfold len_of_lanes, l_size in E.
  rewrite skipn_last4 in E by lia. set (w := nth (length x - 1) x 0) in *.
  rewrite <- (decode_rank 4 (decode 4 w)) at 1 by (try apply decode_length; apply decode_lt4).
  f_equal. lia.
Qed.

Lemma nlist_cmp_eq' a : forall b, nlist_cmp a b = Eq <-> a = b.
Proof.
  induction a as [|x a IH]; destruct b as [|y b]; cbn; split; intro H; try discriminate; auto.
  - destruct (N.compare_spec x y); try discriminate. subst. f_equal. now apply IH.
  - injection H as -> ->. rewrite N.compare_refl. now apply IH.
Qed.
Lemma lanes_of_inj' a : forall b, Forall (fun w => w < two64) a -> Forall (fun w => w < two64) b ->
  lanes_of a = lanes_of b -> a = b.
Proof.
  induction a as [|x a IH]; destruct b as [|y b]; intros Ha Hb H; auto.
  - apply (f_equal (@length N)) in H. rewrite !lanes_of_length in H. cbn in H. lia.
  - apply (f_equal (@length N)) in H. rewrite !lanes_of_length in H. cbn in H. lia.
  - apply Forall_cons_iff in Ha as [Hx Ha]. apply Forall_cons_iff in Hb as [Hy Hb]. rewrite !lanes_of_cons in H.
    assert (E : decode 32 x = decode 32 y /\ lanes_of a = lanes_of b).
    { apply app_inj_length; [now rewrite !decode_length | exact H]. }
    destruct E as [E1 E2]. f_equal; [apply (decode_inj 32); try apply wf64; assumption | apply IH; assumption].
Qed.

(* two Lmers of the same capacity that satisfy the invariant and hold the same bases have the same words *)
Lemma l_abs_inj x y : l_inv x -> l_inv y -> l_size x = l_size y -> l_abs x = l_abs y -> x = y.
Proof.
  intros Ix Iy Hs H. destruct (l_inv_len x Ix) as [lx [Ex [_ Lx]]]. destruct (l_inv_len y Iy) as [ly [Ey [_ Ly]]].
  assert (Hxy : ly = lx) by (rewrite <- Lx, <- Ly; now rewrite H). rewrite Hxy in Ey.
  apply lanes_of_inj'; [apply Ix | apply Iy|].
  rewrite (l_lanes_canon x lx Ix Ex), (l_lanes_canon y lx Iy Ey), H, Hs. reflexivity.
Qed.

(* derived == : the word arrays; equal exactly when the base sequences (which carry the length) are equal *)
Theorem l_eq_iff x y : l_inv x -> l_inv y -> l_size x = l_size y -> (l_eq x y = true <-> l_abs x = l_abs y).
Proof.
  intros Ix Iy Hs. unfold l_eq. split.
  - destruct (nlist_cmp x y) eqn:E; try discriminate. apply nlist_cmp_eq' in E. now subst.
  - intro H. rewrite (l_abs_inj x y Ix Iy Hs H). now rewrite (proj2 (nlist_cmp_eq' y y) eq_refl).
Qed.
Theorem l_hash_feed_inj x y : l_inv x -> l_inv y -> l_size x = l_size y ->
  (l_hash_feed x = l_hash_feed y <-> l_abs x = l_abs y).
Proof.
  intros Ix Iy Hs. unfold l_hash_feed. split; [now intros -> | now apply l_abs_inj].
Qed.
(* same bases, different lengths: never equal (the length is part of l_abs) *)
Corollary l_eq_len x y lx ly : l_inv x -> l_inv y -> l_size x = l_size y -> l_len x = Some lx -> l_len y = Some ly ->
  l_eq x y = true -> lx = ly.
Proof.
  intros Ix Iy Hs Ex Ey H. apply (l_eq_iff x y Ix Iy Hs) in H.
  rewrite <- (l_abs_length x lx Ix Ex), <- (l_abs_length y ly Iy Ey). now rewrite H.
Qed.
