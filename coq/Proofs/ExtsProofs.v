(* C12 (extension sets): every method of Exts, exhaustively over all 256 values (x 2 directions x 4 bases),
   lifted from vm_compute by forallb_forall.  The domain is genuinely finite. *)
From Coq Require Import NArith List Bool Arith Lia.
From DBG Require Import Spec.Dna Packed.ExtsModel.
Import ListNotations.
Open Scope N_scope.

Definition all_exts : list N := map N.of_nat (seq 0 256).
Lemma in_all_exts e : e < 256 -> In e all_exts.
Proof. intro H. unfold all_exts. rewrite <- (N2Nat.id e). apply in_map. apply in_seq. lia. Qed.
Definition bases4 : list N := [0; 1; 2; 3].
Lemma in_bases4 b : b < 4 -> In b bases4.
Proof. intro H. destruct b as [|[[p|p|]|[p|p|]|]]; cbn; auto 6; lia. Qed.
Definition nlist_eqb (a b : list N) : bool := dna_eqb a b.
Lemma nlist_eqb_eq a b : nlist_eqb a b = true -> a = b.
Proof.
  unfold nlist_eqb, dna_eqb. revert b; induction a as [|x a IH]; destruct b as [|y b]; cbn; try discriminate; auto.
  destruct (N.compare_spec x y); try discriminate. subst. intro H. f_equal. auto.
Qed.

Ltac sweep1 E e He := rewrite forallb_forall in E; specialize (E e (in_all_exts e He)).

(* get(dir) lists exactly the set bits of the nibble, ascending *)
Theorem get_spec e : e < 256 -> e_get e false = exts_left e /\ e_get e true = exts_right e.
Proof.
  intro He. assert (E : forallb (fun e => nlist_eqb (e_get e false) (exts_left e) && nlist_eqb (e_get e true) (exts_right e)) all_exts = true) by (vm_compute; reflexivity).
  sweep1 E e He. apply andb_prop in E as [E1 E2]. split; now apply nlist_eqb_eq.
Qed.
Theorem has_ext_spec e dir b : e < 256 -> b < 4 ->
  e_has_ext e dir b = existsb (N.eqb b) (if dir then exts_right e else exts_left e).
Proof.
  intros He Hb.
  assert (E : forallb (fun e => forallb (fun b => Bool.eqb (e_has_ext e false b) (existsb (N.eqb b) (exts_left e)) &&
                                                   Bool.eqb (e_has_ext e true b) (existsb (N.eqb b) (exts_right e))) bases4) all_exts = true) by (vm_compute; reflexivity).
  sweep1 E e He. rewrite forallb_forall in E. specialize (E b (in_bases4 b Hb)). apply andb_prop in E as [E1 E2].
  destruct dir; apply eqb_prop; assumption.
Qed.
(* reverse complement: sides swapped, bases complemented; an involution *)
Theorem rc_spec e : e < 256 -> e_rc e < 256 /\
  exts_left (e_rc e) = rev (map comp (exts_right e)) /\ exts_right (e_rc e) = rev (map comp (exts_left e)).
Proof.
  intro He. assert (E : forallb (fun e => (e_rc e <? 256) && nlist_eqb (exts_left (e_rc e)) (rev (map comp (exts_right e)))
                                          && nlist_eqb (exts_right (e_rc e)) (rev (map comp (exts_left e)))) all_exts = true) by (vm_compute; reflexivity).
  sweep1 E e He. apply andb_prop in E as [E E3]. apply andb_prop in E as [E1 E2].
  split; [now apply N.ltb_lt|]. split; now apply nlist_eqb_eq.
Qed.
Theorem rc_involutive e : e < 256 -> e_rc (e_rc e) = e.
Proof.
  intro He. assert (E : forallb (fun e => e_rc (e_rc e) =? e) all_exts = true) by (vm_compute; reflexivity).
  sweep1 E e He. now apply N.eqb_eq.
Qed.
Theorem complement_reverse_spec e : e < 256 ->
  exts_left (e_complement e) = rev (map comp (exts_left e)) /\ exts_right (e_complement e) = rev (map comp (exts_right e)) /\
  exts_left (e_reverse e) = exts_right e /\ exts_right (e_reverse e) = exts_left e.
Proof.
  intro He. assert (E : forallb (fun e => nlist_eqb (exts_left (e_complement e)) (rev (map comp (exts_left e))) &&
      nlist_eqb (exts_right (e_complement e)) (rev (map comp (exts_right e))) &&
      nlist_eqb (exts_left (e_reverse e)) (exts_right e) && nlist_eqb (exts_right (e_reverse e)) (exts_left e)) all_exts = true) by (vm_compute; reflexivity).
  sweep1 E e He. apply andb_prop in E as [E E4]. apply andb_prop in E as [E E3]. apply andb_prop in E as [E1 E2].
  repeat split; now apply nlist_eqb_eq.
Qed.
(* set adds exactly one base on one side *)
Theorem set_spec e dir b : e < 256 -> b < 4 -> exists r, e_set e dir b = Some r /\ r < 256 /\
  (forall d c, c < 4 -> e_has_ext r d c = e_has_ext e d c || (Bool.eqb d dir && (c =? b))).
Proof.
  intros He Hb.
  assert (E : forallb (fun e => forallb (fun b => forallb (fun dir =>
     match e_set e dir b with
     | Some r => (r <? 256) && forallb (fun d => forallb (fun c => Bool.eqb (e_has_ext r d c) (e_has_ext e d c || (Bool.eqb d dir && (c =? b)))) bases4) [false; true]
     | None => false end) [false; true]) bases4) all_exts = true) by (vm_compute; reflexivity).
  sweep1 E e He. rewrite forallb_forall in E. specialize (E b (in_bases4 b Hb)).
  rewrite forallb_forall in E. specialize (E dir ltac:(destruct dir; cbn; auto)).
  destruct (e_set e dir b) as [r|]; [|discriminate]. exists r. split; [reflexivity|].
  apply andb_prop in E as [E1 E2]. split; [now apply N.ltb_lt|]. intros d c Hc.
  rewrite forallb_forall in E2. specialize (E2 d ltac:(destruct d; cbn; auto)).
  rewrite forallb_forall in E2. specialize (E2 c (in_bases4 c Hc)). now apply eqb_prop.
Qed.
(* merge / from_single_dirs / single_dir / add *)
Theorem merge_spec l r : l < 256 -> r < 256 ->
  exts_left (e_merge l r) = exts_left l /\ exts_right (e_merge l r) = exts_right r /\ e_merge l r < 256.
Proof.
  intros Hl Hr.
  assert (E : forallb (fun l => forallb (fun r => nlist_eqb (exts_left (e_merge l r)) (exts_left l) &&
       nlist_eqb (exts_right (e_merge l r)) (exts_right r) && (e_merge l r <? 256)) all_exts) all_exts = true) by (vm_compute; reflexivity).
  sweep1 E l Hl. rewrite forallb_forall in E. specialize (E r (in_all_exts r Hr)).
  apply andb_prop in E as [E E3]. apply andb_prop in E as [E1 E2].
  split; [now apply nlist_eqb_eq|]. split; [now apply nlist_eqb_eq | now apply N.ltb_lt].
Qed.
Theorem single_dirs_spec e : e < 256 ->
  exts_left (e_single_dir e false) = exts_left e /\ exts_right (e_single_dir e false) = [] /\
  exts_left (e_single_dir e true) = exts_right e /\ exts_right (e_single_dir e true) = [] /\
  forall f, f < 256 ->
    exts_left (e_from_single_dirs e f) = exts_left e /\ exts_right (e_from_single_dirs e f) = exts_left f /\
    exts_left (e_add e f) = filter (fun b => existsb (N.eqb b) (exts_left e) || existsb (N.eqb b) (exts_left f)) bases4 /\
    exts_right (e_add e f) = filter (fun b => existsb (N.eqb b) (exts_right e) || existsb (N.eqb b) (exts_right f)) bases4.
Proof.
  intro He.
  assert (E : forallb (fun e => nlist_eqb (exts_left (e_single_dir e false)) (exts_left e) && nlist_eqb (exts_right (e_single_dir e false)) [] &&
       nlist_eqb (exts_left (e_single_dir e true)) (exts_right e) && nlist_eqb (exts_right (e_single_dir e true)) [] &&
       forallb (fun f => nlist_eqb (exts_left (e_from_single_dirs e f)) (exts_left e) && nlist_eqb (exts_right (e_from_single_dirs e f)) (exts_left f) &&
          nlist_eqb (exts_left (e_add e f)) (filter (fun b => existsb (N.eqb b) (exts_left e) || existsb (N.eqb b) (exts_left f)) bases4) &&
          nlist_eqb (exts_right (e_add e f)) (filter (fun b => existsb (N.eqb b) (exts_right e) || existsb (N.eqb b) (exts_right f)) bases4)) all_exts) all_exts = true) by (vm_compute; reflexivity).
  sweep1 E e He. apply andb_prop in E as [E E5]. apply andb_prop in E as [E E4]. apply andb_prop in E as [E E3]. apply andb_prop in E as [E1 E2].
  repeat (split; [now apply nlist_eqb_eq|]). intros f Hf. rewrite forallb_forall in E5. specialize (E5 f (in_all_exts f Hf)).
  apply andb_prop in E5 as [E5 E9]. apply andb_prop in E5 as [E5 E8]. apply andb_prop in E5 as [E6 E7].
  repeat split; now apply nlist_eqb_eq.
Qed.
(* counting and unique extension *)
Theorem num_ext_spec e dir : e < 256 ->
  e_num_ext_dir e dir = N.of_nat (length (if dir then exts_right e else exts_left e)) /\
  e_get_unique_extension e dir = match (if dir then exts_right e else exts_left e) with [b] => Some b | _ => None end.
Proof.
  intro He.
  assert (E : forallb (fun e => forallb (fun dir =>
     (e_num_ext_dir e dir =? N.of_nat (length (if dir then exts_right e else exts_left e))) &&
     match e_get_unique_extension e dir, (match (if dir then exts_right e else exts_left e) with [b] => Some b | _ => None end) with
     | Some a, Some b => a =? b | None, None => true | _, _ => false end) [false; true]) all_exts = true) by (vm_compute; reflexivity).
  sweep1 E e He. rewrite forallb_forall in E. specialize (E dir ltac:(destruct dir; cbn; auto)).
  apply andb_prop in E as [E1 E2]. split; [now apply N.eqb_eq|].
  destruct (e_get_unique_extension e dir) as [a|], (match (if dir then exts_right e else exts_left e) with [b] => Some b | _ => None end) as [b|];
    try discriminate; auto. apply N.eqb_eq in E2. now subst.
Qed.
Theorem mk_spec l r : l < 4 -> r < 4 -> exists e, e_mk l r = Some e /\ e < 256 /\ exts_left e = [l] /\ exts_right e = [r].
Proof.
  intros Hl Hr.
  assert (E : forallb (fun l => forallb (fun r => match e_mk l r with
      | Some e => (e <? 256) && nlist_eqb (exts_left e) [l] && nlist_eqb (exts_right e) [r] | None => false end) bases4) bases4 = true) by (vm_compute; reflexivity).
  rewrite forallb_forall in E. specialize (E l (in_bases4 l Hl)). rewrite forallb_forall in E. specialize (E r (in_bases4 r Hr)).
  destruct (e_mk l r) as [e|]; [|discriminate]. exists e. split; [reflexivity|].
  apply andb_prop in E as [E E3]. apply andb_prop in E as [E1 E2].
  split; [now apply N.ltb_lt|]. split; now apply nlist_eqb_eq.
Qed.
