(* e2e, table level: the table that [table_of] (filter_kmers with CountFilterSet on the whole reads, sort, pruning when
   the threshold exceeds 1, reordering by the observed hash order) hands to the compressor, described on Layer S
   ([tbl_spec]): its keys are the retained k-mers, the payload of key k is (colour of k, [rank k]) and the extension
   bit (d, b) of k is set iff the (K+1)-mer k.b / b.k occurs in a read in the orientation in which the observation is
   stored and its other k-mer is retained. *)
From Coq Require Import NArith List Bool Arith Lia Permutation Sorting.Sorted.
From DBG Require Import Spec.Dna Spec.GraphIndex Spec.Unitig Spec.CompressSpec Packed.ExtsModel Packed.ExtsMini Algo.Compress
  Algo.KmerHist Algo.Filter Algo.GraphModel Algo.Pipeline Check.GraphCheck Check.PipelineCheck
  Proofs.ListFacts Proofs.DnaFacts Proofs.KmerAlgebra Proofs.ExtsProofs Proofs.ExtsWalk Proofs.FilterProofs Proofs.FilterSumm
  Proofs.FilterRc Proofs.ShardProofs Proofs.CompressRefine Proofs.CompressWalk Proofs.CompressGraphOk Proofs.UnitigUnique
  Proofs.PruneProofs Proofs.PipelineCheckProofs Proofs.TableSpecProofs Proofs.E2eDefs Proofs.E2eSym Proofs.E2eGraph Proofs.E2eObs.
Import ListNotations.
Local Open Scope nat_scope.

(* ---- the specification of the table ---- *)
Definition ext_spec (K : nat) (st : bool) (thr : N) (lreads : list lread) (k : dna) (d : dir) (b : N) : Prop :=
  ((kpal st k = false /\ In (lk k d b) (wins K lreads)) \/ (st = false /\ In (rc (lk k d b)) (wins K lreads))) /\
  In (cn st (extend k b d)) (retained K st thr (map fst lreads)).
Record tbl_spec (K : nat) (st : bool) (thr : N) (lreads : list lread) (T : table pay) : Prop := {
  ts_keys : Permutation (keys pay T) (retained K st thr (map fst lreads));
  ts_lt : forall ent, In ent T -> (e_exts pay ent < 256)%N;
  ts_data : forall ent, In ent T -> e_data pay ent = (kmer_colour K st lreads (e_key pay ent), [rank (e_key pay ent)]);
  ts_exts : forall ent d b, In ent T -> (b < 4)%N ->
    (e_has_ext (e_exts pay ent) (dirb d) b = true <-> ext_spec K st thr lreads (e_key pay ent) d b) }.

Lemma tbl_spec_perm K st thr lreads T T' : Permutation T T' -> tbl_spec K st thr lreads T -> tbl_spec K st thr lreads T'.
Proof.
  intros P [H1 H2 H3 H4]. assert (P' : forall e, In e T' -> In e T) by (intros e; apply Permutation_in; now symmetry).
  constructor; auto.
  - rewrite <- H1. unfold keys. apply Permutation_map. now symmetry.
Qed.

(* ---- the reference grouping, entry by entry ---- *)
Section Ref.
Context {DS : Type}.
Variable summarize : list (@obs N) -> bool * N * DS.
Variable ra : bool.
Lemma reference_obs_fst (os : list (@obs N)) :
  fst (reference_obs summarize ra os) =
  map (fun k => (k, snd (fst (summarize (obs_of os k))), snd (summarize (obs_of os k))))
      (filter (fun k => fst (fst (summarize (obs_of os k)))) (ref_keys os)).
Proof.
  unfold reference_obs. induction (ref_keys os) as [|k r IH]; [reflexivity|].
  cbn [map out_concat fold_right filter]. fold (out_concat (map (fun k0 => do_group summarize ra (k0, obs_of os k0)) r)).
  unfold out_app at 1. cbn [fst]. rewrite IH. unfold do_group. cbn [fst snd].
  destruct (fst (fst (summarize (obs_of os k)))); reflexivity.
Qed.
End Ref.

(* ---- bit masks ---- *)
Lemma fold_lor_bits {A} (f : A -> N) (l : list A) j : forall m,
  N.testbit (fold_left (fun m x => N.lor m (f x)) l m) j = N.testbit m j || existsb (fun x => N.testbit (f x) j) l.
Proof.
  induction l as [|x r IH]; intro m; cbn [fold_left existsb]; [now rewrite orb_false_r|].
  rewrite IH, N.lor_spec. now rewrite orb_assoc.
Qed.
Lemma fold_cond_lor_bits {A} (c : A -> bool) (f : A -> N) (l : list A) j : forall m,
  N.testbit (fold_left (fun m x => if c x then N.lor m (f x) else m) l m) j =
  N.testbit m j || existsb (fun x => c x && N.testbit (f x) j) l.
Proof.
  induction l as [|x r IH]; intro m; cbn [fold_left existsb]; [now rewrite orb_false_r|].
  rewrite IH. destruct (c x); cbn [andb orb]; [|reflexivity]. rewrite N.lor_spec. now rewrite orb_assoc.
Qed.
Lemma fold_ex_add_lt (items : list (@obs N)) : (forall o, In o items -> (Filter.oexts o < 256)%N) -> forall acc, (acc < 256)%N ->
  (fold_left (fun acc it => ex_add acc (Filter.oexts it)) items acc < 256)%N.
Proof.
  induction items as [|x r IH]; intros H acc Ha; [exact Ha|]. cbn [fold_left]. apply IH.
  - intros o Ho. apply H. now right.
  - apply ex_add_lt; [exact Ha | apply H; now left].
Qed.

Section Table.
Variable K : nat.
Variable st : bool.
Variable thr : N.
Variable lreads : list lread.
Hypothesis HK : 1 <= K.
Hypothesis Hwf : Forall (fun r => wf_dna (fst r)) lreads.
Local Notation os := (obs_all K st lreads).
Local Notation reads := (map fst lreads).
Local Notation ret := (retained K st thr reads).

(* ---- keys ---- *)
Lemma read_kmers_in x : In x (read_kmers K st reads) <-> exists r i, In r lreads /\ i + K <= length (fst r) /\ x = cn st (kmer_at K (fst r) i).
Proof.
  unfold read_kmers. rewrite in_flat_map. split.
  - intros [sq [Hs Hx]]. apply in_map_iff in Hs as [r [<- Hr]]. apply in_map_iff in Hx as [w [<- Hw]].
    apply kmers_in in Hw as [i [Hi ->]]. eauto.
  - intros (r & i & Hr & Hi & ->). exists (fst r). split; [now apply in_map|]. apply in_map. now apply in_kmers_at_.
Qed.
Lemma cn_idem x : wf_dna x -> cn st (cn st x) = cn st x.
Proof.
  intro W. unfold cn. destruct st; [reflexivity|]. destruct (canon_choice x) as [E|E]; rewrite E; [exact E|].
  rewrite canon_rc by exact W. exact E.
Qed.
Lemma cn_wf x : wf_dna x -> wf_dna (cn st x).
Proof. intro W. unfold cn. destruct st; [exact W|]. destruct (canon_choice x) as [E|E]; rewrite E; [exact W | apply rc_wf]. Qed.
Lemma cn_length x : length (cn st x) = length x.
Proof. unfold cn. destruct st; [reflexivity|]. destruct (canon_choice x) as [E|E]; rewrite E; [reflexivity | apply rc_length]. Qed.
Lemma read_kmer_ok x : In x (read_kmers K st reads) -> length x = K /\ wf_dna x /\ cn st x = x.
Proof.
  intro H. apply read_kmers_in in H as (r & i & Hr & Hi & ->). destruct (kmer_at_ok K _ i (read_wf lreads Hwf r Hr) Hi) as [L W].
  split; [now rewrite cn_length|]. split; [now apply cn_wf | now apply cn_idem].
Qed.
Lemma ret_ok x : In x ret -> length x = K /\ wf_dna x /\ cn st x = x /\ is_retained K st thr reads x = true.
Proof. intro H. apply retained_in in H as [H1 H2]. destruct (read_kmer_ok x H1) as (A & B & C). auto. Qed.
Lemma key_can x : cn st x = x -> st = false -> canon x = x.
Proof. intros H Hs. unfold cn in H. now rewrite Hs in H. Qed.

(* when nothing is censored every observed k-mer is retained *)
Lemma low_thr_retained x : (thr <= 1)%N -> In x (read_kmers K st reads) -> In x ret.
Proof.
  intros Ht Hx. apply retained_in. split; [exact Hx|]. unfold is_retained, occurrences. apply N.leb_le.
  assert (Hin : In x (filter (dna_eqb x) (read_kmers K st reads))) by (apply filter_In; split; [exact Hx | now apply dna_eqb_eq]).
  destruct (filter (dna_eqb x) (read_kmers K st reads)); [destruct Hin|]. cbn [length]. lia.
Qed.
(* the two k-mers of a window of a read are k-mers of the read *)
Lemma win_kmers v : In v (wins K lreads) ->
  length v = S K /\ wf_dna v /\ In (cn st (firstn K v)) (read_kmers K st reads) /\ In (cn st (skipn 1 v)) (read_kmers K st reads).
Proof.
  intro H. apply in_wins in H as [r [Hr Hv]]. apply kmers_in in Hv as [q [Hq ->]]. pose proof (read_wf lreads Hwf r Hr) as W.
  destruct (kmer_at_ok (S K) _ q W Hq) as [L Wv]. split; [exact L|]. split; [exact Wv|]. split; apply read_kmers_in; exists r.
  - exists q. split; [exact Hr|]. split; [lia|]. f_equal. rewrite kmer_at_S_snoc by exact Hq.
    apply firstn_app_exact. unfold kmer_at. symmetry. apply sub_length. lia.
  - exists (S q). split; [exact Hr|]. split; [lia|]. f_equal. rewrite kmer_at_S_cons by exact Hq. reflexivity.
Qed.
Lemma lk_kmers x d b : length x = K ->
  (firstn K (lk x d b) = x /\ skipn 1 (lk x d b) = extend x b d) \/ (firstn K (lk x d b) = extend x b d /\ skipn 1 (lk x d b) = x).
Proof.
  intro L. assert (N0 : x <> []) by (intro E; rewrite E in L; cbn in L; lia).
  pose proof (lk_first x d b N0) as F. pose proof (lk_second x d b N0) as G. rewrite L in F. destruct d; [right | left]; auto.
Qed.
(* the other k-mer of an observed link is an observed k-mer *)
Lemma link_other_observed k d b : wf_dna k -> length k = K -> (b < 4)%N ->
  In (lk k d b) (wins K lreads) \/ (st = false /\ In (rc (lk k d b)) (wins K lreads)) ->
  In (cn st (extend k b d)) (read_kmers K st reads).
Proof.
  intros Wk Lk Hb [H|[Hs H]].
  - destruct (win_kmers _ H) as (_ & _ & H1 & H2). destruct (lk_kmers k d b Lk) as [[E1 E2]|[E1 E2]]; congruence.
  - rewrite rc_lk in H. destruct (win_kmers _ H) as (_ & _ & H1 & H2).
    assert (Nk : k <> []) by (intro E; rewrite E in Lk; cbn in Lk; lia).
    assert (E : cn st (extend (rc k) (comp b) (dflip d)) = cn st (extend k b d)).
    { rewrite <- rc_extend by exact Nk. apply cn_rc_; auto. now apply extend_wf. }
    rewrite <- E. destruct (lk_kmers (rc k) (dflip d) (comp b) ltac:(now rewrite rc_length)) as [[E1 E2]|[E1 E2]]; congruence.
Qed.

(* ---- colours ---- *)
Lemma colour_eq k : colour_of (dedup_by N.eqb (sort_by N.leb (map olabel (obs_of os k)))) = kmer_colour K st lreads k.
Proof.
  apply N.bits_inj. intro j. unfold colour_of, kmer_colour. rewrite fold_lor_bits, fold_cond_lor_bits, N.bits_0. cbn [orb].
  apply eq_true_iff_eq. rewrite !existsb_exists. split.
  - intros (x & Hx & Hj). apply (proj1 (proj2 (sort_dedupN_spec (map olabel (obs_of os k))) x)) in Hx. apply in_map_iff in Hx as (o & <- & Ho).
    unfold obs_of in Ho. apply filter_In in Ho as [Ho Ek]. apply dna_eqb_eq in Ek.
    apply in_obs_all in Ho as (r & i & Hr & Hi & ->); [|exact HK]. exists r. split; [exact Hr|]. unfold olabel in Hj. cbn [snd] in Hj.
    rewrite Hj, andb_true_r. apply existsb_exists. exists (kmer_at K (fst r) i). split; [now apply in_kmers_at_|].
    apply dna_eqb_eq. rewrite <- Ek. unfold key. cbn [fst]. symmetry. apply key_canon_obs.
  - intros (r & Hr & Hj). apply andb_true_iff in Hj as [Hc Hj]. apply existsb_exists in Hc as (w & Hw & Ew).
    apply dna_eqb_eq in Ew. apply kmers_in in Hw as [i [Hi ->]]. exists (snd r). split; [|exact Hj].
    apply (proj2 (proj2 (sort_dedupN_spec (map olabel (obs_of os k))) (snd r))). apply in_map_iff. exists (canon_obs st (item K (fst r) i), snd r). split; [reflexivity|].
    unfold obs_of. apply filter_In. split; [apply in_obs_all; [exact HK|]; exists r, i; auto|].
    apply dna_eqb_eq. unfold key. cbn [fst]. rewrite key_canon_obs. exact Ew.
Qed.

(* ---- the extension byte of a group ---- *)
Lemma union_lt k : (union_exts (obs_of os k) < 256)%N.
Proof.
  unfold union_exts. apply fold_ex_add_lt; [|lia]. intros o Ho. unfold obs_of in Ho. apply filter_In in Ho as [Ho _].
  now apply (obs_exts_lt K st lreads HK Hwf).
Qed.
Lemma union_has k (dir : bool) b : (b < 4)%N ->
  (e_has_ext (union_exts (obs_of os k)) dir b = true <->
   exists o, In o os /\ key o = k /\ e_has_ext (Filter.oexts o) dir b = true).
Proof.
  intro Hb. rewrite (has_ext_testbit _ dir b (union_lt k) Hb), union_exts_spec, existsb_exists. split.
  - intros (o & Ho & Ht). unfold obs_of in Ho. apply filter_In in Ho as [Ho Ek]. apply dna_eqb_eq in Ek.
    exists o. repeat split; auto. rewrite has_ext_testbit; auto. now apply (obs_exts_lt K st lreads HK Hwf).
  - intros (o & Ho & Ek & Hh). exists o. split; [unfold obs_of; apply filter_In; split; [exact Ho | now apply dna_eqb_eq]|].
    rewrite has_ext_testbit in Hh; auto. now apply (obs_exts_lt K st lreads HK Hwf).
Qed.

(* ---- the raw table: to_entry of the reference grouping ---- *)
Definition raw_entry (k : dna) : entry pay :=
  (k, union_exts (obs_of os k), (colour_of (dedup_by N.eqb (sort_by N.leb (map olabel (obs_of os k)))), [rank k])).
Lemma raw_table : map to_entry (fst (reference (count_filter_set thr) true K st (whole_reads lreads))) = map raw_entry ret.
Proof.
  pose proof (table_keys_retained K st thr true lreads) as Hk. unfold reference in *. fold os in Hk |- *.
  rewrite reference_obs_fst in Hk |- *. rewrite map_map in Hk. cbn [fst] in Hk. rewrite map_id in Hk. rewrite <- Hk.
  rewrite map_map. apply map_ext. intro k. reflexivity.
Qed.

Definition raw_ext_spec (k : dna) (d : dir) (b : N) : Prop :=
  (kpal st k = false /\ In (lk k d b) (wins K lreads)) \/ (st = false /\ In (rc (lk k d b)) (wins K lreads)).
Lemma raw_entry_exts k d b : In k ret -> (b < 4)%N ->
  (e_has_ext (union_exts (obs_of os k)) (dirb d) b = true <-> raw_ext_spec k d b).
Proof.
  intros Hk Hb. destruct (ret_ok k Hk) as (_ & Wk & Ck & _). rewrite (union_has k (dirb d) b Hb).
  exact (obs_has K st lreads HK Hwf k d b Wk (key_can k Ck) Hb).
Qed.
Lemma raw_spec_observed k d b : In k ret -> (b < 4)%N -> raw_ext_spec k d b -> In (cn st (extend k b d)) (read_kmers K st reads).
Proof.
  intros Hk Hb H. destruct (ret_ok k Hk) as (Lk & Wk & _). apply link_other_observed; auto. destruct H as [[_ H]|H]; auto.
Qed.

(* ---- sort, prune, reorder ---- *)
Lemma reorder_perm (T2 T : table pay) order : NoDup order -> reorder T2 order = Some T -> Permutation T T2.
Proof.
  unfold reorder. destruct (Nat.eqb (length order) (length T2)) eqn:El; [|discriminate]. apply Nat.eqb_eq in El.
  intros Hnd H.
  assert (G : forall (l : list dna) (R : table pay), omap_ (get_entry pay T2) l = Some R ->
            map (e_key pay) R = l /\ forall e, In e R -> In e T2).
  { induction l as [|k l IH]; intros R HR; cbn [omap_] in HR.
    - injection HR as <-. split; [reflexivity | intros e []].
    - destruct (get_entry pay T2 k) as [e|] eqn:Eg; [|discriminate]. destruct (omap_ (get_entry pay T2) l) as [R'|]; [|discriminate].
      injection HR as <-. destruct (IH R' eq_refl) as [I1 I2]. destruct (get_entry_Some pay T2 _ _ Eg) as [Hin Hk].
      split; [cbn [map]; now rewrite Hk, I1|]. intros e' [<-|He']; auto. }
  destruct (G order T H) as [G1 G2].
  apply NoDup_Permutation_bis.
  - apply (NoDup_map_inv (e_key pay)). now rewrite G1.
  - rewrite <- (map_length (e_key pay) T), G1. lia.
  - exact G2.
Qed.
Lemma omap_total {A B} (f : A -> option B) (l : list A) : (forall x, In x l -> f x <> None) -> exists R, omap_ f l = Some R.
Proof.
  induction l as [|x l IH]; intro H; [now exists []|]. cbn [omap_].
  destruct (f x) as [y|] eqn:E; [|exfalso; apply (H x (or_introl eq_refl)); exact E].
  destruct IH as [R HR]; [intros z Hz; apply H; now right|]. rewrite HR. eauto.
Qed.

Lemma prune_keys (T1 : table pay) : keys pay (remove_censored_exts pay st T1) = keys pay T1.
Proof. unfold remove_censored_exts, keys. rewrite map_map. reflexivity. Qed.

(* the table before reordering *)
Definition pre_table : table pay :=
  let T1 := sort_entries (map raw_entry ret) in if (1 <? thr)%N then remove_censored_exts pay st T1 else T1.

Lemma sort_entries_perm T0 : Permutation (sort_entries T0) T0.
Proof. unfold sort_entries. apply sort_by_perm. Qed.
Lemma raw_keys : keys pay (map raw_entry ret) = ret.
Proof. unfold keys. rewrite map_map. cbn [e_key fst]. apply map_id. Qed.

Theorem pre_table_spec : tbl_spec K st thr lreads pre_table.
Proof.
  unfold pre_table. set (T1 := sort_entries (map raw_entry ret)).
  assert (P1 : Permutation T1 (map raw_entry ret)) by apply sort_entries_perm.
  assert (K1 : Permutation (keys pay T1) ret) by (rewrite <- raw_keys; unfold keys; now apply Permutation_map).
  assert (E1 : forall e, In e T1 -> exists k, In k ret /\ e = raw_entry k).
  { intros e He. apply (Permutation_in _ P1) in He. apply in_map_iff in He as [k [<- Hk]]. eauto. }
  destruct (1 <? thr)%N eqn:Et.
  - constructor.
    + now rewrite prune_keys.
    + intros ent He. unfold remove_censored_exts in He. apply in_map_iff in He as [e [<- He]]. cbn [e_exts fst snd].
      apply prune_exts_exact.
    + intros ent He. unfold remove_censored_exts in He. apply in_map_iff in He as [e [<- He]].
      destruct (E1 e He) as [k [Hk ->]]. unfold raw_entry. cbn [e_data e_key fst snd]. now rewrite colour_eq.
    + intros ent d b He Hb. unfold remove_censored_exts in He. apply in_map_iff in He as [e [<- He]].
      destruct (E1 e He) as [k [Hk ->]]. unfold raw_entry. cbn [e_exts e_key fst snd].
      rewrite (proj2 (prune_exts_exact st _ k _) d b Hb), andb_true_iff, key_in_iff, (raw_entry_exts k d b Hk Hb).
      unfold ext_spec. fold (raw_ext_spec k d b). change (canon_s st (extend k b d)) with (cn st (extend k b d)).
      split; intros [A B]; (split; [exact A|]).
      * eapply Permutation_in; [exact K1 | exact B].
      * eapply Permutation_in; [symmetry; exact K1 | exact B].
  - apply N.ltb_ge in Et. constructor.
    + exact K1.
    + intros ent He. destruct (E1 ent He) as [k [Hk ->]]. apply union_lt.
    + intros ent He. destruct (E1 ent He) as [k [Hk ->]]. unfold raw_entry. cbn [e_data e_key fst snd]. now rewrite colour_eq.
    + intros ent d b He Hb. destruct (E1 ent He) as [k [Hk ->]]. unfold raw_entry. cbn [e_exts e_key fst snd].
      rewrite (raw_entry_exts k d b Hk Hb). unfold ext_spec. fold (raw_ext_spec k d b). split; [|tauto].
      intro A. split; [exact A|]. apply low_thr_retained; [exact Et|]. now apply raw_spec_observed.
Qed.
End Table.

(* ---- table_of ---- *)
Lemma filter_set_whole K st thr (lreads : list lread) : 4 <= K -> Forall (fun r => wf_dna (fst r)) lreads ->
  filter_set K st thr (whole_reads lreads) =
  Some (map to_entry (fst (reference (count_filter_set thr) true K st (whole_reads lreads))),
        snd (reference (count_filter_set thr) true K st (whole_reads lreads))).
Proof.
  intros HK Hwf. unfold filter_set.
  assert (OK : reads_ok (whole_reads lreads)).
  { unfold reads_ok, whole_reads. apply Forall_forall. intros r3 H. apply in_map_iff in H as [r [<- Hr]]. cbn [fst].
    rewrite Forall_forall in Hwf. now apply Hwf. }
  destruct (filter_spec (count_filter_set thr) true K st 16%N 1%N 0%N (whole_reads lreads) HK ltac:(vm_compute; discriminate) OK) as [p [E _]].
  rewrite E. reflexivity.
Qed.

Lemma table_of_pre K st thr (lreads : list lread) order : 4 <= K -> Forall (fun r => wf_dna (fst r)) lreads ->
  table_of K st thr (if (1 <? thr)%N then 1%N else 0%N) (whole_reads lreads) order = reorder (pre_table K st thr lreads) order.
Proof.
  intros HK Hwf. unfold table_of. rewrite (filter_set_whole K st thr lreads HK Hwf), raw_table. unfold pre_table. cbv zeta.
  destruct (1 <? thr)%N; reflexivity.
Qed.

Theorem table_of_spec K st thr (lreads : list lread) order T : 4 <= K -> Forall (fun r => wf_dna (fst r)) lreads ->
  NoDup order ->
  table_of K st thr (if (1 <? thr)%N then 1%N else 0%N) (whole_reads lreads) order = Some T ->
  tbl_spec K st thr lreads T.
Proof.
  intros HK Hwf Hnd H. rewrite (table_of_pre K st thr lreads order HK Hwf) in H.
  apply (tbl_spec_perm K st thr lreads (pre_table K st thr lreads) T).
  - symmetry. eapply reorder_perm; eauto.
  - apply pre_table_spec; auto. lia.
Qed.

Theorem table_of_total K st thr (lreads : list lread) order : 4 <= K -> Forall (fun r => wf_dna (fst r)) lreads ->
  Permutation order (retained K st thr (map fst lreads)) ->
  exists T, table_of K st thr (if (1 <? thr)%N then 1%N else 0%N) (whole_reads lreads) order = Some T.
Proof.
  intros HK Hwf P. rewrite (table_of_pre K st thr lreads order HK Hwf).
  destruct (pre_table_spec K st thr lreads ltac:(lia) Hwf) as [Hk _ _ _].
  unfold reorder. assert (El : length order = length (pre_table K st thr lreads)).
  { rewrite (Permutation_length P), <- (Permutation_length Hk). unfold keys. now rewrite map_length. }
  rewrite (proj2 (Nat.eqb_eq _ _) El). apply omap_total. intros k Hk'.
  assert (Hin : In k (keys pay (pre_table K st thr lreads))).
  { eapply Permutation_in; [symmetry; exact Hk|]. eapply Permutation_in; [exact P | exact Hk']. }
  unfold keys in Hin. apply in_map_iff in Hin as [e [<- He]]. destruct (In_nth_error _ _ He) as [i Hi].
  unfold get_entry. intro Hn. destruct (get_id pay (pre_table K st thr lreads) (e_key pay e)) as [j|] eqn:Ej.
  - unfold get_id, end_index in Ej. apply CompressBasics.index_where_Some in Ej. destruct Ej as (x & Hx & _).
    rewrite nth_error_map in Hx. destruct (nth_error (pre_table K st thr lreads) j); [discriminate Hn | discriminate Hx].
  - unfold get_id, end_index in Ej. pose proof (CompressBasics.index_where_None _ _ Ej (e_key pay e)) as Hx.
    rewrite (proj2 (dna_eqb_eq _ _) eq_refl) in Hx. assert (false = true); [|discriminate]. symmetry. apply Hx. apply in_map. exact He.
Qed.
