(* C09 checkers: on the model's own output [node_path] returns the model's node paths, hence the model's output passes
   [chk_payload_order] (Check/RecompOrder.v) - under the hypothesis that no node end of the INPUT graph is the reverse
   complement of the opposite end of another node ([cross_ok] of Proofs/RecompOutEnds.v, on ALL node ids; the third
   clause of C03's [ends_ok]; void when stranded).  The hypothesis is necessary: Properties/C09Seed.v,
   C09S_chk_payload_order_needs_cross. *)
From Coq Require Import NArith List Bool Arith Lia.
From DBG Require Import Spec.Dna Spec.GraphIndex Packed.ExtsModel Algo.Compress Algo.KmerHist Algo.GraphModel
  Algo.Recompress Spec.EdgeSpec Check.RecompCheck Check.RecompLooseCheck Check.RecompOrder
  Proofs.ListFacts Proofs.DnaFacts Proofs.GraphQueryProofs Proofs.WalkProofs Proofs.AbstractWalk Proofs.SeedMin
  Proofs.RecompCheckProofs Proofs.RecompressProofs Proofs.RecompKmers Proofs.RecompExts Proofs.RecompLoose
  Proofs.RecompLooseMain Proofs.RecompOutEnds Proofs.RecompOutMain Proofs.RecompSeedMin Proofs.RecompTile.
Import ListNotations.
Local Open Scope nat_scope.

(* ---------------------------------------------------------------- node_path only reads the sequences *)
Section Seqs.
Variable D : Type.
Variable K : nat.
Variable stranded : bool.
Local Notation graph := (graph D).

Lemma oriented_len_seqs (g g' : graph) i : g_seqs D g' = g_seqs D g ->
  match nth_error g' i, nth_error g i with
  | Some n', Some n => forall t, oriented D n' t = oriented D n t
  | None, None => True
  | _, _ => False
  end.
Proof.
  intro H. pose proof (nth_seq_of_seqs D g g' i H) as E.
  destruct (nth_error g' i) as [n'|], (nth_error g i) as [n|]; cbn in E; try discriminate; auto.
  injection E as E. intro t. unfold oriented. now rewrite E.
Qed.

Lemma tile_seqs (g g' : graph) : g_seqs D g' = g_seqs D g -> forall fuel s,
  tile D K stranded fuel g' s = tile D K stranded fuel g s.
Proof.
  intro H. induction fuel as [|f IH]; intro s; [reflexivity|]. cbn [tile].
  rewrite (find_link_seqs D K stranded g g' _ _ H).
  destruct (GraphModel.find_link D K stranded g (first_kmer K s) DRight) as [[[i t] fl]|]; [|reflexivity].
  pose proof (oriented_len_seqs g g' i H) as E.
  destruct (nth_error g' i) as [n'|], (nth_error g i) as [n|]; try contradiction; [|reflexivity].
  rewrite (E t), IH. reflexivity.
Qed.

Lemma sequence_of_path_seqs (g g' : graph) p : g_seqs D g' = g_seqs D g ->
  sequence_of_path D K g' p = sequence_of_path D K g p.
Proof.
  intro H. unfold sequence_of_path. generalize true.
  induction p as [|[i d] p IH]; intro b; cbn [sequence_of_path_from]; [reflexivity|].
  rewrite IH. pose proof (oriented_len_seqs g g' i H) as E.
  destruct (nth_error g' i) as [n'|], (nth_error g i) as [n|]; try contradiction; [|reflexivity].
  now rewrite (E d).
Qed.

Lemma node_path_seqs (g g' : graph) s : g_seqs D g' = g_seqs D g ->
  node_path D K stranded g' s = node_path D K stranded g s.
Proof.
  intro H. unfold node_path. rewrite (tile_seqs g g' H).
  destruct (tile D K stranded (S (length s)) g s) as [p|]; [|reflexivity].
  now rewrite (sequence_of_path_seqs g g' p H).
Qed.
End Seqs.

(* ---------------------------------------------------------------- the elements of a node path are found *)
Section Found.
Variable D : Type.
Variable reduce : D -> D -> D.
Variable join : D -> D -> bool.
Variable K : nat.
Variable stranded : bool.
Hypothesis join_sym : forall a b, join a b = join b a.
Local Notation graph := (graph D).
Local Notation gnode := (gnode D).
Local Notation winv := (winv D K stranded).
Local Notation Linked := (Linked D join K stranded).
Local Notation oseq := (oseq D).

(* [cross_ok] on all node ids *)
Definition cross_all (g : graph) : Prop := cross_ok D K stranded g (seq 0 (length g)).

Lemma cross_all_seqs (g g' : graph) : g_seqs D g' = g_seqs D g -> cross_all g -> cross_all g'.
Proof.
  intros H C. unfold cross_all.
  assert (L : length g' = length g).
  { apply (f_equal (@length dna)) in H. unfold g_seqs in H. now rewrite !map_length in H. }
  rewrite L. now apply (cross_ok_seqs D K stranded g g').
Qed.

Lemma node_seq_nth (g : graph) i n : nth_error g i = Some n -> node_seq D g i = n_seq D n.
Proof. unfold node_seq. now intros ->. Qed.

Lemma found_elt (g : graph) S p i t n :
  winv g S -> (forall d, NoDup (ends_of K (g_seqs D g) d)) -> cross_all g ->
  Linked g p -> In (i, t) p -> nth_error g i = Some n ->
  (t = DRight -> stranded = false /\ p <> [(i, DRight)]) ->
  found D K stranded g (i, t).
Proof.
  intros W Hnd C L Hin Hn Ht.
  pose proof (node_ok_nth D K g i n (wi_ok _ _ _ _ _ W) Hn) as (Hwf & HK & _).
  assert (Hi : i < length g) by (apply nth_error_Some; congruence).
  unfold found, GraphModel.find_link, find_link_spec, find_link_ends. cbn [fst snd].
  destruct t.
  - (* forward: a direct hit on the left ends *)
    exists false. unfold EdgeSpec.oseq. cbn [fst snd]. rewrite (node_seq_nth g i n Hn).
    rewrite (end_index_unique D K g DLeft (first_kmer K (n_seq D n)) i (Hnd DLeft)); [reflexivity|].
    split; [exact Hi|]. now rewrite (node_seq_nth g i n Hn).
  - (* flipped: no left end is the reverse complement of i's right end *)
    destruct (Ht eq_refl) as [St Hne]. exists true. unfold EdgeSpec.oseq. cbn [fst snd]. rewrite (node_seq_nth g i n Hn).
    change (first_kmer K (rc (n_seq D n))) with (term_kmer K (rc (n_seq D n)) DLeft).
    rewrite term_kmer_rc by lia. cbn [dflip].
    rewrite (end_index_none_is2 D K g DLeft).
    + rewrite St. rewrite rc_involutive by (apply wf_term_kmer; exact Hwf).
      rewrite (end_index_unique D K g DRight (term_kmer K (n_seq D n) DRight) i (Hnd DRight)); [reflexivity|].
      split; [exact Hi|]. now rewrite (node_seq_nth g i n Hn).
    + intros w [Hw Ew].
      destruct (nth_error g w) as [nw|] eqn:Enw; [|apply nth_error_None in Enw; lia].
      rewrite (node_seq_nth g w nw Enw) in Ew.
      destruct (C St i w DRight n nw) as [-> Hlen]; [apply in_seq; lia | apply in_seq; lia | exact Hn | exact Enw | exact Ew |].
      assert (nw = n) by congruence. subst nw.
      (* node i is a palindromic single k-mer: it cannot be traversed flipped in a node path *)
      apply Hne. apply (pal_path_single D join K stranded g p i DRight n L Hin Hn).
      unfold RecompCheck.pal_single. rewrite St, Hlen, Nat.eqb_refl. cbn [negb andb].
      unfold is_palindrome. apply dna_eqb_eq.
      rewrite (term_kmer_single K (n_seq D n) DLeft Hlen), (term_kmer_single K (n_seq D n) DRight Hlen) in Ew.
      exact Ew.
Qed.
End Found.

(* ---------------------------------------------------------------- node_path on the model's output *)
Section Model.
Variable D : Type.
Variable reduce : D -> D -> D.
Variable join : D -> D -> bool.
Variable K : nat.
Variable stranded : bool.
Hypothesis join_sym : forall a b, join a b = join b a.
Local Notation graph := (graph D).
Local Notation gnode := (gnode D).
Local Notation winv := (winv D K stranded).
Local Notation Linked := (Linked D join K stranded).
Local Notation oseq := (oseq D).
Local Notation survivors := (survivors D).
Local Notation compress_graph_paths := (compress_graph_paths D reduce join K stranded).

Lemma chain_overlap (g : graph) : wf_graph D K g -> forall p,
  EdgeSpec.chain (EdgeSpec.step_ok D K stranded g) p -> EdgeSpec.chain (seq_overlap K) (map (oseq g) p).
Proof.
  intros Wf. induction p as [|a p IH]; intro C; [exact I|]. destruct C as [C1 C2]. cbn [map]. split; [|now apply IH].
  destruct p as [|b p]; [exact I|]. cbn [map]. now apply (step_overlap D K stranded).
Qed.

(* a node path of the walk is what node_path finds on its spelling *)
Lemma walk_node_path (g : graph) S lp seed rp s :
  winv g S -> (forall d, NoDup (ends_of K (g_seqs D g) d)) -> cross_all D K stranded g ->
  Linked g (assemble lp seed rp) -> (forall y, In y (map fst (assemble lp seed rp)) -> In y S) ->
  sequence_of_path D K g (assemble lp seed rp) = Some s ->
  node_path D K stranded g s = Some (assemble lp seed rp).
Proof.
  intros W Hnd C L HS Hs. set (p := assemble lp seed rp) in *.
  assert (Hseed : In (seed, DLeft) p) by (unfold p, assemble; apply in_or_app; right; now left).
  assert (Hid : forall x, In x p -> fst x < length g).
  { intros x Hx. apply (wi_S _ _ _ _ _ W). apply HS. now apply in_map. }
  assert (Hne : g <> []). { intro E. specialize (Hid _ Hseed). rewrite E in Hid. cbn in Hid. lia. }
  pose proof (winv_wf_graph D K stranded g S W (wi_S _ _ _ _ _ W) Hne) as Wf.
  pose proof (Linked_valid_walk D join K stranded g S p W Hid L) as [_ Hch].
  apply (node_path_complete D K stranded g p s (proj1 Wf)).
  - intro E. rewrite E in Hseed. destruct Hseed.
  - intros x Hx. split; [now apply Hid|]. apply (oseq_ok D K g x Wf). now apply Hid.
  - now apply chain_overlap.
  - intros [i t] Hx. specialize (Hid _ Hx). cbn [fst] in Hid.
    destruct (nth_error g i) as [n|] eqn:En; [|apply nth_error_None in En; lia].
    apply (found_elt D join K stranded g S p i t n W Hnd C L Hx En).
    intros ->. split.
    + destruct stranded eqn:St; [|reflexivity]. exfalso.
      pose proof (Linked_stranded D join K stranded g p) as LS. rewrite St in LS.
      specialize (LS eq_refl L _ _ Hx Hseed). discriminate LS.
    + intro E. rewrite E in Hseed. destruct Hseed as [Hq|[]]. discriminate Hq.
  - exact Hs.
Qed.

Theorem model_node_paths (g : graph) censor out paths :
  rvalid_loose D K stranded g -> cross_all D K stranded g ->
  compress_graph_paths g censor = Some (out, paths) ->
  Forall2 (fun n p => node_path D K stranded g (n_seq D n) = Some p) out paths.
Proof.
  intros V C H.
  destruct (recompress_struct_loose D reduce join K stranded join_sym g censor V) as (g1 & out' & r & Hg1 & W & Hc & Hok & Hp).
  rewrite Hc in H. injection H as <- <-.
  assert (Hseq : g_seqs D g1 = g_seqs D g) by (apply (fix_exts_seqs D K stranded g g1 _ Hg1)).
  assert (Hnd : forall d, NoDup (ends_of K (g_seqs D g1) d)).
  { rewrite Hseq. destruct V as (_ & HL & HR & _). intros [|]; assumption. }
  pose proof (cross_all_seqs D K stranded g g1 Hseq C) as C1.
  destruct Hp as (Hlen & _ & Hsp). apply Forall2_nth_intro.
  - rewrite Hlen, !map_length. reflexivity.
  - intros i n p Hn Hpi.
    destruct (nth_error r i) as [[n0 p0]|] eqn:Er.
    2:{ rewrite nth_error_map, Er in Hpi. discriminate. }
    rewrite nth_error_map, Er in Hpi. cbn in Hpi. injection Hpi as <-.
    destruct (Forall2_nth_elim _ _ _ _ _ Hok Er) as ([[lp seed] rp] & _ & Hp0 & Hb & HL & _ & HS). cbn [fst snd] in *.
    assert (Hn0 : nth_error (map fst r) i = Some n0) by (rewrite nth_error_map, Er; reflexivity).
    destruct (Hsp i n0 Hn0) as (e & He & _ & _). rewrite Hn in He. injection He as ->.
    cbn [n_seq fst snd]. fold (n_seq D n0).
    rewrite <- (node_path_seqs D K stranded g g1 _ Hseq). subst p0.
    apply (walk_node_path g1 _ lp seed rp (n_seq D n0) W Hnd C1 HL HS). apply Hb.
Qed.
End Model.

(* ---------------------------------------------------------------- the harness payload *)
Section OrderComplete.
Variable K : nat.
Variable stranded : bool.
Local Notation graph := (graph rpay).

Theorem chk_payload_order_paths (join : rpay -> rpay -> bool) (join_sym : forall a b, join a b = join b a)
  (g : graph) censor out paths :
  rvalid_loose rpay K stranded g -> cross_all rpay K stranded g ->
  compress_graph_paths rpay rpay_reduce join K stranded g censor = Some (out, paths) ->
  chk_payload_order K stranded g out = true.
Proof.
  intros V C H.
  pose proof (payload_order_model K stranded join join_sym g censor out paths V H) as H1.
  pose proof (model_node_paths rpay rpay_reduce join K stranded join_sym g censor out paths V C H) as H2.
  unfold chk_payload_order. apply forallb_forall. clear H.
  revert H2. induction H1 as [|n p out paths [_ Ho] H1 IH]; intro H2; [intros x []|].
  inversion H2 as [|? ? ? ? Hnp H2']; subst. intros x [<-|Hx]; [|now apply IH].
  rewrite chk_payload_order_node_eq, Hnp. exact Ho.
Qed.

(* the statement of the brief: the model's own output passes the checker *)
Theorem chk_payload_order_model (join : rpay -> rpay -> bool) (join_sym : forall a b, join a b = join b a)
  (g : graph) censor out :
  rvalid_loose rpay K stranded g -> cross_all rpay K stranded g ->
  compress_graph rpay rpay_reduce join K stranded g censor = Some out ->
  chk_payload_order K stranded g out = true.
Proof.
  intros V C H. unfold compress_graph in H.
  destruct (compress_graph_paths rpay rpay_reduce join K stranded g censor) as [[o paths]|] eqn:E; [|discriminate].
  cbn in H. injection H as ->. eapply chk_payload_order_paths; eauto.
Qed.
End OrderComplete.

(* ---------------------------------------------------------------- where the hypothesis holds *)
Section CrossAll.
Variable D : Type.
Variable K : nat.
Variable stranded : bool.
Local Notation graph := (graph D).

Lemma cross_all_stranded (g : graph) : stranded = true -> cross_all D K stranded g.
Proof. intro St. now apply cross_ok_stranded. Qed.

(* C03's ends_ok (checked on every implementation graph by chk_graph_ok; holds of every graph compress_kmers builds) *)
Lemma cross_all_of_ends_ok (g : graph) : ends_ok D K stranded g -> cross_all D K stranded g.
Proof. intro E. now apply ends_ok_cross_ok. Qed.

(* every canonical k-mer occurs once in the graph *)
Lemma cross_all_of_kmers (g : graph) :
  Forall (node_ok D K) g -> NoDup (surv_kmers D K stranded g (seq 0 (length g))) -> cross_all D K stranded g.
Proof. intros Hok Hnd. now apply nodup_kmers_cross_ok. Qed.
End CrossAll.
