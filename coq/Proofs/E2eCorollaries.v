(* e2e: corollaries of direct_assembly for C04 (sharded = direct), C06 (strand symmetry / separation of the direct
   pipeline) and C03 (the link set of the direct pipeline's graph = the observed adjacencies between retained k-mers). *)
From Coq Require Import NArith List Bool Arith Lia Permutation.
From DBG Require Import Spec.Dna Spec.GraphIndex Packed.ExtsModel Algo.KmerHist Algo.GraphModel Algo.Pipeline Spec.EdgeSpec
  Check.GraphCheck Check.PipelineCheck
  Proofs.ListFacts Proofs.DnaFacts Proofs.FilterProofs Proofs.PipelineCheckProofs Proofs.UnitigUnique Proofs.GraphRcProofs
  Proofs.PipelineProofs Proofs.E2eDirect.
Import ListNotations.
Local Open Scope nat_scope.

(* C04: only the sharded pipeline's output still has to be assumed to be the assembly of the reads *)
Theorem sharded_eq_direct_partial2 maxlen K P perm st thr mode variant (lreads : list lread) orders order bs gs g_s g_d :
  4 <= K -> Forall (fun r => wf_dna (fst r)) lreads -> NoDup order ->
  sharded maxlen K P perm st thr mode variant lreads orders = Some (bs, gs, g_s) ->
  direct K st thr mode 0 lreads order = Some g_d ->
  assembly_of K st thr mode lreads g_s ->
  same_assembly K st mode g_s g_d.
Proof.
  intros HK Hwf Hnd _ Hd Hs. apply (assembly_unique K st thr mode lreads); [exact Hs|].
  now apply (direct_assembly K st thr mode lreads order).
Qed.

(* C06, graph half, for the direct pipeline: reverse-complementing any subset of the reads does not change the
   assembly (whatever the two iteration orders of the hash tables) *)
Theorem graph_rc_invariant_direct K thr mode fs (lreads : list lread) order order' g g' :
  4 <= K -> Forall (fun r => wf_dna (fst r)) lreads -> NoDup order -> NoDup order' ->
  direct K false thr mode 0 lreads order = Some g ->
  direct K false thr mode 0 (flip_lreads fs lreads) order' = Some g' ->
  same_assembly K false mode g g'.
Proof.
  intros HK Hwf Hnd Hnd' Hd Hd'. apply (graph_rc_invariant_partial K thr mode fs lreads); auto.
  - now apply (direct_assembly K false thr mode lreads order).
  - apply (direct_assembly K false thr mode (flip_lreads fs lreads) order'); auto. now apply flip_wf.
Qed.
(* ... and both runs succeed for every pair of iteration orders (the two tables have the same keys) *)
Theorem graph_rc_invariant_direct_total K thr mode fs (lreads : list lread) order order' :
  4 <= K -> Forall (fun r => wf_dna (fst r)) lreads ->
  Permutation order (retained K false thr (map fst lreads)) -> Permutation order' (retained K false thr (map fst lreads)) ->
  exists g g', direct K false thr mode 0 lreads order = Some g /\
               direct K false thr mode 0 (flip_lreads fs lreads) order' = Some g' /\
               same_assembly K false mode g g'.
Proof.
  intros HK Hwf P P'.
  destruct (direct_total K false thr mode lreads order HK Hwf P) as [g Hg].
  assert (P2 : Permutation order' (retained K false thr (map fst (flip_lreads fs lreads)))) by (now rewrite retained_flip).
  destruct (direct_total K false thr mode (flip_lreads fs lreads) order' HK (flip_wf fs lreads Hwf) P2) as [g' Hg'].
  exists g, g'. split; [exact Hg|]. split; [exact Hg'|].
  apply (graph_rc_invariant_direct K thr mode fs lreads order order'); auto.
  - eapply Permutation_NoDup; [symmetry; exact P | apply retained_nodup].
  - eapply Permutation_NoDup; [symmetry; exact P' | apply retained_nodup].
Qed.
(* stranded: the graph holds exactly the forward k-mers meeting the threshold and the forward links between them *)
Theorem stranded_exact_direct K thr mode (lreads : list lread) order g :
  4 <= K -> Forall (fun r => wf_dna (fst r)) lreads -> NoDup order ->
  direct K true thr mode 0 lreads order = Some g ->
  NoDup (graph_kmers K true g) /\
  (forall x, In x (graph_kmers K true g) <->
             In x (flat_map (kmers K) (map fst lreads)) /\
             (thr <= N.of_nat (length (filter (dna_eqb x) (flat_map (kmers K) (map fst lreads)))))%N) /\
  (forall w, In w (graph_links K true g) <->
             In w (flat_map (kmers (S K)) (map fst lreads)) /\ In (firstn K w) (graph_kmers K true g) /\ In (skipn 1 w) (graph_kmers K true g)).
Proof.
  intros HK Hwf Hnd Hd. apply stranded_exact_graph. now destruct (direct_assembly K true thr mode lreads order g HK Hwf Hnd Hd).
Qed.

(* C03: the adjacencies the graph denotes (steps inside nodes + extensions of node ends, as canonical (K+1)-mers) are
   exactly the (K+1)-windows of the reads whose two k-mers are retained; its k-mers are exactly the retained k-mers *)
Theorem edges_are_observed_direct K st thr mode (lreads : list lread) order g :
  4 <= K -> Forall (fun r => wf_dna (fst r)) lreads -> NoDup order ->
  direct K st thr mode 0 lreads order = Some g ->
  Permutation (graph_kmers K st g) (retained K st thr (map fst lreads)) /\
  forall w, In w (graph_links K st g) <-> In w (spec_links K st thr (map fst lreads)).
Proof. intros HK Hwf Hnd Hd. now destruct (direct_assembly K st thr mode lreads order g HK Hwf Hnd Hd) as [[H1 H2] _]. Qed.

(* the Layer-S adjacency list of Spec/EdgeSpec.v (C03) is the link specification of Check/PipelineCheck.v *)
Lemma length_filter_map {A B} (f : A -> B) (p : B -> bool) l : length (filter p (map f l)) = length (filter (fun x => p (f x)) l).
Proof. induction l as [|x r IH]; [reflexivity|]. cbn [map filter]. destruct (p (f x)); cbn [length]; now rewrite IH. Qed.
Lemma read_kmers_windows K st reads : read_kmers K st reads = map (cn st) (windows K reads).
Proof.
  unfold read_kmers, windows. induction reads as [|r t IH]; [reflexivity|]. cbn [flat_map]. now rewrite map_app, IH.
Qed.
Lemma occ_occurrences K st reads x : N.of_nat (occ K st reads x) = occurrences K st reads (cn st x).
Proof.
  unfold occ, occurrences. f_equal. rewrite read_kmers_windows, length_filter_map. f_equal. apply filter_ext.
  intro w. change (canon_s st) with (cn st). apply dna_eqb_sym.
Qed.
Lemma retainedb_is_retained K st thr reads x : retainedb K st (N.to_nat thr) reads x = is_retained K st thr reads (cn st x).
Proof.
  unfold retainedb, is_retained. rewrite <- occ_occurrences. apply eq_true_iff_eq. rewrite Nat.leb_le, N.leb_le. lia.
Qed.
Lemma observed_adjs_spec_links K st thr reads : observed_adjs K st (N.to_nat thr) reads = spec_links K st thr reads.
Proof.
  unfold observed_adjs, spec_links. change (canon_s st) with (cn st). f_equal. apply filter_ext. intro w.
  unfold link_retained. now rewrite !retainedb_is_retained.
Qed.
Theorem edges_are_observed_direct' K st thr mode (lreads : list lread) order g :
  4 <= K -> Forall (fun r => wf_dna (fst r)) lreads -> NoDup order ->
  direct K st thr mode 0 lreads order = Some g ->
  forall w, In w (graph_links K st g) <-> In w (observed_adjs K st (N.to_nat thr) (map fst lreads)).
Proof.
  intros HK Hwf Hnd Hd w. rewrite observed_adjs_spec_links.
  now apply (edges_are_observed_direct K st thr mode lreads order g).
Qed.

(* the table the direct pipeline hands to the compressor meets the hypotheses of C01 / C02 / C03_compress_graph_ok *)
From DBG Require Import Spec.CompressSpec Algo.Compress Proofs.CompressGraphOk Proofs.E2eDefs Proofs.E2eSym Proofs.E2eTable.
Local Open Scope nat_scope.
Theorem direct_table_hyps K st thr (lreads : list lread) order T :
  4 <= K -> Forall (fun r => wf_dna (fst r)) lreads -> NoDup order ->
  table_of K st thr (if (1 <? thr)%N then 1%N else 0%N) (whole_reads lreads) order = Some T ->
  tbl_ok pay K st T /\ CompressSpec.exts_sym pay st T /\ exts_sym_pal pay st T /\ exts_closed pay st T.
Proof.
  intros HK Hwf Hnd ET. pose proof (table_of_spec K st thr lreads order T HK Hwf Hnd ET) as HT.
  assert (HK1 : 1 <= K) by lia.
  pose proof (spec_tbl_ok K st thr lreads T Hwf HT) as Hok.
  pose proof (spec_links_ok K st thr lreads T HK1 Hwf HT) as HL.
  split; [exact Hok|]. split; [exact (links_exts_sym pay K st HK1 T _ Hok (links_ok_loose _ _ _ _ HL))|].
  split; [exact (links_exts_sym_pal pay K st HK1 T _ Hok (links_ok_loose _ _ _ _ HL)) | eapply (links_exts_closed pay K st T); [exact Hok | exact (links_ok_loose _ _ _ _ HL) | exact (lo_closed _ _ _ _ HL)]].
Qed.
Print Assumptions direct_table_hyps.
Theorem edges_are_observed_direct_all K st thr mode (lreads : list lread) order g :
  4 <= K -> Forall (fun r => wf_dna (fst r)) lreads -> NoDup order ->
  direct K st thr mode 0 lreads order = Some g ->
  Permutation (graph_kmers K st g) (retained K st thr (map fst lreads)) /\
  (forall w, In w (graph_links K st g) <-> In w (spec_links K st thr (map fst lreads))) /\
  (forall w, In w (graph_links K st g) <-> In w (observed_adjs K st (N.to_nat thr) (map fst lreads))).
Proof.
  intros HK Hwf Hnd Hd. destruct (edges_are_observed_direct K st thr mode lreads order g HK Hwf Hnd Hd) as [H1 H2].
  split; [exact H1|]. split; [exact H2|]. exact (edges_are_observed_direct' K st thr mode lreads order g HK Hwf Hnd Hd).
Qed.
Print Assumptions sharded_eq_direct_partial2.
Print Assumptions graph_rc_invariant_direct_total.
Print Assumptions edges_are_observed_direct'.
