(* K-mer algebra used by the C01/C02 proofs: extend / rc / canon_flip / windows of a sequence. *)
From Coq Require Import NArith List Bool Arith Lia Permutation.
From DBG Require Import Spec.Dna Spec.GraphIndex Spec.Unitig Spec.CompressSpec Packed.ExtsModel Algo.Compress
  Proofs.ListFacts Proofs.DnaFacts.
Import ListNotations.
Local Open Scope nat_scope.

Lemma dflip_dflip d : dflip (dflip d) = d. Proof. destruct d; reflexivity. Qed.
Lemma dirb_dflip d : dirb (dflip d) = negb (dirb d). Proof. destruct d; reflexivity. Qed.
Lemma dir_eqb_refl d : dir_eqb d d = true. Proof. destruct d; reflexivity. Qed.
Lemma dir_eqb_eq a b : dir_eqb a b = true <-> a = b. Proof. destruct a, b; cbn; split; congruence. Qed.
Lemma dir_eqb_flip d : dir_eqb (dflip d) d = false. Proof. destruct d; reflexivity. Qed.
Lemma dir_cases (a b : dir) : a = b \/ a = dflip b. Proof. destruct a, b; auto. Qed.

Lemma wf_app a b : wf_dna (a ++ b) <-> wf_dna a /\ wf_dna b. Proof. apply Forall_app. Qed.
Lemma wf_tl x : wf_dna x -> wf_dna (tl x). Proof. destruct x; cbn; auto. intro H; inversion H; auto. Qed.
Lemma wf_removelast x : wf_dna x -> wf_dna (removelast x).
Proof.
  intro H. destruct x as [|a x]; [exact H|].
  rewrite (app_removelast_last 0%N (l := a :: x)) in H by discriminate. apply wf_app in H. tauto.
Qed.
Lemma wf_last x : wf_dna x -> x <> [] -> (last x 0 < 4)%N.
Proof.
  intros H Hne. rewrite (app_removelast_last 0%N Hne) in H. apply wf_app in H. destruct H as [_ H].
  inversion H; auto.
Qed.
Lemma wf_hd x : wf_dna x -> x <> [] -> (hd 0 x < 4)%N.
Proof. destruct x; [congruence|]. intros H _. inversion H; auto. Qed.

Lemma extend_length x b d : x <> [] -> length (extend x b d) = length x.
Proof.
  intro Hne. destruct d; cbn [extend]; unfold extend_left, extend_right.
  - cbn [length]. rewrite (app_removelast_last 0%N Hne) at 2. rewrite app_length. cbn. lia.
  - destruct x; [congruence|]. cbn. rewrite app_length. cbn. lia.
Qed.
Lemma extend_wf x b d : wf_dna x -> (b < 4)%N -> wf_dna (extend x b d).
Proof.
  intros Hx Hb. destruct d; cbn [extend]; unfold extend_left, extend_right.
  - constructor; auto. now apply wf_removelast.
  - apply wf_app. split; [now apply wf_tl | constructor; auto].
Qed.

Lemma rc_cons a x : rc (a :: x) = rc x ++ [comp a].
Proof. unfold rc. cbn [rev]. rewrite map_app. reflexivity. Qed.
Lemma rc_snoc x a : rc (x ++ [a]) = comp a :: rc x.
Proof. unfold rc. rewrite rev_app_distr. reflexivity. Qed.
Lemma rc_nil_iff x : rc x = [] <-> x = [].
Proof. split; [|intros ->; reflexivity]. intro H. apply (f_equal (@length _)) in H. rewrite rc_length in H. destruct x; [reflexivity | discriminate]. Qed.

(* rc (x.extend(b, d)) = (rc x).extend(comp b, flip d) *)
Lemma rc_extend x b d : x <> [] -> rc (extend x b d) = extend (rc x) (comp b) (dflip d).
Proof.
  intro Hne. destruct d; cbn [extend dflip]; unfold extend_left, extend_right.
  - rewrite rc_cons. f_equal. rewrite (app_removelast_last 0%N Hne) at 2. rewrite rc_snoc. reflexivity.
  - destruct x as [|a x]; [congruence|]. cbn [tl]. rewrite rc_snoc, rc_cons. rewrite removelast_last. reflexivity.
Qed.

(* what x loses when extended on side d is what brings the result back to x *)
Lemma extend_back x b d : x <> [] -> extend (extend x b d) (outer x (dflip d)) (dflip d) = x.
Proof.
  intro Hne. destruct d; cbn [extend dflip outer]; unfold extend_left, extend_right.
  - cbn [tl]. symmetry. apply app_removelast_last. exact Hne.
  - destruct x as [|a x]; [congruence|]. cbn [tl hd]. rewrite removelast_last. reflexivity.
Qed.
Lemma outer_extend x b d : outer (extend x b d) d = b.
Proof. destruct d; cbn [extend outer]; unfold extend_left, extend_right; [reflexivity | apply last_last]. Qed.
Lemma outer_rc x d : x <> [] -> outer (rc x) d = comp (outer x (dflip d)).
Proof.
  intro Hne. destruct d; cbn [outer dflip].
  - rewrite (app_removelast_last 0%N Hne) at 1. rewrite rc_snoc. reflexivity.
  - destruct x as [|a x]; [congruence|]. rewrite rc_cons, last_last. reflexivity.
Qed.

(* canon_flip returns the k-mer and whether it was flipped *)
Lemma canon_flip_raw raw y fl : wf_dna raw -> canon_flip raw = (y, fl) -> raw = if fl then rc y else y.
Proof.
  intros Hw H. unfold canon_flip in H. destruct (dna_ltb raw (rc raw)); injection H as <- <-; [reflexivity|].
  symmetry. now apply rc_involutive.
Qed.
Lemma canonical_lt x : canon x = x -> x <> rc x -> dna_ltb x (rc x) = true.
Proof. unfold canon. destruct (dna_ltb x (rc x)); [reflexivity|]. intros H Hn. symmetry in H. contradiction. Qed.
Lemma canon_flip_canonical x : canon x = x -> x <> rc x -> canon_flip x = (x, false).
Proof. intros H Hn. unfold canon_flip. now rewrite canonical_lt. Qed.
Lemma canon_flip_rc_canonical x : wf_dna x -> canon x = x -> x <> rc x -> canon_flip (rc x) = (x, true).
Proof.
  intros Hw H Hn. unfold canon_flip. rewrite (rc_involutive x Hw).
  pose proof (canonical_lt x H Hn) as Hlt. unfold dna_ltb in *.
  rewrite (dna_compare_antisym x (rc x)). destruct (dna_compare x (rc x)); try discriminate. reflexivity.
Qed.
(* windows of a sequence growing at either end *)
Lemma kmers_cons K b s : 1 <= K -> K <= length s -> kmers K (b :: s) = firstn K (b :: s) :: kmers K s.
Proof.
  intros HK Hl. unfold kmers. cbn [length].
  replace (S (length s) + 1 - K) with (S (length s + 1 - K)) by lia.
  cbn [seq map]. f_equal. rewrite <- seq_shift, map_map. apply map_ext. intro i. reflexivity.
Qed.
Lemma kmers_snoc K s b : 1 <= K -> K <= length s ->
  kmers K (s ++ [b]) = kmers K s ++ [skipn (length s + 1 - K) (s ++ [b])].
Proof.
  intros HK Hl. unfold kmers. rewrite app_length. cbn [length].
  replace (length s + 1 + 1 - K) with (S (length s + 1 - K)) by lia.
  rewrite seq_S, map_app. cbn [map Nat.add]. f_equal.
  - apply map_ext_in. intros i Hi. apply in_seq in Hi. unfold kmer_at, sub.
    rewrite skipn_app. rewrite firstn_app. rewrite skipn_length.
    replace (K - (length s - i)) with 0 by lia. cbn [firstn]. now rewrite app_nil_r.
  - f_equal. unfold kmer_at, sub. apply firstn_all2. rewrite skipn_length, app_length. cbn. lia.
Qed.
Lemma kmers_exact K s : 1 <= K -> length s = K -> kmers K s = [s].
Proof.
  intros HK Hl. unfold kmers. replace (length s + 1 - K) with 1 by lia. cbn. unfold kmer_at, sub. cbn.
  f_equal. apply firstn_all2. lia.
Qed.
Lemma kmers_length K s : K <= length s -> length (kmers K s) = length s + 1 - K.
Proof. intros. unfold kmers. now rewrite map_length, seq_length. Qed.
