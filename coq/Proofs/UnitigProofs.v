(* C02: two keys share a node of compress_kmers iff they are connected by mergeable links. *)
From Coq Require Import NArith List Bool Arith Lia Permutation Relations.
From DBG Require Import Proofs.AbstractWalk.
From DBG Require Import Spec.Dna Spec.GraphIndex Spec.Unitig Spec.CompressSpec Packed.ExtsModel Algo.Compress
  Proofs.ListFacts Proofs.DnaFacts Proofs.ExtsProofs Proofs.ExtsWalk Proofs.KmerAlgebra Proofs.CompressBasics
  Proofs.CompressRefine Proofs.CompressWalk Proofs.CompressProofs.
Import ListNotations.
Local Open Scope nat_scope.

Section C02.
Variable D : Type.
Variable reduce : D -> D -> D.
Variable join : D -> D -> bool.
Variable K : nat.
Variable stranded : bool.
Hypothesis HK : 1 <= K.
Variable T : table D.
Hypothesis Hok : tbl_ok D K stranded T.
Hypothesis Hsym : exts_sym D stranded T.
Hypothesis join_sym : forall a b, join a b = join b a.
Local Notation knext := (knext D join stranded T).
Local Notation mlink := (mlink D join stranded T).
Local Notation kkey := (kkey D T).
Local Notation anext := (anext D join stranded T).
Local Notation ck := (canon_k stranded).
Local Notation cstruct := (compress_struct D join stranded T).
Local Notation U := (seq 0 (length T)).

(* the Layer-S link of Spec/Unitig.v is the static step between two different keys *)
Lemma mlink_knext i d :
  mlink i d = match knext i d with Some (j, d') => if Nat.eqb i j then None else Some (j, d') | None => None end.
Proof.
  unfold Unitig.mlink, CompressSpec.knext, kpal, kcanon_flip.
  destruct (nth_error T i) as [ent|]; [|reflexivity].
  unfold e_get_unique_extension.
  destruct (negb (e_num_ext_dir (e_exts D ent) (dirb d) =? 1)%N); cbn [orb]; [reflexivity|].
  destruct (find _ _) as [b|]; [|now destruct (negb stranded && is_palindrome (e_key D ent))].
  destruct (negb stranded && is_palindrome (e_key D ent)); [reflexivity|].
  destruct (if stranded then _ else _) as [y fl]. cbn [fst snd].
  unfold get_entry. destruct (get_id D T y) as [j|]; [|reflexivity].
  destruct (nth_error T j) as [yent|]; [|reflexivity].
  destruct (Nat.eqb i j) eqn:Hij.
  - destruct (_ && _ && _); [now rewrite Hij | reflexivity].
  - destruct (negb stranded && is_palindrome y); cbn [negb andb]; [now rewrite !andb_false_r|].
    destruct (e_num_ext_dir _ _ =? 1)%N; cbn [negb andb]; [|now rewrite !andb_false_r].
    destruct (join _ _); cbn; now rewrite ?Hij.
Qed.

Lemma knext_sym i d j d' : knext i d = Some (j, d') -> knext j d' = Some (i, d).
Proof.
  intro Hn.
  destruct (knext_inv D join K stranded T Hok _ _ _ _ Hn) as
    (ent & yent & b & fl & Hi & Hj & Hpx & Hnx & Hu & Hb & Hhas & Hyf & Hd' & Hjoin & Hny & Hpy).
  assert (Hin : In ent T) by (eapply nth_error_In; eauto).
  assert (Hyin : In yent T) by (eapply nth_error_In; eauto).
  set (x := e_key D ent) in *. set (y := e_key D yent) in *.
  assert (Hxne : x <> []) by (apply (key_in_ne D K stranded HK T Hok); auto).
  assert (Hxwf : wf_dna x) by (apply (ok_wf _ _ _ _ Hok); auto).
  assert (Hrcne : rc x <> []) by (intro H; apply (proj1 (rc_nil_iff x)) in H; exact (Hxne H)).
  pose proof (Hsym ent d b yent Hin Hb Hhas) as Hs. cbv zeta in Hs. fold x in Hs. rewrite Hyf in Hs. cbn [fst snd] in Hs.
  specialize (Hs (get_entry_key D K stranded T Hok _ _ Hj)). destruct Hs as [Hs|Hs]; [fold y in Hs; congruence|].
  rewrite <- Hd' in Hs.
  pose proof (ok_exts _ _ _ _ Hok _ Hyin) as Hey.
  destruct (unique_ext_spec _ _ Hey Hny) as [c [Huy [Hc [_ Huniq]]]].
  assert (Ho4 : (outer x (dflip d) < 4)%N) by (apply outer_lt4 with (K := K) (stranded := stranded) (T := T); auto).
  assert (Hb'4 : ((if fl then comp else fun c0 => c0) (outer x (dflip d)) < 4)%N) by (destruct fl; [apply comp_lt4 | exact Ho4]).
  assert (Hcb : (if fl then comp else fun c0 => c0) (outer x (dflip d)) = c) by (apply Huniq; auto).
  (* the way back *)
  assert (Hback : kcanon_flip stranded (extend y c d') = (x, fl) /\ cond_flip (dflip d') fl = d).
  { rewrite <- Hcb. destruct (kcanon_flip_cases _ _ _ _ Hyf) as [[-> Hy]|[Hst [-> Hy]]]; cbn [cond_flip] in Hd'; subst d'.
    - rewrite Hy, extend_back by auto. cbn [cond_flip]. rewrite dflip_dflip. split; [|reflexivity].
      unfold kcanon_flip. assert (Hst : stranded = true \/ stranded = false) by (destruct stranded; auto).
      destruct Hst as [Hst|Hst]; rewrite Hst; [reflexivity|].
      apply canon_flip_canonical; [apply (ok_canon _ _ _ _ Hok); auto | now apply (kpal_false_ne stranded)].
    - cbn [cond_flip]. rewrite !dflip_dflip. split; [|reflexivity].
      rewrite Hy, rc_extend by auto. rewrite <- (outer_rc x d Hxne).
      rewrite <- (dflip_dflip d) at 2 3. rewrite extend_back by auto.
      unfold kcanon_flip. rewrite Hst.
      apply canon_flip_rc_canonical; auto; [apply (ok_canon _ _ _ _ Hok); auto | now apply (kpal_false_ne stranded)]. }
  destruct Hback as [Hb1 Hb2].
  unfold CompressSpec.knext. rewrite Hj. fold y. rewrite Hny, Hpy. cbn [N.eqb Pos.eqb negb orb]. rewrite Huy, Hb1. cbn [fst snd].
  pose proof (get_id_key D K stranded T Hok _ _ Hi) as Hgi. fold x in Hgi.
  rewrite Hgi, Hi, Hb2. fold x. rewrite Hnx, Hpx, (join_sym _ _), Hjoin. reflexivity.
Qed.

Lemma anext_sym v s w t : anext v s = Some (w, t) -> anext w t = Some (v, s).
Proof.
  intro H. apply (anext_knext D join stranded T) in H. apply knext_sym in H.
  unfold CompressRefine.anext. rewrite H. now rewrite sd_ds.
Qed.

Lemma struct_nodup order : forall avail, NoDup avail ->
  forall lp i rp, In (lp, i, rp) (cstruct order avail) -> NoDup (node_verts nat lp i rp).
Proof.
  induction order as [|v o IH]; intros avail Hnd lp i rp Hin; [destruct Hin|].
  cbn [compress_struct] in Hin. destruct (mem nat Nat.eq_dec v avail) eqn:Hm; [|eapply IH; eauto].
  apply mem_In in Hm.
  destruct (build nat Nat.eq_dec anext avail v) as [[lp0 rp0] a'] eqn:Hb.
  destruct (build_split nat Nat.eq_dec anext avail v lp0 rp0 a' Hnd Hm Hb) as (HndN & Hnd' & _ & _).
  destruct Hin as [Heq|Hin]; [injection Heq as <- <- <-; exact HndN | eapply IH; eauto].
Qed.

Local Notation idnodes := (compress nat Nat.eq_dec anext U U).
Definition share (i j : nat) : Prop := exists N, In N idnodes /\ In i N /\ In j N.

Lemma idnodes_partition : NoDup (concat idnodes) /\ forall x, In x (concat idnodes) <-> x < length T.
Proof.
  destruct (compress_partition_nosym nat Nat.eq_dec anext U U (seq_NoDup _ _) (fun x H => H)) as [H1 H2].
  split; [exact H1|]. intro x. rewrite H2, in_seq. lia.
Qed.
Lemma share_refl i : i < length T -> share i i.
Proof.
  intro Hi. apply (proj2 idnodes_partition) in Hi. apply in_concat in Hi. destruct Hi as [N [HN Hi]].
  exists N. auto.
Qed.
Lemma share_sym i j : share i j -> share j i.
Proof. intros [N [H1 [H2 H3]]]. exists N. auto. Qed.
Lemma share_trans i j k : share i j -> share j k -> share i k.
Proof.
  intros [N [H1 [H2 H3]]] [N' [H1' [H2' H3']]].
  assert (N = N') by (eapply (concat_unique nat); eauto; apply idnodes_partition). subst N'. exists N. auto.
Qed.
Lemma share_valid i j : share i j -> i < length T /\ j < length T.
Proof.
  intros [N [H1 [H2 H3]]]. split; apply (proj2 idnodes_partition); apply in_concat; eauto.
Qed.

Lemma mstep_anext i j : mstep D join stranded T i j -> exists s t, anext i s = Some (j, t).
Proof.
  intros [d [d' H]]. rewrite mlink_knext in H. destruct (knext i d) as [[j0 d0]|] eqn:Hn; [|discriminate].
  destruct (Nat.eqb i j0); [discriminate|]. injection H as <- <-.
  exists (sd d), (sd d0). unfold CompressRefine.anext. now rewrite ds_sd, Hn.
Qed.

Lemma mstep_share i j : mstep D join stranded T i j -> share i j.
Proof.
  intro H. destruct (mstep_anext _ _ H) as [s [t Hn]].
  assert (Hi : i < length T).
  { unfold CompressRefine.anext, CompressSpec.knext in Hn. destruct (nth_error T i) eqn:E; [|discriminate].
    apply nth_error_Some. congruence. }
  destruct (anext_valid D join stranded T _ _ _ _ Hn) as [e He].
  assert (Hj : j < length T) by (apply nth_error_Some; congruence).
  destruct (share_refl i Hi) as [N [HN [HiN _]]]. exists N. split; [exact HN|]. split; [exact HiN|].
  eapply (compress_maximal nat Nat.eq_dec anext anext_sym U U U (seq_NoDup _ _) (fun x H => H)); eauto.
  - intros x s0 w t0 Hx _ Hw. exact Hw.
  - apply in_seq. lia.
Qed.

Lemma mconn_share i j : mconn D join stranded T i j -> (i < length T \/ j < length T) -> share i j.
Proof.
  induction 1 as [x y H | x | x y H IH | x y z H1 IH1 H2 IH2]; intro Hv.
  - now apply mstep_share.
  - apply share_refl. tauto.
  - apply share_sym, IH. tauto.
  - destruct Hv as [Hv|Hv].
    + pose proof (IH1 (or_introl Hv)) as S1. apply (share_trans _ y); [exact S1|]. apply IH2. left. now apply (share_valid _ _ S1).
    + pose proof (IH2 (or_intror Hv)) as S2. apply (share_trans _ y); [|exact S2]. apply IH1. right. now apply (share_valid _ _ S2).
Qed.

(* consecutive vertices of a walk are joined by mergeable links *)
Lemma chain_conn v s p : chain nat anext v s p -> NoDup (v :: verts nat p) ->
  forall x, In x (verts nat p) -> mconn D join stranded T v x.
Proof.
  induction 1 as [v s | v s w t p Hn Hc IH]; intros Hnd x Hx; [destruct Hx|].
  assert (Hvw : mstep D join stranded T v w).
  { exists (ds s), (ds t). rewrite mlink_knext, (anext_knext D join stranded T _ _ _ _ Hn).
    destruct (Nat.eqb v w) eqn:E; [|reflexivity]. apply Nat.eqb_eq in E. subst w.
    inversion Hnd; subst. exfalso. apply H1. now left. }
  cbn [verts map fst] in Hx. destruct Hx as [<-|Hx]; [now apply rst_step|].
  apply rst_trans with w; [now apply rst_step|]. apply IH; auto. inversion Hnd; auto.
Qed.

Lemma share_mconn i j : share i j -> mconn D join stranded T i j.
Proof.
  intros [N [HN [Hi Hj]]]. rewrite <- compress_struct_verts in HN. apply in_map_iff in HN.
  destruct HN as [[[lp s] rp] [HN Hin]]. cbn [fst snd] in HN. subst N.
  destruct (struct_chains D join stranded T U U (seq_NoDup _ _) _ _ _ Hin) as (HcL & HcR & _).
  pose proof (struct_nodup U U (seq_NoDup _ _) _ _ _ Hin) as Hnd.
  assert (HndL : NoDup (s :: verts nat lp)).
  { unfold node_verts in Hnd. apply (NoDup_app_inv nat) in Hnd. destruct Hnd as (H1 & H2 & H3).
    constructor; [|apply NoDup_rev in H1; now rewrite rev_involutive in H1].
    intro Hs. apply (H3 s); [now apply -> in_rev | now left]. }
  assert (HndR : NoDup (s :: verts nat rp)).
  { unfold node_verts in Hnd. apply (NoDup_app_inv nat) in Hnd. tauto. }
  assert (Hall : forall x, In x (node_verts nat lp s rp) -> mconn D join stranded T s x).
  { intros x Hx. apply in_node in Hx. destruct Hx as [Hx|[->|Hx]].
    - apply (chain_conn _ _ _ HcL HndL x Hx).
    - apply rst_refl.
    - apply (chain_conn _ _ _ HcR HndR x Hx). }
  apply rst_trans with s; [apply rst_sym|]; apply Hall; auto.
Qed.

Lemma kkey_inj i j : i < length T -> j < length T -> kkey i = kkey j -> i = j.
Proof.
  intros Hi Hj. unfold CompressRefine.kkey.
  destruct (nth_error T i) as [e|] eqn:Ei; [|apply nth_error_None in Ei; lia].
  destruct (nth_error T j) as [e'|] eqn:Ej; [|apply nth_error_None in Ej; lia].
  intro H. pose proof (get_id_key D K stranded T Hok _ _ Ei) as G1.
  pose proof (get_id_key D K stranded T Hok _ _ Ej) as G2. rewrite H in G1. congruence.
Qed.

Lemma Forall2_in_r {A B} (R : A -> B -> Prop) l l' : Forall2 R l l' -> forall b, In b l' -> exists a, In a l /\ R a b.
Proof.
  induction 1 as [|a b l l' Hab H IH]; intros x Hx; [destruct Hx|].
  destruct Hx as [<-|Hx]; [exists a; split; [now left | auto]|].
  destruct (IH _ Hx) as [a' [Ha' Hr]]. exists a'. split; [now right | auto].
Qed.

Lemma idnode_valid N x : In N idnodes -> In x N -> x < length T.
Proof. intros HN Hx. apply (proj2 idnodes_partition). apply in_concat. eauto. Qed.

Section Out.
Variable nodes : list (node D).
Hypothesis Hrel : Forall2 (node_rel D reduce T) nodes (cstruct U U).

Lemma same_node_share i j : i < length T -> j < length T ->
  (same_node D K stranded nodes (kkey i) (kkey j) <-> share i j).
Proof.
  intros Hi Hj. split.
  - intros [n [Hn [Ki Kj]]]. destruct (Forall2_in_l _ _ _ Hrel n Hn) as [[[lp s] rp] [Hin Hr]].
    destruct (node_facts D reduce join K stranded HK T Hok Hsym n lp s rp Hr Hin) as (_ & Hk & _).
    rewrite Hk in Ki, Kj.
    assert (HN : In (node_verts nat lp s rp) idnodes).
    { rewrite <- compress_struct_verts. apply in_map_iff. exists (lp, s, rp). auto. }
    exists (node_verts nat lp s rp). split; [exact HN|].
    apply in_map_iff in Ki. destruct Ki as [i' [Ei Hi']]. apply in_map_iff in Kj. destruct Kj as [j' [Ej Hj']].
    apply kkey_inj in Ei; eauto using idnode_valid. apply kkey_inj in Ej; eauto using idnode_valid. subst. auto.
  - intros [N [HN [Ki Kj]]]. rewrite <- compress_struct_verts in HN. apply in_map_iff in HN.
    destruct HN as [[[lp s] rp] [HN Hin]]. cbn [fst snd] in HN. subst N.
    destruct (Forall2_in_r _ _ _ Hrel _ Hin) as [n [Hn Hr]].
    destruct (node_facts D reduce join K stranded HK T Hok Hsym n lp s rp Hr Hin) as (_ & Hk & _).
    exists n. split; [exact Hn|]. rewrite Hk. split; now apply in_map.
Qed.

Theorem same_node_iff_ i j : i < length T -> j < length T ->
  (same_node D K stranded nodes (kkey i) (kkey j) <-> mconn D join stranded T i j).
Proof.
  intros Hi Hj. rewrite (same_node_share i j Hi Hj). split; [apply share_mconn|].
  intro H. apply mconn_share; auto.
Qed.
End Out.

(* C02: the model's output nodes are exactly the classes of the mergeable-link relation *)
Theorem same_node_iff : exists nodes, compress_kmers D reduce join stranded T = Some nodes /\
  forall i j, i < length T -> j < length T ->
    (same_node D K stranded nodes (kkey i) (kkey j) <-> mconn D join stranded T i j).
Proof.
  destruct (compress_refines D reduce join K stranded HK T Hok Hsym) as [nodes [Hc Hrel]].
  exists nodes. split; [exact Hc|]. intros i j. now apply same_node_iff_.
Qed.

(* no two output nodes could be merged: a mergeable link never crosses a node boundary *)
Corollary no_mergeable_pair_across : exists nodes, compress_kmers D reduce join stranded T = Some nodes /\
  forall i j, mstep D join stranded T i j -> same_node D K stranded nodes (kkey i) (kkey j).
Proof.
  destruct (compress_refines D reduce join K stranded HK T Hok Hsym) as [nodes [Hc Hrel]].
  exists nodes. split; [exact Hc|]. intros i j H.
  pose proof (mstep_share _ _ H) as S. destruct (share_valid _ _ S) as [Hi Hj].
  now apply (same_node_share nodes Hrel i j Hi Hj).
Qed.

Lemma mstep_sym i j : mstep D join stranded T i j -> mstep D join stranded T j i.
Proof.
  intros [d [d' H]]. rewrite mlink_knext in H. destruct (knext i d) as [[j0 d0]|] eqn:Hn; [|discriminate].
  destruct (Nat.eqb i j0) eqn:E; [discriminate|]. injection H as <- <-.
  exists d0, d. rewrite mlink_knext, (knext_sym _ _ _ _ Hn). rewrite Nat.eqb_sym, E. reflexivity.
Qed.

Lemma chain_linked v s p : chain nat anext v s p -> NoDup (v :: verts nat p) ->
  linked (mstep D join stranded T) (v :: verts nat p).
Proof.
  induction 1 as [v s | v s w t p Hn Hc IH]; intro Hnd; [exact I|].
  cbn [verts map fst linked]. split; [|apply IH; inversion Hnd; auto].
  exists (ds s), (ds t). rewrite mlink_knext, (anext_knext D join stranded T _ _ _ _ Hn).
  destruct (Nat.eqb v w) eqn:E; [|reflexivity]. apply Nat.eqb_eq in E. subst w.
  inversion Hnd; subst. exfalso. apply H1. now left.
Qed.
Lemma linked_rev_sym {A} (R : A -> A -> Prop) (Rs : forall a b, R a b -> R b a) l : linked R l -> linked R (rev l).
Proof.
  induction l as [|a l IH]; intro H; [exact I|]. destruct l as [|b l]; [exact I|].
  destruct H as [H1 H2]. cbn [rev] in *. rewrite <- app_assoc. cbn [app].
  apply linked_glue; [apply IH; exact H2 | cbn; auto].
Qed.

(* no node hides a branch, a palindrome or a predicate boundary: every junction inside a node is a
   mergeable link (sole extension on both facing sides, two distinct non-palindromic k-mers, join accepted) *)
Corollary no_hidden_branch : exists nodes, compress_kmers D reduce join stranded T = Some nodes /\
  forall n, In n nodes -> exists ids, node_keys D K stranded n = map kkey ids /\ NoDup ids /\
    linked (mstep D join stranded T) ids.
Proof.
  destruct (compress_refines D reduce join K stranded HK T Hok Hsym) as [nodes [Hc Hrel]].
  exists nodes. split; [exact Hc|]. intros n Hn.
  destruct (Forall2_in_l _ _ _ Hrel n Hn) as [[[lp s] rp] [Hin Hr]].
  destruct (node_facts D reduce join K stranded HK T Hok Hsym n lp s rp Hr Hin) as (_ & Hk & _).
  exists (node_verts nat lp s rp). split; [exact Hk|].
  destruct (struct_chains D join stranded T U U (seq_NoDup _ _) _ _ _ Hin) as (HcL & HcR & _).
  pose proof (struct_nodup U U (seq_NoDup _ _) _ _ _ Hin) as Hnd. split; [exact Hnd|].
  assert (HndL : NoDup (s :: verts nat lp)).
  { unfold node_verts in Hnd. apply (NoDup_app_inv nat) in Hnd. destruct Hnd as (H1 & H2 & H3).
    constructor; [|apply NoDup_rev in H1; now rewrite rev_involutive in H1].
    intro Hs. apply (H3 s); [now apply -> in_rev | now left]. }
  assert (HndR : NoDup (s :: verts nat rp)).
  { unfold node_verts in Hnd. apply (NoDup_app_inv nat) in Hnd. tauto. }
  unfold node_verts. apply linked_glue.
  - pose proof (linked_rev_sym _ mstep_sym _ (chain_linked _ _ _ HcL HndL)) as H. cbn [rev] in H. exact H.
  - exact (chain_linked _ _ _ HcR HndR).
Qed.
End C02.
