(* C18: NodeKmerIter refines the list iterator, for every interleaving of next() and nth(n). *)
From Coq Require Import NArith ZArith List Bool Arith Lia ZifyNat ZifyBool.
From DBG Require Import Spec.Dna Packed.KmerModel Packed.Blocks Packed.DnaStringModel Packed.SliceModel Algo.Iter Algo.NodeIter
  Proofs.ListFacts Proofs.KmerLanes Proofs.KmerOps.
Import ListNotations.
Open Scope N_scope.

Lemma kmers_length K (l : dna) : length (kmers K l) = (length l + 1 - K)%nat.
Proof. unfold kmers. now rewrite map_length, seq_length. Qed.
Lemma nth_kmers K (l : dna) i : (i < length l + 1 - K)%nat -> nth i (kmers K l) [] = kmer_at K l i.
Proof.
  intro H. unfold kmers. rewrite (nth_indep _ [] (kmer_at K l 0)) by (rewrite map_length, seq_length; exact H).
  rewrite map_nth. f_equal. apply seq_nth. exact H.
Qed.
Lemma skipn_kmers K (l : dna) i : skipn i (kmers K l) = map (kmer_at K l) (seq i (length l + 1 - K - i)).
Proof.
  unfold kmers. rewrite skipn_map. f_equal.
  destruct (Nat.le_gt_cases i (length l + 1 - K)) as [H|H].
  - replace (length l + 1 - K)%nat with (i + (length l + 1 - K - i))%nat at 1 by lia.
    rewrite seq_app, skipn_app_exact by (now rewrite seq_length). reflexivity.
  - rewrite skipn_all2 by (rewrite seq_length; lia). replace (length l + 1 - K - i)%nat with 0%nat by lia. reflexivity.
Qed.

Section NodeIter.
Variable c : kcfg.
Hypothesis Hc : In c shipped.
Let K := kK c.
Variable d : dstr.
Variable s : slc.
Variable l : dna.                      (* the node's bases: the view the slice denotes *)
Hypothesis Hlen : s_length s = length l.
Hypothesis HK : (K <= length l)%nat.   (* a node holds at least one k-mer *)
Hypothesis Hwf : wf_dna l.
(* the container contract (discharged for DnaStringSlice by C15/C13) *)
Hypothesis Hget : forall i, (i < length l)%nat -> sl_get d s i = Some (nth i l 0).
Hypothesis Hkmer : forall pos, (pos + K <= length l)%nat ->
  exists r, sl_get_kmer c d s pos = Some r /\ wf K r /\ decode K r = kmer_at K l pos.

Let num := (length l + 1 - K)%nat.

(* iterator states that can arise: position i, and while i < num the held k-mer is the i-th *)
Definition ni_ok (it : nkiter) : Prop :=
  ni_num it = num /\ (ni_kmer_id it <= num)%nat /\
  ((ni_kmer_id it < num)%nat -> wf K (ni_kmer it) /\ decode K (ni_kmer it) = kmer_at K l (ni_kmer_id it)).

Lemma K_pos : (0 < K)%nat.
Proof. destruct (shipped_2K c Hc) as [_ H]. exact H. Qed.

Lemma ni_into_iter_ok : exists it, ni_into_iter c d s = Some it /\ ni_ok it /\ ni_kmer_id it = 0%nat /\ ni_size_hint it = num.
Proof.
  unfold ni_into_iter, subn. rewrite Hlen. fold K. destruct (Nat.leb_spec K (length l)) as [_|?]; [|lia]. cbn [obind].
  destruct (Hkmer 0%nat ltac:(lia)) as [r [E [W D]]]. rewrite E. cbn [obind]. eexists; split; [reflexivity|].
  unfold ni_ok, ni_size_hint. cbn [ni_num ni_kmer_id ni_kmer]. unfold num in *. repeat split; auto; lia.
Qed.

(* next: yields the i-th k-mer and advances, or None (and stays) once exhausted *)
Lemma ni_next_ok it : ni_ok it ->
  exists it' o, ni_next c d s it = Some (it', o) /\ ni_ok it' /\
    (if Nat.ltb (ni_kmer_id it) num
     then ni_kmer_id it' = S (ni_kmer_id it) /\ exists r, o = Some r /\ decode K r = kmer_at K l (ni_kmer_id it)
     else ni_kmer_id it' = ni_kmer_id it /\ o = None).
Proof.
  intros [Hn [Hle Hk]]. unfold ni_next. rewrite Hn.
  destruct (Nat.eqb_spec num (ni_kmer_id it)) as [E|E].
  - exists it, None. split; [reflexivity|]. split; [unfold ni_ok; split; [exact Hn|]; split; [exact Hle | exact Hk]|].
    destruct (Nat.ltb_spec (ni_kmer_id it) num); [lia | auto].
  - assert (Hlt : (ni_kmer_id it < num)%nat) by lia. destruct (Hk Hlt) as [W D].
    destruct (Nat.ltb_spec (ni_kmer_id it) num) as [_|?]; [|lia].
    destruct (Nat.ltb_spec (S (ni_kmer_id it)) num) as [Hn1|Hn1].
    + fold K. rewrite Hget by (unfold num in *; lia). cbn [obind].
      assert (Hb : nth (S (ni_kmer_id it) + K - 1) l 0 < 4).
      { unfold wf_dna in Hwf. rewrite Forall_forall in Hwf. apply Hwf. apply nth_In. unfold num in *. lia. }
      destruct (extend_right_spec c (ni_kmer it) _ Hc W Hb) as [k' [E' [W' D']]]. rewrite E'. cbn [obind].
      eexists _, _. split; [reflexivity|]. split.
      * unfold ni_ok. cbn [ni_num ni_kmer_id ni_kmer]. split; [first [reflexivity | exact Hn]|]. split; [lia|]. intros _. split; [exact W'|].
        fold K in D'. rewrite D', D. replace (S (ni_kmer_id it) + K - 1)%nat with (ni_kmer_id it + K)%nat by lia.
        apply kmer_at_shift; [apply K_pos | unfold num in *; lia].
      * cbn [ni_kmer_id]. split; [reflexivity|]. eauto.
    + eexists _, _. split; [reflexivity|]. split.
      * unfold ni_ok. cbn [ni_num ni_kmer_id ni_kmer]. split; [first [reflexivity | exact Hn]|]. split; [lia|]. intro. lia.
      * cbn [ni_kmer_id]. split; [reflexivity|]. eauto.
Qed.

Lemma ni_skip_ok n : forall it, ni_ok it ->
  exists it', ni_skip c d s n it = Some it' /\ ni_ok it' /\ ni_kmer_id it' = Nat.min (ni_kmer_id it + n) num.
Proof.
  induction n as [|n IH]; intros it Hok.
  - exists it. split; [reflexivity|]. split; [exact Hok|]. destruct Hok as [_ [Hle _]]. lia.
  - destruct (ni_next_ok it Hok) as [it1 [o [E [Ok1 H1]]]]. cbn [ni_skip]. rewrite E. cbn [obind fst].
    destruct (IH it1 Ok1) as [it2 [E2 [Ok2 H2]]]. exists it2. split; [exact E2|]. split; [exact Ok2|].
    rewrite H2. destruct Hok as [_ [Hle _]]. destruct (Nat.ltb_spec (ni_kmer_id it) num); destruct H1 as [H1 _]; lia.
Qed.

(* one call against the list iterator over the remaining k-mers *)
Definition remaining (it : nkiter) : list dna := skipn (ni_kmer_id it) (kmers K l).

Lemma ni_call_ok it cl : ni_ok it ->
  exists it' o, ni_call c d s it cl = Some (it', o) /\ ni_ok it' /\
    match cl with
    | CNext => match remaining it with
               | [] => o = None /\ remaining it' = []
               | x :: t => (exists r, o = Some r /\ decode K r = x) /\ remaining it' = t
               end
    | CNth n => match skipn n (remaining it) with
                | [] => o = None /\ remaining it' = []
                | x :: t => (exists r, o = Some r /\ decode K r = x) /\ remaining it' = t
                end
    end.
Proof.
  intro Hok. assert (Hnum : length (kmers K l) = num) by (unfold num in *; apply kmers_length).
  assert (Hrem : forall it0, ni_ok it0 -> forall it1 o1, ni_next c d s it0 = Some (it1, o1) -> ni_ok it1 ->
     (if Nat.ltb (ni_kmer_id it0) num
      then ni_kmer_id it1 = S (ni_kmer_id it0) /\ exists r, o1 = Some r /\ decode K r = kmer_at K l (ni_kmer_id it0)
      else ni_kmer_id it1 = ni_kmer_id it0 /\ o1 = None) ->
     match remaining it0 with
     | [] => o1 = None /\ remaining it1 = []
     | x :: t => (exists r, o1 = Some r /\ decode K r = x) /\ remaining it1 = t
     end).
  { intros it0 Ok0 it1 o1 _ _ H. unfold remaining. destruct (Nat.ltb_spec (ni_kmer_id it0) num) as [Hlt|Hge].
    - destruct H as [Hid [r [-> Hr]]]. rewrite (skipn_S_nth (ni_kmer_id it0) (kmers K l) []) by lia.
      rewrite nth_kmers by (unfold num in *; lia). split; [eauto|]. now rewrite Hid.
    - destruct H as [Hid ->]. rewrite Hid. rewrite skipn_all2 by lia. auto. }
  destruct cl as [|n]; cbn [ni_call].
  - destruct (ni_next_ok it Hok) as [it1 [o [E [Ok1 H1]]]]. exists it1, o. split; [exact E|]. split; [exact Ok1|].
    apply (Hrem it Hok it1 o E Ok1 H1).
  - unfold ni_nth. destruct (Nat.leb_spec n 4) as [Hn4|Hn4].
    + destruct (ni_skip_ok n it Hok) as [it1 [E1 [Ok1 Hid1]]]. rewrite E1. cbn [obind].
      destruct (ni_next_ok it1 Ok1) as [it2 [o [E2 [Ok2 H2]]]]. exists it2, o. split; [exact E2|]. split; [exact Ok2|].
      pose proof (Hrem it1 Ok1 it2 o E2 Ok2 H2) as R. unfold remaining in *. rewrite skipn_skipn.
      replace (skipn (ni_kmer_id it + n) (kmers K l)) with (skipn (ni_kmer_id it1) (kmers K l)); [exact R|].
      rewrite Hid1. destruct (Nat.le_gt_cases (ni_kmer_id it + n) num); [f_equal; lia|].
      rewrite !skipn_all2 by lia. reflexivity.
    + destruct Hok as [Hn [Hle Hk]]. rewrite Hn. destruct (Nat.leb_spec num (ni_kmer_id it + n)) as [Hpast|Hin].
      * eexists _, None. split; [reflexivity|]. split.
        -- unfold ni_ok. cbn [ni_num ni_kmer_id ni_kmer]. split; [first [reflexivity | exact Hn]|]. split; [lia|]. intro. lia.
        -- unfold remaining. cbn [ni_kmer_id]. rewrite skipn_skipn. rewrite !skipn_all2 by lia. auto.
      * destruct (Hkmer (ni_kmer_id it + n)%nat ltac:(unfold num in *; lia)) as [r [E [W D]]]. rewrite E. cbn [obind].
        set (it1 := {| ni_kmer_id := ni_kmer_id it + n; ni_kmer := r; ni_num := num |}).
        assert (Ok1 : ni_ok it1) by (unfold ni_ok, it1; cbn [ni_num ni_kmer_id ni_kmer]; repeat split; auto; lia).
        destruct (ni_next_ok it1 Ok1) as [it2 [o [E2 [Ok2 H2]]]]. exists it2, o. split; [exact E2|]. split; [exact Ok2|].
        pose proof (Hrem it1 Ok1 it2 o E2 Ok2 H2) as R. unfold remaining in *. rewrite skipn_skipn. exact R.
Qed.

(* outputs of the model against outputs of the list iterator *)
Definition out_matches (o : option N) (x : option dna) : Prop :=
  match o, x with
  | None, None => True
  | Some r, Some k => decode K r = k
  | _, _ => False
  end.

Lemma ni_run_refines calls : forall it, ni_ok it ->
  exists outs, ni_run c d s it calls = Some outs /\ Forall2 out_matches outs (spec_run (remaining it) calls).
Proof.
  induction calls as [|cl calls IH]; intros it Hok.
  - exists []. split; [reflexivity | constructor].
  - destruct (ni_call_ok it cl Hok) as [it1 [o [E [Ok1 H1]]]]. cbn [ni_run]. rewrite E. cbn [obind fst snd].
    destruct (IH it1 Ok1) as [outs [E2 F2]]. rewrite E2. cbn [obind]. eexists; split; [reflexivity|].
    destruct cl as [|n]; cbn [spec_run].
    + destruct (remaining it) as [|x t]; destruct H1 as [Ho Hr]; rewrite Hr in F2.
      * subst o. constructor; [exact I | exact F2].
      * destruct Ho as [r [-> Hd]]. constructor; [exact Hd | exact F2].
    + destruct (skipn n (remaining it)) as [|x t]; destruct H1 as [Ho Hr]; rewrite Hr in F2.
      * subst o. constructor; [exact I | exact F2].
      * destruct Ho as [r [-> Hd]]. constructor; [exact Hd | exact F2].
Qed.

(* The iterator created for a node reports the exact number of k-mers up front, and ANY sequence of next()/nth(n)
   calls returns what the plain list iterator over the node's n-K+1 k-mers returns: the k-mers in order, and
   end-of-iteration - never a panic, a foreign k-mer or an endless stream - once a step or skip reaches past the
   last one. *)
Theorem iter_refines calls :
  exists it outs, ni_into_iter c d s = Some it /\ ni_size_hint it = length (kmers K l) /\
    ni_run c d s it calls = Some outs /\ Forall2 out_matches outs (spec_run (kmers K l) calls).
Proof.
  destruct ni_into_iter_ok as [it [E [Ok [Hid Hh]]]].
  destruct (ni_run_refines calls it Ok) as [outs [Er F]].
  exists it, outs. split; [exact E|]. split; [rewrite Hh; unfold num in *; symmetry; apply kmers_length|].
  split; [exact Er|]. unfold remaining in F. rewrite Hid in F. exact F.
Qed.
End NodeIter.

(* ------------------------------------------------------------------ huge skip counts *)
(* a skip count at or beyond the number of items left behaves like any other such count: replacing every count above a
   bound B >= length l by B does not change what the specification yields (used by the correspondence driver, which
   must turn a 64-bit skip count into the model's unary number) *)
Definition clamp_call (B : nat) (cl : ncall) : ncall :=
  match cl with CNext => CNext | CNth n => CNth (Nat.min n B) end.
Lemma spec_run_clamp {A} (B : nat) : forall calls (l : list A), (length l <= B)%nat ->
  spec_run l (map (clamp_call B) calls) = spec_run l calls.
Proof.
  induction calls as [|cl r IH]; intros l Hl; [reflexivity|].
  destruct cl as [|n]; cbn [map clamp_call spec_run].
  - destruct l as [|x t]; [rewrite IH by (cbn; lia); reflexivity | rewrite IH; [reflexivity | cbn in Hl; lia]].
  - destruct (Nat.le_gt_cases n B) as [Hn|Hn].
    + rewrite Nat.min_l by exact Hn.
      assert (Hs : (length (skipn n l) <= B)%nat) by (rewrite skipn_length; lia).
      destruct (skipn n l) as [|x t]; [rewrite IH by (cbn; lia); reflexivity | rewrite IH; [reflexivity | cbn in Hs; lia]].
    + rewrite Nat.min_r by lia.
      rewrite (skipn_all2 (n := B) l) by lia. rewrite (skipn_all2 (n := n) l) by lia. rewrite IH by (cbn; lia). reflexivity.
Qed.
