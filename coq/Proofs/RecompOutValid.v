(* C09, outputs of compress_graph (work package outmax), part 4: the result graph is a VALID graph ([rvalid]), hence - having
   no mergeable pair - a fixed point of compress_graph.

   [out_links_sym]: an extension of result node i (end node v of its path) that the result graph resolves to node j (end
   node y) has a return extension: the return extension y -> v of the restricted input graph sits on an exterior side of
   y's path, so it is an extension bit of j, and the result graph resolves it to the node whose path contains v: i. *)
From Coq Require Import NArith List Bool Arith Lia Permutation.
From DBG Require Import Proofs.AbstractWalk.
From DBG Require Import Spec.Dna Spec.GraphIndex Packed.ExtsModel Algo.Compress Algo.GraphModel Algo.Recompress
  Spec.EdgeSpec Check.RecompCheck Proofs.ListFacts Proofs.DnaFacts Proofs.KmerAlgebra
  Proofs.ExtsProofs Proofs.RecompSweeps Proofs.ComposeSweeps
  Proofs.RecompressProofs Proofs.RecompIdem Proofs.GraphQueryProofs Proofs.WalkProofs Proofs.RecompKmers Proofs.RecompExts
  Proofs.RecompOut Proofs.RecompOutEnds Proofs.RecompOutMax.
Import ListNotations.
Local Open Scope nat_scope.

Lemma eside_inj s d d' : eside s d = eside s d' -> d = d'.
Proof. destruct s, d, d'; cbn; congruence. Qed.

Section Valid.
Variable D : Type.
Variable reduce : D -> D -> D.
Variable join : D -> D -> bool.
Variable K : nat.
Variable stranded : bool.
Hypothesis join_sym : forall a b, join a b = join b a.
Local Notation graph := (graph D).
Local Notation gnode := (gnode D).
Local Notation Linked := (Linked D join K stranded).
Local Notation rnext := (rnext D join K stranded).
Local Notation pal_single := (RecompCheck.pal_single D K stranded).
Local Notation ext_link := (ext_link D K stranded).
Local Notation find_link := (GraphModel.find_link D K stranded).

Section Ctx.
Variable g1 : graph.
Variable S : list nat.
Variable r : list (gnode * list (nat * dir)).
Hypothesis W : winv D K stranded g1 S.
Hypothesis Hnd : NoDup (concat (map (map fst) (map snd r))).
Hypothesis Hcov : forall y, In y S -> exists p, In p (map snd r) /\ In y (map fst p).
Hypothesis Hr : forall x, In x r -> exists lp seed rp, snd x = assemble lp seed rp /\ built D reduce K g1 (fst x) lp seed rp /\
                  Linked g1 (snd x) /\ NoDup (map fst (snd x)) /\ (forall y, In y (map fst (snd x)) -> In y S).
Hypothesis HndL : NoDup (ends_of K (g_seqs D g1) DLeft).
Hypothesis HndR : NoDup (ends_of K (g_seqs D g1) DRight).
Hypothesis Hcross : cross_ok D K stranded g1 S.

Lemma out_resolvable : resolvable D K stranded (map fst r).
Proof.
  intros i d b n Hn Hb Hh.
  pose proof (assembled_resolves D reduce join K stranded g1 S r W Hnd Hcov Hr i n d b Hn Hb Hh) as Hk.
  unfold keeps in Hk. destruct (ext_link (map fst r) i d b); [discriminate | discriminate].
Qed.

Theorem out_links_sym : links_sym D K stranded (map fst r).
Proof.
  intros i d b j t f n m Hn Hm Hb He.
  rewrite nth_error_map in Hn. destruct (nth_error r i) as [x|] eqn:Hi; [|discriminate]. cbn in Hn. injection Hn as <-.
  assert (Hx : In x r) by (eapply nth_error_In; eauto).
  destruct (out_ext_link D reduce join K stranded g1 S r W Hnd Hcov Hr HndL HndR Hcross i x d b j t f Hi Hb He)
    as (v & s & nv & y & ty & fy & ny & x' & sg & sy & Ed & Hnv & HvS & Hhv & Hfl1 & Hny & HyS & Hj' & Esg & Ety & Eq & Wkk & Ht).
  assert (Hx' : In x' r) by (eapply nth_error_In; eauto).
  rewrite nth_error_map, Hj' in Hm. cbn in Hm. injection Hm as <-.
  destruct (Hr x Hx) as (_ & _ & _ & _ & _ & HL & HN & _).
  destruct (Hr x' Hx') as (_ & _ & _ & _ & _ & HL' & HN' & _).
  destruct (endelt_ext_side _ _ _ _ Ed) as [_ Hvin]. destruct (endelt_ext_side _ _ _ _ Esg) as [Hexty Hyin].
  (* the return extension in the restricted input graph *)
  assert (Hb0 : In (ob s b) bases4) by now apply ob_in.
  assert (Hlk1 : ext_link g1 v (eside s d) (ob s b) = Some (y, ty, fy)).
  { unfold RecompCheck.ext_link. now rewrite Hnv, Hhv. }
  destruct (wi_sym _ _ _ _ _ W v (eside s d) (ob s b) y ty fy nv ny HvS Hnv Hny Hb0 Hlk1)
    as (t' & b' & d' & f' & Hb' & Hback & Ht' & Hd').
  pose proof (out_pal_single D reduce join K stranded g1 S r W Hr x d v s nv Hx Ed Hnv) as Pxv.
  pose proof (out_pal_single D reduce join K stranded g1 S r W Hr x' sg y sy ny Hx' Esg Hny) as Pxy.
  (* it sits on an exterior side of y's path *)
  assert (Hext' : ext_side (snd x') y t').
  { destruct (pal_single ny) eqn:Pn.
    - rewrite (pal_path_single D join K stranded g1 (snd x') y sy ny HL' Hyin Hny Pn).
      destruct (dir_cases t' sy) as [->| ->]; [left; exists []; reflexivity | right; exists []; now rewrite dflip_dflip].
    - rewrite (Ht' eq_refl), Ety. exact Hexty. }
  destruct (ext_side_endelt _ _ _ Hext') as (sg' & sy' & Esg' & Et').
  destruct (endelt_ext_side _ _ _ _ Esg') as [_ Hyin'].
  assert (sy' = sy) by exact (NoDup_fst_snd (snd x') y sy' sy HN' Hyin' Hyin). subst sy'.
  (* hence it is an extension bit of result node j *)
  assert (Hhb' : e_has_ext (n_exts D ny) (dirb t') b' = true).
  { unfold RecompCheck.ext_link in Hback. rewrite Hny in Hback. destruct (e_has_ext (n_exts D ny) (dirb t') b'); [reflexivity | discriminate]. }
  set (bb := ob sy b').
  assert (Hbb : In bb bases4) by now apply ob_in.
  destruct (out_bits D reduce join K stranded g1 S r W Hr x' sg' y sy ny Hx' Esg' Hny) as [Bits _].
  assert (Hhbb : e_has_ext (n_exts D (fst x')) (dirb sg') bb = true).
  { rewrite (Bits bb Hbb). unfold bb. rewrite ob_invol by now apply in_bases4_lt. now rewrite <- Et'. }
  assert (Hjn : nth_error (map fst r) j = Some (fst x')) by now rewrite nth_error_map, Hj'.
  pose proof (out_resolvable j sg' bb (fst x') Hjn Hbb Hhbb) as Hres.
  destruct (ext_link (map fst r) j sg' bb) as [[[i2 d2] f2]|] eqn:Hlk2; [clear Hres | congruence].
  (* which the result graph resolves to i *)
  destruct (out_ext_link D reduce join K stranded g1 S r W Hnd Hcov Hr HndL HndR Hcross j x' sg' bb i2 d2 f2 Hj' Hbb Hlk2)
    as (v2 & s2 & nv2 & y2 & ty2 & fy2 & ny2 & x2 & sg2 & sy2 & Ed2 & Hnv2 & _ & _ & Hfl2 & _ & _ & Hi2 & Esg2 & Ety2 & _ & _ & Ht2).
  rewrite Esg' in Ed2. injection Ed2 as <- <-. rewrite Hny in Hnv2. injection Hnv2 as <-.
  unfold bb in Hfl2. rewrite ob_invol, <- Et' in Hfl2 by now apply in_bases4_lt.
  unfold RecompCheck.ext_link in Hback. rewrite Hny, Hhb', Hfl2 in Hback. injection Hback as -> -> ->.
  destruct (endelt_ext_side _ _ _ _ Esg2) as [_ Hvin2].
  assert (i2 = i).
  { apply (same_path D r Hnd i2 i x2 x v Hi2 Hi); [apply (in_map fst) in Hvin2 | apply (in_map fst) in Hvin]; assumption. }
  subst i2. rewrite Hi in Hi2. injection Hi2 as <-.
  assert (sy2 = s) by exact (NoDup_fst_snd (snd x) v sy2 s HN Hvin2 Hvin). subst sy2.
  exists sg', bb, d2, f2. split; [exact Hbb|]. split; [exact Hlk2|]. split.
  - (* the side of j *)
    intro Pm. rewrite Pxy in Pm. specialize (Ht' Pm). rewrite Et', Ety in Ht'. apply eside_inj in Ht'.
    destruct Ht as [Ht|(_ & Pt & _)]; [congruence|]. rewrite Pxy in Pt. congruence.
  - (* the side of i *)
    intro Pn. rewrite Pxv in Pn. specialize (Hd' Pn). rewrite Ety2 in Hd'. apply eside_inj in Hd'.
    destruct Ht2 as [Ht2|(_ & Pt & _)]; [congruence|]. rewrite Pxv in Pt. congruence.
Qed.

Theorem out_rvalid : rvalid D K stranded (map fst r).
Proof.
  pose proof (out_ends_ok D reduce join K stranded g1 S r W Hnd Hr HndL HndR Hcross) as (EL & ER & _).
  split; [|split; [exact EL | split; [exact ER | split; [|split]]]].
  - apply Forall_forall. intros n Hn. apply in_map_iff in Hn as (x & <- & Hx).
    exact (out_node_ok D reduce join K stranded g1 S r W Hr x Hx).
  - exact (out_pal_ends D reduce join K stranded g1 S r W Hr).
  - exact out_resolvable.
  - exact out_links_sym.
Qed.
End Ctx.

(* ---- top level, valid input ------------------------------------------------------------------------------------------- *)
Theorem recompress_out_rvalid_strict (g : graph) censor out paths :
  rvalid D K stranded g -> cross_ok D K stranded g (survivors D g censor) ->
  compress_graph_paths D reduce join K stranded g censor = Some (out, paths) ->
  rvalid D K stranded out /\ ends_ok D K stranded out.
Proof.
  intros V X H.
  destruct (recompress_ctx D reduce join K stranded join_sym g censor out paths V H)
    as (g1 & r & Hg1 & Hseq & -> & -> & W & Hnd & Hcov & Hr & NL & NR & Hmax).
  assert (X1 : cross_ok D K stranded g1 (survivors D g censor)) by (apply (cross_ok_seqs D K stranded g g1); auto).
  split.
  - exact (out_rvalid g1 _ r W Hnd Hcov Hr NL NR X1).
  - exact (out_ends_ok D reduce join K stranded g1 _ r W Hnd Hr NL NR X1).
Qed.

(* the result of compress_graph is a fixed point of compress_graph (no censoring) *)
Theorem recompress_twice_strict (C : congruent D reduce join) (g : graph) censor out paths :
  rvalid D K stranded g -> cross_ok D K stranded g (survivors D g censor) ->
  compress_graph_paths D reduce join K stranded g censor = Some (out, paths) ->
  compress_graph D reduce join K stranded out None = Some out.
Proof.
  intros V X H. apply (recompress_idempotent_full D reduce join K stranded join_sym).
  - exact (proj1 (recompress_out_rvalid_strict g censor out paths V X H)).
  - exact (recompress_out_no_pair_strict D reduce join K stranded join_sym C g censor out paths V X H).
Qed.
End Valid.
