(* e2e, table level: a table whose extension bytes are the membership of canonical (K+1)-mers in a set S ([links_ok],
   Proofs/E2eDefs.v) satisfies C01's hypotheses [exts_sym] and C03's [exts_sym_pal]; the extension of any k-mer
   occurrence, read in the occurrence's frame ([oexts]), is again membership in S; and every step inside a node that
   compress_kmers builds is a merge in the frame of the node ([wm]: sole extension on both facing sides, no
   palindrome, join accepted). *)
From Coq Require Import NArith List Bool Arith Lia Permutation.
From DBG Require Import Proofs.AbstractWalk.
From DBG Require Import Spec.Dna Spec.GraphIndex Spec.Unitig Spec.CompressSpec Packed.ExtsModel Algo.Compress
  Algo.KmerHist Check.GraphCheck Check.PipelineCheck
  Proofs.ListFacts Proofs.DnaFacts Proofs.KmerAlgebra Proofs.ExtsProofs Proofs.ExtsWalk
  Proofs.CompressBasics Proofs.CompressRefine Proofs.CompressWalk Proofs.CompressProofs Proofs.CompressGraphOk
  Proofs.UnitigUnique Proofs.E2eDefs.
Import ListNotations.
Local Open Scope nat_scope.

Lemma num_ext_rc e dir : (e < 256)%N -> e_num_ext_dir (e_rc e) dir = e_num_ext_dir e (negb dir).
Proof.
  intro He.
  assert (E : forallb (fun e => forallb (fun dir =>
     (e_num_ext_dir (e_rc e) dir =? e_num_ext_dir e (negb dir))%N) bools) all_exts = true) by (vm_compute; reflexivity).
  rewrite forallb_forall in E. specialize (E e (in_all_exts e He)).
  rewrite forallb_forall in E. specialize (E dir (in_bools dir)). now apply N.eqb_eq.
Qed.

Lemma cn_rc_ st v : wf_dna v -> st = false -> cn st (rc v) = cn st v.
Proof. intros W ->. unfold cn. now apply canon_rc. Qed.
Lemma kpal_rc st x : wf_dna x -> kpal st (rc x) = kpal st x.
Proof. intro W. unfold kpal. f_equal. now apply is_pal_rc. Qed.

Section Sym.
Variable D : Type.
Variable K : nat.
Variable st : bool.
Hypothesis HK : 1 <= K.
Variable T : table D.
Variable S : list dna.
Hypothesis Hok : tbl_ok D K st T.
Hypothesis HL : links_loose D st T S.
(* closure (every recorded extension leads to a key) is only needed by [links_exts_closed] and [link_closed] *)
Hypothesis Hcl : forall ent d b, In ent T -> (b < 4)%N -> e_has_ext (e_exts D ent) (dirb d) b = true ->
  In (canon_k st (extend (e_key D ent) b d)) (keys D T).

Lemma key_facts ent : In ent T -> length (e_key D ent) = K /\ wf_dna (e_key D ent) /\ e_key D ent <> [] /\ (e_exts D ent < 256)%N.
Proof.
  intro H. pose proof (ok_len _ _ _ _ Hok _ H) as L. repeat split; auto.
  - now apply (ok_wf _ _ _ _ Hok).
  - intro E. rewrite E in L. cbn in L. lia.
  - now apply (ok_exts _ _ _ _ Hok).
Qed.

(* a recorded extension is a link of S, whatever the key *)
Lemma key_fwd ent d b : In ent T -> (b < 4)%N -> e_has_ext (e_exts D ent) (dirb d) b = true ->
  In (cn st (lk (e_key D ent) d b)) S.
Proof.
  intros Hin Hb Hh. destruct (kpal st (e_key D ent)) eqn:P.
  - apply (ll_pal _ _ _ _ HL ent d b Hin Hb P). now left.
  - now apply (ll_np _ _ _ _ HL ent d b Hin Hb P).
Qed.

Theorem links_exts_sym : exts_sym D st T.
Proof.
  intros ent d b yent Hin Hb Hh yf Hg.
  destruct (key_facts ent Hin) as (Lk & Wk & Nk & _).
  pose proof (key_fwd ent d b Hin Hb Hh) as HS.
  destruct (get_entry_Some D T _ _ Hg) as [Hyin Hyk].
  destruct (kpal st (fst yf)) eqn:P; [now left | right].
  destruct yf as [ky fl] eqn:Eyf. cbn [fst snd] in *. subst ky.
  set (y := extend (e_key D ent) b d) in *. set (c := outer (e_key D ent) (dflip d)).
  assert (Hc : (c < 4)%N) by (apply (outer_lt4 D K st HK T Hok); auto).
  assert (Wv : wf_dna (lk (e_key D ent) d b)) by (apply lk_wf; auto).
  destruct (kcanon_flip_cases _ _ _ _ Eyf) as [[-> Ey]|(Hs & -> & Ey)]; cbn [cond_flip].
  - apply (ll_np _ _ _ _ HL yent (dflip d) c Hyin Hc P). rewrite Ey. unfold y, c. now rewrite lk_back.
  - rewrite dflip_dflip. apply (ll_np _ _ _ _ HL yent d (comp c) Hyin (comp_lt4 c) P). rewrite Ey.
    replace (lk (rc y) d (comp c)) with (rc (lk y (dflip d) c)) by (rewrite rc_lk, dflip_dflip; reflexivity).
    unfold y, c. rewrite lk_back by exact Nk. now rewrite cn_rc_.
Qed.

Theorem links_exts_sym_pal : exts_sym_pal D st T.
Proof.
  intros ent d b yent Hin Hb Hh yf Hg P c.
  destruct (key_facts ent Hin) as (Lk & Wk & Nk & _).
  pose proof (key_fwd ent d b Hin Hb Hh) as HS.
  destruct (get_entry_Some D T _ _ Hg) as [Hyin Hyk].
  destruct yf as [ky fl] eqn:Eyf. cbn [fst snd] in *. subst ky.
  set (y := extend (e_key D ent) b d) in *.
  assert (Hc : (c < 4)%N) by (apply (outer_lt4 D K st HK T Hok); auto).
  assert (Wy : wf_dna y) by (apply extend_wf; auto).
  assert (Ey : e_key D yent = y).
  { destruct (kcanon_flip_cases _ _ _ _ Eyf) as [[_ Ey]|(Hs & _ & Ey)]; [exact Ey|].
    apply kpal_iff in P as [_ P]. rewrite Ey in P. rewrite ListFacts.rc_involutive in P by exact Wy. now rewrite Ey. }
  pose proof (proj2 (ll_pal _ _ _ _ HL yent (dflip d) c Hyin Hc P)) as H. rewrite dflip_dflip in H. apply H.
  rewrite Ey. unfold y, c. now rewrite lk_back.
Qed.

Theorem links_exts_closed : exts_closed D st T.
Proof.
  intros ent d b Hin Hb Hh. pose proof (Hcl ent d b Hin Hb Hh) as Hc.
  assert (E : fst (kcanon_flip st (extend (e_key D ent) b d)) = canon_k st (extend (e_key D ent) b d)).
  { unfold kcanon_flip, canon_k, canon_flip, canon. destruct st; [reflexivity|].
    now destruct (dna_ltb (extend (e_key D ent) b d) (rc (extend (e_key D ent) b d))). }
  rewrite E. unfold keys in Hc. apply in_map_iff in Hc as [e [Ek He]]. destruct (In_nth_error _ _ He) as [i Hi].
  rewrite <- Ek, (get_id_key D K st T Hok _ _ Hi). discriminate.
Qed.

Local Notation Hsym := links_exts_sym.
Local Notation Hpal := links_exts_sym_pal.
Local Notation oexts := (oexts D st T).
Local Notation ck := (canon_k st).

(* ---- extensions in the frame of an occurrence ---- *)
Lemma frame_fwd x e d b : wf_dna x -> (b < 4)%N -> oexts x = Some e -> e_has_ext e (dirb d) b = true ->
  In (cn st (lk x d b)) S.
Proof.
  intros Wx Hb Hx Hh.
  destruct (oexts_inv D K st T Hok Hsym Hpal x e Hx) as (ent & Hin & _ & _ & [[-> ->]|(Hne & Hs & Hk & ->)]).
  - now apply key_fwd.
  - destruct (key_facts ent Hin) as (_ & _ & _ & He). rewrite has_ext_rc' in Hh by auto.
    pose proof (key_fwd ent _ _ Hin (comp_lt4 b) Hh) as H. rewrite Hk, <- rc_lk in H.
    rewrite cn_rc_ in H; auto. now apply lk_wf.
Qed.
Lemma frame_np x e d b : wf_dna x -> (b < 4)%N -> oexts x = Some e -> kpal st x = false ->
  In (cn st (lk x d b)) S -> e_has_ext e (dirb d) b = true.
Proof.
  intros Wx Hb Hx P HS.
  destruct (oexts_inv D K st T Hok Hsym Hpal x e Hx) as (ent & Hin & _ & _ & [[-> ->]|(Hne & Hs & Hk & ->)]).
  - now apply (ll_np _ _ _ _ HL ent d b Hin Hb P).
  - destruct (key_facts ent Hin) as (_ & _ & _ & He). rewrite has_ext_rc' by auto.
    assert (P' : kpal st (e_key D ent) = false) by (rewrite Hk, kpal_rc; auto).
    apply (ll_np _ _ _ _ HL ent _ _ Hin (comp_lt4 b) P'). rewrite Hk, <- rc_lk. rewrite cn_rc_; auto. now apply lk_wf.
Qed.
Lemma frame_iff x e d b : wf_dna x -> (b < 4)%N -> oexts x = Some e -> kpal st x = false ->
  (e_has_ext e (dirb d) b = true <-> In (cn st (lk x d b)) S).
Proof. intros Wx Hb Hx P. split; [now apply frame_fwd | now apply frame_np]. Qed.
(* a link of S at a k-mer is recorded there, possibly on the other side when the k-mer is a palindrome *)
Lemma frame_pal x e d b : wf_dna x -> (b < 4)%N -> oexts x = Some e -> kpal st x = true ->
  In (cn st (lk x d b)) S -> e_has_ext e (dirb d) b = true \/ e_has_ext e (dirb (dflip d)) (comp b) = true.
Proof.
  intros Wx Hb Hx P HS.
  destruct (oexts_inv D K st T Hok Hsym Hpal x e Hx) as (ent & Hin & _ & _ & [[-> ->]|(Hne & Hs & Hk & ->)]).
  - now apply (ll_pal _ _ _ _ HL ent d b Hin Hb P).
  - exfalso. apply kpal_iff in P as [_ P]. congruence.
Qed.
Lemma oexts_of_key x : wf_dna x -> In (ck x) (keys D T) -> exists e, oexts x = Some e.
Proof.
  intros Wx Hin. unfold Unitig.oexts, keys in *. apply in_map_iff in Hin as [ent [Ek He]].
  destruct (In_nth_error _ _ He) as [i Hi]. rewrite <- Ek, (get_entry_key D K st T Hok _ _ Hi). eauto.
Qed.
Lemma oexts_in_keys x e : oexts x = Some e -> In (ck x) (keys D T).
Proof.
  intro H. destruct (oexts_inv D K st T Hok Hsym Hpal x e H) as (ent & Hin & _ & Hk & _). rewrite <- Hk. unfold keys. now apply in_map.
Qed.
(* both k-mers of a link are keys *)
Lemma link_closed x e d b : wf_dna x -> length x = K -> (b < 4)%N -> oexts x = Some e -> e_has_ext e (dirb d) b = true ->
  In (ck (extend x b d)) (keys D T).
Proof.
  intros Wx Lx Hb Hx Hh. assert (Nx : x <> []) by (intro E; rewrite E in Lx; cbn in Lx; lia).
  destruct (oexts_inv D K st T Hok Hsym Hpal x e Hx) as (ent & Hin & _ & _ & [[-> ->]|(Hne & Hs & Hk & ->)]).
  - now apply (Hcl ent d b).
  - destruct (key_facts ent Hin) as (_ & _ & _ & He). rewrite has_ext_rc' in Hh by auto.
    pose proof (Hcl ent _ _ Hin (comp_lt4 b) Hh) as H. rewrite Hk, <- rc_extend in H by exact Nx.
    rewrite (ck_rc D K st T Hok Hsym Hpal) in H; auto. now apply extend_wf.
Qed.

End Sym.

(* ---- the steps inside a node are merges, in the frame of the node: for EVERY table meeting C01's hypotheses ---- *)
Section Merge.
Variable D : Type.
Variable K : nat.
Variable st : bool.
Hypothesis HK : 1 <= K.
Variable T : table D.
Hypothesis Hok : tbl_ok D K st T.
Hypothesis Hsym : exts_sym D st T.
Local Notation oexts := (oexts D st T).
Local Notation ck := (canon_k st).
Local Notation key_facts := (key_facts D K st HK T Hok).
Variable join : D -> D -> bool.
Hypothesis join_sym : forall a b, join a b = join b a.
Local Notation knext := (knext D join st T).
Local Notation kkey := (kkey D T).
Local Notation anext := (anext D join st T).

(* y is entered from x through x's right side *)
Definition wm (x y : dna) : Prop :=
  exists ex ey entx enty, oexts x = Some ex /\ oexts y = Some ey /\
    get_entry D T (ck x) = Some entx /\ get_entry D T (ck y) = Some enty /\
    e_num_ext_dir ex true = 1%N /\ e_num_ext_dir ey false = 1%N /\
    kpal st x = false /\ kpal st y = false /\ join (e_data D entx) (e_data D enty) = true.
Definition wmD (D0 : dir) (w0 w1 : dna) : Prop := match D0 with DRight => wm w0 w1 | DLeft => wm w1 w0 end.

Lemma kpal_orient D0 d x : wf_dna x -> kpal st (orient D0 d x) = kpal st x.
Proof. intro W. unfold orient. destruct (dir_eqb d D0); [reflexivity | now apply kpal_rc]. Qed.

Lemma knext_window_m D0 i d j d' : knext i d = Some (j, d') -> ocond st D0 d (kkey i) ->
  wmD D0 (orient D0 d (kkey i)) (orient D0 (dflip d') (kkey j)).
Proof.
  intros Hn Hc.
  destruct (knext_window D join K st HK T Hok Hsym D0 i d j d' Hn Hc) as (_ & _ & Hc').
  destruct (knext_inv D join K st T Hok _ _ _ _ Hn) as (ent & yent & b & fl & Hi & Hj & Hpx & Hnx & _ & _ & _ & _ & _ & Hjoin & Hny & Hpy).
  assert (Hkx : kkey i = e_key D ent) by (unfold CompressRefine.kkey; now rewrite Hi).
  assert (Hky : kkey j = e_key D yent) by (unfold CompressRefine.kkey; now rewrite Hj).
  rewrite Hkx, Hky in *.
  assert (Hin : In ent T) by (eapply nth_error_In; eauto).
  assert (Hyin : In yent T) by (eapply nth_error_In; eauto).
  destruct (key_facts ent Hin) as (_ & Wx & _ & Hex). destruct (key_facts yent Hyin) as (_ & Wy & _ & Hey).
  pose proof (oexts_orient D K st T Hok Hsym D0 d i ent Hi Hc) as Ox.
  pose proof (oexts_orient D K st T Hok Hsym D0 (dflip d') j yent Hj Hc') as Oy.
  pose proof (ck_orient D K st T Hok Hsym D0 d ent Hin Hc) as Cx.
  pose proof (ck_orient D K st T Hok Hsym D0 (dflip d') yent Hyin Hc') as Cy.
  pose proof (get_entry_key D K st T Hok _ _ Hi) as Gx. pose proof (get_entry_key D K st T Hok _ _ Hj) as Gy.
  assert (Nx : e_num_ext_dir (if dir_eqb d D0 then e_exts D ent else e_rc (e_exts D ent)) (dirb D0) = 1%N).
  { destruct (dir_cases d D0) as [E|E]; rewrite E in *.
    - now rewrite dir_eqb_refl.
    - rewrite dir_eqb_flip, num_ext_rc by exact Hex. now rewrite <- dirb_dflip. }
  assert (Ny : e_num_ext_dir (if dir_eqb (dflip d') D0 then e_exts D yent else e_rc (e_exts D yent)) (dirb (dflip D0)) = 1%N).
  { destruct (dir_cases d' D0) as [E|E]; rewrite E in *.
    - rewrite dir_eqb_flip, num_ext_rc by exact Hey. now rewrite <- dirb_dflip, dflip_dflip.
    - now rewrite dflip_dflip, dir_eqb_refl. }
  unfold wmD, wm. destruct D0; cbn [dirb dflip] in Nx, Ny.
  - do 4 eexists. rewrite Oy, Ox, Cy, Cx, Gx, Gy. repeat split; try reflexivity; auto.
    + rewrite kpal_orient; auto.
    + rewrite kpal_orient; auto.
    + now rewrite join_sym.
  - do 4 eexists. rewrite Oy, Ox, Cy, Cx, Gx, Gy. repeat split; try reflexivity; auto.
    + rewrite kpal_orient; auto.
    + rewrite kpal_orient; auto.
Qed.

Fixpoint wmsteps (D0 : dir) (w0 : dna) (ws : list dna) : Prop :=
  match ws with [] => True | w1 :: r => wmD D0 w0 w1 /\ wmsteps D0 w1 r end.

Lemma chain_windows_m D0 i s p : chain nat anext i s p -> ocond st D0 (ds s) (kkey i) ->
  wmsteps D0 (orient D0 (ds s) (kkey i)) (map (owin D T D0) p).
Proof.
  induction 1 as [v s | v s w t p Hn Hc IH]; intro Ho; [exact I|].
  apply (anext_knext D join st T) in Hn.
  destruct (knext_window D join K st HK T Hok Hsym D0 _ _ _ _ Hn Ho) as (_ & _ & Ho').
  pose proof (knext_window_m D0 _ _ _ _ Hn Ho) as Hm.
  rewrite ds_flip in IH. specialize (IH Ho').
  cbn [map wmsteps]. unfold CompressRefine.owin at 1 3. cbn [fst snd]. split; auto.
Qed.

Lemma wmsteps_linked_R w0 ws : wmsteps DRight w0 ws -> linked wm (w0 :: ws).
Proof. revert w0. induction ws as [|w1 r IH]; intros w0 H; [exact I|]. destruct H as [H1 H2]. split; auto. Qed.
Lemma wmsteps_linked_L ws : forall w0, wmsteps DLeft w0 ws -> linked wm (rev ws ++ [w0]).
Proof.
  induction ws as [|w1 r IH]; intros w0 H; [exact I|]. destruct H as [H1 H2]. cbn [rev].
  apply linked_snoc; auto.
Qed.

Lemma node_wins_merge lp i rp : chain nat anext i L lp -> chain nat anext i R rp -> linked wm (node_wins D T lp i rp).
Proof.
  intros HcL HcR.
  assert (HoL : ocond st DLeft (ds L) (kkey i)) by (left; reflexivity).
  assert (HoR : ocond st DRight (ds R) (kkey i)) by (left; reflexivity).
  pose proof (chain_windows_m DLeft i L lp HcL HoL) as SL. pose proof (chain_windows_m DRight i R rp HcR HoR) as SR.
  cbn [ds] in SL, SR. rewrite orient_same in SL, SR. unfold node_wins.
  apply linked_glue; [now apply wmsteps_linked_L | now apply wmsteps_linked_R].
Qed.

(* every output node: consecutive windows are merges *)
Theorem nodes_merge reduce nodes n : compress_kmers D reduce join st T = Some nodes -> In n nodes ->
  linked wm (node_windows D K n).
Proof.
  intros Hc Hn. pose proof (nodes_rel D reduce join K st HK T Hok Hsym nodes Hc) as Hrel.
  destruct (Forall2_in_l _ _ _ Hrel n Hn) as [[[lp i] rp] [Hin Hr]].
  destruct (node_facts D reduce join K st HK T Hok Hsym n lp i rp Hr Hin) as (F1 & _).
  destruct (struct_chains D join st T _ _ (seq_NoDup _ _) _ _ _ Hin) as (HcL & HcR & _).
  rewrite F1. now apply node_wins_merge.
Qed.
End Merge.
