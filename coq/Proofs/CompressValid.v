(* C03 / C09 <- C01: every extension of a node end of a graph built by compress_kmers resolves to a node end
   ([exts_resolvable], Spec/EdgeSpec.v), hence the graph is a [valid_graph], for EVERY table meeting C01's hypotheses
   [tbl_ok], [exts_sym], C03's [exts_sym_pal] and [exts_closed] (every recorded extension leads to a key), symmetric join.
   Argument: the target k-mer y of an extension (s, b) of the end k-mer x lies in some node m; if y had an inner
   neighbour on the side facing x, that step would be a merge (Proofs/E2eSym.v [nodes_merge]) whose sole extension is
   the return extension towards x (table symmetry), so the neighbour would be x itself, inside m - but x is the end of
   its node on side s. *)
From Coq Require Import NArith List Bool Arith Lia Permutation.
From DBG Require Import Proofs.AbstractWalk.
From DBG Require Import Spec.Dna Spec.GraphIndex Spec.Unitig Spec.CompressSpec Packed.ExtsModel Algo.Compress
  Algo.GraphModel Spec.EdgeSpec Algo.KmerHist Check.GraphCheck Check.PipelineCheck
  Proofs.ListFacts Proofs.DnaFacts Proofs.KmerAlgebra Proofs.ExtsProofs Proofs.ExtsWalk
  Proofs.CompressBasics Proofs.CompressRefine Proofs.CompressWalk Proofs.CompressProofs Proofs.CompressGraphOk
  Proofs.FilterProofs Proofs.GraphQueryProofs Proofs.UnitigUnique Proofs.E2eDefs Proofs.E2eSym.
Import ListNotations.
Local Open Scope nat_scope.

Lemma kmers_nth_ K (s : dna) i : i < length s + 1 - K -> nth i (kmers K s) [] = kmer_at K s i.
Proof.
  intro H. unfold kmers. rewrite (nth_indep _ [] (kmer_at K s 0)) by (rewrite map_length, seq_length; exact H).
  rewrite map_nth. f_equal. now rewrite seq_nth.
Qed.
Lemma kmers_len_ K (s : dna) : length (kmers K s) = length s + 1 - K.
Proof. unfold kmers. now rewrite map_length, seq_length. Qed.
Lemma in_kmers_at__ K0 (s : dna) p : p + K0 <= length s -> In (kmer_at K0 s p) (kmers K0 s).
Proof. intro H. unfold kmers. apply in_map_iff. exists p. split; [reflexivity|]. apply in_seq. lia. Qed.
Lemma kmer_at_next_ K (s : dna) p : 1 <= K -> p + S K <= length s ->
  kmer_at K s (S p) = extend (kmer_at K s p) (nth (p + K) s 0%N) DRight.
Proof. intros HK H. cbn [extend]. symmetry. apply kmer_at_shift; lia. Qed.
Lemma kmer_at_hd_ K (s : dna) p : 1 <= K -> p + K <= length s -> hd 0%N (kmer_at K s p) = nth p s 0%N.
Proof.
  intros HK H. unfold kmer_at, sub. rewrite (skipn_S_nth p s 0%N) by lia. destruct K; [lia|]. reflexivity.
Qed.
Lemma kmer_at_last_ K (s : dna) p : 1 <= K -> p + K <= length s -> last (kmer_at K s p) 0%N = nth (p + K - 1) s 0%N.
Proof.
  intros HK H. rewrite <- nth_last. unfold kmer_at. rewrite sub_length by exact H. rewrite nth_sub by lia. f_equal. lia.
Qed.
Lemma wf_nth__ (s : dna) i : wf_dna s -> (nth i s 0 < 4)%N.
Proof.
  intro W. destruct (Nat.lt_ge_cases i (length s)) as [H|H].
  - unfold wf_dna in W. rewrite Forall_forall in W. apply W. now apply nth_In.
  - rewrite nth_overflow by exact H. lia.
Qed.
Lemma linked_and_ {A} (R R' : A -> A -> Prop) l : linked R l -> linked R' l -> linked (fun a b => R a b /\ R' a b) l.
Proof.
  induction l as [|a [|b r] IH]; cbn [linked]; auto. intros [H1 H2] [H3 H4]. split; [split; assumption|]. apply IH; assumption.
Qed.
Lemma unique_ext_ e dir b c : (e < 256)%N -> e_num_ext_dir e dir = 1%N -> (b < 4)%N -> (c < 4)%N ->
  e_has_ext e dir b = true -> e_has_ext e dir c = true -> b = c.
Proof.
  intros He Hn Hb Hcc H1 H2. destruct (unique_ext_spec e dir He Hn) as (u & _ & _ & _ & Hu).
  rewrite (Hu b Hb H1), (Hu c Hcc H2). reflexivity.
Qed.

Section Valid.
Variable D : Type.
Variable reduce : D -> D -> D.
Variable join : D -> D -> bool.
Variable K : nat.
Variable st : bool.
Hypothesis HK : 1 <= K.
Hypothesis join_sym : forall a b, join a b = join b a.
Variable T : table D.
Hypothesis Hok : tbl_ok D K st T.
Hypothesis Hsym : CompressSpec.exts_sym D st T.
Hypothesis Hpal : exts_sym_pal D st T.
Hypothesis Hcl : exts_closed D st T.
Variable nodes : list (node D).
Hypothesis Hc : compress_kmers D reduce join st T = Some nodes.

Local Notation oexts := (Unitig.oexts D st T).
Local Notation ck := (canon_k st).
Local Notation wm := (wm D st T join).
Local Notation step_ok := (CompressSpec.step_ok D st T).
Local Notation nseq := (GraphModel.n_seq D).

Lemma vnode_len_wf n : In n nodes -> K <= length (nseq n) /\ wf_dna (nseq n).
Proof. intro Hn. destruct (nodes_facts D reduce join K st HK T Hok Hsym Hpal nodes Hc n Hn) as [F1 F2 _ _ _]. auto. Qed.
Lemma vnode_pal n w : In n nodes -> In w (kmers K (nseq n)) -> kpal st w = true -> length (nseq n) = K.
Proof. intros Hn. destruct (nodes_facts D reduce join K st HK T Hok Hsym Hpal nodes Hc n Hn) as [_ _ _ F _]. apply F. Qed.
Lemma vnode_step n p : In n nodes -> p + S K <= length (nseq n) ->
  step_ok (kmer_at K (nseq n) p) (kmer_at K (nseq n) (S p)) /\ wm (kmer_at K (nseq n) p) (kmer_at K (nseq n) (S p)).
Proof.
  intros Hn Hp.
  assert (Hl : linked (fun a b => step_ok a b /\ wm a b) (kmers K (nseq n))).
  { apply linked_and_.
    - pose proof (nodes_rel D reduce join K st HK T Hok Hsym nodes Hc) as Hrel.
      destruct (Forall2_in_l _ _ _ Hrel n Hn) as [[[lp i] rp] [Hin Hr]].
      now destruct (node_facts D reduce join K st HK T Hok Hsym n lp i rp Hr Hin) as (_ & _ & _ & F & _).
    - exact (nodes_merge D K st HK T Hok Hsym join join_sym reduce nodes n Hc Hn). }
  pose proof (linked_nth _ [] _ Hl p) as H. rewrite kmers_len_ in H. rewrite !kmers_nth_ in H by lia. apply H. lia.
Qed.
Lemma vnode_win n p : In n nodes -> p + K <= length (nseq n) ->
  let x := kmer_at K (nseq n) p in length x = K /\ wf_dna x /\ x <> [].
Proof.
  intros Hn Hp x. destruct (vnode_len_wf n Hn) as [L W]. destruct (kmer_at_ok K _ p W Hp) as [Lx Wx]. fold x in Lx, Wx.
  repeat split; auto. intro E. rewrite E in Lx. cbn in Lx. lia.
Qed.
Lemma oexts_lt__ x e : oexts x = Some e -> (e < 256)%N.
Proof. exact (oexts_lt D K st T Hok Hsym Hpal x e). Qed.

(* an inner occurrence has exactly one extension on the side of its neighbour, and it leads to the neighbour *)
Lemma inner_right n p : In n nodes -> p + S K <= length (nseq n) ->
  exists e a, oexts (kmer_at K (nseq n) p) = Some e /\ e_num_ext_dir e true = 1%N /\ e_has_ext e true a = true /\ (a < 4)%N /\
    kmer_at K (nseq n) (S p) = extend (kmer_at K (nseq n) p) a DRight /\ kpal st (kmer_at K (nseq n) p) = false.
Proof.
  intros Hn Hp. destruct (vnode_len_wf n Hn) as [L W].
  destruct (vnode_step n p Hn Hp) as [(ex & ey & Hx & _ & Hhx & _) (ex' & ey' & _ & _ & Hx' & _ & _ & _ & Nx & _ & Px & _)].
  rewrite Hx in Hx'. injection Hx' as <-. rewrite kmer_at_last_ in Hhx by lia. replace (S p + K - 1) with (p + K) in Hhx by lia.
  exists ex, (nth (p + K) (nseq n) 0%N). repeat split; auto using wf_nth__. now apply kmer_at_next_.
Qed.
Lemma inner_left n q : In n nodes -> q + S K <= length (nseq n) ->
  exists e a, oexts (kmer_at K (nseq n) (S q)) = Some e /\ e_num_ext_dir e false = 1%N /\ e_has_ext e false a = true /\ (a < 4)%N /\
    kmer_at K (nseq n) q = extend (kmer_at K (nseq n) (S q)) a DLeft /\ kpal st (kmer_at K (nseq n) (S q)) = false.
Proof.
  intros Hn Hq. destruct (vnode_len_wf n Hn) as [L W].
  destruct (vnode_step n q Hn Hq) as [(ex & ey & _ & Hy & _ & Hhy) (ex' & ey' & _ & _ & _ & Hy' & _ & _ & _ & Ny & _ & Py & _)].
  rewrite Hy in Hy'. injection Hy' as <-. rewrite kmer_at_hd_ in Hhy by lia.
  destruct (vnode_win n q Hn ltac:(lia)) as (_ & _ & Nz).
  exists ey, (nth q (nseq n) 0%N). repeat split; auto using wf_nth__.
  pose proof (KmerAlgebra.extend_back (kmer_at K (nseq n) q) (nth (q + K) (nseq n) 0%N) DRight Nz) as B.
  rewrite <- kmer_at_next_ in B by lia. cbn [dflip outer] in B. rewrite kmer_at_hd_ in B by lia. now symmetry.
Qed.

(* every k-mer (canonical when unstranded) occurs once among all windows of all nodes *)
Lemma all_kmers_nodup : NoDup (flat_map (fun n => map ck (kmers K (nseq n))) nodes).
Proof.
  pose proof (nodes_kmers_once D reduce join K st HK T Hok Hsym nodes Hc) as H. unfold kmers_once, g_seqs in H.
  rewrite map_map in H. rewrite flat_map_concat_map. exact H.
Qed.
Lemma win_inj2 m u p q : In m nodes -> In u nodes -> p + K <= length (nseq m) -> q + K <= length (nseq u) ->
  ck (kmer_at K (nseq m) p) = ck (kmer_at K (nseq u) q) -> m = u /\ p = q.
Proof.
  intros Hm Hu Hp Hq E.
  assert (Em : m = u).
  { apply (flat_map_in_unique (fun n => map ck (kmers K (nseq n))) nodes m u (ck (kmer_at K (nseq m) p)) all_kmers_nodup); auto.
    - apply in_map. now apply in_kmers_at__.
    - rewrite E. apply in_map. now apply in_kmers_at__. }
  subst u. split; [reflexivity|].
  pose proof (flat_map_nodup_elem (fun n => map ck (kmers K (nseq n))) nodes m all_kmers_nodup Hm) as Hnd.
  apply (proj1 (NoDup_nth _ (ck [])) Hnd); try (rewrite map_length, kmers_len_; lia).
  rewrite !map_nth, !kmers_nth_ by lia. exact E.
Qed.
Lemma key_occurs k : In k (keys D T) -> exists m p, In m nodes /\ p + K <= length (nseq m) /\ ck (kmer_at K (nseq m) p) = k.
Proof.
  intro Hk. destruct (compress_c01 D reduce join K st HK T Hok Hsym) as [g' [Hc' [Hp _]]].
  assert (g' = nodes) by congruence. subst g'. unfold partition_ok in Hp.
  apply (Permutation_in _ (Permutation_sym Hp)) in Hk. apply in_concat in Hk as [l [Hl Hk]].
  apply in_map_iff in Hl as [m [<- Hm]]. unfold node_keys, node_windows in Hk. apply in_map_iff in Hk as [w [<- Hw]].
  apply kmers_in in Hw as [p [Hp' ->]]. exists m, p. auto.
Qed.

(* the k-mer an extension leads to is a key *)
Lemma frame_closed x e d b : wf_dna x -> length x = K -> (b < 4)%N -> oexts x = Some e -> e_has_ext e (dirb d) b = true ->
  In (ck (extend x b d)) (keys D T).
Proof.
  intros Wx Lx Hb Hx Hh. assert (Nx : x <> []) by (intro E; rewrite E in Lx; cbn in Lx; lia).
  assert (G : forall ent d0 b0, In ent T -> (b0 < 4)%N -> e_has_ext (e_exts D ent) (dirb d0) b0 = true ->
            In (ck (extend (e_key D ent) b0 d0)) (keys D T)).
  { intros ent d0 b0 Hin Hb0 Hh0. pose proof (Hcl ent d0 b0 Hin Hb0 Hh0) as Hn.
    assert (E : fst (kcanon_flip st (extend (e_key D ent) b0 d0)) = ck (extend (e_key D ent) b0 d0)).
    { unfold kcanon_flip, canon_k, canon_flip, canon. destruct st; [reflexivity|].
      now destruct (dna_ltb (extend (e_key D ent) b0 d0) (rc (extend (e_key D ent) b0 d0))). }
    rewrite E in Hn. destruct (get_id D T (ck (extend (e_key D ent) b0 d0))) as [j|] eqn:Ej; [|congruence].
    destruct (get_id_Some D T _ _ Ej) as [yent [Hj Hk]]. rewrite <- Hk. unfold keys. apply in_map. eapply nth_error_In; eauto. }
  destruct (oexts_inv D K st T Hok Hsym Hpal x e Hx) as (ent & Hin & _ & _ & [[-> ->]|(Hne & Hs & Hk & ->)]).
  - now apply G.
  - pose proof (ok_exts _ _ _ _ Hok _ Hin) as He. rewrite has_ext_rc' in Hh by auto.
    pose proof (G ent _ _ Hin (comp_lt4 b) Hh) as H. rewrite Hk, <- KmerAlgebra.rc_extend in H by exact Nx.
    rewrite (ck_rc D K st T Hok Hsym Hpal) in H; auto. now apply extend_wf.
Qed.

(* ---- where the target of an end extension sits ---- *)
Definition tx (u : node D) (s : dir) : dna := term_kmer K (nseq u) s.
Definition ty (u : node D) (s : dir) (b : N) : dna := extend (tx u s) b s.
Definition tc (u : node D) (s : dir) : N := outer (tx u s) (dflip s).

Lemma tx_ok u s : In u nodes -> length (tx u s) = K /\ wf_dna (tx u s) /\ tx u s <> [].
Proof.
  intro Hu. destruct (vnode_len_wf u Hu) as [L W]. destruct (term_kmer_ok K _ s W L) as [Lx Wx]. fold (tx u s) in Lx, Wx.
  repeat split; auto. intro E. rewrite E in Lx. cbn in Lx. lia.
Qed.
Lemma ty_ok u s b : In u nodes -> (b < 4)%N ->
  length (ty u s b) = K /\ wf_dna (ty u s b) /\ ty u s b <> [] /\ (tc u s < 4)%N /\ extend (ty u s b) (tc u s) (dflip s) = tx u s.
Proof.
  intros Hu Hb. destruct (tx_ok u s Hu) as (Lx & Wx & Nx).
  assert (Ly : length (ty u s b) = K) by (unfold ty; rewrite KmerAlgebra.extend_length; auto).
  repeat split; auto.
  - now apply extend_wf.
  - intro E. rewrite E in Ly. cbn in Ly. lia.
  - unfold tc. destruct (dflip s); cbn [outer]; [apply wf_hd | apply wf_last]; auto.
  - unfold ty, tc. now apply KmerAlgebra.extend_back.
Qed.
(* the position of x in its node *)
Lemma tx_pos u s : In u nodes -> exists q, q + K <= length (nseq u) /\ tx u s = kmer_at K (nseq u) q /\
  match s with DLeft => q = 0 | DRight => q + K = length (nseq u) end.
Proof.
  intro Hu. destruct (vnode_len_wf u Hu) as [L W]. unfold tx. destruct s; cbn [term_kmer]; unfold first_kmer, last_kmer.
  - exists 0. repeat split; lia.
  - exists (length (nseq u) - K). repeat split; lia.
Qed.
Lemma sym_at_y u s b ex ey : In u nodes -> (b < 4)%N -> oexts (tx u s) = Some ex -> e_has_ext ex (dirb s) b = true ->
  oexts (ty u s b) = Some ey -> kpal st (ty u s b) = false -> e_has_ext ey (dirb (dflip s)) (tc u s) = true.
Proof.
  intros Hu Hb Hx Hh Hy P. destruct (tx_ok u s Hu) as (Lx & Wx & Nx).
  now destruct (osym_frame D K st HK T Hok Hsym Hpal (tx u s) s b ex ey Wx Lx Hb Hx Hh Hy) as [H _]; apply H.
Qed.

(* an occurrence of y itself is the end of its node on the side facing x *)
Lemma target_fwd u s b ex m p : In u nodes -> (b < 4)%N -> oexts (tx u s) = Some ex -> e_has_ext ex (dirb s) b = true ->
  In m nodes -> p + K <= length (nseq m) -> kmer_at K (nseq m) p = ty u s b ->
  term_kmer K (nseq m) (dflip s) = ty u s b.
Proof.
  intros Hu Hb Hx Hh Hm Hp Ey. destruct (ty_ok u s b Hu Hb) as (Ly & Wy & Ny & Hc4 & Hback).
  destruct (tx_pos u s Hu) as (q & Hq & Exq & Hpos). destruct (vnode_len_wf m Hm) as [Lm Wm].
  pose proof (fun ey => sym_at_y u s b ex ey Hu Hb Hx Hh) as Hsym_y.
  destruct s; cbn [dflip term_kmer dirb] in *.
  - (* s = Left: y must be the last window of m *)
    unfold last_kmer. destruct (Nat.eq_dec (p + K) (length (nseq m))) as [El|El]; [rewrite <- Ey; f_equal; lia|]. exfalso.
    destruct (inner_right m p Hm ltac:(lia)) as (e & a & He & Hn & Hha & Ha & Enext & Pp).
    rewrite Ey in He, Enext, Pp. pose proof (Hsym_y e He Pp) as Hs.
    assert (a = tc u DLeft) by (apply (unique_ext_ e true); auto using (oexts_lt__ _ _ He)). subst a.
    rewrite Hback, Exq in Enext. apply (f_equal ck) in Enext. apply (win_inj2 m u (S p) q Hm Hu) in Enext; lia.
  - (* s = Right: y must be the first window of m *)
    unfold first_kmer. destruct p as [|p']; [exact Ey|]. exfalso.
    destruct (inner_left m p' Hm ltac:(lia)) as (e & a & He & Hn & Hha & Ha & Eprev & Pp).
    rewrite Ey in He, Eprev, Pp. pose proof (Hsym_y e He Pp) as Hs.
    assert (a = tc u DRight) by (apply (unique_ext_ e false); auto using (oexts_lt__ _ _ He)). subst a.
    rewrite Hback, Exq in Eprev. apply (f_equal ck) in Eprev. apply (win_inj2 m u p' q Hm Hu) in Eprev; try lia.
    destruct Eprev as [-> ->]. lia.
Qed.

(* an occurrence of the reverse complement of y is the end of its node on the side s *)
Lemma target_rc u s b ex m p ey : In u nodes -> (b < 4)%N -> oexts (tx u s) = Some ex -> e_has_ext ex (dirb s) b = true ->
  st = false -> In m nodes -> p + K <= length (nseq m) -> kmer_at K (nseq m) p = rc (ty u s b) -> ty u s b <> rc (ty u s b) ->
  oexts (ty u s b) = Some ey -> term_kmer K (nseq m) s = rc (ty u s b).
Proof.
  intros Hu Hb Hx Hh Hst Hm Hp Ey Hne Hy. destruct (ty_ok u s b Hu Hb) as (Ly & Wy & Ny & Hc4 & Hback).
  destruct (tx_ok u s Hu) as (Lx & Wx & Nx).
  destruct (tx_pos u s Hu) as (q & Hq & Exq & Hpos). destruct (vnode_len_wf m Hm) as [Lm Wm].
  assert (Py : kpal st (ty u s b) = false).
  { destruct (kpal st (ty u s b)) eqn:P; [|reflexivity]. apply kpal_iff in P as [_ P]. contradiction. }
  pose proof (sym_at_y u s b ex ey Hu Hb Hx Hh Hy Py) as Hs.
  pose proof (oexts_rc D K st T Hok Hsym Hpal _ ey Wy Hst Hne Hy) as Hry.
  pose proof (oexts_lt__ _ _ Hy) as Ley.
  assert (Hrx : rc (tx u s) = extend (rc (ty u s b)) (comp (tc u s)) s).
  { rewrite <- Hback at 1. rewrite KmerAlgebra.rc_extend by exact Ny. now rewrite dflip_dflip. }
  assert (Hxpal : rc (tx u s) = tx u s -> length (nseq u) = K).
  { intro E. apply (vnode_pal u (tx u s) Hu).
    - rewrite Exq. now apply in_kmers_at__.
    - apply kpal_iff. split; [exact Hst | now symmetry]. }
  destruct s; cbn [dflip term_kmer dirb] in *.
  - (* s = Left: rc y must be the first window of m *)
    unfold first_kmer. destruct p as [|p']; [exact Ey|]. exfalso.
    destruct (inner_left m p' Hm ltac:(lia)) as (e & a & He & Hn & Hha & Ha & Eprev & Pp).
    rewrite Ey, Hry in He. injection He as <-.
    assert (Hs' : e_has_ext (e_rc ey) false (comp (tc u DLeft)) = true).
    { rewrite (has_ext_rc' ey DLeft) by auto using comp_lt4. cbn [dflip dirb]. now rewrite comp_involutive. }
    assert (a = comp (tc u DLeft)) by (apply (unique_ext_ (e_rc ey) false); auto using comp_lt4, rc_lt256). subst a.
    rewrite Ey, <- Hrx in Eprev.
    assert (E : ck (kmer_at K (nseq m) p') = ck (kmer_at K (nseq u) q)).
    { rewrite Eprev, <- Exq. now apply (ck_rc D K st T Hok Hsym Hpal). }
    apply (win_inj2 m u p' q Hm Hu) in E; try lia. destruct E as [-> ->].
    rewrite <- Exq in Eprev. specialize (Hxpal (eq_sym Eprev)). lia.
  - (* s = Right: rc y must be the last window of m *)
    unfold last_kmer. destruct (Nat.eq_dec (p + K) (length (nseq m))) as [El|El]; [rewrite <- Ey; f_equal; lia|]. exfalso.
    destruct (inner_right m p Hm ltac:(lia)) as (e & a & He & Hn & Hha & Ha & Enext & Pp).
    rewrite Ey, Hry in He. injection He as <-.
    assert (Hs' : e_has_ext (e_rc ey) true (comp (tc u DRight)) = true).
    { rewrite (has_ext_rc' ey DRight) by auto using comp_lt4. cbn [dflip dirb]. now rewrite comp_involutive. }
    assert (a = comp (tc u DRight)) by (apply (unique_ext_ (e_rc ey) true); auto using comp_lt4, rc_lt256). subst a.
    rewrite Ey, <- Hrx in Enext.
    assert (E : ck (kmer_at K (nseq m) (S p)) = ck (kmer_at K (nseq u) q)).
    { rewrite Enext, <- Exq. now apply (ck_rc D K st T Hok Hsym Hpal). }
    apply (win_inj2 m u (S p) q Hm Hu) in E; try lia. destruct E as [-> Eq].
    rewrite Eq, <- Exq in Enext. specialize (Hxpal (eq_sym Enext)). lia.
Qed.

(* the target is a node end: of the facing side as it is, or - unstranded - of the same side reverse-complemented *)
Theorem target_is_end u s b ex : In u nodes -> (b < 4)%N -> oexts (tx u s) = Some ex -> e_has_ext ex (dirb s) b = true ->
  exists m, In m nodes /\
  (term_kmer K (nseq m) (dflip s) = ty u s b \/ (st = false /\ term_kmer K (nseq m) s = rc (ty u s b))).
Proof.
  intros Hu Hb Hx Hh. destruct (ty_ok u s b Hu Hb) as (Ly & Wy & Ny & Hc4 & Hback). destruct (tx_ok u s Hu) as (Lx & Wx & Nx).
  pose proof (frame_closed (tx u s) ex s b Wx Lx Hb Hx Hh) as Hk. fold (ty u s b) in Hk.
  destruct (oexts_of_key D K st T Hok _ Wy Hk) as [ey Hy].
  destruct (key_occurs _ Hk) as (m & p & Hm & Hp & E).
  destruct (vnode_win m p Hm Hp) as (Lw & Ww & _).
  exists m. split; [exact Hm|].
  change (cn st (kmer_at K (nseq m) p) = cn st (ty u s b)) in E. apply cn_eq_cases in E; auto.
  destruct (list_eq_dec N.eq_dec (ty u s b) (rc (ty u s b))) as [Ep|Ep].
  - left. apply (target_fwd u s b ex m p); auto. destruct E as [E|[_ E]]; congruence.
  - destruct E as [E|[Hst E]]; [left; now apply (target_fwd u s b ex m p) | right; split; [exact Hst|]; now apply (target_rc u s b ex m p ey)].
Qed.

(* ---- exts_resolvable, valid_graph ---- *)
Lemma in_nodes_index m : In m nodes -> exists v, v < length nodes /\ nth_error nodes v = Some m.
Proof. intro H. destruct (In_nth_error _ _ H) as [v Hv]. exists v. split; [apply nth_error_Some; congruence | exact Hv]. Qed.

Theorem nodes_exts_resolvable : exts_resolvable D K st nodes.
Proof.
  intros iu s b Hiu Hbb Hh.
  unfold EdgeSpec.node_exts, EdgeSpec.node_seq in *. unfold graph, gnode, node in *.
  destruct (@nth_error (dna * N * D)%type nodes iu) as [u|] eqn:Eu; [|exfalso; apply nth_error_None in Eu; lia].
  assert (Hu : In u nodes) by (eapply nth_error_In; eauto).
  assert (Hb : (b < 4)%N) by (unfold bases in Hbb; cbn in Hbb; destruct Hbb as [<-|[<-|[<-|[<-|[]]]]]; lia).
  destruct (node_term_exts D reduce join K st HK T Hok Hsym Hpal nodes Hc u s Hu) as (ex & Hx & Hexb).
  rewrite (Hexb b Hbb) in Hh.
  destruct (target_is_end u s b ex Hu Hb Hx Hh) as (m & Hm & Hcase). unfold ty, tx in Hcase.
  destruct (in_nodes_index m Hm) as (v & Hv & Ev).
  intro Hnone. apply find_link_none_iff in Hnone as [N1 N2].
  destruct Hcase as [E|[Hst E]].
  - apply (N1 v). split; [exact Hv|]. unfold EdgeSpec.node_seq. unfold graph, gnode, node in *. rewrite Ev. exact E.
  - apply (N2 Hst v). split; [exact Hv|]. unfold EdgeSpec.node_seq. unfold graph, gnode, node in *. rewrite Ev. exact E.
Qed.

Theorem nodes_valid_graph : valid_graph D K st nodes.
Proof. split; [exact (nodes_graph_ok D reduce join K st HK T Hok Hsym Hpal nodes Hc) | exact nodes_exts_resolvable]. Qed.
End Valid.

(* closed form: for every table meeting the hypotheses compress_kmers returns a valid graph *)
Theorem compress_valid_graph D reduce join K st : 1 <= K -> (forall a b, join a b = join b a) -> forall T : table D,
  tbl_ok D K st T -> CompressSpec.exts_sym D st T -> exts_sym_pal D st T -> exts_closed D st T ->
  exists nodes, compress_kmers D reduce join st T = Some nodes /\ valid_graph D K st nodes.
Proof.
  intros HK Hj T Hok Hsym Hpal Hcl.
  destruct (compress_refines D reduce join K st HK T Hok Hsym) as [nodes [Hc _]].
  exists nodes. split; [exact Hc|]. exact (nodes_valid_graph D reduce join K st HK Hj T Hok Hsym Hpal Hcl nodes Hc).
Qed.
Print Assumptions compress_valid_graph.
