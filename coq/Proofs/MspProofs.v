(* C08: proofs about the msp_sequence model (Algo/Msp.v) on top of the scanner theorems of C07. *)
From Coq Require Import NArith List Bool Arith Lia.
From DBG Require Import Gen.SourceConsts Spec.Dna Spec.ScanSpec Algo.Scan Algo.Msp Proofs.ListFacts Proofs.KmerLanes Proofs.ScanProofs.
Import ListNotations.
Open Scope nat_scope.

(* ---------------------------------------------------------------- list facts *)
Lemma in_firstn' {A} (x : A) n l : In x (firstn n l) -> In x l.
Proof. intro H. rewrite <- (firstn_skipn n l). apply in_or_app. now left. Qed.
Lemma in_skipn' {A} (x : A) n l : In x (skipn n l) -> In x l.
Proof. intro H. rewrite <- (firstn_skipn n l). apply in_or_app. now right. Qed.
Lemma wf_dna_sub i n (l : dna) : wf_dna l -> wf_dna (sub i n l).
Proof.
  unfold wf_dna, sub. rewrite !Forall_forall. intros H b Hb. apply H.
  apply in_firstn' in Hb. apply (in_skipn' _ _ _ Hb).
Qed.

Lemma sub_sub {A} i k j p (l : list A) : j + p <= k -> sub j p (sub i k l) = sub (i + j) p l.
Proof.
  intro H. unfold sub. rewrite skipn_firstn_comm, firstn_firstn, skipn_skipn.
  f_equal. lia.
Qed.

Lemma wf_nth (l : dna) i : wf_dna l -> (nth i l 0 < 4)%N.
Proof.
  intro H. destruct (lt_dec i (length l)) as [Hi|Hi].
  - unfold wf_dna in H. rewrite Forall_forall in H. apply H. now apply nth_In.
  - rewrite nth_overflow by lia. lia.
Qed.

(* ---------------------------------------------------------------- canonical form *)
Lemma rank_inj a b : length a = length b -> wf_dna a -> wf_dna b -> rank a = rank b -> a = b.
Proof.
  intros Hl Ha Hb H. apply dna_compare_eq. rewrite <- rank_compare by assumption. rewrite H. apply N.compare_refl.
Qed.

Lemma dna_compare_antisym a b : length a = length b -> wf_dna a -> wf_dna b ->
  dna_compare b a = CompOpp (dna_compare a b).
Proof.
  intros Hl Ha Hb. rewrite <- !rank_compare by (auto; lia). apply N.compare_antisym.
Qed.

Lemma canon_rc x : wf_dna x -> canon (rc x) = canon x.
Proof.
  intro H. unfold canon, dna_ltb. rewrite rc_involutive by exact H.
  rewrite (dna_compare_antisym x (rc x)) by (rewrite ?rc_length; auto using rc_wf).
  destruct (dna_compare x (rc x)) eqn:E; cbn [CompOpp]; try reflexivity.
  apply dna_compare_eq in E. now rewrite <- E.
Qed.

(* ---------------------------------------------------------------- the score of msp_sequence *)
Lemma argmin_first_spec (score : dna -> N) r : forall best,
  In (argmin_first score best r) (best :: r) /\
  forall z, In z (best :: r) -> (score (argmin_first score best r) <= score z)%N.
Proof.
  induction r as [|y r IH]; intro best.
  - cbn. split; [auto|]. intros z [<-|[]]. lia.
  - cbn [argmin_first]. destruct (N.ltb_spec (score y) (score best)) as [L|L].
    + destruct (IH y) as [I M]. split.
      * destruct I as [<-|I]; [right; left; reflexivity|right; right; exact I].
      * intros z [<-|[<-|Hz]].
        -- apply N.le_trans with (score y); [apply M; now left|lia].
        -- apply M. now left.
        -- apply M. now right.
    + destruct (IH best) as [I M]. split.
      * destruct I as [<-|I]; [left; reflexivity|right; right; exact I].
      * intros z [<-|[<-|Hz]].
        -- apply M. now left.
        -- apply N.le_trans with (score best); [apply M; now left|exact L].
        -- apply M. now right.
Qed.

Lemma in_kmers p (x y : dna) : In y (kmers p x) <-> exists j, j + p <= length x /\ y = sub j p x.
Proof.
  unfold kmers, kmer_at. rewrite in_map_iff. split.
  - intros [j [<- Hj]]. apply in_seq in Hj. exists j. split; [lia|reflexivity].
  - intros [j [Hj ->]]. exists j. split; [reflexivity|]. apply in_seq. lia.
Qed.

Lemma shard_spec (score : dna -> N) p x : p <= length x ->
  exists a, shard_of score p x = rank (canon a) /\ In a (kmers p x) /\
            forall z, In z (kmers p x) -> (score a <= score z)%N.
Proof.
  intro H. unfold shard_of. destruct (kmers p x) as [|y r] eqn:E.
  - exfalso. assert (I : In (sub 0 p x) (kmers p x)) by (apply in_kmers; exists 0; split; [lia|reflexivity]).
    rewrite E in I. destruct I.
  - destruct (argmin_first_spec score r y) as [I M]. exists (argmin_first score y r). auto.
Qed.

Section Shard.
  Variable p : nat.
  Variable perm : option (list N).
  Variable rcmode : bool.
  (* the permutation table is injective and has one entry per p-mer (None = the default identity table) *)
  Definition perm_ok : Prop := match perm with Some t => NoDup t /\ length t = 4 ^ p | None => True end.
  Hypothesis Hperm : perm_ok.

  Let score := msp_score p perm rcmode.
  Definition pval (x : dna) : N :=
    match perm with Some t => nth (N.to_nat (rank x)) t 0%N | None => rank x end.

  Lemma score_pval x : score x = if rcmode then N.min (pval x) (pval (rc x)) else pval x.
  Proof. unfold score, msp_score, pval, perm_score. destruct perm; reflexivity. Qed.

  Lemma pval_inj a b : length a = p -> length b = p -> wf_dna a -> wf_dna b -> pval a = pval b -> a = b.
  Proof.
    intros La Lb Wa Wb H. apply rank_inj; try assumption; [lia|].
    unfold pval in H. unfold perm_ok in Hperm. destruct perm as [t|]; [|exact H]. destruct Hperm as [ND Lt].
    assert (B : forall c, length c = p -> wf_dna c -> N.to_nat (rank c) < length t).
    { intros c Lc Wc. pose proof (rank_lt c Wc) as R. rewrite Lc in R. rewrite Lt.
      replace (4 ^ p) with (N.to_nat (4 ^ N.of_nat p)%N) by (rewrite N2Nat.inj_pow, Nat2N.id; reflexivity). lia. }
    apply N2Nat.inj. apply (proj1 (NoDup_nth t 0%N) ND); auto.
  Qed.

  Lemma score_rc x : rcmode = true -> wf_dna x -> score (rc x) = score x.
  Proof. intros R W. rewrite !score_pval, R, rc_involutive by exact W. apply N.min_comm. Qed.

  (* ties of the score only occur inside one canonical class *)
  Lemma score_tie a b : length a = p -> length b = p -> wf_dna a -> wf_dna b -> score a = score b ->
    canon a = canon b.
  Proof.
    intros La Lb Wa Wb H. rewrite !score_pval in H. destruct rcmode.
    - assert (Lra : length (rc a) = p) by now rewrite rc_length.
      assert (Lrb : length (rc b) = p) by now rewrite rc_length.
      pose proof (rc_wf a) as Wra. pose proof (rc_wf b) as Wrb.
      destruct (N.min_spec (pval a) (pval (rc a))) as [[_ Ea]|[_ Ea]];
      destruct (N.min_spec (pval b) (pval (rc b))) as [[_ Eb]|[_ Eb]]; rewrite Ea, Eb in H;
      apply pval_inj in H; try assumption.
      + now rewrite H.
      + rewrite H. now apply canon_rc.
      + rewrite <- (canon_rc a Wa), H. reflexivity.
      + rewrite <- (canon_rc a Wa), <- (canon_rc b Wb), H. reflexivity.
    - apply pval_inj in H; try assumption. now rewrite H.
  Qed.

  (* any score-minimal p-mer of x determines the shard of x *)
  Lemma shard_of_minimal x mz : 1 <= p -> p <= length x -> wf_dna x ->
    In mz (kmers p x) -> (forall z, In z (kmers p x) -> (score mz <= score z)%N) ->
    rank (canon mz) = shard_of score p x.
  Proof.
    intros Hp Hx W I M. destruct (shard_spec score p x Hx) as [a [E [Ia Ma]]]. rewrite E.
    f_equal. apply score_tie.
    - apply in_kmers in I as [j [Hj ->]]. now apply sub_length.
    - apply in_kmers in Ia as [j [Hj ->]]. now apply sub_length.
    - apply in_kmers in I as [j [Hj ->]]. now apply wf_dna_sub.
    - apply in_kmers in Ia as [j [Hj ->]]. now apply wf_dna_sub.
    - apply N.le_antisymm; [apply M; exact Ia|apply Ma; exact I].
  Qed.

  (* strand symmetry *)
  Lemma in_kmers_rc x y : wf_dna x -> In y (kmers p x) -> In (rc y) (kmers p (rc x)).
  Proof.
    intros W I. apply in_kmers in I as [j [Hj ->]]. apply in_kmers. rewrite rc_length.
    exists (length x - p - j). split; [lia|].
    pose proof (kmer_at_rc p x (length x - p - j)) as E. unfold kmer_at in E. rewrite E by lia.
    f_equal. f_equal. lia.
  Qed.

  Theorem bucket_rc x : rcmode = true -> 1 <= p -> p <= length x -> wf_dna x ->
    shard_of score p (rc x) = shard_of score p x.
  Proof.
    intros R Hp Hx W.
    destruct (shard_spec score p (rc x)) as [b [E [Ib Mb]]]; [now rewrite rc_length|]. rewrite E.
    assert (Wb : wf_dna b) by (apply in_kmers in Ib as [j [Hj ->]]; apply wf_dna_sub, rc_wf).
    rewrite <- (canon_rc b Wb). apply shard_of_minimal; try assumption.
    - pose proof (in_kmers_rc (rc x) b (rc_wf x) Ib) as I. now rewrite rc_involutive in I.
    - intros z Iz. rewrite score_rc by assumption.
      assert (Wz : wf_dna z) by (apply in_kmers in Iz as [j [Hj ->]]; now apply wf_dna_sub).
      rewrite <- (score_rc z R Wz). apply Mb. now apply in_kmers_rc.
  Qed.
End Shard.

(* ---------------------------------------------------------------- msp_sequence *)
Lemma from_slice_bounds_flank sq st ln : wf_dna sq -> from_slice_bounds sq st ln = flank_exts sq st ln.
Proof.
  intro W. unfold from_slice_bounds, flank_exts.
  assert (E : forall b, (b < 4)%N -> ((2 ^ b * 2 ^ msp_exts_shift) mod 256 = 16 * 2 ^ b)%N).
  { intros b Hb. assert (C : b = 0%N \/ b = 1%N \/ b = 2%N \/ b = 3%N) by lia.
    destruct C as [ -> | [ -> | [ -> | -> ] ] ]; reflexivity. }
  destruct (st + ln <? length sq).
  - rewrite E by now apply wf_nth. lia.
  - cbn. lia.
Qed.

Section MspSequence.
  Variable max_len : N.
  Variable sq : dna.
  Variable k p : nat.
  Variable perm : option (list N).
  Variable rcmode : bool.
  Hypothesis Hp : 1 <= p.
  Hypothesis Hpk : p <= k.
  Hypothesis Hkm : k <= length sq.
  Hypothesis H32 : (N.of_nat (length sq) < 2 ^ msp_assert_shift)%N.
  Hypothesis H16 : (N.of_nat (2 * k - p) < 2 ^ msp_len_bits)%N.
  Hypothesis Hmax : (N.of_nat (2 * k - p) <= max_len)%N.
  Hypothesis Wsq : wf_dna sq.

  Let score := msp_score p perm rcmode.

  (* msp_sequence is the map of the scanner's intervals; their positions tile the read (C07) *)
  Lemma msp_sequence_scan :
    exists ivs, scan score sq k p = Some ivs /\
                msp_sequence max_len sq k p perm rcmode = Some (map (msp_piece sq) ivs) /\
                scan_ok score sq k p (map iv_nat ivs) /\ covered_once sq k (map iv_nat ivs).
  Proof.
    destruct (scan_spec score sq k p Hp Hpk Hkm H32 H16) as [ivs [E [OK C]]].
    exists ivs. split; [exact E|]. split; [|split; assumption].
    unfold msp_sequence. replace (p <=? 2 * k) with true by (symmetry; apply Nat.leb_le; lia).
    replace (N.of_nat (2 * k - p) <=? max_len)%N with true by (symmetry; apply N.leb_le; exact Hmax).
    replace (length sq <? k) with false by (symmetry; apply Nat.ltb_ge; exact Hkm).
    cbn [andb]. fold score. rewrite scan_checked_scan, E. reflexivity.
  Qed.

  (* each emitted piece is the exact substring at its tiling position, with the flanking bases as extensions *)
  Theorem piece_exact :
    exists ivs, msp_sequence max_len sq k p perm rcmode = Some (map (msp_piece sq) ivs) /\
      scan_ok score sq k p (map iv_nat ivs) /\ covered_once sq k (map iv_nat ivs) /\
      forall x, In x ivs ->
        let st := s_start (iv_nat x) in
        let ln := s_len (iv_nat x) in
        st + ln <= length sq /\
        msp_piece sq x = ((bucket_of (iv_minimizer x) mod 2 ^ msp_bucket_bits)%N, flank_exts sq st ln, sub st ln sq) /\
        length (sub st ln sq) = ln.
  Proof.
    destruct msp_sequence_scan as [ivs [E [M [OK C]]]]. exists ivs. split; [exact M|]. split; [exact OK|].
    split; [exact C|]. intros x Hx st ln.
    assert (B : st + ln <= length sq).
    { destruct OK as [_ [F Ch]].
      assert (F' : Forall (len_ok k p) (map iv_nat ivs)) by (eapply Forall_impl; [|exact F]; cbn; tauto).
      pose proof (chain_bounds score sq k p _ Ch F') as Bd. rewrite Forall_forall in Bd.
      apply (Bd (iv_nat x)). now apply in_map. }
    split; [exact B|]. split; [|now apply sub_length].
    unfold msp_piece. fold st ln. rewrite from_slice_bounds_flank by exact Wsq. reflexivity.
  Qed.

  (* the bucket of the piece covering ANY k-mer start i is a function of the k-mer at i alone *)
  Theorem bucket_pure : perm_ok p perm ->
    exists ivs, msp_sequence max_len sq k p perm rcmode = Some (map (msp_piece sq) ivs) /\
      covered_once sq k (map iv_nat ivs) /\
      forall x, In x ivs -> forall i, kmer_in k (iv_nat x) i ->
        fst (fst (msp_piece sq x)) = (shard_of score p (kmer_at k sq i) mod 2 ^ msp_bucket_bits)%N.
  Proof.
    intro Hperm. destruct msp_sequence_scan as [ivs [E [M [OK C]]]]. exists ivs. split; [exact M|].
    split; [exact C|]. intros x Hx i Hi.
    destruct OK as [_ [F Ch]].
    assert (F' : Forall (len_ok k p) (map iv_nat ivs)) by (eapply Forall_impl; [|exact F]; cbn; tauto).
    pose proof (chain_bounds score sq k p _ Ch F') as Bd. rewrite Forall_forall in Bd, F.
    assert (Ix : In (iv_nat x) (map iv_nat ivs)) by now apply in_map.
    specialize (Bd _ Ix). destruct (F _ Ix) as [L [[Emin Hin] Hmin]].
    destruct (Hin i Hi) as [Q1 Q2]. unfold kmer_in in Hi.
    set (kx := kmer_at k sq i).
    assert (Lkx : length kx = k) by (apply sub_length; lia).
    unfold msp_piece. cbn [fst]. unfold bucket_of.
    change (iv_minimizer x) with (s_min (iv_nat x)).
    f_equal. apply (shard_of_minimal p perm rcmode Hperm kx); try lia.
    - now apply wf_dna_sub.
    - apply in_kmers. exists (s_mpos (iv_nat x) - i). split; [lia|].
      rewrite Emin. unfold kx, kmer_at. rewrite sub_sub by lia. f_equal. lia.
    - intros z Iz. apply in_kmers in Iz as [j [Hj ->]]. unfold kx, kmer_at. rewrite sub_sub by lia.
      apply Hmin. unfold pmer_in. lia.
  Qed.
End MspSequence.
