(* Proofs for property C19 about the model Algo/BBHash.v. *)
From Coq Require Import NArith List Bool Arith Lia Relations.
From DBG Require Import Spec.Dna Spec.GraphIndex Algo.BBHash.
Import ListNotations.
Local Open Scope nat_scope.

Lemma lset_length {A} (l : list A) i x : length (lset l i x) = length l.
Proof. revert i; induction l; destruct i; cbn; auto. Qed.
