(* Proofs for property C19 about the model Algo/BBHash.v. *)
From Coq Require Import NArith List Bool Arith Lia Relations Permutation.
From DBG Require Import Spec.Dna Spec.GraphIndex Algo.BBHash Proofs.ListFacts Proofs.KmerLanes.
Import ListNotations.
Local Open Scope nat_scope.

(* ------------------------------------------------------------------ lists *)
Lemma lset_length {A} (l : list A) i x : length (lset l i x) = length l.
Proof. revert i; induction l; destruct i; cbn; auto. Qed.

Lemma nth_lset {A} (l : list A) i j x d : i < length l ->
  nth j (lset l i x) d = if j =? i then x else nth j l d.
Proof.
  revert i j; induction l as [|a l IH]; intros i j H; cbn in H; [lia|].
  destruct i, j; cbn; auto. apply IH; lia.
Qed.

Lemma nth_repeat_if {A} (x d : A) n i : nth i (repeat x n) d = if i <? n then x else d.
Proof.
  revert i; induction n; intros i; cbn; [destruct i; auto|].
  destruct i; auto. rewrite IHn. reflexivity.
Qed.

Lemma nth_map_seq {A} (f : nat -> A) n s d : s < n -> nth s (map f (seq 0 n)) d = f s.
Proof.
  intros H. rewrite (nth_indep _ d (f 0)) by (rewrite map_length, seq_length; lia).
  rewrite map_nth, seq_nth by lia. reflexivity.
Qed.

Lemma bget_bset v s t x : s < length v -> bget (bset v s x) t = if t =? s then x else bget v t.
Proof. intros H. unfold bget, bset. apply nth_lset; auto. Qed.
Lemma bset_length v s x : length (bset v s x) = length v.
Proof. apply lset_length. Qed.
Lemma bget_bnew size s : bget (bnew size) s = false.
Proof. unfold bget, bnew. rewrite nth_repeat_if. destruct (s <? size); auto. Qed.
Lemma bget_overflow v s : length v <= s -> bget v s = false.
Proof. intros. apply nth_overflow; auto. Qed.

Lemma bv_ext (v : bv) (f : nat -> bool) size : length v = size -> (forall s, s < size -> bget v s = f s) ->
  v = map f (seq 0 size).
Proof.
  intros L H. apply (nth_ext _ _ false false).
  - rewrite map_length, seq_length; auto.
  - intros s Hs. rewrite nth_map_seq by lia. apply H. lia.
Qed.

(* ------------------------------------------------------------------ number of keys on a slot *)
Definition cnt (s : nat) (slots : list nat) : nat := count_occ Nat.eq_dec slots s.

Lemma cnt_cons s a l : cnt s (a :: l) = (if Nat.eq_dec a s then 1 else 0) + cnt s l.
Proof. unfold cnt; cbn. destruct (Nat.eq_dec a s); auto. Qed.

Lemma cnt_ge1 s l : 1 <= cnt s l -> exists i, i < length l /\ nth i l 0 = s.
Proof.
  induction l as [|a l IH]; rewrite ?cnt_cons; cbn; [unfold cnt; cbn; lia|].
  destruct (Nat.eq_dec a s).
  - intros _. exists 0. split; [lia|auto].
  - intros H. destruct IH as (i & Hi & E); [lia|]. exists (S i). split; [lia|auto].
Qed.
Lemma idx_cnt_ge1 s l i : i < length l -> nth i l 0 = s -> 1 <= cnt s l.
Proof.
  revert i; induction l as [|a l IH]; intros i H E; cbn in H; [lia|]. rewrite cnt_cons.
  destruct i; cbn in E.
  - destruct (Nat.eq_dec a s); lia.
  - specialize (IH i). lia.
Qed.
Lemma cnt_ge2 s l : 2 <= cnt s l ->
  exists i j, i < j /\ j < length l /\ nth i l 0 = s /\ nth j l 0 = s.
Proof.
  induction l as [|a l IH]; [unfold cnt; cbn; lia|]. rewrite cnt_cons.
  destruct (Nat.eq_dec a s).
  - intros H. destruct (cnt_ge1 s l) as (j & Hj & E); [lia|].
    exists 0, (S j). cbn. repeat split; auto; lia.
  - intros H. destruct IH as (i & j & ? & ? & ? & ?); [lia|].
    exists (S i), (S j). cbn. repeat split; auto; lia.
Qed.
Lemma idx2_cnt_ge2 s l i j : i < j -> j < length l -> nth i l 0 = s -> nth j l 0 = s -> 2 <= cnt s l.
Proof.
  revert i j; induction l as [|a l IH]; intros i j Hij Hj Ei Ej; cbn in Hj; [lia|]. rewrite cnt_cons.
  destruct j; [lia|]. destruct i; cbn in Ei, Ej.
  - pose proof (idx_cnt_ge1 s l j). destruct (Nat.eq_dec a s); lia.
  - specialize (IH i j). lia.
Qed.

(* ------------------------------------------------------------------ phase 1 under any interleaving (DESIGN A.5) *)
Section Phase1.
  Variable slots : list nat.
  Variable size : nat.
  Hypothesis slots_lt : forall i, i < length slots -> slot slots i < size.
  Let n := length slots.
  Notation pcn st i := (nth i (pcs st) Ds).
  Notation sl i := (slot slots i).

  Definition post (p : pc) : bool := match p with P2 | Df | Dc => true | _ => false end.

  (* the invariant of every reachable state *)
  Definition Inv (st : st1) : Prop :=
    length (pcs st) = n /\ length (sa st) = size /\ length (sc st) = size /\
    (* I1a *) (forall i, i < n -> post (pcn st i) = true -> bget (sa st) (sl i) = true) /\
    (* I1b/I2 existence *) (forall s, bget (sa st) s = true -> exists i, i < n /\ sl i = s /\ pcn st i = Df) /\
    (* I2 uniqueness *) (forall i j, i < n -> j < n -> sl i = sl j -> pcn st i = Df -> pcn st j = Df -> i = j) /\
    (* I3 *) (forall s, bget (sc st) s = true -> exists i, i < n /\ sl i = s /\ pcn st i = Dc) /\
    (* I4, I5 *) (forall i, i < n -> pcn st i = Ds \/ pcn st i = Dc -> bget (sc st) (sl i) = true).

  Lemma Inv_init : Inv (init1 n size).
  Proof.
    unfold Inv, init1; cbn [pcs sa sc]. unfold bnew at 1 2. rewrite !repeat_length. repeat split; auto.
    - intros i Hi. rewrite nth_repeat_if. apply Nat.ltb_lt in Hi. rewrite Hi. cbn. discriminate.
    - intros s. rewrite bget_bnew. discriminate.
    - intros i j Hi _ _. rewrite nth_repeat_if. apply Nat.ltb_lt in Hi. rewrite Hi. discriminate.
    - intros s. rewrite bget_bnew. discriminate.
    - intros i Hi. rewrite nth_repeat_if. apply Nat.ltb_lt in Hi. rewrite Hi. intros [?|?]; discriminate.
  Qed.
  Ltac pcr Lp Hi := rewrite ?nth_lset by (rewrite Lp; exact Hi).
  (* a witness thread w (with program counter q) survives a step of thread i whose counter was p <> q *)
  Ltac keep_witness w i Lp Hi :=
    exists w; repeat split; auto; pcr Lp Hi;
    let E := fresh "E" in destruct (w =? i) eqn:E; auto; apply Nat.eqb_eq in E; subst w; congruence.

  Lemma Inv_step st st' : step1 slots st st' -> Inv st -> Inv st'.
  Proof.
    intros S (Lp & La & Lc & J1 & J2 & J3 & J4 & J5).
    destruct S as [st i Hi Hpc Hc | st i Hi Hpc | st i Hi Hpc | st i Hi Hpc]; unfold Inv; cbn [pcs sa sc];
      rewrite ?lset_length, ?bset_length; (split; [auto|]); (split; [auto|]); (split; [auto|]);
      fold n in Hi.
    - (* read collide = true *)
      repeat split.
      + intros j Hj. pcr Lp Hi. destruct (j =? i) eqn:E; [discriminate|]. auto.
      + intros s H. destruct (J2 s H) as (w & Hw & Ew & Pw). keep_witness w i Lp Hi.
      + intros x y Hx Hy E. pcr Lp Hi. destruct (x =? i); [discriminate|]. destruct (y =? i); [discriminate|]. auto.
      + intros s H. destruct (J4 s H) as (w & Hw & Ew & Pw). keep_witness w i Lp Hi.
      + intros j Hj. pcr Lp Hi. destruct (j =? i) eqn:E; [|auto]. apply Nat.eqb_eq in E; subst j. auto.
    - (* read collide = false (possibly stale) *)
      repeat split.
      + intros j Hj. pcr Lp Hi. destruct (j =? i) eqn:E; [discriminate|]. auto.
      + intros s H. destruct (J2 s H) as (w & Hw & Ew & Pw). keep_witness w i Lp Hi.
      + intros x y Hx Hy E. pcr Lp Hi. destruct (x =? i); [discriminate|]. destruct (y =? i); [discriminate|]. auto.
      + intros s H. destruct (J4 s H) as (w & Hw & Ew & Pw). keep_witness w i Lp Hi.
      + intros j Hj. pcr Lp Hi. destruct (j =? i) eqn:E; [intros [?|?]; discriminate|auto].
    - (* fetch_or a *)
      assert (Hs : sl i < length (sa st)) by (rewrite La; apply slots_lt; auto).
      repeat split.
      + intros j Hj. rewrite bget_bset by auto. destruct (sl j =? sl i) eqn:E; auto.
        pcr Lp Hi. destruct (j =? i) eqn:E2; [|auto].
        apply Nat.eqb_eq in E2; subst j. rewrite Nat.eqb_refl in E; discriminate.
      + intros s. rewrite bget_bset by auto. destruct (s =? sl i) eqn:E.
        * apply Nat.eqb_eq in E; subst s. intros _. destruct (bget (sa st) (sl i)) eqn:A.
          -- destruct (J2 _ A) as (w & Hw & Ew & Pw). keep_witness w i Lp Hi.
          -- exists i. repeat split; auto. pcr Lp Hi. rewrite Nat.eqb_refl. reflexivity.
        * intros H. destruct (J2 s H) as (w & Hw & Ew & Pw). keep_witness w i Lp Hi.
      + intros x y Hx Hy E. pcr Lp Hi.
        destruct (x =? i) eqn:Ex; destruct (y =? i) eqn:Ey;
          try (apply Nat.eqb_eq in Ex; subst x); try (apply Nat.eqb_eq in Ey; subst y); auto.
        * destruct (bget (sa st) (sl i)) eqn:A; [discriminate|]. intros _ Py.
          rewrite E, J1 in A; auto; [discriminate|]. rewrite Py; reflexivity.
        * destruct (bget (sa st) (sl i)) eqn:A; [discriminate|]. intros Px _.
          rewrite <- E, J1 in A; auto; [discriminate|]. rewrite Px; reflexivity.
      + intros s H. destruct (J4 s H) as (w & Hw & Ew & Pw). keep_witness w i Lp Hi.
      + intros j Hj. pcr Lp Hi. destruct (j =? i) eqn:E; [|auto].
        destruct (bget (sa st) (sl i)); intros [?|?]; discriminate.
    - (* fetch_or collide *)
      assert (Hs : sl i < length (sc st)) by (rewrite Lc; apply slots_lt; auto).
      repeat split.
      + intros j Hj. pcr Lp Hi. destruct (j =? i) eqn:E; [|auto].
        apply Nat.eqb_eq in E; subst j. intros _. apply J1; auto. rewrite Hpc; reflexivity.
      + intros s H. destruct (J2 s H) as (w & Hw & Ew & Pw). keep_witness w i Lp Hi.
      + intros x y Hx Hy E. pcr Lp Hi. destruct (x =? i); [discriminate|]. destruct (y =? i); [discriminate|]. auto.
      + intros s. rewrite bget_bset by auto. destruct (s =? sl i) eqn:E.
        * apply Nat.eqb_eq in E; subst s. intros _. exists i. repeat split; auto. pcr Lp Hi.
          rewrite Nat.eqb_refl; reflexivity.
        * intros H. destruct (J4 s H) as (w & Hw & Ew & Pw). keep_witness w i Lp Hi.
      + intros j Hj. rewrite bget_bset by auto. destruct (sl j =? sl i) eqn:E; auto.
        pcr Lp Hi. destruct (j =? i) eqn:E2; [|auto].
        apply Nat.eqb_eq in E2; subst j. rewrite Nat.eqb_refl in E; discriminate.
  Qed.

  Lemma Inv_reach st : clos_refl_trans _ (step1 slots) (init1 n size) st -> Inv st.
  Proof.
    intros R. apply clos_rt_rtn1 in R. induction R as [|y z S R IH]; [apply Inv_init|].
    eapply Inv_step; eauto.
  Qed.
  (* what a finished thread implies *)
  Lemma done_cases st i : done1 slots st -> i < n -> pcn st i = Ds \/ pcn st i = Df \/ pcn st i = Dc.
  Proof. intros D Hi. specialize (D i Hi). destruct (pcn st i); cbn in D; auto; discriminate. Qed.

  Theorem phase1_final st : clos_refl_trans _ (step1 slots) (init1 n size) st -> done1 slots st ->
    sa st = map (fun s => 1 <=? cnt s slots) (seq 0 size) /\
    sc st = map (fun s => 2 <=? cnt s slots) (seq 0 size).
  Proof.
    intros R D. destruct (Inv_reach st R) as (Lp & La & Lc & J1 & J2 & J3 & J4 & J5).
    assert (DA : forall i, i < n -> bget (sa st) (sl i) = true).
    { intros i Hi. destruct (done_cases st i D Hi) as [P|[P|P]].
      - destruct (J4 (sl i)) as (w & Hw & Ew & Pw); [apply J5; auto|].
        rewrite <- Ew. apply J1; auto. rewrite Pw; reflexivity.
      - apply J1; auto. rewrite P; reflexivity.
      - apply J1; auto. rewrite P; reflexivity. }
    split; apply bv_ext; auto; intros s Hs.
    - destruct (bget (sa st) s) eqn:A; symmetry.
      + destruct (J2 s A) as (w & Hw & Ew & _). apply Nat.leb_le. eapply idx_cnt_ge1; eauto.
      + apply Nat.leb_gt. destruct (le_lt_dec 1 (cnt s slots)) as [H|H]; [|auto].
        destruct (cnt_ge1 _ _ H) as (i & Hi & E). subst s. change (nth i slots 0) with (sl i) in A.
        rewrite DA in A; auto. discriminate.
    - destruct (bget (sc st) s) eqn:C; symmetry.
      + destruct (J4 s C) as (w & Hw & Ew & Pw).
        assert (A : bget (sa st) s = true) by (rewrite <- Ew; apply J1; auto; rewrite Pw; reflexivity).
        destruct (J2 s A) as (w' & Hw' & Ew' & Pw'). apply Nat.leb_le.
        destruct (Nat.lt_total w w') as [L|[L|L]].
        * eapply (idx2_cnt_ge2 s slots w w'); eauto.
        * subst w'. congruence.
        * eapply (idx2_cnt_ge2 s slots w' w); eauto.
      + apply Nat.leb_gt. destruct (le_lt_dec 2 (cnt s slots)) as [H|H]; [|auto].
        destruct (cnt_ge2 _ _ H) as (i & j & Hij & Hj & Ei & Ej).
        change (nth i slots 0) with (sl i) in Ei. change (nth j slots 0) with (sl j) in Ej.
        assert (Hi : i < n) by (unfold n; lia).
        assert (F : forall x, x < n -> sl x = s -> pcn st x = Df).
        { intros x Hx Ex. destruct (done_cases st x D Hx) as [P|[P|P]]; auto;
            rewrite <- Ex, J5 in C; auto; discriminate. }
        assert (i = j) by (apply J3; auto; try congruence; try lia; apply F; auto; lia). lia.
  Qed.
End Phase1.

(* ------------------------------------------------------------------ phase 2 (filter) under any interleaving *)
(* the redo keys: those whose slot is marked in [c], in input order *)
Definition redo_spec (c : bv) (keys : list key) (slots : list nat) : list key :=
  map fst (filter (fun ks => bget c (snd ks)) (combine keys slots)).

Lemma collect_spec c : forall keys slots ps, length slots = length keys -> length ps = length keys ->
  (forall i, i < length keys -> nth i ps Qnone = if bget c (nth i slots 0) then Qsome else Qnone) ->
  collect keys ps = redo_spec c keys slots.
Proof.
  unfold redo_spec. induction keys as [|k keys IH]; intros slots ps Ls Lp H; [reflexivity|].
  destruct slots as [|s slots]; [discriminate|]. destruct ps as [|p ps]; [discriminate|].
  cbn [combine filter collect snd]. cbn in Ls, Lp.
  pose proof (H 0 ltac:(cbn; lia)) as H0. cbn in H0. subst p.
  assert (T : collect keys ps = map fst (filter (fun ks => bget c (snd ks)) (combine keys slots))).
  { apply IH; try lia. intros i Hi. apply (H (S i)). cbn; lia. }
  destruct (bget c s); cbn [map fst]; rewrite T; reflexivity.
Qed.

Section Phase2.
  Variable slots : list nat.
  Variable size : nat.
  Variable c a0 : bv.
  Hypothesis slots_lt : forall i, i < length slots -> slot slots i < size.
  Hypothesis a0_len : length a0 = size.
  Let n := length slots.
  Notation pcn st i := (nth i (pcs2 st) Qnone).
  Notation sl i := (slot slots i).

  Definition Inv2 (st : st2) : Prop :=
    length (pcs2 st) = n /\ length (sa2 st) = size /\
    (forall i, i < n -> pcn st i = Qsome -> bget (sa2 st) (sl i) = false) /\
    (forall i, i < n -> pcn st i = Q1 \/ pcn st i = Qsome -> bget c (sl i) = true) /\
    (forall i, i < n -> pcn st i = Qnone -> bget c (sl i) = false) /\
    (forall s, bget (sa2 st) s = bget a0 s \/ (bget (sa2 st) s = false /\ exists i, i < n /\ sl i = s /\ pcn st i = Qsome)).

  Lemma Inv2_init : Inv2 (init2 n a0).
  Proof.
    unfold Inv2, init2; cbn [pcs2 sa2]. rewrite repeat_length. repeat split; auto.
    - intros i Hi. rewrite nth_repeat_if. apply Nat.ltb_lt in Hi. rewrite Hi. discriminate.
    - intros i Hi. rewrite nth_repeat_if. apply Nat.ltb_lt in Hi. rewrite Hi. intros [?|?]; discriminate.
    - intros i Hi. rewrite nth_repeat_if. apply Nat.ltb_lt in Hi. rewrite Hi. discriminate.
  Qed.

  Ltac pcr2 Lp Hi := rewrite ?nth_lset by (rewrite Lp; exact Hi).

  Lemma Inv2_step st st' : step2 slots c st st' -> Inv2 st -> Inv2 st'.
  Proof.
    intros S (Lp & La & K2 & K3 & K4 & K5).
    destruct S as [st i Hi Hpc | st i Hi Hpc]; unfold Inv2; cbn [pcs2 sa2];
      rewrite ?lset_length, ?bset_length; (split; [auto|]); (split; [auto|]); fold n in Hi.
    - (* read collide (final, not stale: after the join) *)
      repeat split.
      + intros j Hj. pcr2 Lp Hi. destruct (j =? i) eqn:E; [|auto].
        destruct (bget c (sl i)); discriminate.
      + intros j Hj. pcr2 Lp Hi. destruct (j =? i) eqn:E; [|auto].
        apply Nat.eqb_eq in E; subst j. destruct (bget c (sl i)); auto. intros [?|?]; discriminate.
      + intros j Hj. pcr2 Lp Hi. destruct (j =? i) eqn:E; [|auto].
        apply Nat.eqb_eq in E; subst j. destruct (bget c (sl i)); auto. discriminate.
      + intros s. destruct (K5 s) as [H|(H & w & Hw & Ew & Pw)]; [left; auto|right].
        split; auto. exists w. repeat split; auto. pcr2 Lp Hi.
        destruct (w =? i) eqn:E; auto. apply Nat.eqb_eq in E; subst w. congruence.
    - (* fetch_and a *)
      assert (Hs : sl i < length (sa2 st)) by (rewrite La; apply slots_lt; auto).
      repeat split.
      + intros j Hj. rewrite bget_bset by auto. destruct (sl j =? sl i) eqn:E; auto.
        pcr2 Lp Hi. destruct (j =? i) eqn:E2; [|auto].
        apply Nat.eqb_eq in E2; subst j. rewrite Nat.eqb_refl in E; discriminate.
      + intros j Hj. pcr2 Lp Hi. destruct (j =? i) eqn:E; [|auto].
        apply Nat.eqb_eq in E; subst j. intros _. apply K3; auto.
      + intros j Hj. pcr2 Lp Hi. destruct (j =? i) eqn:E; [discriminate|auto].
      + intros s. rewrite bget_bset by auto. destruct (s =? sl i) eqn:E.
        * apply Nat.eqb_eq in E; subst s. right. split; auto. exists i. repeat split; auto.
          pcr2 Lp Hi. rewrite Nat.eqb_refl; reflexivity.
        * destruct (K5 s) as [H|(H & w & Hw & Ew & Pw)]; [left; auto|right].
          split; auto. exists w. repeat split; auto. pcr2 Lp Hi.
          destruct (w =? i) eqn:E2; auto.
  Qed.

  Lemma Inv2_reach st : clos_refl_trans _ (step2 slots c) (init2 n a0) st -> Inv2 st.
  Proof.
    intros R. apply clos_rt_rtn1 in R. induction R as [|y z S R IH]; [apply Inv2_init|].
    eapply Inv2_step; eauto.
  Qed.

  Theorem phase2_final st : clos_refl_trans _ (step2 slots c) (init2 n a0) st -> done2 slots st ->
    sa2 st = map (fun s => bget a0 s && negb (bget c s && (1 <=? cnt s slots))) (seq 0 size) /\
    forall keys, length keys = n -> collect keys (pcs2 st) = redo_spec c keys slots.
  Proof.
    intros R D. destruct (Inv2_reach st R) as (Lp & La & K2 & K3 & K4 & K5).
    assert (F : forall i, i < n -> pcn st i = if bget c (sl i) then Qsome else Qnone).
    { intros i Hi. specialize (D i Hi). destruct (pcn st i) eqn:P; cbn in D; try discriminate.
      - rewrite K4; auto.
      - rewrite K3; auto. }
    split.
    - apply bv_ext; auto. intros s Hs.
      destruct (bget c s && (1 <=? cnt s slots)) eqn:E.
      + apply andb_prop in E. destruct E as [C E]. apply Nat.leb_le in E.
        destruct (cnt_ge1 _ _ E) as (i & Hi & Ei). subst s. change (nth i slots 0) with (sl i) in *.
        rewrite andb_false_r. apply K2; auto. rewrite F, C; auto.
      + rewrite andb_true_r. destruct (K5 s) as [H|(H & w & Hw & Ew & Pw)]; auto.
        exfalso. subst s. rewrite K3 in E; auto. rewrite andb_true_l in E. apply Nat.leb_gt in E.
        pose proof (idx_cnt_ge1 (sl w) slots w Hw eq_refl). lia.
    - intros keys Lk. apply collect_spec; try lia. intros i Hi. apply F. lia.
  Qed.
End Phase2.

(* ------------------------------------------------------------------ the serial level computes the same function of the slot counts *)
Lemma cnt_snoc s p s0 : cnt s (p ++ [s0]) = cnt s p + (if s =? s0 then 1 else 0).
Proof.
  unfold cnt. rewrite count_occ_app. cbn. destruct (Nat.eq_dec s0 s), (Nat.eqb_spec s s0); subst; auto; congruence.
Qed.
Lemma cnt_cons' s s0 p : cnt s (s0 :: p) = (if s =? s0 then 1 else 0) + cnt s p.
Proof. rewrite cnt_cons. destruct (Nat.eq_dec s0 s), (Nat.eqb_spec s s0); subst; auto; congruence. Qed.

Ltac leb_solve :=
  repeat match goal with
         | H : (_ <=? _) = true |- _ => apply Nat.leb_le in H
         | H : (_ <=? _) = false |- _ => apply Nat.leb_gt in H
         | H : (_ =? _) = true |- _ => apply Nat.eqb_eq in H
         | H : (_ =? _) = false |- _ => apply Nat.eqb_neq in H
         end;
  repeat match goal with
         | |- context [?a =? ?b] => destruct (Nat.eqb_spec a b); subst
         end;
  repeat match goal with
         | |- context [?a <=? ?b] => destruct (Nat.leb_spec a b)
         end; try reflexivity; try lia; try congruence.

Section Serial.
  Variable size : nat.
  Definition Aof (p : list nat) : bv := map (fun s => 1 <=? cnt s p) (seq 0 size).
  Definition Cof (p : list nat) : bv := map (fun s => 2 <=? cnt s p) (seq 0 size).
  Lemma Aof_length p : length (Aof p) = size. Proof. unfold Aof. rewrite map_length, seq_length; auto. Qed.
  Lemma Cof_length p : length (Cof p) = size. Proof. unfold Cof. rewrite map_length, seq_length; auto. Qed.
  Lemma bget_Aof p s : s < size -> bget (Aof p) s = (1 <=? cnt s p).
  Proof. intros. unfold bget, Aof. apply (nth_map_seq (fun s => 1 <=? cnt s p)); auto. Qed.
  Lemma bget_Cof p s : s < size -> bget (Cof p) s = (2 <=? cnt s p).
  Proof. intros. unfold bget, Cof. apply (nth_map_seq (fun s => 2 <=? cnt s p)); auto. Qed.
  Lemma bnew_Aof : bnew size = Aof []. 
  Proof. apply bv_ext; [apply repeat_length|]. intros. apply bget_bnew. Qed.
  Lemma bnew_Cof : bnew size = Cof [].
  Proof. apply bv_ext; [apply repeat_length|]. intros. apply bget_bnew. Qed.

  Lemma fc_sync_spec p s0 : s0 < size -> fc_sync (Aof p, Cof p) s0 = (Aof (p ++ [s0]), Cof (p ++ [s0])).
  Proof.
    intros H0. unfold fc_sync. rewrite bget_Cof, bget_Aof by auto.
    destruct (2 <=? cnt s0 p) eqn:E2; [|destruct (1 <=? cnt s0 p) eqn:E1]; f_equal;
      apply bv_ext; rewrite ?bset_length, ?Aof_length, ?Cof_length; auto; intros s Hs;
      rewrite ?bget_bset by (rewrite ?Aof_length, ?Cof_length; auto);
      rewrite ?bget_Aof, ?bget_Cof by auto; rewrite cnt_snoc; leb_solve.
  Qed.

  Lemma fold_fc_sync l : Forall (fun s => s < size) l -> forall p,
    fold_left fc_sync l (Aof p, Cof p) = (Aof (p ++ l), Cof (p ++ l)).
  Proof.
    induction 1 as [|s0 l H0 _ IH]; intros p; cbn [fold_left]; [rewrite app_nil_r; auto|].
    rewrite fc_sync_spec by auto. rewrite IH, <- app_assoc. reflexivity.
  Qed.

  Lemma phase1_serial slots : Forall (fun s => s < size) slots ->
    fold_left fc_sync slots (bnew size, bnew size) = (Aof slots, Cof slots).
  Proof. intros H. rewrite bnew_Aof at 1. rewrite bnew_Cof. apply (fold_fc_sync slots H []). Qed.

  (* filter, serially *)
  Lemma filter_sync_spec c : forall keys slots a, length slots = length keys -> length a = size ->
    Forall (fun s => s < size) slots ->
    filter_sync c a (combine keys slots) =
      (map (fun s => bget a s && negb (bget c s && (1 <=? cnt s slots))) (seq 0 size), redo_spec c keys slots).
  Proof.
    unfold redo_spec.
    induction keys as [|k keys IH]; intros slots a Ls La F.
    - destruct slots; [|discriminate]. cbn. f_equal. apply bv_ext; auto. intros s Hs.
      unfold cnt; cbn. rewrite andb_false_r, andb_true_r. reflexivity.
    - destruct slots as [|s0 slots]; [discriminate|]. inversion F as [|? ? H0 F']; subst.
      cbn [combine filter_sync filter snd]. cbn in Ls.
      destruct (bget c s0) eqn:C0.
      + rewrite IH by (rewrite ?bset_length; auto). cbn [map fst]. f_equal.
        apply map_ext_in. intros s Hs. apply in_seq in Hs.
        rewrite bget_bset by lia. rewrite cnt_cons'.
        destruct (s =? s0) eqn:E; [apply Nat.eqb_eq in E; subst; rewrite C0; cbn; rewrite andb_false_r; reflexivity|].
        reflexivity.
      + rewrite IH by auto. f_equal. apply map_ext_in. intros s Hs. rewrite cnt_cons'.
        destruct (s =? s0) eqn:E; [apply Nat.eqb_eq in E; subst; rewrite C0; cbn; reflexivity|].
        reflexivity.
  Qed.
End Serial.

(* ------------------------------------------------------------------ levels, the loop, the whole MPHF *)
Section MphfProofs.
  Variable h : nat -> nat -> key -> nat.
  Variable sz : nat -> nat.
  Hypothesis h_lt : forall iter n k, h iter (sz n) k < sz n.      (* fastmod / % : a slot is below the level size *)

  (* what one level computes, in terms of the number of keys per slot only *)
  Definition level_spec (iter : nat) (keys : list key) : bv * list key :=
    let slots := level_slots h sz iter keys in
    (map (fun s => cnt s slots =? 1) (seq 0 (sz (length keys))),
     map fst (filter (fun ks => 2 <=? cnt (snd ks) slots) (combine keys slots))).

  Lemma slots_length iter keys : length (level_slots h sz iter keys) = length keys.
  Proof. apply map_length. Qed.
  Lemma slots_range iter keys : Forall (fun s => s < sz (length keys)) (level_slots h sz iter keys).
  Proof. apply Forall_forall. intros s H. apply in_map_iff in H. destruct H as (k & <- & _). apply h_lt. Qed.
  Lemma slots_lt iter keys i : i < length (level_slots h sz iter keys) ->
    slot (level_slots h sz iter keys) i < sz (length keys).
  Proof.
    intros H. pose proof (slots_range iter keys) as F. rewrite Forall_forall in F. apply F. apply nth_In; auto.
  Qed.

  Lemma spec_of_counts iter keys :
    let slots := level_slots h sz iter keys in let size := sz (length keys) in
    (map (fun s => bget (Aof size slots) s && negb (bget (Cof size slots) s && (1 <=? cnt s slots))) (seq 0 size),
     redo_spec (Cof size slots) keys slots) = level_spec iter keys.
  Proof.
    intros slots size. unfold level_spec. fold slots. fold size. f_equal.
    - apply map_ext_in. intros s Hs. apply in_seq in Hs. rewrite bget_Aof, bget_Cof by lia.
      destruct (cnt s slots) as [|[|m]]; reflexivity.
    - unfold redo_spec. f_equal. apply filter_ext_in. intros (k, s) Hin. cbn [snd].
      apply in_combine_r in Hin. apply bget_Cof.
      pose proof (slots_range iter keys) as F. rewrite Forall_forall in F. apply F; auto.
  Qed.

  Lemma level_serial_spec iter keys : level_serial h sz iter keys = level_spec iter keys.
  Proof.
    unfold level_serial. rewrite (phase1_serial (sz (length keys))) by apply slots_range.
    rewrite (filter_sync_spec (sz (length keys)));
      [apply spec_of_counts|apply slots_length|apply Aof_length|apply slots_range].
  Qed.

  Lemma level_par_spec iter keys a redo : level_par h sz iter keys a redo -> (a, redo) = level_spec iter keys.
  Proof.
    intros [s1 s2 R1 D1 R2 D2].
    assert (R1' : clos_refl_trans _ (step1 (level_slots h sz iter keys))
                    (init1 (length (level_slots h sz iter keys)) (sz (length keys))) s1)
      by (rewrite slots_length; exact R1).
    assert (R2' : clos_refl_trans _ (step2 (level_slots h sz iter keys) (sc s1))
                    (init2 (length (level_slots h sz iter keys)) (sa s1)) s2)
      by (rewrite slots_length; exact R2).
    clear R1 R2. rename R1' into R1. rename R2' into R2.
    destruct (phase1_final _ _ (slots_lt iter keys) _ R1 D1) as (EA & EC).
    assert (La : length (sa s1) = sz (length keys)) by (rewrite EA, map_length, seq_length; auto).
    destruct (phase2_final _ _ _ _ (slots_lt iter keys) La _ R2 D2) as (E2 & Er).
    rewrite E2, (Er keys) by (symmetry; apply slots_length). rewrite EA, EC. apply spec_of_counts.
  Qed.

  (* one level: every schedule of both phases gives the bit vector and the redo list of the serial code *)
  Theorem level_par_eq_serial iter keys a redo :
    level_par h sz iter keys a redo -> (a, redo) = level_serial h sz iter keys.
  Proof. intros H. rewrite level_serial_spec. apply level_par_spec; auto. Qed.

  Lemma loop_par_eq fuel iter redo res : loop_par h sz fuel iter redo res -> res = mphf_loop h sz fuel iter redo.
  Proof.
    induction 1 as [fuel iter|iter k r|fuel iter k r a redo res L _ IH]; cbn [mphf_loop]; auto.
    - destruct fuel; reflexivity.
    - rewrite <- (level_par_eq_serial _ _ _ _ L). rewrite IH. reflexivity.
  Qed.

  Theorem mphf_par_eq keys r : mphf_par h sz keys r -> r = mphf_new h sz keys.
  Proof.
    intros [a redo res L Lp]. unfold mphf_new. rewrite <- (level_par_eq_serial _ _ _ _ L).
    rewrite (loop_par_eq _ _ _ _ Lp). reflexivity.
  Qed.

  Theorem bhm_par_eq {V} keys (vals : list V) r : bhm_new_par h sz keys vals r -> r = bhm_new h sz keys vals.
  Proof. intros [m M]. unfold bhm_new. rewrite (mphf_par_eq _ _ M). reflexivity. Qed.

  Theorem finish_par_eq K g r : finish_par h sz K g r -> r = finish_serial h sz K g.
  Proof.
    unfold finish_serial.
    intros [L | l L R | l r' L R]; apply bhm_par_eq in L; try apply bhm_par_eq in R;
      rewrite <- L; try rewrite <- R; reflexivity.
  Qed.
End MphfProofs.

(* ------------------------------------------------------------------ counting facts for perfectness *)
Lemma popcount_map_filter {A} (f : A -> bool) l : popcount (map f l) = length (filter f l).
Proof. induction l as [|x l IH]; cbn; auto. destruct (f x); cbn; lia. Qed.

Lemma popcount_firstn_lt : forall (a : bv) s1 s2, s1 < s2 -> bget a s1 = true ->
  popcount (firstn s1 a) < popcount (firstn s2 a).
Proof.
  induction a as [|b a IH]; intros s1 s2 L B.
  - unfold bget in B. destruct s1; discriminate.
  - destruct s2; [lia|]. destruct s1; cbn in *.
    + unfold bget in B; cbn in B. subst b. lia.
    + unfold bget in B; cbn in B. specialize (IH s1 s2). unfold bget in IH. destruct b; cbn; apply IH in B; lia.
Qed.
Lemma popcount_firstn_all (a : bv) s : bget a s = true -> popcount (firstn s a) < popcount a.
Proof.
  intros B. assert (s < length a).
  { destruct (le_lt_dec (length a) s); auto. rewrite bget_overflow in B; auto. discriminate. }
  rewrite <- (firstn_all a) at 2. apply popcount_firstn_lt; auto.
Qed.
Lemma popcount_firstn_inj (a : bv) s1 s2 : bget a s1 = true -> bget a s2 = true ->
  popcount (firstn s1 a) = popcount (firstn s2 a) -> s1 = s2.
Proof.
  intros B1 B2 E. destruct (Nat.lt_total s1 s2) as [L|[L|L]]; auto.
  - pose proof (popcount_firstn_lt a s1 s2 L B1). lia.
  - pose proof (popcount_firstn_lt a s2 s1 L B2). lia.
Qed.

Lemma count_occ_filter (P : nat -> bool) l x :
  count_occ Nat.eq_dec (filter P l) x = if P x then count_occ Nat.eq_dec l x else 0.
Proof.
  induction l as [|y l IH]; cbn; [destruct (P x); auto|].
  destruct (P y) eqn:Py; cbn; destruct (Nat.eq_dec y x); subst; rewrite ?IH; auto.
  - rewrite Py; auto.
  - rewrite Py; auto.
Qed.

Lemma filter_split_length {A} (f g : A -> bool) l : (forall x, In x l -> f x = negb (g x)) ->
  length (filter f l) + length (filter g l) = length l.
Proof.
  induction l as [|x l IH]; intros H; cbn; auto.
  rewrite (H x) by (left; auto). destruct (g x); cbn; rewrite <- IH; auto; try lia; intros; apply H; right; auto.
Qed.

(* slots carrying exactly one key <-> keys alone on their slot *)
Lemma ones_count (slots : list nat) size : Forall (fun s => s < size) slots ->
  length (filter (fun s => cnt s slots =? 1) (seq 0 size)) = length (filter (fun s => cnt s slots =? 1) slots).
Proof.
  intros F. rewrite Forall_forall in F.
  assert (N1 : NoDup (filter (fun s => cnt s slots =? 1) (seq 0 size))) by (apply NoDup_filter, seq_NoDup).
  assert (N2 : NoDup (filter (fun s => cnt s slots =? 1) slots)).
  { apply (NoDup_count_occ Nat.eq_dec). intros x. rewrite count_occ_filter.
    destruct (cnt x slots =? 1) eqn:E; [apply Nat.eqb_eq in E; unfold cnt in E; lia|lia]. }
  apply Nat.le_antisymm; apply NoDup_incl_length; auto; intros x Hx; apply filter_In in Hx;
    destruct Hx as (Hx & E); apply filter_In; split; auto.
  - apply Nat.eqb_eq in E. apply (count_occ_In Nat.eq_dec). unfold cnt in E. lia.
  - apply in_seq. specialize (F x Hx). lia.
Qed.

Lemma combine_map_r {A B} (f : A -> B) l : combine l (map f l) = map (fun x => (x, f x)) l.
Proof. induction l; cbn; congruence. Qed.
Lemma map_fst_filter_pair {A B} (f : A -> B) (P : B -> bool) l :
  map fst (filter (fun ks => P (snd ks)) (map (fun x => (x, f x)) l)) = filter (fun x => P (f x)) l.
Proof. induction l as [|x l IH]; cbn; auto. destruct (P (f x)); cbn; rewrite IH; auto. Qed.

Lemma cnt_map_in {A} (f : A -> nat) l x : In x l -> 1 <= cnt (f x) (map f l).
Proof. intros H. apply (in_map f) in H. apply (count_occ_In Nat.eq_dec) in H. unfold cnt. lia. Qed.
Lemma cnt_map_two {A} (f : A -> nat) l x y : In x l -> In y l -> x <> y -> f x = f y -> 2 <= cnt (f x) (map f l).
Proof.
  induction l as [|z l IH]; intros Hx Hy Ne E; [destruct Hx|]. cbn [map]. rewrite cnt_cons'.
  destruct Hx as [->|Hx], Hy as [->|Hy]; try congruence.
  - rewrite Nat.eqb_refl. rewrite E. pose proof (cnt_map_in f l y Hy). lia.
  - rewrite E, Nat.eqb_refl. rewrite <- E. pose proof (cnt_map_in f l x Hx). lia.
  - specialize (IH Hx Hy Ne E). lia.
Qed.

Lemma filter_map_length {A B} (f : A -> B) (P : B -> bool) l :
  length (filter P (map f l)) = length (filter (fun k => P (f k)) l).
Proof. induction l as [|k l IH]; cbn; auto. destruct (P (f k)); cbn; rewrite IH; auto. Qed.

(* ------------------------------------------------------------------ the MPHF is perfect on its keys (when construction terminates) *)
Section Perfect.
  Variable h : nat -> nat -> key -> nat.
  Variable sz : nat -> nat.
  Hypothesis h_lt : forall iter n k, h iter (sz n) k < sz n.

  (* the level in the shape used below *)
  Definition lv_f (iter : nat) (keys : list key) : key -> nat := h iter (sz (length keys)).
  Definition lv_a (iter : nat) (keys : list key) : bv :=
    map (fun s => cnt s (map (lv_f iter keys) keys) =? 1) (seq 0 (sz (length keys))).
  Definition lv_redo (iter : nat) (keys : list key) : list key :=
    filter (fun k => 2 <=? cnt (lv_f iter keys k) (map (lv_f iter keys) keys)) keys.

  Lemma level_spec_shape iter keys : level_spec h sz iter keys = (lv_a iter keys, lv_redo iter keys).
  Proof.
    unfold level_spec, lv_a, lv_redo, level_slots, lv_f. f_equal.
    rewrite combine_map_r. apply (map_fst_filter_pair _ (fun s => 2 <=? cnt s _)).
  Qed.

  Lemma lv_a_length iter keys : length (lv_a iter keys) = sz (length keys).
  Proof. unfold lv_a. rewrite map_length, seq_length. auto. Qed.
  Lemma bget_lv_a iter keys s : s < sz (length keys) ->
    bget (lv_a iter keys) s = (cnt s (map (lv_f iter keys) keys) =? 1).
  Proof. intros. unfold bget, lv_a. apply (nth_map_seq (fun s => cnt s _ =? 1)); auto. Qed.
  Lemma bget_lv_a_key iter keys k :
    bget (lv_a iter keys) (lv_f iter keys k) = (cnt (lv_f iter keys k) (map (lv_f iter keys) keys) =? 1).
  Proof. apply bget_lv_a. apply h_lt. Qed.

  Lemma level_count iter keys : popcount (lv_a iter keys) + length (lv_redo iter keys) = length keys.
  Proof.
    unfold lv_a. rewrite popcount_map_filter, ones_count.
    2:{ apply Forall_forall. intros s H. apply in_map_iff in H. destruct H as (k & <- & _). apply h_lt. }
    set (f := lv_f iter keys). set (slots := map f keys).
    unfold slots at 2. rewrite (filter_map_length f (fun s => cnt s slots =? 1)).
    apply filter_split_length. intros k Hk.
    pose proof (cnt_map_in f keys k Hk). subst slots f. leb_solve.
  Qed.

  Notation thf := (try_hash_from h).

  Definition Q (iter pop : nat) (m : list bv) (keys : list key) : Prop :=
    (forall k, In k keys -> exists r, thf iter pop m k = Some r) /\
    (forall k1 k2 r, In k1 keys -> In k2 keys -> thf iter pop m k1 = Some r -> thf iter pop m k2 = Some r -> k1 = k2) /\
    (forall q r, thf iter pop m q = Some r ->
                 pop <= r < pop + length keys /\ exists k, In k keys /\ thf iter pop m k = Some r).

  Lemma Q_nil iter pop : Q iter pop [] [].
  Proof. repeat split; cbn in *; try contradiction; discriminate. Qed.

  Lemma thf_cons iter pop keys m' q :
    thf iter pop (lv_a iter keys :: m') q =
      if bget (lv_a iter keys) (lv_f iter keys q) then Some (pop + popcount (firstn (lv_f iter keys q) (lv_a iter keys)))
      else thf (S iter) (pop + popcount (lv_a iter keys)) m' q.
  Proof. cbn [try_hash_from]. rewrite lv_a_length. reflexivity. Qed.

  Lemma Q_step iter pop keys m' : NoDup keys ->
    Q (S iter) (pop + popcount (lv_a iter keys)) m' (lv_redo iter keys) ->
    Q iter pop (lv_a iter keys :: m') keys.
  Proof.
    intros ND (T & I & H).
    set (f := lv_f iter keys) in *. set (a := lv_a iter keys) in *. set (slots := map f keys).
    pose proof (level_count iter keys) as LC. fold a in LC.
    assert (InRedo : forall k, In k keys -> bget a (f k) = false -> In k (lv_redo iter keys)).
    { intros k Hk B. apply filter_In. split; auto. unfold a, f in B. rewrite bget_lv_a_key in B.
      pose proof (cnt_map_in (lv_f iter keys) keys k Hk). leb_solve. }
    assert (RedoOut : forall k, In k (lv_redo iter keys) -> In k keys /\ bget a (f k) = false).
    { intros k Hk. apply filter_In in Hk. destruct Hk as (Hk & C). split; auto.
      unfold a, f. rewrite bget_lv_a_key. leb_solve. }
    assert (Uniq : forall k1 k2, In k1 keys -> In k2 keys -> f k1 = f k2 -> bget a (f k1) = true -> k1 = k2).
    { intros k1 k2 H1 H2 E B. destruct (N.eq_dec k1 k2) as [|Ne]; auto. exfalso.
      pose proof (cnt_map_two f keys k1 k2 H1 H2 Ne E). unfold a, f in B. rewrite bget_lv_a_key in B.
      fold f in B. leb_solve. }
    repeat split.
    - (* total on the keys *)
      intros k Hk. unfold a, f. rewrite thf_cons. fold f a.
      destruct (bget a (f k)) eqn:B; [eauto|]. apply T. apply InRedo; auto.
    - (* injective on the keys *)
      intros k1 k2 r H1 H2. unfold a, f. rewrite !thf_cons. fold f a.
      destruct (bget a (f k1)) eqn:B1; destruct (bget a (f k2)) eqn:B2; intros E1 E2.
      + inversion E1; inversion E2; subst. apply Uniq; auto.
        apply (popcount_firstn_inj a); auto. lia.
      + inversion E1; subst. apply H in E2. pose proof (popcount_firstn_all a _ B1). lia.
      + inversion E2; subst. apply H in E1. pose proof (popcount_firstn_all a _ B2). lia.
      + apply (I k1 k2 r); auto.
    - (* every hit is at least pop ... *)
      revert H0. unfold a, f. rewrite thf_cons. fold f a.
      destruct (bget a (f q)) eqn:B; intros E; [inversion E; lia|]. apply H in E. lia.
    - (* ... and below pop + n *)
      revert H0. unfold a, f. rewrite thf_cons. fold f a.
      destruct (bget a (f q)) eqn:B; intros E.
      + inversion E; subst. pose proof (popcount_firstn_all a _ B). lia.
      + apply H in E. lia.
    - (* every hit is the value of some key *)
      revert H0. unfold a, f. rewrite thf_cons. fold f a.
      destruct (bget a (f q)) eqn:B; intros E.
      + inversion E; subst. unfold a, f in B. rewrite bget_lv_a_key in B. fold f in B.
        assert (C : 1 <= cnt (f q) (map f keys)) by leb_solve.
        unfold cnt in C. apply (count_occ_In Nat.eq_dec) in C. apply in_map_iff in C.
        destruct C as (k & Ek & Hk). exists k. split; auto.
        unfold a, f. rewrite thf_cons. fold f a. rewrite Ek.
        assert (B' : bget a (f q) = true) by (unfold a, f; rewrite bget_lv_a_key; fold f; auto).
        rewrite B'. reflexivity.
      + apply H in E. destruct E as (_ & k & Hk & Ek). apply RedoOut in Hk. destruct Hk as (Hk & Bk).
        exists k. split; auto. unfold a, f. rewrite thf_cons. fold f a. rewrite Bk. auto.
  Qed.
  Lemma loop_Q : forall fuel iter keys m pop, NoDup keys ->
    mphf_loop h sz fuel iter keys = Some m -> Q iter pop m keys.
  Proof.
    induction fuel as [|fuel IH]; intros iter keys m pop ND E; destruct keys as [|k0 r]; cbn [mphf_loop] in E;
      try discriminate; try (inversion E; apply Q_nil).
    rewrite (level_serial_spec h sz h_lt), level_spec_shape in E.
    destruct (mphf_loop h sz fuel (S iter) (lv_redo iter (k0 :: r))) as [m'|] eqn:E'; cbn in E; inversion E; subst.
    apply Q_step; auto. apply IH; auto. apply NoDup_filter; auto.
  Qed.

  (* minimal perfect hash: total and injective on the keys, onto [0, n); and ANY item that hits a set bit
     gets the value of some key (so key verification can always be carried out) *)
  Theorem mphf_perfect keys m : NoDup keys -> mphf_new h sz keys = Some m ->
    (forall k, In k keys -> exists r, try_hash h m k = Some r) /\
    (forall k1 k2 r, In k1 keys -> In k2 keys -> try_hash h m k1 = Some r -> try_hash h m k2 = Some r -> k1 = k2) /\
    (forall q r, try_hash h m q = Some r -> r < length keys /\ exists k, In k keys /\ try_hash h m k = Some r).
  Proof.
    intros ND E. unfold mphf_new in E. rewrite (level_serial_spec h sz h_lt), level_spec_shape in E.
    destruct (mphf_loop h sz (MAX_ITERS - 1) 1 (lv_redo 0 keys)) as [m'|] eqn:E'; cbn in E; inversion E; subst.
    assert (Q0 : Q 0 0 (lv_a 0 keys :: m') keys).
    { apply Q_step; auto. apply (loop_Q _ _ _ _ _ (NoDup_filter _ ND) E'). }
    destruct Q0 as (T & I & H). unfold try_hash. repeat split; auto.
    - apply H in H0. lia.
    - apply H in H0. tauto.
  Qed.
End Perfect.

(* ------------------------------------------------------------------ BoomHashMap lookups *)
Lemma in_combine_exists {A B} (k : A) : forall keys (vals : list B), In k keys -> length vals = length keys ->
  exists v, In (k, v) (combine keys vals).
Proof.
  induction keys as [|x keys IH]; intros vals H L; [destruct H|]. destruct vals as [|v vals]; [discriminate|].
  destruct H as [->|H]; [exists v; left; auto|]. destruct (IH vals H) as (w & Hw); [cbn in L; lia|].
  exists w. right; auto.
Qed.
Lemma combine_fun {A B} (k : A) (v1 v2 : B) : forall keys vals, NoDup keys ->
  In (k, v1) (combine keys vals) -> In (k, v2) (combine keys vals) -> v1 = v2.
Proof.
  induction keys as [|x keys IH]; intros vals ND H1 H2; [destruct H1|]. destruct vals as [|v vals]; [destruct H1|].
  inversion ND; subst. cbn in H1, H2.
  destruct H1 as [E1|H1], H2 as [E2|H2]; try congruence.
  - inversion E1; subst. apply in_combine_l in H2. contradiction.
  - inversion E2; subst. apply in_combine_l in H1. contradiction.
  - eapply IH; eauto.
Qed.
Lemma nth_error_map_seq {A} (f : nat -> A) n r : r < n -> nth_error (map f (seq 0 n)) r = Some (f r).
Proof.
  intros H. apply map_nth_error. rewrite (nth_error_nth' _ 0) by (rewrite seq_length; auto).
  rewrite seq_nth; auto.
Qed.

Section Lookup.
  Variable h : nat -> nat -> key -> nat.
  Variable sz : nat -> nat.
  Hypothesis h_lt : forall iter n k, h iter (sz n) k < sz n.
  Context {V : Type}.

  (* get never panics and returns exactly the value stored with the key, None for every other key *)
  Theorem lookup_exact keys (vals : list V) m : NoDup keys -> length vals = length keys ->
    bhm_new h sz keys vals = Some m ->
    forall k, exists o, bhm_get h m k = Some o /\ forall v, o = Some v <-> In (k, v) (combine keys vals).
  Proof.
    intros ND L E k. unfold bhm_new in E. destruct (mphf_new h sz keys) as [mm|] eqn:EM; [|discriminate].
    cbn in E. inversion E; subst m. clear E.
    destruct (mphf_perfect h sz h_lt keys mm ND EM) as (T & I & H).
    unfold bhm_get, bhm_of. cbn [b_mphf b_table].
    destruct (try_hash h mm k) as [pos|] eqn:EK.
    - destruct (H k pos EK) as (Lt & k' & Hk' & Ek').
      unfold create_map. rewrite combine_length, L, Nat.min_id. rewrite nth_error_map_seq by auto.
      set (ranked := map (fun kv : key * V => (try_hash h mm (fst kv), kv)) (combine keys vals)).
      destruct (in_combine_exists k' keys vals Hk' L) as (v' & Hv').
      destruct (find (fun r => match fst r with Some j => j =? pos | None => false end) ranked) as [[o [kx vx]]|] eqn:F.
      + apply find_some in F. destruct F as (Fin & Fp). cbn [fst] in Fp.
        destruct o as [j|]; [|discriminate]. apply Nat.eqb_eq in Fp. subst j.
        unfold ranked in Fin. apply in_map_iff in Fin. destruct Fin as ((kx' & vx') & Ex & Hx).
        cbn [fst] in Ex. inversion Ex; subst kx' vx'. clear Ex.
        assert (kx = k') by (apply (I kx k' pos); auto; apply in_combine_l in Hx; auto). subst kx.
        cbn [option_map snd]. eexists. split; [reflexivity|]. intros v.
        destruct (N.eqb_spec k k') as [->|Ne].
        * split; [intros E; inversion E; subst; auto|]. intros Hv. f_equal. eapply combine_fun; eauto.
        * split; [discriminate|]. intros Hv. exfalso. apply Ne. apply (I k k' pos); auto.
          apply in_combine_l in Hv; auto.
      + exfalso. pose proof (find_none _ _ F (try_hash h mm k', (k', v'))) as C.
        cbn [fst] in C. rewrite Ek', Nat.eqb_refl in C.
        assert (In (try_hash h mm k', (k', v')) ranked) by (unfold ranked; apply in_map_iff; exists (k', v'); auto).
        rewrite Ek' in H0. specialize (C H0). discriminate.
    - exists None. split; auto. intros v. split; [discriminate|]. intros Hv. exfalso.
      apply in_combine_l in Hv. destruct (T k Hv) as (r & Er). congruence.
  Qed.
End Lookup.

(* ------------------------------------------------------------------ the two indexes of a graph *)
Lemma Forall_firstn' {A} (P : A -> Prop) n : forall l, Forall P l -> Forall P (firstn n l).
Proof. induction n; intros l H; cbn; auto. destruct H; cbn; auto. Qed.
Lemma Forall_skipn' {A} (P : A -> Prop) n : forall l, Forall P l -> Forall P (skipn n l).
Proof. induction n; intros l H; cbn; auto. destruct H; cbn; auto. Qed.

Lemma term_kmer_ok K s d : wf_dna s -> K <= length s -> length (term_kmer K s d) = K /\ wf_dna (term_kmer K s d).
Proof.
  intros W L. destruct d; unfold term_kmer, first_kmer, last_kmer, kmer_at; split;
    try (apply sub_length; lia); unfold sub; apply Forall_firstn', Forall_skipn'; auto.
Qed.

Lemma dna_compare_refl a : dna_compare a a = Eq.
Proof. induction a as [|x a IH]; cbn; auto. rewrite N.compare_refl. auto. Qed.
Lemma dna_eqb_eq a b : dna_eqb a b = true <-> a = b.
Proof.
  unfold dna_eqb. split.
  - destruct (dna_compare a b) eqn:E; try discriminate. intros _. apply dna_compare_eq; auto.
  - intros ->. rewrite dna_compare_refl. auto.
Qed.

Lemma enc_inj K a b : length a = K -> length b = K -> wf_dna a -> wf_dna b -> enc a = enc b -> a = b.
Proof.
  unfold enc. intros La Lb Wa Wb E. rewrite <- (decode_rank K a La Wa), <- (decode_rank K b Lb Wb), E. reflexivity.
Qed.

Lemma in_combine_seq {A} (x : A) d : forall l a i,
  In (x, i) (combine l (seq a (length l))) <-> (a <= i < a + length l /\ nth (i - a) l d = x).
Proof.
  induction l as [|y l IH]; intros a i; cbn [combine length seq In].
  - split; [tauto|lia].
  - rewrite IH. split.
    + intros [E|(R & E)].
      * inversion E; subst. rewrite Nat.sub_diag. cbn. split; [lia|auto].
      * split; [lia|]. replace (i - a) with (S (i - S a)) by lia. auto.
    + intros (R & E). destruct (Nat.eq_dec i a) as [->|Ne].
      * left. rewrite Nat.sub_diag in E. cbn in E. subst; auto.
      * right. split; [lia|]. replace (i - a) with (S (i - S a)) in E by lia. auto.
Qed.

Lemma index_where_some {A} (p : A -> bool) d : forall l i, index_where p l = Some i ->
  i < length l /\ p (nth i l d) = true.
Proof.
  induction l as [|x l IH]; intros i H; cbn in H; [discriminate|].
  destruct (p x) eqn:P; [inversion H; subst; cbn; split; [lia|auto]|].
  destruct (index_where p l) as [j|]; [|discriminate]. inversion H; subst. destruct (IH j eq_refl). cbn. split; [lia|auto].
Qed.
Lemma index_where_none {A} (p : A -> bool) : forall l, index_where p l = None -> forall x, In x l -> p x = false.
Proof.
  induction l as [|y l IH]; intros H x Hx; [destruct Hx|]. cbn in H.
  destruct (p y) eqn:P; [discriminate|]. destruct (index_where p l); [discriminate|].
  destruct Hx as [->|Hx]; auto.
Qed.

Section GraphLookup.
  Variable h : nat -> nat -> key -> nat.
  Variable sz : nat -> nat.
  Hypothesis h_lt : forall iter n k, h iter (sz n) k < sz n.
  Variable K : nat.

  (* what boomphf requires of a graph: node sequences are DNA of length >= K, and no two nodes share their
     first k-mer, nor their last k-mer (duplicate-free key sets) *)
  Definition good_graph (g : base_graph) : Prop :=
    Forall (fun s => wf_dna s /\ K <= length s) (g_seqs g) /\
    NoDup (end_keys K g DLeft) /\ NoDup (end_keys K g DRight).

  Lemma end_keys_map g side : end_keys K g side = map enc (ends_of K (g_seqs g) side).
  Proof. unfold end_keys, ends_of. rewrite map_map. reflexivity. Qed.

  Lemma index_lookup g side (m : @bhm nat) kmer : good_graph g -> length kmer = K -> wf_dna kmer ->
    bhm_new h sz (end_keys K g side) (node_ids g) = Some m ->
    bhm_get h m (enc kmer) = Some (end_index (ends_of K (g_seqs g) side) kmer).
  Proof.
    intros (W & NL & NR) Lk Wk E.
    assert (ND : NoDup (end_keys K g side)) by (destruct side; auto).
    assert (Ln : length (node_ids g) = length (end_keys K g side)).
    { unfold node_ids, end_keys. rewrite seq_length, map_length. auto. }
    destruct (lookup_exact h sz h_lt _ _ m ND Ln E (enc kmer)) as (o & G & S). rewrite G. f_equal.
    set (ends := ends_of K (g_seqs g) side) in *.
    assert (Le : length (end_keys K g side) = length ends) by (rewrite end_keys_map, map_length; auto).
    assert (Lg : length (g_seqs g) = length ends) by (unfold ends, ends_of; rewrite map_length; auto).
    assert (Spec : forall i, o = Some i <-> (i < length ends /\ enc (nth i ends []) = enc kmer)).
    { intros i. rewrite S. unfold node_ids. rewrite Lg, <- Le.
      rewrite (in_combine_seq (enc kmer) (enc []) (end_keys K g side) 0 i).
      rewrite Nat.sub_0_r, end_keys_map. fold ends. rewrite map_nth, map_length. split; intros (? & ?); split; auto; lia. }
    assert (EndOk : forall i, i < length ends -> length (nth i ends []) = K /\ wf_dna (nth i ends [])).
    { intros i Hi. unfold ends, ends_of. rewrite (nth_indep _ [] (term_kmer K [] side)) by (fold (ends_of K (g_seqs g) side); auto).
      rewrite (map_nth (fun s => term_kmer K s side)). rewrite Forall_forall in W. rewrite <- Lg in Hi.
      destruct (W (nth i (g_seqs g) []) (nth_In _ _ Hi)). apply term_kmer_ok; auto. }
    unfold end_index. destruct (index_where (dna_eqb kmer) ends) as [j|] eqn:IW.
    - apply (index_where_some _ []) in IW. destruct IW as (Hj & Ej). apply dna_eqb_eq in Ej.
      apply Spec. split; auto.
      f_equal. symmetry. exact Ej.
    - destruct o as [i|]; auto. exfalso. destruct (proj1 (Spec i) eq_refl) as (Hi & Ei).
      destruct (EndOk i Hi) as (Li & Wi). apply (enc_inj K) in Ei; auto.
      pose proof (index_where_none _ _ IW (nth i ends []) (nth_In _ _ Hi)) as C.
      rewrite Ei in C. rewrite (proj2 (dna_eqb_eq kmer kmer) eq_refl) in C. discriminate.
  Qed.

  (* search_kmer on the finished graph = "the node whose [side] end is this k-mer", never a panic *)
  Theorem search_kmer_exact g d kmer side : good_graph g -> finish_serial h sz K g = Some d ->
    length kmer = K -> wf_dna kmer ->
    search_kmer h d kmer side = Some (end_index (ends_of K (g_seqs g) side) kmer).
  Proof.
    intros G F Lk Wk. unfold finish_serial in F.
    destruct (bhm_new h sz (end_keys K g DLeft) (node_ids g)) as [l|] eqn:EL; [|discriminate].
    destruct (bhm_new h sz (end_keys K g DRight) (node_ids g)) as [r|] eqn:ER; [|discriminate].
    inversion F; subst d. unfold search_kmer. cbn [d_left d_right].
    destruct side; eapply index_lookup; eauto.
  Qed.

  (* find_link on the finished graph is the list-level specification *)
  Theorem find_link_exact g d kmer dr : good_graph g -> finish_serial h sz K g = Some d ->
    length kmer = K -> wf_dna kmer ->
    find_link h d kmer dr = Some (find_link_spec K (g_stranded g) (g_seqs g) kmer dr).
  Proof.
    intros G F Lk Wk.
    assert (B : d_base d = g).
    { unfold finish_serial in F. destruct (bhm_new h sz (end_keys K g DLeft) (node_ids g)); [|discriminate].
      destruct (bhm_new h sz (end_keys K g DRight) (node_ids g)); [|discriminate]. inversion F; auto. }
    assert (Lr : length (rc kmer) = K) by (rewrite rc_length; auto).
    pose proof (rc_wf kmer) as Wr.
    unfold find_link, find_link_spec, find_link_ends. rewrite B.
    destruct dr; rewrite !(search_kmer_exact g d _ _ G F) by auto.
    - destruct (end_index (ends_of K (g_seqs g) DRight) kmer); auto.
      destruct (g_stranded g); auto.
      destruct (end_index (ends_of K (g_seqs g) DLeft) (rc kmer)); auto.
    - destruct (end_index (ends_of K (g_seqs g) DLeft) kmer); auto.
      destruct (g_stranded g); auto.
      destruct (end_index (ends_of K (g_seqs g) DRight) (rc kmer)); auto.
  Qed.
End GraphLookup.

(* ------------------------------------------------------------------ schedules exist: the executable scheduler stays inside the step relation *)
Lemma exec1_step slots st ev : exec1 slots st ev = st \/ step1 slots st (exec1 slots st ev).
Proof.
  destruct ev as (i, stale). unfold exec1. destruct (i <? length slots) eqn:L; cbn [negb]; auto.
  apply Nat.ltb_lt in L. destruct (nth i (pcs st) Ds) eqn:P; auto; right.
  - destruct (bget (sc st) (slot slots i) && negb stale) eqn:B.
    + apply andb_prop in B. destruct B. apply s_read_set; auto.
    + apply s_read_clear; auto.
  - apply s_fetch_or; auto.
  - apply s_collide; auto.
Qed.
Lemma run1_reach slots sched : forall st, clos_refl_trans _ (step1 slots) st (run1 slots sched st).
Proof.
  induction sched as [|ev sched IH]; intros st; cbn; [apply rt_refl|].
  eapply rt_trans; [|apply IH]. destruct (exec1_step slots st ev) as [->|S]; [apply rt_refl|apply rt_step; auto].
Qed.
Lemma done1b_done1 slots st : done1b slots st = true -> done1 slots st.
Proof.
  unfold done1b, done1. intros H i Hi. rewrite forallb_forall in H. apply H. apply in_seq. lia.
Qed.

Lemma exec2_step slots c st i : exec2 slots c st i = st \/ step2 slots c st (exec2 slots c st i).
Proof.
  unfold exec2. destruct (i <? length slots) eqn:L; cbn [negb]; auto.
  apply Nat.ltb_lt in L. destruct (nth i (pcs2 st) Qnone) eqn:P; auto; right.
  - apply f_read; auto.
  - apply f_remove; auto.
Qed.
Lemma run2_reach slots c sched : forall st, clos_refl_trans _ (step2 slots c) st (run2 slots c sched st).
Proof.
  induction sched as [|ev sched IH]; intros st; cbn; [apply rt_refl|].
  eapply rt_trans; [|apply IH]. destruct (exec2_step slots c st ev) as [->|S]; [apply rt_refl|apply rt_step; auto].
Qed.

(* finish() under any schedule answers find_link by the list-level specification *)
Theorem find_link_exact_par h sz (h_lt : forall iter n k, h iter (sz n) k < sz n) K g d kmer dr :
  good_graph K g -> finish_par h sz K g (Some d) -> length kmer = K -> wf_dna kmer ->
  find_link h d kmer dr = Some (find_link_spec K (g_stranded g) (g_seqs g) kmer dr).
Proof.
  intros G F. apply (finish_par_eq h sz h_lt) in F. symmetry in F. apply (find_link_exact h sz h_lt); auto.
Qed.
