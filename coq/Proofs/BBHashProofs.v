(* Proofs for property C19 about the model Algo/BBHash.v. *)
From Coq Require Import NArith List Bool Arith Lia Relations Permutation.
From DBG Require Import Spec.Dna Spec.GraphIndex Algo.BBHash.
Import ListNotations.
Local Open Scope nat_scope.

(* ------------------------------------------------------------------ lists *)
Lemma lset_length {A} (l : list A) i x : length (lset l i x) = length l.
Proof. revert i; induction l; destruct i; cbn; auto. Qed.

Lemma nth_lset {A} (l : list A) i j x d : i < length l ->
  nth j (lset l i x) d = if j =? i then x else nth j l d.
Proof.
  revert i j; induction l as [|a l IH]; intros i j H; cbn in H; [lia|].
  destruct i, j; cbn; auto. apply IH; lia.
Qed.

Lemma nth_repeat_if {A} (x d : A) n i : nth i (repeat x n) d = if i <? n then x else d.
Proof.
  revert i; induction n; intros i; cbn; [destruct i; auto|].
  destruct i; auto. rewrite IHn. reflexivity.
Qed.

Lemma nth_map_seq {A} (f : nat -> A) n s d : s < n -> nth s (map f (seq 0 n)) d = f s.
Proof.
  intros H. rewrite (nth_indep _ d (f 0)) by (rewrite map_length, seq_length; lia).
  rewrite map_nth, seq_nth by lia. reflexivity.
Qed.

Lemma bget_bset v s t x : s < length v -> bget (bset v s x) t = if t =? s then x else bget v t.
Proof. intros H. unfold bget, bset. apply nth_lset; auto. Qed.
Lemma bset_length v s x : length (bset v s x) = length v.
Proof. apply lset_length. Qed.
Lemma bget_bnew size s : bget (bnew size) s = false.
Proof. unfold bget, bnew. rewrite nth_repeat_if. destruct (s <? size); auto. Qed.
Lemma bget_overflow v s : length v <= s -> bget v s = false.
Proof. intros. apply nth_overflow; auto. Qed.

Lemma bv_ext (v : bv) (f : nat -> bool) size : length v = size -> (forall s, s < size -> bget v s = f s) ->
  v = map f (seq 0 size).
Proof.
  intros L H. apply (nth_ext _ _ false false).
  - rewrite map_length, seq_length; auto.
  - intros s Hs. rewrite nth_map_seq by lia. apply H. lia.
Qed.

(* ------------------------------------------------------------------ number of keys on a slot *)
Definition cnt (s : nat) (slots : list nat) : nat := count_occ Nat.eq_dec slots s.

Lemma cnt_cons s a l : cnt s (a :: l) = (if Nat.eq_dec a s then 1 else 0) + cnt s l.
Proof. unfold cnt; cbn. destruct (Nat.eq_dec a s); auto. Qed.

Lemma cnt_ge1 s l : 1 <= cnt s l -> exists i, i < length l /\ nth i l 0 = s.
Proof.
  induction l as [|a l IH]; rewrite ?cnt_cons; cbn; [unfold cnt; cbn; lia|].
  destruct (Nat.eq_dec a s).
  - intros _. exists 0. split; [lia|auto].
  - intros H. destruct IH as (i & Hi & E); [lia|]. exists (S i). split; [lia|auto].
Qed.
Lemma idx_cnt_ge1 s l i : i < length l -> nth i l 0 = s -> 1 <= cnt s l.
Proof.
  revert i; induction l as [|a l IH]; intros i H E; cbn in H; [lia|]. rewrite cnt_cons.
  destruct i; cbn in E.
  - destruct (Nat.eq_dec a s); lia.
  - specialize (IH i). lia.
Qed.
Lemma cnt_ge2 s l : 2 <= cnt s l ->
  exists i j, i < j /\ j < length l /\ nth i l 0 = s /\ nth j l 0 = s.
Proof.
  induction l as [|a l IH]; [unfold cnt; cbn; lia|]. rewrite cnt_cons.
  destruct (Nat.eq_dec a s).
  - intros H. destruct (cnt_ge1 s l) as (j & Hj & E); [lia|].
    exists 0, (S j). cbn. repeat split; auto; lia.
  - intros H. destruct IH as (i & j & ? & ? & ? & ?); [lia|].
    exists (S i), (S j). cbn. repeat split; auto; lia.
Qed.
Lemma idx2_cnt_ge2 s l i j : i < j -> j < length l -> nth i l 0 = s -> nth j l 0 = s -> 2 <= cnt s l.
Proof.
  revert i j; induction l as [|a l IH]; intros i j Hij Hj Ei Ej; cbn in Hj; [lia|]. rewrite cnt_cons.
  destruct j; [lia|]. destruct i; cbn in Ei, Ej.
  - pose proof (idx_cnt_ge1 s l j). destruct (Nat.eq_dec a s); lia.
  - specialize (IH i j). lia.
Qed.

(* ------------------------------------------------------------------ phase 1 under any interleaving (DESIGN A.5) *)
Section Phase1.
  Variable slots : list nat.
  Variable size : nat.
  Hypothesis slots_lt : forall i, i < length slots -> slot slots i < size.
  Let n := length slots.
  Notation pcn st i := (nth i (pcs st) Ds).
  Notation sl i := (slot slots i).

  Definition post (p : pc) : bool := match p with P2 | Df | Dc => true | _ => false end.

  (* the invariant of every reachable state *)
  Definition Inv (st : st1) : Prop :=
    length (pcs st) = n /\ length (sa st) = size /\ length (sc st) = size /\
    (* I1a *) (forall i, i < n -> post (pcn st i) = true -> bget (sa st) (sl i) = true) /\
    (* I1b/I2 existence *) (forall s, bget (sa st) s = true -> exists i, i < n /\ sl i = s /\ pcn st i = Df) /\
    (* I2 uniqueness *) (forall i j, i < n -> j < n -> sl i = sl j -> pcn st i = Df -> pcn st j = Df -> i = j) /\
    (* I3 *) (forall s, bget (sc st) s = true -> exists i, i < n /\ sl i = s /\ pcn st i = Dc) /\
    (* I4, I5 *) (forall i, i < n -> pcn st i = Ds \/ pcn st i = Dc -> bget (sc st) (sl i) = true).

  Lemma Inv_init : Inv (init1 n size).
  Proof.
    unfold Inv, init1; cbn [pcs sa sc]. unfold bnew at 1 2. rewrite !repeat_length. repeat split; auto.
    - intros i Hi. rewrite nth_repeat_if. apply Nat.ltb_lt in Hi. rewrite Hi. cbn. discriminate.
    - intros s. rewrite bget_bnew. discriminate.
    - intros i j Hi _ _. rewrite nth_repeat_if. apply Nat.ltb_lt in Hi. rewrite Hi. discriminate.
    - intros s. rewrite bget_bnew. discriminate.
    - intros i Hi. rewrite nth_repeat_if. apply Nat.ltb_lt in Hi. rewrite Hi. intros [?|?]; discriminate.
  Qed.
  Ltac pcr Lp Hi := rewrite ?nth_lset by (rewrite Lp; exact Hi).
  (* a witness thread w (with program counter q) survives a step of thread i whose counter was p <> q *)
  Ltac keep_witness w i Lp Hi :=
    exists w; repeat split; auto; pcr Lp Hi;
    let E := fresh "E" in destruct (w =? i) eqn:E; auto; apply Nat.eqb_eq in E; subst w; congruence.

  Lemma Inv_step st st' : step1 slots st st' -> Inv st -> Inv st'.
  Proof.
    intros S (Lp & La & Lc & J1 & J2 & J3 & J4 & J5).
    destruct S as [st i Hi Hpc Hc | st i Hi Hpc | st i Hi Hpc | st i Hi Hpc]; unfold Inv; cbn [pcs sa sc];
      rewrite ?lset_length, ?bset_length; (split; [auto|]); (split; [auto|]); (split; [auto|]);
      fold n in Hi.
    - (* read collide = true *)
      repeat split.
      + intros j Hj. pcr Lp Hi. destruct (j =? i) eqn:E; [discriminate|]. auto.
      + intros s H. destruct (J2 s H) as (w & Hw & Ew & Pw). keep_witness w i Lp Hi.
      + intros x y Hx Hy E. pcr Lp Hi. destruct (x =? i); [discriminate|]. destruct (y =? i); [discriminate|]. auto.
      + intros s H. destruct (J4 s H) as (w & Hw & Ew & Pw). keep_witness w i Lp Hi.
      + intros j Hj. pcr Lp Hi. destruct (j =? i) eqn:E; [|auto]. apply Nat.eqb_eq in E; subst j. auto.
    - (* read collide = false (possibly stale) *)
      repeat split.
      + intros j Hj. pcr Lp Hi. destruct (j =? i) eqn:E; [discriminate|]. auto.
      + intros s H. destruct (J2 s H) as (w & Hw & Ew & Pw). keep_witness w i Lp Hi.
      + intros x y Hx Hy E. pcr Lp Hi. destruct (x =? i); [discriminate|]. destruct (y =? i); [discriminate|]. auto.
      + intros s H. destruct (J4 s H) as (w & Hw & Ew & Pw). keep_witness w i Lp Hi.
      + intros j Hj. pcr Lp Hi. destruct (j =? i) eqn:E; [intros [?|?]; discriminate|auto].
    - (* fetch_or a *)
      assert (Hs : sl i < length (sa st)) by (rewrite La; apply slots_lt; auto).
      repeat split.
      + intros j Hj. rewrite bget_bset by auto. destruct (sl j =? sl i) eqn:E; auto.
        pcr Lp Hi. destruct (j =? i) eqn:E2; [|auto].
        apply Nat.eqb_eq in E2; subst j. rewrite Nat.eqb_refl in E; discriminate.
      + intros s. rewrite bget_bset by auto. destruct (s =? sl i) eqn:E.
        * apply Nat.eqb_eq in E; subst s. intros _. destruct (bget (sa st) (sl i)) eqn:A.
          -- destruct (J2 _ A) as (w & Hw & Ew & Pw). keep_witness w i Lp Hi.
          -- exists i. repeat split; auto. pcr Lp Hi. rewrite Nat.eqb_refl. reflexivity.
        * intros H. destruct (J2 s H) as (w & Hw & Ew & Pw). keep_witness w i Lp Hi.
      + intros x y Hx Hy E. pcr Lp Hi.
        destruct (x =? i) eqn:Ex; destruct (y =? i) eqn:Ey;
          try (apply Nat.eqb_eq in Ex; subst x); try (apply Nat.eqb_eq in Ey; subst y); auto.
        * destruct (bget (sa st) (sl i)) eqn:A; [discriminate|]. intros _ Py.
          rewrite E, J1 in A; auto; [discriminate|]. rewrite Py; reflexivity.
        * destruct (bget (sa st) (sl i)) eqn:A; [discriminate|]. intros Px _.
          rewrite <- E, J1 in A; auto; [discriminate|]. rewrite Px; reflexivity.
      + intros s H. destruct (J4 s H) as (w & Hw & Ew & Pw). keep_witness w i Lp Hi.
      + intros j Hj. pcr Lp Hi. destruct (j =? i) eqn:E; [|auto].
        destruct (bget (sa st) (sl i)); intros [?|?]; discriminate.
    - (* fetch_or collide *)
      assert (Hs : sl i < length (sc st)) by (rewrite Lc; apply slots_lt; auto).
      repeat split.
      + intros j Hj. pcr Lp Hi. destruct (j =? i) eqn:E; [|auto].
        apply Nat.eqb_eq in E; subst j. intros _. apply J1; auto. rewrite Hpc; reflexivity.
      + intros s H. destruct (J2 s H) as (w & Hw & Ew & Pw). keep_witness w i Lp Hi.
      + intros x y Hx Hy E. pcr Lp Hi. destruct (x =? i); [discriminate|]. destruct (y =? i); [discriminate|]. auto.
      + intros s. rewrite bget_bset by auto. destruct (s =? sl i) eqn:E.
        * apply Nat.eqb_eq in E; subst s. intros _. exists i. repeat split; auto. pcr Lp Hi.
          rewrite Nat.eqb_refl; reflexivity.
        * intros H. destruct (J4 s H) as (w & Hw & Ew & Pw). keep_witness w i Lp Hi.
      + intros j Hj. rewrite bget_bset by auto. destruct (sl j =? sl i) eqn:E; auto.
        pcr Lp Hi. destruct (j =? i) eqn:E2; [|auto].
        apply Nat.eqb_eq in E2; subst j. rewrite Nat.eqb_refl in E; discriminate.
  Qed.

  Lemma Inv_reach st : clos_refl_trans _ (step1 slots) (init1 n size) st -> Inv st.
  Proof.
    intros R. apply clos_rt_rtn1 in R. induction R as [|y z S R IH]; [apply Inv_init|].
    eapply Inv_step; eauto.
  Qed.
  (* what a finished thread implies *)
  Lemma done_cases st i : done1 slots st -> i < n -> pcn st i = Ds \/ pcn st i = Df \/ pcn st i = Dc.
  Proof. intros D Hi. specialize (D i Hi). destruct (pcn st i); cbn in D; auto; discriminate. Qed.

  Theorem phase1_final st : clos_refl_trans _ (step1 slots) (init1 n size) st -> done1 slots st ->
    sa st = map (fun s => 1 <=? cnt s slots) (seq 0 size) /\
    sc st = map (fun s => 2 <=? cnt s slots) (seq 0 size).
  Proof.
    intros R D. destruct (Inv_reach st R) as (Lp & La & Lc & J1 & J2 & J3 & J4 & J5).
    assert (DA : forall i, i < n -> bget (sa st) (sl i) = true).
    { intros i Hi. destruct (done_cases st i D Hi) as [P|[P|P]].
      - destruct (J4 (sl i)) as (w & Hw & Ew & Pw); [apply J5; auto|].
        rewrite <- Ew. apply J1; auto. rewrite Pw; reflexivity.
      - apply J1; auto. rewrite P; reflexivity.
      - apply J1; auto. rewrite P; reflexivity. }
    split; apply bv_ext; auto; intros s Hs.
    - destruct (bget (sa st) s) eqn:A; symmetry.
      + destruct (J2 s A) as (w & Hw & Ew & _). apply Nat.leb_le. eapply idx_cnt_ge1; eauto.
      + apply Nat.leb_gt. destruct (le_lt_dec 1 (cnt s slots)) as [H|H]; [|auto].
        destruct (cnt_ge1 _ _ H) as (i & Hi & E). subst s. change (nth i slots 0) with (sl i) in A.
        rewrite DA in A; auto. discriminate.
    - destruct (bget (sc st) s) eqn:C; symmetry.
      + destruct (J4 s C) as (w & Hw & Ew & Pw).
        assert (A : bget (sa st) s = true) by (rewrite <- Ew; apply J1; auto; rewrite Pw; reflexivity).
        destruct (J2 s A) as (w' & Hw' & Ew' & Pw'). apply Nat.leb_le.
        destruct (Nat.lt_total w w') as [L|[L|L]].
        * eapply (idx2_cnt_ge2 s slots w w'); eauto.
        * subst w'. congruence.
        * eapply (idx2_cnt_ge2 s slots w' w); eauto.
      + apply Nat.leb_gt. destruct (le_lt_dec 2 (cnt s slots)) as [H|H]; [|auto].
        destruct (cnt_ge2 _ _ H) as (i & j & Hij & Hj & Ei & Ej).
        change (nth i slots 0) with (sl i) in Ei. change (nth j slots 0) with (sl j) in Ej.
        assert (Hi : i < n) by (unfold n; lia).
        assert (F : forall x, x < n -> sl x = s -> pcn st x = Df).
        { intros x Hx Ex. destruct (done_cases st x D Hx) as [P|[P|P]]; auto;
            rewrite <- Ex, J5 in C; auto; discriminate. }
        assert (i = j) by (apply J3; auto; try congruence; try lia; apply F; auto; lia). lia.
  Qed.
End Phase1.
