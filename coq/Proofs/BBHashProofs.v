(* Proofs for property C19 about the model Algo/BBHash.v. *)
From Coq Require Import NArith List Bool Arith Lia Relations Permutation.
From DBG Require Import Spec.Dna Spec.GraphIndex Algo.BBHash.
Import ListNotations.
Local Open Scope nat_scope.

(* ------------------------------------------------------------------ lists *)
Lemma lset_length {A} (l : list A) i x : length (lset l i x) = length l.
Proof. revert i; induction l; destruct i; cbn; auto. Qed.

Lemma nth_lset {A} (l : list A) i j x d : i < length l ->
  nth j (lset l i x) d = if j =? i then x else nth j l d.
Proof.
  revert i j; induction l as [|a l IH]; intros i j H; cbn in H; [lia|].
  destruct i, j; cbn; auto. apply IH; lia.
Qed.

Lemma nth_repeat_if {A} (x d : A) n i : nth i (repeat x n) d = if i <? n then x else d.
Proof.
  revert i; induction n; intros i; cbn; [destruct i; auto|].
  destruct i; auto. rewrite IHn. reflexivity.
Qed.

Lemma nth_map_seq {A} (f : nat -> A) n s d : s < n -> nth s (map f (seq 0 n)) d = f s.
Proof.
  intros H. rewrite (nth_indep _ d (f 0)) by (rewrite map_length, seq_length; lia).
  rewrite map_nth, seq_nth by lia. reflexivity.
Qed.

Lemma bget_bset v s t x : s < length v -> bget (bset v s x) t = if t =? s then x else bget v t.
Proof. intros H. unfold bget, bset. apply nth_lset; auto. Qed.
Lemma bset_length v s x : length (bset v s x) = length v.
Proof. apply lset_length. Qed.
Lemma bget_bnew size s : bget (bnew size) s = false.
Proof. unfold bget, bnew. rewrite nth_repeat_if. destruct (s <? size); auto. Qed.
Lemma bget_overflow v s : length v <= s -> bget v s = false.
Proof. intros. apply nth_overflow; auto. Qed.

Lemma bv_ext (v : bv) (f : nat -> bool) size : length v = size -> (forall s, s < size -> bget v s = f s) ->
  v = map f (seq 0 size).
Proof.
  intros L H. apply (nth_ext _ _ false false).
  - rewrite map_length, seq_length; auto.
  - intros s Hs. rewrite nth_map_seq by lia. apply H. lia.
Qed.

(* ------------------------------------------------------------------ number of keys on a slot *)
Definition cnt (s : nat) (slots : list nat) : nat := count_occ Nat.eq_dec slots s.

Lemma cnt_cons s a l : cnt s (a :: l) = (if Nat.eq_dec a s then 1 else 0) + cnt s l.
Proof. unfold cnt; cbn. destruct (Nat.eq_dec a s); auto. Qed.

Lemma cnt_ge1 s l : 1 <= cnt s l -> exists i, i < length l /\ nth i l 0 = s.
Proof.
  induction l as [|a l IH]; rewrite ?cnt_cons; cbn; [unfold cnt; cbn; lia|].
  destruct (Nat.eq_dec a s).
  - intros _. exists 0. split; [lia|auto].
  - intros H. destruct IH as (i & Hi & E); [lia|]. exists (S i). split; [lia|auto].
Qed.
Lemma idx_cnt_ge1 s l i : i < length l -> nth i l 0 = s -> 1 <= cnt s l.
Proof.
  revert i; induction l as [|a l IH]; intros i H E; cbn in H; [lia|]. rewrite cnt_cons.
  destruct i; cbn in E.
  - destruct (Nat.eq_dec a s); lia.
  - specialize (IH i). lia.
Qed.
Lemma cnt_ge2 s l : 2 <= cnt s l ->
  exists i j, i < j /\ j < length l /\ nth i l 0 = s /\ nth j l 0 = s.
Proof.
  induction l as [|a l IH]; [unfold cnt; cbn; lia|]. rewrite cnt_cons.
  destruct (Nat.eq_dec a s).
  - intros H. destruct (cnt_ge1 s l) as (j & Hj & E); [lia|].
    exists 0, (S j). cbn. repeat split; auto; lia.
  - intros H. destruct IH as (i & j & ? & ? & ? & ?); [lia|].
    exists (S i), (S j). cbn. repeat split; auto; lia.
Qed.
Lemma idx2_cnt_ge2 s l i j : i < j -> j < length l -> nth i l 0 = s -> nth j l 0 = s -> 2 <= cnt s l.
Proof.
  revert i j; induction l as [|a l IH]; intros i j Hij Hj Ei Ej; cbn in Hj; [lia|]. rewrite cnt_cons.
  destruct j; [lia|]. destruct i; cbn in Ei, Ej.
  - pose proof (idx_cnt_ge1 s l j). destruct (Nat.eq_dec a s); lia.
  - specialize (IH i j). lia.
Qed.

(* ------------------------------------------------------------------ phase 1 under any interleaving (DESIGN A.5) *)
Section Phase1.
  Variable slots : list nat.
  Variable size : nat.
  Hypothesis slots_lt : forall i, i < length slots -> slot slots i < size.
  Let n := length slots.
  Notation pcn st i := (nth i (pcs st) Ds).
  Notation sl i := (slot slots i).

  Definition post (p : pc) : bool := match p with P2 | Df | Dc => true | _ => false end.

  (* the invariant of every reachable state *)
  Definition Inv (st : st1) : Prop :=
    length (pcs st) = n /\ length (sa st) = size /\ length (sc st) = size /\
    (* I1a *) (forall i, i < n -> post (pcn st i) = true -> bget (sa st) (sl i) = true) /\
    (* I1b/I2 existence *) (forall s, bget (sa st) s = true -> exists i, i < n /\ sl i = s /\ pcn st i = Df) /\
    (* I2 uniqueness *) (forall i j, i < n -> j < n -> sl i = sl j -> pcn st i = Df -> pcn st j = Df -> i = j) /\
    (* I3 *) (forall s, bget (sc st) s = true -> exists i, i < n /\ sl i = s /\ pcn st i = Dc) /\
    (* I4, I5 *) (forall i, i < n -> pcn st i = Ds \/ pcn st i = Dc -> bget (sc st) (sl i) = true).

  Lemma Inv_init : Inv (init1 n size).
  Proof.
    unfold Inv, init1; cbn [pcs sa sc]. unfold bnew at 1 2. rewrite !repeat_length. repeat split; auto.
    - intros i Hi. rewrite nth_repeat_if. apply Nat.ltb_lt in Hi. rewrite Hi. cbn. discriminate.
    - intros s. rewrite bget_bnew. discriminate.
    - intros i j Hi _ _. rewrite nth_repeat_if. apply Nat.ltb_lt in Hi. rewrite Hi. discriminate.
    - intros s. rewrite bget_bnew. discriminate.
    - intros i Hi. rewrite nth_repeat_if. apply Nat.ltb_lt in Hi. rewrite Hi. intros [?|?]; discriminate.
  Qed.
  Ltac pcr Lp Hi := rewrite ?nth_lset by (rewrite Lp; exact Hi).
  (* a witness thread w (with program counter q) survives a step of thread i whose counter was p <> q *)
  Ltac keep_witness w i Lp Hi :=
    exists w; repeat split; auto; pcr Lp Hi;
    let E := fresh "E" in destruct (w =? i) eqn:E; auto; apply Nat.eqb_eq in E; subst w; congruence.

  Lemma Inv_step st st' : step1 slots st st' -> Inv st -> Inv st'.
  Proof.
    intros S (Lp & La & Lc & J1 & J2 & J3 & J4 & J5).
    destruct S as [st i Hi Hpc Hc | st i Hi Hpc | st i Hi Hpc | st i Hi Hpc]; unfold Inv; cbn [pcs sa sc];
      rewrite ?lset_length, ?bset_length; (split; [auto|]); (split; [auto|]); (split; [auto|]);
      fold n in Hi.
    - (* read collide = true *)
      repeat split.
      + intros j Hj. pcr Lp Hi. destruct (j =? i) eqn:E; [discriminate|]. auto.
      + intros s H. destruct (J2 s H) as (w & Hw & Ew & Pw). keep_witness w i Lp Hi.
      + intros x y Hx Hy E. pcr Lp Hi. destruct (x =? i); [discriminate|]. destruct (y =? i); [discriminate|]. auto.
      + intros s H. destruct (J4 s H) as (w & Hw & Ew & Pw). keep_witness w i Lp Hi.
      + intros j Hj. pcr Lp Hi. destruct (j =? i) eqn:E; [|auto]. apply Nat.eqb_eq in E; subst j. auto.
    - (* read collide = false (possibly stale) *)
      repeat split.
      + intros j Hj. pcr Lp Hi. destruct (j =? i) eqn:E; [discriminate|]. auto.
      + intros s H. destruct (J2 s H) as (w & Hw & Ew & Pw). keep_witness w i Lp Hi.
      + intros x y Hx Hy E. pcr Lp Hi. destruct (x =? i); [discriminate|]. destruct (y =? i); [discriminate|]. auto.
      + intros s H. destruct (J4 s H) as (w & Hw & Ew & Pw). keep_witness w i Lp Hi.
      + intros j Hj. pcr Lp Hi. destruct (j =? i) eqn:E; [intros [?|?]; discriminate|auto].
    - (* fetch_or a *)
      assert (Hs : sl i < length (sa st)) by (rewrite La; apply slots_lt; auto).
      repeat split.
      + intros j Hj. rewrite bget_bset by auto. destruct (sl j =? sl i) eqn:E; auto.
        pcr Lp Hi. destruct (j =? i) eqn:E2; [|auto].
        apply Nat.eqb_eq in E2; subst j. rewrite Nat.eqb_refl in E; discriminate.
      + intros s. rewrite bget_bset by auto. destruct (s =? sl i) eqn:E.
        * apply Nat.eqb_eq in E; subst s. intros _. destruct (bget (sa st) (sl i)) eqn:A.
          -- destruct (J2 _ A) as (w & Hw & Ew & Pw). keep_witness w i Lp Hi.
          -- exists i. repeat split; auto. pcr Lp Hi. rewrite Nat.eqb_refl. reflexivity.
        * intros H. destruct (J2 s H) as (w & Hw & Ew & Pw). keep_witness w i Lp Hi.
      + intros x y Hx Hy E. pcr Lp Hi.
        destruct (x =? i) eqn:Ex; destruct (y =? i) eqn:Ey;
          try (apply Nat.eqb_eq in Ex; subst x); try (apply Nat.eqb_eq in Ey; subst y); auto.
        * destruct (bget (sa st) (sl i)) eqn:A; [discriminate|]. intros _ Py.
          rewrite E, J1 in A; auto; [discriminate|]. rewrite Py; reflexivity.
        * destruct (bget (sa st) (sl i)) eqn:A; [discriminate|]. intros Px _.
          rewrite <- E, J1 in A; auto; [discriminate|]. rewrite Px; reflexivity.
      + intros s H. destruct (J4 s H) as (w & Hw & Ew & Pw). keep_witness w i Lp Hi.
      + intros j Hj. pcr Lp Hi. destruct (j =? i) eqn:E; [|auto].
        destruct (bget (sa st) (sl i)); intros [?|?]; discriminate.
    - (* fetch_or collide *)
      assert (Hs : sl i < length (sc st)) by (rewrite Lc; apply slots_lt; auto).
      repeat split.
      + intros j Hj. pcr Lp Hi. destruct (j =? i) eqn:E; [|auto].
        apply Nat.eqb_eq in E; subst j. intros _. apply J1; auto. rewrite Hpc; reflexivity.
      + intros s H. destruct (J2 s H) as (w & Hw & Ew & Pw). keep_witness w i Lp Hi.
      + intros x y Hx Hy E. pcr Lp Hi. destruct (x =? i); [discriminate|]. destruct (y =? i); [discriminate|]. auto.
      + intros s. rewrite bget_bset by auto. destruct (s =? sl i) eqn:E.
        * apply Nat.eqb_eq in E; subst s. intros _. exists i. repeat split; auto. pcr Lp Hi.
          rewrite Nat.eqb_refl; reflexivity.
        * intros H. destruct (J4 s H) as (w & Hw & Ew & Pw). keep_witness w i Lp Hi.
      + intros j Hj. rewrite bget_bset by auto. destruct (sl j =? sl i) eqn:E; auto.
        pcr Lp Hi. destruct (j =? i) eqn:E2; [|auto].
        apply Nat.eqb_eq in E2; subst j. rewrite Nat.eqb_refl in E; discriminate.
  Qed.

  Lemma Inv_reach st : clos_refl_trans _ (step1 slots) (init1 n size) st -> Inv st.
  Proof.
    intros R. apply clos_rt_rtn1 in R. induction R as [|y z S R IH]; [apply Inv_init|].
    eapply Inv_step; eauto.
  Qed.
  (* what a finished thread implies *)
  Lemma done_cases st i : done1 slots st -> i < n -> pcn st i = Ds \/ pcn st i = Df \/ pcn st i = Dc.
  Proof. intros D Hi. specialize (D i Hi). destruct (pcn st i); cbn in D; auto; discriminate. Qed.

  Theorem phase1_final st : clos_refl_trans _ (step1 slots) (init1 n size) st -> done1 slots st ->
    sa st = map (fun s => 1 <=? cnt s slots) (seq 0 size) /\
    sc st = map (fun s => 2 <=? cnt s slots) (seq 0 size).
  Proof.
    intros R D. destruct (Inv_reach st R) as (Lp & La & Lc & J1 & J2 & J3 & J4 & J5).
    assert (DA : forall i, i < n -> bget (sa st) (sl i) = true).
    { intros i Hi. destruct (done_cases st i D Hi) as [P|[P|P]].
      - destruct (J4 (sl i)) as (w & Hw & Ew & Pw); [apply J5; auto|].
        rewrite <- Ew. apply J1; auto. rewrite Pw; reflexivity.
      - apply J1; auto. rewrite P; reflexivity.
      - apply J1; auto. rewrite P; reflexivity. }
    split; apply bv_ext; auto; intros s Hs.
    - destruct (bget (sa st) s) eqn:A; symmetry.
      + destruct (J2 s A) as (w & Hw & Ew & _). apply Nat.leb_le. eapply idx_cnt_ge1; eauto.
      + apply Nat.leb_gt. destruct (le_lt_dec 1 (cnt s slots)) as [H|H]; [|auto].
        destruct (cnt_ge1 _ _ H) as (i & Hi & E). subst s. change (nth i slots 0) with (sl i) in A.
        rewrite DA in A; auto. discriminate.
    - destruct (bget (sc st) s) eqn:C; symmetry.
      + destruct (J4 s C) as (w & Hw & Ew & Pw).
        assert (A : bget (sa st) s = true) by (rewrite <- Ew; apply J1; auto; rewrite Pw; reflexivity).
        destruct (J2 s A) as (w' & Hw' & Ew' & Pw'). apply Nat.leb_le.
        destruct (Nat.lt_total w w') as [L|[L|L]].
        * eapply (idx2_cnt_ge2 s slots w w'); eauto.
        * subst w'. congruence.
        * eapply (idx2_cnt_ge2 s slots w' w); eauto.
      + apply Nat.leb_gt. destruct (le_lt_dec 2 (cnt s slots)) as [H|H]; [|auto].
        destruct (cnt_ge2 _ _ H) as (i & j & Hij & Hj & Ei & Ej).
        change (nth i slots 0) with (sl i) in Ei. change (nth j slots 0) with (sl j) in Ej.
        assert (Hi : i < n) by (unfold n; lia).
        assert (F : forall x, x < n -> sl x = s -> pcn st x = Df).
        { intros x Hx Ex. destruct (done_cases st x D Hx) as [P|[P|P]]; auto;
            rewrite <- Ex, J5 in C; auto; discriminate. }
        assert (i = j) by (apply J3; auto; try congruence; try lia; apply F; auto; lia). lia.
  Qed.
End Phase1.

(* ------------------------------------------------------------------ phase 2 (filter) under any interleaving *)
(* the redo keys: those whose slot is marked in [c], in input order *)
Definition redo_spec (c : bv) (keys : list key) (slots : list nat) : list key :=
  map fst (filter (fun ks => bget c (snd ks)) (combine keys slots)).

Lemma collect_spec c : forall keys slots ps, length slots = length keys -> length ps = length keys ->
  (forall i, i < length keys -> nth i ps Qnone = if bget c (nth i slots 0) then Qsome else Qnone) ->
  collect keys ps = redo_spec c keys slots.
Proof.
  unfold redo_spec. induction keys as [|k keys IH]; intros slots ps Ls Lp H; [reflexivity|].
  destruct slots as [|s slots]; [discriminate|]. destruct ps as [|p ps]; [discriminate|].
  cbn [combine filter collect snd]. cbn in Ls, Lp.
  pose proof (H 0 ltac:(cbn; lia)) as H0. cbn in H0. subst p.
  assert (T : collect keys ps = map fst (filter (fun ks => bget c (snd ks)) (combine keys slots))).
  { apply IH; try lia. intros i Hi. apply (H (S i)). cbn; lia. }
  destruct (bget c s); cbn [map fst]; rewrite T; reflexivity.
Qed.

Section Phase2.
  Variable slots : list nat.
  Variable size : nat.
  Variable c a0 : bv.
  Hypothesis slots_lt : forall i, i < length slots -> slot slots i < size.
  Hypothesis a0_len : length a0 = size.
  Let n := length slots.
  Notation pcn st i := (nth i (pcs2 st) Qnone).
  Notation sl i := (slot slots i).

  Definition Inv2 (st : st2) : Prop :=
    length (pcs2 st) = n /\ length (sa2 st) = size /\
    (forall i, i < n -> pcn st i = Qsome -> bget (sa2 st) (sl i) = false) /\
    (forall i, i < n -> pcn st i = Q1 \/ pcn st i = Qsome -> bget c (sl i) = true) /\
    (forall i, i < n -> pcn st i = Qnone -> bget c (sl i) = false) /\
    (forall s, bget (sa2 st) s = bget a0 s \/ (bget (sa2 st) s = false /\ exists i, i < n /\ sl i = s /\ pcn st i = Qsome)).

  Lemma Inv2_init : Inv2 (init2 n a0).
  Proof.
    unfold Inv2, init2; cbn [pcs2 sa2]. rewrite repeat_length. repeat split; auto.
    - intros i Hi. rewrite nth_repeat_if. apply Nat.ltb_lt in Hi. rewrite Hi. discriminate.
    - intros i Hi. rewrite nth_repeat_if. apply Nat.ltb_lt in Hi. rewrite Hi. intros [?|?]; discriminate.
    - intros i Hi. rewrite nth_repeat_if. apply Nat.ltb_lt in Hi. rewrite Hi. discriminate.
  Qed.

  Ltac pcr2 Lp Hi := rewrite ?nth_lset by (rewrite Lp; exact Hi).

  Lemma Inv2_step st st' : step2 slots c st st' -> Inv2 st -> Inv2 st'.
  Proof.
    intros S (Lp & La & K2 & K3 & K4 & K5).
    destruct S as [st i Hi Hpc | st i Hi Hpc]; unfold Inv2; cbn [pcs2 sa2];
      rewrite ?lset_length, ?bset_length; (split; [auto|]); (split; [auto|]); fold n in Hi.
    - (* read collide (final, not stale: after the join) *)
      repeat split.
      + intros j Hj. pcr2 Lp Hi. destruct (j =? i) eqn:E; [|auto].
        destruct (bget c (sl i)); discriminate.
      + intros j Hj. pcr2 Lp Hi. destruct (j =? i) eqn:E; [|auto].
        apply Nat.eqb_eq in E; subst j. destruct (bget c (sl i)); auto. intros [?|?]; discriminate.
      + intros j Hj. pcr2 Lp Hi. destruct (j =? i) eqn:E; [|auto].
        apply Nat.eqb_eq in E; subst j. destruct (bget c (sl i)); auto. discriminate.
      + intros s. destruct (K5 s) as [H|(H & w & Hw & Ew & Pw)]; [left; auto|right].
        split; auto. exists w. repeat split; auto. pcr2 Lp Hi.
        destruct (w =? i) eqn:E; auto. apply Nat.eqb_eq in E; subst w. congruence.
    - (* fetch_and a *)
      assert (Hs : sl i < length (sa2 st)) by (rewrite La; apply slots_lt; auto).
      repeat split.
      + intros j Hj. rewrite bget_bset by auto. destruct (sl j =? sl i) eqn:E; auto.
        pcr2 Lp Hi. destruct (j =? i) eqn:E2; [|auto].
        apply Nat.eqb_eq in E2; subst j. rewrite Nat.eqb_refl in E; discriminate.
      + intros j Hj. pcr2 Lp Hi. destruct (j =? i) eqn:E; [|auto].
        apply Nat.eqb_eq in E; subst j. intros _. apply K3; auto.
      + intros j Hj. pcr2 Lp Hi. destruct (j =? i) eqn:E; [discriminate|auto].
      + intros s. rewrite bget_bset by auto. destruct (s =? sl i) eqn:E.
        * apply Nat.eqb_eq in E; subst s. right. split; auto. exists i. repeat split; auto.
          pcr2 Lp Hi. rewrite Nat.eqb_refl; reflexivity.
        * destruct (K5 s) as [H|(H & w & Hw & Ew & Pw)]; [left; auto|right].
          split; auto. exists w. repeat split; auto. pcr2 Lp Hi.
          destruct (w =? i) eqn:E2; auto.
  Qed.

  Lemma Inv2_reach st : clos_refl_trans _ (step2 slots c) (init2 n a0) st -> Inv2 st.
  Proof.
    intros R. apply clos_rt_rtn1 in R. induction R as [|y z S R IH]; [apply Inv2_init|].
    eapply Inv2_step; eauto.
  Qed.

  Theorem phase2_final st : clos_refl_trans _ (step2 slots c) (init2 n a0) st -> done2 slots st ->
    sa2 st = map (fun s => bget a0 s && negb (bget c s && (1 <=? cnt s slots))) (seq 0 size) /\
    forall keys, length keys = n -> collect keys (pcs2 st) = redo_spec c keys slots.
  Proof.
    intros R D. destruct (Inv2_reach st R) as (Lp & La & K2 & K3 & K4 & K5).
    assert (F : forall i, i < n -> pcn st i = if bget c (sl i) then Qsome else Qnone).
    { intros i Hi. specialize (D i Hi). destruct (pcn st i) eqn:P; cbn in D; try discriminate.
      - rewrite K4; auto.
      - rewrite K3; auto. }
    split.
    - apply bv_ext; auto. intros s Hs.
      destruct (bget c s && (1 <=? cnt s slots)) eqn:E.
      + apply andb_prop in E. destruct E as [C E]. apply Nat.leb_le in E.
        destruct (cnt_ge1 _ _ E) as (i & Hi & Ei). subst s. change (nth i slots 0) with (sl i) in *.
        rewrite andb_false_r. apply K2; auto. rewrite F, C; auto.
      + rewrite andb_true_r. destruct (K5 s) as [H|(H & w & Hw & Ew & Pw)]; auto.
        exfalso. subst s. rewrite K3 in E; auto. rewrite andb_true_l in E. apply Nat.leb_gt in E.
        pose proof (idx_cnt_ge1 (sl w) slots w Hw eq_refl). lia.
    - intros keys Lk. apply collect_spec; try lia. intros i Hi. apply F. lia.
  Qed.
End Phase2.

(* ------------------------------------------------------------------ the serial level computes the same function of the slot counts *)
Lemma cnt_snoc s p s0 : cnt s (p ++ [s0]) = cnt s p + (if s =? s0 then 1 else 0).
Proof.
  unfold cnt. rewrite count_occ_app. cbn. destruct (Nat.eq_dec s0 s), (Nat.eqb_spec s s0); subst; auto; congruence.
Qed.
Lemma cnt_cons' s s0 p : cnt s (s0 :: p) = (if s =? s0 then 1 else 0) + cnt s p.
Proof. rewrite cnt_cons. destruct (Nat.eq_dec s0 s), (Nat.eqb_spec s s0); subst; auto; congruence. Qed.

Ltac leb_solve :=
  repeat match goal with
         | H : (_ <=? _) = true |- _ => apply Nat.leb_le in H
         | H : (_ <=? _) = false |- _ => apply Nat.leb_gt in H
         | H : (_ =? _) = true |- _ => apply Nat.eqb_eq in H
         | H : (_ =? _) = false |- _ => apply Nat.eqb_neq in H
         end;
  repeat match goal with
         | |- context [?a =? ?b] => destruct (Nat.eqb_spec a b); subst
         end;
  repeat match goal with
         | |- context [?a <=? ?b] => destruct (Nat.leb_spec a b)
         end; try reflexivity; try lia; try congruence.

Section Serial.
  Variable size : nat.
  Definition Aof (p : list nat) : bv := map (fun s => 1 <=? cnt s p) (seq 0 size).
  Definition Cof (p : list nat) : bv := map (fun s => 2 <=? cnt s p) (seq 0 size).
  Lemma Aof_length p : length (Aof p) = size. Proof. unfold Aof. rewrite map_length, seq_length; auto. Qed.
  Lemma Cof_length p : length (Cof p) = size. Proof. unfold Cof. rewrite map_length, seq_length; auto. Qed.
  Lemma bget_Aof p s : s < size -> bget (Aof p) s = (1 <=? cnt s p).
  Proof. intros. unfold bget, Aof. apply (nth_map_seq (fun s => 1 <=? cnt s p)); auto. Qed.
  Lemma bget_Cof p s : s < size -> bget (Cof p) s = (2 <=? cnt s p).
  Proof. intros. unfold bget, Cof. apply (nth_map_seq (fun s => 2 <=? cnt s p)); auto. Qed.
  Lemma bnew_Aof : bnew size = Aof []. 
  Proof. apply bv_ext; [apply repeat_length|]. intros. apply bget_bnew. Qed.
  Lemma bnew_Cof : bnew size = Cof [].
  Proof. apply bv_ext; [apply repeat_length|]. intros. apply bget_bnew. Qed.

  Lemma fc_sync_spec p s0 : s0 < size -> fc_sync (Aof p, Cof p) s0 = (Aof (p ++ [s0]), Cof (p ++ [s0])).
  Proof.
    intros H0. unfold fc_sync. rewrite bget_Cof, bget_Aof by auto.
    destruct (2 <=? cnt s0 p) eqn:E2; [|destruct (1 <=? cnt s0 p) eqn:E1]; f_equal;
      apply bv_ext; rewrite ?bset_length, ?Aof_length, ?Cof_length; auto; intros s Hs;
      rewrite ?bget_bset by (rewrite ?Aof_length, ?Cof_length; auto);
      rewrite ?bget_Aof, ?bget_Cof by auto; rewrite cnt_snoc; leb_solve.
  Qed.

  Lemma fold_fc_sync l : Forall (fun s => s < size) l -> forall p,
    fold_left fc_sync l (Aof p, Cof p) = (Aof (p ++ l), Cof (p ++ l)).
  Proof.
    induction 1 as [|s0 l H0 _ IH]; intros p; cbn [fold_left]; [rewrite app_nil_r; auto|].
    rewrite fc_sync_spec by auto. rewrite IH, <- app_assoc. reflexivity.
  Qed.

  Lemma phase1_serial slots : Forall (fun s => s < size) slots ->
    fold_left fc_sync slots (bnew size, bnew size) = (Aof slots, Cof slots).
  Proof. intros H. rewrite bnew_Aof at 1. rewrite bnew_Cof. apply (fold_fc_sync slots H []). Qed.

  (* filter, serially *)
  Lemma filter_sync_spec c : forall keys slots a, length slots = length keys -> length a = size ->
    Forall (fun s => s < size) slots ->
    filter_sync c a (combine keys slots) =
      (map (fun s => bget a s && negb (bget c s && (1 <=? cnt s slots))) (seq 0 size), redo_spec c keys slots).
  Proof.
    unfold redo_spec.
    induction keys as [|k keys IH]; intros slots a Ls La F.
    - destruct slots; [|discriminate]. cbn. f_equal. apply bv_ext; auto. intros s Hs.
      unfold cnt; cbn. rewrite andb_false_r, andb_true_r. reflexivity.
    - destruct slots as [|s0 slots]; [discriminate|]. inversion F as [|? ? H0 F']; subst.
      cbn [combine filter_sync filter snd]. cbn in Ls.
      destruct (bget c s0) eqn:C0.
      + rewrite IH by (rewrite ?bset_length; auto). cbn [map fst]. f_equal.
        apply map_ext_in. intros s Hs. apply in_seq in Hs.
        rewrite bget_bset by lia. rewrite cnt_cons'.
        destruct (s =? s0) eqn:E; [apply Nat.eqb_eq in E; subst; rewrite C0; cbn; rewrite andb_false_r; reflexivity|].
        reflexivity.
      + rewrite IH by auto. f_equal. apply map_ext_in. intros s Hs. rewrite cnt_cons'.
        destruct (s =? s0) eqn:E; [apply Nat.eqb_eq in E; subst; rewrite C0; cbn; reflexivity|].
        reflexivity.
  Qed.
End Serial.

(* ------------------------------------------------------------------ levels, the loop, the whole MPHF *)
Section MphfProofs.
  Variable h : nat -> nat -> key -> nat.
  Variable sz : nat -> nat.
  Hypothesis h_lt : forall iter n k, h iter (sz n) k < sz n.      (* fastmod / % : a slot is below the level size *)

  (* what one level computes, in terms of the number of keys per slot only *)
  Definition level_spec (iter : nat) (keys : list key) : bv * list key :=
    let slots := level_slots h sz iter keys in
    (map (fun s => cnt s slots =? 1) (seq 0 (sz (length keys))),
     map fst (filter (fun ks => 2 <=? cnt (snd ks) slots) (combine keys slots))).

  Lemma slots_length iter keys : length (level_slots h sz iter keys) = length keys.
  Proof. apply map_length. Qed.
  Lemma slots_range iter keys : Forall (fun s => s < sz (length keys)) (level_slots h sz iter keys).
  Proof. apply Forall_forall. intros s H. apply in_map_iff in H. destruct H as (k & <- & _). apply h_lt. Qed.
  Lemma slots_lt iter keys i : i < length (level_slots h sz iter keys) ->
    slot (level_slots h sz iter keys) i < sz (length keys).
  Proof.
    intros H. pose proof (slots_range iter keys) as F. rewrite Forall_forall in F. apply F. apply nth_In; auto.
  Qed.

  Lemma spec_of_counts iter keys :
    let slots := level_slots h sz iter keys in let size := sz (length keys) in
    (map (fun s => bget (Aof size slots) s && negb (bget (Cof size slots) s && (1 <=? cnt s slots))) (seq 0 size),
     redo_spec (Cof size slots) keys slots) = level_spec iter keys.
  Proof.
    intros slots size. unfold level_spec. fold slots. fold size. f_equal.
    - apply map_ext_in. intros s Hs. apply in_seq in Hs. rewrite bget_Aof, bget_Cof by lia.
      destruct (cnt s slots) as [|[|m]]; reflexivity.
    - unfold redo_spec. f_equal. apply filter_ext_in. intros (k, s) Hin. cbn [snd].
      apply in_combine_r in Hin. apply bget_Cof.
      pose proof (slots_range iter keys) as F. rewrite Forall_forall in F. apply F; auto.
  Qed.

  Lemma level_serial_spec iter keys : level_serial h sz iter keys = level_spec iter keys.
  Proof.
    unfold level_serial. rewrite (phase1_serial (sz (length keys))) by apply slots_range.
    rewrite (filter_sync_spec (sz (length keys)));
      [apply spec_of_counts|apply slots_length|apply Aof_length|apply slots_range].
  Qed.

  Lemma level_par_spec iter keys a redo : level_par h sz iter keys a redo -> (a, redo) = level_spec iter keys.
  Proof.
    intros [s1 s2 R1 D1 R2 D2].
    assert (R1' : clos_refl_trans _ (step1 (level_slots h sz iter keys))
                    (init1 (length (level_slots h sz iter keys)) (sz (length keys))) s1)
      by (rewrite slots_length; exact R1).
    assert (R2' : clos_refl_trans _ (step2 (level_slots h sz iter keys) (sc s1))
                    (init2 (length (level_slots h sz iter keys)) (sa s1)) s2)
      by (rewrite slots_length; exact R2).
    clear R1 R2. rename R1' into R1. rename R2' into R2.
    destruct (phase1_final _ _ (slots_lt iter keys) _ R1 D1) as (EA & EC).
    assert (La : length (sa s1) = sz (length keys)) by (rewrite EA, map_length, seq_length; auto).
    destruct (phase2_final _ _ _ _ (slots_lt iter keys) La _ R2 D2) as (E2 & Er).
    rewrite E2, (Er keys) by (symmetry; apply slots_length). rewrite EA, EC. apply spec_of_counts.
  Qed.

  (* one level: every schedule of both phases gives the bit vector and the redo list of the serial code *)
  Theorem level_par_eq_serial iter keys a redo :
    level_par h sz iter keys a redo -> (a, redo) = level_serial h sz iter keys.
  Proof. intros H. rewrite level_serial_spec. apply level_par_spec; auto. Qed.

  Lemma loop_par_eq fuel iter redo res : loop_par h sz fuel iter redo res -> res = mphf_loop h sz fuel iter redo.
  Proof.
    induction 1 as [fuel iter|iter k r|fuel iter k r a redo res L _ IH]; cbn [mphf_loop]; auto.
    - destruct fuel; reflexivity.
    - rewrite <- (level_par_eq_serial _ _ _ _ L). rewrite IH. reflexivity.
  Qed.

  Theorem mphf_par_eq keys r : mphf_par h sz keys r -> r = mphf_new h sz keys.
  Proof.
    intros [a redo res L Lp]. unfold mphf_new. rewrite <- (level_par_eq_serial _ _ _ _ L).
    rewrite (loop_par_eq _ _ _ _ Lp). reflexivity.
  Qed.

  Theorem bhm_par_eq {V} keys (vals : list V) r : bhm_new_par h sz keys vals r -> r = bhm_new h sz keys vals.
  Proof. intros [m M]. unfold bhm_new. rewrite (mphf_par_eq _ _ M). reflexivity. Qed.

  Theorem finish_par_eq K g r : finish_par h sz K g r -> r = finish_serial h sz K g.
  Proof.
    unfold finish_serial.
    intros [L | l L R | l r' L R]; apply bhm_par_eq in L; try apply bhm_par_eq in R;
      rewrite <- L; try rewrite <- R; reflexivity.
  Qed.
End MphfProofs.
