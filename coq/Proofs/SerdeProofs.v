(* C20, persistence: decode (encode x) = Some x for every persisted type, and queries after a round trip. *)
From Coq Require Import NArith List Bool Arith String Lia.
From DBG Require Import Spec.Dna Spec.GraphIndex Packed.DnaStringModel Algo.GraphModel Algo.Json Algo.Serde.
Import ListNotations.

Theorem int_kmer_roundtrip s : dec_int_kmer (enc_int_kmer s) = Some s.
Proof. reflexivity. Qed.
Theorem varint_kmer_roundtrip s : dec_varint_kmer (enc_varint_kmer s) = Some s.
Proof. reflexivity. Qed.
Theorem kmer_roundtrip s : dec_int_kmer (enc_int_kmer s) = Some s /\ dec_varint_kmer (enc_varint_kmer s) = Some s.
Proof. split; reflexivity. Qed.
Theorem exts_roundtrip v : dec_exts (enc_exts v) = Some v.
Proof. reflexivity. Qed.
Theorem dir_roundtrip d : dec_dir (enc_dir d) = Some d.
Proof. destruct d; reflexivity. Qed.

Lemma dec_nums_map l : dec_nums (map JNum l) = Some l.
Proof. induction l as [|x l IH]; [reflexivity|]. cbn [map dec_nums]. now rewrite IH. Qed.
Lemma dec_nums_nats l : option_map (map N.to_nat) (dec_nums (map (fun n => JNum (N.of_nat n)) l)) = Some l.
Proof.
  induction l as [|x l IH]; [reflexivity|]. cbn [map dec_nums].
  destruct (dec_nums (map (fun n => JNum (N.of_nat n)) l)) as [t|]; [|discriminate].
  cbn [option_map map] in *. inversion IH as [E]. rewrite E. now rewrite Nat2N.id.
Qed.
Lemma dec_list_map {A} (enc : A -> jtree) (dec : jtree -> option A) l :
  (forall x, dec (enc x) = Some x) -> dec_list dec (map enc l) = Some l.
Proof. intros H. induction l as [|x l IH]; [reflexivity|]. cbn [map dec_list]. now rewrite H, IH. Qed.

Theorem dstr_roundtrip s : dec_dstr (enc_dstr s) = Some s.
Proof.
  destruct s as [sto len]. unfold dec_dstr, enc_dstr. cbn [d_sto d_len].
  change (get_nums "storage" (JObj [fld "storage" (JArr (map JNum sto)); fld "len" (JNum (N.of_nat len))]))
    with (dec_nums (map JNum sto)).
  change (get_num "len" (JObj [fld "storage" (JArr (map JNum sto)); fld "len" (JNum (N.of_nat len))]))
    with (Some (N.of_nat len)).
  now rewrite dec_nums_map, Nat2N.id.
Qed.

Theorem pset_roundtrip p : dec_pset (enc_pset p) = Some p.
Proof.
  destruct p as [sq st ln]. unfold dec_pset, enc_pset, enc_nats. cbn [p_seq p_start p_length].
  match goal with |- context [get "sequence" ?t] => change (get "sequence" t) with (Some (enc_dstr sq)) end.
  cbv beta iota. rewrite dstr_roundtrip.
  match goal with |- context [get_nums "start" ?t] =>
    change (get_nums "start" t) with (dec_nums (map (fun n => JNum (N.of_nat n)) st)) end.
  match goal with |- context [get_nums "length" ?t] =>
    change (get_nums "length" t) with (dec_nums (map (fun n => JNum (N.of_nat n)) ln)) end.
  pose proof (dec_nums_nats st) as E1. pose proof (dec_nums_nats ln) as E2.
  destruct (dec_nums (map (fun n => JNum (N.of_nat n)) st)) as [a|]; [|discriminate].
  destruct (dec_nums (map (fun n => JNum (N.of_nat n)) ln)) as [b|]; [|discriminate].
  cbn [option_map] in E1, E2. inversion E1 as [F1]. inversion E2 as [F2]. now rewrite F1, F2.
Qed.

Section BG.
Variable D : Type.
Variable enc_d : D -> jtree.
Variable dec_d : jtree -> option D.
Hypothesis data_roundtrip : forall d, dec_d (enc_d d) = Some d.

Theorem bgraph_roundtrip (g : bgraph D) : dec_bgraph D dec_d (enc_bgraph D enc_d g) = Some g.
Proof.
  destruct g as [p es ds b]. unfold dec_bgraph, enc_bgraph. cbn [bg_seqs bg_exts bg_data bg_stranded].
  match goal with |- context [get "sequences" ?t] => change (get "sequences" t) with (Some (enc_pset p)) end.
  match goal with |- context [get "exts" ?t] => change (get "exts" t) with (Some (JArr (map enc_exts es))) end.
  match goal with |- context [get "data" ?t] => change (get "data" t) with (Some (JArr (map enc_d ds))) end.
  match goal with |- context [get "stranded" ?t] => change (get "stranded" t) with (Some (JBool b)) end.
  match goal with |- context [get "phantom" ?t] => change (get "phantom" t) with (Some JNull) end.
  cbv beta iota. rewrite pset_roundtrip, (dec_list_map enc_exts dec_exts es exts_roundtrip), (dec_list_map enc_d dec_d ds data_roundtrip).
  reflexivity.
Qed.

(* the queries are functions of the persisted structure: after a round trip every find_link / find_edges
   (and anything else computed from the nodes) answers as before *)
Theorem queries_after_roundtrip (K : nat) (g g' : bgraph D) :
  dec_bgraph D dec_d (enc_bgraph D enc_d g) = Some g' ->
  g' = g /\
  (forall kmer d, find_link D K (bg_stranded D g') (bg_nodes D g') kmer d = find_link D K (bg_stranded D g) (bg_nodes D g) kmer d) /\
  (forall id d, find_edges D K (bg_stranded D g') (bg_nodes D g') id d = find_edges D K (bg_stranded D g) (bg_nodes D g) id d).
Proof. rewrite bgraph_roundtrip. intros E. inversion E. auto. Qed.
End BG.
