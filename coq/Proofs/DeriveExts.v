(* C01 (f): the extensions compress_kmers_no_exts derives from set membership are symmetric, so the table it
   hands to CompressFromHash meets the hypotheses of the C01/C02 theorems. *)
From Coq Require Import NArith List Bool Arith Lia Permutation.
From DBG Require Import Proofs.AbstractWalk.
From DBG Require Import Spec.Dna Spec.GraphIndex Spec.Unitig Spec.CompressSpec Packed.ExtsModel Algo.Compress
  Proofs.ListFacts Proofs.DnaFacts Proofs.ExtsProofs Proofs.ExtsWalk Proofs.KmerAlgebra Proofs.CompressBasics
  Proofs.CompressRefine Proofs.CompressWalk.
Import ListNotations.
Open Scope N_scope.

Definition mk8 (l0 l1 l2 l3 r0 r1 r2 r3 : bool) : N :=
  let o (c : bool) (e : N) (p : N) := if c then N.lor e (N.shiftl 1 p) else e in
  o r3 (o r2 (o r1 (o r0 (o l3 (o l2 (o l1 (o l0 0 0) 1) 2) 3) 4) 5) 6) 7.
Lemma mk8_spec l0 l1 l2 l3 r0 r1 r2 r3 :
  let e := mk8 l0 l1 l2 l3 r0 r1 r2 r3 in
  e < 256 /\ N.testbit e 0 = l0 /\ N.testbit e 1 = l1 /\ N.testbit e 2 = l2 /\ N.testbit e 3 = l3 /\
  N.testbit e 4 = r0 /\ N.testbit e 5 = r1 /\ N.testbit e 6 = r2 /\ N.testbit e 7 = r3.
Proof. destruct l0, l1, l2, l3, r0, r1, r2, r3; vm_compute; repeat split; reflexivity. Qed.

Section Derive.
Variable stranded : bool.
Variable keys : list dna.
Local Notation can := (canon_k stranded).
Definition present (x : dna) : bool := existsb (dna_eqb (can x)) keys.

Lemma derive_mk8 k : derive_exts stranded keys k =
  mk8 (present (extend k 0 DLeft)) (present (extend k 1 DLeft)) (present (extend k 2 DLeft)) (present (extend k 3 DLeft))
      (present (extend k 0 DRight)) (present (extend k 1 DRight)) (present (extend k 2 DRight)) (present (extend k 3 DRight)).
Proof. reflexivity. Qed.

Lemma derive_lt256 k : derive_exts stranded keys k < 256.
Proof. rewrite derive_mk8. apply mk8_spec. Qed.

Lemma derive_has_ext k d b : b < 4 ->
  e_has_ext (derive_exts stranded keys k) (dirb d) b = present (extend k b d).
Proof.
  intro Hb. rewrite has_ext_testbit by (auto using derive_lt256). rewrite derive_mk8.
  match goal with |- context [mk8 ?a ?b ?c ?d ?e ?f ?g ?h] => pose proof (mk8_spec a b c d e f g h) as S end.
  cbv zeta in S. destruct S as (_ & S0 & S1 & S2 & S3 & S4 & S5 & S6 & S7).
  assert (Hc : b = 0 \/ b = 1 \/ b = 2 \/ b = 3) by lia.
  destruct d; cbn [dirb]; destruct Hc as [->|[->|[->| ->]]]; cbn [N.add Pos.add Pos.succ]; assumption.
Qed.
End Derive.

Section Table.
Variable D : Type.
Variable K : nat.
Variable stranded : bool.
Hypothesis HK : (1 <= K)%nat.
Variable kds : list (dna * D).
Local Notation keys := (map fst kds).
Hypothesis Hnd : NoDup keys.
Hypothesis Hkeys : forall k, In k keys -> length k = K /\ wf_dna k /\ (stranded = false -> canon k = k).

(* the table compress_kmers_no_exts builds *)
Definition derived_table : table D :=
  map (fun kd => (fst kd, derive_exts stranded keys (fst kd), snd kd)) kds.

Lemma derived_keys : Unitig.keys D derived_table = keys.
Proof. unfold Unitig.keys, derived_table. rewrite map_map. reflexivity. Qed.
Lemma derived_in e : In e derived_table -> In (e_key D e) keys /\ e_exts D e = derive_exts stranded keys (e_key D e).
Proof.
  unfold derived_table. intro H. apply in_map_iff in H. destruct H as [kd [<- Hin]]. cbn. split; [now apply in_map | reflexivity].
Qed.

Lemma derived_tbl_ok : tbl_ok D K stranded derived_table.
Proof.
  constructor.
  - rewrite derived_keys. exact Hnd.
  - intros e He. apply derived_in in He. now apply Hkeys.
  - intros e He. apply derived_in in He. now apply Hkeys.
  - intros Hs e He. apply derived_in in He. now apply Hkeys.
  - intros e He. apply derived_in in He. destruct He as [_ ->]. apply derive_lt256.
Qed.

Lemma canon_k_key k : In k keys -> canon_k stranded k = k.
Proof. intro H. unfold canon_k. destruct stranded eqn:E; [reflexivity|]. now apply Hkeys. Qed.
Lemma present_key k : In k keys -> existsb (dna_eqb k) keys = true.
Proof. intro H. apply existsb_exists. exists k. split; [exact H | now apply dna_eqb_eq]. Qed.

Theorem derive_exts_sym : exts_sym D stranded derived_table.
Proof.
  intros ent d b yent Hin Hb Hh. cbv zeta. intro Hg. right.
  destruct (derived_in _ Hin) as [Hk He].
  apply (get_entry_Some D derived_table) in Hg. destruct Hg as [Hyin Hyk].
  destruct (derived_in _ Hyin) as [Hyk' Hye]. rewrite Hye, Hyk.
  set (k := e_key D ent) in *.
  destruct (Hkeys k Hk) as (Hlen & Hwf & Hcan).
  assert (Hne : k <> []) by (intro E; rewrite E in Hlen; cbn in Hlen; lia).
  assert (Ho4 : outer k (dflip d) < 4).
  { destruct d; cbn [dflip outer]; [apply wf_last | apply wf_hd]; auto. }
  destruct (kcanon_flip stranded (extend k b d)) as [y fl] eqn:Hyf. cbn [fst snd] in *.
  rewrite derive_has_ext by (destruct fl; [apply comp_lt4 | exact Ho4]).
  unfold present.
  destruct (kcanon_flip_cases _ _ _ _ Hyf) as [[-> Hy]|[Hst [-> Hy]]]; cbn [cond_flip].
  - rewrite Hy, extend_back by auto. rewrite (canon_k_key k Hk). now apply present_key.
  - rewrite dflip_dflip. rewrite Hy, rc_extend by auto. rewrite <- (outer_rc k d Hne).
    rewrite <- (dflip_dflip d) at 2 3. rewrite extend_back by (intro E; apply (proj1 (rc_nil_iff k)) in E; exact (Hne E)).
    unfold canon_k. rewrite Hst. rewrite canon_rc by auto. rewrite (Hcan Hst). now apply present_key.
Qed.
End Table.
