(* tipclean, table level: the UNPRUNED table of the crate's own pipeline (src/test.rs simple_tip_clean, README):
   filter_kmers with CountFilterSet on the whole reads, sort, NO remove_censored_exts (variant 0), reordering by the
   observed hash order - described on Layer S.  It is the one-shard instance (shard function constantly 0, no pruning) of
   Proofs/ShardTable.v's [shard_tbl_spec]: its keys are the retained k-mers, payloads the global ones, and the extension
   bit (d, c) of k is set iff the (K+1)-mer occurs in a read (in the orientation in which the observation is stored) -
   WHETHER OR NOT its other k-mer is retained.  Such a table meets C01's hypotheses and is [links_loose] w.r.t.
   [unpruned_links]: the canonical observed (K+1)-mers at least one of whose k-mers is retained. *)
From Coq Require Import NArith List Bool Arith Lia Permutation.
From DBG Require Import Spec.Dna Spec.GraphIndex Spec.Unitig Spec.CompressSpec Packed.ExtsModel Packed.ExtsMini Algo.Compress
  Algo.KmerHist Algo.Filter Algo.GraphModel Algo.Pipeline Check.GraphCheck Check.PipelineCheck
  Proofs.ListFacts Proofs.DnaFacts Proofs.KmerAlgebra Proofs.ExtsProofs Proofs.FilterProofs Proofs.FilterSumm
  Proofs.PipelineCheckProofs Proofs.TableSpecProofs
  Proofs.E2eDefs Proofs.E2eSym Proofs.E2eGraph Proofs.E2eObs Proofs.E2eTable Proofs.E2eDirect Proofs.ShardTable.
Import ListNotations.
Local Open Scope nat_scope.

(* the constant shard function: everything lives in shard 0 *)
Definition sh0 : dna -> N := fun _ => 0%N.

Lemma filter_inb_sh0 (l : list dna) : filter (inb sh0 0%N) l = l.
Proof. induction l as [|x l IH]; [reflexivity|]. cbn [filter]. change (inb sh0 0%N x) with true. cbv iota. now rewrite IH. Qed.

Section Unpruned.
Variable K : nat.
Variable st : bool.
Variable thr : N.
Variable lreads : list lread.
Local Notation reads := (map fst lreads).
Local Notation ret := (retained K st thr reads).
Local Notation isr := (is_retained K st thr reads).
Local Notation W := (wins K lreads).

(* the link set recorded by the unpruned table: every observed (K+1)-mer with a retained k-mer *)
Definition some_retained (v : dna) : bool := isr (cn st (firstn K v)) || isr (cn st (skipn 1 v)).
Definition unpruned_links : list dna := map (cn st) (filter some_retained (flat_map (kmers (S K)) reads)).

Lemma loose_ok_unpruned v : loose_ok K st thr lreads sh0 false v = some_retained v.
Proof. unfold loose_ok, some_retained. cbn [negb orb]. apply andb_true_r. Qed.
Lemma unpruned_links_loose : unpruned_links = loose_links K st thr lreads sh0 false.
Proof.
  unfold unpruned_links, loose_links, wins. f_equal. apply filter_ext. intro v. symmetry. apply loose_ok_unpruned.
Qed.
Lemma in_unpruned_links w : In w unpruned_links <-> exists v, In v W /\ some_retained v = true /\ w = cn st v.
Proof.
  rewrite unpruned_links_loose, in_loose_links. split; intros (v & Hv & Hr & ->); exists v; (split; [exact Hv|]);
    (split; [|reflexivity]); [now rewrite <- loose_ok_unpruned | now rewrite loose_ok_unpruned].
Qed.

(* the table before reordering *)
Definition unpruned_pre : table pay := sort_entries (map (raw_entry K st lreads) ret).
Lemma unpruned_pre_shard : unpruned_pre = shard_pre K st thr lreads sh0 false 0%N.
Proof. unfold unpruned_pre, shard_pre. now rewrite filter_inb_sh0. Qed.

Definition unpruned_tbl_spec (T : table pay) : Prop := shard_tbl_spec K st thr lreads sh0 false 0%N T.

Hypothesis HK : 4 <= K.
Hypothesis Hwf : Forall (fun r => wf_dna (fst r)) lreads.

Lemma table_of_unpruned order : table_of K st thr 0 (whole_reads lreads) order = reorder unpruned_pre order.
Proof.
  unfold table_of. rewrite (filter_set_whole K st thr lreads HK Hwf), raw_table. cbv zeta.
  change (0 =? 1)%N with false. change (0 =? 2)%N with false. cbv iota. reflexivity.
Qed.

Theorem table_of_unpruned_spec order T : NoDup order ->
  table_of K st thr 0 (whole_reads lreads) order = Some T -> unpruned_tbl_spec T.
Proof.
  intros Hnd H. rewrite table_of_unpruned in H.
  apply (shard_tbl_spec_perm K st thr lreads sh0 false 0%N unpruned_pre T).
  - symmetry. eapply reorder_perm; eauto.
  - rewrite unpruned_pre_shard. apply shard_pre_spec; [lia | exact Hwf].
Qed.

Theorem table_of_unpruned_total order : Permutation order ret ->
  exists T, table_of K st thr 0 (whole_reads lreads) order = Some T.
Proof.
  intro Pm. rewrite table_of_unpruned. set (T0 := unpruned_pre).
  assert (Hk : Permutation (keys pay T0) ret).
  { pose proof (ss_keys _ _ _ _ _ _ _ _ (shard_pre_spec K st thr lreads sh0 ltac:(lia) Hwf false 0%N)) as H.
    rewrite <- unpruned_pre_shard in H. fold T0 in H. now rewrite filter_inb_sh0 in H. }
  unfold reorder. assert (El : length order = length T0).
  { rewrite (Permutation_length Pm), <- (Permutation_length Hk). unfold keys. now rewrite map_length. }
  rewrite (proj2 (Nat.eqb_eq _ _) El). apply omap_total. intros k Hk'.
  assert (Hin : In k (keys pay T0)).
  { eapply Permutation_in; [symmetry; exact Hk|]. eapply Permutation_in; [exact Pm | exact Hk']. }
  unfold keys in Hin. apply in_map_iff in Hin as [e [<- He]].
  unfold get_entry. intro Hn. destruct (get_id pay T0 (e_key pay e)) as [j|] eqn:Ej.
  - unfold get_id, end_index in Ej. apply CompressBasics.index_where_Some in Ej. destruct Ej as (x & Hx & _).
    rewrite nth_error_map in Hx. destruct (nth_error T0 j); [discriminate Hn | discriminate Hx].
  - unfold get_id, end_index in Ej. pose proof (CompressBasics.index_where_None _ _ Ej (e_key pay e)) as Hx.
    rewrite (proj2 (dna_eqb_eq _ _) eq_refl) in Hx. assert (false = true); [|discriminate]. symmetry. apply Hx. apply in_map. exact He.
Qed.

(* ---- what such a table is, in the vocabulary of the compressor's theorems ---- *)
Variable T : table pay.
Hypothesis HT : unpruned_tbl_spec T.
Lemma HK1 : 1 <= K. Proof. lia. Qed.

Theorem unpruned_keys : Permutation (keys pay T) ret.
Proof. pose proof (ss_keys _ _ _ _ _ _ _ _ HT) as H. now rewrite filter_inb_sh0 in H. Qed.
Theorem unpruned_tbl_ok : tbl_ok pay K st T.
Proof. exact (shard_tbl_ok K st thr lreads sh0 Hwf false 0%N T HT). Qed.
Theorem unpruned_links_ok : links_loose pay st T unpruned_links.
Proof. rewrite unpruned_links_loose. exact (shard_links_loose K st thr lreads sh0 HK1 Hwf false 0%N T HT). Qed.
Theorem unpruned_data ent : In ent T -> e_data pay ent = (kmer_colour K st lreads (e_key pay ent), [rank (e_key pay ent)]).
Proof. exact (ss_data _ _ _ _ _ _ _ _ HT ent). Qed.
(* THE point of "unpruned": bit (d, c) of key k is set iff the (K+1)-mer is observed, whatever its other k-mer *)
Theorem unpruned_exts ent d c : In ent T -> (c < 4)%N ->
  (e_has_ext (e_exts pay ent) (dirb d) c = true <-> raw_ext_spec K st lreads (e_key pay ent) d c).
Proof.
  intros He Hc. rewrite (ss_exts _ _ _ _ _ _ _ _ HT ent d c He Hc). unfold keep_spec. split; [tauto|].
  intro A. split; [exact A | discriminate].
Qed.
End Unpruned.

(* ---- the link specification is the part of the unpruned links with both k-mers retained ---- *)
Section SpecOf.
Variable K : nat.
Variable st : bool.
Variable thr : N.
Variable lreads : list lread.
Hypothesis HK : 1 <= K.
Hypothesis Hwf : Forall (fun r => wf_dna (fst r)) lreads.
Local Notation reads := (map fst lreads).
Local Notation ret := (retained K st thr reads).

Lemma spec_unpruned w : In w (spec_links K st thr reads) -> In w (unpruned_links K st thr lreads).
Proof. rewrite unpruned_links_loose. apply spec_loose. Qed.
Lemma unpruned_wf w : In w (unpruned_links K st thr lreads) -> exists v, wf_dna v /\ length v = S K /\ w = cn st v.
Proof.
  intro Hw. apply in_unpruned_links in Hw as (v & Hv & _ & ->).
  destruct (win_kmers K st lreads HK Hwf v Hv) as (Lv & Wv & _). eauto.
Qed.
End SpecOf.
(* closed form: everything about the unpruned table at once *)
Theorem unpruned_table_facts K st thr (lreads : list lread) order T :
  4 <= K -> Forall (fun r => wf_dna (fst r)) lreads -> NoDup order ->
  table_of K st thr 0 (whole_reads lreads) order = Some T ->
  Permutation (keys pay T) (retained K st thr (map fst lreads)) /\
  tbl_ok pay K st T /\
  links_loose pay st T (unpruned_links K st thr lreads) /\
  (forall ent, In ent T -> e_data pay ent = (kmer_colour K st lreads (e_key pay ent), [rank (e_key pay ent)])) /\
  (forall ent d c, In ent T -> (c < 4)%N ->
     (e_has_ext (e_exts pay ent) (dirb d) c = true <-> raw_ext_spec K st lreads (e_key pay ent) d c)).
Proof.
  intros HK Hwf Hnd H.
  pose proof (table_of_unpruned_spec K st thr lreads HK Hwf order T Hnd H) as HT.
  split; [exact (unpruned_keys K st thr lreads T HT)|].
  split; [exact (unpruned_tbl_ok K st thr lreads Hwf T HT)|].
  split; [exact (unpruned_links_ok K st thr lreads HK Hwf T HT)|].
  split; [exact (unpruned_data K st thr lreads T HT)|].
  exact (unpruned_exts K st thr lreads T HT).
Qed.
Print Assumptions table_of_unpruned_spec.
Print Assumptions table_of_unpruned_total.
Print Assumptions unpruned_links_ok.
Print Assumptions unpruned_table_facts.
