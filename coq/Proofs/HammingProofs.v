(* C15 (distance) and C14 (ndiffs): the block-wise distance computations equal the number of differing positions.
   DnaStringSlice::hamming_dist = 32-base blocks through Kmer32::hamming_dist (the C13 slice get_kmer theorem + the C10
   hamming theorem) followed by a base-by-base tail; ndiffs = the same packed count over all storage words (the
   padding lanes of both operands are zero by the representation invariant). *)
From Coq Require Import NArith List Bool Arith Lia.
From DBG Require Import Spec.Dna Packed.KmerModel Packed.Blocks Packed.DnaStringModel Packed.SliceModel Algo.Iter
  Proofs.ListFacts Proofs.KmerLanes Proofs.KmerOps Proofs.BlockProofs Proofs.DnaStringProofs Proofs.SliceProofs Proofs.IterProofs.
Import ListNotations.
Open Scope N_scope.

Lemma count_diff_app a1 : forall b1 a2 b2, length a1 = length b1 ->
  count_diff (a1 ++ a2) (b1 ++ b2) = count_diff a1 b1 + count_diff a2 b2.
Proof.
  induction a1 as [|x a1 IH]; destruct b1 as [|y b1]; intros a2 b2 Hl; try discriminate; [reflexivity|].
  cbn [app count_diff]. rewrite IH by (injection Hl; auto). lia.
Qed.

Lemma count_diff_split m a b : length a = length b ->
  count_diff a b = count_diff (firstn m a) (firstn m b) + count_diff (skipn m a) (skipn m b).
Proof.
  intro Hl. rewrite <- (firstn_skipn m a) at 1. rewrite <- (firstn_skipn m b) at 1.
  apply count_diff_app. rewrite !firstn_length. lia.
Qed.

Lemma firstn_add_sub {A} m n (l : list A) : firstn (m + n) l = firstn m l ++ sub m n l.
Proof.
  unfold sub. revert l. induction m as [|m IH]; intro l; [reflexivity|].
  destruct l as [|x l]; [destruct n; reflexivity|].
  cbn [plus firstn skipn app]. now rewrite IH.
Qed.

Lemma c64_shipped : In c64 shipped.
Proof. unfold c64, shipped. cbn. tauto. Qed.

Lemma count_diff_packed_spec u1 u2 : u1 < two64 -> u2 < two64 ->
  count_diff_packed u1 u2 = Some (count_diff (decode 32 u1) (decode 32 u2)).
Proof.
  intros H1 H2. unfold count_diff_packed.
  apply (hamming_spec c64 u1 u2 c64_shipped); unfold wf; exact H1 || exact H2.
Qed.

Lemma kmer_at_sub K (l : dna) pos : kmer_at K l pos = sub pos K l.
Proof. reflexivity. Qed.

Section Slices.
Variables (d1 d2 : dstr) (s1 s2 : slc).
Hypothesis I1 : d_inv d1.
Hypothesis I2 : d_inv d2.
Hypothesis O1 : sl_ok (d_len d1) s1.
Hypothesis O2 : sl_ok (d_len d2) s2.
Hypothesis Hlen : s_length s1 = s_length s2.
Let v1 := sl_view (d_abs d1) s1.
Let v2 := sl_view (d_abs d2) s2.

Lemma v1_len : length v1 = s_length s1.
Proof. subst v1. apply sl_view_length; [exact I1 | exact O1]. Qed.
Lemma v2_len : length v2 = s_length s1.
Proof. subst v2. rewrite Hlen. apply sl_view_length; [exact I2 | exact O2]. Qed.

Lemma hd_blocks_spec blocks : (forall b, In b blocks -> (b * 32 + 32 <= s_length s1)%nat) ->
  hd_blocks d1 s1 d2 s2 blocks =
  Some (fold_right (fun b acc => count_diff (sub (b * 32) 32 v1) (sub (b * 32) 32 v2) + acc) 0 blocks).
Proof.
  induction blocks as [|b r IH]; intro Hb; [reflexivity|].
  cbn [hd_blocks fold_right].
  assert (Hb0 : (b * 32 + 32 <= s_length s1)%nat) by (apply Hb; left; reflexivity).
  destruct (sl_get_kmer_spec c64 c64_shipped d1 s1 (b * 32) I1 O1) as [r1 [E1 [W1 D1]]]; [exact Hb0|].
  destruct (sl_get_kmer_spec c64 c64_shipped d2 s2 (b * 32) I2 O2) as [r2 [E2 [W2 D2]]]; [rewrite <- Hlen; exact Hb0|].
  rewrite E1, E2. cbn [obind].
  assert (L1 : r1 < two64) by exact W1. assert (L2 : r2 < two64) by exact W2.
  unfold to_u64. fold two64.
  destruct (N.ltb_spec r1 two64) as [_|Hc]; [|lia]. destruct (N.ltb_spec r2 two64) as [_|Hc]; [|lia].
  cbn [obind]. rewrite count_diff_packed_spec by assumption. cbn [obind].
  rewrite IH by (intros b' Hin; apply Hb; right; exact Hin). cbn [obind].
  change (kK c64) with 32%nat in D1, D2. rewrite D1, D2. reflexivity.
Qed.

Lemma hd_tail_spec poss : (forall p, In p poss -> (p < s_length s1)%nat) ->
  hd_tail d1 s1 d2 s2 poss =
  Some (fold_right (fun p acc => (if nth p v1 0 =? nth p v2 0 then 0 else 1) + acc) 0 poss).
Proof.
  induction poss as [|p r IH]; intro Hp; [reflexivity|].
  cbn [hd_tail fold_right].
  assert (Hp0 : (p < s_length s1)%nat) by (apply Hp; left; reflexivity).
  rewrite (SliceProofs.sl_get_spec d1 I1 s1 p O1 Hp0).
  rewrite (SliceProofs.sl_get_spec d2 I2 s2 p O2) by (rewrite <- Hlen; exact Hp0).
  cbn [obind]. rewrite IH by (intros q Hq; apply Hp; right; exact Hq). reflexivity.
Qed.

(* sum over consecutive positions = count_diff of the corresponding segments *)
Lemma tail_sum (a b : dna) : length a = length b -> forall st n, (st + n <= length a)%nat ->
  fold_right (fun p acc => (if nth p a 0 =? nth p b 0 then 0 else 1) + acc) 0 (seq st n) =
  count_diff (sub st n a) (sub st n b).
Proof.
  intros Hl st n. revert st. induction n as [|n IH]; intros st Hb.
  - unfold sub. cbn [seq fold_right firstn]. reflexivity.
  - cbn [seq fold_right]. rewrite IH by lia.
    unfold sub.
    assert (Ha : skipn st a = nth st a 0 :: skipn (S st) a) by (apply skipn_S_nth; lia).
    assert (Hb' : skipn st b = nth st b 0 :: skipn (S st) b) by (apply skipn_S_nth; lia).
    rewrite Ha, Hb'. cbn [firstn count_diff]. reflexivity.
Qed.

Lemma blocks_sum (a b : dna) : length a = length b -> forall w, (w * 32 <= length a)%nat ->
  fold_right (fun k acc => count_diff (sub (k * 32) 32 a) (sub (k * 32) 32 b) + acc) 0 (seq 0 w) =
  count_diff (firstn (w * 32) a) (firstn (w * 32) b).
Proof.
  intros Hl w. induction w as [|w IH]; intro Hb; [reflexivity|].
  rewrite seq_S, fold_right_app. cbn [plus fold_right].
  assert (Hgen : forall l x, fold_right (fun k acc => count_diff (sub (k * 32) 32 a) (sub (k * 32) 32 b) + acc) x l =
                 fold_right (fun k acc => count_diff (sub (k * 32) 32 a) (sub (k * 32) 32 b) + acc) 0 l + x).
  { induction l as [|k l IHl]; intro x; cbn [fold_right]; [lia|]. rewrite IHl. lia. }
  rewrite Hgen, IH by lia.
  replace (S w * 32)%nat with (w * 32 + 32)%nat by lia.
  rewrite (firstn_add_sub (w * 32) 32 a), (firstn_add_sub (w * 32) 32 b).
  rewrite count_diff_app by (rewrite !firstn_length; lia). lia.
Qed.

Theorem sl_hamming_spec : sl_hamming_dist d1 s1 d2 s2 = Some (count_diff v1 v2).
Proof.
  unfold sl_hamming_dist. rewrite Hlen, Nat.eqb_refl. cbn [negb]. rewrite <- Hlen.
  set (n := s_length s1). set (w := (n / 32)%nat).
  assert (Hw : (w * 32 <= n)%nat) by (unfold w; pose proof (Nat.div_mod n 32 ltac:(lia)); lia).
  rewrite hd_blocks_spec by (intros b Hin; apply in_seq in Hin; fold n; nia).
  cbn [obind]. rewrite hd_tail_spec by (intros p Hin; apply in_seq in Hin; fold n; lia).
  cbn [obind]. f_equal.
  pose proof v1_len as L1. pose proof v2_len as L2. fold n in L1, L2.
  rewrite (blocks_sum v1 v2) by lia.
  rewrite (tail_sum v1 v2) by lia.
  rewrite (count_diff_split (w * 32) v1 v2) by lia. f_equal.
  unfold sub. rewrite !firstn_all2 by (rewrite skipn_length; lia). reflexivity.
Qed.
End Slices.

(* ---- ndiffs of two DnaStrings of equal length *)
Lemma d_ndiffs_blocks_spec a : forall b, length a = length b ->
  Forall (fun w => w < two64) a -> Forall (fun w => w < two64) b ->
  d_ndiffs_blocks a b = Some (count_diff (lanes_of a) (lanes_of b)).
Proof.
  induction a as [|x a IH]; destruct b as [|y b]; intros Hl Fa Fb; try discriminate; [reflexivity|].
  cbn [d_ndiffs_blocks]. inversion Fa as [|? ? Hx Fa']; inversion Fb as [|? ? Hy Fb']; subst.
  rewrite count_diff_packed_spec by assumption. cbn [obind].
  rewrite IH by (try (injection Hl; auto); assumption). cbn [obind].
  rewrite !lanes_of_cons, count_diff_app by (rewrite !decode_length; reflexivity). reflexivity.
Qed.

Lemma count_diff_same l : count_diff l l = 0.
Proof. induction l as [|x l IH]; [reflexivity|]. cbn [count_diff]. rewrite N.eqb_refl, IH. reflexivity. Qed.

Theorem d_ndiffs_spec a b : d_inv a -> d_inv b -> d_len a = d_len b ->
  d_ndiffs a b = Some (count_diff (d_abs a) (d_abs b)).
Proof.
  intros [La [Fa Pa]] [Lb [Fb Pb]] Hl. unfold d_ndiffs. rewrite Hl, Nat.eqb_refl.
  assert (Hlen : length (d_sto a) = length (d_sto b)) by (rewrite La, Lb, Hl; reflexivity).
  rewrite d_ndiffs_blocks_spec by assumption. f_equal.
  assert (LL : length (lanes_of (d_sto a)) = length (lanes_of (d_sto b))) by (rewrite !lanes_of_length; lia).
  rewrite (count_diff_split (d_len a) _ _ LL).
  rewrite Pa. unfold d_abs. rewrite Hl. rewrite Pb, Hlen, count_diff_same. lia.
Qed.
