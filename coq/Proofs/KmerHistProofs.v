(* C11: histories preserve well-formedness and refine the list operations; equality/order/hash corollaries. *)
From Coq Require Import NArith List Bool Arith Lia.
From DBG Require Import Spec.Dna Packed.KmerModel Algo.KmerHist Proofs.ListFacts Proofs.KmerLanes Proofs.KmerOps Proofs.KmerDefaults.
Import ListNotations.
Open Scope N_scope.

Lemma decode_digits4 K s : decode K s = digits4 K s.
Proof. unfold decode, digits4. apply map_ext. intro p. apply lane_div. Qed.

Lemma b2b_ascii_base ch : ch < 256 -> b2b ch = ascii_base ch.
Proof.
  intro H. assert (E : forallb (fun n => b2b (N.of_nat n) =? ascii_base (N.of_nat n)) (seq 0 256) = true) by (vm_compute; reflexivity).
  rewrite forallb_forall in E. specialize (E (N.to_nat ch)). rewrite N2Nat.id in E. apply N.eqb_eq. apply E.
  apply in_seq. lia.
Qed.

Lemma map_const_repeat {A B} (x : B) (l : list A) : map (fun _ => x) l = repeat x (length l).
Proof. induction l as [|y l IH]; cbn; [reflexivity | now rewrite IH]. Qed.
Lemma decode_0 K : decode K 0 = repeat 0 K.
Proof.
  unfold decode. rewrite <- (seq_length K 0) at 2. rewrite <- map_const_repeat. apply map_ext. intro p.
  unfold lane. now rewrite !N.bits_0.
Qed.

Lemma wf_dnab_ok l : wf_dnab l = true -> wf_dna l.
Proof. unfold wf_dnab, wf_dna. rewrite forallb_forall, Forall_forall. intros H b Hb. apply N.ltb_lt. auto. Qed.

Section Hist.
Variable c : kcfg.
Hypothesis Hc : In c shipped.
Let K := kK c.

Lemma kinit_refines i : kinit_ok K i = true ->
  exists s, kinit_run c i = Some s /\ wf K s /\ decode K s = sinit K i.
Proof.
  intros Hok. destruct i as [|v|l|l]; cbn [kinit_ok kinit_run sinit] in *.
  - exists kempty. split; [reflexivity|]. split; [apply wf_0 | apply decode_0].
  - apply andb_prop in Hok as [H1 H2]. apply N.ltb_lt in H1, H2.
    destruct (from_u64_spec c v Hc H1 H2) as [E [W _]]. exists v. split; [exact E|]. split; [exact W|].
    apply decode_digits4.
  - apply andb_prop in Hok as [H1 H2]. apply Nat.leb_le in H1. apply wf_dnab_ok in H2.
    apply (from_bytes_spec c Hc l H1 H2).
  - apply andb_prop in Hok as [H1 H2]. apply Nat.leb_le in H1.
    destruct (from_ascii_spec c Hc l H1) as [r [E [W D]]]. exists r. split; [exact E|]. split; [exact W|].
    fold K in D. rewrite D. apply map_ext_in. intros b Hb. apply b2b_ascii_base.
    rewrite forallb_forall in H2. apply N.ltb_lt. apply H2. eapply in_firstn; eauto.
Qed.

Lemma kstep_refines s o : wf K s -> kop_ok K o = true ->
  exists s', kstep c s o = Some s' /\ wf K s' /\ decode K s' = sstep (decode K s) o.
Proof.
  intros Hs Hok. destruct o as [b|b| |pos b|pos n v| ]; cbn [kop_ok kstep sstep] in *.
  - apply N.ltb_lt in Hok. apply (extend_left_spec c s b Hc Hs Hok).
  - apply N.ltb_lt in Hok. apply (extend_right_spec c s b Hc Hs Hok).
  - apply (rc_spec c s Hc Hs).
  - apply andb_prop in Hok as [H1 H2]. apply Nat.ltb_lt in H1. apply N.ltb_lt in H2.
    apply (set_mut_spec c s pos b Hc Hs H1 H2).
  - apply andb_prop in Hok as [Hok H4]. apply andb_prop in Hok as [Hok H3]. apply andb_prop in Hok as [H1 H2].
    apply Nat.leb_le in H1, H2, H3. apply N.ltb_lt in H4.
    destruct (set_slice_mut_spec c s pos n v Hc Hs H1 H2 H3 H4) as [r [E [W D]]].
    exists r. split; [exact E|]. split; [exact W|]. fold K in D. rewrite D. unfold payload_bases. now rewrite decode_digits4.
  - apply (min_rc_spec c Hc s Hs).
Qed.

Lemma ksteps_refines ops : forall s, wf K s -> forallb (kop_ok K) ops = true ->
  exists s', ksteps c s ops = Some s' /\ wf K s' /\ decode K s' = fold_left sstep ops (decode K s).
Proof.
  induction ops as [|o ops IH]; intros s Hs Hok.
  - exists s. auto.
  - cbn [forallb] in Hok. apply andb_prop in Hok as [Ho Hr].
    destruct (kstep_refines s o Hs Ho) as [s1 [E1 [W1 D1]]].
    destruct (IH s1 W1 Hr) as [s2 [E2 [W2 D2]]].
    exists s2. cbn [ksteps fold_left]. rewrite E1. split; [exact E2|]. split; [exact W2|]. now rewrite D2, D1.
Qed.

(* every in-range history succeeds, yields a well-formed word, and that word spells the list result *)
Theorem khist_refines i ops : kinit_ok K i = true -> forallb (kop_ok K) ops = true ->
  exists s, khist c i ops = Some s /\ wf K s /\ decode K s = shist K i ops.
Proof.
  intros Hi Hops. destruct (kinit_refines i Hi) as [s0 [E0 [W0 D0]]].
  destruct (ksteps_refines ops s0 W0 Hops) as [s [E [W D]]].
  exists s. unfold khist, shist. rewrite E0. split; [exact E|]. split; [exact W|]. now rewrite D, D0.
Qed.

(* equality, order and hash input of two histories are those of the strings they spell *)
Theorem khist_eq_iff i1 ops1 i2 ops2 s1 s2 :
  kinit_ok K i1 = true -> forallb (kop_ok K) ops1 = true ->
  kinit_ok K i2 = true -> forallb (kop_ok K) ops2 = true ->
  khist c i1 ops1 = Some s1 -> khist c i2 ops2 = Some s2 ->
  (k_eq s1 s2 = true <-> shist K i1 ops1 = shist K i2 ops2) /\
  k_cmp s1 s2 = dna_compare (shist K i1 ops1) (shist K i2 ops2) /\
  (hash_feed c s1 = hash_feed c s2 <-> shist K i1 ops1 = shist K i2 ops2).
Proof.
  intros Hi1 Ho1 Hi2 Ho2 E1 E2.
  destruct (khist_refines i1 ops1 Hi1 Ho1) as [t1 [F1 [W1 D1]]].
  destruct (khist_refines i2 ops2 Hi2 Ho2) as [t2 [F2 [W2 D2]]].
  rewrite E1 in F1. rewrite E2 in F2. injection F1 as <-. injection F2 as <-.
  rewrite <- D1, <- D2. split; [|split].
  - unfold k_eq. rewrite N.eqb_eq. split; [now intros -> | apply decode_inj; assumption].
  - unfold k_cmp. now apply compare_lex.
  - split; [|intro H; apply (decode_inj K) in H; [now subst | assumption | assumption]].
    intro H. f_equal.
    (* le_bytes is injective below 2^W *)
    assert (Hinj : forall n x y, x < 256 ^ N.of_nat n -> y < 256 ^ N.of_nat n -> le_bytes n x = le_bytes n y -> x = y).
    { induction n as [|n IH]; intros x y Hx Hy Hb.
      - cbn in Hx, Hy. lia.
      - cbn [le_bytes] in Hb. injection Hb as Hm Hd.
        rewrite Nat2N.inj_succ, N.pow_succ_r' in Hx, Hy.
        assert (x / 256 = y / 256).
        { apply IH; [apply N.div_lt_upper_bound; lia | apply N.div_lt_upper_bound; lia | exact Hd]. }
        rewrite (N.div_mod x 256), (N.div_mod y 256) by lia. now rewrite H0, Hm. }
    destruct (shipped_2K c Hc) as [H2K _].
    assert (HW : exists m, kW c = (8 * m)%nat /\ (kW c / 8 = m)%nat).
    { assert (E : forallb (fun c => Nat.eqb (kW c) (8 * (kW c / 8))) shipped = true) by (vm_compute; reflexivity).
      rewrite forallb_forall in E. specialize (E c Hc). apply Nat.eqb_eq in E. exists (kW c / 8)%nat. auto. }
    destruct HW as [m [HWm Hdiv]]. unfold hash_feed in H. rewrite Hdiv in H.
    assert (Hb : forall s, wf K s -> s < 256 ^ N.of_nat m).
    { intros s Hs. unfold wf in Hs. eapply N.lt_le_trans; [exact Hs|].
      change 256 with (2 ^ 8). rewrite <- N.pow_mul_r. apply N.pow_le_mono_r; [lia|]. fold K in H2K. lia. }
    apply (Hinj m); auto.
Qed.
End Hist.

(* ---------------------------------------------------------------- sort / dedup / search corollaries *)
Lemma insert_by_in {A} (leb : A -> A -> bool) x l y : In y (insert_by leb x l) -> y = x \/ In y l.
Proof.
  induction l as [|z l IH]; cbn; [intuition|]. destruct (leb x z); cbn; [intuition|].
  intros [H|H]; [auto|]. destruct (IH H); auto.
Qed.
Lemma sort_by_in {A} (leb : A -> A -> bool) l y : In y (sort_by leb l) -> In y l.
Proof.
  induction l as [|x l IH]; cbn; [auto|]. intro H. apply insert_by_in in H as [->|H]; auto.
Qed.
Lemma insert_by_map {A B} (f : A -> B) leb leb' x l :
  (forall y, In y l -> leb' (f x) (f y) = leb x y) -> map f (insert_by leb x l) = insert_by leb' (f x) (map f l).
Proof.
  induction l as [|z l IH]; intro H; [reflexivity|]. cbn [insert_by map]. rewrite H by (now left).
  destruct (leb x z); [reflexivity|]. cbn [map]. f_equal. apply IH. intros y Hy. apply H. now right.
Qed.
Lemma sort_by_map {A B} (f : A -> B) leb leb' l :
  (forall x y, In x l -> In y l -> leb' (f x) (f y) = leb x y) -> map f (sort_by leb l) = sort_by leb' (map f l).
Proof.
  induction l as [|x l IH]; intro H; [reflexivity|]. cbn [sort_by fold_right map].
  fold (sort_by leb l). fold (sort_by leb' (map f l)). rewrite <- IH by (intros; apply H; now right).
  apply insert_by_map. intros y Hy. apply H; [now left | right; eapply sort_by_in; eauto].
Qed.
Lemma dedup_by_map {A B} (f : A -> B) eqb eqb' l :
  (forall x y, In x l -> In y l -> eqb' (f x) (f y) = eqb x y) -> map f (dedup_by eqb l) = dedup_by eqb' (map f l).
Proof.
  assert (Hin : forall l y, In y (dedup_by eqb l) -> In y l).
  { induction l0 as [|x l0 IH]; intros y; cbn [dedup_by]; [auto|]. destruct (dedup_by eqb l0) as [|z t] eqn:E.
    - cbn. intuition.
    - destruct (eqb x z); intro Hy.
      + right. apply IH. exact Hy.
      + destruct Hy as [->|Hy]; [now left | right; apply IH; exact Hy]. }
  induction l as [|x l IH]; intro H; [reflexivity|]. cbn [dedup_by map].
  rewrite <- IH by (intros; apply H; now right).
  destruct (dedup_by eqb l) as [|z t] eqn:E; [reflexivity|]. cbn [map].
  rewrite H; [| now left | right; apply Hin; rewrite E; now left].
  destruct (eqb x z); reflexivity.
Qed.

Lemma leb_lex K s r : wf K s -> wf K r -> (s <=? r) = dna_leb (decode K s) (decode K r).
Proof. intros Hs Hr. unfold N.leb, dna_leb. now rewrite (compare_lex K s r Hs Hr). Qed.
Lemma eqb_lex' K s r : wf K s -> wf K r -> (s =? r) = dna_eqb (decode K s) (decode K r).
Proof.
  intros Hs Hr. unfold dna_eqb. rewrite <- (compare_lex K s r Hs Hr).
  destruct (N.compare_spec s r) as [->|H|H]; [apply N.eqb_refl | apply N.eqb_neq; lia | apply N.eqb_neq; lia].
Qed.

Theorem sort_refines K l : Forall (wf K) l ->
  map (decode K) (sort_by N.leb l) = sort_by dna_leb (map (decode K) l).
Proof.
  intro H. rewrite Forall_forall in H. apply sort_by_map. intros x y Hx Hy. symmetry. apply leb_lex; auto.
Qed.
Theorem dedup_refines K l : Forall (wf K) l ->
  map (decode K) (dedup_by N.eqb l) = dedup_by dna_eqb (map (decode K) l).
Proof.
  intro H. rewrite Forall_forall in H. apply dedup_by_map. intros x y Hx Hy. symmetry. apply eqb_lex'; auto.
Qed.
(* membership (what binary search on a sorted vector and a key-verified hash lookup decide) *)
Theorem mem_refines K l x : Forall (wf K) l -> wf K x ->
  existsb (N.eqb x) l = existsb (dna_eqb (decode K x)) (map (decode K) l).
Proof.
  intros H Hx. induction l as [|y l IH]; [reflexivity|]. inversion H; subst. cbn [existsb map].
  rewrite IH by assumption. now rewrite (eqb_lex' K x y).
Qed.
