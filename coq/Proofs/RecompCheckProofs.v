(* C09: soundness of the boolean checkers of Check/RecompCheck.v w.r.t. the Props stated next to them. *)
From Coq Require Import NArith List Bool Arith Lia Permutation.
From DBG Require Import Spec.Dna Spec.GraphIndex Packed.ExtsModel Algo.Compress Algo.KmerHist Algo.GraphModel
  Algo.Recompress Check.RecompCheck Proofs.ListFacts Proofs.DnaFacts.
Import ListNotations.
Open Scope N_scope.

(* ---- generic list facts ---- *)
Lemma list_eqb_sound {A} (eqb : A -> A -> bool) (H : forall x y, eqb x y = true -> x = y) :
  forall a b, list_eqb eqb a b = true -> a = b.
Proof.
  induction a as [|x a IH]; destruct b as [|y b]; cbn; intro E; try discriminate; auto.
  apply andb_true_iff in E. destruct E as [E1 E2]. f_equal; auto.
Qed.
Lemma insert_by_perm {A} (leb : A -> A -> bool) x l : Permutation (insert_by leb x l) (x :: l).
Proof.
  induction l as [|y r IH]; cbn; auto. destruct (leb x y); auto.
  rewrite IH. apply perm_swap.
Qed.
Lemma sort_by_perm {A} (leb : A -> A -> bool) l : Permutation (sort_by leb l) l.
Proof.
  induction l as [|x l IH]; cbn; auto. fold (sort_by leb l). rewrite insert_by_perm. auto.
Qed.
Lemma sorted_eq_perm {A} (leb : A -> A -> bool) a b : sort_by leb a = sort_by leb b -> Permutation a b.
Proof. intro E. rewrite <- (sort_by_perm leb a), E. apply sort_by_perm. Qed.

Lemma existsb_dna_In x l : existsb (dna_eqb x) l = true <-> In x l.
Proof.
  rewrite existsb_exists. split.
  - intros (y & Hy & E). apply dna_eqb_eq in E. now subst.
  - intro H. exists x. split; auto. now apply dna_eqb_eq.
Qed.
Lemma nodupb_sound l : nodupb l = true -> NoDup l.
Proof.
  induction l as [|x l IH]; cbn; intro H; [constructor|].
  apply andb_true_iff in H. destruct H as [H1 H2]. constructor; auto.
  intro Hin. apply existsb_dna_In in Hin. rewrite Hin in H1. discriminate.
Qed.
Lemma existsb_nat_In x l : existsb (Nat.eqb x) l = true <-> In x l.
Proof.
  rewrite existsb_exists. split.
  - intros (y & Hy & E). apply Nat.eqb_eq in E. now subst.
  - intro H. exists x. split; auto. apply Nat.eqb_refl.
Qed.
Lemma nodupb_nat_sound l : nodupb_nat l = true -> NoDup l.
Proof.
  induction l as [|x l IH]; cbn; intro H; [constructor|].
  apply andb_true_iff in H. destruct H as [H1 H2]. constructor; auto.
  intro Hin. apply existsb_nat_In in Hin. rewrite Hin in H1. discriminate.
Qed.
Lemma mem_nat_In x l : mem_nat x l = true <-> In x l.
Proof. apply existsb_nat_In. Qed.
Lemma dir_eqb_eq a b : dir_eqb a b = true <-> a = b.
Proof. destruct a, b; cbn; split; intro; try discriminate; auto. Qed.
Lemma In_dirs2 d : In d dirs2.
Proof. destruct d; cbn; auto. Qed.

Section Sound.
Variable D : Type.
Variable join : D -> D -> bool.
Variable K : nat.
Variable stranded : bool.
Local Notation graph := (graph D).

Theorem chk_kmers_sound (g : graph) censor out :
  chk_kmers D K stranded g censor out = true -> kmers_exact D K stranded g censor out.
Proof.
  unfold chk_kmers, kmers_exact. intro H. apply andb_true_iff in H. destruct H as [H1 H2]. split.
  - eapply sorted_eq_perm. eapply list_eqb_sound; [|exact H1]. intros x y E. now apply dna_eqb_eq.
  - now apply nodupb_sound.
Qed.

Theorem chk_no_dangling_sound (out : graph) :
  chk_no_dangling D K stranded out = true -> no_dangling D K stranded out.
Proof.
  unfold chk_no_dangling, no_dangling. intros H i n d b Hn Hb He.
  rewrite forallb_forall in H. specialize (H n (nth_error_In _ _ Hn)).
  rewrite forallb_forall in H. specialize (H d (In_dirs2 d)).
  rewrite forallb_forall in H. specialize (H b Hb).
  rewrite He in H. cbn in H. destruct (find_link D K stranded out _ d); [discriminate | discriminate].
Qed.

Theorem chk_out_maximal_sound (out : graph) :
  chk_out_maximal D join K stranded out = true -> out_maximal D join K stranded out.
Proof.
  unfold chk_out_maximal, out_maximal. intros H i d j t Hr.
  assert (Hi : (i < length out)%nat).
  { unfold rnext in Hr. destruct (nth_error out i) eqn:E; [|discriminate]. apply nth_error_Some. congruence. }
  rewrite forallb_forall in H. specialize (H i). rewrite in_seq in H. specialize (H ltac:(lia)).
  rewrite forallb_forall in H. specialize (H d (In_dirs2 d)). rewrite Hr in H. now apply Nat.eqb_eq in H.
Qed.

Lemma node_path_sound (g : graph) s p :
  node_path D K stranded g s = Some p -> sequence_of_path D K g p = Some s.
Proof.
  unfold node_path. destruct (tile D K stranded _ g s) as [p0|]; [|discriminate].
  destruct (sequence_of_path D K g p0) as [s'|] eqn:E; [|discriminate].
  destruct (dna_eqb s' s) eqn:E2; [|discriminate]. intro H. injection H as <-.
  apply dna_eqb_eq in E2. now subst.
Qed.

Lemma linkedb_sound (g : graph) p : linkedb D join K stranded g p = true -> Linked D join K stranded g p.
Proof. unfold linkedb, Linked. rewrite forallb_forall, Forall_forall. auto. Qed.

Theorem chk_merged_sound (g1 : graph) S n :
  chk_merged D join K stranded g1 S n = true -> merged_ok D join K stranded g1 S n.
Proof.
  unfold chk_merged, merged_ok. destruct (node_path D K stranded g1 (n_seq D n)) as [p|] eqn:E; [|discriminate].
  intro H. apply andb_true_iff in H. destruct H as [H H3]. apply andb_true_iff in H. destruct H as [H1 H2].
  exists p. split; [now apply node_path_sound|]. split; [now apply linkedb_sound|].
  split; [now apply nodupb_nat_sound|]. intros x Hx. rewrite forallb_forall in H3. apply mem_nat_In. auto.
Qed.

Theorem chk_maximal_sound (g : graph) censor out :
  chk_maximal D join K stranded g censor out = true -> maximal_ok D join K stranded g censor out.
Proof.
  unfold chk_maximal, maximal_ok. intro H. apply andb_true_iff in H. destruct H as [H1 H2].
  split; [now apply chk_out_maximal_sound|].
  destruct (restrict D K stranded g (survivors D g censor)) as [g1|]; [|discriminate].
  exists g1. split; auto. rewrite forallb_forall in H2. apply Forall_forall. intros n Hn.
  apply chk_merged_sound; auto.
Qed.
Theorem chk_exts_sound (g : graph) censor out :
  chk_exts D K stranded g censor out = true -> exts_exact D K stranded g censor out.
Proof.
  unfold chk_exts, exts_exact. destruct (restrict D K stranded g (survivors D g censor)) as [g1|]; [|discriminate].
  intro H. exists g1. split; auto. rewrite forallb_forall in H. apply Forall_forall. intros n Hn.
  specialize (H n Hn). unfold chk_exts_node in H. unfold exts_ok.
  destruct (node_path D K stranded g1 (n_seq D n)) as [p|] eqn:E; [|discriminate].
  exists p. split; [now apply node_path_sound|].
  destruct (path_exts D g1 p) as [e|]; [|discriminate]. apply N.eqb_eq in H. now subst.
Qed.
Lemma wf_dnab_sound l : wf_dnab l = true -> wf_dna l.
Proof.
  unfold wf_dnab, wf_dna. rewrite forallb_forall, Forall_forall. intros H x Hx. apply N.ltb_lt. auto.
Qed.

Theorem rvalidb_sound (g : graph) : rvalidb D K stranded g = true -> rvalid D K stranded g.
Proof.
  unfold rvalidb, rvalid. intro H.
  apply andb_true_iff in H. destruct H as [H H6]. apply andb_true_iff in H. destruct H as [H H5].
  apply andb_true_iff in H. destruct H as [H H4]. apply andb_true_iff in H. destruct H as [H H3].
  apply andb_true_iff in H. destruct H as [H1 H2].
  split; [|split; [now apply nodupb_sound | split; [now apply nodupb_sound | split; [|split]]]].
  - apply Forall_forall. intros n Hn. rewrite forallb_forall in H1. specialize (H1 n Hn).
    unfold node_okb in H1. apply andb_true_iff in H1. destruct H1 as [H1 Hd].
    apply andb_true_iff in H1. destruct H1 as [H1 Hc]. apply andb_true_iff in H1. destruct H1 as [Ha Hb].
    unfold node_ok. split; [now apply wf_dnab_sound|]. split; [|now apply N.ltb_lt].
    apply Nat.leb_le in Hb, Hc. lia.
  - intros Es n d Hn Hp. unfold pal_endsb in H4. rewrite Es in H4. cbn [orb] in H4.
    rewrite forallb_forall in H4. specialize (H4 n Hn). rewrite forallb_forall in H4.
    specialize (H4 d (In_dirs2 d)). rewrite Hp in H4. cbn in H4. now apply Nat.eqb_eq.
  - intros x d b n Hn Hb Hh. unfold resolvableb in H5. rewrite forallb_forall in H5.
    assert (Hx : (x < length g)%nat) by (apply nth_error_Some; congruence).
    specialize (H5 x). rewrite in_seq in H5. specialize (H5 ltac:(lia)).
    rewrite forallb_forall in H5. specialize (H5 d (In_dirs2 d)).
    rewrite forallb_forall in H5. specialize (H5 b Hb). rewrite Hn, Hh in H5. cbn in H5.
    destruct (ext_link D K stranded g x d b); [discriminate | discriminate].
  - intros x d b y t f n m Hn Hm Hb He. unfold links_symb in H6. rewrite forallb_forall in H6.
    assert (Hx : (x < length g)%nat) by (apply nth_error_Some; congruence).
    specialize (H6 x). rewrite in_seq in H6. specialize (H6 ltac:(lia)).
    rewrite forallb_forall in H6. specialize (H6 d (In_dirs2 d)).
    rewrite forallb_forall in H6. specialize (H6 b Hb). rewrite He, Hn, Hm in H6.
    unfold back_link in H6. apply existsb_exists in H6. destruct H6 as (t' & _ & H6).
    apply existsb_exists in H6. destruct H6 as (b' & Hb' & H6).
    destruct (ext_link D K stranded g y t' b') as [[[x' d'] f']|] eqn:E; [|discriminate].
    apply andb_true_iff in H6. destruct H6 as [H6 Hd]. apply andb_true_iff in H6. destruct H6 as [Hx' Ht].
    apply Nat.eqb_eq in Hx'. subst x'. exists t', b', d', f'. split; auto. split; auto. split.
    + intro Hp. rewrite Hp in Ht. cbn in Ht. now apply dir_eqb_eq.
    + intro Hp. rewrite Hp in Hd. cbn in Hd. now apply dir_eqb_eq.
Qed.
End Sound.

Section SoundPay.
Variable K : nat.
Variable stranded : bool.

Lemma N_list_eqb_sound a b : list_eqb N.eqb a b = true -> a = b.
Proof. apply list_eqb_sound. intros x y. apply N.eqb_eq. Qed.

Theorem chk_payload_sound (g out : graph rpay) :
  chk_payload K stranded g out = true -> Forall (payload_ok K g) out.
Proof.
  unfold chk_payload. rewrite forallb_forall, Forall_forall. intros H n Hn. specialize (H n Hn).
  unfold chk_payload_node in H. unfold payload_ok.
  destruct (node_path rpay K stranded g (n_seq rpay n)) as [p|] eqn:E; [|discriminate].
  apply andb_true_iff in H. destruct H as [H1 H2]. exists p. split; [eapply node_path_sound; eauto|]. split.
  - eapply sorted_eq_perm. apply N_list_eqb_sound. exact H1.
  - apply existsb_exists in H2. destruct H2 as (c & Hc & E2). apply N.eqb_eq in E2. now subst.
Qed.

Lemma pair_eqb_sound a b : pair_eqb a b = true -> a = b.
Proof.
  unfold pair_eqb. intro H. apply andb_true_iff in H. destruct H as [H1 H2].
  apply dna_eqb_eq in H1, H2. destruct a, b; cbn in *; congruence.
Qed.

Theorem chk_same_nodes_sound (a b : graph rpay) :
  chk_same_nodes K stranded a b = true -> same_nodes K stranded a b.
Proof.
  unfold chk_same_nodes, same_nodes. intro H. eapply sorted_eq_perm. eapply list_eqb_sound; [|exact H].
  apply pair_eqb_sound.
Qed.

Theorem chk_same_partition_sound (a b : graph rpay) :
  chk_same_partition K stranded a b = true -> same_partition K stranded a b.
Proof.
  unfold chk_same_partition, same_partition. intro H. eapply sorted_eq_perm. eapply list_eqb_sound; [|exact H].
  apply list_eqb_sound. intros x y E. now apply dna_eqb_eq.
Qed.
End SoundPay.
