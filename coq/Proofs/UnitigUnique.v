(* C04 / C06: "the partition into nodes is a function of (k-mer set, link set, payloads)".
   Two graphs over the same k-mers with the same links, each of which is a unitig graph of its own link set (every
   step inside a node is a merge, every merge of the link set is a step inside a node), have the same assembly. *)
From Coq Require Import NArith List Bool Arith Lia Permutation.
From DBG Require Import Spec.Dna Spec.GraphIndex Packed.ExtsModel Algo.KmerHist Check.GraphCheck Check.PipelineCheck
  Proofs.ListFacts Proofs.DnaFacts Proofs.PipelineCheckProofs.
Import ListNotations.
Open Scope N_scope.

(* ---- lists ---- *)
Lemma NoDup_app_inv {A} (a b : list A) : NoDup (a ++ b) -> NoDup a /\ NoDup b /\ forall x, In x a -> ~ In x b.
Proof.
  induction a as [|y a IH]; cbn; intros H.
  - split; [constructor|]. split; [exact H|]. intros x [].
  - inversion H as [|? ? Hn Hd]; subst. destruct (IH Hd) as [Ha [Hb Hab]].
    split; [constructor; [intros Hi; apply Hn, in_or_app; now left|exact Ha]|].
    split; [exact Hb|]. intros x [->|Hx]; [intros Hi; apply Hn, in_or_app; now right|now apply Hab].
Qed.
Lemma flat_map_in_unique {A B} (f : A -> list B) l a b x :
  NoDup (flat_map f l) -> In a l -> In b l -> In x (f a) -> In x (f b) -> a = b.
Proof.
  induction l as [|c r IH]; cbn [flat_map]; intros Hnd Ha Hb Hxa Hxb; [destruct Ha|].
  apply NoDup_app_inv in Hnd as [_ [Hr Hdis]].
  destruct Ha as [->|Ha], Hb as [->|Hb]; auto.
  - exfalso. apply (Hdis x Hxa). apply in_flat_map. now exists b.
  - exfalso. apply (Hdis x Hxb). apply in_flat_map. now exists a.
Qed.
Lemma flat_map_nodup_elem {A B} (f : A -> list B) l a : NoDup (flat_map f l) -> In a l -> NoDup (f a).
Proof.
  induction l as [|c r IH]; cbn [flat_map]; intros Hnd Ha; [destruct Ha|].
  apply NoDup_app_inv in Hnd as [Hc [Hr _]]. destruct Ha as [->|Ha]; auto.
Qed.
Lemma in_combine_tl {A} (l : list A) d i : (S i < length l)%nat -> In (nth i l d, nth (S i) l d) (combine l (tl l)).
Proof.
  revert i. induction l as [|x [|y r] IH]; cbn [length]; intros i Hi; try lia.
  destruct i as [|i]; [now left|]. right. apply (IH i). cbn [length]. lia.
Qed.
Lemma in_combine_tl_inv {A} (l : list A) x y : In (x, y) (combine l (tl l)) -> In x l /\ In y l.
Proof.
  intros H. split; [now apply in_combine_l in H|]. apply in_combine_r in H. destruct l; [destruct H|now right].
Qed.
Lemma Forall2_imp {A B} (P Q : A -> B -> Prop) l1 l2 : (forall a b, P a b -> Q a b) -> Forall2 P l1 l2 -> Forall2 Q l1 l2.
Proof. intros H. induction 1; constructor; auto. Qed.
Lemma perm_concat_map {A B} (f : A -> list B) a b : Permutation a b -> Permutation (flat_map f a) (flat_map f b).
Proof.
  induction 1; cbn [flat_map]; auto.
  - now apply Permutation_app_head.
  - rewrite !app_assoc. apply Permutation_app_tail, Permutation_app_comm.
  - etransitivity; eauto.
Qed.

(* ---- k-mers ---- *)
Lemma rc_inj x y : wf_dna x -> wf_dna y -> rc x = rc y -> x = y.
Proof. intros Hx Hy H. rewrite <- (rc_involutive x Hx), <- (rc_involutive y Hy). now f_equal. Qed.

Lemma cn_eq_cases st x k : wf_dna x -> wf_dna k -> cn st x = cn st k -> x = k \/ (st = false /\ x = rc k).
Proof.
  unfold cn. destruct st; [auto|]. intros Hx Hk H.
  destruct (canon_choice x) as [Ex|Ex], (canon_choice k) as [Ek|Ek]; rewrite Ex, Ek in H.
  - now left.
  - right. now split.
  - right. split; [reflexivity|]. rewrite <- H. symmetry. now apply rc_involutive.
  - left. now apply rc_inj.
Qed.
Lemma cn_rc st x : wf_dna x -> st = false -> cn st (rc x) = cn st x.
Proof. intros Hx ->. unfold cn. now apply canon_rc. Qed.

Lemma kmers_in K s x : In x (kmers K s) -> exists i, (i + K <= length s)%nat /\ x = kmer_at K s i.
Proof.
  unfold kmers. intros H. apply in_map_iff in H as [i [<- Hi]]. apply in_seq in Hi. exists i. split; [lia|reflexivity].
Qed.
Lemma kmers_wf K s x : wf_dna s -> In x (kmers K s) -> wf_dna x.
Proof.
  intros Hs H. apply kmers_in in H as [i [_ ->]]. unfold kmer_at, sub, wf_dna.
  apply Forall_forall. intros b Hb. apply in_firstn, in_skipn in Hb. unfold wf_dna in Hs. rewrite Forall_forall in Hs. auto.
Qed.
Lemma kmers_nonempty K s : (1 <= K)%nat -> (K <= length s)%nat -> kmers K s <> [].
Proof.
  intros H1 H2. unfold kmers. destruct (length s + 1 - K)%nat as [|m] eqn:E; [lia|]. cbn. discriminate.
Qed.
Lemma last_in {A} (l : list A) d : l <> [] -> In (last l d) l.
Proof.
  induction l as [|x [|y r] IH]; intros H; [congruence|now left|]. right. apply IH. discriminate.
Qed.
Lemma nonempty_in {A} (l : list A) : l <> [] -> exists z, In z l.
Proof. destruct l as [|z r]; [congruence|]. intros _. exists z. now left. Qed.
Lemma hd_in {A} (l : list A) d : l <> [] -> In (hd d l) l.
Proof. destruct l; [congruence|now left]. Qed.

Section Pairs.
Variable K : nat.
Variable stranded : bool.
Hypothesis HK : (1 <= K)%nat.

Lemma node_pairs_in n p : node_wf K n -> In p (node_pairs K n) ->
  In (fst p) (kmers K (nd_seq n)) /\ In (snd p) (kmers K (nd_seq n)).
Proof.
  intros [Hw Hl] H. unfold node_pairs in H. apply in_app_or in H as [H|[<-|[]]].
  - destruct p as [x y]. now apply in_combine_tl_inv.
  - cbn [fst snd]. pose proof (kmers_nonempty K (nd_seq n) HK Hl). split; [now apply last_in|now apply hd_in].
Qed.
Lemma opairs_kmers n p : node_wf K n -> In p (opairs K stranded n) ->
  In (cn stranded (fst p)) (node_kmers K stranded n) /\ In (cn stranded (snd p)) (node_kmers K stranded n).
Proof.
  intros Hn H. unfold opairs in H. unfold node_kmers. apply in_app_or in H as [H|H].
  - destruct (node_pairs_in n p Hn H). split; now apply in_map.
  - destruct stranded eqn:Es; [destruct H|]. apply in_map_iff in H as [q [<- Hq]].
    destruct (node_pairs_in n q Hn Hq) as [H1 H2]. cbn [fst snd]. destruct Hn as [Hw _].
    rewrite !cn_rc by (eauto using kmers_wf). split; now apply in_map.
Qed.
Lemma okmers_of_cn n x : node_wf K n -> wf_dna x -> In (cn stranded x) (node_kmers K stranded n) -> In x (okmers K stranded n).
Proof.
  intros [Hw _] Hx H. unfold node_kmers in H. apply in_map_iff in H as [k [Hk Hin]].
  unfold okmers. apply in_or_app.
  destruct (cn_eq_cases stranded x k Hx (kmers_wf _ _ _ Hw Hin) (eq_sym Hk)) as [->|[-> ->]]; [now left|].
  right. now apply in_map.
Qed.
End Pairs.

(* ---- a partition is matched node by node as soon as it is matched in both directions ---- *)
Lemma match_partition {A B} (f : A -> list B) (R : A -> A -> Prop) :
  (forall a b, R a b -> forall x, In x (f a) <-> In x (f b)) ->
  forall g1 g2, (forall a, In a g1 -> f a <> []) -> (forall a, In a g2 -> f a <> []) ->
   NoDup (flat_map f g1) -> NoDup (flat_map f g2) ->
   (forall a, In a g1 -> exists b, In b g2 /\ R a b) -> (forall b, In b g2 -> exists a, In a g1 /\ R a b) ->
   exists g2', Permutation g2 g2' /\ Forall2 R g1 g2'.
Proof.
  intros HR. induction g1 as [|n r IH]; intros g2 Hne1 Hne2 Hnd1 Hnd2 H12 H21.
  - destruct g2 as [|b t]; [exists []; split; constructor|].
    destruct (H21 b (or_introl eq_refl)) as [a [[] _]].
  - destruct (H12 n (or_introl eq_refl)) as [n2 [Hin2 HRn]].
    apply in_split in Hin2 as [a [b ->]].
    assert (Hp : Permutation (flat_map f (a ++ n2 :: b)) (f n2 ++ flat_map f (a ++ b))).
    { change (f n2 ++ flat_map f (a ++ b)) with (flat_map f (n2 :: a ++ b)).
      apply perm_concat_map. symmetry. apply Permutation_middle. }
    pose proof (Permutation_NoDup Hp Hnd2) as Hnd2'. apply NoDup_app_inv in Hnd2' as [_ [Hndab Hdis2]].
    cbn [flat_map] in Hnd1. apply NoDup_app_inv in Hnd1 as [_ [Hndr Hdis1]].
    destruct (IH (a ++ b)) as [t [Hpt Hft]]; auto.
    + intros m Hm. apply Hne1. now right.
    + intros m Hm. apply Hne2. apply in_app_or in Hm as [Hm|Hm]; apply in_or_app; [now left|right; now right].
    + intros m Hm. destruct (H12 m (or_intror Hm)) as [m2 [Hm2 HRm]].
      apply in_elt_inv in Hm2 as [->|Hm2]; [|now exists m2].
      exfalso. destruct (f m) as [|z zs] eqn:Ez; [apply (Hne1 m (or_intror Hm)); exact Ez|].
      assert (Hz : In z (f m)) by (rewrite Ez; now left).
      apply (Hdis1 z).
      * apply (HR _ _ HRn). apply (HR _ _ HRm). exact Hz.
      * apply in_flat_map. now exists m.
    + intros m2 Hm2.
      assert (Hm2' : In m2 (a ++ n2 :: b)).
      { apply in_app_or in Hm2 as [Hm2|Hm2]; apply in_or_app; [now left|right; now right]. }
      destruct (H21 m2 Hm2') as [m [[<-|Hm] HRm]]; [|now exists m].
      exfalso. destruct (f m2) as [|z zs] eqn:Ez; [apply (Hne2 m2 Hm2'); exact Ez|].
      assert (Hz : In z (f m2)) by (rewrite Ez; now left).
      apply (Hdis2 z).
      * apply (HR _ _ HRn). apply (HR _ _ HRm). exact Hz.
      * apply in_flat_map. now exists m2.
    + exists (n2 :: t). split; [|now constructor].
      etransitivity; [symmetry; apply Permutation_middle|]. now constructor.
Qed.

Section Unique.
Variable K : nat.
Variable stranded : bool.
Variable mode : N.
Variables idf colf : dna -> N.
Local Notation kj := (kjoin_f mode colf).
Local Notation gk := (graph_kmers K stranded).
Local Notation gl := (graph_links K stranded).
Local Notation nk := (node_kmers K stranded).

Lemma has_link_ext L1 L2 w : (forall v, In v L1 <-> In v L2) -> has_link stranded L1 w = has_link stranded L2 w.
Proof. intros H. unfold has_link. apply eq_true_iff_eq. rewrite !existsb_dna_in. apply H. Qed.
Lemma mergeableb_ext L1 L2 x y : (forall v, In v L1 <-> In v L2) ->
  mergeableb stranded kj L1 x y = mergeableb stranded kj L2 x y.
Proof.
  intros H. unfold mergeableb, rlinks, llinks.
  rewrite (filter_ext _ (fun b => has_link stranded L2 (x ++ [b]))) by (intros; now apply has_link_ext).
  rewrite (filter_ext (fun b => has_link stranded L1 (b :: y)) (fun b => has_link stranded L2 (b :: y))) by (intros; now apply has_link_ext).
  reflexivity.
Qed.

Lemma node_kmers_nonempty n : (1 <= K)%nat -> node_wf K n -> nk n <> [].
Proof.
  intros HK [_ Hl] H. unfold node_kmers in H. apply map_eq_nil in H. now apply (kmers_nonempty K (nd_seq n) HK Hl).
Qed.

(* every node of g1 lies inside one node of g2 *)
Lemma node_subset g1 g2 n1 : (1 <= K)%nat -> Forall (node_wf K) g1 -> Forall (node_wf K) g2 ->
  unbranched K stranded kj (gl g1) g1 -> maximal K stranded kj (gl g2) g2 -> NoDup (gk g2) ->
  (forall x, In x (gk g1) -> In x (gk g2)) -> (forall w, In w (gl g1) <-> In w (gl g2)) ->
  In n1 g1 -> exists n2, In n2 g2 /\ incl (nk n1) (nk n2).
Proof.
  intros HK Hw1 Hw2 Hub Hmax Hnd Hks Hls Hn1.
  rewrite Forall_forall in Hw1, Hw2. pose proof (Hw1 _ Hn1) as Hwn1.
  set (ks := kmers K (nd_seq n1)).
  assert (Hne : ks <> []) by (apply kmers_nonempty; [exact HK|apply Hwn1]).
  assert (H0 : In (cn stranded (nth 0 ks [])) (gk g1)).
  { apply in_flat_map. exists n1. split; [exact Hn1|]. unfold node_kmers. apply in_map. fold ks.
    apply nth_In. destruct ks; [congruence|cbn; lia]. }
  apply Hks in H0. apply in_flat_map in H0 as [n2 [Hn2 H0]].
  exists n2. split; [exact Hn2|].
  assert (Hall : forall i, (i < length ks)%nat -> In (cn stranded (nth i ks [])) (nk n2)).
  { induction i as [|i IH]; intros Hi; [exact H0|].
    assert (Hi' : (i < length ks)%nat) by lia. specialize (IH Hi').
    pose proof (in_combine_tl ks [] i Hi) as Hpair.
    pose proof (Hub n1 _ Hn1 Hpair) as Hm. cbn [fst snd] in Hm.
    rewrite (mergeableb_ext _ (gl g2)) in Hm by exact Hls.
    assert (Hwx : wf_dna (nth i ks [])) by (apply (kmers_wf K (nd_seq n1)); [apply Hwn1|now apply nth_In]).
    pose proof (okmers_of_cn K stranded n2 _ (Hw2 _ Hn2) Hwx IH) as Hok.
    destruct (Hmax n2 _ _ Hn2 Hok Hm) as [m [p [Hmin [Hp [Hf Hs]]]]].
    destruct (opairs_kmers K stranded HK m p (Hw2 _ Hmin) Hp) as [Hc1 Hc2]. rewrite Hf in Hc1. rewrite Hs in Hc2.
    assert (m = n2) by (apply (flat_map_in_unique nk g2 m n2 (cn stranded (nth i ks []))); assumption). now subst m. }
  intros y Hy. unfold node_kmers in Hy. fold ks in Hy. apply in_map_iff in Hy as [k [<- Hk]].
  destruct (In_nth ks k [] Hk) as [i [Hi <-]]. now apply Hall.
Qed.

Definition kmers_perm (a b : node_t) : Prop := Permutation (nk a) (nk b).

Lemma node_perm g1 g2 n1 : (1 <= K)%nat -> Forall (node_wf K) g1 -> Forall (node_wf K) g2 ->
  unbranched K stranded kj (gl g1) g1 -> maximal K stranded kj (gl g1) g1 ->
  unbranched K stranded kj (gl g2) g2 -> maximal K stranded kj (gl g2) g2 ->
  NoDup (gk g1) -> NoDup (gk g2) ->
  (forall x, In x (gk g1) <-> In x (gk g2)) -> (forall w, In w (gl g1) <-> In w (gl g2)) ->
  In n1 g1 -> exists n2, In n2 g2 /\ kmers_perm n1 n2.
Proof.
  intros HK Hw1 Hw2 Hub1 Hmx1 Hub2 Hmx2 Hnd1 Hnd2 Hks Hls Hn1.
  destruct (node_subset g1 g2 n1) as [n2 [Hn2 Hi12]]; auto; [intros x; apply Hks|].
  destruct (node_subset g2 g1 n2) as [n1' [Hn1' Hi21]]; auto; [intros x; apply Hks|intros w; symmetry; apply Hls|].
  exists n2. split; [exact Hn2|].
  rewrite Forall_forall in Hw1. pose proof (node_kmers_nonempty n1 HK (Hw1 _ Hn1)) as Hne.
  destruct (nonempty_in (nk n1) Hne) as [z Hz].
  assert (n1 = n1') by (apply (flat_map_in_unique nk g1 n1 n1' z); auto). subst n1'.
  apply NoDup_Permutation.
  - apply (flat_map_nodup_elem nk g1); assumption.
  - apply (flat_map_nodup_elem nk g2); assumption.
  - intros x. split; [apply Hi12|apply Hi21].
Qed.

(* MAIN: the assembly is determined by the k-mer set, the link set and the per-k-mer payloads *)
Theorem unitig_unique g1 g2 :
  unitig_graph K stranded mode colf g1 -> unitig_graph K stranded mode colf g2 ->
  NoDup (gk g1) -> NoDup (gk g2) ->
  (forall x, In x (gk g1) <-> In x (gk g2)) -> (forall w, In w (gl g1) <-> In w (gl g2)) ->
  payload_ok K stranded mode idf colf g1 -> payload_ok K stranded mode idf colf g2 ->
  same_assembly K stranded mode g1 g2.
Proof.
  intros [HK [Hw1 [Hub1 Hmx1]]] [_ [Hw2 [Hub2 Hmx2]]] Hnd1 Hnd2 Hks Hls Hp1 Hp2.
  split; [|exact Hls].
  assert (Hequiv : forall a b, In a g1 -> In b g2 -> kmers_perm a b -> node_equiv K stranded mode a b).
  { intros a b Ha Hb Hab. destruct (Hp1 _ Ha) as [Hia [Hca _]]. destruct (Hp2 _ Hb) as [Hib [Hcb _]].
    split; [exact Hab|]. split.
    - rewrite Hia, Hib. now apply Permutation_map.
    - intros Hm. rewrite Forall_forall in Hw1. pose proof (node_kmers_nonempty a HK (Hw1 _ Ha)) as Hne.
      destruct (nonempty_in (nk a) Hne) as [z Hz].
      rewrite <- (Hca Hm z Hz). apply (Hcb Hm). eapply Permutation_in; [exact Hab|exact Hz]. }
  set (R := fun a b => In a g1 /\ In b g2 /\ kmers_perm a b).
  destruct (match_partition nk R) with (g1 := g1) (g2 := g2) as [g2' [Hperm Hf]].
  - intros a b [_ [_ Hab]] x. split; intros Hx; [eapply Permutation_in; eauto|eapply Permutation_in; [symmetry|]; eauto].
  - rewrite Forall_forall in Hw1. intros a Ha. apply node_kmers_nonempty; auto.
  - rewrite Forall_forall in Hw2. intros a Ha. apply node_kmers_nonempty; auto.
  - exact Hnd1.
  - exact Hnd2.
  - intros a Ha. destruct (node_perm g1 g2 a) as [b [Hb Hab]]; auto. exists b. unfold R. auto.
  - intros b Hb. destruct (node_perm g2 g1 b) as [a [Ha Hab]]; auto.
    + intros x; symmetry; apply Hks.
    + intros w; symmetry; apply Hls.
    + exists a. unfold R. split; [exact Ha|]. split; [exact Ha|]. split; [exact Hb|]. unfold kmers_perm in *. symmetry. exact Hab.
  - exists g2'. split; [exact Hperm|].
    apply (Forall2_imp R); [|exact Hf]. intros a b [Ha [Hb Hab]]. now apply Hequiv.
Qed.
End Unique.
