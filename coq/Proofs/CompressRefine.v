(* C01 (a): the CompressFromHash model refines the generic greedy walk of Proofs/AbstractWalk.v.
   Vertices are table indices; [anext] is the static step [knext] (Spec/CompressSpec.v).
   Under [tbl_ok] and [exts_sym] the model never reaches one of its panics. *)
From Coq Require Import NArith List Bool Arith Lia Permutation.
From DBG Require Import Proofs.AbstractWalk.
From DBG Require Import Spec.Dna Spec.GraphIndex Spec.Unitig Spec.CompressSpec Packed.ExtsModel Algo.Compress
  Proofs.ListFacts Proofs.DnaFacts Proofs.ExtsProofs Proofs.ExtsWalk Proofs.KmerAlgebra Proofs.CompressBasics.
Import ListNotations.
Local Open Scope nat_scope.

Definition sd (d : dir) : side := match d with DLeft => L | DRight => R end.
Definition ds (s : side) : dir := match s with L => DLeft | R => DRight end.
Lemma ds_sd d : ds (sd d) = d. Proof. destruct d; reflexivity. Qed.
Lemma sd_ds s : sd (ds s) = s. Proof. destruct s; reflexivity. Qed.
Lemma sd_dflip d : sd (dflip d) = flip (sd d). Proof. destruct d; reflexivity. Qed.
Lemma ds_flip s : ds (flip s) = dflip (ds s). Proof. destruct s; reflexivity. Qed.

Lemma mem_mem_nat i l : mem nat Nat.eq_dec i l = mem_nat i l.
Proof.
  destruct (mem_nat i l) eqn:E.
  - apply mem_In. now apply mem_nat_In.
  - destruct (mem nat Nat.eq_dec i l) eqn:E2; [|reflexivity]. apply mem_In in E2. apply mem_nat_In in E2. congruence.
Qed.

Lemma nth_last {A} (l : list A) d : nth (length l - 1) l d = last l d.
Proof.
  induction l as [|a l IH]; [reflexivity|]. destruct l as [|b l]; [reflexivity|].
  cbn [length] in *. replace (S (S (length l)) - 1) with (S (S (length l) - 1)) by lia. exact IH.
Qed.

Section Refine.
Variable D : Type.
Variable reduce : D -> D -> D.
Variable join : D -> D -> bool.
Variable K : nat.
Variable stranded : bool.
Hypothesis HK : 1 <= K.
Variable T : table D.
Hypothesis Hok : tbl_ok D K stranded T.
Local Notation keys := (keys D).

(* ---- table lookup ---- *)
Lemma nth_error_keys i ent : nth_error T i = Some ent -> nth_error (keys T) i = Some (e_key D ent).
Proof. intro H. unfold Unitig.keys. now rewrite nth_error_map, H. Qed.

Lemma get_id_Some k j : get_id D T k = Some j -> exists ent, nth_error T j = Some ent /\ e_key D ent = k.
Proof.
  unfold get_id, end_index. intro H. apply index_where_Some in H. destruct H as [x [Hx [Hp _]]].
  rewrite nth_error_map in Hx. destruct (nth_error T j) as [ent|]; [|discriminate]. injection Hx as <-.
  exists ent. split; [reflexivity|]. apply dna_eqb_eq in Hp. now symmetry.
Qed.
Lemma get_id_key i ent : nth_error T i = Some ent -> get_id D T (e_key D ent) = Some i.
Proof.
  intro H. destruct (get_id D T (e_key D ent)) as [j|] eqn:E.
  - destruct (get_id_Some _ _ E) as [ent' [Hj Hk]]. f_equal.
    apply nth_error_keys in H. apply nth_error_keys in Hj. rewrite Hk in Hj.
    apply (proj1 (NoDup_nth_error (keys T)) (ok_nodup _ _ _ _ Hok)); [|congruence].
    apply nth_error_Some. congruence.
  - unfold get_id, end_index in E. pose proof (index_where_None _ _ E (e_key D ent)) as Hn.
    rewrite (proj2 (dna_eqb_eq _ _) eq_refl) in Hn. apply nth_error_In in H.
    assert (In (e_key D ent) (map (e_key D) T)) by now apply in_map. specialize (Hn H0). discriminate.
Qed.
Lemma get_entry_key i ent : nth_error T i = Some ent -> get_entry D T (e_key D ent) = Some ent.
Proof. intro H. unfold get_entry. now rewrite (get_id_key _ _ H). Qed.
Lemma get_entry_Some k ent : get_entry D T k = Some ent -> In ent T /\ e_key D ent = k.
Proof.
  unfold get_entry. destruct (get_id D T k) as [j|] eqn:E; [|discriminate]. intro H.
  destruct (get_id_Some _ _ E) as [e' [Hj Hk]]. rewrite Hj in H. injection H as <-.
  split; [eapply nth_error_In; eauto | exact Hk].
Qed.

Definition kkey (i : nat) : dna := match nth_error T i with Some e => e_key D e | None => [] end.
Definition kexts (i : nat) : N := match nth_error T i with Some e => e_exts D e | None => 0%N end.

Lemma key_ne i ent : nth_error T i = Some ent -> e_key D ent <> [].
Proof.
  intros H Hn. apply nth_error_In in H. apply (ok_len _ _ _ _ Hok) in H. rewrite Hn in H. cbn in H. lia.
Qed.

Lemma key_in_ne ent : In ent T -> e_key D ent <> [].
Proof. intros H Hn. apply (ok_len _ _ _ _ Hok) in H. rewrite Hn in H. cbn in H. lia. Qed.
Lemma outer_lt4 ent d : In ent T -> (outer (e_key D ent) d < 4)%N.
Proof.
  intro H. destruct d; cbn [outer]; [apply wf_hd | apply wf_last]; auto using key_in_ne; now apply (ok_wf _ _ _ _ Hok).
Qed.

(* ---- the static step ---- *)
Local Notation knext := (knext D join stranded T).
Lemma knext_valid i d j d' : knext i d = Some (j, d') -> exists yent, nth_error T j = Some yent.
Proof.
  unfold CompressSpec.knext. destruct (nth_error T i); [|discriminate].
  destruct (_ || _); [discriminate|]. destruct (e_get_unique_extension _ _); [|discriminate].
  destruct (get_id D T _) as [j0|]; [|discriminate]. destruct (nth_error T j0) as [yent|] eqn:E; [|discriminate].
  destruct (_ && _); [|discriminate]. intro H. injection H as <- _. eauto.
Qed.

Hypothesis Hsym : exts_sym D stranded T.

Lemma try_extend_spec avail i ent d : nth_error T i = Some ent ->
  try_extend_kmer D join stranded T avail (e_key D ent) d =
  match knext i d with
  | Some (j, d') =>
      if mem_nat j avail then Unique (kkey j) (dflip d') (e_single_dir (kexts j) (dirb (dflip d')))
      else Terminal (e_single_dir (e_exts D ent) (dirb d))
  | None => Terminal (e_single_dir (e_exts D ent) (dirb d))
  end.
Proof.
  intro Hi. unfold try_extend_kmer, CompressSpec.knext. rewrite (get_entry_key _ _ Hi), Hi. unfold kpal.
  assert (Hin : In ent T) by (eapply nth_error_In; eauto).
  pose proof (ok_exts _ _ _ _ Hok _ Hin) as He.
  destruct (negb (e_num_ext_dir (e_exts D ent) (dirb d) =? 1)%N) eqn:Hnum; cbn [orb]; [reflexivity|].
  destruct (negb stranded && is_palindrome (e_key D ent)) eqn:Hpal; [reflexivity|].
  apply negb_false_iff, N.eqb_eq in Hnum.
  destruct (unique_ext_spec _ _ He Hnum) as [b [Hu [Hb [Hhas _]]]]. rewrite Hu.
  unfold kcanon_flip.
  pose proof (Hsym ent d b) as Hs. unfold kcanon_flip, kpal in Hs.
  destruct (if stranded then (extend (e_key D ent) b d, false) else canon_flip (extend (e_key D ent) b d)) as [y fl] eqn:Hyf.
  cbn [fst snd] in *.
  destruct (get_id D T y) as [j|] eqn:Hid; [|reflexivity].
  destruct (get_id_Some _ _ Hid) as [yent [Hj Hky]]. rewrite Hj.
  destruct (mem_nat j avail) eqn:Hm.
  - unfold get_entry. rewrite Hid, Hj.
    assert (Hge : get_entry D T y = Some yent) by (unfold get_entry; now rewrite Hid, Hj).
    specialize (Hs yent Hin Hb Hhas Hge).
    assert (Hyin : In yent T) by (eapply nth_error_In; eauto).
    pose proof (ok_exts _ _ _ _ Hok _ Hyin) as Hey.
    destruct ((e_num_ext_dir (e_exts D yent) (dirb (cond_flip (dflip d) fl)) =? 0)%N && negb (negb stranded && is_palindrome y)) eqn:Hunr.
    + exfalso. apply andb_prop in Hunr as [H0 Hnp]. apply N.eqb_eq in H0. apply negb_true_iff in Hnp.
      destruct Hs as [Hs|Hs]; [congruence|].
      apply has_ext_num in Hs; auto. destruct fl; [apply comp_lt4|].
      now apply outer_lt4.
    + destruct (join (e_data D ent) (e_data D yent) && (e_num_ext_dir (e_exts D yent) (dirb (cond_flip (dflip d) fl)) =? 1)%N
                && negb (negb stranded && is_palindrome y)); [|reflexivity].
      rewrite Hm. unfold kkey, kexts. rewrite Hj, Hky. destruct fl, d; reflexivity.
  - match goal with |- context [if ?c then Some _ else None] => destruct c end; [|reflexivity]. rewrite Hm. reflexivity.
Qed.

(* ---- the abstract instance ---- *)
Definition anext (i : nat) (s : side) : option (nat * side) :=
  match knext i (ds s) with Some (j, d') => Some (j, sd d') | None => None end.
Local Notation aextend := (AbstractWalk.extend nat Nat.eq_dec anext).
Local Notation abuild := (AbstractWalk.build nat Nat.eq_dec anext).

Definition mpath (p : list (nat * side)) : list (dna * dir) :=
  map (fun wt => (kkey (fst wt), dflip (ds (snd wt)))) p.
Definition term_exts (vs : nat * side) : N := e_single_dir (kexts (fst vs)) (dirb (ds (snd vs))).
Definition valid_path (p : list (nat * side)) : Prop := forall wt, In wt p -> exists e, nth_error T (fst wt) = Some e.

Lemma anext_valid i s j t : anext i s = Some (j, t) -> exists e, nth_error T j = Some e.
Proof.
  unfold anext. destruct (knext i (ds s)) as [[j0 d']|] eqn:E; [|discriminate]. intro H. injection H as <- _.
  eapply knext_valid; eauto.
Qed.

Lemma aextend_incl fuel : forall avail i s p a', aextend fuel avail i s = (p, a') -> incl a' avail.
Proof.
  induction fuel as [|f IH]; intros avail i s p a' H; cbn [AbstractWalk.extend] in H.
  - injection H as <- <-. apply incl_refl.
  - destruct (anext i s) as [[w t]|]; [|injection H as <- <-; apply incl_refl].
    destruct (mem nat Nat.eq_dec w avail); [|injection H as <- <-; apply incl_refl].
    destruct (aextend f (remove Nat.eq_dec w avail) w (flip t)) as [p0 a0] eqn:E. injection H as <- <-.
    intros x Hx. apply (IH _ _ _ _ _ E) in Hx. apply in_remove in Hx. tauto.
Qed.
Lemma aextend_valid fuel : forall avail i s p a', aextend fuel avail i s = (p, a') -> valid_path p.
Proof.
  induction fuel as [|f IH]; intros avail i s p a' H; cbn [AbstractWalk.extend] in H.
  - injection H as <- <-. intros ? [].
  - destruct (anext i s) as [[w t]|] eqn:En; [|injection H as <- <-; intros ? []].
    destruct (mem nat Nat.eq_dec w avail); [|injection H as <- <-; intros ? []].
    destruct (aextend f (remove Nat.eq_dec w avail) w (flip t)) as [p0 a0] eqn:E. injection H as <- <-.
    intros wt [<-|Hin]; [eapply anext_valid; eauto | eapply IH; eauto].
Qed.

Lemma extend_loop_refines fuel : forall avail i ent d, nth_error T i = Some ent -> length avail < fuel ->
  extend_loop D join stranded fuel T avail (e_key D ent) d =
  let '(p, a') := aextend fuel avail i (sd d) in Some (mpath p, term_exts (last_out nat i (sd d) p), a').
Proof.
  induction fuel as [|f IH]; intros avail i ent d Hi Hlen; [lia|].
  cbn [extend_loop AbstractWalk.extend]. rewrite (try_extend_spec avail i ent d Hi). unfold anext at 1. rewrite ds_sd.
  assert (Hterm : e_single_dir (e_exts D ent) (dirb d) = term_exts (i, sd d)).
  { unfold term_exts, kexts. cbn [fst snd]. now rewrite Hi, ds_sd. }
  destruct (knext i d) as [[j d']|] eqn:Hn.
  - rewrite mem_mem_nat. destruct (mem_nat j avail) eqn:Hm.
    + destruct (knext_valid _ _ _ _ Hn) as [yent Hj].
      assert (Hk : kkey j = e_key D yent) by (unfold kkey; now rewrite Hj).
      rewrite Hk, (get_id_key _ _ Hj), remove_nat_remove.
      apply mem_nat_In in Hm.
      assert (Hlen' : length (remove Nat.eq_dec j avail) < f).
      { pose proof (remove_length_lt Nat.eq_dec avail j Hm). lia. }
      rewrite (IH _ j yent (dflip d') Hj Hlen'). rewrite sd_dflip.
      destruct (aextend f (remove Nat.eq_dec j avail) j (flip (sd d'))) as [p0 a0].
      cbn [mpath map fst snd last_out]. rewrite ds_sd, <- Hk. reflexivity.
    + cbn [mpath map last_out]. now rewrite Hterm.
  - cbn [mpath map last_out]. now rewrite Hterm.
Qed.

Lemma extend_kmer_refines avail i ent d : nth_error T i = Some ent ->
  extend_kmer D join stranded T avail (e_key D ent) d =
  let a := remove Nat.eq_dec i avail in
  let '(p, a') := aextend (S (length a)) a i (sd d) in Some (mpath p, term_exts (last_out nat i (sd d) p), a').
Proof.
  intro Hi. unfold extend_kmer. rewrite (get_id_key _ _ Hi). cbv zeta. rewrite remove_nat_remove.
  apply extend_loop_refines; auto.
Qed.

(* ---- build_node ---- *)
Definition owin (D0 : dir) (wt : nat * side) : dna := orient D0 (dflip (ds (snd wt))) (kkey (fst wt)).
Definition pdata (p : list (nat * side)) : list D :=
  flat_map (fun wt => match nth_error T (fst wt) with Some e => [e_data D e] | None => [] end) p.
Definition node_seq (lp : list (nat * side)) (i : nat) (rp : list (nat * side)) : dna :=
  rev (map (fun wt => hd 0%N (owin DLeft wt)) lp) ++ kkey i ++ map (fun wt => last (owin DRight wt) 0%N) rp.
Definition end_exts (D0 : dir) (i : nat) (p : list (nat * side)) : N :=
  let vs := last_out nat i (sd D0) p in
  if dir_eqb (ds (snd vs)) D0 then term_exts vs else e_complement (term_exts vs).
Definition node_exts lp i rp : N := e_from_single_dirs (end_exts DLeft i lp) (end_exts DRight i rp).
Definition node_data (lp : list (nat * side)) (d0 : D) (rp : list (nat * side)) : D :=
  fold_left reduce (pdata (lp ++ rp)) d0.

Lemma last_dir_mpath D0 i p :
  match last_dir (mpath p) with None => ds (snd (last_out nat i (sd D0) p)) = D0
  | Some d => ds (snd (last_out nat i (sd D0) p)) = d end.
Proof.
  revert i D0. induction p as [|[w t] p IH] using rev_ind; intros i D0.
  - cbn. apply ds_sd.
  - unfold last_dir, mpath. rewrite map_app, rev_app_distr. cbn [map rev app fst snd].
    clear IH. revert i D0. induction p as [|[w' t'] p IH]; intros i D0; cbn [app last_out snd].
    + apply ds_flip.
    + specialize (IH w' (ds (flip t'))). now rewrite sd_ds in IH.
Qed.

Lemma left_fold p : valid_path p -> forall s dat,
  fold_left (fun (acc : option (dna * D)) (x : dna * dir) =>
        match acc with
        | None => None
        | Some (seq, data) =>
          let k := match snd x with DLeft => fst x | DRight => rc (fst x) end in
          match get_entry D T (fst x) with
          | None => None
          | Some ent => Some (nth 0 k 0%N :: seq, reduce data (e_data D ent))
          end
        end) (mpath p) (Some (s, dat)) =
  Some (rev (map (fun wt => hd 0%N (owin DLeft wt)) p) ++ s, fold_left reduce (pdata p) dat).
Proof.
  induction p as [|[w t] p IH]; intros Hv s dat; [reflexivity|].
  destruct (Hv (w, t) (or_introl eq_refl)) as [e He]. cbn [fst] in He.
  cbn [mpath map fold_left fst snd pdata flat_map]. rewrite He. cbn [app fold_left].
  assert (Hk : kkey w = e_key D e) by (unfold kkey; now rewrite He).
  rewrite Hk, (get_entry_key _ _ He). fold (mpath p). rewrite IH by (intros x Hx; apply Hv; now right).
  f_equal. f_equal. cbn [rev]. rewrite <- app_assoc. cbn [app]. f_equal. f_equal.
  unfold owin, orient. cbn [fst snd]. rewrite Hk. destruct t; cbn [ds dflip dir_eqb];
  now destruct (e_key D e) + destruct (rc (e_key D e)).
Qed.

Lemma right_fold p : valid_path p -> forall s dat,
  fold_left (fun (acc : option (dna * D)) (x : dna * dir) =>
        match acc with
        | None => None
        | Some (seq, data) =>
          let k := match snd x with DLeft => rc (fst x) | DRight => fst x end in
          match get_entry D T (fst x) with
          | None => None
          | Some ent => Some (seq ++ [nth (length k - 1) k 0%N], reduce data (e_data D ent))
          end
        end) (mpath p) (Some (s, dat)) =
  Some (s ++ map (fun wt => last (owin DRight wt) 0%N) p, fold_left reduce (pdata p) dat).
Proof.
  induction p as [|[w t] p IH]; intros Hv s dat; [cbn; now rewrite app_nil_r|].
  destruct (Hv (w, t) (or_introl eq_refl)) as [e He]. cbn [fst] in He.
  cbn [mpath map fold_left fst snd pdata flat_map]. rewrite He. cbn [app fold_left].
  assert (Hk : kkey w = e_key D e) by (unfold kkey; now rewrite He).
  rewrite Hk, (get_entry_key _ _ He). fold (mpath p). rewrite IH by (intros x Hx; apply Hv; now right).
  f_equal. f_equal. rewrite <- app_assoc. cbn [app]. f_equal. f_equal.
  unfold owin, orient. cbn [fst snd]. rewrite Hk. destruct t; cbn [ds dflip dir_eqb]; apply nth_last.
Qed.

Definition node_rel (n : node D) (x : list (nat * side) * nat * list (nat * side)) : Prop :=
  let '(lp, i, rp) := x in
  exists ent, nth_error T i = Some ent /\
    n = (node_seq lp i rp, node_exts lp i rp, node_data lp (e_data D ent) rp).

Lemma build_node_refines avail i ent : nth_error T i = Some ent ->
  let '(lp, rp, a3) := abuild avail i in
  build_node D reduce join stranded T avail i =
    Some (node_seq lp i rp, node_exts lp i rp, node_data lp (e_data D ent) rp, a3).
Proof.
  intro Hi. unfold AbstractWalk.build, build_node. rewrite Hi.
  rewrite (extend_kmer_refines avail i ent DLeft Hi). cbv zeta. cbn [sd].
  set (a1 := remove Nat.eq_dec i avail).
  destruct (aextend (S (length a1)) a1 i L) as [lp a2] eqn:EL.
  rewrite (left_fold lp (aextend_valid _ _ _ _ _ _ EL)).
  rewrite (extend_kmer_refines a2 i ent DRight Hi). cbv zeta. cbn [sd].
  assert (Hrm : remove Nat.eq_dec i a2 = a2).
  { apply notin_remove. intro Hin. apply (aextend_incl _ _ _ _ _ _ EL) in Hin. unfold a1 in Hin.
    apply in_remove in Hin. tauto. }
  rewrite Hrm.
  destruct (aextend (S (length a2)) a2 i R) as [rp a3] eqn:ER.
  rewrite (right_fold rp (aextend_valid _ _ _ _ _ _ ER)).
  f_equal. f_equal. f_equal; [f_equal|].
  - unfold node_seq. rewrite <- app_assoc. unfold kkey. now rewrite Hi.
  - unfold node_exts, end_exts. f_equal.
    + pose proof (last_dir_mpath DLeft i lp) as H. cbn [sd] in *.
      destruct (last_dir (mpath lp)) as [[|]|]; rewrite H; reflexivity.
    + pose proof (last_dir_mpath DRight i rp) as H. cbn [sd] in *.
      destruct (last_dir (mpath rp)) as [[|]|]; rewrite H; reflexivity.
  - unfold node_data, pdata. rewrite flat_map_app, fold_left_app. reflexivity.
Qed.

(* ---- the outer loop ---- *)
Fixpoint compress_struct (order avail : list nat) : list (list (nat * side) * nat * list (nat * side)) :=
  match order with
  | [] => []
  | v :: o =>
      if mem nat Nat.eq_dec v avail then
        let '(lp, rp, a') := abuild avail v in (lp, v, rp) :: compress_struct o a'
      else compress_struct o avail
  end.
Lemma compress_struct_verts order : forall avail,
  map (fun x => node_verts nat (fst (fst x)) (snd (fst x)) (snd x)) (compress_struct order avail) =
  compress nat Nat.eq_dec anext order avail.
Proof.
  induction order as [|v o IH]; intro avail; [reflexivity|]. cbn [compress_struct compress].
  destruct (mem nat Nat.eq_dec v avail); [|apply IH].
  destruct (abuild avail v) as [[lp rp] a']. cbn [map fst snd]. now rewrite IH.
Qed.

Lemma compress_loop_refines order : forall avail, (forall i, In i order -> i < length T) ->
  exists nodes, compress_loop D reduce join stranded T order avail = Some nodes /\
                Forall2 node_rel nodes (compress_struct order avail).
Proof.
  induction order as [|v o IH]; intros avail Hord; [exists []; split; [reflexivity | constructor]|].
  cbn [compress_loop compress_struct]. rewrite mem_mem_nat.
  assert (Ho : forall i, In i o -> i < length T) by (intros; apply Hord; now right).
  destruct (mem_nat v avail); [|now apply IH].
  assert (Hv : v < length T) by (apply Hord; now left).
  destruct (nth_error T v) as [ent|] eqn:Hi; [|apply nth_error_None in Hi; lia].
  pose proof (build_node_refines avail v ent Hi) as Hb.
  destruct (abuild avail v) as [[lp rp] a']. rewrite Hb.
  destruct (IH a' Ho) as [nodes [Hn Hrel]]. rewrite Hn. eexists. split; [reflexivity|].
  constructor; [|exact Hrel]. exists ent. split; [exact Hi | reflexivity].
Qed.

Theorem compress_refines : exists nodes,
  compress_kmers D reduce join stranded T = Some nodes /\
  Forall2 node_rel nodes (compress_struct (seq 0 (length T)) (seq 0 (length T))).
Proof. unfold compress_kmers. apply compress_loop_refines. intros i Hi. apply in_seq in Hi. lia. Qed.
End Refine.
