(* e2e-sharded, graph level, no tables: [lgraph_ok S g] - the k-mer-level facts about a graph g relative to a set S of
   canonical (K+1)-mers that hold of every graph built by compress_kmers from a table whose extension bits are the
   membership in S ([links_loose], Proofs/E2eDefs.v), also when recorded extensions lead to absent k-mers:
     every step inside a node is a merge of S ([unbranched]),
     the extension bits of a node end are exactly the links of S at its end k-mer on that side (the two sides of a
     palindromic single-k-mer node being identified),
     a palindromic k-mer is a node of its own.
   All of it is local to a node, so it is inherited by concatenations of graphs (BaseGraph::combine). *)
From Coq Require Import NArith List Bool Arith Lia Permutation.
From DBG Require Import Spec.Dna Spec.GraphIndex Spec.Unitig Spec.CompressSpec Packed.ExtsModel Algo.Compress
  Algo.KmerHist Algo.GraphModel Check.GraphCheck Check.PipelineCheck Check.RecompCheck Check.RecompLooseCheck
  Proofs.ListFacts Proofs.DnaFacts Proofs.KmerAlgebra Proofs.ExtsProofs Proofs.ExtsWalk
  Proofs.CompressBasics Proofs.CompressProofs Proofs.CompressGraphOk Proofs.FilterProofs Proofs.GraphQueryProofs Proofs.PipelineCheckProofs Proofs.UnitigUnique Proofs.RecompLooseGraphOk
  Proofs.E2eDefs Proofs.E2eSym Proofs.E2eGraph.
Import ListNotations.
Local Open Scope nat_scope.

Section LG.
Variable K : nat.
Variable st : bool.
Variable kj : dna -> dna -> bool.
Variable S : list dna.

Definition ends_match (n : node_t) : Prop :=
  forall s c, (c < 4)%N ->
    (kpal st (term_kmer K (nd_seq n) s) = false ->
       (e_has_ext (nd_exts n) (dirb s) c = true <-> In (cn st (lk (term_kmer K (nd_seq n) s) s c)) S)) /\
    (kpal st (term_kmer K (nd_seq n) s) = true ->
       (e_has_ext (nd_exts n) (dirb s) c = true \/ e_has_ext (nd_exts n) (dirb (dflip s)) (comp c) = true
        <-> In (cn st (lk (term_kmer K (nd_seq n) s) s c)) S)).
Definition pal_alone (n : node_t) : Prop :=
  forall w, In w (kmers K (nd_seq n)) -> kpal st w = true -> length (nd_seq n) = K.
Record lgraph_ok (g : list node_t) : Prop := {
  lg_wf : Forall (node_wf K) g;
  lg_lt : forall n, In n g -> (nd_exts n < 256)%N;
  lg_unb : unbranched K st kj S g;
  lg_ends : forall n, In n g -> ends_match n;
  lg_pal : forall n, In n g -> pal_alone n }.

Lemma lgraph_ok_app g1 g2 : lgraph_ok g1 -> lgraph_ok g2 -> lgraph_ok (g1 ++ g2).
Proof.
  intros [A1 A2 A3 A4 A5] [B1 B2 B3 B4 B5]. constructor.
  - apply Forall_app. auto.
  - intros n Hn. apply in_app_or in Hn as [Hn|Hn]; auto.
  - intros n p Hn. apply in_app_or in Hn as [Hn|Hn]; [now apply A3 | now apply B3].
  - intros n Hn. apply in_app_or in Hn as [Hn|Hn]; auto.
  - intros n Hn. apply in_app_or in Hn as [Hn|Hn]; auto.
Qed.
Lemma lgraph_ok_nil : lgraph_ok [].
Proof. constructor; [constructor | intros n [] | intros n p [] | intros n [] | intros n []]. Qed.
Lemma lgraph_ok_concat gs : Forall lgraph_ok gs -> lgraph_ok (concat gs).
Proof. induction 1 as [|g gs Hg _ IH]; cbn [concat]; [apply lgraph_ok_nil | now apply lgraph_ok_app]. Qed.

(* ---- mergeableb, unfolded ---- *)
Lemma mergeable_inv x y : mergeableb st kj S x y = true ->
  exists b, (b < 4)%N /\ rlinks st S x = [b] /\ llinks st S y = [hd 0%N x] /\ y = tl x ++ [b] /\
    kpal st x = false /\ kpal st y = false /\ cn st x <> cn st y /\ kj (cn st x) (cn st y) = true.
Proof.
  unfold mergeableb. destruct (rlinks st S x) as [|b [|? ?]] eqn:Er; try discriminate.
  destruct (llinks st S y) as [|c [|? ?]] eqn:El; try discriminate. intro H.
  apply andb_true_iff in H as [H Hj]. apply andb_true_iff in H as [H Hne]. apply andb_true_iff in H as [H Py].
  apply andb_true_iff in H as [H Px]. apply andb_true_iff in H as [H Hc].
  apply dna_eqb_eq in H. apply N.eqb_eq in Hc. apply negb_true_iff in Px, Py, Hne. apply dna_eqb_neq in Hne.
  exists b. subst c. repeat split; auto.
  assert (Hin : In b (rlinks st S x)) by (rewrite Er; now left). unfold rlinks in Hin. apply filter_In in Hin as [Hin _].
  now apply in_bases4_lt.
Qed.
Lemma mergeable_intro x y b : rlinks st S x = [b] -> llinks st S y = [hd 0%N x] -> y = tl x ++ [b] ->
  kpal st x = false -> kpal st y = false -> cn st x <> cn st y -> kj (cn st x) (cn st y) = true ->
  mergeableb st kj S x y = true.
Proof.
  intros Er El Ey Px Py Hne Hj. unfold mergeableb. rewrite Er, El, Hj, N.eqb_refl.
  change (palb st x) with (kpal st x). change (palb st y) with (kpal st y). rewrite Px, Py.
  replace (dna_eqb y (tl x ++ [b])) with true by (symmetry; now apply dna_eqb_eq).
  replace (dna_eqb (cn st x) (cn st y)) with false by (symmetry; now apply dna_eqb_neq). reflexivity.
Qed.
Lemma in_rlinks x c : In c (rlinks st S x) <-> (c < 4)%N /\ In (cn st (lk x DRight c)) S.
Proof.
  unfold rlinks. rewrite filter_In. unfold has_link. rewrite existsb_dna_in. cbn [lk].
  split; intros [H1 H2]; (split; [|exact H2]); [now apply in_bases4_lt | now apply in_bases4].
Qed.
Lemma in_llinks x c : In c (llinks st S x) <-> (c < 4)%N /\ In (cn st (lk x DLeft c)) S.
Proof.
  unfold llinks. rewrite filter_In. unfold has_link. rewrite existsb_dna_in. cbn [lk].
  split; intros [H1 H2]; (split; [|exact H2]); [now apply in_bases4_lt | now apply in_bases4].
Qed.
End LG.

(* ---- the graphs of compress_kmers ---- *)
Section FromTable.
Variable K : nat.
Variable st : bool.
Variable mode : N.
Hypothesis HK : 1 <= K.
Variable T : table pay.
Variable LS : list dna.
Variables idf colf : dna -> N.
Hypothesis Hok : tbl_ok pay K st T.
Hypothesis HL : links_loose pay st T LS.
Hypothesis Hdata : forall ent, In ent T -> e_data pay ent = (colf (e_key pay ent), [idf (e_key pay ent)]).
Variable g : list node_t.
Hypothesis Hc : compress_kmers pay pay_reduce (pay_join mode) st T = Some g.
Local Notation Hsym := (links_exts_sym pay K st HK T LS Hok HL).
Local Notation Hpal := (links_exts_sym_pal pay K st HK T LS Hok HL).
Local Notation oexts := (Unitig.oexts pay st T).
Local Notation kj := (kjoin_f mode colf).

Lemma rlinks_loose x e : wf_dna x -> oexts x = Some e -> kpal st x = false -> rlinks st LS x = filter (e_has_ext e true) bases4.
Proof.
  intros W He P. unfold rlinks. apply filter_ext_in. intros b Hb. apply eq_true_iff_eq. unfold has_link. rewrite existsb_dna_in.
  symmetry. exact (frame_iff pay K st HK T LS Hok HL x e DRight b W (in_bases4_lt b Hb) He P).
Qed.
Lemma llinks_loose x e : wf_dna x -> oexts x = Some e -> kpal st x = false -> llinks st LS x = filter (e_has_ext e false) bases4.
Proof.
  intros W He P. unfold llinks. apply filter_ext_in. intros b Hb. apply eq_true_iff_eq. unfold has_link. rewrite existsb_dna_in.
  symmetry. exact (frame_iff pay K st HK T LS Hok HL x e DLeft b W (in_bases4_lt b Hb) He P).
Qed.

Lemma fm_mergeable x y : fm K st T x y -> kj (cn st x) (cn st y) = true -> mergeableb st kj LS x y = true.
Proof.
  intros Hfm Hj. destruct (fm_wf_y K st HK T x y Hfm) as (Wy & Ly & Nx & Ny).
  destruct Hfm as (W & Lx & Px & Py & Hne & b & ex & ey & Hb & Ey & Hx & Hy & Nxx & Nyy & Hhx & Hhy).
  assert (Hc4 : (hd 0 x < 4)%N) by (apply wf_hd; auto).
  apply (mergeable_intro st kj LS x y b); auto.
  - rewrite (rlinks_loose x ex W Hx Px). apply filter_single; auto. exact (oexts_lt_ K st HK T LS Hok HL _ _ Hx).
  - rewrite (llinks_loose y ey Wy Hy Py). apply filter_single; auto. exact (oexts_lt_ K st HK T LS Hok HL _ _ Hy).
Qed.

Theorem compress_lgraph_ok : lgraph_ok K st kj LS g.
Proof.
  destruct (compress_kmers_rvalid_loose pay pay_reduce (pay_join mode) K st HK T Hok Hsym Hpal) as (g' & Hc' & _ & Hrv).
  assert (g' = g) by congruence. subst g'.
  constructor.
  - apply Forall_forall. intros n Hn. destruct (node_len_wf K st mode HK T LS Hok HL g Hc n Hn). split; assumption.
  - intros n Hn. destruct Hrv as (Hno & _). rewrite Forall_forall in Hno. now destruct (Hno n Hn) as (_ & _ & ?).
  - intros n [x y] Hn Hp. cbn [fst snd]. unfold inner_pairs in Hp.
    apply (in_combine_tl_nth _ []) in Hp as (i & Hi & -> & ->). rewrite kmers_len in Hi.
    rewrite !kmers_nth by lia. destruct (inner_fm K st mode HK T LS idf colf Hok HL Hdata g Hc n i Hn ltac:(lia)) as [Hfm Hj].
    now apply fm_mergeable.
  - intros n Hn s c Hcc. destruct (node_len_wf K st mode HK T LS Hok HL g Hc n Hn) as [Ln Wn].
    destruct (term_kmer_ok K _ s Wn Ln) as [Lx Wx].
    destruct (node_term K st mode HK T LS Hok HL g Hc n s Hn) as (e & He & Heb).
    split; intro P.
    + rewrite (Heb c (in_bases4 c Hcc)). exact (frame_iff pay K st HK T LS Hok HL _ e s c Wx Hcc He P).
    + assert (Hlen : length (nd_seq n) = K).
      { destruct (nodes_facts pay pay_reduce (pay_join mode) K st HK T Hok Hsym Hpal g Hc n Hn) as [_ _ _ F _].
        apply (F (term_kmer K (nd_seq n) s)); [|exact P]. now apply term_in_kmers. }
      destruct (node_term K st mode HK T LS Hok HL g Hc n (dflip s) Hn) as (e' & He' & Heb').
      rewrite (term_kmer_single K _ (dflip s) Hlen), <- (term_kmer_single K _ s Hlen), He in He'. injection He' as <-.
      rewrite (Heb c (in_bases4 c Hcc)), (Heb' (comp c) (in_bases4 _ (comp_lt4 c))). split.
      * intros [Hh|Hh]; [exact (frame_fwd pay K st HK T LS Hok HL _ e s c Wx Hcc He Hh)|].
        pose proof (frame_fwd pay K st HK T LS Hok HL _ e (dflip s) (comp c) Wx (comp_lt4 c) He Hh) as H.
        apply kpal_iff in P as [Hs P]. rewrite P in H at 1. rewrite <- rc_lk, cn_rc_ in H; auto. now apply lk_wf.
      * exact (frame_pal pay K st HK T LS Hok HL _ e s c Wx Hcc He P).
  - intros n Hn w Hw P. destruct (nodes_facts pay pay_reduce (pay_join mode) K st HK T Hok Hsym Hpal g Hc n Hn) as [_ _ _ F _].
    exact (F w Hw P).
Qed.

Theorem compress_loose_kmers : Permutation (PipelineCheck.graph_kmers K st g) (keys pay T).
Proof. exact (graph_kmers_keys K st mode HK T LS Hok HL g Hc). Qed.
Theorem compress_loose_payload : PipelineCheck.payload_ok K st mode idf colf g.
Proof. exact (graph_payload K st mode HK T LS idf colf Hok HL Hdata g Hc). Qed.
Theorem compress_loose_total : exists g0, compress_kmers pay pay_reduce (pay_join mode) st T = Some g0.
Proof. destruct (compress_c01 pay pay_reduce (pay_join mode) K st HK T Hok Hsym) as [g0 [H _]]. eauto. Qed.
End FromTable.
Print Assumptions compress_lgraph_ok.
