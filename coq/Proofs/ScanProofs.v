(* C07: proofs about the scanner model (Algo/Scan.v): loop invariant of DESIGN A.3, for EVERY score function. *)
From Coq Require Import NArith List Bool Arith Lia.
From DBG Require Import Gen.SourceConsts Spec.Dna Spec.ScanSpec Algo.Scan Proofs.ListFacts.
Import ListNotations.
Open Scope nat_scope.

Section ScanProofs.
  Variable score : dna -> N.
  Variable sq : dna.
  Variable k p : nat.
  Hypothesis Hp : 1 <= p.
  Hypothesis Hpk : p <= k.
  Hypothesis Hkm : k <= length sq.

  Let m := length sq.
  Let sc (j : nat) : N := score (sub j p sq).
  Let MP := mp score sq p.
  Let INCR := incr score sq p.

  Lemma mpos_MP j : mpos (MP j) = j.
  Proof. reflexivity. Qed.
  Lemma mval_MP j : mval (MP j) = sc j.
  Proof. reflexivity. Qed.
  Lemma mkmer_MP j : mkmer (MP j) = sub j p sq.
  Proof. reflexivity. Qed.

  Lemma mkmer_of x : x = MP (mpos x) -> mkmer x = sub (mpos x) p sq.
  Proof. intro E. rewrite E. reflexivity. Qed.

  (* incr is mp at the next position, as long as the p-mer fits *)
  Lemma incr_MP j : j + 1 + p <= m -> INCR (MP j) = MP (j + 1).
  Proof.
    intro H. unfold INCR, MP, incr, mp. cbn [mpos mkmer].
    replace (j + 1 + p - 1) with (j + p) by lia.
    pose proof (kmer_at_shift p sq j) as E. unfold kmer_at in E.
    rewrite E by (fold m; lia). replace (j + 1) with (S j) by lia. reflexivity.
  Qed.

  Lemma mp_min_cases a b :
    (mp_min a b = a /\ (mval a <= mval b)%N) \/ (mp_min a b = b /\ (mval b <= mval a)%N).
  Proof.
    unfold mp_min, mp_cmp. destruct (N.compare_spec (mval a) (mval b)) as [E|L|G].
    - destruct (CompOpp (mpos a ?= mpos b)); [left|left|right]; split; auto; lia.
    - left. split; auto. lia.
    - right. split; auto. lia.
  Qed.

  (* find_min returns a minimum over [lo, c+n] when started with a minimum over [lo, c] *)
  Lemma find_min_loop_spec n : forall lo q c,
    c + n + p <= m -> lo <= q <= c -> (forall j, lo <= j <= c -> (sc q <= sc j)%N) ->
    exists q', find_min_loop score sq p n (MP q) (MP c) = MP q' /\ lo <= q' <= c + n /\
               forall j, lo <= j <= c + n -> (sc q' <= sc j)%N.
  Proof.
    induction n as [|n IH]; intros lo q c Hc Hq Hmin.
    - exists q. cbn [find_min_loop]. split; [reflexivity|]. split; [lia|]. intros j Hj. apply Hmin. lia.
    - cbn [find_min_loop]. fold INCR. rewrite incr_MP by lia.
      destruct (mp_min_cases (MP q) (MP (c + 1))) as [[E L]|[E L]]; rewrite E; rewrite !mval_MP in L.
      + destruct (IH lo q (c + 1)) as [q' [E' [B M]]]; try lia.
        { intros j Hj. destruct (Nat.eq_dec j (c + 1)) as [->|N]; [exact L|]. apply Hmin. lia. }
        exists q'. split; [exact E'|]. split; [lia|]. intros j Hj. apply M. lia.
      + destruct (IH lo (c + 1) (c + 1)) as [q' [E' [B M]]]; try lia.
        { intros j Hj. destruct (Nat.eq_dec j (c + 1)) as [->|N]; [lia|].
          apply N.le_trans with (sc q); [exact L|]. apply Hmin. lia. }
        exists q'. split; [exact E'|]. split; [lia|]. intros j Hj. apply M. lia.
  Qed.

  Lemma find_min_spec a b : a <= b -> b + p <= m ->
    exists q, find_min score sq p a b = MP q /\ a <= q <= b /\ forall j, a <= j <= b -> (sc q <= sc j)%N.
  Proof.
    intros Hab Hb. unfold find_min. fold MP.
    destruct (find_min_loop_spec (b - a) a a a) as [q [E [B M]]]; try lia.
    { intros j Hj. replace j with a by lia. lia. }
    exists q. split; [exact E|]. split; [lia|]. intros j Hj. apply M. lia.
  Qed.

  (* a closed interval: change point s1 with minimizer position q1, next change point s2 *)
  Definition closed (s1 q1 s2 : nat) : Prop :=
    s1 < s2 /\ s2 <= q1 + 1 /\ q1 <= s1 + k - p /\
    (forall j, s1 <= j <= s2 - 1 + k - p -> (sc q1 <= sc j)%N) /\
    (q1 < s2 \/ (sc (s2 + k - p) < sc q1)%N).
  (* the last interval *)
  Definition last_ok (s q : nat) : Prop :=
    s <= m - k /\ m - k <= q /\ q <= s + k - p /\ (forall j, s <= j <= m - p -> (sc q <= sc j)%N).

  (* the change points recorded so far, newest first *)
  Fixpoint acc_ok (acc : list (nat * minpos)) : Prop :=
    match acc with
    | [] => False
    | (s, x) :: r =>
        x = MP (mpos x) /\
        match r with
        | [] => s = 0
        | (s1, x1) :: _ => closed s1 (mpos x1) s /\ acc_ok r
        end
    end.

  (* DESIGN A.3: the state after processing k-mer start i *)
  Definition Inv (i : nat) (st : scan_state) : Prop :=
    let '(mn, ep, acc) := st in
    ep = MP (i + k - p) /\
    exists s r, acc = (s, mn) :: r /\ acc_ok acc /\
      s <= i /\ i <= mpos mn /\ mpos mn <= s + k - p /\
      (forall j, s <= j <= i + k - p -> (sc (mpos mn) <= sc j)%N).

  Lemma Inv_init : Inv 0 (scan_init score sq k p).
  Proof.
    unfold scan_init. destruct (find_min_spec 0 (k - p)) as [q [E [B M]]]; [lia|fold m; lia|].
    rewrite E. cbn [Inv]. split; [reflexivity|].
    exists 0, []. split; [reflexivity|]. split; [cbn; auto|].
    rewrite mpos_MP. split; [lia|]. split; [lia|]. split; [lia|]. intros j Hj. apply M. lia.
  Qed.

  Lemma Inv_step i st : Inv i st -> i + 1 <= m - k -> Inv (i + 1) (scan_step score sq k p st (i + 1)).
  Proof.
    destruct st as [[mn ep] acc]. intros [Eep [s [r [Eacc [Hacc [Hsi [Hiq [Hqs Hmin]]]]]]]] Hi.
    unfold scan_step. fold INCR. rewrite Eep, incr_MP by lia.
    replace (i + k - p + 1) with (i + 1 + k - p) by lia.
    assert (Emn : mn = MP (mpos mn)) by (rewrite Eacc in Hacc; cbn in Hacc; tauto).
    destruct (Nat.ltb_spec (mpos mn) (i + 1)) as [Hlt|Hge].
    - (* the minimizer left the window: rescan *)
      destruct (find_min_spec (i + 1) (i + 1 + k - p)) as [q' [E [B M]]]; [lia|lia|].
      rewrite E. cbn [Inv]. split; [reflexivity|].
      exists (i + 1), acc. split; [reflexivity|]. split.
      + rewrite Eacc. cbn [acc_ok]. split; [reflexivity|]. split.
        * unfold closed. repeat split; try lia. intros j Hj. apply Hmin. lia.
        * rewrite Eacc in Hacc. exact Hacc.
      + rewrite mpos_MP. split; [lia|]. split; [lia|]. split; [lia|]. exact M.
    - destruct (N.ltb_spec (mval (MP (i + 1 + k - p))) (mval mn)) as [Hbetter|Hnot].
      + (* strictly better p-mer entered the window *)
        rewrite Emn, !mval_MP in Hbetter. cbn [Inv]. split; [reflexivity|].
        exists (i + 1), acc. split; [reflexivity|]. split.
        * rewrite Eacc. cbn [acc_ok]. split; [reflexivity|]. split.
          -- unfold closed. split; [lia|]. split; [lia|]. split; [lia|]. split.
             ++ intros j Hj. apply Hmin. lia.
             ++ right. exact Hbetter.
          -- rewrite Eacc in Hacc. exact Hacc.
        * rewrite mpos_MP. split; [lia|]. split; [lia|]. split; [lia|].
          intros j Hj. destruct (Nat.eq_dec j (i + 1 + k - p)) as [->|N]; [lia|].
          apply N.le_trans with (sc (mpos mn)); [lia|]. apply Hmin. lia.
      + rewrite Emn, !mval_MP in Hnot. cbn [Inv]. split; [reflexivity|].
        exists s, r. split; [exact Eacc|]. split; [exact Hacc|].
        split; [lia|]. split; [lia|]. split; [lia|].
        intros j Hj. destruct (Nat.eq_dec j (i + 1 + k - p)) as [->|N]; [exact Hnot|]. apply Hmin. lia.
  Qed.

  Lemma Inv_fold n : forall a st, Inv a st -> a + n <= m - k ->
    Inv (a + n) (fold_left (scan_step score sq k p) (seq (a + 1) n) st).
  Proof.
    induction n as [|n IH]; intros a st H Hn.
    - rewrite Nat.add_0_r. exact H.
    - cbn [seq fold_left]. replace (a + S n) with ((a + 1) + n) by lia.
      replace (S (a + 1)) with ((a + 1) + 1) by lia. apply IH; [|lia]. apply Inv_step; [exact H|lia].
  Qed.

  (* the change points oldest first, as consumed by the interval synthesis *)
  Fixpoint fwd_ok (cps : list (nat * minpos)) : Prop :=
    match cps with
    | [] => False
    | (s, x) :: r =>
        x = MP (mpos x) /\
        match r with
        | [] => last_ok s (mpos x)
        | (s2, _) :: _ => closed s (mpos x) s2 /\ fwd_ok r
        end
    end.

  Lemma rev_append_ok acc : forall tl,
    acc_ok acc -> fwd_ok tl ->
    (forall s x r s2 y t, acc = (s, x) :: r -> tl = (s2, y) :: t -> closed s (mpos x) s2) ->
    fwd_ok (rev_append acc tl) /\ exists x r, rev_append acc tl = (0, x) :: r.
  Proof.
    induction acc as [|[s x] r IH]; intros tl Hacc Htl Hc; [destruct Hacc|].
    cbn [rev_append]. cbn [acc_ok] in Hacc. destruct Hacc as [Ex Hr].
    assert (Hf : fwd_ok ((s, x) :: tl)).
    { destruct tl as [|[s2 y] t]; [destruct Htl|]. cbn [fwd_ok]. split; [exact Ex|]. split; [|exact Htl].
      eapply Hc; reflexivity. }
    destruct r as [|[s1 x1] r'].
    - subst s. cbn [rev_append]. split; [exact Hf|]. eauto.
    - destruct Hr as [Hcl Hr]. apply IH; [exact Hr|exact Hf|].
      intros s' x' r0 s2 y t E1 E2. inversion E1; inversion E2; subst. exact Hcl.
  Qed.

  Lemma rev_acc_ok s x r : acc_ok ((s, x) :: r) -> last_ok s (mpos x) ->
    fwd_ok (rev ((s, x) :: r)) /\ exists y t, rev ((s, x) :: r) = (0, y) :: t.
  Proof.
    intros Hacc Hlast. rewrite rev_alt. cbn [rev_append]. cbn [acc_ok] in Hacc. destruct Hacc as [Ex Hr].
    assert (Hf : fwd_ok [(s, x)]) by (cbn; auto).
    destruct r as [|[s1 x1] r'].
    - subst s. cbn [rev_append]. split; [exact Hf|]. eauto.
    - destruct Hr as [Hcl Hr]. apply rev_append_ok; [exact Hr|exact Hf|].
      intros s' x' r0 s2 y t E1 E2. inversion E1; inversion E2; subst. exact Hcl.
  Qed.

  Definition iv_good (x : sivl) : Prop :=
    len_ok k p x /\ minimizer_ok sq k p x /\ minimal_ok score sq p x.

  Lemma synth_ok cps : fwd_ok cps ->
    Forall iv_good (synth sq k cps) /\ chain_ok score sq k p (synth sq k cps) /\
    exists s x r y t, cps = (s, x) :: r /\ synth sq k cps = y :: t /\ s_start y = s.
  Proof.
    induction cps as [|[s x] r IH]; intro H; [destruct H|].
    cbn [fwd_ok] in H. destruct H as [Ex H].
    destruct r as [|[s2 x2] r'].
    - (* last interval *)
      destruct H as [H1 [H2 [H3 H4]]]. cbn [synth]. fold m. split; [|split].
      + constructor; [|constructor]. unfold iv_good, len_ok, minimizer_ok, minimal_ok, kmer_in, pmer_in.
        cbn [s_len s_start s_mpos s_min]. split; [lia|]. split.
        * split; [exact (mkmer_of x Ex)|]. intros i Hi. fold m in Hi. lia.
        * intros j Hj. rewrite (mkmer_of x Ex). apply H4. lia.
      + cbn [chain_ok s_len s_start]. fold m. lia.
      + exists s, x, []. eexists. eexists. split; [reflexivity|]. split; [reflexivity|]. reflexivity.
    - destruct H as [[H1 [H2 [H3 [H4 H5]]]] Hr]. specialize (IH Hr).
      destruct IH as [IHf [IHc [s' [x' [r0 [y [t [E1 [E2 E3]]]]]]]]]. injection E1 as Ea Eb Ec. subst s' x' r0.
      change (synth sq k ((s, x) :: (s2, x2) :: r')) with
        (mkS (mkmer x) (mpos x) s (s2 + k - 1 - s) :: synth sq k ((s2, x2) :: r')).
      rewrite E2 in *. split; [|split].
      + constructor; [|exact IHf]. unfold iv_good, len_ok, minimizer_ok, minimal_ok, kmer_in, pmer_in.
        cbn [s_len s_start s_mpos s_min]. split; [lia|]. split.
        * split; [exact (mkmer_of x Ex)|]. intros i Hi. lia.
        * intros j Hj. rewrite (mkmer_of x Ex). apply H4. lia.
      + cbn [chain_ok]. cbn [s_len s_start]. split; [lia|]. split; [lia|]. split; [|exact IHc].
        unfold end_ok. cbn [s_len s_start s_mpos s_min].
        replace (s + (s2 + k - 1 - s) - k + 1) with s2 by lia.
        destruct H5 as [H5|H5]; [left; exact H5|right]. rewrite (mkmer_of x Ex). exact H5.
      + exists s, x, ((s2, x2) :: r'). eexists. eexists. split; [reflexivity|]. split; [reflexivity|]. reflexivity.
  Qed.

  (* clauses (a)-(f) for the values computed before the casts *)
  Theorem scan_raw_ok : scan_ok score sq k p (scan_raw score sq k p).
  Proof.
    unfold scan_raw, min_positions.
    pose proof (Inv_fold (m - k) 0 _ Inv_init) as H. cbn [Nat.add] in H. specialize (H (Nat.le_refl _)).
    fold m. change (0 + 1) with 1 in H.
    destruct (fold_left (scan_step score sq k p) (seq 1 (m - k)) (scan_init score sq k p)) as [[mn ep] acc].
    destruct H as [_ [s [r [Eacc [Hacc [H1 [H2 [H3 H4]]]]]]]]. subst acc.
    destruct (rev_acc_ok s mn r Hacc) as [Hf [y [t Ey]]].
    { unfold last_ok. split; [lia|]. split; [lia|]. split; [lia|]. intros j Hj. apply H4. lia. }
    destruct (synth_ok _ Hf) as [F [C [s' [x' [r0 [y' [t' [E1 [E2 E3]]]]]]]]].
    unfold scan_ok. split; [|split].
    - exists y', t'. split; [exact E2|]. rewrite Ey in E1. inversion E1. lia.
    - exact F.
    - exact C.
  Qed.
  (* ---- the bounds-checked model never takes a panic branch under the guards ---- *)
  Lemma mp_c_eq j : j + p <= m -> mp_c score sq p j = Some (MP j).
  Proof. intro H. unfold mp_c. fold m. replace (j + p <=? m) with true by (symmetry; apply Nat.leb_le; exact H). reflexivity. Qed.

  Lemma incr_c_eq x : mpos x + p < m -> incr_c score sq p x = Some (INCR x).
  Proof.
    intro H. unfold incr_c, INCR, incr. rewrite (nth_error_nth' sq 0%N) by (fold m; lia). reflexivity.
  Qed.

  Lemma find_min_loop_c_eq n : forall a c, mpos c + n + p <= m ->
    find_min_loop_c score sq p n a c = Some (find_min_loop score sq p n a c).
  Proof.
    induction n as [|n IH]; intros a c H; [reflexivity|].
    cbn [find_min_loop_c find_min_loop]. rewrite incr_c_eq by lia. fold INCR. apply IH.
    change (mpos (INCR c)) with (mpos c + 1). lia.
  Qed.

  Lemma find_min_c_eq a b : a <= b -> b + p <= m -> find_min_c score sq p a b = Some (find_min score sq p a b).
  Proof.
    intros Hab Hb. unfold find_min_c, find_min. rewrite mp_c_eq by lia. fold MP.
    apply find_min_loop_c_eq. rewrite mpos_MP. lia.
  Qed.

  Lemma scan_step_c_eq i st : Inv i st -> i + 1 <= m - k ->
    scan_step_c score sq k p st (i + 1) = Some (scan_step score sq k p st (i + 1)).
  Proof.
    destruct st as [[mn ep] acc]. intros [Eep _] Hi. unfold scan_step_c, scan_step.
    rewrite incr_c_eq by (rewrite Eep, mpos_MP; lia). fold INCR.
    destruct (mpos mn <? i + 1); [|destruct (mval (INCR ep) <? mval mn)%N; reflexivity].
    rewrite find_min_c_eq by lia. reflexivity.
  Qed.

  Lemma fold_c_eq n : forall a st, Inv a st -> a + n <= m - k ->
    fold_c score sq k p (seq (a + 1) n) st = Some (fold_left (scan_step score sq k p) (seq (a + 1) n) st).
  Proof.
    induction n as [|n IH]; intros a st H Hn; [reflexivity|].
    cbn [seq fold_c fold_left]. rewrite scan_step_c_eq by (auto; lia).
    replace (S (a + 1)) with ((a + 1) + 1) by lia. apply IH; [|lia]. apply Inv_step; [exact H|lia].
  Qed.

  Lemma synth_c_eq cps : fwd_ok cps -> synth_c sq k cps = Some (synth sq k cps).
  Proof.
    induction cps as [|[s x] r IH]; intro H; [destruct H|].
    cbn [fwd_ok] in H. destruct H as [_ H]. destruct r as [|[s2 x2] r'].
    - destruct H as [H1 _]. cbn [synth_c synth]. unfold sub_usize. fold m.
      replace (s <=? m) with true by (symmetry; apply Nat.leb_le; lia). reflexivity.
    - destruct H as [[H1 _] Hr]. specialize (IH Hr).
      change (synth_c sq k ((s, x) :: (s2, x2) :: r')) with
        (match sub_usize (s2 + k - 1) s, synth_c sq k ((s2, x2) :: r') with
         | Some ln, Some t => Some (mkS (mkmer x) (mpos x) s ln :: t)
         | _, _ => None
         end).
      rewrite IH. unfold sub_usize. replace (s <=? s2 + k - 1) with true by (symmetry; apply Nat.leb_le; lia).
      reflexivity.
  Qed.

  Lemma checked_run wl :
    match find_min_c score sq p 0 (k - p), mp_c score sq p (k - p) with
    | Some min_pos, Some end_pos =>
        match fold_c score sq k p (seq 1 (m - k)) (min_pos, end_pos, [(0, min_pos)]) with
        | Some (_, _, acc) => option_map (map (cast_iv wl)) (synth_c sq k (rev acc))
        | None => None
        end
    | _, _ => None
    end = Some (map (cast_iv wl) (scan_raw score sq k p)).
  Proof.
    rewrite find_min_c_eq, mp_c_eq by lia.
    change (find_min score sq p 0 (k - p), MP (k - p), [(0, find_min score sq p 0 (k - p))])
      with (scan_init score sq k p).
    pose proof (fold_c_eq (m - k) 0 _ Inv_init) as E. cbn [Nat.add] in E. change (0 + 1) with 1 in E.
    rewrite E by lia. clear E.
    pose proof (Inv_fold (m - k) 0 _ Inv_init) as H. cbn [Nat.add] in H. specialize (H (Nat.le_refl _)).
    change (0 + 1) with 1 in H. unfold scan_raw, min_positions. fold m.
    destruct (fold_left (scan_step score sq k p) (seq 1 (m - k)) (scan_init score sq k p)) as [[mn ep] acc].
    destruct H as [_ [s [r [Eacc [Hacc [H1 [H2 [H3 H4]]]]]]]]. subst acc.
    destruct (rev_acc_ok s mn r Hacc) as [Hf _].
    { unfold last_ok. split; [lia|]. split; [lia|]. split; [lia|]. intros j Hj. apply H4. lia. }
    rewrite synth_c_eq by exact Hf. reflexivity.
  Qed.
End ScanProofs.

(* ---- consequences of the chain clauses, for ANY list of intervals (also used for the checker) ---- *)
Section ChainFacts.
  Variable score : dna -> N.
  Variable sq : dna.
  Variable k p : nat.
  Let m := length sq.
  Let d := mkS [] 0 0 0.

  Lemma chain_bounds l : chain_ok score sq k p l -> Forall (len_ok k p) l ->
    Forall (fun x => s_start x + s_len x <= m) l.
  Proof.
    induction l as [|x r IH]; intros C F; [constructor|].
    inversion F as [|? ? Fx Fr]; subst. destruct r as [|y r'].
    - cbn in C. constructor; [fold m in C; lia|constructor].
    - cbn [chain_ok] in C. destruct C as [C1 [C2 [C3 C4]]]. specialize (IH C4 Fr).
      constructor; [|exact IH]. inversion IH as [|? ? By _]; subst. inversion Fr as [|? ? Fy _]; subst.
      unfold len_ok in *. lia.
  Qed.

  Lemma chain_mono y r : chain_ok score sq k p (y :: r) -> Forall (fun z => s_start y <= s_start z) (y :: r).
  Proof.
    revert y; induction r as [|z r IH]; intros y C; [constructor; [lia|constructor]|].
    cbn [chain_ok] in C. destruct C as [C1 [C2 [C3 C4]]]. specialize (IH z C4).
    constructor; [lia|]. eapply Forall_impl; [|exact IH]. cbn. intros a Ha. lia.
  Qed.

  Lemma cover_aux l : chain_ok score sq k p l -> Forall (len_ok k p) l ->
    forall i, (exists x r, l = x :: r /\ s_start x <= i) -> i + k <= m ->
    exists j, (j < length l /\ kmer_in k (nth j l d) i) /\
              forall j', j' < length l -> kmer_in k (nth j' l d) i -> j' = j.
  Proof.
    induction l as [|x r IH]; intros C F i [x0 [r0 [E Hs]]] Hi; [discriminate|].
    injection E as <- <-. inversion F as [|? ? Fx Fr]; subst. destruct r as [|y r'].
    - cbn in C. fold m in C. exists 0. split.
      + split; [cbn; lia|]. cbn [nth]. unfold kmer_in. lia.
      + intros j' Hj' _. cbn in Hj'. lia.
    - cbn [chain_ok] in C. destruct C as [C1 [C2 [C3 C4]]]. unfold len_ok in Fx.
      destruct (le_lt_dec (s_start y) i) as [Hy|Hy].
      + destruct (IH C4 Fr i) as [j [[Hj Hin] Hu]]; [eauto|exact Hi|].
        exists (S j). split.
        * split; [cbn [length] in *; lia|exact Hin].
        * intros [|j'] Hj' Hin'.
          -- cbn [nth] in Hin'. unfold kmer_in in Hin'. lia.
          -- f_equal. apply Hu; [cbn [length] in *; lia|exact Hin'].
      + exists 0. split.
        * split; [cbn; lia|]. cbn [nth]. unfold kmer_in. lia.
        * intros [|j'] Hj' Hin'; [reflexivity|exfalso].
          pose proof (chain_mono y r' C4) as M. rewrite Forall_forall in M.
          assert (Hn : In (nth j' (y :: r') d) (y :: r')) by (apply nth_In; cbn [length] in *; lia).
          specialize (M _ Hn). change (nth (S j') (x :: y :: r') d) with (nth j' (y :: r') d) in Hin'.
          unfold kmer_in in Hin'. lia.
  Qed.

  (* (a)+(b)+(c) => every k-mer start lies in exactly one interval *)
  Theorem scan_ok_covered l : scan_ok score sq k p l -> covered_once sq k l.
  Proof.
    intros [[x [r [E S0]]] [F C]] i Hi. apply cover_aux; [exact C| |exists x, r; split; [exact E|lia]|exact Hi].
    eapply Forall_impl; [|exact F]. cbn. tauto.
  Qed.

  (* all reported numbers stay below the sequence length *)
  Lemma scan_ok_small l : 1 <= p -> p <= k -> scan_ok score sq k p l ->
    Forall (fun x => s_start x <= m /\ s_mpos x < m /\ s_len x <= 2 * k - p) l.
  Proof.
    intros Hp Hpk [_ [F C]].
    assert (F' : Forall (len_ok k p) l) by (eapply Forall_impl; [|exact F]; cbn; tauto).
    pose proof (chain_bounds l C F') as B. rewrite Forall_forall in *. intros x Hx.
    specialize (B x Hx). destruct (F x Hx) as [[L1 L2] [[_ M] _]].
    specialize (M (s_start x)). unfold kmer_in in M. lia.
  Qed.
End ChainFacts.

(* ---- the casts are the identity under the guards ---- *)
Lemma cast_small w n : (N.of_nat n < 2 ^ w)%N -> N.to_nat (cast w n) = n.
Proof. intro H. unfold cast. rewrite N.mod_small by exact H. apply Nat2N.id. Qed.

Lemma iv_nat_cast wl x : (N.of_nat (s_mpos x) < 2 ^ msp_mpos_bits)%N -> (N.of_nat (s_start x) < 2 ^ msp_start_bits)%N ->
  (N.of_nat (s_len x) < 2 ^ wl)%N -> iv_nat (cast_iv wl x) = x.
Proof.
  intros H1 H2 H3. destruct x as [mn q s l]. unfold iv_nat, cast_iv. cbn [iv_minimizer iv_mpos iv_start iv_len s_min s_mpos s_start s_len] in *.
  rewrite !cast_small by assumption. reflexivity.
Qed.

(* the length assert of scan makes positions fit the u32 fields (checked on the pinned constants) *)
Lemma pins_assert_fits : (2 ^ msp_assert_shift <= 2 ^ msp_start_bits)%N /\ (2 ^ msp_assert_shift <= 2 ^ msp_mpos_bits)%N.
Proof. split; apply N.leb_le; vm_compute; reflexivity. Qed.

(* C07, clauses (a)-(f), for the intervals as REPORTED (after the as u32 / as u16 casts) *)
Theorem scan_spec (score : dna -> N) sq k p :
  1 <= p -> p <= k -> k <= length sq -> (N.of_nat (length sq) < 2 ^ msp_assert_shift)%N -> (N.of_nat (2 * k - p) < 2 ^ msp_len_bits)%N ->
  exists ivs, scan score sq k p = Some ivs /\
              scan_ok score sq k p (map iv_nat ivs) /\ covered_once sq k (map iv_nat ivs).
Proof.
  intros Hp Hpk Hkm H32 H16. unfold scan, scan_w, scan_guard.
  replace (k <=? length sq) with true by (symmetry; apply Nat.leb_le; exact Hkm).
  replace (N.of_nat (length sq) <? 2 ^ msp_assert_shift)%N with true by (symmetry; apply N.ltb_lt; exact H32).
  replace (p <=? k) with true by (symmetry; apply Nat.leb_le; exact Hpk).
  replace (1 <=? p) with true by (symmetry; apply Nat.leb_le; exact Hp).
  cbn [andb]. eexists. split; [reflexivity|].
  pose proof (scan_raw_ok score sq k p Hp Hpk Hkm) as OK.
  assert (E : map iv_nat (map (cast_iv msp_len_bits) (scan_raw score sq k p)) = scan_raw score sq k p).
  { pose proof (scan_ok_small score sq k p _ Hp Hpk OK) as S. clear OK.
    induction S as [|x l [S1 [S2 S3]] _ IH]; [reflexivity|]. cbn [map]. rewrite IH. f_equal.
    pose proof pins_assert_fits as [PA PB]. apply iv_nat_cast; lia. }
  rewrite E. split; [exact OK|]. apply (scan_ok_covered score sq k p). exact OK.
Qed.

(* The model with every index operation and subtraction checked (the one the correspondence driver runs)
   coincides with the total model on ALL inputs: under the four guards no inner panic branch is taken, and
   outside them both panic. *)
Theorem scan_checked_eq (score : dna -> N) sq k p wl : scan_checked_w score sq k p wl = scan_w score sq k p wl.
Proof.
  unfold scan_checked_w, scan_w, scan_guard, sub_usize.
  destruct (k <=? length sq) eqn:E1; [|reflexivity]. destruct (N.of_nat (length sq) <? 2 ^ msp_assert_shift)%N; [|reflexivity].
  cbn [andb]. destruct (1 <=? p) eqn:E3; [|now rewrite andb_false_r]. destruct (p <=? k) eqn:E2; [|reflexivity].
  cbn [andb]. apply Nat.leb_le in E1, E2, E3. apply checked_run; assumption.
Qed.

Lemma scan_checked_scan (score : dna -> N) sq k p : scan_checked score sq k p = scan score sq k p.
Proof. apply scan_checked_eq. Qed.

(* C07 for the checked model: no panic and clauses (a)-(f) *)
Theorem scan_checked_spec (score : dna -> N) sq k p :
  1 <= p -> p <= k -> k <= length sq -> (N.of_nat (length sq) < 2 ^ msp_assert_shift)%N -> (N.of_nat (2 * k - p) < 2 ^ msp_len_bits)%N ->
  exists ivs, scan_checked score sq k p = Some ivs /\
              scan_ok score sq k p (map iv_nat ivs) /\ covered_once sq k (map iv_nat ivs).
Proof. rewrite scan_checked_scan. apply scan_spec. Qed.

(* the deprecated wrapper: the scan under the permutation score, keeping (bucket as u16, start, len) *)
Theorem simple_scan_spec sq k p perm rcmode :
  1 <= p -> (N.of_nat p <= msp_simple_max_p)%N -> p <= k -> k <= length sq -> (N.of_nat (length sq) < 2 ^ msp_assert_shift)%N -> (N.of_nat (2 * k - p) < 2 ^ msp_len_bits)%N ->
  exists ivs, scan (perm_score perm rcmode) sq k p = Some ivs /\
    scan_ok (perm_score perm rcmode) sq k p (map iv_nat ivs) /\
    simple_scan sq k p perm rcmode =
      Some (map (fun x => ((bucket_of (iv_minimizer x) mod 2 ^ msp_simple_bucket_bits)%N, iv_start x, iv_len x)) ivs).
Proof.
  intros Hp Hp8 Hpk Hkm H32 H16.
  destruct (scan_spec (perm_score perm rcmode) sq k p Hp Hpk Hkm H32 H16) as [ivs [E [OK _]]].
  exists ivs. split; [exact E|]. split; [exact OK|]. unfold simple_scan.
  replace (N.of_nat p <=? msp_simple_max_p)%N with true by (symmetry; apply N.leb_le; exact Hp8).
  rewrite scan_checked_scan, E. reflexivity.
Qed.

