(* C07: proofs about the scanner model (Algo/Scan.v). *)
From Coq Require Import NArith List Bool Arith Lia.
From DBG Require Import Spec.Dna Spec.ScanSpec Algo.Scan Proofs.ListFacts.
Import ListNotations.
Open Scope nat_scope.
