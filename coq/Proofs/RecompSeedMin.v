(* C09, payload clause: the seed of every result node of compress_graph is the LOWEST-numbered input node of its path.
   compress_graph's outer loop (rb_loop) visits the node ids 0, 1, ... in order and seeds a path at the first id still
   available; every node of that path was available at that moment, every smaller id had been used or censored.
   [rb_loop_struct]: rb_loop refines [compress_s] (Proofs/SeedMin.v: AbstractWalk.compress keeping left path, seed and
   right path apart), node for node, with the decomposition (lp, seed, rp) that [built] (spelling, payload fold,
   terminal extensions) is stated for.  [seed_min_s] then gives the minimality of the seed.
   With the fold order of C09_payload_fold / C09X_payload_fold (payload = fold_left reduce over left path then right
   path, starting from the SEED's payload) the first operand of the fold is the payload of the path's node with the
   smallest id - what [chk_payload_order] (Check/RecompOrder.v) assumes on implementation outputs. *)
From Coq Require Import NArith List Bool Arith Lia.
From DBG Require Import Spec.Dna Spec.GraphIndex Packed.ExtsModel Algo.Compress Algo.KmerHist Algo.GraphModel
  Algo.Recompress Check.RecompCheck Check.RecompLooseCheck Proofs.ListFacts Proofs.AbstractWalk Proofs.SeedMin
  Proofs.RecompCheckProofs Proofs.RecompressProofs Proofs.RecompLoose Proofs.RecompLooseMain.
Import ListNotations.
Open Scope N_scope.

(* ---------------------------------------------------------------- compress_s and compress *)
Section Struct.
Variable next : nat -> side -> option (nat * side).

Definition sverts (N : list (nat * side) * nat * list (nat * side)) : list nat :=
  node_verts nat (fst (fst N)) (snd (fst N)) (snd N).

(* forgetting the decomposition gives AbstractWalk.compress *)
Lemma compress_s_verts : forall order avail,
  map sverts (compress_s next order avail) = compress nat Nat.eq_dec next order avail.
Proof.
  induction order as [|v o IH]; intro avail; [reflexivity|]. cbn [compress_s compress].
  destruct (mem nat Nat.eq_dec v avail); [|apply IH].
  destruct (build nat Nat.eq_dec next avail v) as [[lp rp] a']. cbn [map]. rewrite IH. reflexivity.
Qed.
End Struct.

Section SeedMinG.
Variable D : Type.
Variable reduce : D -> D -> D.
Variable join : D -> D -> bool.
Variable K : nat.
Variable stranded : bool.
Hypothesis join_sym : forall a b, join a b = join b a.
Local Notation graph := (graph D).
Local Notation gnode := (gnode D).
Local Notation winv := (winv D K stranded).
Local Notation wnext := (wnext D join K stranded).
Local Notation survivors := (survivors D).
Local Notation restrict := (restrict D K stranded).
Local Notation rvalid := (rvalid D K stranded).
Local Notation rvalid_loose := (rvalid_loose D K stranded).
Local Notation compress_graph_paths := (compress_graph_paths D reduce join K stranded).
Local Notation compress_graph := (compress_graph D reduce join K stranded).

(* ---------------------------------------------------------------- the outer loop, struct level *)
(* [result_ok] of Proofs/RecompressProofs.v with the decomposition of each path exposed *)
Definition result_ok_s (g : graph) (S : list nat) (r : list (gnode * list (nat * dir)))
  (nodes : list (list (nat * side) * nat * list (nat * side))) : Prop :=
  Forall2 (fun x N =>
             snd x = assemble (fst (fst N)) (snd (fst N)) (snd N) /\
             built D reduce K g (fst x) (fst (fst N)) (snd (fst N)) (snd N) /\
             Linked D join K stranded g (snd x) /\ NoDup (map fst (snd x)) /\
             (forall y, In y (map fst (snd x)) -> In y S)) r nodes.

Lemma rb_loop_struct g S : winv g S -> forall ids avail,
  NoDup avail -> (forall x, In x avail -> In x S) ->
  exists r, rb_loop D reduce join K stranded g ids avail = Some r /\
            result_ok_s g S r (compress_s (wnext g S) ids avail).
Proof.
  intro W. induction ids as [|i ids IH]; intros avail Hnd Hsub; cbn [rb_loop compress_s].
  - exists []. split; auto. constructor.
  - rewrite <- mem_nat_mem. destruct (mem_nat i avail) eqn:Ei.
    + destruct (build nat Nat.eq_dec (wnext g S) avail i) as [[lp rp] a'] eqn:Eb.
      apply mem_nat_In in Ei.
      destruct (rb_build_spec D reduce join K stranded g S avail i lp rp a' W Hsub Ei Eb) as (n & Hn & Hbuilt).
      rewrite Hn.
      destruct (build_linked D join K stranded join_sym g S avail i lp rp a' W Hnd Ei Hsub Eb) as (HL & HN & HS & Hnd').
      assert (Hsub' : forall x, In x a' -> In x S).
      { intros x Hx. apply Hsub. unfold build in Eb.
        destruct (AbstractWalk.extend nat Nat.eq_dec (wnext g S) _ (remove Nat.eq_dec i avail) i L) as [lp0 a2] eqn:EL.
        destruct (AbstractWalk.extend nat Nat.eq_dec (wnext g S) _ a2 i R) as [rp0 a3'] eqn:ER.
        injection Eb as <- <- <-.
        apply (proj2 (extend_incl Nat.eq_dec _ _ _ _ _ _ _ ER)) in Hx.
        apply (proj2 (extend_incl Nat.eq_dec _ _ _ _ _ _ _ EL)) in Hx. apply in_remove in Hx. tauto. }
      destruct (IH a' Hnd' Hsub') as (r & Hr & Hok). rewrite Hr.
      eexists. split; [reflexivity|]. constructor; [|exact Hok]. cbn [fst snd].
      split; [reflexivity|]. split; [exact Hbuilt|]. auto.
    + apply IH; auto.
Qed.

(* the struct result determines the plain one: result_ok_s implies result_ok *)
Lemma result_ok_s_result_ok g S r nodes :
  result_ok_s g S r nodes -> result_ok D reduce join K stranded g S r (map sverts nodes).
Proof.
  unfold result_ok_s, result_ok. induction 1 as [|x N r nodes HxN H IH]; cbn [map]; constructor; auto.
  destruct N as [[lp seed] rp]. cbn [fst snd sverts] in *.
  destruct HxN as (Hp & Hb & HL & HN & HS). split.
  - rewrite Hp. apply assemble_verts.
  - exists lp, seed, rp. auto.
Qed.

(* ---------------------------------------------------------------- the seed is the smallest id of its path *)
Lemma result_ok_s_seed_min g S r m avail :
  NoDup avail ->
  result_ok_s g S r (compress_s (wnext g S) (seq 0 m) avail) ->
  Forall (fun x => exists lp seed rp, snd x = assemble lp seed rp /\ built D reduce K g (fst x) lp seed rp /\
                     Linked D join K stranded g (snd x) /\ NoDup (map fst (snd x)) /\
                     (forall y, In y (map fst (snd x)) -> In y S) /\
                     forall y, In y (map fst (snd x)) -> (seed <= y)%nat) r.
Proof.
  intros Hnd Hok.
  pose proof (seed_min_s (wnext g S) m 0 avail Hnd (fun y _ => Nat.le_0_l y)) as Hmin.
  unfold result_ok_s in Hok. revert Hmin.
  induction Hok as [|x N r nodes HxN H IH]; intro Hmin; constructor.
  - destruct N as [[lp seed] rp]. cbn [fst snd] in HxN. destruct HxN as (Hp & Hb & HL & HN & HS).
    exists lp, seed, rp. repeat (split; [assumption|]).
    intros y Hy. rewrite Hp, assemble_verts in Hy. apply (Hmin lp seed rp); [now left | exact Hy].
  - apply IH. intros lp i rp Hin. apply Hmin. now right.
Qed.

(* ---------------------------------------------------------------- compress_graph *)
(* what the statement says of one result node [n] with path [p] over the restricted graph [g1] *)
Definition seeded_node (g1 : graph) (n : gnode) (p : list (nat * dir)) : Prop :=
  exists lp seed rp sd0 ds, p = assemble lp seed rp /\
    option_map (n_data D) (nth_error g1 seed) = Some sd0 /\
    datas D g1 (verts nat lp ++ verts nat rp) = Some ds /\
    n_data D n = fold_left reduce ds sd0 /\
    NoDup (map fst p) /\
    forall x, In x (map fst p) -> (seed <= x)%nat.

Lemma map_fst_combine_ {A B} (l : list A) (l' : list B) : length l = length l' -> map fst (combine l l') = l.
Proof. revert l'. induction l as [|a l IH]; intros [|b l'] H; cbn in *; try discriminate; auto. f_equal. apply IH. lia. Qed.

(* from a winv restriction: the whole of compress_graph_paths, struct level *)
Lemma recompress_struct_of_winv (g g1 : graph) censor :
  restrict g (survivors g censor) = Some g1 -> winv g1 (survivors g censor) ->
  exists out r,
    compress_graph_paths g censor = Some (out, map snd r) /\
    result_ok_s g1 (survivors g censor) r
      (compress_s (wnext g1 (survivors g censor)) (seq 0 (length g)) (survivors g censor)) /\
    pruned_of D K stranded (map fst r) None out.
Proof.
  intros Hg1 W. set (S := survivors g censor) in *.
  destruct (rb_loop_struct g1 S W (seq 0 (length g)) S (survivors_nodup D g censor) (fun x H => H)) as (r & Hr & Hok).
  destruct (fix_exts_spec D K stranded (map fst r) None) as (out & Hout & Hp).
  exists out, r. split; [|split; [exact Hok | exact Hp]].
  unfold Recompress.compress_graph_paths. fold (survivors g censor). fold S.
  unfold RecompCheck.restrict in Hg1. rewrite Hg1, Hr, Hout. reflexivity.
Qed.

Theorem recompress_struct_loose (g : graph) censor :
  rvalid_loose g ->
  exists g1 out r,
    restrict g (survivors g censor) = Some g1 /\ winv g1 (survivors g censor) /\
    compress_graph_paths g censor = Some (out, map snd r) /\
    result_ok_s g1 (survivors g censor) r
      (compress_s (wnext g1 (survivors g censor)) (seq 0 (length g)) (survivors g censor)) /\
    pruned_of D K stranded (map fst r) None out.
Proof.
  intro V.
  destruct (recompress_refines_walk_loose D reduce join K stranded join_sym g censor V)
    as (g1 & _ & _ & Hg1 & W & _).
  destruct (recompress_struct_of_winv g g1 censor Hg1 W) as (out & r & Hc & Hok & Hp).
  exists g1, out, r. auto.
Qed.

(* the main theorem: fold order of C09X_payload_fold AND minimality of the seed, for the same decomposition *)
Theorem seed_is_first_loose (g : graph) censor out paths :
  rvalid_loose g -> compress_graph_paths g censor = Some (out, paths) ->
  exists g1, restrict g (survivors g censor) = Some g1 /\ Forall2 (seeded_node g1) out paths.
Proof.
  intros V H. destruct (recompress_struct_loose g censor V) as (g1 & out' & r & Hg1 & W & Hc & Hok & Hp).
  rewrite Hc in H. injection H as <- <-. exists g1. split; auto.
  pose proof (result_ok_s_seed_min g1 _ r _ _ (survivors_nodup D g censor) Hok) as HF.
  rewrite Forall_forall in HF.
  destruct Hp as (Hlen & _ & Hsp). apply Forall2_nth_intro.
  - rewrite Hlen, !map_length. reflexivity.
  - intros i n p Hn Hpi.
    destruct (nth_error r i) as [[n0 p0]|] eqn:Er.
    2:{ rewrite nth_error_map, Er in Hpi. discriminate. }
    rewrite nth_error_map, Er in Hpi. cbn in Hpi. injection Hpi as <-.
    destruct (HF (n0, p0) (nth_error_In _ _ Er)) as (lp & seed & rp & Hp0 & Hb & _ & HNd & _ & Hmin).
    cbn [fst snd] in *.
    assert (Hn0 : nth_error (map fst r) i = Some n0) by (rewrite nth_error_map, Er; reflexivity).
    destruct (Hsp i n0 Hn0) as (e & He & _ & _). rewrite Hn in He. injection He as ->.
    destruct Hb as (_ & (sd0 & ds & H1 & H2 & H3) & _).
    exists lp, seed, rp, sd0, ds. cbn [n_data fst snd]. repeat (split; [assumption|]). exact Hmin.
Qed.

Theorem seed_is_first_ (g : graph) censor out paths :
  rvalid g -> compress_graph_paths g censor = Some (out, paths) ->
  exists g1, restrict g (survivors g censor) = Some g1 /\ Forall2 (seeded_node g1) out paths.
Proof.
  intros V. apply seed_is_first_loose. apply (proj1 (rvalid_iff_loose D K stranded g) V).
Qed.

(* read on the INPUT graph: the restriction keeps payloads, so the operands of the fold are the input nodes' payloads *)
Lemma restrict_datas (g g1 : graph) S ids l :
  restrict g S = Some g1 -> datas D g1 ids = Some l -> datas D g ids = Some l.
Proof.
  intro Hr. revert l. induction ids as [|i ids IH]; intros l H; cbn [datas] in *; auto.
  destruct (nth_error g1 i) as [n1|] eqn:E1; [|discriminate].
  destruct (restrict_nth D K stranded g g1 S i n1 Hr E1) as (n & Hn & _ & Hd & _). rewrite Hn.
  destruct (datas D g1 ids) as [t|]; [|discriminate]. rewrite (IH t eq_refl). now rewrite <- Hd.
Qed.

Lemma restrict_data (g g1 : graph) S i d :
  restrict g S = Some g1 -> option_map (n_data D) (nth_error g1 i) = Some d ->
  option_map (n_data D) (nth_error g i) = Some d.
Proof.
  intros Hr H. destruct (nth_error g1 i) as [n1|] eqn:E1; [|discriminate].
  destruct (restrict_nth D K stranded g g1 S i n1 Hr E1) as (n & Hn & _ & Hd & _). rewrite Hn.
  cbn in *. now rewrite <- Hd.
Qed.

Theorem seed_is_first_input (g : graph) censor out paths :
  rvalid_loose g -> compress_graph_paths g censor = Some (out, paths) ->
  Forall2 (seeded_node g) out paths.
Proof.
  intros V H. destruct (seed_is_first_loose g censor out paths V H) as (g1 & Hg1 & HF).
  eapply Forall2_impl_; [|exact HF].
  intros n p (lp & seed & rp & sd0 & ds & Hp & H1 & H2 & H3 & H4 & H5).
  exists lp, seed, rp, sd0, ds. split; [exact Hp|]. split; [eapply restrict_data; eauto|].
  split; [eapply restrict_datas; eauto|]. auto.
Qed.
End SeedMinG.

(* ================================================================ the harness payload: what chk_payload_order decides *)
(* [rpay] = (colour, id list), rpay_reduce keeps the accumulator's colour and appends the other's ids (NOT commutative).
   [order_ok g n p] is the test of [chk_payload_order_node] (Check/RecompOrder.v) on the path [p]: with s the position of
   the smallest node id of p, ids(n) = ids(p_s) ++ ids(p_{s-1}) ++ .. ++ ids(p_0) ++ ids(p_{s+1}) ++ .. and the colour of
   n is that of p_s.  The checker runs it on the path found by [node_path]; here it is proved of the model's own path. *)
From DBG Require Import Check.RecompOrder.

Section Order.
Variable K : nat.
Variable stranded : bool.
Local Notation graph := (graph rpay).

Definition order_ok (g : graph) (n : rnode) (p : list (nat * dir)) : bool :=
  match p with
  | x0 :: r =>
      let s := min_pos r 1 (fst x0, 0%nat) in
      match nth_error p s with
      | Some xs =>
          list_eqb N.eqb (snd (n_data rpay n))
                   (ids_at g xs ++ concat (map (ids_at g) (rev (firstn s p))) ++ concat (map (ids_at g) (skipn (S s) p))) &&
          match colour_at g xs with Some c => c =? fst (n_data rpay n) | None => false end
      | None => false
      end
  | [] => false
  end.

Lemma chk_payload_order_node_eq (g : graph) (n : rnode) :
  chk_payload_order_node K stranded g n =
  match node_path rpay K stranded g (n_seq rpay n) with Some p => order_ok g n p | None => false end.
Proof.
  unfold chk_payload_order_node, order_ok.
  destruct (node_path rpay K stranded g (n_seq rpay n)) as [[|x0 r]|]; reflexivity.
Qed.

(* ---- min_pos *)
Lemma min_pos_best r : forall i bv bi, (forall x, In x (map fst r) -> (bv <= x)%nat) -> min_pos r i (bv, bi) = bi.
Proof.
  induction r as [|x r IH]; intros i bv bi H; cbn [min_pos fst snd]; [reflexivity|].
  assert (E : Nat.ltb (fst x) bv = false). { apply Nat.ltb_ge. apply H. now left. }
  rewrite E. apply IH. intros y Hy. apply H. now right.
Qed.

Lemma min_pos_found r : forall i bv bi j m d, NoDup (map fst r) ->
  nth_error r j = Some (m, d) -> (m < bv)%nat -> (forall x, In x (map fst r) -> (m <= x)%nat) ->
  min_pos r i (bv, bi) = (i + j)%nat.
Proof.
  induction r as [|x r IH]; intros i bv bi j m d Hnd Hj Hlt Hmin; [destruct j; discriminate|].
  cbn [map] in Hnd. apply NoDup_cons_iff in Hnd. destruct Hnd as [Hni Hnd]. cbn [min_pos fst snd].
  destruct j as [|j]; cbn [nth_error] in Hj.
  - injection Hj as ->. cbn [fst]. assert (E : Nat.ltb m bv = true) by now apply Nat.ltb_lt. rewrite E.
    rewrite min_pos_best; [lia|]. intros y Hy. apply Hmin. now right.
  - assert (Hin : In m (map fst r)). { pose proof (nth_error_In _ _ Hj) as Hj'. now apply (in_map fst) in Hj'. }
    assert (Hx : (m < fst x)%nat).
    { assert (m <= fst x)%nat by (apply Hmin; now left). assert (fst x <> m) by (intro E; apply Hni; now rewrite E). lia. }
    replace (i + S j)%nat with (S i + j)%nat by lia.
    destruct (Nat.ltb (fst x) bv).
    + apply (IH (S i) (fst x) i j m d Hnd Hj Hx). intros y Hy. apply Hmin. now right.
    + apply (IH (S i) bv bi j m d Hnd Hj Hlt). intros y Hy. apply Hmin. now right.
Qed.

Lemma min_pos_spec (x0 : nat * dir) r s m d : NoDup (map fst (x0 :: r)) ->
  nth_error (x0 :: r) s = Some (m, d) -> (forall x, In x (map fst (x0 :: r)) -> (m <= x)%nat) ->
  min_pos r 1 (fst x0, 0%nat) = s.
Proof.
  intros Hnd Hs Hmin. cbn [map] in Hnd. pose proof Hnd as Hnd0. apply NoDup_cons_iff in Hnd. destruct Hnd as [Hni Hnd].
  destruct s as [|j]; cbn [nth_error] in Hs.
  - injection Hs as ->. cbn [fst]. apply min_pos_best. intros y Hy. apply Hmin. now right.
  - assert (Hin : In m (map fst r)). { apply nth_error_In in Hs. now apply (in_map fst) in Hs. }
    assert (Hx : (m < fst x0)%nat).
    { assert (m <= fst x0)%nat by (apply Hmin; now left). assert (fst x0 <> m) by (intro E; apply Hni; now rewrite E). lia. }
    rewrite (min_pos_found r 1 (fst x0) 0%nat j m d Hnd Hs Hx); [lia|]. intros y Hy. apply Hmin. now right.
Qed.

(* ---- the fold of rpay_reduce *)
Lemma fold_rpay_reduce (ds : list rpay) : forall sd0,
  fold_left rpay_reduce ds sd0 = (fst sd0, snd sd0 ++ concat (map snd ds)).
Proof.
  induction ds as [|d ds IH]; intro sd0; cbn [fold_left map concat].
  - rewrite app_nil_r. now destruct sd0.
  - rewrite IH. unfold rpay_reduce. cbn [fst snd]. now rewrite <- app_assoc.
Qed.

Lemma datas_ids (g : graph) (f : nat -> nat * dir) : (forall i, fst (f i) = i) -> forall ids ds,
  datas rpay g ids = Some ds -> concat (map snd ds) = concat (map (ids_at g) (map f ids)).
Proof.
  intros Hf. induction ids as [|i ids IH]; intros ds H; cbn [datas] in H.
  - injection H as <-. reflexivity.
  - destruct (nth_error g i) as [n|] eqn:E; [|discriminate].
    destruct (datas rpay g ids) as [t|]; [|discriminate]. injection H as <-.
    assert (Ei : ids_at g (f i) = snd (n_data rpay n)) by (unfold ids_at; rewrite Hf; change (@nth_error rnode g i) with (@nth_error (gnode rpay) g i); rewrite E; reflexivity).
    cbn [map concat]. rewrite (IH t eq_refl), Ei. reflexivity.
Qed.

Lemma list_eqb_N_refl (l : list N) : list_eqb N.eqb l l = true.
Proof. induction l as [|a l IH]; cbn; auto. now rewrite N.eqb_refl. Qed.

Theorem seeded_order_ok (g : graph) (n : rnode) p :
  seeded_node rpay rpay_reduce g n p -> order_ok g n p = true.
Proof.
  intros (lp & seed & rp & sd0 & ds & Hp & Hsd & Hds & Hn & Hnd & Hmin).
  set (A := rev (map flipc (cp lp))).
  assert (HpA : p = A ++ (seed, DLeft) :: cp rp) by exact Hp.
  assert (HlA : length A = length lp).
  { unfold A, cp. now rewrite rev_length, !map_length. }
  assert (Hnth : nth_error p (length lp) = Some (seed, DLeft)).
  { rewrite HpA, <- HlA, nth_error_app2, Nat.sub_diag by lia. reflexivity. }
  destruct p as [|x0 r] eqn:Ep.
  { destruct A; discriminate. }
  unfold order_ok.
  rewrite (min_pos_spec x0 r (length lp) seed DLeft Hnd Hnth Hmin), Hnth.
  assert (Hf : firstn (length lp) (x0 :: r) = A).
  { rewrite HpA, <- HlA. rewrite firstn_app, Nat.sub_diag, firstn_all. cbn [firstn]. apply app_nil_r. }
  assert (Hs : skipn (S (length lp)) (x0 :: r) = cp rp).
  { rewrite HpA, <- HlA. replace (S (length A)) with (length (A ++ [(seed, DLeft)])) by (rewrite app_length; cbn; lia).
    change (A ++ (seed, DLeft) :: cp rp) with (A ++ [(seed, DLeft)] ++ cp rp). rewrite app_assoc.
    rewrite skipn_app, skipn_all, Nat.sub_diag. reflexivity. }
  rewrite Hf, Hs. unfold A. rewrite rev_involutive.
  rewrite datas_app in Hds.
  destruct (datas rpay g (verts nat lp)) as [dl|] eqn:Edl; [|discriminate].
  destruct (datas rpay g (verts nat rp)) as [dr|] eqn:Edr; [|discriminate]. injection Hds as <-.
  rewrite Hn, fold_rpay_reduce. cbn [n_data fst snd].
  destruct (nth_error g seed) as [sn|] eqn:Esn; [|discriminate]. cbn [option_map] in Hsd. injection Hsd as <-.
  assert (Ei : ids_at g (seed, DLeft) = snd (n_data rpay sn)).
  { unfold ids_at. cbn [fst]. change (@nth_error rnode g seed) with (@nth_error (gnode rpay) g seed). now rewrite Esn. }
  assert (Ec : colour_at g (seed, DLeft) = Some (fst (n_data rpay sn))).
  { unfold colour_at. cbn [fst]. change (@nth_error rnode g seed) with (@nth_error (gnode rpay) g seed). now rewrite Esn. }
  rewrite Ei, Ec, N.eqb_refl, andb_true_r.
  rewrite map_app, concat_app.
  rewrite (datas_ids g (fun i => (i, DRight)) (fun i => eq_refl) _ _ Edl) at 1.
  assert (E1 : map (fun i => (i, DRight)) (verts nat lp) = map (fun x => (fst x, DRight)) lp).
  { unfold verts. now rewrite map_map. }
  pose proof (datas_ids g (fun i => (i, DLeft)) (fun i => eq_refl) _ _ Edr) as E2.
  assert (Hids : forall (q q' : list (nat * dir)), map fst q = map fst q' -> map (ids_at g) q = map (ids_at g) q').
  { induction q as [|a q IH]; intros [|b q'] H; cbn in H; try discriminate; auto. injection H as H1 H2.
    cbn [map]. rewrite (IH q' H2). unfold ids_at. now rewrite H1. }
  rewrite (Hids (map flipc (cp lp)) (map (fun i => (i, DRight)) (verts nat lp))).
  2:{ unfold cp, verts. rewrite !map_map. reflexivity. }
  rewrite (Hids (cp rp) (map (fun i => (i, DLeft)) (verts nat rp))).
  2:{ unfold cp, verts. rewrite !map_map. reflexivity. }
  rewrite <- E2. apply list_eqb_N_refl.
Qed.

(* the model's output passes the test of chk_payload_order on the model's own paths *)
Theorem payload_order_model (join : rpay -> rpay -> bool) (join_sym : forall a b, join a b = join b a)
  (g : graph) censor out paths :
  rvalid_loose rpay K stranded g ->
  compress_graph_paths rpay rpay_reduce join K stranded g censor = Some (out, paths) ->
  Forall2 (fun n p => sequence_of_path rpay K g p = Some (n_seq rpay n) /\ order_ok g n p = true) out paths.
Proof.
  intros V H.
  pose proof (seed_is_first_input rpay rpay_reduce join K stranded join_sym g censor out paths V H) as HF.
  destruct (recompress_nodes_loose rpay rpay_reduce join K stranded join_sym g censor out paths V H) as (g1 & Hg1 & HN).
  assert (Hseq : g_seqs rpay g1 = g_seqs rpay g).
  { unfold RecompCheck.restrict in Hg1. destruct (fix_exts_spec rpay K stranded g (Some (survivors rpay g censor)))
      as (g' & Hg' & _ & Hs & _). congruence. }
  clear H Hg1. revert HN. induction HF as [|n p out paths Hnp HF IH]; intro HN; inversion HN; subst; constructor; auto.
  split; [|now apply seeded_order_ok].
  match goal with H : node_of_path _ _ _ _ _ _ _ _ |- _ => destruct H as (lp & seed & rp & n0 & Hp0 & (Hsq & _) & _ & _ & Hs0 & _) end.
  rewrite Hs0, <- Hp0 in *. rewrite <- Hsq. clear - Hseq.
  unfold sequence_of_path. generalize true. induction p as [|[i d] p IHp]; intro b; cbn [sequence_of_path_from]; auto.
  rewrite IHp. assert (E : option_map (n_seq rpay) (nth_error g i) = option_map (n_seq rpay) (nth_error g1 i)).
  { unfold g_seqs in Hseq. rewrite <- !nth_error_map. now rewrite Hseq. }
  destruct (nth_error g i) as [a|], (nth_error g1 i) as [a1|]; cbn in E; try discriminate; auto.
  injection E as E. unfold oriented. now rewrite E.
Qed.
End Order.
