(* C09, terminal extensions in full: the extension byte of every result node of compress_graph is EXACTLY the pair of
   (oriented) terminal extensions of the two end nodes of its path in the restricted input graph ([exts_exact], the
   Prop decided by chk.c09.exts) - the final fix_exts(None) removes nothing (it is the identity on the graph assembled
   by build_node).  Key step: an extension of an end node of a path leads (in the restricted graph) to a surviving
   node y entered through side t; (y, t) is an exterior end of the path that contains y - otherwise the sole mutual
   link that glues (y, t) to its neighbour would lead back to the end node through its exterior side - hence the
   extended k-mer is a terminal k-mer of a result node and the extension resolves in the result graph. *)
From Coq Require Import NArith List Bool Arith Lia Permutation.
From DBG Require Import Proofs.AbstractWalk.
From DBG Require Import Spec.Dna Spec.GraphIndex Packed.ExtsModel Algo.Compress Algo.GraphModel Algo.Recompress
  Spec.EdgeSpec Check.RecompCheck Proofs.ListFacts Proofs.DnaFacts Proofs.KmerAlgebra
  Proofs.ExtsProofs Proofs.RecompSweeps Proofs.ComposeSweeps
  Proofs.RecompressProofs Proofs.RecompIdem Proofs.GraphQueryProofs Proofs.WalkProofs Proofs.RecompKmers.
Import ListNotations.
Local Open Scope nat_scope.

(* ---- small facts ------------------------------------------------------------------------------------------------- *)
Lemma lor_lt256 a b : (a < 256 -> b < 256 -> N.lor a b < 256)%N.
Proof.
  intros Ha Hb. destruct (N.eq_dec a 0) as [->|Na]; [now rewrite N.lor_0_l|].
  destruct (N.eq_dec b 0) as [->|Nb]; [now rewrite N.lor_0_r|].
  change 256%N with (2 ^ 8)%N. apply N.log2_lt_pow2; [destruct (N.lor a b) eqn:E; [|lia]; apply N.lor_eq_0_l in E; congruence|].
  rewrite N.log2_lor. apply N.max_lub_lt; apply N.log2_lt_pow2; try lia; assumption.
Qed.
Lemma from_single_dirs_lt X Y : (e_from_single_dirs X Y < 256)%N.
Proof.
  unfold e_from_single_dirs. apply lor_lt256.
  - unfold u8. apply N.mod_lt. discriminate.
  - change (pin Gen.SourceConsts.exts_from_single_dirs 1) with (N.ones 4). rewrite N.land_ones.
    eapply N.lt_trans; [apply N.mod_lt; discriminate | reflexivity].
Qed.

Definition endelt (p : list (nat * dir)) (d : dir) : option (nat * dir) :=
  match p with [] => None | a :: _ => Some (match d with DLeft => a | DRight => last p a end) end.
(* the side of node (v, s) of a path that faces outwards at end d of the path *)
Definition eside (s d : dir) : dir := match s with DLeft => d | DRight => dflip d end.
Definition osq (s : dir) (x : dna) : dna := match s with DLeft => x | DRight => rc x end.

(* side t of node y is an exterior end of the path / is glued to a neighbour inside the path *)
Definition ext_side (p : list (nat * dir)) (y : nat) (t : dir) : Prop :=
  (exists q, p = (y, t) :: q) \/ (exists q, p = q ++ [(y, dflip t)]).
Definition uses (p : list (nat * dir)) (y : nat) (t : dir) : Prop :=
  exists q1 q2 u, p = q1 ++ u :: (y, t) :: q2 \/ p = q1 ++ (y, dflip t) :: u :: q2.

Lemma dflip_inj a b : dflip a = dflip b -> a = b.
Proof. destruct a, b; cbn; congruence. Qed.

Lemma uses_or_ext p y s t : In (y, s) p -> uses p y t \/ ext_side p y t.
Proof.
  intro Hin. apply in_split in Hin as (q1 & q2 & ->).
  destruct (dir_cases t s) as [->| ->].
  - destruct q1 as [|a q1] using rev_ind.
    + right. left. eexists. reflexivity.
    + left. exists q1, q2, a. left. now rewrite <- app_assoc.
  - destruct q2 as [|u q2].
    + right. right. exists q1. now rewrite dflip_dflip.
    + left. exists q1, q2, u. right. now rewrite dflip_dflip.
Qed.

Lemma NoDup_mid_unique {A B} (q1 q2 r1 r2 : list (A * B)) a b b' :
  NoDup (map fst (q1 ++ (a, b) :: q2)) -> q1 ++ (a, b) :: q2 = r1 ++ (a, b') :: r2 -> q1 = r1 /\ b = b' /\ q2 = r2.
Proof.
  revert r1. induction q1 as [|x q1 IH]; intros r1 Hnd E.
  - destruct r1 as [|y r1].
    + cbn in E. injection E as <- <-. auto.
    + exfalso. cbn in E. injection E as <- E. cbn in Hnd. inversion Hnd as [|? ? Hn _]; subst. apply Hn.
      rewrite map_app. apply in_or_app. right. now left.
  - destruct r1 as [|y r1].
    + exfalso. cbn in E. injection E as -> E. cbn in Hnd. inversion Hnd as [|? ? Hn _]; subst. apply Hn.
      rewrite map_app. apply in_or_app. right. now left.
    + cbn in E. injection E as <- E. cbn in Hnd. inversion Hnd; subst. destruct (IH r1 H2 E) as (-> & -> & ->). auto.
Qed.

Lemma uses_not_ext p y t : NoDup (map fst p) -> uses p y t -> ext_side p y t -> False.
Proof.
  intros Hnd (q1 & q2 & u & Hu) He.
  destruct Hu as [Hu|Hu], He as [[q He]|[q He]].
  - (* (y,t) has a predecessor and is first *)
    assert (E : (q1 ++ [u]) ++ (y, t) :: q2 = [] ++ (y, t) :: q) by (rewrite <- app_assoc; cbn; congruence).
    rewrite <- app_assoc in E. cbn [app] in E. rewrite <- Hu in E.
    assert (E2 : (q1 ++ [u]) ++ (y, t) :: q2 = [] ++ (y, t) :: q) by (rewrite <- app_assoc; cbn; congruence).
    apply NoDup_mid_unique in E2 as [E2 _]; [destruct q1; discriminate|]. rewrite <- app_assoc. cbn. now rewrite <- Hu.
  - (* (y,t) has a predecessor, and (y, dflip t) is last *)
    assert (E2 : (q1 ++ [u]) ++ (y, t) :: q2 = q ++ (y, dflip t) :: []) by (rewrite <- app_assoc; cbn; congruence).
    apply NoDup_mid_unique in E2 as (_ & E2 & _); [destruct t; discriminate|]. rewrite <- app_assoc. cbn. now rewrite <- Hu.
  - (* (y, dflip t) has a successor, and (y, t) is first *)
    assert (E2 : q1 ++ (y, dflip t) :: u :: q2 = [] ++ (y, t) :: q) by (cbn; congruence).
    apply NoDup_mid_unique in E2 as (_ & E2 & _); [destruct t; discriminate|]. now rewrite <- Hu.
  - assert (E2 : q1 ++ (y, dflip t) :: u :: q2 = q ++ (y, dflip t) :: []) by congruence.
    apply NoDup_mid_unique in E2 as (_ & _ & E2); [discriminate|]. now rewrite <- Hu.
Qed.

Lemma ext_side_endelt p y t : ext_side p y t ->
  exists sg sy, endelt p sg = Some (y, sy) /\ t = eside sy sg.
Proof.
  intros [[q ->]|[q ->]].
  - exists DLeft, t. split; [reflexivity | now destruct t].
  - exists DRight, (dflip t). split.
    + unfold endelt. destruct q as [|a q]; [reflexivity|]. cbn [app]. f_equal.
      change (a :: q ++ [(y, dflip t)]) with ((a :: q) ++ [(y, dflip t)]). apply last_last.
    + now destruct t.
Qed.
Lemma endelt_ext_side p d v s : endelt p d = Some (v, s) -> ext_side p v (eside s d) /\ In (v, s) p.
Proof.
  unfold endelt. destruct p as [|a q]; [discriminate|]. intro H0. destruct d.
  - injection H0 as ->. split; [left; exists q; now destruct s | now left].
  - assert (H : last (a :: q) a = (v, s)) by (injection H0 as H0; exact H0). clear H0. split.
    + right. exists (removelast (a :: q)). rewrite (app_removelast_last a (l := a :: q)) at 1 by discriminate.
      rewrite H. f_equal. f_equal. f_equal. now destruct s.
    + rewrite <- H. destruct (exists_last (l := a :: q)) as (q' & z & E); [discriminate|]. rewrite E, last_last.
      apply in_or_app. right. now left.
Qed.

Section RX.
Variable D : Type.
Variable reduce : D -> D -> D.
Variable join : D -> D -> bool.
Variable K : nat.
Variable stranded : bool.
Hypothesis join_sym : forall a b, join a b = join b a.
Local Notation graph := (graph D).
Local Notation gnode := (gnode D).
Local Notation Linked := (Linked D join K stranded).
Local Notation rnext := (rnext D join K stranded).

Lemma Linked_mid (g : graph) q1 x y q2 : Linked g (q1 ++ x :: y :: q2) -> RecompCheck.step_ok D join K stranded g x y = true.
Proof.
  induction q1 as [|a q1 IH]; intro L.
  - cbn in L. now apply (Linked_cons2 D join K stranded) in L.
  - destruct q1 as [|b q1]; cbn [app] in *; apply (Linked_cons2 D join K stranded) in L as [_ L]; now apply IH.
Qed.
Lemma step_ok_inv (g : graph) a b : RecompCheck.step_ok D join K stranded g a b = true ->
  rnext g (fst a) (dflip (snd a)) = Some b /\ rnext g (fst b) (snd b) = Some (fst a, dflip (snd a)).
Proof.
  unfold RecompCheck.step_ok. intro H. apply andb_prop in H as [H _]. apply andb_prop in H as [H1 H2].
  split; now apply (opt_nd_eqb_eq).
Qed.

(* a glued side carries a sole mutual link, and the neighbour's side is glued as well *)
Lemma uses_rnext (g : graph) p y t : Linked g p -> uses p y t ->
  exists w tw, rnext g y t = Some (w, tw) /\ rnext g w tw = Some (y, t) /\ uses p w tw.
Proof.
  intros L (q1 & q2 & [u su] & [Hp|Hp]); subst p.
  - apply Linked_mid, step_ok_inv in L. cbn [fst snd] in L. destruct L as [L1 L2].
    exists u, (dflip su). repeat split; auto. exists q1, q2, (y, t). right. now rewrite dflip_dflip.
  - apply Linked_mid, step_ok_inv in L. cbn [fst snd] in L. rewrite dflip_dflip in L. destruct L as [L1 L2].
    exists u, su. repeat split; auto. exists (q1), q2, (y, dflip t). left. reflexivity.
Qed.

(* ---- the target of an extension of a path end is an exterior end of its own path ------------------------------- *)
Lemma target_exterior (g : graph) S (paths : list (list (nat * dir))) p a da b y t f :
  winv D K stranded g S ->
  NoDup (concat (map (map fst) paths)) -> (forall q, In q paths -> Linked g q) ->
  In p paths -> ext_side p a da -> In a (map fst p) -> In a S -> In b bases4 ->
  ext_link D K stranded g a da b = Some (y, t, f) ->
  forall p' sy, In p' paths -> In (y, sy) p' -> ext_side p' y t.
Proof.
  intros W Hnd HL Hp Hext Hap HaS Hb Hlink p' sy Hp' Hy.
  destruct (uses_or_ext p' y sy t Hy) as [Hu|He]; [exfalso | exact He].
  destruct (uses_rnext g p' y t (HL p' Hp') Hu) as (w & tw & R1 & R2 & Hw).
  destruct (rnext_inv D join K stranded g _ _ _ _ R1) as (ny & b2 & f2 & m & Hny & Hnum & Hpy & Hub & Hfl & Hm & _).
  destruct (rnext_inv D join K stranded g _ _ _ _ R2) as (nw & _ & _ & _ & Hnw & _ & Hpw & _).
  assert (Hna : exists na, nth_error g a = Some na).
  { destruct (nth_error g a) eqn:E; eauto. apply nth_error_None in E. pose proof (wi_S _ _ _ _ _ W a HaS). lia. }
  destruct Hna as [na Hna].
  destruct (wi_sym _ _ _ _ _ W a da b y t f na ny HaS Hna Hny Hb Hlink) as (t' & b' & d' & f' & Hb' & Hback & Ht' & Hd').
  specialize (Ht' Hpy). subst t'.
  (* the back extension is the unique extension of y on side t *)
  assert (Hey : (n_exts D ny < 256)%N) by (apply (node_ok_nth D K g y ny (wi_ok _ _ _ _ _ W) Hny)).
  destruct (unique_ext_spec _ _ Hey Hnum) as (bu & _ & Hub' & _ & Huniq).
  assert (bu = b2) by congruence. subst bu.
  unfold ext_link in Hback. rewrite Hny in Hback.
  destruct (e_has_ext (n_exts D ny) (dirb t) b') eqn:Hh; [|discriminate].
  assert (b' = b2) by (apply Huniq; auto). subst b'.
  rewrite Hfl in Hback. injection Hback as -> -> _.
  (* so the neighbour is a, glued through its exterior side *)
  rewrite Hna in Hnw. injection Hnw as <-. specialize (Hd' Hpw). subst d'.
  assert (Hpp : p' = p).
  { destruct Hw as (q1 & q2 & u & Hw).
    assert (Haq : In a (map fst p')) by (destruct Hw as [-> | ->]; rewrite map_app; apply in_or_app; right; cbn; auto).
    clear - Hnd Hp Hp' Hap Haq. induction paths as [|q qs IH]; [destruct Hp|].
    cbn [map concat] in Hnd. apply NoDup_app_inv in Hnd as (N1 & N2 & N3).
    destruct Hp as [->|Hp], Hp' as [->|Hp']; auto.
    - exfalso. apply (N3 a Hap). apply in_concat. exists (map fst p'). split; [now apply in_map | exact Haq].
    - exfalso. apply (N3 a Haq). apply in_concat. exists (map fst p). split; [now apply in_map | exact Hap]. }
  subst p'. apply (uses_not_ext p a da); auto.
  clear - Hnd Hp. induction paths as [|q qs IH]; [destruct Hp|].
  cbn [map concat] in Hnd. apply NoDup_app_inv in Hnd as (N1 & N2 & _). destruct Hp as [->|Hp]; auto.
Qed.

(* ---- end k-mers of a spelled path -------------------------------------------------------------------------------- *)
Lemma first_kmer_hd_ s : 1 <= K -> K <= length s -> first_kmer K s = hd [] (kmers K s).
Proof. intros H1 H2. unfold kmers. destruct (length s + 1 - K) eqn:E; [lia|]. reflexivity. Qed.
Lemma last_kmer_last_ s : 1 <= K -> K <= length s -> last_kmer K s = last (kmers K s) [].
Proof.
  intros H1 H2. unfold last_kmer, kmers. replace (length s + 1 - K) with (S (length s - K)) by lia.
  rewrite seq_S, map_app. cbn [map Nat.add]. now rewrite last_last.
Qed.
Lemma kmers_ne s : 1 <= K -> K <= length s -> kmers K s <> [].
Proof. intros H1 H2. unfold kmers. destruct (length s + 1 - K) eqn:E; [lia|]. discriminate. Qed.

Lemma end_kmer (g : graph) p sq d v s : wf_graph D K g -> valid_walk D K stranded g p ->
  sequence_of_path D K g p = Some sq -> endelt p d = Some (v, s) ->
  term_kmer K sq d = osq s (term_kmer K (node_seq D g v) (eside s d)).
Proof.
  intros Wf Vw Hsq He. pose proof (proj1 Wf) as HK.
  destruct (path_spelling D K stranded g p Wf Vw) as (sq' & Hsq' & Hk). rewrite Hsq in Hsq'. injection Hsq' as <-.
  destruct p as [|x r]; [discriminate|]. unfold endelt in He.
  assert (Hid : forall z, In z (x :: r) -> fst z < length g) by apply Vw.
  assert (Hlen : K <= length sq).
  { rewrite (seq_of_path_eq D K g x r Hid) in Hsq. injection Hsq as <-. rewrite app_length.
    pose proof (proj1 (oseq_ok D K g x Wf (Hid x (or_introl eq_refl)))). lia. }
  destruct d; cbn [term_kmer].
  - injection He as ->. rewrite first_kmer_hd_, Hk by auto. unfold walk_kmers. cbn [flat_map].
    assert (Hv : v < length g) by (apply (Hid (v, s)); now left).
    destruct (oseq_ok D K g (v, s) Wf Hv) as [Lo _].
    destruct (kmers K (oseq D g (v, s))) as [|k0 ks] eqn:Ek; [exfalso; now apply (kmers_ne (oseq D g (v, s)))|].
    cbn [app hd]. change k0 with (hd [] (k0 :: ks)). rewrite <- Ek, <- first_kmer_hd_ by auto.
    change (first_kmer K (oseq D g (v, s))) with (in_kmer D K g v s). rewrite in_kmer_eq by auto. now destruct s.
  - assert (He' : last (x :: r) x = (v, s)) by (injection He as He; exact He). clear He.
    rewrite last_kmer_last_, Hk by auto.
    destruct (exists_last (l := x :: r)) as (q & z & E); [discriminate|]. rewrite E in *. rewrite last_last in He'. subst z.
    unfold walk_kmers. rewrite flat_map_app. cbn [flat_map]. rewrite app_nil_r.
    assert (Hv : v < length g) by (apply (Hid (v, s)); apply in_or_app; right; now left).
    destruct (oseq_ok D K g (v, s) Wf Hv) as [Lo _].
    destruct (exists_last (kmers_ne (oseq D g (v, s)) HK Lo)) as (ks & k0 & Ek).
    rewrite Ek, app_assoc, last_last. replace k0 with (last (kmers K (oseq D g (v, s))) []) by (rewrite Ek; apply last_last).
    rewrite <- last_kmer_last_ by auto.
    replace (last_kmer K (oseq D g (v, s))) with (out_kmer D K g v (dflip s))
      by (unfold out_kmer; now rewrite dflip_dflip).
    rewrite out_kmer_eq by auto. now destruct s.
Qed.

(* ---- the extension byte assembled by build_node = path_exts of the node path ------------------------------------ *)
Lemma last_out_rev seed s0 (lp : list (nat * side)) :
  last_out nat seed s0 lp = match rev lp with [] => (seed, s0) | (w, t) :: _ => (w, flip t) end.
Proof.
  revert seed s0. induction lp as [|[w t] lp IH]; intros seed s0; [reflexivity|]. cbn [last_out rev]. rewrite IH.
  destruct (rev lp) as [|[w' t'] r]; reflexivity.
Qed.
Lemma rb_last_dir_cp (lp : list (nat * side)) :
  rb_last_dir (cp lp) = match rev lp with [] => None | (_, t) :: _ => Some (ds t) end.
Proof. unfold rb_last_dir, cp. rewrite <- map_rev. destruct (rev lp) as [|[w t] r]; reflexivity. Qed.

Lemma hd_assemble lp seed rp :
  hd (seed, DLeft) (assemble lp seed rp) =
  (fst (last_out nat seed L lp), ds (snd (last_out nat seed L lp))).
Proof.
  unfold assemble. rewrite last_out_rev, <- map_rev. unfold cp. rewrite <- map_rev.
  destruct (rev lp) as [|[w t] r]; [reflexivity|]. cbn. now rewrite ds_flip.
Qed.
Lemma last_assemble lp seed rp d0 :
  last (assemble lp seed rp) d0 =
  (fst (last_out nat seed R rp), dflip (ds (snd (last_out nat seed R rp)))).
Proof.
  unfold assemble. rewrite last_out_rev.
  assert (E : forall l (x : nat * dir) r, last (l ++ x :: r) d0 = last (x :: r) d0).
  { induction l as [|a l IH]; intros x r; [reflexivity|]. cbn [app]. destruct (l ++ x :: r) eqn:El.
    - destruct l; discriminate. - rewrite <- El. cbn [last]. rewrite El. rewrite <- El. apply IH. }
  rewrite E. destruct rp as [|a rp] using rev_ind; [reflexivity|].
  rewrite rev_app_distr. cbn [rev app]. destruct a as [w t]. cbn [fst snd].
  unfold cp. rewrite map_app. cbn [map]. rewrite app_comm_cons, last_last. cbn [fst snd]. now rewrite ds_flip, dflip_dflip.
Qed.

Lemma built_path_exts (g : graph) S (n : gnode) lp seed rp :
  winv D K stranded g S -> (forall x, In x (map fst (assemble lp seed rp)) -> In x S) ->
  built D reduce K g n lp seed rp -> path_exts D g (assemble lp seed rp) = Some (n_exts D n).
Proof.
  intros W HinS (_ & _ & He). unfold path_exts.
  assert (Hne : assemble lp seed rp <> []) by (unfold assemble; destruct (rev (map flipc (cp lp))); discriminate).
  destruct (assemble lp seed rp) as [|a r] eqn:Ea; [congruence|].
  assert (Ha : a = hd (seed, DLeft) (assemble lp seed rp)) by now rewrite Ea.
  assert (Hz : last (a :: r) a = last (assemble lp seed rp) a) by now rewrite Ea.
  rewrite Hz, Ha, hd_assemble, last_assemble. cbn [fst snd].
  set (lo := last_out nat seed L lp) in *. set (ro := last_out nat seed R rp) in *.
  assert (Hlo : In (fst lo) S).
  { apply HinS. left. rewrite Ha, hd_assemble. reflexivity. }
  assert (Hro : In (fst ro) S).
  { apply HinS. replace (fst ro) with (fst (last (a :: r) a)) by (rewrite Hz, last_assemble; reflexivity).
    apply in_map. destruct (exists_last (l := a :: r)) as (q & z & E); [discriminate|]. rewrite E, last_last.
    apply in_or_app. right. now left. }
  assert (Hn : forall x, In x S -> exists nx, nth_error g x = Some nx).
  { intros x Hx. destruct (nth_error g x) eqn:E; eauto. apply nth_error_None in E. pose proof (wi_S _ _ _ _ _ W x Hx). lia. }
  destruct (Hn _ Hlo) as [nl Hnl]. destruct (Hn _ Hro) as [nr Hnr]. rewrite Hnl, Hnr. f_equal. rewrite He. cbv zeta.
  unfold texts. fold lo ro. rewrite Hnl, Hnr. rewrite !rb_last_dir_cp.
  unfold lo, ro. rewrite !last_out_rev.
  f_equal.
  - destruct (rev lp) as [|[w t] rl]; cbn [fst snd]; [reflexivity|]. destruct t; reflexivity.
  - destruct (rev rp) as [|[w t] rl]; cbn [fst snd]; [reflexivity|]. destruct t; reflexivity.
Qed.

(* one bit of the assembled byte = one bit of the end node it comes from *)
Lemma path_exts_bit (g : graph) p e d v s nv b :
  Forall (node_ok D K) g -> path_exts D g p = Some e -> endelt p d = Some (v, s) -> nth_error g v = Some nv ->
  In b bases4 -> e_has_ext e (dirb d) b = e_has_ext (n_exts D nv) (dirb (eside s d)) (ob s b).
Proof.
  intros Hok He Hd Hnv Hb. unfold path_exts in He. destruct p as [|a r]; [discriminate|].
  unfold endelt in Hd. remember (last (a :: r) a) as z eqn:Ez.
  destruct (nth_error g (fst a)) as [na|] eqn:Ena; [|discriminate].
  destruct (nth_error g (fst z)) as [nz|] eqn:Enz; [|discriminate]. injection He as <-.
  assert (La : (n_exts D na < 256)%N) by (apply (node_ok_nth D K g _ _ Hok Ena)).
  assert (Lz : (n_exts D nz < 256)%N) by (apply (node_ok_nth D K g _ _ Hok Enz)).
  destruct (left_right_of (n_exts D na) (snd a) b La Hb) as (B1 & _ & B3 & _).
  destruct (left_right_of (n_exts D nz) (snd z) b Lz Hb) as (_ & B2 & _ & B4).
  rewrite has_from_lr by assumption. destruct d; cbn [dirb]; injection Hd as Hd; rewrite Hd in *; cbn [fst snd] in *.
  - assert (na = nv) by congruence. subst na. rewrite B3. now destruct s.
  - assert (nz = nv) by congruence. subst nz. rewrite B4. now destruct s.
Qed.

Lemma osq_extend s x b d : x <> [] -> (b < 4)%N ->
  extend (osq s x) b d = osq s (extend x (ob s b) (eside s d)).
Proof.
  intros Hx Hb. destruct s; cbn [osq ob eside]; [reflexivity|].
  rewrite rc_extend by exact Hx. now rewrite comp_involutive, dflip_dflip.
Qed.

Lemma unstranded_of_flip (g : graph) p v seed : Linked g p -> In (seed, DLeft) p -> In (v, DRight) p -> stranded = false.
Proof.
  intros L H1 H2. destruct stranded eqn:St; [|reflexivity]. exfalso.
  pose proof (Linked_stranded D join K stranded g p) as H. rewrite St in H. specialize (H eq_refl L _ _ H1 H2). discriminate.
Qed.

(* ---- every extension of the graph assembled by build_node resolves in it ----------------------------------------- *)
Section Resolve.
Variable g1 : graph.
Variable S : list nat.
Variable r : list (gnode * list (nat * dir)).
Hypothesis W : winv D K stranded g1 S.
Hypothesis Hnd : NoDup (concat (map (map fst) (map snd r))).
Hypothesis Hcov : forall y, In y S -> exists p, In p (map snd r) /\ In y (map fst p).
Hypothesis Hr : forall x, In x r -> exists lp seed rp, snd x = assemble lp seed rp /\ built D reduce K g1 (fst x) lp seed rp /\
                  Linked g1 (snd x) /\ NoDup (map fst (snd x)) /\ (forall y, In y (map fst (snd x)) -> In y S).

Lemma r_walk x : In x r -> wf_graph D K g1 /\ valid_walk D K stranded g1 (snd x) /\
  sequence_of_path D K g1 (snd x) = Some (n_seq D (fst x)) /\ path_exts D g1 (snd x) = Some (n_exts D (fst x)) /\
  exists seed, In (seed, DLeft) (snd x).
Proof.
  intro Hx. destruct (Hr x Hx) as (lp & seed & rp & Hp & Hb & HL & Hn & HS).
  assert (Hid : forall z, In z (snd x) -> fst z < length g1).
  { intros z Hz. apply (wi_S _ _ _ _ _ W). apply HS. now apply in_map. }
  assert (Hne : g1 <> []).
  { intro E. specialize (Hid (seed, DLeft)). rewrite Hp in Hid. unfold assemble in Hid.
    specialize (Hid ltac:(apply in_or_app; right; now left)). rewrite E in Hid. cbn in Hid. lia. }
  split; [apply (winv_wf_graph D K stranded g1 S W (wi_S _ _ _ _ _ W) Hne)|].
  split; [apply (Linked_valid_walk D join K stranded g1 S); auto|].
  split; [rewrite Hp; apply Hb|]. split.
  - rewrite Hp. apply (built_path_exts g1 S); auto. rewrite <- Hp. exact HS.
  - exists seed. rewrite Hp. unfold assemble. apply in_or_app. right. now left.
Qed.

Lemma assembled_resolves i n0 d b : nth_error (map fst r) i = Some n0 -> In b bases4 ->
  e_has_ext (n_exts D n0) (dirb d) b = true -> keeps D K stranded (map fst r) None i d b = true.
Proof.
  intros Hi Hb Hh. rewrite nth_error_map in Hi. destruct (nth_error r i) as [x|] eqn:Ex; [|discriminate].
  injection Hi as <-. assert (Hx : In x r) by (eapply nth_error_In; eauto).
  destruct (r_walk x Hx) as (Wf & Vw & Hsq & Hpe & seed & Hseed). pose proof (proj1 Wf) as HK.
  destruct (Hr x Hx) as (_ & _ & _ & _ & _ & HL & Hn & HS).
  set (p := snd x) in *.
  (* the end node of the path on side d *)
  destruct (endelt p d) as [[v s]|] eqn:Ed; [|unfold endelt in Ed; destruct p; [destruct Hseed | discriminate]].
  destruct (endelt_ext_side p d v s Ed) as [Hext Hvin].
  assert (HvS : In v S) by (apply HS; apply (in_map fst) in Hvin; exact Hvin).
  assert (Hnv : exists nv, nth_error g1 v = Some nv).
  { destruct (nth_error g1 v) eqn:E; eauto. apply nth_error_None in E. pose proof (wi_S _ _ _ _ _ W v HvS). lia. }
  destruct Hnv as [nv Hnv].
  pose proof Hh as Hh0.
  rewrite (path_exts_bit g1 p _ d v s nv b (wi_ok _ _ _ _ _ W) Hpe Ed Hnv Hb) in Hh.
  set (e' := eside s d) in *. set (b0 := ob s b) in *.
  assert (Hb4 : (b < 4)%N) by now apply in_bases4_lt.
  assert (Hb0 : In b0 bases4) by (unfold b0; destruct s; cbn [ob]; [exact Hb | apply in_bases4, comp_lt4]).
  destruct (wi_res _ _ _ _ _ W v e' b0 nv Hnv Hb0 Hh) as (y & t & f & Hlink & HyS).
  (* the target is an exterior end of its path *)
  destruct (Hcov y HyS) as (p' & Hp' & Hyp'). apply in_map_iff in Hyp' as [[y0 sy0] [Ey Hyp']]. cbn in Ey. subst y0.
  assert (HLall : forall q, In q (map snd r) -> Linked g1 q).
  { intros q Hq. apply in_map_iff in Hq as [x' [<- Hx']]. destruct (Hr x' Hx') as (_ & _ & _ & _ & _ & HL' & _). exact HL'. }
  assert (Hpin : In p (map snd r)) by (now apply in_map).
  pose proof (target_exterior g1 S (map snd r) p v e' b0 y t f W Hnd HLall Hpin Hext
                (in_map fst _ _ Hvin) HvS Hb0 Hlink p' sy0 Hp' Hyp') as Hext'.
  destruct (ext_side_endelt p' y t Hext') as (sg & sy & Esg & Et).
  apply in_map_iff in Hp' as [x' [Epx' Hx']].
  destruct (r_walk x' Hx') as (_ & Vw' & Hsq' & _ & seed' & Hseed'). rewrite Epx' in *.
  destruct (Hr x' Hx') as (_ & _ & _ & _ & _ & HL' & _ & _). rewrite Epx' in HL'.
  destruct (endelt_ext_side p' sg y sy Esg) as [_ Hyin'].
  (* the two end k-mers *)
  pose proof (end_kmer g1 p _ d v s Wf Vw Hsq Ed) as Kp. fold e' in Kp.
  pose proof (end_kmer g1 p' _ sg y sy Wf Vw' Hsq' Esg) as Kp'. rewrite <- Et in Kp'.
  unfold EdgeSpec.node_seq in Kp. rewrite Hnv in Kp.
  set (x0 := term_kmer K (n_seq D nv) e') in *.
  assert (Hnok : node_ok D K nv) by (apply (node_ok_nth D K g1 v nv (wi_ok _ _ _ _ _ W) Hnv)).
  destruct Hnok as (Wnv & Lnv & _).
  destruct (term_kmer_ok K (n_seq D nv) e' Wnv (proj2 Lnv)) as [Lx0 Wx0]. fold x0 in Lx0, Wx0.
  assert (Hx0ne : x0 <> []) by (intro E; rewrite E in Lx0; cbn in Lx0; lia).
  set (kk' := extend x0 b0 e') in *.
  assert (Wkk' : wf_dna kk') by (apply extend_wf; auto; now apply in_bases4_lt).
  unfold ext_link in Hlink. rewrite Hnv, Hh in Hlink. fold x0 kk' in Hlink.
  apply find_link_some in Hlink.
  (* strandedness *)
  assert (Us : s = DRight -> stranded = false) by (intro E; rewrite E in Hvin; exact (unstranded_of_flip g1 p v seed HL Hseed Hvin)).
  assert (Usy : sy = DRight -> stranded = false) by (intro E; rewrite E in Hyin'; exact (unstranded_of_flip g1 p' y seed' HL' Hseed' Hyin')).
  (* the query in the assembled graph *)
  assert (Hgoal : (sg = dflip d /\ term_kmer K (n_seq D (fst x')) sg = osq s kk') \/
                  (stranded = false /\ sg = d /\ term_kmer K (n_seq D (fst x')) sg = rc (osq s kk'))).
  { destruct Hlink as [(Hf & Ht & _ & Hterm)|(Hf & Hst & Ht & (_ & Hterm) & _)]; rewrite Hterm in Kp'; rewrite Ht in Et;
      unfold e' in Et; destruct s, sy, d, sg; cbn in Et; try discriminate Et; cbn [osq dflip] in *;
      rewrite ?(ListFacts.rc_involutive _ Wkk') in *;
      first [ left; split; [reflexivity | exact Kp']
            | right; split; [auto|]; split; [reflexivity | exact Kp'] ]. }
  (* the query in the assembled graph *)
  destruct (In_nth_error _ _ Hx') as [j Hj].
  assert (Hjn : nth_error (map fst r) j = Some (fst x')) by (now rewrite nth_error_map, Hj).
  assert (Hjl : j < length (map fst r)) by (apply nth_error_Some; congruence).
  unfold keeps, ext_link. rewrite nth_error_map, Ex. cbn [option_map]. rewrite Hh0.
  rewrite Kp, (osq_extend s x0 b d Hx0ne Hb4). fold e' b0 kk'.
  destruct (find_link D K stranded (map fst r) (osq s kk') d) as [[[tt0 ts0] tf0]|] eqn:Efl; [reflexivity|]. exfalso.
  apply find_link_none_iff in Efl as [N1 N2].
  destruct Hgoal as [[Hsg Hk]|(Hst & Hsg & Hk)].
  - apply (N1 j). split; [exact Hjl|]. unfold EdgeSpec.node_seq. rewrite Hjn, <- Hsg. exact Hk.
  - apply (N2 Hst j). split; [exact Hjl|]. unfold EdgeSpec.node_seq. rewrite Hjn, <- Hsg. exact Hk.
Qed.
End Resolve.

(* ---- the final fix_exts(None) is the identity; terminal extensions are exact -------------------------------------- *)
Lemma result_ok_elem (g1 : graph) S r nodes x :
  result_ok D reduce join K stranded g1 S r nodes -> In x r ->
  exists lp seed rp, snd x = assemble lp seed rp /\ built D reduce K g1 (fst x) lp seed rp /\
    Linked g1 (snd x) /\ NoDup (map fst (snd x)) /\ (forall y, In y (map fst (snd x)) -> In y S).
Proof.
  intros Hok Hx. destruct (In_nth_error _ _ Hx) as [i Hi].
  destruct (Forall2_nth_elim _ _ _ _ _ Hok Hi) as (N & _ & _ & H). exact H.
Qed.

Theorem recompress_assembled (g : graph) censor out paths :
  rvalid D K stranded g -> compress_graph_paths D reduce join K stranded g censor = Some (out, paths) ->
  exists g1 r, restrict D K stranded g (survivors D g censor) = Some g1 /\ winv D K stranded g1 (survivors D g censor) /\
    out = map fst r /\ paths = map snd r /\
    (forall x, In x r -> sequence_of_path D K g1 (snd x) = Some (n_seq D (fst x)) /\
                         path_exts D g1 (snd x) = Some (n_exts D (fst x))).
Proof.
  intros V H.
  destruct (recompress_refines_walk_ D reduce join K stranded join_sym g censor V) as (g1 & out' & r & Hg1 & W & Hc & Hok & Hp).
  rewrite Hc in H. injection H as <- <-.
  destruct (recompress_partition D reduce join K stranded join_sym g censor out' (map snd r) V Hc) as (_ & Hnd & Hin).
  set (S := survivors D g censor) in *.
  assert (Hcov : forall y, In y S -> exists p, In p (map snd r) /\ In y (map fst p)).
  { intros y Hy. apply (survivors_spec D) in Hy. apply Hin in Hy. apply in_concat in Hy as (l & Hl & Hyl).
    apply in_map_iff in Hl as (p & <- & Hp'). eauto. }
  pose proof (fun x => result_ok_elem g1 S r _ x Hok) as Hr.
  exists g1, r. split; [exact Hg1|]. split; [exact W|]. split; [|split; [reflexivity|]].
  - eapply (pruned_id D K stranded); [| |exact Hp].
    + intros i n Hn. rewrite nth_error_map in Hn. destruct (nth_error r i) as [x|] eqn:Ex; [|discriminate]. injection Hn as <-.
      destruct (Hr x (nth_error_In _ _ Ex)) as (lp & seed & rp & _ & (_ & _ & He) & _). rewrite He. apply from_single_dirs_lt.
    + intros i n d b Hn Hb Hh. apply (assembled_resolves g1 S r W Hnd Hcov Hr i n d b Hn Hb Hh).
  - intros x Hx. destruct (r_walk g1 S r W Hr x Hx) as (_ & _ & Hsq & Hpe & _). auto.
Qed.

Theorem recompress_exts_exact (g : graph) censor out paths :
  rvalid D K stranded g -> compress_graph_paths D reduce join K stranded g censor = Some (out, paths) ->
  exts_exact D K stranded g censor out.
Proof.
  intros V H. destruct (recompress_assembled g censor out paths V H) as (g1 & r & Hg1 & _ & -> & _ & Hx).
  exists g1. split; [exact Hg1|]. apply Forall_forall. intros n Hn. apply in_map_iff in Hn as (x & <- & Hxr).
  exists (snd x). apply Hx, Hxr.
Qed.

(* per node: the extension byte is that of its path (the terminal extensions of the two end nodes, complemented when
   the end node is traversed flipped) *)
Theorem recompress_node_exts (g : graph) censor out paths :
  rvalid D K stranded g -> compress_graph_paths D reduce join K stranded g censor = Some (out, paths) ->
  exists g1, restrict D K stranded g (survivors D g censor) = Some g1 /\
    Forall2 (fun n p => sequence_of_path D K g1 p = Some (n_seq D n) /\ path_exts D g1 p = Some (n_exts D n)) out paths.
Proof.
  intros V H. destruct (recompress_assembled g censor out paths V H) as (g1 & r & Hg1 & _ & -> & -> & Hx).
  exists g1. split; [exact Hg1|]. clear - Hx. induction r as [|x r IH]; [constructor|]. cbn [map]. constructor.
  - apply Hx. now left.
  - apply IH. intros y Hy. apply Hx. now right.
Qed.

(* the final fix_exts(None) of compress_graph returns the graph assembled by build_node unchanged *)
Theorem final_fix_exts_identity (g : graph) censor g1 r :
  rvalid D K stranded g ->
  fix_exts D K stranded g (Some (initial_avail (length g) censor)) = Some g1 ->
  rb_loop D reduce join K stranded g1 (seq 0 (length g)) (initial_avail (length g) censor) = Some r ->
  fix_exts D K stranded (map fst r) None = Some (map fst r).
Proof.
  intros V Hg1 Hr. set (S := survivors D g censor).
  change (initial_avail (length g) censor) with S in *.
  assert (HS : forall x, In x S -> x < length g) by (intros x Hx; apply (survivors_spec D) in Hx; tauto).
  pose proof (restrict_winv D K stranded g g1 S V HS Hg1) as W.
  destruct (rb_loop_spec D reduce join K stranded join_sym g1 S W (seq 0 (length g)) S (survivors_nodup D g censor) (fun x H => H))
    as (r' & Hr' & Hok).
  assert (r' = r) by congruence. subst r'.
  destruct (fix_exts_spec D K stranded (map fst r) None) as (out & Hout & Hp).
  assert (Hc : compress_graph_paths D reduce join K stranded g censor = Some (out, map snd r)).
  { unfold compress_graph_paths. fold (survivors D g censor). fold S. rewrite Hg1, Hr, Hout. reflexivity. }
  destruct (recompress_partition D reduce join K stranded join_sym g censor out (map snd r) V Hc) as (_ & Hnd & Hin).
  assert (Hcov : forall y, In y S -> exists p, In p (map snd r) /\ In y (map fst p)).
  { intros y Hy. apply (survivors_spec D) in Hy. apply Hin in Hy. apply in_concat in Hy as (l & Hl & Hyl).
    apply in_map_iff in Hl as (p & <- & Hp'). eauto. }
  pose proof (fun x => result_ok_elem g1 S r _ x Hok) as Hrr.
  rewrite Hout. f_equal. eapply (pruned_id D K stranded); [| |exact Hp].
  - intros i n Hn. rewrite nth_error_map in Hn. destruct (nth_error r i) as [x|] eqn:Ex; [|discriminate]. injection Hn as <-.
    destruct (Hrr x (nth_error_In _ _ Ex)) as (lp & seed & rp & _ & (_ & _ & He) & _). rewrite He. apply from_single_dirs_lt.
  - intros i n d b Hn Hb Hh. apply (assembled_resolves g1 S r W Hnd Hcov Hrr i n d b Hn Hb Hh).
Qed.
End RX.
