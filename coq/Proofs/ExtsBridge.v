(* The two executable models of `Exts` (lib.rs) - Packed/ExtsMini.v (the few operations filter.rs and KmerExtsIter use;
   properties C04-C06) and Packed/ExtsModel.v (the full model; properties C12, C01-C03, C09) - compute the same function on
   every extension byte.  Finite sweeps over all 256 bytes (65 536 pairs for the binary operations), lifted with
   forallb_forall: a proof, the domain being finite by the type (u8). *)
From Coq Require Import NArith List Bool Arith Lia.
From DBG Require Import Packed.ExtsMini Packed.ExtsModel.
Import ListNotations.
Open Scope N_scope.

Definition bytes256 : list N := map N.of_nat (seq 0 256).
Lemma in_bytes256 x : x < 256 -> In x bytes256.
Proof.
  intro H. unfold bytes256. apply in_map_iff. exists (N.to_nat x). split; [apply N2Nat.id|].
  apply in_seq. lia.
Qed.
Definition bases4 : list N := [0; 1; 2; 3].
Lemma in_bases4 b : b < 4 -> In b bases4.
Proof. intro H. assert (b = 0 \/ b = 1 \/ b = 2 \/ b = 3) as [->|[->|[->| ->]]] by lia; cbn; auto. Qed.

Definition sweep_unary : bool :=
  forallb (fun x => (ex_rc x =? e_rc x) && (ex_complement x =? e_complement x) && (ex_reverse x =? e_reverse x) &&
                    forallb (fun d => (ex_dir_bits x d =? e_dir_bits x d) &&
                                      forallb (fun b => Bool.eqb (ex_has x d b) (e_has_ext x d b) &&
                                                        match e_set x d b with Some y => ex_set x d b =? y | None => false end) bases4 &&
                                      (if list_eq_dec N.eq_dec (ex_bases x d) (e_get x d) then true else false))
                            [false; true]) bytes256.
Lemma sweep_unary_ok : sweep_unary = true.
Proof. vm_compute. reflexivity. Qed.

Definition sweep_binary : bool :=
  forallb (fun x => forallb (fun y => (ex_merge x y =? e_merge x y) && (ex_add x y =? e_add x y)) bytes256) bytes256.
Lemma sweep_binary_ok : sweep_binary = true.
Proof. vm_compute. reflexivity. Qed.

Theorem exts_models_agree_unary : forall x, x < 256 ->
  ex_rc x = e_rc x /\ ex_complement x = e_complement x /\ ex_reverse x = e_reverse x /\
  forall d, ex_dir_bits x d = e_dir_bits x d /\ ex_bases x d = e_get x d /\
    forall b, b < 4 -> ex_has x d b = e_has_ext x d b /\ e_set x d b = Some (ex_set x d b).
Proof.
  intros x Hx. pose proof sweep_unary_ok as S. unfold sweep_unary in S. rewrite forallb_forall in S.
  specialize (S x (in_bytes256 x Hx)).
  apply andb_true_iff in S. destruct S as [S Sd]. apply andb_true_iff in S. destruct S as [S S3].
  apply andb_true_iff in S. destruct S as [S1 S2].
  apply N.eqb_eq in S1, S2, S3. split; [exact S1|]. split; [exact S2|]. split; [exact S3|].
  intro d. rewrite forallb_forall in Sd.
  assert (Hd : In d [false; true]) by (destruct d; cbn; auto).
  specialize (Sd d Hd). apply andb_true_iff in Sd. destruct Sd as [Sd Sg]. apply andb_true_iff in Sd. destruct Sd as [Sb Sh].
  apply N.eqb_eq in Sb. split; [exact Sb|]. split.
  - destruct (list_eq_dec N.eq_dec (ex_bases x d) (e_get x d)) as [E|E]; [exact E | discriminate].
  - intros b Hb. rewrite forallb_forall in Sh. specialize (Sh b (in_bases4 b Hb)).
    apply andb_true_iff in Sh. destruct Sh as [Sh1 Sh2]. apply Bool.eqb_prop in Sh1. split; [exact Sh1|].
    destruct (e_set x d b) as [y|]; [|discriminate]. apply N.eqb_eq in Sh2. rewrite Sh2. reflexivity.
Qed.

Theorem exts_models_agree_binary : forall x y, x < 256 -> y < 256 ->
  ex_merge x y = e_merge x y /\ ex_add x y = e_add x y.
Proof.
  intros x y Hx Hy. pose proof sweep_binary_ok as S. unfold sweep_binary in S. rewrite forallb_forall in S.
  specialize (S x (in_bytes256 x Hx)). rewrite forallb_forall in S. specialize (S y (in_bytes256 y Hy)).
  apply andb_true_iff in S. destruct S as [S1 S2]. apply N.eqb_eq in S1, S2. split; assumption.
Qed.

Theorem exts_models_agree_mk : forall b, b < 4 ->
  e_mk_left b = Some (ex_mk_left b) /\ e_mk_right b = Some (ex_mk_right b).
Proof.
  intros b Hb. assert (b = 0 \/ b = 1 \/ b = 2 \/ b = 3) as [->|[->|[->| ->]]] by lia; vm_compute; auto.
Qed.
