(* Generic uniqueness of a maximal unbranched path (for C02 decomposition_unique).
   O = oriented occurrences of vertices (a vertex entered through one of its two sides), [nxt] = the deterministic,
   injective step between occurrences, [rv] = the same vertex traversed the other way round.  Two [nxt]-chains without
   repeated vertex that cover the same vertex set are equal, or reverse to each other, or - when the chain closes into
   a cycle - rotations of one of these. *)
From Coq Require Import List Arith Lia Permutation.
Import ListNotations.

Section ChainUnique.
Variables O V : Type.
Variable nxt : O -> option O.
Variable rv : O -> O.
Variable vtx : O -> V.
Hypothesis rv_inv : forall a, rv (rv a) = a.
Hypothesis rv_ne : forall a, rv a <> a.
Hypothesis vtx_rv : forall a, vtx (rv a) = vtx a.
Hypothesis vtx_cases : forall a b, vtx a = vtx b -> b = a \/ b = rv a.
Hypothesis nxt_inj : forall a b c, nxt a = Some c -> nxt b = Some c -> a = b.
Hypothesis nxt_rv : forall a b, nxt a = Some b -> nxt (rv b) = Some (rv a).

Fixpoint ochain (l : list O) : Prop :=
  match l with
  | a :: r => match r with b :: _ => nxt a = Some b | [] => True end /\ ochain r
  | [] => True
  end.
Definition rot {A} (r : nat) (l : list A) : list A := skipn r l ++ firstn r l.

Lemma ochain_app_r l r : ochain (l ++ r) -> ochain r.
Proof. induction l as [|a l IH]; [auto|]. cbn [app]. intros [_ H]. auto. Qed.
Lemma ochain_app_l l r : ochain (l ++ r) -> ochain l.
Proof.
  induction l as [|a l IH]; [cbn; auto|]. cbn [app]. intros [H1 H2]. split; [|auto].
  destruct l as [|b l]; [exact I | exact H1].
Qed.
Lemma ochain_mid l x y r : ochain (l ++ x :: y :: r) -> nxt x = Some y.
Proof. intro H. apply ochain_app_r in H. exact (proj1 H). Qed.
Lemma ochain_snoc l x y : ochain (l ++ [x]) -> nxt x = Some y -> ochain (l ++ [x; y]).
Proof.
  induction l as [|a l IH]; intros H Hn.
  - cbn. auto.
  - cbn [app] in *. destruct H as [H1 H2]. split; [|auto]. destruct l as [|b l]; cbn [app] in *; exact H1.
Qed.
Lemma ochain_rev l : ochain l -> ochain (rev (map rv l)).
Proof.
  induction l as [|a l IH]; [auto|]. intros [H1 H2]. cbn [map rev]. specialize (IH H2).
  destruct l as [|b l]; [cbn; auto|]. cbn [map rev] in *.
  rewrite <- app_assoc. cbn [app]. apply ochain_snoc; [exact IH | now apply nxt_rv].
Qed.

Lemma ochain_glue l a r : ochain (l ++ [a]) -> ochain (a :: r) -> ochain (l ++ a :: r).
Proof.
  induction l as [|x l IH]; intros H1 H2; [exact H2|]. cbn [app] in *. destruct H1 as [H1 H3]. split; [|auto].
  destruct l as [|y l]; cbn [app] in *; exact H1.
Qed.

(* determinism *)
Lemma ochain_det a l : forall l', ochain (a :: l) -> ochain (a :: l') -> length l <= length l' -> exists c, l' = l ++ c.
Proof.
  revert a. induction l as [|b l IH]; intros a l' H H' L; [exists l'; reflexivity|].
  destruct l' as [|b' l']; [cbn in L; lia|]. destruct H as [H1 H2]. destruct H' as [H1' H2'].
  assert (b' = b) by congruence. subst b'. cbn [length] in L.
  destruct (IH b l' H2 H2' ltac:(lia)) as [c ->]. exists c. reflexivity.
Qed.

Lemma NoDup_map_eq {A B} (f : A -> B) l a b : NoDup (map f l) -> In a l -> In b l -> f a = f b -> a = b.
Proof.
  induction l as [|x l IH]; intros Hnd Ha Hb E; [destruct Ha|]. cbn in Hnd. inversion Hnd as [|? ? Hn Hd]; subst.
  destruct Ha as [->|Ha], Hb as [->|Hb]; auto.
  - exfalso. apply Hn. rewrite E. now apply in_map.
  - exfalso. apply Hn. rewrite <- E. now apply in_map.
Qed.
Lemma NoDup_map_NoDup {A B} (f : A -> B) l : NoDup (map f l) -> NoDup l.
Proof.
  induction l as [|x l IH]; intro H; [constructor|]. cbn in H. inversion H; subst. constructor; auto.
  intro Hx. apply H2. now apply in_map.
Qed.
Lemma last_in {A} (l : list A) d : l <> [] -> In (last l d) l.
Proof. intro H. destruct (exists_last H) as (q & z & ->). rewrite last_last. apply in_or_app. right. now left. Qed.
Lemma last_app_ne {A} (l r : list A) d : r <> [] -> last (l ++ r) d = last r d.
Proof.
  intro H. destruct (exists_last H) as (q & z & ->). rewrite app_assoc, !last_last. reflexivity.
Qed.

Section Aligned.
Variables P P' : list O.
Hypothesis HcP : ochain P.
Hypothesis HcP' : ochain P'.
Hypothesis HndP : NoDup (map vtx P).
Hypothesis HndP' : NoDup (map vtx P').
Hypothesis Hsame : forall v, In v (map vtx P) <-> In v (map vtx P').

Lemma same_length : length P' = length P.
Proof.
  rewrite <- (map_length vtx P'), <- (map_length vtx P). apply Permutation_length, NoDup_Permutation; auto.
  intro v. symmetry. apply Hsame.
Qed.

Lemma aligned A a B B' d : P = A ++ a :: B -> P' = a :: B' ->
  (A = [] /\ P' = P) \/ (nxt (last P d) = Some (hd d P) /\ P' = (a :: B) ++ A).
Proof.
  intros EP EP'. pose proof same_length as HL. rewrite EP, EP', app_length in HL. cbn [length] in HL.
  assert (HcB : ochain (a :: B)) by (rewrite EP in HcP; now apply ochain_app_r in HcP).
  assert (HcB' : ochain (a :: B')) by now rewrite <- EP'.
  destruct (ochain_det a B B' HcB HcB' ltac:(lia)) as [c Ec]. subst B'. rewrite app_length in HL.
  destruct A as [|a1 A'].
  - left. split; [reflexivity|]. destruct c; [|cbn in HL; lia]. rewrite app_nil_r in EP'. cbn in EP. congruence.
  - right. destruct c as [|z c']; [cbn in HL; lia|]. cbn [length] in HL.
    assert (Hlast : last P d = last (a :: B) d) by (rewrite EP; apply last_app_ne; discriminate).
    assert (Hz : nxt (last (a :: B) d) = Some z).
    { destruct (exists_last (l := a :: B)) as (q & y & Eq); [discriminate|]. rewrite Eq, last_last.
      rewrite EP' in HcP'. change (a :: B ++ z :: c') with ((a :: B) ++ z :: c') in HcP'. rewrite Eq, <- app_assoc in HcP'.
      cbn [app] in HcP'. now apply ochain_mid in HcP'. }
    (* the vertex of z occurs in P, before a *)
    assert (HzP' : In z P') by (rewrite EP'; right; apply in_or_app; right; now left).
    assert (Hvz : In (vtx z) (map vtx P)) by (apply Hsame; now apply in_map).
    apply in_map_iff in Hvz as (o & Evo & HoP).
    assert (HoA : In o (a1 :: A')).
    { rewrite EP in HoP. apply in_app_or in HoP as [H|H]; [exact H|]. exfalso.
      pose proof HndP' as Hn. rewrite EP' in Hn. change (a :: B ++ z :: c') with ((a :: B) ++ z :: c') in Hn.
      rewrite map_app in Hn. cbn [map] in Hn. apply NoDup_remove_2 in Hn. apply Hn. apply in_or_app. left.
      rewrite <- Evo. apply (in_map vtx) in H. exact H. }
    destruct (vtx_cases o z Evo) as [Ez|Ez].
    + (* z = o: it has no predecessor in P, so it is the head *)
      subst z. assert (Ehd : o = a1).
      { destruct HoA as [E|HoA']; [now symmetry|]. exfalso.
        apply in_split in HoA' as (X & Y & EA).
        assert (Hpred : exists q X', a1 :: X = X' ++ [q]) by
          (destruct (exists_last (l := a1 :: X)) as (X' & q & E); [discriminate | eauto]).
        destruct Hpred as (q & X' & EX).
        assert (EP2 : P = X' ++ q :: o :: (Y ++ a :: B)).
        { rewrite EP, EA. change ((a1 :: X ++ o :: Y) ++ a :: B) with (((a1 :: X) ++ o :: Y) ++ a :: B).
          rewrite EX, <- !app_assoc. reflexivity. }
        assert (Hq : nxt q = Some o) by (rewrite EP2 in HcP; now apply ochain_mid in HcP).
        assert (Eq : q = last P d) by (apply (nxt_inj _ _ o); [exact Hq | now rewrite Hlast]).
        pose proof (NoDup_map_NoDup vtx P HndP) as HndPP. rewrite EP2 in HndPP. apply NoDup_remove_2 in HndPP.
        apply HndPP. apply in_or_app. right. rewrite Eq, EP2. rewrite last_app_ne by discriminate.
        change (q :: o :: Y ++ a :: B) with ([q] ++ o :: Y ++ a :: B). rewrite last_app_ne by discriminate.
        apply last_in. discriminate. }
      subst o. split; [rewrite Hlast, EP; exact Hz|].
      (* the rest of P' follows P from its head *)
      assert (Hc1 : ochain (a1 :: c')).
      { rewrite EP' in HcP'. change (a :: B ++ a1 :: c') with ((a :: B) ++ a1 :: c') in HcP'. now apply ochain_app_r in HcP'. }
      assert (Hc2 : ochain (a1 :: A' ++ a :: B)) by (rewrite EP in HcP; exact HcP).
      destruct (ochain_det a1 c' (A' ++ a :: B) Hc1 Hc2) as [c2 Ec2]; [rewrite app_length; cbn; cbn in HL; lia|].
      assert (c' = A').
      { assert (Hl : length c' = length A') by (cbn in HL; lia).
        apply (f_equal (firstn (length A'))) in Ec2. rewrite firstn_app, Nat.sub_diag, firstn_all in Ec2. cbn [firstn] in Ec2.
        rewrite app_nil_r in Ec2. rewrite <- Hl, firstn_app, Nat.sub_diag, firstn_all in Ec2. cbn [firstn] in Ec2.
        now rewrite app_nil_r in Ec2. }
      subst c'. rewrite EP'. reflexivity.
    + (* z = rv o: impossible *)
      exfalso. subst z. rewrite <- Hlast in Hz. apply nxt_rv in Hz. rewrite rv_inv in Hz.
      (* o is in A, so it has a successor in P *)
      apply in_split in HoA as (X & Y & EA).
      assert (Hsucc : exists o1 Y', Y ++ a :: B = o1 :: Y') by (destruct Y; cbn; eauto).
      destruct Hsucc as (o1 & Y' & EY).
      assert (EP2 : P = X ++ o :: o1 :: Y') by (rewrite EP, EA, <- app_assoc; cbn [app]; now rewrite EY).
      assert (Ho1 : nxt o = Some o1) by (rewrite EP2 in HcP; now apply ochain_mid in HcP).
      assert (E1 : o1 = rv (last P d)) by congruence.
      assert (Ho1P : In o1 P) by (rewrite EP2; apply in_or_app; right; right; now left).
      assert (HlP : In (last P d) P) by (apply last_in; rewrite EP; destruct (a1 :: A'); discriminate).
      assert (E2 : o1 = last P d) by (apply (NoDup_map_eq vtx P); auto; rewrite E1; apply vtx_rv).
      rewrite E2 in E1. symmetry in E1. now apply rv_ne in E1.
Qed.
End Aligned.

Theorem ochain_unique P P' d : P <> [] -> ochain P -> ochain P' ->
  NoDup (map vtx P) -> NoDup (map vtx P') -> (forall v, In v (map vtx P) <-> In v (map vtx P')) ->
  P' = P \/ P' = rev (map rv P) \/
  (nxt (last P d) = Some (hd d P) /\ exists r, P' = rot r P \/ P' = rot r (rev (map rv P))).
Proof.
  intros Hne Hc Hc' Hnd Hnd' Hsame.
  destruct P' as [|a' B'].
  { exfalso. destruct P as [|x P]; [congruence|]. specialize (Hsame (vtx x)). cbn in Hsame. tauto. }
  assert (Ha' : In (vtx a') (map vtx P)) by (apply Hsame; now left).
  apply in_map_iff in Ha' as (o & Evo & HoP).
  destruct (vtx_cases o a' Evo) as [->| ->].
  - apply in_split in HoP as (A & B & EP).
    destruct (aligned P (o :: B') Hc Hc' Hnd Hnd' Hsame A o B B' d EP eq_refl) as [[_ E]|[Hcyc E]]; [now left|].
    right. right. split; [exact Hcyc|]. exists (length A). left. unfold rot. rewrite E, EP.
    rewrite skipn_app, Nat.sub_diag, skipn_all, firstn_app, Nat.sub_diag, firstn_all. cbn. now rewrite app_nil_r.
  - set (Q := rev (map rv P)).
    assert (HcQ : ochain Q) by now apply ochain_rev.
    assert (EvQ : map vtx Q = rev (map vtx P)).
    { unfold Q. rewrite map_rev, map_map. f_equal. apply map_ext. intro x. apply vtx_rv. }
    assert (HndQ : NoDup (map vtx Q)) by (rewrite EvQ; now apply NoDup_rev).
    assert (HsameQ : forall v, In v (map vtx Q) <-> In v (map vtx (rv o :: B'))).
    { intro v. rewrite EvQ, <- in_rev. apply Hsame. }
    assert (HoQ : In (rv o) Q) by (unfold Q; rewrite <- in_rev; now apply in_map).
    apply in_split in HoQ as (A & B & EQ).
    destruct (aligned Q (rv o :: B') HcQ Hc' HndQ Hnd' HsameQ A (rv o) B B' (rv d) EQ eq_refl) as [[_ E]|[Hcyc E]].
    + right. left. exact E.
    + right. right. split.
      * (* the cycle condition, transported back *)
        assert (ElQ : last Q (rv d) = rv (hd d P)).
        { unfold Q. destruct P as [|x P0]; [congruence|]. cbn [map rev hd]. apply last_last. }
        assert (EhQ : hd (rv d) Q = rv (last P d)).
        { unfold Q. destruct (exists_last Hne) as (q & y & ->). rewrite map_app, rev_app_distr, last_last. reflexivity. }
        rewrite ElQ, EhQ in Hcyc. apply nxt_rv in Hcyc. now rewrite !rv_inv in Hcyc.
      * exists (length A). right. unfold rot. fold Q. rewrite E, EQ.
        rewrite skipn_app, Nat.sub_diag, skipn_all, firstn_app, Nat.sub_diag, firstn_all. cbn. now rewrite app_nil_r.
Qed.
End ChainUnique.

(* chains under a map / under a pointwise equal step function *)
Lemma ochain_map {O1 O2} (n1 : O1 -> option O1) (n2 : O2 -> option O2) (f : O1 -> O2) l :
  (forall a b, In a l -> n1 a = Some b -> n2 (f a) = Some (f b)) -> ochain O1 n1 l -> ochain O2 n2 (map f l).
Proof.
  induction l as [|a l IH]; intros Hf H; [exact I|]. destruct H as [H1 H2]. cbn [map]. split.
  - destruct l as [|b l]; [exact I|]. cbn [map]. apply Hf; [now left | exact H1].
  - apply IH; [|exact H2]. intros x y Hx. apply Hf. now right.
Qed.
Lemma ochain_ext {O} (n1 n2 : O -> option O) l : (forall a, n1 a = n2 a) -> ochain O n1 l -> ochain O n2 l.
Proof.
  intro E. induction l as [|a l IH]; [auto|]. intros [H1 H2]. split; [|auto]. destruct l; [exact I|]. now rewrite <- E.
Qed.
