(* Soundness of the path-form C02 checker (Check/UnitigCheck.v) run on the implementation's nodes. *)
From Coq Require Import NArith List Bool Arith Lia Permutation Relations.
From DBG Require Import Proofs.AbstractWalk.
From DBG Require Import Spec.Dna Spec.GraphIndex Spec.Unitig Spec.CompressSpec Packed.ExtsModel Algo.Compress
  Algo.KmerHist Check.CompressHyp Check.UnitigCheck Proofs.CompressBasics Proofs.CompressRefine Proofs.CompressWalk Proofs.CompressProofs
  Proofs.UnitigProofs Proofs.CompressHypProofs.
Import ListNotations.
Local Open Scope nat_scope.

Lemma insert_by_perm {A} (leb : A -> A -> bool) x l : Permutation (insert_by leb x l) (x :: l).
Proof.
  induction l as [|y r IH]; [reflexivity|]. cbn [insert_by]. destruct (leb x y); [reflexivity|].
  rewrite IH. apply perm_swap.
Qed.
Lemma sort_by_perm {A} (leb : A -> A -> bool) l : Permutation (sort_by leb l) l.
Proof.
  induction l as [|x l IH]; [reflexivity|]. unfold sort_by in *. cbn [fold_right]. rewrite insert_by_perm. now constructor.
Qed.
Lemma nat_eqb_list_eq a b : nat_eqb_list a b = true -> a = b.
Proof.
  unfold nat_eqb_list. revert b. induction a as [|x a IH]; destruct b as [|y b]; cbn; try discriminate; auto.
  intro H. apply andb_prop in H as [H1 H2]. apply andb_prop in H2 as [H2 H3]. apply Nat.eqb_eq in H2. subst.
  f_equal. apply IH. now rewrite H1, H3.
Qed.
Lemma all_some_Forall2 {A} (l : list (option A)) r : all_some l = Some r -> Forall2 (fun o x => o = Some x) l r.
Proof.
  revert r. induction l as [|[x|] l IH]; intros r H; cbn in H; try discriminate.
  - injection H as <-. constructor.
  - destruct (all_some l) as [t|]; [|discriminate]. injection H as <-. constructor; auto.
Qed.
Lemma Forall2_map_l {A B C} (R : B -> C -> Prop) (f : A -> B) l r : Forall2 R (map f l) r -> Forall2 (fun a c => R (f a) c) l r.
Proof.
  revert r. induction l as [|a l IH]; intros r H; inversion H; subst; constructor; auto.
Qed.
Lemma linkedb_linked {A} (r : A -> A -> bool) l : linkedb r l = true -> linked (fun a b => r a b = true) l.
Proof.
  induction l as [|a l IH]; intro H; [exact I|]. destruct l as [|b l]; [exact I|].
  cbn [linkedb] in H. apply andb_prop in H as [H1 H2]. split; auto.
Qed.
Lemma linked_conn {A} (R : A -> A -> Prop) l : linked R l -> forall x y, In x l -> In y l -> clos_refl_sym_trans A R x y.
Proof.
  induction l as [|a l IH]; intros H x y Hx Hy; [destruct Hx|].
  assert (Hhd : forall z, In z l -> clos_refl_sym_trans A R a z).
  { destruct l as [|b l]; [intros z []|]. destruct H as [H1 H2]. intros z Hz.
    apply rst_trans with b; [now apply rst_step|]. apply IH; auto. now left. }
  assert (Htl : linked R l) by (destruct l as [|b l]; [exact I | apply H]).
  destruct Hx as [<-|Hx], Hy as [<-|Hy].
  - apply rst_refl. - now apply Hhd. - apply rst_sym. now apply Hhd. - now apply IH.
Qed.

Section Sound.
Variable D : Type.
Variable join : D -> D -> bool.
Variable K : nat.
Variable stranded : bool.
Variable T : table D.
Variable nodes : list (node D).
Local Notation kkey := (kkey D T).
Local Notation mlink := (mlink D join stranded T).
Local Notation mstep := (mstep D join stranded T).

Lemma mlink_valid i d j d' : mlink i d = Some (j, d') -> i < length T.
Proof.
  unfold Unitig.mlink. destruct (nth_error T i) eqn:E; [|discriminate]. intros _. apply nth_error_Some. congruence.
Qed.
Lemma mlinkb_mstep a b : mlinkb D join stranded T a b = true -> mstep a b.
Proof.
  unfold mlinkb. rewrite existsb_exists. intros [d [_ H]]. destruct (mlink a d) as [[j d']|] eqn:E; [|discriminate].
  apply Nat.eqb_eq in H. subst. exists d, d'. exact E.
Qed.

Lemma kkey_inj' : tbl_ok D K stranded T -> forall i j, i < length T -> j < length T -> kkey i = kkey j -> i = j.
Proof.
  intros Hok i j Hi Hj. unfold CompressRefine.kkey.
  destruct (nth_error T i) as [e|] eqn:Ei; [|apply nth_error_None in Ei; exfalso; apply (Nat.lt_irrefl i); eapply Nat.lt_le_trans; eauto].
  destruct (nth_error T j) as [e'|] eqn:Ej; [|apply nth_error_None in Ej; exfalso; apply (Nat.lt_irrefl j); eapply Nat.lt_le_trans; eauto].
  intro H. pose proof (get_id_key D K stranded T Hok _ _ Ei) as G1.
  pose proof (get_id_key D K stranded T Hok _ _ Ej) as G2. rewrite H in G1. congruence.
Qed.

Theorem chk_c02p_sound : chk_c02p D join K stranded T nodes = true ->
  tbl_ok D K stranded T /\
  forall i j, i < length T -> j < length T ->
    (same_node D K stranded nodes (kkey i) (kkey j) <-> mconn D join stranded T i j).
Proof.
  unfold chk_c02p. intro H. apply andb_prop in H as [H0 H]. apply tbl_okb_sound in H0. split; [exact H0|].
  destruct (all_some (map (node_ids D K stranded T) nodes)) as [nids|] eqn:Hn; [|discriminate].
  apply andb_prop in H as [H H3]. apply andb_prop in H as [H1 H2].
  apply all_some_Forall2, Forall2_map_l in Hn.
  apply nat_eqb_list_eq in H1.
  assert (Hperm : Permutation (concat nids) (seq 0 (length T))) by (rewrite <- H1; symmetry; apply sort_by_perm).
  assert (Hnd : NoDup (concat nids)) by (eapply Permutation_NoDup; [symmetry; exact Hperm | apply seq_NoDup]).
  assert (Hcov : forall x, In x (concat nids) <-> x < length T).
  { intro x. split; intro Hx.
    - eapply Permutation_in in Hx; [|exact Hperm]. apply in_seq in Hx. lia.
    - eapply Permutation_in; [symmetry; exact Hperm|]. apply in_seq. lia. }
  (* node keys are the keys of the node's ids *)
  assert (Hkeys : forall n ids, node_ids D K stranded T n = Some ids -> node_keys D K stranded n = map kkey ids).
  { intros n ids Hni. unfold node_ids in Hni. apply all_some_Forall2, Forall2_map_l in Hni.
    unfold node_keys, node_windows, n_seq. induction Hni as [|w a ws ids' Hw _ IH]; [reflexivity|].
    cbn [map]. f_equal; [|exact IH]. destruct (get_id_Some D T _ _ Hw) as [ent [He Hk]].
    unfold CompressRefine.kkey. now rewrite He. }
  set (share := fun i j => exists ids, In ids nids /\ In i ids /\ In j ids).
  assert (Hvalid : forall ids x, In ids nids -> In x ids -> x < length T).
  { intros ids x Hi Hx. apply Hcov. apply in_concat. eauto. }
  assert (Srefl : forall i, i < length T -> share i i).
  { intros i Hi. apply Hcov in Hi. apply in_concat in Hi. destruct Hi as [ids [Hids Hi]]. exists ids. auto. }
  assert (Strans : forall i j k, share i j -> share j k -> share i k).
  { intros i j k [N [A1 [A2 A3]]] [N' [B1 [B2 B3]]].
    assert (N = N') by (eapply (concat_unique nat); eauto). subst N'. exists N. auto. }
  assert (Sstep : forall i j, mstep i j -> share i j).
  { intros i j [d [d' Hm]]. pose proof (mlink_valid _ _ _ _ Hm) as Hi.
    rewrite forallb_forall in H3. assert (Hin : In i (seq 0 (length T))) by (apply in_seq; lia).
    specialize (H3 i Hin). rewrite forallb_forall in H3.
    assert (Hd : In d [DLeft; DRight]) by (destruct d; cbn; auto). specialize (H3 d Hd). rewrite Hm in H3.
    unfold node_of in H3.
    destruct (index_where (fun ids => mem_nat i ids) nids) as [a|] eqn:Ea; [|discriminate].
    destruct (index_where (fun ids => mem_nat j ids) nids) as [b|] eqn:Eb; [|discriminate].
    apply Nat.eqb_eq in H3. subst b.
    apply index_where_Some in Ea. destruct Ea as [ids [Hids [Hmi _]]].
    apply index_where_Some in Eb. destruct Eb as [ids' [Hids' [Hmj _]]].
    assert (ids' = ids) by congruence. subst ids'.
    exists ids. split; [eapply nth_error_In; eauto|]. split; now apply mem_nat_In. }
  intros i j Hi Hj.
  assert (Hsame : same_node D K stranded nodes (kkey i) (kkey j) <-> share i j).
  { split.
    - intros [n [Hin [Ki Kj]]]. destruct (Forall2_in_l _ _ _ Hn n Hin) as [ids [Hids Hni]].
      rewrite (Hkeys _ _ Hni) in Ki, Kj. exists ids. split; [exact Hids|].
      apply in_map_iff in Ki. destruct Ki as [i' [Ei Hi']]. apply in_map_iff in Kj. destruct Kj as [j' [Ej Hj']].
      apply (kkey_inj' H0) in Ei; eauto. apply (kkey_inj' H0) in Ej; eauto. subst. auto.
    - intros [ids [Hids [Ki Kj]]]. destruct (Forall2_in_r _ _ _ Hn ids Hids) as [n [Hin Hni]].
      exists n. split; [exact Hin|]. rewrite (Hkeys _ _ Hni). split; now apply in_map. }
  rewrite Hsame. split.
  - intros [ids [Hids [Ki Kj]]]. rewrite forallb_forall in H2. specialize (H2 ids Hids).
    apply linkedb_linked in H2. apply (linked_conn _ ids); auto.
    clear -H2. induction ids as [|a l IH]; [exact I|]. destruct l as [|b l]; [exact I|].
    destruct H2 as [A B]. split; [now apply mlinkb_mstep | now apply IH].
  - intro Hc. assert (Hgen : (i < length T \/ j < length T) -> share i j); [|apply Hgen; auto].
    clear Hi Hj Hsame. induction Hc as [x y Hs | x | x y Hs IH | x y z H4 IH1 H5 IH2]; intro Hv.
    + now apply Sstep.
    + apply Srefl. tauto.
    + destruct IH as [N [A1 [A2 A3]]]; [tauto|]. exists N. auto.
    + destruct Hv as [Hv|Hv].
      * pose proof (IH1 (or_introl Hv)) as S1. apply (Strans _ y); [exact S1|]. apply IH2. left.
        destruct S1 as [N [A1 [A2 A3]]]. eauto.
      * pose proof (IH2 (or_intror Hv)) as S2. apply (Strans _ y); [|exact S2]. apply IH1. right.
        destruct S2 as [N [A1 [A2 A3]]]. eauto.
Qed.
End Sound.
