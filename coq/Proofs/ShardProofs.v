(* C04 link lemmas: what sharding by minimizer does to the observations and to the k-mer tables.
   (1) per read: the k-mer observations of the pieces, taken with the pieces' boundary extensions, are - in order -
       exactly the observations of the whole read (true flanking bases everywhere, nothing lost, nothing twice);
   (2) every observation made in a piece carries the shard id of its k-mer ([shard_of], a function of the canonical
       k-mer alone), so shard b holds exactly the observations whose key has shard id b;
   (3) hence the reference grouping (= filter_kmers, C05) of shard b is the restriction of the global one to the keys
       of shard b, and the shard tables together are the global table. *)
From Coq Require Import NArith List Bool Arith Lia Permutation Sorting.Sorted.
From DBG Require Import Gen.SourceConsts Spec.Dna Spec.ScanSpec Packed.ExtsMini Algo.KmerHist Algo.Scan Algo.Msp Algo.Filter
  Proofs.ListFacts Proofs.ScanProofs Proofs.MspProofs Proofs.FilterProofs.
Import ListNotations.
Open Scope nat_scope.

(* the i-th observation of a whole read (no boundary extensions) *)
Definition item (K : nat) (sq : dna) (i : nat) : dna * N :=
  (kmer_at K sq i,
   ex_merge (if Nat.eqb i 0 then 0%N else ex_mk_left (nth (i - 1) sq 0%N))
            (if Nat.ltb (i + K) (length sq) then ex_mk_right (nth (i + K) sq 0%N) else 0%N)).
Lemma kmer_exts_items K sq : kmer_exts K sq 0%N = map (item K sq) (seq 0 (length sq + 1 - K)).
Proof. reflexivity. Qed.

(* ---- extension bytes: only the low nibble of the left argument and the high nibble of the right one matter ---- *)
Lemma ex_merge_nibbles a b : ex_merge a b = N.lor (N.land a 15) (N.land b 240).
Proof. reflexivity. Qed.
Lemma base_cases (b : N) : (b < 4)%N -> b = 0%N \/ b = 1%N \/ b = 2%N \/ b = 3%N.
Proof. lia. Qed.
Definition obase_ok (o : option N) : Prop := match o with Some b => (b < 4)%N | None => True end.
Definition fl (ol or : option N) : N :=
  ((match ol with Some b => 2 ^ b | None => 0 end) + 16 * (match or with Some b => 2 ^ b | None => 0 end))%N.
Lemma flank_nibbles ol or : obase_ok ol -> obase_ok or ->
  N.land (fl ol or) 15 = N.land (match ol with Some b => ex_mk_left b | None => 0%N end) 15 /\
  N.land (fl ol or) 240 = N.land (match or with Some b => ex_mk_right b | None => 0%N end) 240.
Proof.
  intros Hl Hr. destruct ol as [a|], or as [c|]; cbn [obase_ok] in *;
    repeat match goal with
    | H : (?b < 4)%N |- _ => destruct (base_cases b H) as [-> | [-> | [-> | ->]]]; try clear H
    end; vm_compute; split; reflexivity.
Qed.
Lemma flank_exts_fl sq st ln :
  flank_exts sq st ln = fl (if 0 <? st then Some (nth (st - 1) sq 0%N) else None)
                           (if st + ln <? length sq then Some (nth (st + ln) sq 0%N) else None).
Proof. unfold flank_exts, fl. destruct (0 <? st), (st + ln <? length sq); reflexivity. Qed.

Lemma seq_add_map st n : seq st n = map (Nat.add st) (seq 0 n).
Proof.
  revert st. induction n as [|n IH]; intros st; [reflexivity|]. cbn [seq map]. f_equal; [lia|].
  rewrite (IH (S st)), <- seq_shift, map_map. apply map_ext. intros i. lia.
Qed.

Lemma piece_items K sq st ln : 1 <= K -> K <= ln -> st + ln <= length sq -> wf_dna sq ->
  kmer_exts K (sub st ln sq) (flank_exts sq st ln) = map (item K sq) (seq st (ln + 1 - K)).
Proof.
  intros HK Hln Hb Hw. unfold kmer_exts. rewrite sub_length by exact Hb.
  rewrite (seq_add_map st (ln + 1 - K)), map_map. apply map_ext_in. intros i Hi. apply in_seq in Hi.
  unfold item. f_equal.
  - unfold kmer_at. rewrite sub_sub by lia. f_equal. 
  - rewrite !ex_merge_nibbles.
    assert (Hol : obase_ok (if 0 <? st then Some (nth (st - 1) sq 0%N) else None))
      by (destruct (0 <? st); cbn; [now apply wf_nth|exact I]).
    assert (Hor : obase_ok (if st + ln <? length sq then Some (nth (st + ln) sq 0%N) else None))
      by (destruct (st + ln <? length sq); cbn; [now apply wf_nth|exact I]).
    destruct (flank_nibbles _ _ Hol Hor) as [FL FR]. rewrite <- flank_exts_fl in FL, FR.
    f_equal.
    + destruct (Nat.eqb_spec i 0) as [->|Hi0].
      * rewrite FL. rewrite Nat.add_0_r. destruct (Nat.ltb_spec 0 st) as [Hs|Hs].
        -- replace (st =? 0) with false by (symmetry; apply Nat.eqb_neq; lia). reflexivity.
        -- replace (st =? 0) with true by (symmetry; apply Nat.eqb_eq; lia). reflexivity.
      * replace (st + i =? 0) with false by (symmetry; apply Nat.eqb_neq; lia).
        rewrite nth_sub by lia. do 3 f_equal. lia.
    + destruct (Nat.ltb_spec (i + K) ln) as [Hlt|Hge].
      * replace (st + i + K <? length sq) with true by (symmetry; apply Nat.ltb_lt; lia).
        rewrite nth_sub by lia. do 3 f_equal. lia.
      * rewrite FR. assert (i + K = ln) by lia.
        replace (st + i + K) with (st + ln) by lia. destruct (st + ln <? length sq); reflexivity.
Qed.

Lemma flat_map_ext_in {A B} (f g : A -> list B) l : (forall x, In x l -> f x = g x) -> flat_map f l = flat_map g l.
Proof.
  induction l as [|x r IH]; intros H; [reflexivity|]. cbn [flat_map]. rewrite (H x (or_introl eq_refl)).
  f_equal. apply IH. intros y Hy. apply H. now right.
Qed.
Lemma flat_map_map' {A B C} (f : B -> list C) (g : A -> B) l : flat_map f (map g l) = flat_map (fun x => f (g x)) l.
Proof. induction l as [|x r IH]; [reflexivity|]. cbn [map flat_map]. now rewrite IH. Qed.

(* the shard id of a k-mer, as msp_sequence reports it (narrowed to the bucket field) *)
Definition SH (p : nat) (perm : option (list N)) (rcmode : bool) (x : dna) : N :=
  (shard_of (msp_score p perm rcmode) p x mod 2 ^ msp_bucket_bits)%N.

Section Read.
  Variable max_len : N.
  Variable sq : dna.
  Variable k p : nat.
  Variable perm : option (list N).
  Variable rcmode : bool.
  Hypothesis Hp : 1 <= p.
  Hypothesis Hpk : p <= k.
  Hypothesis Hkm : k <= length sq.
  Hypothesis H32 : (N.of_nat (length sq) < 2 ^ msp_assert_shift)%N.
  Hypothesis H16 : (N.of_nat (2 * k - p) < 2 ^ msp_len_bits)%N.
  Hypothesis Hmax : (N.of_nat (2 * k - p) <= max_len)%N.
  Hypothesis Wsq : wf_dna sq.
  Let score := msp_score p perm rcmode.

  Lemma chain_items l : chain_ok score sq k p l -> Forall (len_ok k p) l ->
    flat_map (fun x => map (item k sq) (seq (s_start x) (s_len x + 1 - k))) l =
    map (item k sq) (seq (s_start (hd (mkS [] 0 0 0) l)) (length sq + 1 - k - s_start (hd (mkS [] 0 0 0) l))).
  Proof.
    induction l as [|x r IH]; intros C F; [destruct C|].
    pose proof (chain_bounds score sq k p _ C F) as B.
    inversion F as [|? ? Fx Fr]; subst. inversion B as [|? ? Bx Br]; subst.
    destruct r as [|y r'].
    - cbn [chain_ok] in C. cbn [flat_map hd]. rewrite app_nil_r. do 2 f_equal. unfold len_ok in Fx. lia.
    - cbn [chain_ok] in C. destruct C as [C1 [C2 [_ C4]]]. specialize (IH C4 Fr).
      cbn [flat_map hd] in *. rewrite IH, <- map_app. f_equal.
      inversion Fr as [|? ? Fy _]; subst. inversion Br as [|? ? By _]; subst. unfold len_ok in *.
      replace (length sq + 1 - k - s_start x) with ((s_len x + 1 - k) + (length sq + 1 - k - s_start y)) by lia.
      rewrite seq_app. do 2 f_equal. lia.
  Qed.

  (* (1) + (2) for one read *)
  Theorem msp_observations :
    exists ps, msp_sequence max_len sq k p perm rcmode = Some ps /\
      flat_map (fun pc => kmer_exts k (snd pc) (snd (fst pc))) ps = kmer_exts k sq 0%N /\
      (perm_ok p perm -> forall pc, In pc ps -> forall o, In o (kmer_exts k (snd pc) (snd (fst pc))) ->
         SH p perm rcmode (fst o) = fst (fst pc) /\ length (fst o) = k /\ wf_dna (fst o)) /\
      Forall (fun pc => wf_dna (snd pc)) ps.
  Proof.
    destruct (msp_sequence_scan max_len sq k p perm rcmode Hp Hpk Hkm H32 H16 Hmax) as [ivs [E [M [OK C]]]].
    exists (map (msp_piece sq) ivs). split; [exact M|].
    pose proof OK as [[x0 [r0 [E0 S0]]] [F Ch]].
    assert (F' : Forall (len_ok k p) (map iv_nat ivs)) by (eapply Forall_impl; [|exact F]; cbn; tauto).
    pose proof (chain_bounds score sq k p _ Ch F') as Bd. rewrite Forall_forall in Bd, F'.
    assert (HK : 1 <= k) by lia.
    assert (Hpiece : forall x, In x ivs ->
       kmer_exts k (snd (msp_piece sq x)) (snd (fst (msp_piece sq x))) =
       map (item k sq) (seq (s_start (iv_nat x)) (s_len (iv_nat x) + 1 - k))).
    { intros x Hx. assert (Ix : In (iv_nat x) (map iv_nat ivs)) by now apply in_map.
      specialize (Bd _ Ix). destruct (F' _ Ix) as [L1 L2].
      unfold msp_piece. cbn [fst snd]. rewrite from_slice_bounds_flank by exact Wsq.
      change (N.to_nat (iv_start x)) with (s_start (iv_nat x)). change (N.to_nat (iv_len x)) with (s_len (iv_nat x)).
      apply piece_items; auto. }
    split; [|split].
    3: { apply Forall_forall. intros pc Hpc. apply in_map_iff in Hpc as [x [<- Hx]]. unfold msp_piece. cbn [snd].
         now apply wf_dna_sub. }
    - rewrite flat_map_map'. rewrite (flat_map_ext_in _ _ ivs Hpiece).
      rewrite <- (flat_map_map' (fun x => map (item k sq) (seq (s_start x) (s_len x + 1 - k))) iv_nat).
      rewrite chain_items by (try exact Ch; apply Forall_forall; exact F').
      rewrite E0. cbn [hd]. rewrite S0, Nat.sub_0_r. reflexivity.
    - intros Hperm pc Hpc o Ho. apply in_map_iff in Hpc as [x [<- Hx]].
      rewrite (Hpiece x Hx) in Ho. apply in_map_iff in Ho as [i [<- Hi]]. apply in_seq in Hi.
      assert (Ix : In (iv_nat x) (map iv_nat ivs)) by now apply in_map.
      specialize (Bd _ Ix). rewrite Forall_forall in F. destruct (F _ Ix) as [[L1 L2] [[Emin Hin] Hmin]].
      assert (Hki : kmer_in k (iv_nat x) i) by (unfold kmer_in; lia).
      destruct (Hin i Hki) as [Q1 Q2]. unfold kmer_in in Hki.
      unfold item. cbn [fst]. set (kx := kmer_at k sq i).
      assert (Lkx : length kx = k) by (apply sub_length; lia).
      split; [|split; [exact Lkx|now apply wf_dna_sub]].
      unfold SH, msp_piece. cbn [fst]. unfold bucket_of.
      change (iv_minimizer x) with (s_min (iv_nat x)).
      f_equal. symmetry. apply (shard_of_minimal p perm rcmode Hperm kx); try lia.
      + now apply wf_dna_sub.
      + apply in_kmers. exists (s_mpos (iv_nat x) - i). split; [lia|].
        rewrite Emin. unfold kx, kmer_at. rewrite sub_sub by lia. f_equal. lia.
      + intros z Iz. apply in_kmers in Iz as [j [Hj ->]]. unfold kx, kmer_at. rewrite sub_sub by lia.
        apply Hmin. unfold pmer_in. lia.
  Qed.
End Read.

(* ================================================================ read sets ================================= *)
From DBG Require Import Proofs.DnaFacts Proofs.FilterSumm Algo.Pipeline.
Open Scope nat_scope.

Definition params_ok (max_len : N) (K P : nat) : Prop :=
  1 <= P /\ P <= K /\ (N.of_nat (2 * K - P) < 2 ^ msp_len_bits)%N /\ (N.of_nat (2 * K - P) <= max_len)%N.
Definition lread_ok (r : lread) : Prop := wf_dna (fst r) /\ (N.of_nat (length (fst r)) < 2 ^ msp_assert_shift)%N.

Lemma flat_map_map_out {A B C} (h : B -> C) (g : A -> list B) l : flat_map (fun x => map h (g x)) l = map h (flat_map g l).
Proof. induction l as [|x r IH]; [reflexivity|]. cbn [flat_map]. now rewrite IH, map_app. Qed.

Section ReadSet.
  Variable max_len : N.
  Variable K P : nat.
  Variable perm : option (list N).
  Variable stranded : bool.
  Let rcmode := negb stranded.
  Hypothesis Hpar : params_ok max_len K P.

  Definition obs1 (q : dna * N * N) : list (@obs N) :=
    map (fun o => (canon_obs stranded o, snd q)) (kmer_exts K (fst (fst q)) (snd (fst q))).
  Lemma observations_flat l : observations K stranded l = flat_map obs1 l.
  Proof. reflexivity. Qed.

  (* one read of any length *)
  Lemma msp_read (r : lread) : lread_ok r ->
    exists ps, msp_sequence max_len (fst r) K P perm rcmode = Some ps /\
      flat_map (fun pc => kmer_exts K (snd pc) (snd (fst pc))) ps = kmer_exts K (fst r) 0%N /\
      (perm_ok P perm -> forall pc, In pc ps -> forall o, In o (kmer_exts K (snd pc) (snd (fst pc))) ->
         SH P perm rcmode (fst o) = fst (fst pc) /\ length (fst o) = K /\ wf_dna (fst o)) /\
      Forall (fun pc => wf_dna (snd pc)) ps.
  Proof.
    destruct Hpar as [H1 [H2 [H3 H4]]]. intros [Hw H32].
    destruct (Nat.ltb_spec (length (fst r)) K) as [Hs|Hl].
    - exists []. split; [|split; [|split; [|constructor]]].
      + unfold msp_sequence. replace (P <=? 2 * K) with true by (symmetry; apply Nat.leb_le; lia).
        replace (N.of_nat (2 * K - P) <=? max_len)%N with true by (symmetry; now apply N.leb_le).
        replace (length (fst r) <? K) with true by (symmetry; now apply Nat.ltb_lt). reflexivity.
      + unfold kmer_exts. replace (length (fst r) + 1 - K) with 0 by lia. reflexivity.
      + intros _ pc [].
    - apply msp_observations; auto.
  Qed.

  (* the key of an observation has the shard id of the k-mer it was made from *)
  Lemma SH_key (o : dna * N) : perm_ok P perm -> length (fst o) = K -> wf_dna (fst o) ->
    SH P perm rcmode (fst (canon_obs stranded o)) = SH P perm rcmode (fst o).
  Proof.
    intros Hperm Hl Hw. unfold canon_obs. destruct stranded eqn:Es; [reflexivity|].
    cbn [fst]. rewrite (proj1 (canon_flip_spec (fst o))).
    destruct (canon_choice (fst o)) as [->| ->]; [reflexivity|].
    unfold SH. f_equal. destruct Hpar as [H1 [H2 _]].
    apply bucket_rc; auto; try lia; reflexivity.
  Qed.

  (* (1) + (2) for a read set: nothing lost, nothing twice, true flanking bases; every observation in the shard
     of its key *)
  Theorem shard_observations (reads : list lread) : Forall lread_ok reads ->
    exists ps, pieces_of max_len K P perm rcmode reads = Some ps /\
      observations K stranded (map snd ps) = observations K stranded (whole_reads reads) /\
      (perm_ok P perm -> forall bq, In bq ps -> forall o, In o (obs1 (snd bq)) ->
         SH P perm rcmode (key o) = fst bq) /\
      reads_ok (map snd ps).
  Proof.
    induction reads as [|r rest IH]; intros Hok.
    - exists []. split; [reflexivity|]. split; [reflexivity|]. split; [intros _ bq []|constructor].
    - inversion Hok as [|? ? Hr Hrest]; subst. destruct (IH Hrest) as [t [Et [Ot [Bt Wt]]]].
      destruct (msp_read r Hr) as [ps [Eps [Ops [Bps Wps]]]].
      exists (map (fun x => (fst (fst x), (snd x, snd (fst x), snd r))) ps ++ t).
      split; [cbn [pieces_of]; now rewrite Eps, Et|]. split; [|split].
      3: { unfold reads_ok. rewrite map_app. apply Forall_app. split; [|exact Wt].
           rewrite map_map. cbn [snd]. apply Forall_forall. intros q Hq. apply in_map_iff in Hq as [pc [<- Hpc]]. cbn [fst].
           rewrite Forall_forall in Wps. now apply Wps. }
      + rewrite map_app, !observations_flat, flat_map_app, <- !observations_flat, Ot.
        cbn [whole_reads map]. rewrite (observations_flat (_ :: _)). cbn [flat_map]. rewrite <- observations_flat.
        f_equal. rewrite !map_map. cbn [snd]. rewrite observations_flat, flat_map_map'. unfold obs1. cbn [fst snd].
        rewrite (flat_map_map_out (fun o => (canon_obs stranded o, snd r))), Ops. reflexivity.
      + intros Hperm bq Hbq o Ho. apply in_app_or in Hbq as [Hbq|Hbq]; [|now apply (Bt Hperm bq)].
        apply in_map_iff in Hbq as [pc [<- Hpc]]. cbn [fst snd] in *. unfold obs1 in Ho. cbn [fst snd] in Ho.
        apply in_map_iff in Ho as [o0 [<- Ho0]]. destruct (Bps Hperm pc Hpc o0 Ho0) as [B1 [B2 B3]].
        unfold key. cbn [fst]. now rewrite SH_key.
  Qed.

  (* shard b holds, in input order, exactly the observations whose key has shard id b *)
  Theorem shard_obs_filter (reads : list lread) ps b : Forall lread_ok reads -> perm_ok P perm ->
    pieces_of max_len K P perm rcmode reads = Some ps ->
    observations K stranded (shard_seqs ps b) =
    filter (fun o => SH P perm rcmode (key o) =? b)%N (observations K stranded (whole_reads reads)).
  Proof.
    intros Hok Hperm Eps. destruct (shard_observations reads Hok) as [ps' [E' [O [B _]]]].
    rewrite Eps in E'. inversion E'; subst ps'. rewrite <- O. specialize (B Hperm).
    unfold shard_seqs. rewrite !observations_flat. clear -B.
    induction ps as [|bq t IH]; [reflexivity|].
    assert (Bt : forall bq0, In bq0 t -> forall o, In o (obs1 (snd bq0)) -> SH P perm rcmode (key o) = fst bq0)
      by (intros; apply B; [now right|assumption]).
    specialize (IH Bt). cbn [filter map flat_map]. rewrite filter_app, <- IH.
    destruct (N.eqb_spec (fst bq) b) as [Eb|Nb]; cbn [map flat_map].
    - f_equal. symmetry. apply filter_all. intros o Ho. apply N.eqb_eq. rewrite <- Eb. apply B; [now left|exact Ho].
    - rewrite (filter_none (fun o : obs => (SH P perm rcmode (key o) =? b)%N) (obs1 (snd bq))); [reflexivity|].
      intros o Ho. apply N.eqb_neq. rewrite (B bq (or_introl eq_refl) o Ho). exact Nb.
  Qed.
End ReadSet.

(* ================================================================ tables =================================== *)
Section Restrict.
  Context {D DS : Type}.
  Variable summarize : list (@obs D) -> bool * N * DS.
  Variable ra : bool.
  Variable Pk : dna -> bool.
  Notation out := (@out DS).
  (* the part of a filter result that concerns the keys selected by Pk *)
  Definition restrict_out (o : out) : out := (filter (fun e => Pk (fst (fst e))) (fst o), filter Pk (snd o)).

  Lemma restrict_out_app a b : restrict_out (out_app a b) = out_app (restrict_out a) (restrict_out b).
  Proof. unfold restrict_out, out_app. cbn [fst snd]. now rewrite !filter_app. Qed.
  Lemma restrict_out_concat l : restrict_out (out_concat l) = out_concat (map restrict_out l).
  Proof.
    induction l as [|a l IH]; [reflexivity|]. cbn [map out_concat fold_right].
    fold (out_concat l). fold (out_concat (map restrict_out l)). now rewrite restrict_out_app, IH.
  Qed.
  Lemma restrict_do_group k g : restrict_out (do_group summarize ra (k, g)) =
    if Pk k then do_group summarize ra (k, g) else out_nil.
  Proof.
    unfold do_group, restrict_out, out_nil. cbn [fst snd].
    destruct (fst (fst (summarize g))), ra, (Pk k) eqn:E; cbn [filter fst snd]; rewrite ?E; reflexivity.
  Qed.
  Lemma obs_of_filter (os : list (@obs D)) k : Pk k = true -> obs_of (filter (fun o => Pk (key o)) os) k = obs_of os k.
  Proof.
    intros Hk. unfold obs_of. rewrite filter_filter. apply filter_ext. intros o.
    destruct (dna_eqb (key o) k) eqn:E; [|now rewrite andb_false_r].
    apply dna_eqb_eq in E. now rewrite E, Hk.
  Qed.

  Theorem reference_obs_filter (os : list (@obs D)) :
    reference_obs summarize ra (filter (fun o => Pk (key o)) os) = restrict_out (reference_obs summarize ra os).
  Proof.
    unfold reference_obs. rewrite restrict_out_concat, map_map.
    assert (Ek : ref_keys (filter (fun o => Pk (key o)) os) = filter Pk (ref_keys os)).
    { unfold ref_keys. rewrite (map_filter_comm key Pk). fold (sort_dedup (filter Pk (map key os))).
      fold (sort_dedup (map key os)). apply sort_dedup_filter. }
    rewrite Ek.
    rewrite (out_concat_ext _ (fun k => do_group summarize ra (k, obs_of os k)) (filter Pk (ref_keys os))).
    - rewrite <- out_concat_filter. apply out_concat_ext. intros k _. symmetry. apply restrict_do_group.
    - intros k Hk. apply filter_In in Hk as [_ Hk]. now rewrite obs_of_filter.
  Qed.
End Restrict.

Lemma flat_map_app_perm {A B} (f g : A -> list B) l :
  Permutation (flat_map (fun x => f x ++ g x) l) (flat_map f l ++ flat_map g l).
Proof.
  induction l as [|x r IH]; [reflexivity|]. cbn [flat_map]. rewrite IH, <- !app_assoc.
  apply Permutation_app_head. rewrite !app_assoc. apply Permutation_app_tail. apply Permutation_app_comm.
Qed.
Lemma flat_map_absent {A} (e : A) (b : N) t : ~ In b t -> flat_map (fun x => if (b =? x)%N then [e] else []) t = [].
Proof.
  induction t as [|c t IH]; intros Hn; [reflexivity|]. cbn [flat_map].
  destruct (N.eqb_spec b c) as [->|_]; [exfalso; apply Hn; now left|]. apply IH. intros Hi. apply Hn. now right.
Qed.
(* a list is the disjoint union of its classes under any key function, over any duplicate-free list of all class ids *)
Lemma classes_perm {A} (f : A -> N) (bs : list N) (l : list A) : NoDup bs -> (forall e, In e l -> In (f e) bs) ->
  Permutation (flat_map (fun b => filter (fun e => f e =? b)%N l) bs) l.
Proof.
  intros Hnd. induction l as [|e r IH]; intros Hin.
  - cbn [filter]. clear. induction bs; cbn; auto.
  - cbn [filter].
    transitivity (flat_map (fun b => (if (f e =? b)%N then [e] else []) ++ filter (fun e0 => (f e0 =? b)%N) r) bs).
    { apply Permutation_refl'. apply flat_map_ext. intros b. destruct (f e =? b)%N; reflexivity. }
    rewrite flat_map_app_perm, IH by (intros; apply Hin; now right).
    change (e :: r) with ([e] ++ r). apply Permutation_app_tail.
    specialize (Hin e (or_introl eq_refl)). clear -Hnd Hin.
    induction bs as [|b t IHb]; [destruct Hin|]. inversion Hnd as [|? ? Hn Hd]; subst. cbn [flat_map].
    destruct (N.eqb_spec (f e) b) as [->|Ne].
    + cbn [app]. apply perm_skip. rewrite flat_map_absent by exact Hn. reflexivity.
    + apply IHb; [exact Hd|]. destruct Hin; [congruence|assumption].
Qed.

Section Tables.
  Variable max_len : N.
  Variable K P : nat.
  Variable perm : option (list N).
  Variable stranded : bool.
  Let rcmode := negb stranded.
  Hypothesis Hpar : params_ok max_len K P.
  Hypothesis Hperm : perm_ok P perm.
  Context {DS : Type}.
  Variable summarize : list (@obs N) -> bool * N * DS.
  Variable ra : bool.
  Variable reads : list lread.
  Hypothesis Hok : Forall lread_ok reads.
  Variable ps : list (N * (dna * N * N)).
  Hypothesis Eps : pieces_of max_len K P perm rcmode reads = Some ps.
  Let inshard (b : N) (k : dna) : bool := (SH P perm rcmode k =? b)%N.

  (* (3) the table of shard b is the restriction of the global table to the keys of shard b *)
  Theorem shard_tables_restrict b :
    reference summarize ra K stranded (shard_seqs ps b) =
    restrict_out (inshard b) (reference summarize ra K stranded (whole_reads reads)).
  Proof.
    unfold reference. rewrite (shard_obs_filter max_len K P perm stranded Hpar reads ps b Hok Hperm Eps).
    apply (reference_obs_filter summarize ra (inshard b)).
  Qed.

  (* the same for the filter_kmers model itself (C05): no panic, any memory setting *)
  Theorem shard_filter_restrict b size_of memory_size unit : 4 <= K -> (1 <= memory_size * eff_unit unit)%N ->
    option_map fst (filter_kmers summarize ra K stranded size_of memory_size unit (shard_seqs ps b)) =
    Some (restrict_out (inshard b) (reference summarize ra K stranded (whole_reads reads))).
  Proof.
    intros HK Hm. destruct (shard_observations max_len K P perm stranded Hpar reads Hok) as [ps' [E' [_ [_ W]]]].
    fold rcmode in E'. rewrite Eps in E'. inversion E'; subst ps'.
    assert (Wb : reads_ok (shard_seqs ps b)).
    { unfold reads_ok, shard_seqs in *. rewrite Forall_forall in *. intros q Hq. apply in_map_iff in Hq as [bq [<- Hbq]].
      apply filter_In in Hbq as [Hbq _]. apply W. now apply in_map. }
    destruct (filter_spec summarize ra K stranded size_of memory_size unit (shard_seqs ps b) HK Hm Wb) as [passes [E _]].
    rewrite E. cbn [option_map fst]. f_equal. apply shard_tables_restrict.
  Qed.

  (* all keys of shard b have shard id b: different shards have disjoint keys *)
  Corollary shard_keys b e : In e (fst (reference summarize ra K stranded (shard_seqs ps b))) ->
    SH P perm rcmode (fst (fst e)) = b.
  Proof.
    rewrite shard_tables_restrict. unfold restrict_out. cbn [fst]. intros H. apply filter_In in H as [_ H].
    now apply N.eqb_eq.
  Qed.
  Lemma in_out_concat_fst (l : list (@out DS)) e : In e (fst (out_concat l)) -> exists a, In a l /\ In e (fst a).
  Proof.
    induction l as [|a l IH]; cbn [out_concat fold_right]; [intros []|].
    fold (out_concat l). unfold out_app. cbn [fst]. intros H. apply in_app_or in H as [H|H].
    - exists a. split; [now left|exact H].
    - destruct (IH H) as [a' [Ha' He]]. exists a'. split; [now right|exact He].
  Qed.
  Lemma reference_keys (os : list (@obs N)) e : In e (fst (reference_obs summarize ra os)) -> In (fst (fst e)) (ref_keys os).
  Proof.
    unfold reference_obs. intros H. apply in_out_concat_fst in H as [a [Ha He]].
    apply in_map_iff in Ha as [k [<- Hk]]. unfold do_group in He. cbn [fst snd] in He.
    destruct (fst (fst (summarize (obs_of os k)))); [|destruct He]. destruct He as [<-|[]]. exact Hk.
  Qed.
  Lemma buckets_nodup : NoDup (buckets_of ps).
  Proof.
    unfold buckets_of. destruct (FilterSumm.sort_dedupN_spec (map fst ps)) as [S _]. unfold FilterSumm.sort_dedupN in S.
    induction S as [|x r Hs IH Hf]; constructor; [|exact IH].
    intros Hin. rewrite Forall_forall in Hf. specialize (Hf _ Hin). lia.
  Qed.
  Lemma buckets_cover e : In e (fst (reference summarize ra K stranded (whole_reads reads))) ->
    In (SH P perm rcmode (fst (fst e))) (buckets_of ps).
  Proof.
    intros H. unfold reference in H. apply reference_keys in H. apply ref_keys_in in H as [o [Hk Ho]].
    destruct (shard_observations max_len K P perm stranded Hpar reads Hok) as [ps' [E' [O [B _]]]].
    fold rcmode in E'. rewrite Eps in E'. inversion E'; subst ps'. rewrite <- O in Ho.
    rewrite observations_flat in Ho. apply in_flat_map in Ho as [q [Hq Ho]]. apply in_map_iff in Hq as [bq [<- Hbq]].
    unfold rcmode. rewrite <- Hk, (B Hperm bq Hbq o Ho). unfold buckets_of.
    apply (proj2 (FilterSumm.sort_dedupN_spec (map fst ps))). now apply in_map.
  Qed.

  (* the shard tables together are the global table; each key in exactly one of them *)
  Theorem shard_tables_union :
    Permutation (flat_map (fun b => fst (reference summarize ra K stranded (shard_seqs ps b))) (buckets_of ps))
                (fst (reference summarize ra K stranded (whole_reads reads))).
  Proof.
    rewrite (flat_map_ext _ (fun b => filter (fun e => (SH P perm rcmode (fst (fst e)) =? b)%N)
                                             (fst (reference summarize ra K stranded (whole_reads reads))))).
    - apply classes_perm; [apply buckets_nodup|apply buckets_cover].
    - intros b. now rewrite shard_tables_restrict.
  Qed.
End Tables.
