(* finite sweeps used by the composition proofs (CompressGraphOk, RecompExts): the extension byte assembled from the
   left half of one byte and the right half of another answers has_ext like the byte the side came from *)
From Coq Require Import NArith List Bool Arith Lia.
From DBG Require Import Spec.Dna Packed.ExtsModel Proofs.ExtsProofs.
Import ListNotations.
Open Scope N_scope.

Lemma has_from_singles el er (d : bool) b : el < 256 -> er < 256 -> In b bases4 ->
  e_has_ext (e_from_single_dirs (e_single_dir el false) (e_single_dir er true)) d b =
  e_has_ext (if d then er else el) d b.
Proof.
  intros Hl Hr Hb.
  assert (E : forallb (fun el => forallb (fun er => forallb (fun d : bool => forallb (fun b =>
     Bool.eqb (e_has_ext (e_from_single_dirs (e_single_dir el false) (e_single_dir er true)) d b)
              (e_has_ext (if d then er else el) d b)) bases4) [false; true]) all_exts) all_exts = true)
    by (vm_compute; reflexivity).
  rewrite forallb_forall in E. specialize (E el (in_all_exts el Hl)).
  rewrite forallb_forall in E. specialize (E er (in_all_exts er Hr)).
  rewrite forallb_forall in E. specialize (E d ltac:(destruct d; cbn; auto)).
  rewrite forallb_forall in E. specialize (E b Hb). now apply eqb_prop.
Qed.
Lemma from_singles_lt el er : el < 256 -> er < 256 ->
  e_from_single_dirs (e_single_dir el false) (e_single_dir er true) < 256.
Proof.
  intros Hl Hr.
  assert (E : forallb (fun el => forallb (fun er =>
     e_from_single_dirs (e_single_dir el false) (e_single_dir er true) <? 256) all_exts) all_exts = true)
    by (vm_compute; reflexivity).
  rewrite forallb_forall in E. specialize (E el (in_all_exts el Hl)).
  rewrite forallb_forall in E. specialize (E er (in_all_exts er Hr)). now apply N.ltb_lt.
Qed.

(* ---- for RecompExts: the byte assembled by build_node / path_exts, read bit by bit ---- *)
From DBG Require Import Spec.GraphIndex Algo.Compress Algo.GraphModel Algo.Recompress Check.RecompCheck.
Lemma has_from_lr X Y (d : bool) b : X < 256 -> Y < 256 -> In b bases4 ->
  e_has_ext (e_from_single_dirs X Y) d b = e_has_ext (if d then Y else X) false b.
Proof.
  intros Hl Hr Hb.
  assert (E : forallb (fun X => forallb (fun Y => forallb (fun d : bool => forallb (fun b =>
     Bool.eqb (e_has_ext (e_from_single_dirs X Y) d b) (e_has_ext (if d then Y else X) false b))
     bases4) [false; true]) all_exts) all_exts = true) by (vm_compute; reflexivity).
  rewrite forallb_forall in E. specialize (E X (in_all_exts X Hl)).
  rewrite forallb_forall in E. specialize (E Y (in_all_exts Y Hr)).
  rewrite forallb_forall in E. specialize (E d ltac:(destruct d; cbn; auto)).
  rewrite forallb_forall in E. specialize (E b Hb). now apply eqb_prop.
Qed.
Definition ob (s : dir) (b : N) : N := match s with DLeft => b | DRight => comp b end.
Lemma left_right_of e s b : e < 256 -> In b bases4 ->
  left_of e s < 256 /\ right_of e s < 256 /\
  e_has_ext (left_of e s) false b = e_has_ext e (dirb s) (ob s b) /\
  e_has_ext (right_of e s) false b = e_has_ext e (dirb (dflip s)) (ob s b).
Proof.
  intros He Hb.
  assert (E : forallb (fun e => forallb (fun s => forallb (fun b =>
     (left_of e s <? 256) && (right_of e s <? 256) &&
     Bool.eqb (e_has_ext (left_of e s) false b) (e_has_ext e (dirb s) (ob s b)) &&
     Bool.eqb (e_has_ext (right_of e s) false b) (e_has_ext e (dirb (dflip s)) (ob s b)))
     bases4) [DLeft; DRight]) all_exts = true) by (vm_compute; reflexivity).
  rewrite forallb_forall in E. specialize (E e (in_all_exts e He)).
  rewrite forallb_forall in E. specialize (E s ltac:(destruct s; cbn; auto)).
  rewrite forallb_forall in E. specialize (E b Hb).
  apply andb_prop in E as [E E4]. apply andb_prop in E as [E E3]. apply andb_prop in E as [E1 E2].
  repeat split; try (now apply N.ltb_lt); now apply eqb_prop.
Qed.
