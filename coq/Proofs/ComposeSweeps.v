(* finite sweeps used by the composition proofs (CompressGraphOk, RecompExts): the extension byte assembled from the
   left half of one byte and the right half of another answers has_ext like the byte the side came from *)
From Coq Require Import NArith List Bool Arith Lia.
From DBG Require Import Spec.Dna Packed.ExtsModel Proofs.ExtsProofs.
Import ListNotations.
Open Scope N_scope.

Lemma has_from_singles el er (d : bool) b : el < 256 -> er < 256 -> In b bases4 ->
  e_has_ext (e_from_single_dirs (e_single_dir el false) (e_single_dir er true)) d b =
  e_has_ext (if d then er else el) d b.
Proof.
  intros Hl Hr Hb.
  assert (E : forallb (fun el => forallb (fun er => forallb (fun d : bool => forallb (fun b =>
     Bool.eqb (e_has_ext (e_from_single_dirs (e_single_dir el false) (e_single_dir er true)) d b)
              (e_has_ext (if d then er else el) d b)) bases4) [false; true]) all_exts) all_exts = true)
    by (vm_compute; reflexivity).
  rewrite forallb_forall in E. specialize (E el (in_all_exts el Hl)).
  rewrite forallb_forall in E. specialize (E er (in_all_exts er Hr)).
  rewrite forallb_forall in E. specialize (E d ltac:(destruct d; cbn; auto)).
  rewrite forallb_forall in E. specialize (E b Hb). now apply eqb_prop.
Qed.
Lemma from_singles_lt el er : el < 256 -> er < 256 ->
  e_from_single_dirs (e_single_dir el false) (e_single_dir er true) < 256.
Proof.
  intros Hl Hr.
  assert (E : forallb (fun el => forallb (fun er =>
     e_from_single_dirs (e_single_dir el false) (e_single_dir er true) <? 256) all_exts) all_exts = true)
    by (vm_compute; reflexivity).
  rewrite forallb_forall in E. specialize (E el (in_all_exts el Hl)).
  rewrite forallb_forall in E. specialize (E er (in_all_exts er Hr)). now apply N.ltb_lt.
Qed.
