(* Soundness of the boolean checkers of Check/PipelineCheck.v w.r.t. the Props next to them. *)
From Coq Require Import NArith List Bool Arith Lia Permutation.
From DBG Require Import Spec.Dna Spec.GraphIndex Packed.ExtsModel Algo.KmerHist Check.GraphCheck Check.PipelineCheck
  Proofs.DnaFacts.
Import ListNotations.
Open Scope N_scope.

(* ---- generic list facts ---- *)
Lemma insert_by_perm {A} (leb : A -> A -> bool) x l : Permutation (insert_by leb x l) (x :: l).
Proof.
  induction l as [|y r IH]; cbn [insert_by]; [reflexivity|].
  destruct (leb x y); [reflexivity|]. rewrite IH. apply perm_swap.
Qed.
Lemma sort_by_perm {A} (leb : A -> A -> bool) l : Permutation (sort_by leb l) l.
Proof.
  induction l as [|x r IH]; cbn [sort_by fold_right]; [reflexivity|].
  fold (sort_by leb r). rewrite insert_by_perm. now constructor.
Qed.

Lemma forallb_combine_eq (a : list dna) : forall b, length a = length b ->
  forallb (fun p => dna_eqb (fst p) (snd p)) (combine a b) = true -> a = b.
Proof.
  induction a as [|x a IH]; intros [|y b] Hl H; try discriminate; [reflexivity|].
  cbn in H. apply andb_true_iff in H as [H1 H2]. apply dna_eqb_eq in H1. subst y.
  f_equal. apply IH; [now inversion Hl|exact H2].
Qed.
Lemma dna_list_eqb_eq a b : dna_list_eqb a b = true -> a = b.
Proof.
  unfold dna_list_eqb. intros H. apply andb_true_iff in H as [H1 H2].
  apply Nat.eqb_eq in H1. now apply forallb_combine_eq.
Qed.
Lemma N_list_eqb_eq a b : N_list_eqb a b = true -> a = b.
Proof. unfold N_list_eqb. apply dna_eqb_eq. Qed.

Lemma sorted_eq_perm_dna a b : dna_list_eqb (sort_dna a) (sort_dna b) = true -> Permutation a b.
Proof.
  intros H. apply dna_list_eqb_eq in H. unfold sort_dna in H.
  rewrite <- (sort_by_perm dna_leb a), H. apply sort_by_perm.
Qed.
Lemma sorted_eq_perm_N a b : N_list_eqb (sort_N a) (sort_N b) = true -> Permutation a b.
Proof.
  intros H. apply N_list_eqb_eq in H. unfold sort_N in H.
  rewrite <- (sort_by_perm N.leb a), H. apply sort_by_perm.
Qed.

Lemma existsb_dna_in w l : existsb (dna_eqb w) l = true <-> In w l.
Proof.
  rewrite existsb_exists. split.
  - intros [x [Hx He]]. apply dna_eqb_eq in He. now subst.
  - intros H. exists w. split; [exact H|]. now apply dna_eqb_eq.
Qed.
Lemma subsetb_incl a b : subsetb a b = true -> incl a b.
Proof.
  unfold subsetb. rewrite forallb_forall. intros H w Hw. apply existsb_dna_in. now apply H.
Qed.

Lemma remove_first_spec {A} (p : A -> bool) l l' : remove_first p l = Some l' ->
  exists x a b, l = a ++ x :: b /\ l' = a ++ b /\ p x = true.
Proof.
  revert l'. induction l as [|y r IH]; intros l' H; cbn in H; [discriminate|].
  destruct (p y) eqn:Hp.
  - inversion H; subst. exists y, [], l'. auto.
  - destruct (remove_first p r) as [t|] eqn:Hr; [|discriminate]. inversion H; subst.
    destruct (IH t eq_refl) as [x [a [b [H1 [H2 H3]]]]]. subst.
    exists x, (y :: a), b. auto.
Qed.

(* ---- same_assembly ---- *)
Section Same.
Variable K : nat.
Variable stranded : bool.
Variable mode : N.

Lemma node_equivb_sound a b : node_equivb K stranded mode a b = true -> node_equiv K stranded mode a b.
Proof.
  unfold node_equivb, node_equiv. intros H.
  apply andb_true_iff in H as [H H3]. apply andb_true_iff in H as [H1 H2].
  split; [now apply sorted_eq_perm_dna|]. split; [now apply sorted_eq_perm_N|].
  intros Hm. apply orb_true_iff in H3 as [H3|H3]; [apply N.eqb_eq in H3; contradiction|now apply N.eqb_eq].
Qed.

Lemma match_nodes_sound g1 : forall g2, match_nodes K stranded mode g1 g2 = true ->
  exists g2', Permutation g2 g2' /\ Forall2 (node_equiv K stranded mode) g1 g2'.
Proof.
  induction g1 as [|n r IH]; intros g2 H; cbn in H.
  - destruct g2; [|discriminate]. exists []. split; constructor.
  - destruct (remove_first (node_equivb K stranded mode n) g2) as [t|] eqn:Hr; [|discriminate].
    apply remove_first_spec in Hr as [x [a [b [H1 [H2 H3]]]]]. subst.
    destruct (IH _ H) as [t' [Hp Hf]].
    exists (x :: t'). split.
    + rewrite <- Hp. symmetry. apply Permutation_middle.
    + constructor; [now apply node_equivb_sound|exact Hf].
Qed.

Theorem chk_same_assembly_sound g1 g2 :
  chk_same_assembly K stranded mode g1 g2 = true -> same_assembly K stranded mode g1 g2.
Proof.
  unfold chk_same_assembly, same_assembly. intros H.
  apply andb_true_iff in H as [H H3]. apply andb_true_iff in H as [H1 H2].
  split; [now apply match_nodes_sound|].
  apply subsetb_incl in H2. apply subsetb_incl in H3. intros w. split; [apply H2|apply H3].
Qed.
End Same.

(* ---- graph_exact ---- *)
From Coq Require Import Sorting.Sorted.
From DBG Require Import Proofs.FilterProofs.

Lemma ssorted_dlt_nodup l : StronglySorted dlt l -> NoDup l.
Proof.
  induction 1 as [|x r Hs IH Hf]; constructor; [|exact IH].
  intros Hin. rewrite Forall_forall in Hf. specialize (Hf _ Hin). unfold dlt in Hf.
  rewrite dna_ltb_irrefl in Hf. discriminate.
Qed.

Section Exact.
Variable K : nat.
Variable stranded : bool.
Variable thr : N.
Variable reads : list dna.

Lemma retained_in x : In x (retained K stranded thr reads) <->
  In x (read_kmers K stranded reads) /\ is_retained K stranded thr reads x = true.
Proof.
  unfold retained. rewrite filter_In. unfold sort_dna. fold (sort_dedup (read_kmers K stranded reads)).
  now rewrite sort_dedup_in.
Qed.
Lemma retained_nodup : NoDup (retained K stranded thr reads).
Proof.
  unfold retained, sort_dna. fold (sort_dedup (read_kmers K stranded reads)).
  apply NoDup_filter, ssorted_dlt_nodup, sort_dedup_ssorted.
Qed.

Theorem chk_graph_exact_sound g : chk_graph_exact K stranded thr reads g = true -> graph_exact K stranded thr reads g.
Proof.
  unfold chk_graph_exact, graph_exact. intros H.
  apply andb_true_iff in H as [H H3]. apply andb_true_iff in H as [H1 H2].
  split.
  - apply dna_list_eqb_eq in H1. rewrite <- H1. symmetry. apply sort_by_perm.
  - apply subsetb_incl in H2. apply subsetb_incl in H3. intros w. split; [apply H2|apply H3].
Qed.
Lemma graph_exact_nodup g : graph_exact K stranded thr reads g -> NoDup (graph_kmers K stranded g).
Proof. intros [H _]. eapply Permutation_NoDup; [symmetry; exact H|apply retained_nodup]. Qed.
End Exact.

(* ---- unitig_graph, payload_ok ---- *)
Lemma wf_dnab_sound l : wf_dnab l = true -> wf_dna l.
Proof.
  unfold wf_dnab, wf_dna. rewrite forallb_forall, Forall_forall. intros H x Hx. apply N.ltb_lt. now apply H.
Qed.

Section Unitig.
Variable K : nat.
Variable stranded : bool.
Variable kjoin : dna -> dna -> bool.
Variable L : list dna.

Lemma adjacent_inb_sound g x y : adjacent_inb K stranded g x y = true -> adjacent_in K stranded g x y.
Proof.
  unfold adjacent_inb, adjacent_in. rewrite existsb_exists. intros [n [Hn H]].
  apply existsb_exists in H as [p [Hp H]]. apply andb_true_iff in H as [H1 H2].
  apply dna_eqb_eq in H1. apply dna_eqb_eq in H2. now exists n, p.
Qed.
Lemma mergeableb_next x y : mergeableb stranded kjoin L x y = true ->
  exists b, In b [0; 1; 2; 3] /\ y = tl x ++ [b].
Proof.
  unfold mergeableb. destruct (rlinks stranded L x) as [|b [|? ?]] eqn:Hr; try discriminate.
  destruct (llinks stranded L y) as [|c [|? ?]]; try discriminate.
  intros H. repeat (apply andb_true_iff in H as [H ?]). apply dna_eqb_eq in H.
  exists b. split; [|exact H].
  assert (Hin : In b (rlinks stranded L x)) by (rewrite Hr; now left).
  unfold rlinks in Hin. now apply filter_In in Hin.
Qed.
Lemma chk_unbranched_sound g : chk_unbranched K stranded kjoin L g = true -> unbranched K stranded kjoin L g.
Proof.
  unfold chk_unbranched, unbranched. rewrite forallb_forall. intros H n p Hn Hp.
  specialize (H _ Hn). rewrite forallb_forall in H. now apply H.
Qed.
Lemma chk_maximal_sound g : chk_maximal K stranded kjoin L g = true -> maximal K stranded kjoin L g.
Proof.
  unfold chk_maximal, maximal. rewrite forallb_forall. intros H n x y Hn Hx Hm.
  specialize (H _ Hn). rewrite forallb_forall in H. specialize (H _ Hx). rewrite forallb_forall in H.
  destruct (mergeableb_next _ _ Hm) as [b [Hb ->]]. specialize (H _ Hb). cbv zeta in H.
  rewrite Hm in H. cbn in H. now apply adjacent_inb_sound.
Qed.
End Unitig.

Section Payload.
Variable K : nat.
Variable stranded : bool.
Variable mode : N.
Variable lreads : list (dna * N).

Lemma chk_payload_s_sound g : chk_payload_s K stranded mode lreads g = true ->
  payload_ok K stranded mode rank (kmer_colour K stranded lreads) g.
Proof.
  unfold chk_payload_s, payload_ok. rewrite forallb_forall. intros H n Hn. specialize (H _ Hn).
  apply andb_true_iff in H as [H1 H2]. split; [now apply sorted_eq_perm_N|]. split.
  - intros Hm k Hk. destruct (mode =? 0) eqn:E; [apply N.eqb_eq in E; contradiction|].
    rewrite forallb_forall in H2. apply N.eqb_eq. now apply H2.
  - intros Hm. subst mode. cbn [N.eqb] in H2. apply existsb_exists in H2 as [k [Hk Hc]]. exists k. split; [exact Hk|].
    now apply N.eqb_eq.
Qed.

Theorem chk_unitig_sound g : chk_unitig K stranded mode lreads g = true ->
  unitig_graph K stranded mode (kmer_colour K stranded lreads) g /\
  payload_ok K stranded mode rank (kmer_colour K stranded lreads) g.
Proof.
  unfold chk_unitig, unitig_graph. intros H.
  apply andb_true_iff in H as [H H5]. apply andb_true_iff in H as [H H4].
  apply andb_true_iff in H as [H H3]. apply andb_true_iff in H as [H1 H2].
  split; [|now apply chk_payload_s_sound].
  split; [now apply Nat.leb_le|]. split.
  - rewrite Forall_forall. rewrite forallb_forall in H2. intros n Hn. specialize (H2 _ Hn).
    unfold node_wfb in H2. apply andb_true_iff in H2 as [Ha Hb]. split; [now apply wf_dnab_sound|now apply Nat.leb_le].
  - split; [now apply chk_unbranched_sound|now apply chk_maximal_sound].
Qed.
End Payload.
