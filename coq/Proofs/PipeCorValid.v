(* pipecor (2): the graphs the model pipelines return are [valid_graph] (Spec/EdgeSpec.v) - every route of [direct] and
   the output of [sharded].
   direct: all routes return the list of route 0 (Proofs/RoutesDirect.v), which is valid (Proofs/E2eEdges.v).
   sharded: the combined shard graph G is loosely valid and carries each retained k-mer once (Proofs/E2eSharded.v), so it
   has C03's [ends_ok] (kmers_once_ends_ok) and hence C09O's [cross_ok]; compress_graph with the congruent pipeline spec
   (pay_reduce, pay_join mode) then returns an [rvalid] graph with [ends_ok] (Proofs/RecompOutMain.v), which is a
   [valid_graph] by the bridge lemma of Proofs/PipeCorBridge.v. *)
From Coq Require Import NArith List Bool Arith Lia Permutation.
From DBG Require Import Spec.Dna Spec.GraphIndex Packed.ExtsModel Algo.Compress Algo.KmerHist Algo.GraphModel Algo.Recompress
  Algo.Pipeline Spec.EdgeSpec Check.GraphCheck Check.PipelineCheck Check.RecompCheck Check.RecompLooseCheck
  Proofs.ListFacts Proofs.GraphQueryProofs Proofs.ValidGraphProofs Proofs.MspProofs Proofs.ShardProofs Proofs.PipelineCheckProofs
  Proofs.RecompOut Proofs.RecompOutEnds Proofs.RecompOutMain
  Proofs.E2eDirect Proofs.E2eEdges Proofs.E2eSharded Proofs.RoutesDirect Proofs.PipeCorBridge.
Import ListNotations.
Local Open Scope nat_scope.

Local Notation gk := PipelineCheck.graph_kmers.

Lemma nodup_gk_kmers_once K st (g : list node_t) : NoDup (gk K st g) -> kmers_once pay K st g.
Proof.
  intro H. unfold kmers_once, g_seqs. rewrite map_map. unfold PipelineCheck.graph_kmers in H.
  rewrite flat_map_concat_map in H. exact H.
Qed.

(* what [assembly_of] alone says in C03's terms: well-formed nodes, every (canonical) k-mer once, hence distinct ends *)
Lemma assembly_wf_graph K st thr mode lreads (g : list node_t) : assembly_of K st thr mode lreads g -> wf_graph pay K g.
Proof.
  intros (_ & (HK & Hwf & _) & _). split; [exact HK|]. intros n Hn. rewrite Forall_forall in Hwf.
  destruct (Hwf n Hn) as [W L]. split; [exact L | exact W].
Qed.
Lemma assembly_nodup K st thr mode lreads (g : list node_t) : assembly_of K st thr mode lreads g -> NoDup (gk K st g).
Proof. intros (Hex & _). exact (graph_exact_nodup K st thr (map fst lreads) g Hex). Qed.
Lemma assembly_ends_ok K st thr mode lreads (g : list node_t) : assembly_of K st thr mode lreads g -> ends_ok pay K st g.
Proof.
  intro A. apply kmers_once_ends_ok; [exact (assembly_wf_graph K st thr mode lreads g A)|].
  apply nodup_gk_kmers_once. exact (assembly_nodup K st thr mode lreads g A).
Qed.

(* ---- direct, every route ---- *)
Theorem direct_route_valid_graph K st thr mode route (lreads : list lread) order g :
  4 <= K -> Forall (fun r => wf_dna (fst r)) lreads -> NoDup order ->
  direct K st thr mode route lreads order = Some g -> valid_graph pay K st g.
Proof.
  intros HK Hwf Hnd H. rewrite (direct_routes_eq K st thr mode lreads order HK Hwf Hnd route 0%N) in H.
  exact (direct_valid_graph K st thr mode lreads order g HK Hwf Hnd H).
Qed.

(* ---- sharded ---- *)
Theorem sharded_out_rvalid max_len K P perm st thr mode variant (lreads : list lread) orders bs gs g :
  params_ok max_len K P -> perm_ok P perm -> 4 <= K -> Forall lread_ok lreads -> Forall (@NoDup dna) orders -> variant <> 1%N ->
  sharded max_len K P perm st thr mode variant lreads orders = Some (bs, gs, g) ->
  rvalid pay K st g /\ ends_ok pay K st g.
Proof.
  intros Hpar Hperm HK Hok Hord Hvar H.
  destruct (sharded_combined_rvalid_loose max_len K P perm st thr mode variant lreads orders bs gs g Hpar Hperm HK Hok Hord Hvar H)
    as (V & Hnd & _).
  unfold sharded in H. destruct (pieces_of max_len K P perm (negb st) lreads) as [ps|]; [|discriminate].
  destruct (omap2 _ (buckets_of ps) orders) as [gs'|]; [|discriminate].
  destruct (compress_graph pay pay_reduce (pay_join mode) K st (combine_graphs gs') None) as [g'|] eqn:Eg; [|discriminate].
  injection H as _ <- <-. unfold compress_graph in Eg.
  destruct (compress_graph_paths pay pay_reduce (pay_join mode) K st (combine_graphs gs') None) as [[o paths]|] eqn:Ec; [|discriminate].
  cbn in Eg. injection Eg as ->.
  assert (Wg : wf_graph pay K (combine_graphs gs')).
  { split; [lia|]. intros n Hn. destruct V as [Hno _]. rewrite Forall_forall in Hno. destruct (Hno n Hn) as (W & L & _). split; [lia | exact W]. }
  assert (EO : ends_ok pay K st (combine_graphs gs')).
  { apply kmers_once_ends_ok; [exact Wg | now apply nodup_gk_kmers_once]. }
  apply (recompress_out_rvalid pay pay_reduce (pay_join mode) K st (congruent_pay mode) (combine_graphs gs') None g' paths V); [|exact Ec].
  now apply ends_ok_cross_ok.
Qed.

Theorem sharded_valid_graph max_len K P perm st thr mode variant (lreads : list lread) orders bs gs g :
  params_ok max_len K P -> perm_ok P perm -> 4 <= K -> Forall lread_ok lreads -> Forall (@NoDup dna) orders -> variant <> 1%N ->
  sharded max_len K P perm st thr mode variant lreads orders = Some (bs, gs, g) ->
  valid_graph pay K st g.
Proof.
  intros Hpar Hperm HK Hok Hord Hvar H.
  destruct (sharded_out_rvalid max_len K P perm st thr mode variant lreads orders bs gs g Hpar Hperm HK Hok Hord Hvar H) as [V EO].
  apply rvalid_ends_valid_graph; [lia | exact V | exact EO].
Qed.

Print Assumptions direct_route_valid_graph.
Print Assumptions sharded_valid_graph.
