(* C20, persistence: the persisted record built by BaseGraph::add (the packed sequence set, the extension and data
   vectors) denotes exactly the nodes that were added - so the queries of a decoded graph are the queries of the
   graph that was encoded. *)
From Coq Require Import NArith List Bool Arith Lia.
From DBG Require Import Spec.Dna Spec.GraphIndex Packed.KmerModel Packed.DnaStringModel Algo.GraphModel Algo.Json Algo.Serde
  Proofs.ListFacts Proofs.DnaStringProofs Proofs.SerdeProofs.
Import ListNotations.
Local Open Scope nat_scope.

Lemma combine_snoc {A B} (l : list A) (m : list B) x y : length l = length m ->
  combine (l ++ [x]) (m ++ [y]) = combine l m ++ [(x, y)].
Proof.
  revert m. induction l as [|a l IH]; intros [|b m] H; try discriminate; [reflexivity|].
  cbn [app combine]. f_equal. apply IH. now inversion H.
Qed.

Lemma sub_app_l {A} i n (l r : list A) : i + n <= length l -> sub i n (l ++ r) = sub i n l.
Proof.
  intros H. unfold sub. rewrite skipn_app. rewrite firstn_app.
  replace (n - length (skipn i l)) with 0 by (rewrite skipn_length; lia). cbn [firstn]. now rewrite app_nil_r.
Qed.
Lemma sub_app_r {A} (l r : list A) : sub (length l) (length r) (l ++ r) = r.
Proof.
  unfold sub. rewrite skipn_app, skipn_all, Nat.sub_diag. cbn [skipn app]. apply firstn_all.
Qed.

Section N.
Variable D : Type.
Notation graph := (graph D).

Definition wf_nodes (ns : graph) : Prop := Forall (fun n => wf_dna (n_seq D n)) ns.

Record bg_inv (b : bgraph D) (ns : graph) : Prop := {
  bi_dinv : d_inv (p_seq (bg_seqs D b));
  bi_len1 : length (p_start (bg_seqs D b)) = length ns;
  bi_len2 : length (p_length (bg_seqs D b)) = length ns;
  bi_len3 : length (bg_exts D b) = length ns;
  bi_len4 : length (bg_data D b) = length ns;
  bi_fit : Forall (fun x => fst x + snd x <= d_len (p_seq (bg_seqs D b))) (combine (p_start (bg_seqs D b)) (p_length (bg_seqs D b)));
  bi_nodes : bg_nodes D b = ns
}.

Lemma bg_add_inv b ns n : bg_inv b ns -> wf_dna (n_seq D n) ->
  exists b', bg_add D b n = Some b' /\ bg_inv b' (ns ++ [n]) /\ bg_stranded D b' = bg_stranded D b.
Proof.
  intros [Hd H1 H2 H3 H4 Hf Hn] Wn. unfold bg_add, p_add.
  assert (W256 : Forall (fun x => (x < 256)%N) (n_seq D n)).
  { unfold wf_dna in Wn. rewrite Forall_forall in *. intros x Hx. specialize (Wn x Hx). lia. }
  destruct (d_push_all_spec (n_seq D n) (p_seq (bg_seqs D b)) Hd W256) as (s' & E & Hd' & Ha).
  rewrite (map_mod4_id _ Wn) in Ha.
  rewrite E. cbn [obind]. eexists. split; [reflexivity|]. split; [|reflexivity].
  assert (Hlen : d_len s' = d_len (p_seq (bg_seqs D b)) + length (n_seq D n)).
  { rewrite <- (d_abs_length s' Hd'), Ha, app_length, (d_abs_length _ Hd). reflexivity. }
  constructor; cbn [bg_seqs bg_exts bg_data p_seq p_start p_length].
  - exact Hd'.
  - rewrite !app_length. cbn [length]. lia.
  - rewrite !app_length. cbn [length]. lia.
  - rewrite !app_length. cbn [length]. lia.
  - rewrite !app_length. cbn [length]. lia.
  - rewrite combine_snoc by lia. apply Forall_app. split.
    + eapply Forall_impl; [|exact Hf]. cbn beta. intros x Hx. lia.
    + constructor; [|constructor]. cbn [fst snd]. lia.
  - unfold bg_nodes. cbn [bg_seqs bg_exts bg_data p_seq p_start p_length].
    rewrite !combine_snoc by (rewrite ?combine_length; lia).
    rewrite map_app. cbn [map fst snd]. rewrite Ha. f_equal.
    + rewrite <- Hn. unfold bg_nodes. apply map_ext_in. intros [[[st ln] e] d] Hin. cbn [fst snd]. f_equal. f_equal.
      apply sub_app_l. rewrite (d_abs_length _ Hd).
      apply in_combine_l in Hin. apply in_combine_l in Hin. rewrite Forall_forall in Hf. apply (Hf (st, ln) Hin).
    + f_equal. destruct n as [[sq e] d]. cbn [n_seq n_exts n_data fst snd]. f_equal. f_equal.
      rewrite <- (d_abs_length _ Hd). apply sub_app_r.
Qed.

Lemma bg_add_all_inv ns' : forall b ns, bg_inv b ns -> wf_nodes ns' ->
  exists b', bg_add_all D b ns' = Some b' /\ bg_inv b' (ns ++ ns') /\ bg_stranded D b' = bg_stranded D b.
Proof.
  induction ns' as [|n r IH]; intros b ns Hi Hw.
  - exists b. rewrite app_nil_r. auto.
  - inversion Hw as [|? ? Wn Wr]; subst.
    destruct (bg_add_inv b ns n Hi Wn) as (b1 & E1 & I1 & S1).
    destruct (IH b1 (ns ++ [n]) I1 Wr) as (b2 & E2 & I2 & S2).
    exists b2. cbn [bg_add_all]. rewrite E1, E2. rewrite <- app_assoc in I2. cbn [app] in I2.
    split; [reflexivity|]. split; [exact I2|congruence].
Qed.

(* BaseGraph::add of well-formed nodes never fails, and the record denotes the nodes *)
Theorem bg_of_nodes_nodes stranded (ns : graph) : wf_nodes ns ->
  exists b, bg_of_nodes D stranded ns = Some b /\ bg_nodes D b = ns /\ bg_stranded D b = stranded.
Proof.
  intros Hw. unfold bg_of_nodes.
  assert (I0 : bg_inv (bg_new D stranded) []).
  { constructor; cbn; try reflexivity; [apply d_inv_new|constructor]. }
  destruct (bg_add_all_inv ns (bg_new D stranded) [] I0 Hw) as (b & E & I & S).
  exists b. split; [exact E|]. split; [exact (bi_nodes _ _ I)|exact S].
Qed.

(* persisting a graph and reading it back gives a graph that answers every query as the original nodes do *)
Theorem persisted_graph_queries (enc_d : D -> jtree) (dec_d : jtree -> option D) (K : nat) stranded (ns : graph) :
  (forall d, dec_d (enc_d d) = Some d) -> wf_nodes ns ->
  exists b b', bg_of_nodes D stranded ns = Some b /\ dec_bgraph D dec_d (enc_bgraph D enc_d b) = Some b' /\
    (forall kmer d, find_link D K (bg_stranded D b') (bg_nodes D b') kmer d = find_link D K stranded ns kmer d) /\
    (forall id d, find_edges D K (bg_stranded D b') (bg_nodes D b') id d = find_edges D K stranded ns id d).
Proof.
  intros Hd Hw. destruct (bg_of_nodes_nodes stranded ns Hw) as (b & E & Hn & Hs).
  exists b, b. split; [exact E|]. split; [now apply Proofs.SerdeProofs.bgraph_roundtrip|].
  rewrite Hn, Hs. auto.
Qed.
End N.
