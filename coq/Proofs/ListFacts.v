(* List lemmas missing from the 8.16 standard library, and facts about sub/kmer_at/splice/rc. *)
From Coq Require Import NArith List Bool Arith Lia.
From DBG Require Import Spec.Dna.
Import ListNotations.

Lemma nth_firstn_lt {A} (l : list A) d n i : (i < n)%nat -> nth i (firstn n l) d = nth i l d.
Proof. revert l i; induction n as [|n IH]; intros [|x l] [|i] H; simpl; try lia; auto. apply IH; lia. Qed.
Lemma nth_skipn_' {A} (l : list A) d k i : nth i (skipn k l) d = nth (k + i) l d.
Proof. revert l; induction k as [|k IH]; intros [|x l]; simpl; auto. destruct i; reflexivity. Qed.
Lemma skipn_skipn {A} a b (l : list A) : skipn a (skipn b l) = skipn (b + a) l.
Proof. revert l; induction b as [|b IH]; intros [|x l]; cbn; auto. now destruct a. Qed.

Lemma firstn_app_exact {A} (a b : list A) n : n = length a -> firstn n (a ++ b) = a.
Proof. intros ->. rewrite firstn_app, Nat.sub_diag, firstn_all. cbn. apply app_nil_r. Qed.
Lemma skipn_app_exact {A} (a b : list A) n : n = length a -> skipn n (a ++ b) = b.
Proof. intros ->. rewrite skipn_app, Nat.sub_diag, skipn_all. reflexivity. Qed.

Lemma map_nth_seq {A} (l : list A) d : map (fun p => nth p l d) (seq 0 (length l)) = l.
Proof.
  induction l as [|x l IH]; [reflexivity|]. cbn [length seq map nth]. f_equal.
  rewrite <- seq_shift, map_map. exact IH.
Qed.

Lemma splice_nil {A} pos (l : list A) : (pos <= length l)%nat -> splice pos [] l = l.
Proof. intro H. unfold splice. cbn [length app]. rewrite Nat.add_0_r. apply firstn_skipn. Qed.

Lemma firstn_S_mid {A} (a : list A) b c i : length a = i -> firstn (S i) (a ++ b :: c) = a ++ [b].
Proof. revert i; induction a as [|x a IH]; intros i H; subst; cbn; [reflexivity|]. f_equal. now apply IH. Qed.
Lemma skipn_S_mid {A} (a : list A) b c i m : length a = i -> skipn (S i + m) (a ++ b :: c) = skipn m c.
Proof. revert i; induction a as [|x a IH]; intros i H; subst; cbn; [reflexivity|]. now apply IH. Qed.

Lemma splice_step {A} i (b : A) l d : (i < length d)%nat ->
  splice (S i) l (upd i d b) = splice i (b :: l) d.
Proof.
  intro Hi. unfold splice, upd.
  assert (Hf : length (firstn i d) = i) by (rewrite firstn_length; lia).
  rewrite firstn_S_mid by exact Hf. rewrite skipn_S_mid by exact Hf.
  rewrite <- app_assoc. cbn [app length]. f_equal. f_equal. f_equal.
  rewrite skipn_skipn. f_equal. lia.
Qed.

Lemma splice_all {A} (l d : list A) : length l = length d -> splice 0 l d = l.
Proof. intro H. unfold splice. cbn [firstn app]. rewrite Nat.add_0_l, H, skipn_all. apply app_nil_r. Qed.

Lemma upd_length {A} i (l : list A) x : (i < length l)%nat -> length (upd i l x) = length l.
Proof. intro H. unfold upd. rewrite app_length, firstn_length. cbn [length]. rewrite skipn_length. lia. Qed.

Lemma sub_length {A} i n (l : list A) : (i + n <= length l)%nat -> length (sub i n l) = n.
Proof. intro H. unfold sub. rewrite firstn_length, skipn_length. lia. Qed.

Lemma skipn_S_nth {A} i (l : list A) d : (i < length l)%nat -> skipn i l = nth i l d :: skipn (S i) l.
Proof.
  revert l; induction i as [|i IH]; intros [|x l] H; cbn in *; try lia; [reflexivity|]. apply IH. lia.
Qed.

Lemma firstn_S_snoc {A} n (l : list A) d : (n < length l)%nat -> firstn (S n) l = firstn n l ++ [nth n l d].
Proof.
  revert l; induction n as [|n IH]; intros [|x l] H; cbn in *; try lia; [reflexivity|]. f_equal. apply IH. lia.
Qed.

(* sliding a window one step to the right *)
Lemma kmer_at_shift K (l : dna) i : (0 < K)%nat -> (i + K < length l)%nat ->
  extend_right (kmer_at K l i) (nth (i + K) l 0%N) = kmer_at K l (S i).
Proof.
  intros HK H. unfold extend_right, kmer_at, sub.
  rewrite (skipn_S_nth i l 0%N) by lia. destruct K as [|K]; [lia|]. cbn [firstn tl].
  assert (Hlen : (K < length (skipn (S i) l))%nat) by (rewrite skipn_length; lia).
  change (match skipn (S i) l with [] => [] | a :: l0 => a :: firstn K l0 end) with (firstn (S K) (skipn (S i) l)).
  rewrite (firstn_S_snoc K (skipn (S i) l) 0%N Hlen). f_equal. f_equal.
  rewrite nth_skipn_'. f_equal. lia.
Qed.

Lemma comp_involutive b : (b < 4)%N -> comp (comp b) = b.
Proof. unfold comp. lia. Qed.
Lemma comp_lt4 b : (comp b < 4)%N.
Proof. unfold comp. lia. Qed.
Lemma rc_length l : length (rc l) = length l.
Proof. unfold rc. now rewrite map_length, rev_length. Qed.
Lemma rc_wf l : wf_dna (rc l).
Proof. unfold wf_dna, rc. apply Forall_forall. intros b Hb. apply in_map_iff in Hb as [x [<- _]]. apply comp_lt4. Qed.
Lemma rc_involutive l : wf_dna l -> rc (rc l) = l.
Proof.
  intro H. unfold rc. rewrite <- map_rev, rev_involutive, map_map.
  rewrite <- (map_id l) at 2. apply map_ext_in. intros b Hb. apply comp_involutive.
  unfold wf_dna in H. rewrite Forall_forall in H. auto.
Qed.
Lemma rc_nth l i : (i < length l)%nat -> nth i (rc l) 0%N = comp (nth (length l - 1 - i) l 0%N).
Proof.
  intro H. unfold rc. rewrite (nth_indep _ 0%N (comp 0%N)) by (rewrite map_length, rev_length; lia).
  rewrite map_nth. f_equal. rewrite rev_nth by lia. f_equal. lia.
Qed.
Lemma rc_app a b : rc (a ++ b) = rc b ++ rc a.
Proof. unfold rc. now rewrite rev_app_distr, map_app. Qed.

Lemma nth_sub {A} i n (l : list A) d p : (p < n)%nat -> nth p (sub i n l) d = nth (i + p) l d.
Proof. intro H. unfold sub. rewrite nth_firstn_lt by exact H. apply nth_skipn_'. Qed.

(* the i-th k-mer of the reverse complement *)
Lemma kmer_at_rc K l i : (i + K <= length l)%nat ->
  kmer_at K (rc l) i = rc (kmer_at K l (length l - K - i)).
Proof.
  intro H. unfold kmer_at. apply (nth_ext _ _ 0%N 0%N).
  - rewrite rc_length, !sub_length; rewrite ?rc_length; lia.
  - intros p Hp. rewrite sub_length in Hp by (rewrite rc_length; lia).
    rewrite nth_sub by exact Hp. rewrite rc_nth by lia.
    rewrite rc_nth by (rewrite sub_length; lia). rewrite sub_length by lia.
    rewrite nth_sub by lia. f_equal. f_equal. lia.
Qed.

Lemma in_firstn {A} (x : A) n l : In x (firstn n l) -> In x l.
Proof. intro H. rewrite <- (firstn_skipn n l). apply in_or_app. now left. Qed.
Lemma in_skipn {A} (x : A) n l : In x (skipn n l) -> In x l.
Proof. intro H. rewrite <- (firstn_skipn n l). apply in_or_app. now right. Qed.

Lemma nth_upd {A} i j (l : list A) x d : (i < length l)%nat ->
  nth j (upd i l x) d = if Nat.eqb j i then x else nth j l d.
Proof.
  intro Hi. unfold upd. assert (Hf : length (firstn i l) = i) by (rewrite firstn_length; lia).
  destruct (Nat.eqb_spec j i) as [->|Hne].
  - rewrite app_nth2 by lia. rewrite Hf, Nat.sub_diag. reflexivity.
  - destruct (Nat.lt_ge_cases j i).
    + rewrite app_nth1 by lia. now apply nth_firstn_lt.
    + rewrite app_nth2 by lia. rewrite Hf. replace (j - i)%nat with (S (j - i - 1)) by lia. cbn [nth].
      rewrite nth_skipn_'. f_equal. lia.
Qed.
Lemma firstn_upd {A} n i (l : list A) x : (i < n)%nat -> (i < length l)%nat -> firstn n (upd i l x) = upd i (firstn n l) x.
Proof.
  intros Hin Hi. destruct l as [|d l']; [cbn in Hi; lia|]. set (l := d :: l') in *.
  assert (Hl1 : length (firstn n (upd i l x)) = Nat.min n (length l)) by (rewrite firstn_length, upd_length; lia).
  assert (Hl2 : length (upd i (firstn n l) x) = Nat.min n (length l)) by (rewrite upd_length; rewrite firstn_length; lia).
  apply (nth_ext _ _ d d); [lia|]. intros j Hj. rewrite Hl1 in Hj.
  rewrite nth_firstn_lt by lia. rewrite !nth_upd by (rewrite ?firstn_length; lia).
  destruct (Nat.eqb j i); [reflexivity|]. now rewrite nth_firstn_lt by lia.
Qed.
Lemma skipn_upd {A} n i (l : list A) x : (i < n)%nat -> (i < length l)%nat -> skipn n (upd i l x) = skipn n l.
Proof.
  intros Hin Hi. unfold upd. rewrite skipn_app, firstn_length. replace (Nat.min i (length l)) with i by lia.
  rewrite skipn_all2 by (rewrite firstn_length; lia). cbn [app].
  replace (n - i)%nat with (S (n - i - 1)) by lia. rewrite skipn_cons. rewrite skipn_skipn. f_equal. lia.
Qed.
Lemma Forall_upd {A} (P : A -> Prop) i (l : list A) x : Forall P l -> P x -> Forall P (upd i l x).
Proof.
  intros Hl Hx. unfold upd. apply Forall_app. split.
  - apply Forall_forall. intros y Hy. rewrite Forall_forall in Hl. apply Hl. eapply in_firstn; eauto.
  - constructor; [exact Hx|]. apply Forall_forall. intros y Hy. rewrite Forall_forall in Hl. apply Hl. eapply in_skipn; eauto.
Qed.
Lemma upd_app_last {A} (l : list A) y x : upd (length l) (l ++ [y]) x = l ++ [x].
Proof. unfold upd. rewrite firstn_app_exact by reflexivity. rewrite skipn_all2 by (rewrite app_length; cbn; lia). reflexivity. Qed.
Lemma firstn_S_upd {A} n (l : list A) x : (n < length l)%nat -> firstn (S n) (upd n l x) = firstn n l ++ [x].
Proof.
  intro H. unfold upd. apply firstn_S_mid. rewrite firstn_length. lia.
Qed.

Lemma app_inj_length {A} (a b c d : list A) : length a = length c -> a ++ b = c ++ d -> a = c /\ b = d.
Proof.
  revert c; induction a as [|x a IH]; destruct c as [|y c]; cbn; intros Hl H; try discriminate; auto.
  injection H as -> H. destruct (IH c) as [-> ->]; auto.
Qed.
