(* C16: the strict constructor from_dna_only_string returns exactly the maximal ACGT runs of its input
   (model of the repaired code: for every text, no ASCII hypothesis); the unrepaired code needs all chars
   < 128, and is refuted on "GŁG" (finding F6). *)
From Coq Require Import NArith List Bool Arith Lia.
From DBG Require Import Gen.SourceConsts Spec.Dna Spec.Ascii Packed.KmerModel Packed.Avx2Model Packed.AsciiModel
  Proofs.ListFacts Proofs.AsciiConvert Proofs.AsciiPaths Proofs.AsciiPush.
Import ListNotations.
Open Scope N_scope.

(* ------------------------------------------------------------------ runs with a pending prefix *)
Section Runs.
Context {A : Type} (p : A -> bool).
Definition flush (cur : list A) : list (list A) := match cur with [] => [] | _ => [cur] end.
Fixpoint runs_acc (cur l : list A) : list (list A) :=
  match l with
  | [] => flush cur
  | x :: r => if p x then runs_acc (cur ++ [x]) r else flush cur ++ runs_acc [] r
  end.

Lemma runs_all c : forallb p c = true -> runs p c = flush c.
Proof.
  induction c as [|a c IH]; intro H; [reflexivity|]. cbn [forallb] in H. apply andb_prop in H as [Ha Hc].
  cbn [runs]. rewrite Ha. destruct c as [|a' c']; [reflexivity|].
  cbn [forallb] in Hc. apply andb_prop in Hc as [Ha' Hc']. rewrite Ha'.
  rewrite IH by (cbn [forallb]; now rewrite Ha', Hc'). reflexivity.
Qed.
Lemma runs_app_sep c x r : forallb p c = true -> p x = false -> runs p (c ++ x :: r) = flush c ++ runs p r.
Proof.
  induction c as [|a c IH]; intros H Hx.
  - cbn [app runs flush]. now rewrite Hx.
  - cbn [forallb] in H. apply andb_prop in H as [Ha Hc]. cbn [app runs]. rewrite Ha.
    destruct c as [|a' c'].
    + cbn [app]. rewrite Hx. cbn [runs flush app]. now rewrite Hx.
    + cbn [forallb] in Hc. apply andb_prop in Hc as [Ha' Hc']. cbn [app]. rewrite Ha'.
      change (a' :: c' ++ x :: r) with ((a' :: c') ++ x :: r).
      rewrite IH by (cbn [forallb]; rewrite ?Ha', ?Hc'; auto). reflexivity.
Qed.
Lemma runs_acc_spec l : forall cur, forallb p cur = true -> runs_acc cur l = runs p (cur ++ l).
Proof.
  induction l as [|x r IH]; intros cur H.
  - rewrite app_nil_r. cbn [runs_acc]. now rewrite runs_all.
  - cbn [runs_acc]. destruct (p x) eqn:Hx.
    + rewrite IH by (rewrite forallb_app, H; cbn; now rewrite Hx). now rewrite <- app_assoc.
    + rewrite (IH [] eq_refl). now rewrite runs_app_sep.
Qed.
Lemma runs_junk_prefix junk l : forallb (fun x => negb (p x)) junk = true -> runs p (junk ++ l) = runs p l.
Proof.
  induction junk as [|x junk IH]; intro H; [reflexivity|]. cbn [forallb] in H. apply andb_prop in H as [Hx Hj].
  cbn [app runs]. destruct (p x); [discriminate | auto].
Qed.
Lemma runs_app_junk_nil junk : forallb (fun x => negb (p x)) junk = true -> runs p junk = [].
Proof. intro H. rewrite <- (app_nil_r junk). now rewrite runs_junk_prefix. Qed.
End Runs.

(* [runs] meets the declarative description of maximal runs *)
Theorem runs_maximal {A} (p : A -> bool) l : runs_of p l (runs p l).
Proof.
  assert (G : forall n l, (length l <= n)%nat -> runs_of p l (runs p l)); [| exact (G _ l (le_n _))].
  clear l. induction n as [|n IH]; intros l Hn.
  - destruct l; [| cbn in Hn; lia]. apply (runs_nil p []). reflexivity.
  - (* split l = junk ++ r ++ rest *)
    assert (S1 : exists junk l1, l = junk ++ l1 /\ forallb (fun x => negb (p x)) junk = true /\
                                 match l1 with [] => True | x :: _ => p x = true end).
    { clear. induction l as [|x l [junk [l1 (E & J & H)]]]; [exists [], []; auto|].
      destruct (p x) eqn:Hx; [exists [], (x :: l); cbn; auto|].
      exists (x :: junk), l1. subst. cbn. rewrite Hx, J. auto. }
    destruct S1 as (junk & l1 & -> & J & H1).
    destruct l1 as [|x l1].
    + rewrite app_nil_r. rewrite (runs_app_junk_nil p junk J). now apply runs_nil.
    + assert (S2 : exists r rest, x :: l1 = r ++ rest /\ forallb p r = true /\ r <> [] /\
                                  match rest with [] => True | y :: _ => p y = false end).
      { clear - H1. revert x H1. induction l1 as [|y l1 IHl]; intros x Hx.
        - exists [x], []. cbn. rewrite Hx. repeat split; auto. discriminate.
        - destruct (p y) eqn:Hy.
          + destruct (IHl y Hy) as (r & rest & E & R & _ & T). exists (x :: r), rest.
            rewrite E. cbn. rewrite Hx, R. repeat split; auto. discriminate.
          + exists [x], (y :: l1). cbn. rewrite Hx. repeat split; auto. discriminate. }
      destruct S2 as (r & rest & E & R & Rn & T). rewrite E.
      assert (HR : runs p (junk ++ r ++ rest) = r :: runs p rest).
      { rewrite runs_junk_prefix by exact J. destruct rest as [|y rest'].
        - rewrite app_nil_r, runs_all by exact R. destruct r; [congruence | reflexivity].
        - rewrite runs_app_sep by assumption. cbn [runs]. rewrite T. destruct r; [congruence | reflexivity]. }
      rewrite HR. apply runs_cons; auto. apply IH.
      rewrite E, !app_length in Hn. destruct r; [congruence|]. cbn [length] in Hn. lia.
Qed.

Lemma runs_decompose {A} (p : A -> bool) junk r rest :
  forallb (fun x => negb (p x)) junk = true -> r <> [] -> forallb p r = true ->
  match rest with [] => True | y :: _ => p y = false end ->
  runs p (junk ++ r ++ rest) = r :: runs p rest.
Proof.
  intros J Rn R T. rewrite runs_junk_prefix by exact J. destruct rest as [|y rest'].
  - rewrite app_nil_r, runs_all by exact R. destruct r; [congruence | reflexivity].
  - rewrite runs_app_sep by assumption. cbn [runs]. rewrite T. destruct r; [congruence | reflexivity].
Qed.
(* ... and the declarative description determines the result: the specification is unambiguous *)
Theorem runs_unique {A} (p : A -> bool) l rs : runs_of p l rs -> rs = runs p l.
Proof.
  induction 1 as [junk J | junk r rest rs J Rn R T _ IH].
  - symmetry. now apply runs_app_junk_nil.
  - rewrite runs_decompose by assumption. now f_equal.
Qed.

(* ------------------------------------------------------------------ the loop of from_dna_only_string *)
Lemma ascii_valid_lt128 c : ascii_valid c = true -> c < 128.
Proof.
  destruct c as [|p]; [discriminate|].
  do 7 (try (destruct p as [p|p|]; try (cbn; (discriminate || lia)))).
Qed.

Definition only_step (classify : N -> option N) (acc : option (list dstr * dstr)) (c : N) :=
  do st <- acc;
  let '(vector, cur) := st in
  match classify c with
  | Some bit => do cur' <- ds_push cur bit; Some (vector, cur')
  | None => if Nat.eqb (ds_len cur) 0 then Some (vector, cur) else Some (vector ++ [cur], ds_new)
  end.
Definition only_finish (st : list dstr * dstr) : option (list dstr) :=
  let '(vector, cur) := st in Some (if Nat.eqb (ds_len cur) 0 then vector else vector ++ [cur]).

Lemma only_gen_unfold classify text :
  only_gen classify text = (do st <- fold_left (only_step classify) text (Some ([], ds_new)); only_finish st).
Proof. reflexivity. Qed.

Lemma flush_map (curT : list N) :
  map ds_of_dna (map (map ascii_base) (flush curT)) =
  if Nat.eqb (length curT) 0 then [] else [ds_of_dna (map ascii_base curT)].
Proof. destruct curT; reflexivity. Qed.

Lemma only_loop classify text : forall vec curT,
  (forall c, In c text -> classify c = if ascii_valid c then Some (ascii_base c) else None) ->
  (do st <- fold_left (only_step classify) text (Some (vec, ds_of_dna (map ascii_base curT))); only_finish st) =
  Some (vec ++ map ds_of_dna (map (map ascii_base) (runs_acc ascii_valid curT text))).
Proof.
  induction text as [|c r IH]; intros vec curT Hc.
  - cbn [fold_left obind only_finish runs_acc]. rewrite flush_map. cbn [ds_len ds_of_dna]. rewrite map_length.
    destruct (Nat.eqb (length curT) 0); [now rewrite app_nil_r | reflexivity].
  - cbn [fold_left runs_acc]. unfold only_step at 2. cbn [obind].
    rewrite (Hc c (or_introl eq_refl)).
    assert (Hr : forall c', In c' r -> classify c' = if ascii_valid c' then Some (ascii_base c') else None)
      by (intros; apply Hc; now right).
    destruct (ascii_valid c) eqn:Hv.
    + rewrite push_spec by (apply ascii_bases_wf || apply ascii_base_lt4). cbn [obind].
      replace (map ascii_base curT ++ [ascii_base c]) with (map ascii_base (curT ++ [c])) by now rewrite map_app.
      apply IH. exact Hr.
    + change ds_new with (ds_of_dna (map ascii_base [])). cbn [ds_len ds_of_dna]. rewrite map_length, !map_app, flush_map.
      destruct (Nat.eqb (length curT) 0) eqn:E.
      * apply Nat.eqb_eq in E. destruct curT; [| discriminate]. cbn [app]. apply (IH vec [] Hr).
      * rewrite (IH (vec ++ [ds_of_dna (map ascii_base curT)]) [] Hr). now rewrite <- app_assoc.
Qed.

Lemma only_gen_spec classify text :
  (forall c, In c text -> classify c = if ascii_valid c then Some (ascii_base c) else None) ->
  only_gen classify text = Some (map ds_of_dna (acgt_runs text)).
Proof.
  intro Hc. rewrite only_gen_unfold. change ds_new with (ds_of_dna (map ascii_base [])).
  rewrite (only_loop classify text [] [] Hc).
  cbn [app]. unfold acgt_runs. now rewrite runs_acc_spec.
Qed.

Lemma classify_char_ok c : classify_char c = if ascii_valid c then Some (ascii_base c) else None.
Proof.
  unfold classify_char, char_as_u8. destruct (N.ltb c 128) eqn:E.
  - apply N.ltb_lt in E. rewrite N.mod_small by lia. apply tables_ok. lia.
  - apply N.ltb_ge in E. destruct (ascii_valid c) eqn:V; [| reflexivity].
    apply ascii_valid_lt128 in V. lia.
Qed.

(* repaired code: for every text (any code points) *)
Theorem dna_only_runs text : from_dna_only_string text = Some (map ds_of_dna (acgt_runs text)).
Proof. apply only_gen_spec. intros c _. apply classify_char_ok. Qed.

(* and each returned string reads back as its run *)
Corollary dna_only_runs_bytes text :
  (do v <- from_dna_only_string text; omapM ds_to_bytes v) = Some (acgt_runs text).
Proof.
  rewrite dna_only_runs. cbn [obind]. unfold acgt_runs.
  induction (runs ascii_valid text) as [|r rs IH]; [reflexivity|].
  cbn [map omapM]. rewrite AsciiRender.ds_to_bytes_spec by apply ascii_bases_wf. cbn [obind].
  rewrite IH. reflexivity.
Qed.

(* the code before the repair: only under the hypothesis that the text is ASCII ... *)
Theorem dna_only_runs_old text : Forall (fun c => c < 128) text ->
  from_dna_only_string_old text = Some (map ds_of_dna (acgt_runs text)).
Proof.
  intro Ha. apply only_gen_spec. intros c Hc. rewrite Forall_forall in Ha. specialize (Ha c Hc).
  unfold classify_char_old, char_as_u8. rewrite N.mod_small by lia. apply tables_ok. lia.
Qed.
(* ... and not without it: U+0141 is taken for 'A' ("GŁG" gives ["GAG"], the runs are ["G"; "G"]) *)
Theorem dna_only_nonascii_refuted :
  exists text, from_dna_only_string_old text <> Some (map ds_of_dna (acgt_runs text)) /\
               from_dna_only_string_old text = Some [ds_of_dna [2; 0; 2]] /\ acgt_runs text = [[2]; [2]].
Proof. exists [71; 321; 71]. split; [| split]; vm_compute; (reflexivity || discriminate). Qed.
