(* Block-level facts lifted to all values, and the list view of a vector of blocks. *)
From Coq Require Import NArith List Bool Arith Lia.
From DBG Require Import Bits.SymBV Spec.Dna Packed.KmerModel Packed.Blocks Proofs.ListFacts Proofs.KmerLanes Proofs.KmerSweeps
  Proofs.KmerOps Proofs.BlockSweeps.
Import ListNotations.
Open Scope N_scope.

Lemma c64_shipped : In c64 shipped.
Proof. vm_compute. auto 20. Qed.
Lemma wf64 w : w < two64 <-> wf 32 w.
Proof. unfold wf, two64. change (N.of_nat (2 * 32)) with 64. tauto. Qed.

Lemma in_seq32 pos : (pos < 32)%nat -> In pos (seq 0 32).
Proof. intro H. apply in_seq. lia. Qed.

Lemma bget_lift oe pos w : chk_bget oe pos = true -> w < two64 -> (pos < 32)%nat ->
  run oe w 0 = Some (nth pos (decode 32 w) 0).
Proof.
  intros H Hw Hp. unfold chk_bget in H. unfold run. destruct oe as [e|]; [|discriminate].
  apply andb_prop in H as [Hsh He]. cbn [obind]. rewrite Hsh. f_equal.
  apply wf64 in Hw.
  assert (Hb : bounded (env2 w 0) (bnd_k 32 0)) by (apply bounded_k; [assumption | cbn; lia]).
  pose proof (evalS_sound _ _ e Hb) as HR.
  set (p := nth pos (stoS c64) (BF, BF)) in *.
  assert (HR' : R (rho_of (env2 w 0)) [fst p; snd p] (evalN (env2 w 0) e)).
  { intro i. rewrite HR. now rewrite (sbv_eqb_bit _ _ i He). }
  rewrite (R_val _ _ _ HR'). cbn [sbv_val fold_right]. rewrite N.mul_0_r, N.add_0_r.
  change (N.b2n (beval (rho_of (env2 w 0)) (fst p)) + 2 * N.b2n (beval (rho_of (env2 w 0)) (snd p)))
    with (pv (rho_of (env2 w 0)) p).
  change (decode 32 w) with (decode (kK c64) w). rewrite <- (stoS_decode c64 w 0 c64_shipped Hw). subst p.
  symmetry. apply (nth_map_lt (pv (rho_of (env2 w 0))) (stoS c64) 0 (BF, BF)). unfold stoS. now rewrite lanesS_length.
Qed.

Theorem block_get_spec w pos : w < two64 -> (pos < 32)%nat -> block_get w pos = Some (nth pos (decode 32 w) 0).
Proof.
  intros Hw Hp. pose proof sweep_block_get as H. rewrite forallb_forall in H. specialize (H pos (in_seq32 pos Hp)).
  apply andb_prop in H as [H _]. now apply bget_lift.
Qed.
Theorem ds_get_spec w pos : w < two64 -> (pos < 32)%nat -> ds_get w (2 * pos) = Some (nth pos (decode 32 w) 0).
Proof.
  intros Hw Hp. pose proof sweep_block_get as H. rewrite forallb_forall in H. specialize (H pos (in_seq32 pos Hp)).
  apply andb_prop in H as [_ H]. now apply bget_lift.
Qed.

Theorem block_set_spec w pos v : w < two64 -> (pos < 32)%nat -> v < 4 ->
  exists r, block_set w pos v = Some r /\ r < two64 /\ decode 32 r = upd pos (decode 32 w) v.
Proof.
  intros Hw Hp Hv. pose proof sweep_block_set as H. rewrite forallb_forall in H. specialize (H pos (in_seq32 pos Hp)).
  apply andb_prop in H as [H _]. apply wf64 in Hw.
  destruct (lane_check_lift c64 2 _ _ w v H Hw Hv) as [r [Hr [Hwf Hd]]].
  exists r. split; [exact Hr|]. split; [now apply wf64|].
  change (kK c64) with 32%nat in Hd. rewrite Hd, upd_map, (stoS_decode c64 w v c64_shipped Hw). f_equal. f_equal.
  apply pv_var2. exact Hv.
Qed.
Lemma pv_var2_mod env v : pv (rho_of env) (BV v 0, BV v 1) = env v mod 4.
Proof. unfold pv, rho_of. cbn [fst snd beval]. now rewrite mod4_bits. Qed.
Theorem ds_set_spec w pos v : w < two64 -> (pos < 32)%nat -> v < 256 ->
  exists r, ds_set w (2 * pos) v = Some r /\ r < two64 /\ decode 32 r = upd pos (decode 32 w) (v mod 4).
Proof.
  intros Hw Hp Hv. pose proof sweep_block_set as H. rewrite forallb_forall in H. specialize (H pos (in_seq32 pos Hp)).
  apply andb_prop in H as [_ H]. apply wf64 in Hw.
  destruct (lane_check_lift c64 8 _ _ w v H Hw Hv) as [r [Hr [Hwf Hd]]].
  exists r. split; [exact Hr|]. split; [now apply wf64|].
  change (kK c64) with 32%nat in Hd. rewrite Hd, upd_map, (stoS_decode c64 w v c64_shipped Hw). f_equal. f_equal.
  apply pv_var2_mod.
Qed.
Theorem window_spec w bp : w < two64 -> (bp < 32)%nat ->
  exists r, window w bp = Some r /\ r < two64 /\ decode 32 r = skipn bp (decode 32 w) ++ repeat 0 bp.
Proof.
  intros Hw Hp. pose proof sweep_window as H. rewrite forallb_forall in H. specialize (H bp (in_seq32 bp Hp)).
  apply wf64 in Hw.
  destruct (lane_check_lift c64 0 _ _ w 0 H Hw ltac:(cbn; lia)) as [r [Hr [Hwf Hd]]].
  exists r. split; [exact Hr|]. split; [now apply wf64|].
  change (kK c64) with 32%nat in Hd. rewrite Hd, map_app, <- skipn_map, (stoS_decode c64 w 0 c64_shipped Hw). f_equal.
  clear. induction bp as [|bp IH]; [reflexivity|]. cbn [repeat map]. now rewrite IH.
Qed.

(* ---------------------------------------------------------------- vectors of blocks *)
Lemma lanes_of_length ws : length (lanes_of ws) = (32 * length ws)%nat.
Proof. unfold lanes_of. induction ws as [|w ws IH]; [reflexivity|]. cbn [map concat length]. rewrite app_length, decode_length, IH. lia. Qed.
Lemma lanes_of_app a b : lanes_of (a ++ b) = lanes_of a ++ lanes_of b.
Proof. unfold lanes_of. now rewrite map_app, concat_app. Qed.
Lemma lanes_of_cons w ws : lanes_of (w :: ws) = decode 32 w ++ lanes_of ws.
Proof. reflexivity. Qed.

Lemma nth_lanes_of ws : forall b o d, (o < 32)%nat -> (b < length ws)%nat ->
  nth (32 * b + o) (lanes_of ws) d = nth o (decode 32 (nth b ws 0)) d.
Proof.
  induction ws as [|w ws IH]; intros b o d Ho Hb; [cbn in Hb; lia|].
  rewrite lanes_of_cons. destruct b as [|b].
  - rewrite Nat.mul_0_r, Nat.add_0_l. rewrite app_nth1 by (rewrite decode_length; lia). reflexivity.
  - rewrite app_nth2 by (rewrite decode_length; lia). rewrite decode_length.
    replace (32 * S b + o - 32)%nat with (32 * b + o)%nat by lia. cbn [nth]. apply IH; [exact Ho | cbn in Hb; lia].
Qed.

Lemma nth_opt_some {A} (l : list A) i d : (i < length l)%nat -> nth_opt l i = Some (nth i l d).
Proof. unfold nth_opt. revert i; induction l as [|x l IH]; intros [|i] H; cbn in *; try lia; auto. apply IH. lia. Qed.
Lemma set_nth_some {A} (l : list A) : forall i x, (i < length l)%nat -> set_nth l i x = Some (upd i l x).
Proof.
  induction l as [|y l IH]; intros [|i] x H; cbn in *; try lia; [reflexivity|].
  rewrite IH by lia. reflexivity.
Qed.

Lemma lanes_of_upd ws b w' : (b < length ws)%nat ->
  lanes_of (upd b ws w') = firstn (32 * b) (lanes_of ws) ++ decode 32 w' ++ skipn (32 * S b) (lanes_of ws).
Proof.
  revert b; induction ws as [|w ws IH]; intros b Hb; [cbn in Hb; lia|]. destruct b as [|b].
  - unfold upd. cbn [firstn skipn app]. rewrite !lanes_of_cons. cbn [Nat.mul firstn app].
    rewrite skipn_app_exact by (rewrite decode_length; reflexivity). reflexivity.
  - unfold upd in *. cbn [firstn skipn app]. rewrite !lanes_of_cons. rewrite IH by (cbn in Hb; lia).
    assert (F : forall n L, firstn (32 + n) (decode 32 w ++ L) = decode 32 w ++ firstn n L).
    { intros n L. rewrite <- (decode_length 32 w) at 1. apply firstn_app_2. }
    assert (S' : forall n L, skipn (32 + n) (decode 32 w ++ L) = skipn n L).
    { intros n L. rewrite skipn_app, decode_length. rewrite skipn_all2 by (rewrite decode_length; lia).
      replace (32 + n - 32)%nat with n by lia. reflexivity. }
    replace (32 * S b)%nat with (32 + 32 * b)%nat by lia.
    replace (32 * S (S b))%nat with (32 + (32 + 32 * b))%nat by lia.
    rewrite F, S', <- app_assoc. reflexivity.
Qed.

(* updating one lane of block b *)
Lemma lanes_of_upd_lane ws b o w' v : (b < length ws)%nat -> (o < 32)%nat ->
  decode 32 w' = upd o (decode 32 (nth b ws 0)) v ->
  lanes_of (upd b ws w') = upd (32 * b + o) (lanes_of ws) v.
Proof.
  intros Hb Ho Hd. rewrite lanes_of_upd by exact Hb. rewrite Hd.
  apply (nth_ext _ _ 0 0).
  - rewrite !app_length, firstn_length, skipn_length, !upd_length; rewrite ?decode_length, ?lanes_of_length; lia.
  - intros i Hi.
    rewrite !app_length, firstn_length, skipn_length, upd_length in Hi by (rewrite decode_length; lia).
    rewrite decode_length, lanes_of_length in Hi.
    assert (Hlen : length (firstn (32 * b) (lanes_of ws)) = (32 * b)%nat) by (rewrite firstn_length, lanes_of_length; lia).
    unfold upd at 2.
    assert (Hlen2 : length (firstn (32 * b + o) (lanes_of ws)) = (32 * b + o)%nat) by (rewrite firstn_length, lanes_of_length; lia).
    destruct (Nat.lt_ge_cases i (32 * b)) as [H1|H1].
    + rewrite app_nth1 by lia. rewrite app_nth1 by lia. rewrite !nth_firstn_lt by lia. reflexivity.
    + rewrite app_nth2 by lia. rewrite Hlen.
      destruct (Nat.lt_ge_cases i (32 * S b)) as [H2|H2].
      * rewrite app_nth1 by (rewrite upd_length; rewrite decode_length; lia).
        unfold upd. 
        assert (Hl3 : length (firstn o (decode 32 (nth b ws 0))) = o) by (rewrite firstn_length, decode_length; lia).
        destruct (Nat.lt_ge_cases i (32 * b + o)) as [H3|H3].
        -- rewrite app_nth1 by lia. rewrite app_nth1 by lia. rewrite !nth_firstn_lt by lia.
           rewrite <- (nth_lanes_of ws b (i - 32 * b) 0) by lia. f_equal. lia.
        -- rewrite app_nth2 by lia. rewrite (app_nth2 (firstn (32 * b + o) _)) by lia. rewrite Hl3, Hlen2.
           destruct (Nat.eq_dec i (32 * b + o)) as [->|Hne].
           ++ replace (32 * b + o - 32 * b - o)%nat with 0%nat by lia. rewrite Nat.sub_diag. reflexivity.
           ++ replace (i - 32 * b - o)%nat with (S (i - 32 * b - o - 1)) by lia.
              replace (i - (32 * b + o))%nat with (S (i - (32 * b + o) - 1)) by lia. cbn [nth].
              rewrite !nth_skipn_'. rewrite <- (nth_lanes_of ws b (S o + (i - 32 * b - o - 1)) 0) by lia. f_equal. lia.
      * rewrite app_nth2 by (rewrite upd_length; rewrite decode_length; lia).
        rewrite upd_length by (rewrite decode_length; lia). rewrite decode_length.
        rewrite app_nth2 by lia. rewrite Hlen2.
        replace (i - (32 * b + o))%nat with (S (i - (32 * b + o) - 1)) by lia. cbn [nth].
        rewrite !nth_skipn_'. f_equal. lia.
Qed.

(* packing step *)
Lemma pv_orlane_zero rho p q : pv rho p = 0 -> pv rho (orlane p q) = pv rho q.
Proof.
  unfold pv, orlane. cbn [fst snd]. rewrite !mkor_ok.
  destruct (beval rho (fst p)), (beval rho (snd p)); cbn; intro H; try discriminate; reflexivity.
Qed.
Lemma some_inj {A} (x y : A) : Some x = Some y -> x = y.
Proof. congruence. Qed.
Lemma evalN_pack_step a b off :
  evalN (env2 a b) (k_pack_step off) = N.lor (a mod 2 ^ 64) (N.shiftl (b mod 2 ^ 8) (N.of_nat off) mod 2 ^ 64).
Proof. reflexivity. Qed.
Theorem pack_step_spec val m b : val < two64 -> (m < 32)%nat -> b < 4 -> nth m (decode 32 val) 0 = 0 ->
  N.lor val (N.shiftl b (N.of_nat (62 - 2 * m))) < two64 /\
  decode 32 (N.lor val (N.shiftl b (N.of_nat (62 - 2 * m)))) = upd m (decode 32 val) b.
Proof.
  intros Hv Hm Hb Hz. pose proof sweep_pack_step as H. rewrite forallb_forall in H. specialize (H m (in_seq32 m Hm)).
  apply wf64 in Hv.
  destruct (lane_check_lift c64 2 _ _ val b H Hv Hb) as [r [Hr [Hwf Hd]]].
  unfold run in Hr. cbn [obind] in Hr.
  assert (Hs : shifts_ok (k_pack_step (62 - 2 * m)) = true).
  { unfold k_pack_step. cbn [shifts_ok]. rewrite andb_true_r. cbn [andb]. apply Nat.ltb_lt. lia. }
  rewrite Hs in Hr. rewrite evalN_pack_step in Hr. apply some_inj in Hr.
  assert (Er : r = N.lor val (N.shiftl b (N.of_nat (62 - 2 * m)))).
  { rewrite <- Hr.
    rewrite (N.mod_small val) by (apply wf64; exact Hv).
    rewrite (N.mod_small b (2 ^ 8)) by (change (2 ^ 8) with 256; lia).
    f_equal. apply N.mod_small. rewrite N.shiftl_mul_pow2.
    assert (2 ^ N.of_nat (62 - 2 * m) <= 2 ^ 62) by (apply N.pow_le_mono_r; lia).
    change (2 ^ 64) with (4 * 2 ^ 62). nia. }
  rewrite <- Er. split; [now apply wf64|].
  change (kK c64) with 32%nat in Hd. rewrite Hd. unfold pack_spec.
  rewrite map_app. cbn [map]. rewrite <- firstn_map, <- skipn_map.
  assert (Hsd : map (pv (rho_of (env2 val b))) (stoS c64) = decode 32 val) by (apply (stoS_decode c64 val b c64_shipped Hv)).
  rewrite Hsd. unfold upd. f_equal. f_equal.
  rewrite pv_orlane_zero; [apply pv_var2; exact Hb|].
  rewrite <- Hz, <- Hsd. symmetry.
  apply (nth_map_lt (pv (rho_of (env2 val b))) (stoS c64) 0 (BF, BF)). unfold stoS. rewrite lanesS_length. exact Hm.
Qed.
