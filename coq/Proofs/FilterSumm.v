(* C05/C06: the two shipped summarizers (CountFilter, CountFilterSet): what they compute, and that they do not
   depend on the order of the observations. *)
From Coq Require Import NArith List Bool Arith Lia Sorting.Sorted Permutation.
From DBG Require Import Spec.Dna Packed.ExtsMini Algo.KmerHist Algo.Filter Proofs.KmerHistProofs.
Import ListNotations.
Open Scope N_scope.

(* ---- sort + dedup on numbers *)
Lemma insert_sortedN x l : StronglySorted N.le l -> StronglySorted N.le (insert_by N.leb x l).
Proof.
  induction 1 as [|y r HS IH HF]; cbn; [repeat constructor|].
  destruct (N.leb_spec x y) as [E|E].
  - constructor; [constructor; auto|]. constructor; [exact E|]. rewrite Forall_forall in *. intros z Hz.
    specialize (HF z Hz). lia.
  - constructor; auto. rewrite Forall_forall in *. intros z Hz. apply insert_by_in in Hz. destruct Hz as [->|Hz]; auto. lia.
Qed.
Lemma sort_sortedN l : StronglySorted N.le (sort_by N.leb l).
Proof. induction l as [|x l IH]; cbn; [constructor|]. now apply insert_sortedN. Qed.
Lemma insert_by_in_revN x l y : y = x \/ In y l -> In y (insert_by N.leb x l).
Proof.
  induction l as [|z l IH]; cbn; [intuition|]. destruct (x <=? z); cbn; [intuition|]. intros [H|[H|H]]; auto.
Qed.
Lemma sort_inN l y : In y (sort_by N.leb l) <-> In y l.
Proof.
  split; [apply sort_by_in|]. induction l as [|x l IH]; cbn; [auto|]. intros [->|H]; apply insert_by_in_revN; auto.
Qed.
Lemma dedup_inN l k : In k (dedup_by N.eqb l) <-> In k l.
Proof.
  induction l as [|x l IH]; cbn [dedup_by]; [tauto|]. destruct (dedup_by N.eqb l) as [|y t] eqn:E.
  - cbn in *. intuition.
  - destruct (N.eqb_spec x y) as [Exy|Exy].
    + subst y. rewrite IH. cbn. split; [auto|]. intros [<-|H]; auto. apply IH. now left.
    + cbn [In]. rewrite <- IH. cbn [In]. tauto.
Qed.
Lemma dedup_ssortedN l : StronglySorted N.le l -> StronglySorted N.lt (dedup_by N.eqb l).
Proof.
  induction 1 as [|x r HS IH HF]; cbn [dedup_by]; [constructor|].
  destruct (dedup_by N.eqb r) as [|y t] eqn:E; [repeat constructor|].
  destruct (N.eqb_spec x y) as [Exy|Exy]; auto.
  assert (Hy : x < y).
  { rewrite Forall_forall in HF. assert (Iy : In y r) by (apply dedup_inN; rewrite E; now left). specialize (HF _ Iy). lia. }
  constructor; auto. constructor; auto. apply StronglySorted_inv in IH. destruct IH as [_ IH].
  rewrite Forall_forall in *. intros z Hz. specialize (IH z Hz). lia.
Qed.
Lemma ssorted_uniqueN (l1 : list N) : forall l2, StronglySorted N.lt l1 -> StronglySorted N.lt l2 ->
  (forall k, In k l1 <-> In k l2) -> l1 = l2.
Proof.
  induction l1 as [|x l1 IH]; intros l2 S1 S2 HI.
  - destruct l2 as [|y l2]; auto. exfalso. apply (proj2 (HI y)). now left.
  - destruct l2 as [|y l2]. { exfalso. apply (proj1 (HI x)). now left. }
    apply StronglySorted_inv in S1. destruct S1 as [S1 F1]. apply StronglySorted_inv in S2. destruct S2 as [S2 F2].
    rewrite Forall_forall in F1, F2.
    assert (E : x = y).
    { destruct (proj1 (HI x) (or_introl eq_refl)) as [->|Hx]; auto.
      destruct (proj2 (HI y) (or_introl eq_refl)) as [->|Hy]; auto.
      specialize (F1 _ Hy). specialize (F2 _ Hx). lia. }
    subst y. f_equal. apply IH; auto. intros k. split; intros Hk.
    + destruct (proj1 (HI k) (or_intror Hk)) as [<-|]; auto. specialize (F1 _ Hk). lia.
    + destruct (proj2 (HI k) (or_intror Hk)) as [<-|]; auto. specialize (F2 _ Hk). lia.
Qed.
Definition sort_dedupN (l : list N) : list N := dedup_by N.eqb (sort_by N.leb l).
Lemma sort_dedupN_spec l : StronglySorted N.lt (sort_dedupN l) /\ forall x, In x (sort_dedupN l) <-> In x l.
Proof.
  split; [apply dedup_ssortedN, sort_sortedN|]. intros x. unfold sort_dedupN. now rewrite dedup_inN, sort_inN.
Qed.
Lemma sort_dedupN_perm l l' : Permutation l l' -> sort_dedupN l = sort_dedupN l'.
Proof.
  intros P. destruct (sort_dedupN_spec l) as [S1 I1]. destruct (sort_dedupN_spec l') as [S2 I2].
  apply ssorted_uniqueN; auto. intros k. rewrite I1, I2. split; apply Permutation_in; [auto | now apply Permutation_sym].
Qed.

Section Summ.
Context {D : Type}.
Notation obs := (@obs D).

(* ---- the saturating u16 counter *)
Lemma sat_count (items : list obs) : forall c, c <= 65535 ->
  fold_left (fun c _ => sat_inc16 c) items c = N.min 65535 (c + N.of_nat (length items)).
Proof.
  induction items as [|x r IH]; intros c Hc; cbn [fold_left length].
  - rewrite N.add_0_r. lia.
  - unfold sat_inc16 at 2. destruct (N.ltb_spec c 65535); rewrite IH by lia; lia.
Qed.

(* ---- the union of the extension sets, bit by bit *)
Lemma union_bits (items : list obs) i : forall acc,
  N.testbit (fold_left (fun acc it => ex_add acc (oexts it)) items acc) i
  = N.testbit acc i || existsb (fun it => N.testbit (oexts it) i) items.
Proof.
  induction items as [|x r IH]; intros acc; cbn [fold_left existsb]; [now rewrite orb_false_r|].
  rewrite IH. unfold ex_add. rewrite N.lor_spec. now rewrite orb_assoc.
Qed.
Theorem union_exts_spec (items : list obs) i :
  N.testbit (union_exts items) i = existsb (fun it => N.testbit (oexts it) i) items.
Proof. unfold union_exts. now rewrite union_bits, N.bits_0. Qed.
Lemma union_exts_perm (l l' : list obs) : Permutation l l' -> union_exts l = union_exts l'.
Proof.
  intros P. apply N.bits_inj. intros i. rewrite !union_exts_spec.
  apply eq_true_iff_eq. rewrite !existsb_exists. split; intros [x [Hx Ht]]; exists x; split; auto.
  - eapply Permutation_in; eauto.
  - eapply Permutation_in; [apply Permutation_sym|]; eauto.
Qed.

(* CountFilter(n): accepted iff min(65535, #observations) >= n; data = min(65535, #observations); exts = union *)
Theorem count_filter_spec n (items : list obs) :
  count_filter n items = (n <=? N.min 65535 (N.of_nat (length items)), union_exts items, N.min 65535 (N.of_nat (length items))).
Proof. unfold count_filter. rewrite sat_count by lia. reflexivity. Qed.
Theorem count_filter_perm n (l l' : list obs) : Permutation l l' -> count_filter n l = count_filter n l'.
Proof. intros P. rewrite !count_filter_spec, (Permutation_length P), (union_exts_perm _ _ P). reflexivity. Qed.
(* consequence of the u16 counter: a threshold above 65535 rejects every k-mer *)
Corollary count_filter_big_threshold n (items : list obs) : 65535 < n -> fst (fst (count_filter n items)) = false.
Proof. intros H. rewrite count_filter_spec. cbn [fst]. apply N.leb_gt. lia. Qed.
End Summ.

(* CountFilterSet(n): accepted iff #observations >= n; data = the distinct labels in ascending order; exts = union *)
Theorem count_filter_set_spec n (items : list (@obs N)) :
  let r := count_filter_set n items in
  fst (fst r) = (n <=? N.of_nat (length items)) /\ snd (fst r) = union_exts items /\
  StronglySorted N.lt (snd r) /\ (forall x, In x (snd r) <-> In x (map olabel items)).
Proof. cbn. repeat split; try apply (sort_dedupN_spec (map olabel items)). Qed.
Theorem count_filter_set_perm n (l l' : list (@obs N)) : Permutation l l' -> count_filter_set n l = count_filter_set n l'.
Proof.
  intros P. unfold count_filter_set. rewrite (Permutation_length P), (union_exts_perm _ _ P).
  f_equal. apply sort_dedupN_perm. now apply Permutation_map.
Qed.
