(* C03: the checkers of Check/EdgeCheck.v decide the Props of Spec/EdgeSpec.v. *)
From Coq Require Import NArith ZArith List Bool Arith Lia.
From DBG Require Import Spec.Dna Spec.GraphIndex Packed.ExtsModel Algo.Compress Algo.GraphModel Spec.EdgeSpec
  Check.EdgeCheck Proofs.ListFacts Proofs.DnaFacts Proofs.GraphQueryProofs.
Import ListNotations.
Local Open Scope nat_scope.

(* ------------------------------------------------------------------ reflection of the list helpers *)
Lemma existsb_dna x l : existsb (dna_eqb x) l = true <-> In x l.
Proof.
  rewrite existsb_exists. split.
  - intros [y [Hy E]]. apply dna_eqb_eq in E. now subst.
  - intro H. exists x. split; [exact H|apply dna_eqb_refl].
Qed.
Lemma existsb_nat x l : existsb (Nat.eqb x) l = true <-> In x l.
Proof.
  rewrite existsb_exists. split.
  - intros [y [Hy E]]. apply Nat.eqb_eq in E. now subst.
  - intro H. exists x. split; [exact H|apply Nat.eqb_refl].
Qed.
Lemma nodup_dnab_iff l : nodup_dnab l = true <-> NoDup l.
Proof.
  induction l as [|x l IH]; cbn [nodup_dnab].
  - split; [constructor|reflexivity].
  - rewrite andb_true_iff, negb_true_iff, IH. split.
    + intros [H1 H2]. constructor; [|exact H2]. intro Hin. apply existsb_dna in Hin. congruence.
    + intro H. inversion H; subst. split; [|assumption].
      destruct (existsb (dna_eqb x) l) eqn:E; [|reflexivity]. apply existsb_dna in E. contradiction.
Qed.
Lemma nodup_natb_iff l : nodup_natb l = true <-> NoDup l.
Proof.
  induction l as [|x l IH]; cbn [nodup_natb].
  - split; [constructor|reflexivity].
  - rewrite andb_true_iff, negb_true_iff, IH. split.
    + intros [H1 H2]. constructor; [|exact H2]. intro Hin. apply existsb_nat in Hin. congruence.
    + intro H. inversion H; subst. split; [|assumption].
      destruct (existsb (Nat.eqb x) l) eqn:E; [|reflexivity]. apply existsb_nat in E. contradiction.
Qed.
Lemma dnas_eqb_iff a : forall b, dnas_eqb a b = true <-> a = b.
Proof.
  induction a as [|x a IH]; intros [|y b]; cbn [dnas_eqb]; try (split; [discriminate|congruence]).
  - split; reflexivity.
  - rewrite andb_true_iff, dna_eqb_eq, IH. split; [intros [-> ->]; reflexivity|intro H; inversion H; auto].
Qed.
Lemma incl_dnab_iff a b : incl_dnab a b = true <-> forall x, In x a -> In x b.
Proof.
  unfold incl_dnab. rewrite forallb_forall. split; intros H x Hx.
  - apply existsb_dna. auto.
  - apply existsb_dna. auto.
Qed.
Lemma chainb_iff {A} (r : A -> A -> bool) (R : A -> A -> Prop) : (forall a b, r a b = true <-> R a b) ->
  forall l, chainb r l = true <-> chain R l.
Proof.
  intros H. induction l as [|a l IH]; cbn [chainb chain]; [split; auto|].
  rewrite andb_true_iff, IH. destruct l as [|b l]; [tauto|]. now rewrite H.
Qed.
Lemma dir_eqb_iff s t : dir_eqb s t = true <-> s = t.
Proof. destruct s, t; cbn; split; congruence. Qed.
Lemma wf_dnab_iff l : wf_dnab l = true <-> wf_dna l.
Proof.
  unfold wf_dnab, wf_dna. rewrite forallb_forall, Forall_forall. split; intros H x Hx.
  - apply N.ltb_lt. auto.
  - apply N.ltb_lt. auto.
Qed.
Lemma in_sides s : In s sides.
Proof. destruct s; cbn; auto. Qed.

Section Sound.
Variable D : Type.
Variable K : nat.
Variable stranded : bool.
Local Notation graph := (graph D).
Local Notation node_seq := (node_seq D).
Local Notation node_exts := (node_exts D).

Lemma in_ids (g : graph) u : In u (ids D g) <-> u < length g.
Proof. unfold ids. rewrite in_seq. lia. Qed.

Lemma pal_singleb_iff (g : graph) v : pal_singleb D K stranded g v = true <-> pal_single D K stranded g v.
Proof.
  unfold pal_singleb, pal_single. rewrite !andb_true_iff, negb_true_iff, Nat.ltb_lt, Nat.eqb_eq, dna_eqb_eq. tauto.
Qed.

(* ------------------------------------------------------------------ validity of the graph *)
Lemma chk_wf_graph_iff (g : graph) : chk_wf_graph D K g = true <-> wf_graph D K g.
Proof.
  unfold chk_wf_graph, wf_graph. rewrite andb_true_iff, Nat.leb_le, forallb_forall.
  split; intros [H1 H2]; (split; [exact H1|]); intros n Hn; specialize (H2 n Hn).
  - apply andb_true_iff in H2 as [A B]. apply Nat.leb_le in A. apply wf_dnab_iff in B. auto.
  - apply andb_true_iff. rewrite Nat.leb_le, wf_dnab_iff. exact H2.
Qed.
Lemma chk_ends_ok_sound (g : graph) : chk_ends_ok D K stranded g = true -> ends_ok D K stranded g.
Proof.
  unfold chk_ends_ok. rewrite !andb_true_iff, !nodup_dnab_iff. intros [[NL NR] X].
  split; [exact NL|]. split; [exact NR|]. intros St u w s Hu Hw E. rewrite St in X. cbn [orb] in X.
  rewrite forallb_forall in X. specialize (X u (proj2 (in_ids g u) Hu)). rewrite forallb_forall in X.
  specialize (X s (in_sides s)).
  assert (ND : NoDup (ends_of K (g_seqs D g) (dflip s))) by (destruct s; assumption).
  rewrite (end_index_unique D K g (dflip s) _ w ND) in X by (split; [exact Hw|exact E]).
  apply andb_true_iff in X as [A B]. apply Nat.eqb_eq in A, B. auto.
Qed.
Lemma chk_exts_sym_sound (g : graph) : chk_exts_sym D K stranded g = true -> exts_sym D K stranded g.
Proof.
  unfold chk_exts_sym. intros X u s b v t f Hu Hb He Hl.
  rewrite forallb_forall in X. specialize (X u (proj2 (in_ids g u) Hu)). rewrite forallb_forall in X.
  specialize (X s (in_sides s)). rewrite forallb_forall in X. specialize (X b Hb).
  rewrite He, Hl in X. cbn zeta. apply orb_true_iff in X as [X|X]; [now left|right].
  apply andb_true_iff in X as [A B]. apply pal_singleb_iff in A. auto.
Qed.
Lemma chk_resolvable_sound (g : graph) : chk_resolvable D K stranded g = true -> exts_resolvable D K stranded g.
Proof.
  unfold chk_resolvable. intros X u s b Hu Hb He.
  rewrite forallb_forall in X. specialize (X u (proj2 (in_ids g u) Hu)). rewrite forallb_forall in X.
  specialize (X s (in_sides s)). rewrite forallb_forall in X. specialize (X b Hb).
  rewrite He in X. destruct (find_link D K stranded g _ s); [discriminate|discriminate X].
Qed.
Theorem chk_graph_ok_sound (g : graph) : chk_graph_ok D K stranded g = true -> graph_ok D K stranded g.
Proof.
  unfold chk_graph_ok. rewrite !andb_true_iff. intros [[A B] C].
  split; [now apply chk_wf_graph_iff|]. split; [now apply chk_ends_ok_sound|now apply chk_exts_sym_sound].
Qed.
Theorem chk_valid_graph_sound (g : graph) : chk_valid_graph D K stranded g = true -> valid_graph D K stranded g.
Proof.
  unfold chk_valid_graph. rewrite andb_true_iff. intros [A B].
  split; [now apply chk_graph_ok_sound|now apply chk_resolvable_sound].
Qed.

(* ------------------------------------------------------------------ reported edge lists *)
Lemma chk_edge_ok_iff (g : graph) u s l : chk_edge_ok D K stranded g u s l = true <-> edge_ok D K stranded g u s l.
Proof.
  destruct l as [[v t] f]. unfold chk_edge_ok, edge_ok.
  rewrite !andb_true_iff, Nat.ltb_lt, existsb_exists, dna_eqb_eq, eqb_true_iff.
  assert (Ex : (exists x, In x bases /\ e_has_ext (node_exts g u) (dirb s) (match s with DRight => x | DLeft => comp x end) &&
                              dna_eqb (in_kmer D K g v t) (extend_right (out_kmer D K g u s) x) = true) <->
               (exists c, (c < 4)%N /\ e_has_ext (node_exts g u) (dirb s) (match s with DRight => c | DLeft => comp c end) = true /\
                          in_kmer D K g v t = extend_right (out_kmer D K g u s) c)).
  { split; intros [c [H1 H2]]; exists c.
    - apply andb_true_iff in H2 as [H2 H3]. apply dna_eqb_eq in H3. apply in_bases in H1. auto.
    - destruct H2 as [H2 H3]. split; [now apply in_bases|]. apply andb_true_iff. split; [exact H2|now apply dna_eqb_eq]. }
  rewrite Ex. unfold overlaps.
  assert (St : negb stranded || negb f = true <-> (stranded = true -> f = false)).
  { destruct stranded, f; cbn; split; auto; try discriminate. intro H. now specialize (H eq_refl). }
  rewrite St. tauto.
Qed.
Theorem chk_edges_overlap_iff (g : graph) (el : edge_lists) :
  chk_edges_overlap D K stranded g el = true <->
  forall u s l, u < length g -> In l (E_of el u s) -> edge_ok D K stranded g u s l.
Proof.
  unfold chk_edges_overlap. rewrite forallb_forall. split.
  - intros X u s l Hu Hl. specialize (X u (proj2 (in_ids g u) Hu)). rewrite forallb_forall in X.
    specialize (X s (in_sides s)). rewrite forallb_forall in X. apply chk_edge_ok_iff. auto.
  - intros X u Hu. apply in_ids in Hu. apply forallb_forall. intros s _. apply forallb_forall. intros l Hl.
    apply chk_edge_ok_iff. auto.
Qed.

Theorem chk_edges_symmetric_iff (g : graph) (el : edge_lists) :
  chk_edges_symmetric D K stranded g el = true <-> edges_sym_on D K stranded g (E_of el).
Proof.
  unfold chk_edges_symmetric, edges_sym_on. rewrite forallb_forall. split.
  - intros X u s v t f Hu Hl. specialize (X u (proj2 (in_ids g u) Hu)). rewrite forallb_forall in X.
    specialize (X s (in_sides s)). rewrite forallb_forall in X. specialize (X _ Hl). cbn beta iota in X.
    apply existsb_exists in X as [t' [_ X]]. apply existsb_exists in X as [[[u' s'] f'] [Hin X]].
    rewrite !andb_true_iff, !orb_true_iff, Nat.eqb_eq, !dir_eqb_iff, !pal_singleb_iff, eqb_true_iff in X.
    destruct X as [[[-> A] B] C]. exists s', t', f'. auto.
  - intros X u Hu. apply in_ids in Hu. apply forallb_forall. intros s _. apply forallb_forall. intros [[v t] f] Hl.
    destruct (X u s v t f Hu Hl) as [s' [t' [f' [Hin [A [B C]]]]]].
    apply existsb_exists. exists t'. split; [apply in_sides|]. apply existsb_exists. exists (u, s', f'). split; [exact Hin|].
    rewrite !andb_true_iff, !orb_true_iff, Nat.eqb_eq, !dir_eqb_iff, !pal_singleb_iff, eqb_true_iff. auto.
Qed.

(* ------------------------------------------------------------------ walks *)
Lemma step_okb_iff (g : graph) a b : step_okb D K stranded g a b = true <-> step_ok D K stranded g a b.
Proof.
  unfold step_okb, step_ok. rewrite existsb_exists. split.
  - intros [s [_ X]]. apply existsb_exists in X as [[[v t] f] [Hin X]].
    rewrite !andb_true_iff, !orb_true_iff, Nat.eqb_eq, !dir_eqb_iff, !pal_singleb_iff in X.
    destruct X as [[-> A] B]. exists s, t, f. auto.
  - intros [s [t [f [Hin [A B]]]]]. exists s. split; [apply in_sides|]. apply existsb_exists.
    exists (fst b, t, f). split; [exact Hin|].
    rewrite !andb_true_iff, !orb_true_iff, Nat.eqb_eq, !dir_eqb_iff, !pal_singleb_iff. auto.
Qed.
Theorem chk_valid_walk_iff (g : graph) p : chk_valid_walk D K stranded g p = true <-> valid_walk D K stranded g p.
Proof.
  unfold chk_valid_walk, valid_walk. rewrite andb_true_iff, forallb_forall, (chainb_iff _ _ (step_okb_iff g)).
  split; intros [A B]; (split; [|exact B]); intros x Hx.
  - apply Nat.ltb_lt. auto.
  - apply Nat.ltb_lt. auto.
Qed.
Theorem chk_walk_iff (g : graph) p sq :
  chk_walk D K stranded g p sq = true <-> valid_walk D K stranded g p /\ kmers K sq = walk_kmers D K g p.
Proof. unfold chk_walk. now rewrite andb_true_iff, chk_valid_walk_iff, dnas_eqb_iff. Qed.
Theorem chk_max_path_iff (g : graph) p sq :
  chk_max_path D K stranded g p sq = true <->
  (valid_walk D K stranded g p /\ kmers K sq = walk_kmers D K g p) /\ NoDup (map fst p).
Proof. unfold chk_max_path. now rewrite andb_true_iff, chk_walk_iff, nodup_natb_iff. Qed.
End Sound.

(* ------------------------------------------------------------------ observed adjacencies *)
Theorem chk_edges_observed_iff K stranded thr reads seqs (el : edge_lists) :
  chk_edges_observed K stranded thr reads seqs el = true <->
  edges_are_observed K stranded thr reads seqs (E_list el).
Proof.
  unfold chk_edges_observed, edges_are_observed. cbn zeta. rewrite andb_true_iff, !incl_dnab_iff.
  split; [intros [A B] w; split; auto|]. intro H. split; intros x Hx; now apply H.
Qed.

(* ------------------------------------------------------------------ pruned tables *)
Lemma key_in_iff' keys x : key_in keys x = true <-> In x keys.
Proof. unfold key_in. apply existsb_dna. Qed.
Lemma nth_error_combine {A B} : forall (l : list A) (l' : list B) i a b,
  nth_error l i = Some a -> nth_error l' i = Some b -> nth_error (combine l l') i = Some (a, b).
Proof.
  induction l as [|x l IH]; intros [|y l'] [|i] a b H1 H2; cbn in *; try discriminate.
  - congruence.
  - now apply IH.
Qed.
Lemma chk_pruned_with_sound stranded keep k e e' : chk_pruned_with stranded keep k e e' = true ->
  (e' < 256)%N /\ forall d b, (b < 4)%N -> e_has_ext e' (dirb d) b = e_has_ext e (dirb d) b && keep (canon_s stranded (extend k b d)).
Proof.
  unfold chk_pruned_with. rewrite andb_true_iff, N.ltb_lt, forallb_forall. intros [L X]. split; [exact L|].
  intros d b Hb. specialize (X d (in_sides d)). rewrite forallb_forall in X. specialize (X b (proj2 (in_bases b) Hb)).
  now apply eqb_prop in X.
Qed.
Theorem chk_pruned_sound stranded (tbl : list (dna * N)) new : chk_pruned stranded tbl new = true ->
  length new = length tbl /\
  forall i k e e', nth_error tbl i = Some (k, e) -> nth_error new i = Some e' ->
    (e' < 256)%N /\ forall d b, (b < 4)%N ->
      (e_has_ext e' (dirb d) b = true <-> e_has_ext e (dirb d) b = true /\ In (canon_s stranded (extend k b d)) (map fst tbl)).
Proof.
  unfold chk_pruned. cbn zeta. rewrite andb_true_iff, Nat.eqb_eq, forallb_forall. intros [L X]. split; [exact L|].
  intros i k e e' H1 H2. pose proof (nth_error_combine _ _ _ _ _ H1 H2) as H. apply nth_error_In in H.
  specialize (X _ H). cbn [fst snd] in X. apply chk_pruned_with_sound in X as [L' B]. split; [exact L'|].
  intros d b Hb. rewrite (B d b Hb), andb_true_iff, key_in_iff'. reflexivity.
Qed.
Theorem chk_pruned_sharded_sound stranded (tbl : list (dna * N)) all_kmers new :
  chk_pruned_sharded stranded tbl all_kmers new = true ->
  length new = length tbl /\
  forall i k e e', nth_error tbl i = Some (k, e) -> nth_error new i = Some e' ->
    (e' < 256)%N /\ forall d b, (b < 4)%N ->
      (e_has_ext e' (dirb d) b = true <->
       e_has_ext e (dirb d) b = true /\
       ~ (In (canon_s stranded (extend k b d)) all_kmers /\ ~ In (canon_s stranded (extend k b d)) (map fst tbl))).
Proof.
  unfold chk_pruned_sharded. cbn zeta. rewrite andb_true_iff, Nat.eqb_eq, forallb_forall. intros [L X]. split; [exact L|].
  intros i k e e' H1 H2. pose proof (nth_error_combine _ _ _ _ _ H1 H2) as H. apply nth_error_In in H.
  specialize (X _ H). cbn [fst snd] in X. apply chk_pruned_with_sound in X as [L' B]. split; [exact L'|].
  intros d b Hb. rewrite (B d b Hb), andb_true_iff, orb_true_iff, negb_true_iff. rewrite <- !key_in_iff'.
  destruct (key_in (map fst tbl) _), (key_in all_kmers _); intuition congruence.
Qed.

(* ------------------------------------------------------------------ what [observed_adjs] lists, by position *)
Lemma in_windows k reads w : In w (windows k reads) <-> exists r i, In r reads /\ i + k <= length r /\ w = kmer_at k r i.
Proof.
  unfold windows, kmers. rewrite in_flat_map. split.
  - intros [r [Hr Hw]]. apply in_map_iff in Hw as [i [<- Hi]]. apply in_seq in Hi. exists r, i. repeat split; auto. lia.
  - intros [r [i [Hr [Hi ->]]]]. exists r. split; [exact Hr|]. apply in_map. apply in_seq. lia.
Qed.
Lemma kmer_at_prefix K r i : firstn K (kmer_at (S K) r i) = kmer_at K r i.
Proof. unfold kmer_at, sub. rewrite firstn_firstn. now replace (Nat.min K (S K)) with K by lia. Qed.
Lemma kmer_at_suffix K r i : skipn 1 (kmer_at (S K) r i) = kmer_at K r (S i).
Proof.
  unfold kmer_at, sub. rewrite skipn_firstn_comm. replace (S K - 1) with K by lia. f_equal.
  rewrite ListFacts.skipn_skipn. f_equal. lia.
Qed.
(* an observed adjacency is a (K+1)-window of some read whose two k-mers both occur at least [thr] times
   (counting both strands when unstranded), canonical when unstranded *)
Theorem observed_adjs_spec K stranded thr reads w :
  In w (observed_adjs K stranded thr reads) <->
  exists r i, In r reads /\ i + S K <= length r /\ w = canon_s stranded (kmer_at (S K) r i) /\
              retained K stranded thr reads (kmer_at K r i) /\ retained K stranded thr reads (kmer_at K r (S i)).
Proof.
  unfold observed_adjs, retained, retainedb. rewrite in_map_iff. split.
  - intros [x [<- Hx]]. apply filter_In in Hx as [Hx Hr]. apply in_windows in Hx as [r [i [Hin [Hi ->]]]].
    apply andb_true_iff in Hr as [A B]. apply Nat.leb_le in A, B. rewrite kmer_at_prefix in A. rewrite kmer_at_suffix in B.
    exists r, i. auto.
  - intros [r [i [Hin [Hi [-> [A B]]]]]]. exists (kmer_at (S K) r i). split; [reflexivity|]. apply filter_In. split.
    + apply in_windows. exists r, i. auto.
    + rewrite kmer_at_prefix, kmer_at_suffix. apply andb_true_iff. split; now apply Nat.leb_le.
Qed.
