(* C10 sweeps: the finite (configuration x position x run length) part, decided by vm_compute with the
   storage / payload VALUES symbolic.  Lifted to theorems about all values in Proofs/KmerOps.v. *)
From Coq Require Import NArith List Bool Arith Lia.
From DBG Require Import Bits.SymBV Spec.Dna Packed.KmerModel Proofs.KmerLanes.
Import ListNotations.
Open Scope N_scope.

Definition bnd_k (K b1 : nat) : nat -> nat := fun v => match v with O => (2 * K)%nat | _ => b1 end.

Definition stoS (c : kcfg) : list (bx * bx) := lanesS (kK c) (s_var 0 (2 * kK c)).

Definition baseS : bx * bx := (BV 1 0, BV 1 1).

Definition lane_check (c : kcfg) (b1 : nat) (oe : option wexp) (spec : list (bx * bx)) : bool :=
  match oe with
  | Some e => shifts_ok e && lanes_eqb (lanesS (kK c) (evalS (bnd_k (kK c) b1) e)) spec
              && wfS (kK c) (evalS (bnd_k (kK c) b1) e)
  | None => false
  end.

Definition chk_set_mut (c : kcfg) (pos : nat) : bool :=
  lane_check c 2 (k_set_mut c pos (sV c) (Var 1 8)) (upd pos (stoS c) baseS).
Lemma sweep_set_mut : forallb (fun c => forallb (chk_set_mut c) (seq 0 (kK c))) shipped = true.
Proof. vm_compute. reflexivity. Qed.

Definition chk_extend (c : kcfg) : bool :=
  lane_check c 2 (k_extend_left c (sV c) (Var 1 8)) (baseS :: removelast (stoS c)) &&
  lane_check c 2 (k_extend_right c (sV c) (Var 1 8)) (tl (stoS c) ++ [baseS]).
Lemma sweep_extend : forallb chk_extend shipped = true.
Proof. vm_compute. reflexivity. Qed.

Definition compS (p : bx * bx) : bx * bx := (mknot (fst p), mknot (snd p)).

Definition chk_rc (c : kcfg) : bool := lane_check c 0 (k_rc c (sV c)) (map compS (rev (stoS c))).
Lemma sweep_rc : forallb chk_rc shipped = true.
Proof. vm_compute. reflexivity. Qed.

Definition valS : list (bx * bx) := lanesS 32 (s_var 1 64).
Definition chk_set_slice (c : kcfg) (pos n : nat) : bool :=
  lane_check c 64 (k_set_slice_mut c pos n (sV c) (Var 1 64)) (splice pos (firstn n valS) (stoS c)).
Definition runs (c : kcfg) (pos : nat) : list nat := seq 1 (Nat.min 32 (kK c - pos)).
Lemma sweep_set_slice :
  forallb (fun c => forallb (fun pos => forallb (chk_set_slice c pos) (runs c pos)) (seq 0 (kK c))) shipped = true.
Proof. vm_compute. reflexivity. Qed.

Definition chk_get (c : kcfg) (pos : nat) : bool :=
  match k_get c pos (sV c) with
  | Some e => shifts_ok e &&
      (let p := nth pos (stoS c) (BF, BF) in sbv_eqb (evalS (bnd_k (kK c) 0) e) [fst p; snd p])
  | None => false
  end.
Lemma sweep_get : forallb (fun c => forallb (chk_get c) (seq 0 (kK c))) shipped = true.
Proof. vm_compute. reflexivity. Qed.

Fixpoint interleave (l : list bx) : sbv := match l with [] => [] | x :: r => x :: BF :: interleave r end.

Definition gcS (p : bx * bx) : bx := mkxor (snd p) (fst p).
Definition atS (p : bx * bx) : bx := mknot (mkxor (snd p) (fst p)).

Definition count_check (c : kcfg) (oe : option wexp) (f : bx * bx -> bx) : bool :=
  match oe with
  | Some e => shifts_ok e && sbv_eqb (evalS (bnd_k (kK c) 0) e) (interleave (map f (rev (stoS c))))
  | None => false
  end.
Definition chk_counts (c : kcfg) : bool :=
  count_check c (k_gc_word c (sV c)) gcS && count_check c (k_at_word c (sV c)) atS.
Lemma sweep_counts : forallb chk_counts shipped = true.
Proof. vm_compute. reflexivity. Qed.

Definition stoS1 (c : kcfg) : list (bx * bx) := lanesS (kK c) (s_var 1 (2 * kK c)).
Definition diffS (p q : bx * bx) : bx := mkor (mkxor (fst p) (fst q)) (mkxor (snd p) (snd q)).
Fixpoint map2 {A B C} (f : A -> B -> C) (a : list A) (b : list B) : list C :=
  match a, b with x :: a', y :: b' => f x y :: map2 f a' b' | _, _ => [] end.
Definition chk_hamming (c : kcfg) : bool :=
  let e := k_hamming_word c (sV c) (Var 1 (kW c)) in
  shifts_ok e && sbv_eqb (evalS (bnd_k (kK c) (2 * kK c)) e) (interleave (map2 diffS (rev (stoS c)) (rev (stoS1 c)))).
Lemma sweep_hamming : forallb chk_hamming shipped = true.
Proof. vm_compute. reflexivity. Qed.
