(* C09 with a censor list, at k-mer level (generalisation of Section Main of Proofs/RecompUnitig.v): the walk of
   compress_graph runs on g1 = the input graph restricted to the surviving node ids Sv ([winv g1 Sv]); only the nodes at
   surviving ids are required to be [lnode_ok] w.r.t. the link set SL (the links between surviving k-mers).  The node-level
   facts about the result (node paths: spelling, terminal extensions, maximality, partition of Sv) are hypotheses here;
   Proofs/RecompCensor.v discharges them with the C09X theorems, which hold for every censor list. *)
From Coq Require Import NArith List Bool Arith Lia Permutation.
From DBG Require Import Proofs.AbstractWalk.
From DBG Require Import Spec.Dna Spec.GraphIndex Spec.Unitig Spec.CompressSpec Packed.ExtsModel Algo.Compress
  Algo.KmerHist Algo.GraphModel Algo.Recompress Spec.EdgeSpec Check.GraphCheck Check.PipelineCheck Check.RecompCheck Check.RecompLooseCheck
  Proofs.ListFacts Proofs.DnaFacts Proofs.KmerAlgebra Proofs.ExtsProofs Proofs.ExtsWalk
  Proofs.CompressBasics Proofs.CompressProofs Proofs.CompressGraphOk Proofs.FilterProofs Proofs.GraphQueryProofs
  Proofs.ValidGraphProofs Proofs.PipelineCheckProofs Proofs.UnitigUnique Proofs.GraphRcProofs Proofs.ShardProofs
  Proofs.ComposeSweeps Proofs.WalkProofs Proofs.RecompressProofs Proofs.RecompKmers Proofs.RecompExts Proofs.RecompLoose
  Proofs.E2eDefs Proofs.E2eSym Proofs.E2eGraph Proofs.E2eTable Proofs.LooseGraph Proofs.LooseValid Proofs.RecompUnitig.
From DBG Require Proofs.UnitigSeqUnique.
Import ListNotations.
Local Open Scope nat_scope.

Local Notation gk := PipelineCheck.graph_kmers.

Lemma NoDup_flat_map_sub {A B} (f : A -> list B) : forall l l', NoDup l -> incl l l' -> NoDup (flat_map f l') -> NoDup (flat_map f l).
Proof.
  induction l as [|a l IH]; intros l' Hl Hi Hn; [constructor|].
  inversion Hl as [|? ? Ha Hl']; subst.
  destruct (in_split a l' (Hi a (or_introl eq_refl))) as (l1 & l2 & ->).
  assert (P : Permutation (l1 ++ a :: l2) (a :: l1 ++ l2)) by (symmetry; apply Permutation_middle).
  apply (Permutation_NoDup (UnitigUnique.perm_concat_map f _ _ P)) in Hn. cbn [flat_map] in Hn.
  apply RecompressProofs.NoDup_app_inv in Hn as (N1 & N2 & N3).
  assert (Hi' : incl l (l1 ++ l2)).
  { intros x Hx. pose proof (Hi x (or_intror Hx)) as Hq. apply in_app_or in Hq as [Hq|[Hq|Hq]];
      [apply in_or_app; now left | subst; contradiction | apply in_or_app; now right]. }
  cbn [flat_map]. apply WalkProofs.NoDup_app'; [exact N1 | exact (IH _ Hl' Hi' N2) |].
  intros x Hx Hx'. apply (N3 x Hx). apply in_flat_map in Hx' as (y & Hy & Hxy). apply in_flat_map. exists y.
  split; [apply Hi'; exact Hy | exact Hxy].
Qed.

Section CMain.
Variable K : nat.
Variable st : bool.
Variable mode : N.
Variables idf colf : dna -> N.
Variable SL : list dna.
Variable g1 : list node_t.
Variable Sv : list nat.
Local Notation kj := (kjoin_f mode colf).
Local Notation join := (pay_join mode).
Local Notation lnode_ok := (RecompUnitig.lnode_ok K st kj SL).
Hypothesis HK : 1 <= K.
Hypothesis HW : winv pay K st g1 Sv.
Hypothesis HlgS : forall v (n : node_t), In v Sv -> nth_error g1 v = Some n -> lnode_ok n.
Hypothesis Hnd : NoDup (gk K st g1).
Hypothesis Hpay : PipelineCheck.payload_ok K st mode idf colf g1.

Lemma kj_sym a b : kj a b = kj b a.
Proof. unfold kjoin_f. now rewrite (N.eqb_sym (colf a)). Qed.
Lemma Hwf : Forall (node_wf K) g1.
Proof.
  apply Forall_forall. intros n Hn. pose proof (wi_ok _ _ _ _ _ HW) as H. rewrite Forall_forall in H.
  destruct (H n Hn) as (W & L & _). split; [exact W | exact (proj2 L)].
Qed.
Lemma Hlt (n : node_t) : In n g1 -> (nd_exts n < 256)%N.
Proof. intro Hn. pose proof (wi_ok _ _ _ _ _ HW) as H. rewrite Forall_forall in H. now destruct (H n Hn) as (_ & _ & ?). Qed.
Lemma term_at (n : node_t) s : In n g1 ->
  term_kmer K (nd_seq n) s = kmer_at K (nd_seq n) (tpos K n s) /\ tpos K n s + K <= length (nd_seq n).
Proof. intro Hn. destruct (nwf K g1 Hwf n Hn) as [L _]. destruct s; cbn [term_kmer tpos]; unfold first_kmer, last_kmer; split; auto; lia. Qed.

(* a node of a path, read in the direction of travel *)
Definition onode (a : nat * dir) : node_t :=
  match nth_error g1 (fst a) with
  | Some n => match snd a with DLeft => n | DRight => flipn n end
  | None => ([], 0%N, (0%N, []))
  end.
Lemma onode_ok a (n : node_t) : nth_error g1 (fst a) = Some n -> In (fst a) Sv -> (st = true -> snd a = DLeft) -> lnode_ok (onode a).
Proof.
  intros Hn HS Hs. unfold onode. rewrite Hn. pose proof (HlgS (fst a) n HS Hn) as H.
  destruct (snd a) eqn:E; [exact H|]. apply (flipn_ok K st kj SL HK kj_sym); auto.
  destruct st; [specialize (Hs eq_refl); discriminate | reflexivity].
Qed.
Lemma onode_seq a (n : node_t) : nth_error g1 (fst a) = Some n -> nd_seq (onode a) = osq (snd a) (nd_seq n).
Proof. intro Hn. unfold onode. rewrite Hn. now destruct (snd a). Qed.
Lemma onode_data a (n : node_t) : nth_error g1 (fst a) = Some n -> snd (onode a) = snd n.
Proof. intro Hn. unfold onode. rewrite Hn. now destruct (snd a). Qed.
Lemma onode_oseq a : fst a < length g1 -> nd_seq (onode a) = oseq pay g1 a.
Proof.
  intro H. unfold onode, oseq, EdgeSpec.node_seq. unfold graph, gnode, node_t in *.
  destruct (nth_error g1 (fst a)) as [n|] eqn:E; [|apply nth_error_None in E; lia]. now destruct (snd a).
Qed.
(* the bits of the oriented node *)
Lemma onode_bit a (n : node_t) r c : nth_error g1 (fst a) = Some n -> (c < 4)%N ->
  e_has_ext (nd_exts (onode a)) (dirb r) c = e_has_ext (nd_exts n) (dirb (eside (snd a) r)) (ob (snd a) c).
Proof.
  intros Hn Hc. unfold onode. rewrite Hn. destruct (snd a); cbn [eside ob]; [reflexivity|].
  cbn [flipn nd_exts fst snd]. apply has_ext_rc'; [|exact Hc]. exact (Hlt n (nth_error_In _ _ Hn)).
Qed.
Lemma onode_term a (n : node_t) r : nth_error g1 (fst a) = Some n ->
  term_kmer K (nd_seq (onode a)) r = osq (snd a) (term_kmer K (nd_seq n) (eside (snd a) r)).
Proof.
  intro Hn. rewrite (onode_seq a n Hn). destruct (snd a); cbn [osq eside]; [reflexivity|].
  apply term_kmer_rc. apply (nwf K g1 Hwf n (nth_error_In _ _ Hn)).
Qed.
Lemma cn_osq s x : wf_dna x -> (st = true -> s = DLeft) -> cn st (osq s x) = cn st x.
Proof.
  intros W Hs. destruct s; cbn [osq]; [reflexivity|]. apply cn_rc_; auto.
  destruct st; [specialize (Hs eq_refl); discriminate | reflexivity].
Qed.
Lemma osq_wf s x : wf_dna x -> wf_dna (osq s x).
Proof. intro W. destruct s; cbn [osq]; [exact W | apply rc_wf]. Qed.
Lemma osq_ne s x : x <> [] -> osq s x <> [].
Proof. intro H. destruct s; cbn [osq]; [exact H|]. intro E. apply H. exact (proj1 (rc_nil_iff x) E). Qed.
Lemma osq_length s (x : dna) : length (osq s x) = length x.
Proof. destruct s; cbn [osq]; [reflexivity | apply rc_length]. Qed.
Lemma kpal_osq s x : wf_dna x -> kpal st (osq s x) = kpal st x.
Proof. intro W. destruct s; cbn [osq]; [reflexivity | now apply kpal_rc]. Qed.

(* palindromic single-k-mer nodes *)
Lemma pal_single_iff (n : node_t) s : In n g1 -> (RecompCheck.pal_single pay K st n = true <-> kpal st (term_kmer K (nd_seq n) s) = true).
Proof.
  intro Hn. destruct (nwf K g1 Hwf n Hn) as [L W]. unfold RecompCheck.pal_single, kpal. change (n_seq pay n) with (nd_seq n). split.
  - intro H. apply andb_true_iff in H as [H P]. apply andb_true_iff in H as [H1 H2]. apply Nat.eqb_eq in H2.
    rewrite H1. cbn [andb]. change (first_kmer K (nd_seq n)) with (term_kmer K (nd_seq n) DLeft) in P.
    now rewrite (term_kmer_single K _ DLeft H2) in P; rewrite (term_kmer_single K _ s H2).
  - intro H. apply andb_true_iff in H as [H1 P].
    assert (Ln : length (nd_seq n) = K).
    { apply negb_true_iff in H1. exact (wi_pal _ _ _ _ _ HW H1 n s Hn P). }
    rewrite H1, Ln, Nat.eqb_refl. cbn [andb]. change (first_kmer K (nd_seq n)) with (term_kmer K (nd_seq n) DLeft).
    now rewrite (term_kmer_single K _ DLeft Ln); rewrite (term_kmer_single K _ s Ln) in P.
Qed.

Lemma ob_ob s c : (c < 4)%N -> ob s (ob s c) = c.
Proof. intro H. destruct s; cbn [ob]; [reflexivity | now apply comp_involutive]. Qed.
Lemma ob_lt s c : (c < 4)%N -> (ob s c < 4)%N.
Proof. intro H. destruct s; cbn [ob]; [exact H | apply comp_lt4]. Qed.
Lemma eside_right d : eside d DRight = dflip d. Proof. now destruct d. Qed.
Lemma eside_left d : eside d DLeft = d. Proof. now destruct d. Qed.

Lemma node_in v (n : node_t) : nth_error g1 v = Some n -> In n g1.
Proof. apply nth_error_In. Qed.
Lemma term_facts (n : node_t) s : In n g1 ->
  length (term_kmer K (nd_seq n) s) = K /\ wf_dna (term_kmer K (nd_seq n) s) /\ term_kmer K (nd_seq n) s <> [].
Proof.
  intro Hn. destruct (nwf K g1 Hwf n Hn) as [L W]. destruct (term_kmer_ok K _ s W L) as [Lx Wx]. repeat split; auto.
  intro E. rewrite E in Lx. cbn in Lx. lia.
Qed.

(* the k-mer at which one leaves a through its far side / enters b, and their links *)
Lemma exit_kmer a (n : node_t) : nth_error g1 (fst a) = Some n ->
  last_kmer K (nd_seq (onode a)) = osq (snd a) (term_kmer K (nd_seq n) (dflip (snd a))).
Proof. intro Hn. change (last_kmer K (nd_seq (onode a))) with (term_kmer K (nd_seq (onode a)) DRight). now rewrite (onode_term a n DRight Hn), eside_right. Qed.
Lemma entry_kmer b (m : node_t) : nth_error g1 (fst b) = Some m ->
  first_kmer K (nd_seq (onode b)) = osq (snd b) (term_kmer K (nd_seq m) (snd b)).
Proof. intro Hm. change (first_kmer K (nd_seq (onode b))) with (term_kmer K (nd_seq (onode b)) DLeft). now rewrite (onode_term b m DLeft Hm), eside_left. Qed.

Lemma exit_links a (n : node_t) c : nth_error g1 (fst a) = Some n -> In (fst a) Sv -> (st = true -> snd a = DLeft) -> (c < 4)%N ->
  kpal st (last_kmer K (nd_seq (onode a))) = false ->
  (In c (rlinks st SL (last_kmer K (nd_seq (onode a)))) <->
   e_has_ext (nd_exts n) (dirb (dflip (snd a))) (ob (snd a) c) = true).
Proof.
  intros Hn HS Hs Hc P. rewrite in_rlinks. destruct (ln_ends _ _ _ _ _ (onode_ok a n Hn HS Hs) DRight c Hc) as [H1 _].
  change (term_kmer K (nd_seq (onode a)) DRight) with (last_kmer K (nd_seq (onode a))) in H1.
  rewrite <- (H1 P), (onode_bit a n DRight c Hn Hc), eside_right. tauto.
Qed.
Lemma entry_links b (m : node_t) c : nth_error g1 (fst b) = Some m -> In (fst b) Sv -> (st = true -> snd b = DLeft) -> (c < 4)%N ->
  kpal st (first_kmer K (nd_seq (onode b))) = false ->
  (In c (llinks st SL (first_kmer K (nd_seq (onode b)))) <->
   e_has_ext (nd_exts m) (dirb (snd b)) (ob (snd b) c) = true).
Proof.
  intros Hm HS Hs Hc P. rewrite in_llinks. destruct (ln_ends _ _ _ _ _ (onode_ok b m Hm HS Hs) DLeft c Hc) as [H1 _].
  change (term_kmer K (nd_seq (onode b)) DLeft) with (first_kmer K (nd_seq (onode b))) in H1.
  rewrite <- (H1 P), (onode_bit b m DLeft c Hm Hc), eside_left. tauto.
Qed.

(* exactly one extension, in the frame of the node and in the direction of travel *)
Lemma sole_links (l : list N) e (dd : bool) s : (e < 256)%N -> NoDup l ->
  (forall c, In c l -> (c < 4)%N) ->
  (forall c, (c < 4)%N -> (In c l <-> e_has_ext e dd (ob s c) = true)) ->
  forall b, (b < 4)%N -> (l = [ob s b] <-> e_num_ext_dir e dd = 1%N /\ e_get_unique_extension e dd = Some b).
Proof.
  intros He Hndl Hl H b Hb. split.
  - intro E. apply one_ext_intro; auto. intros c Hc. rewrite <- (ob_ob s c Hc) at 1. rewrite <- (H (ob s c) (ob_lt s c Hc)), E. cbn [In].
    split; [intros [Hx|[]]; rewrite <- (ob_ob s c Hc), <- Hx; now apply ob_ob | intros ->; now left].
  - intros [Hn Hu]. destruct (ExtsWalk.unique_ext_spec e dd He Hn) as (b' & Hu' & Hb' & Hh & Huniq).
    assert (b' = b) by congruence. subst b'. apply singleton_of_nodup; [exact Hndl|]. intro c. split.
    + intro Hc. pose proof (Hl c Hc) as Hc4. apply (H c Hc4) in Hc. rewrite <- (Huniq _ (ob_lt s c Hc4) Hc). symmetry. now apply ob_ob.
    + intros ->. apply (H _ (ob_lt s b Hb)). now rewrite ob_ob.
Qed.
Lemma rlinks_nodup x : NoDup (rlinks st SL x) /\ forall c, In c (rlinks st SL x) -> (c < 4)%N.
Proof.
  split; [apply NoDup_filter; repeat constructor; cbn [In]; intuition discriminate|].
  intros c H. unfold rlinks in H. apply filter_In in H as [H _]. now apply in_bases4_lt.
Qed.
Lemma llinks_nodup x : NoDup (llinks st SL x) /\ forall c, In c (llinks st SL x) -> (c < 4)%N.
Proof.
  split; [apply NoDup_filter; repeat constructor; cbn [In]; intuition discriminate|].
  intros c H. unfold llinks in H. apply filter_In in H as [H _]. now apply in_bases4_lt.
Qed.

(* the node end that find_link reports, read in the direction of travel *)
Lemma entered_kmer k s u t f : wf_dna k -> find_link pay K st g1 k s = Some (u, t, f) ->
  exists m : node_t, nth_error g1 u = Some m /\
    first_kmer K (nd_seq (onode (u, t))) = osq (dflip s) k /\ (st = true -> t = dflip s).
Proof.
  intros Wk H. destruct (find_link_end pay K st g1 k s u t f H) as (m & Hm & Et & Hc & Hf).
  exists m. split; [exact Hm|]. rewrite (entry_kmer (u, t) m Hm). cbn [fst snd]. change (n_seq pay m) with (nd_seq m) in Et. rewrite Et.
  split.
  - destruct s, t, f; cbn in Hc; try contradiction; cbn [osq dflip]; auto using ListFacts.rc_involutive.
  - intro Hs. destruct f; [specialize (Hf eq_refl); congruence|]. destruct s, t; cbn in Hc; try contradiction; reflexivity.
Qed.

(* join_test on node payloads = the join predicate on any of their k-mers *)
Lemma join_kj_nodes (n m : node_t) x y : In n g1 -> In m g1 -> In (cn st x) (PipelineCheck.node_kmers K st n) ->
  In (cn st y) (PipelineCheck.node_kmers K st m) -> join (snd n) (snd m) = kj (cn st x) (cn st y).
Proof.
  intros Hn Hm Hx Hy. unfold pay_join, kjoin_f. destruct (mode =? 0)%N eqn:E; [reflexivity|]. cbn [orb].
  apply N.eqb_neq in E. destruct (Hpay n Hn) as (_ & Cn & _). destruct (Hpay m Hm) as (_ & Cm & _).
  rewrite (Cn E _ Hx), (Cm E _ Hy). reflexivity.
Qed.
Lemma osq_in_node_kmers s (n : node_t) w : In n g1 -> (st = true -> s = DLeft) -> In w (kmers K (nd_seq n)) ->
  In (cn st (osq s w)) (PipelineCheck.node_kmers K st n).
Proof.
  intros Hn Hs Hw. rewrite cn_osq; auto; [unfold PipelineCheck.node_kmers; now apply in_map|].
  eapply kmers_wf; [apply (nwf K g1 Hwf n Hn) | exact Hw].
Qed.

Lemma step_ok_ne a b : RecompCheck.step_ok pay join K st g1 a b = true -> fst a <> fst b.
Proof. unfold RecompCheck.step_ok. intro H. apply andb_prop in H as [_ H]. apply negb_true_iff, Nat.eqb_neq in H. exact H. Qed.

Lemma cn_term_unique v u (n m : node_t) s t : nth_error g1 v = Some n -> nth_error g1 u = Some m -> v <> u ->
  cn st (term_kmer K (nd_seq n) s) <> cn st (term_kmer K (nd_seq m) t).
Proof.
  intros Hn Hm Hne E. destruct (term_at n s (node_in v n Hn)) as [E1 P1].
  destruct (term_at m t (node_in u m Hm)) as [E2 P2]. rewrite E1, E2 in E.
  apply (occ_unique K st g1 HK Hnd v u n m _ _ Hn Hm P1 P2) in E. tauto.
Qed.

(* B1: two consecutive nodes of a node path are joined by a merge of SL, in the direction of travel *)
Lemma junction_merge a b : In (fst a) Sv -> (st = true -> snd a = DLeft) -> RecompCheck.step_ok pay join K st g1 a b = true ->
  mergeableb st kj SL (last_kmer K (nd_seq (onode a))) (first_kmer K (nd_seq (onode b))) = true /\ (st = true -> snd b = DLeft).
Proof.
  intros HSa Hsa Hst. destruct (step_ok_inv pay join K st g1 a b Hst) as [R1 _]. pose proof (step_ok_ne a b Hst) as Hne.
  destruct b as [u t]. cbn [fst snd] in *.
  pose proof (rnext_target pay join K st g1 Sv _ _ _ _ HW R1) as HSu.
  destruct (rnext_inv pay join K st g1 _ _ _ _ R1) as (n & bb & f & m & Hn & Hnum & Hps & Hu & Hl & Hm & Hnp & Hj & Hnum').
  change (n_exts pay n) with (nd_exts n) in *. change (n_exts pay m) with (nd_exts m) in *.
  change (n_seq pay n) with (nd_seq n) in *. change (n_data pay n) with (snd n) in *. change (n_data pay m) with (snd m) in *.
  pose proof (node_in _ n Hn) as Hin. pose proof (node_in _ m Hm) as Him.
  set (d := snd a) in *. set (s := dflip d) in *. set (X := term_kmer K (nd_seq n) s) in *.
  destruct (term_facts n s Hin) as (LX & WX & NX). fold X in LX, WX, NX.
  pose proof (Hlt n Hin) as Len. pose proof (Hlt m Him) as Lem.
  destruct (ExtsWalk.unique_ext_spec _ _ Len Hnum) as (b0 & Hu0 & Hbb & Hh0 & _). assert (Q : Some b0 = Some bb) by (rewrite <- Hu0; exact Hu). injection Q as ->.
  set (nk := extend X bb s) in *.
  assert (Wnk : wf_dna nk) by (apply extend_wf; auto).
  destruct (entered_kmer nk s u t f Wnk Hl) as (m' & Hm' & Ey & Hst_t). assert (Q : Some m' = Some m) by (rewrite <- Hm'; exact Hm). injection Q as ->.
  assert (Hsb : st = true -> t = DLeft).
  { intro E. rewrite (Hst_t E). unfold s. rewrite dflip_dflip. exact (Hsa E). }
  split; [|exact Hsb].
  pose proof (exit_kmer a n Hn) as Ex. fold d s X in Ex.
  unfold s in Ey at 1. rewrite dflip_dflip in Ey.
  set (x := last_kmer K (nd_seq (onode a))) in *. set (y := first_kmer K (nd_seq (onode (u, t)))) in *.
  assert (Wx : wf_dna x) by (rewrite Ex; now apply osq_wf).
  assert (Nx : x <> []) by (rewrite Ex; now apply osq_ne).
  assert (Px : kpal st x = false).
  { rewrite Ex, kpal_osq by exact WX. destruct (kpal st X) eqn:P; [|reflexivity]. apply (pal_single_iff n s Hin) in P. congruence. }
  assert (Py : kpal st y = false) by (rewrite Ey, kpal_osq by exact Wnk; exact Hnp).
  assert (Er : rlinks st SL x = [ob d bb]).
  { apply (sole_links _ (nd_exts n) (dirb s) d Len (proj1 (rlinks_nodup x)) (proj2 (rlinks_nodup x))); auto.
    intros c Hc. exact (exit_links a n c Hn HSa Hsa Hc Px). }
  assert (Eyx : y = tl x ++ [ob d bb]).
  { rewrite Ey, Ex. change (tl (osq d X) ++ [ob d bb]) with (extend (osq d X) (ob d bb) DRight).
    rewrite (osq_extend d X (ob d bb) DRight NX (ob_lt d bb Hbb)), eside_right, ob_ob by exact Hbb. reflexivity. }
  assert (Hh : (hd 0 x < 4)%N) by (apply wf_hd; auto).
  assert (Hlink : In (cn st (lk y DLeft (hd 0%N x))) SL).
  { assert (H : In (ob d bb) (rlinks st SL x)) by (rewrite Er; now left). apply in_rlinks in H as [_ H].
    replace (lk y DLeft (hd 0%N x)) with (lk x DRight (ob d bb)); [exact H|]. cbn [lk]. rewrite Eyx. destruct x; [congruence | reflexivity]. }
  destruct (ExtsWalk.unique_ext_spec _ _ Lem Hnum') as (b1 & Hu1 & Hb1 & Hh1 & _).
  assert (El0 : llinks st SL y = [ob t b1]).
  { apply (sole_links _ (nd_exts m) (dirb t) t Lem (proj1 (llinks_nodup y)) (proj2 (llinks_nodup y))); auto.
    intros c Hc. exact (entry_links (u, t) m c Hm HSu Hsb Hc Py). }
  assert (El : llinks st SL y = [hd 0%N x]).
  { assert (H : In (hd 0%N x) (llinks st SL y)) by (apply in_llinks; auto). rewrite El0 in H. destruct H as [H|[]]. now rewrite El0, H. }
  apply (mergeable_intro st kj SL x y (ob d bb)); auto.
  - pose proof (entry_kmer (u, t) m Hm) as Ey2. cbn [fst snd] in Ey2. fold y in Ey2.
    rewrite Ex, Ey2, !cn_osq; auto; [|now destruct (term_facts m t Him) as (_ & ? & _)].
    unfold X. now apply (cn_term_unique (fst a) u n m).
  - rewrite <- (join_kj_nodes n m x y Hin Him); [exact Hj | |].
    + rewrite Ex. apply osq_in_node_kmers; auto. now apply term_in_kmers; [|apply (nwf K g1 Hwf n Hin)].
    + unfold y. rewrite (entry_kmer (u, t) m Hm). cbn [fst snd]. apply osq_in_node_kmers; auto.
      now apply term_in_kmers; [|apply (nwf K g1 Hwf m Him)].
Qed.

(* B2: a merge of SL leaving the far end of a node of a path is the sole mutual link to a node end *)
Lemma merge_rnext a (n : node_t) y : nth_error g1 (fst a) = Some n -> In (fst a) Sv -> (st = true -> snd a = DLeft) ->
  mergeableb st kj SL (last_kmer K (nd_seq (onode a))) y = true ->
  exists u t, rnext pay join K st g1 (fst a) (dflip (snd a)) = Some (u, t) /\
    first_kmer K (nd_seq (onode (u, t))) = y /\ (st = true -> t = DLeft) /\ In u Sv.
Proof.
  intros Hn HSa Hsa Hmg. pose proof (node_in _ n Hn) as Hin.
  set (d := snd a) in *. set (s := dflip d) in *. set (X := term_kmer K (nd_seq n) s) in *.
  destruct (term_facts n s Hin) as (LX & WX & NX). fold X in LX, WX, NX.
  pose proof (Hlt n Hin) as Len.
  pose proof (exit_kmer a n Hn) as Ex. fold d s X in Ex. set (x := last_kmer K (nd_seq (onode a))) in *.
  destruct (mergeable_inv st kj SL x y Hmg) as (b & Hb & Er & El & Ey & Px & Py & Hne & Hj).
  set (bb := ob d b). assert (Hbb : (bb < 4)%N) by (apply ob_lt; exact Hb).
  assert (Hsole : e_num_ext_dir (nd_exts n) (dirb s) = 1%N /\ e_get_unique_extension (nd_exts n) (dirb s) = Some bb).
  { apply (sole_links _ (nd_exts n) (dirb s) d Len (proj1 (rlinks_nodup x)) (proj2 (rlinks_nodup x))); auto.
    - intros c Hc. exact (exit_links a n c Hn HSa Hsa Hc Px).
    - unfold bb. now rewrite ob_ob. }
  destruct Hsole as [Hnum Hu].
  destruct (ExtsWalk.unique_ext_spec _ _ Len Hnum) as (b0 & Hu0 & _ & Hh0 & _).
  assert (Q : Some b0 = Some bb) by (rewrite <- Hu0; exact Hu). injection Q as ->.
  assert (Hps : RecompCheck.pal_single pay K st n = false).
  { destruct (RecompCheck.pal_single pay K st n) eqn:P; [|reflexivity]. apply (pal_single_iff n s Hin) in P. fold X in P.
    rewrite Ex, kpal_osq in Px by exact WX. congruence. }
  set (nk := extend X bb s).
  assert (Wnk : wf_dna nk) by (apply extend_wf; auto).
  assert (Eynk : y = osq d nk).
  { rewrite Ey, Ex. change (tl (osq d X) ++ [b]) with (extend (osq d X) b DRight).
    rewrite (osq_extend d X b DRight NX Hb), eside_right. reflexivity. }
  destruct (wi_res _ _ _ _ _ HW (fst a) s bb n Hn (in_bases4 bb Hbb) Hh0) as (u & t & f & Hl & HSu).
  rewrite (ext_link_eq K st g1 (fst a) n s bb Hn Hh0) in Hl. fold X nk in Hl.
  destruct (entered_kmer nk s u t f Wnk Hl) as (m & Hm & Eu & Hst_t). unfold s in Eu at 1. rewrite dflip_dflip in Eu.
  pose proof (node_in _ m Hm) as Him. pose proof (Hlt m Him) as Lem.
  assert (Hsb : st = true -> t = DLeft).
  { intro E. rewrite (Hst_t E). unfold s. rewrite dflip_dflip. exact (Hsa E). }
  exists u, t. split; [|split; [now rewrite Eu, Eynk | split; [exact Hsb | exact HSu]]].
  assert (Efy : first_kmer K (nd_seq (onode (u, t))) = y) by (now rewrite Eu, Eynk).
  assert (Hx4 : (hd 0 x < 4)%N).
  { assert (H : In (hd 0%N x) (llinks st SL y)) by (rewrite El; now left). now apply llinks_nodup in H. }
  assert (Hnum' : e_num_ext_dir (nd_exts m) (dirb t) = 1%N).
  { apply (proj1 (sole_links _ (nd_exts m) (dirb t) t Lem (proj1 (llinks_nodup y)) (proj2 (llinks_nodup y))
             ltac:(intros c Hc; rewrite <- Efy; apply (entry_links (u, t) m c Hm HSu Hsb Hc); now rewrite Efy) (ob t (hd 0%N x)) (ob_lt _ _ Hx4))).
    now rewrite ob_ob. }
  apply (rnext_intro pay join K st g1 (fst a) s u t n bb f m); auto.
  - change (kpal st nk = false). rewrite <- (kpal_osq d nk Wnk), <- Eynk. exact Py.
  - change (n_data pay n) with (snd n). change (n_data pay m) with (snd m). rewrite (join_kj_nodes n m x y Hin Him); [exact Hj | |].
    + rewrite Ex. apply osq_in_node_kmers; auto. now apply term_in_kmers; [|apply (nwf K g1 Hwf n Hin)].
    + rewrite <- Efy, (entry_kmer (u, t) m Hm). cbn [fst snd]. apply osq_in_node_kmers; auto.
      now apply term_in_kmers; [|apply (nwf K g1 Hwf m Him)].
Qed.

(* ---- node paths ---- *)
Definition KS (p : list (nat * dir)) : list dna := flat_map (fun a => kmers K (nd_seq (onode a))) p.
Record wpath (p : list (nat * dir)) : Prop := {
  wp_id : forall a, In a p -> fst a < length g1;
  wp_linked : Linked pay join K st g1 p;
  wp_st : st = true -> forall a, In a p -> snd a = DLeft;
  wp_nodup : NoDup (map fst p);
  wp_ne : p <> [];
  wp_S : forall a, In a p -> In (fst a) Sv }.

Lemma nth_of_id v : v < length g1 -> exists n : node_t, nth_error g1 v = Some n.
Proof. intro H. destruct (nth_error g1 v) as [n|] eqn:E; [eauto | apply nth_error_None in E; lia]. Qed.
Lemma block_lnode p a : wpath p -> In a p -> lnode_ok (onode a).
Proof.
  intros Wp Ha. destruct (nth_of_id (fst a) (wp_id p Wp a Ha)) as [n Hn]. apply (onode_ok a n Hn (wp_S p Wp a Ha)).
  intro E. exact (wp_st p Wp E a Ha).
Qed.
Lemma block_ne p a : wpath p -> In a p -> kmers K (nd_seq (onode a)) <> [].
Proof. intros Wp Ha. destruct (ln_wf _ _ _ _ _ (block_lnode p a Wp Ha)) as [W L]. now apply kmers_nonempty. Qed.
Lemma block_hd p a : wpath p -> In a p -> hd [] (kmers K (nd_seq (onode a))) = first_kmer K (nd_seq (onode a)).
Proof. intros Wp Ha. destruct (ln_wf _ _ _ _ _ (block_lnode p a Wp Ha)) as [W L]. symmetry. now apply first_kmer_hd_. Qed.
Lemma block_last p a : wpath p -> In a p -> last (kmers K (nd_seq (onode a))) [] = last_kmer K (nd_seq (onode a)).
Proof. intros Wp Ha. destruct (ln_wf _ _ _ _ _ (block_lnode p a Wp Ha)) as [W L]. symmetry. now apply last_kmer_last_. Qed.
Lemma Linked_pairs p a b : Linked pay join K st g1 p -> In (a, b) (pairs p) -> RecompCheck.step_ok pay join K st g1 a b = true.
Proof. unfold Linked, pairs. intros H Hin. rewrite Forall_forall in H. exact (H (a, b) Hin). Qed.
Lemma in_pairs_in {A} (l : list A) a b : In (a, b) (pairs l) -> In a l /\ In b l.
Proof. apply in_combine_tl_inv. Qed.

(* U2 along a node path: every step of the spelled k-mer list is a merge *)
Lemma KS_pairs_merge p x y : wpath p -> In (x, y) (pairs (KS p)) -> mergeableb st kj SL x y = true.
Proof.
  intros Wp H. unfold KS in H. apply (in_pairs_flat_map _ p [] x y (fun a Ha => block_ne p a Wp Ha)) in H.
  destruct H as [(a & Ha & H)|(a & b & Hab & -> & ->)].
  - exact (ln_unb _ _ _ _ _ (block_lnode p a Wp Ha) (x, y) H).
  - destruct (in_pairs_in p a b Hab) as [Ha Hb].
    destruct (junction_merge a b (wp_S p Wp a Ha) (fun E => wp_st p Wp E a Ha) (Linked_pairs p a b (wp_linked p Wp) Hab)) as [G _].
    rewrite <- (block_last p a Wp Ha), <- (block_hd p b Wp Hb) in G. exact G.
Qed.

Lemma g1_wf_graph : wf_graph pay K g1.
Proof. split; [exact HK|]. intros n Hn. exact (nwf K g1 Hwf n Hn). Qed.

Lemma seq_from_wf first p : forall sq, sequence_of_path_from pay K g1 first p = Some sq -> wf_dna sq.
Proof.
  revert first. induction p as [|[v d] p IH]; intros first sq H; cbn [sequence_of_path_from] in H.
  - injection H as <-. constructor.
  - destruct (@nth_error (gnode pay) g1 v) as [n|] eqn:En; [|discriminate].
    destruct (sequence_of_path_from pay K g1 false p) as [t|] eqn:Et; [|discriminate]. injection H as <-.
    apply KmerAlgebra.wf_app. split; [|now apply (IH false)]. apply wf_skipn.
    destruct (nwf K g1 Hwf n (nth_error_In _ _ En)) as [_ W]. unfold oriented. destruct d; [exact W | apply rc_wf].
Qed.

(* spelling: the k-mers of the sequence of a node path are those of its nodes, read in the direction of travel *)
Lemma spell p sq : wpath p -> sequence_of_path pay K g1 p = Some sq -> kmers K sq = KS p /\ wf_dna sq /\ K <= length sq.
Proof.
  intros Wp Hsq.
  pose proof (Linked_valid_walk pay join K st g1 _ p HW (wp_id p Wp) (wp_linked p Wp)) as Vw.
  destruct (path_spelling pay K st g1 p g1_wf_graph Vw) as (s' & Hs' & Hk). rewrite Hsq in Hs'. injection Hs' as <-.
  assert (E : kmers K sq = KS p).
  { rewrite Hk. unfold walk_kmers, KS. apply flat_map_ext_in. intros a Ha. now rewrite (onode_oseq a (wp_id p Wp a Ha)). }
  split; [exact E|]. split; [exact (seq_from_wf true p sq Hsq)|].
  assert (Hne : kmers K sq <> []).
  { rewrite E. apply flat_map_ne; [exact (wp_ne p Wp) | intros a Ha; exact (block_ne p a Wp Ha)]. }
  destruct (Nat.le_gt_cases K (length sq)) as [H|H]; [exact H|]. exfalso. apply Hne. unfold kmers.
  replace (length sq + 1 - K) with 0 by lia. reflexivity.
Qed.

(* ---- one result node and its node path ---- *)
Record opath (n : node_t) (p : list (nat * dir)) : Prop := {
  op_w : wpath p;
  op_seq : sequence_of_path pay K g1 p = Some (nd_seq n);
  op_exts : path_exts pay g1 p = Some (nd_exts n);
  op_lt : (nd_exts n < 256)%N;
  op_max : forall x d w t, In x (map fst p) -> rnext pay join K st g1 x d = Some (w, t) -> In w (map fst p) }.

Lemma op_ks n p : opath n p -> kmers K (nd_seq n) = KS p /\ node_wf K n.
Proof. intros O. destruct (spell p (nd_seq n) (op_w n p O) (op_seq n p O)) as (E & W & L). split; [exact E | split; assumption]. Qed.

Lemma nodup_fst_dir (p : list (nat * dir)) v d1 d2 : NoDup (map fst p) -> In (v, d1) p -> In (v, d2) p -> d1 = d2.
Proof.
  induction p as [|[v0 d0] p IH]; intros Hnd' H1 H2; [destruct H1|]. cbn [map fst] in Hnd'. inversion Hnd' as [|? ? Hn Hr]; subst.
  destruct H1 as [H1|H1], H2 as [H2|H2].
  - congruence.
  - injection H1 as -> ->. exfalso. apply Hn. change v with (fst (v, d2)). now apply in_map.
  - injection H2 as -> ->. exfalso. apply Hn. change v with (fst (v, d1)). now apply in_map.
  - now apply IH.
Qed.

(* a palindromic single-k-mer node is a path of its own *)
Lemma pal_block_single p a (n : node_t) : wpath p -> In a p -> nth_error g1 (fst a) = Some n ->
  RecompCheck.pal_single pay K st n = true -> p = [a].
Proof.
  intros Wp Ha Hn Hps. apply in_split in Ha as (q1 & q2 & ->).
  assert (Hno : forall x d y t, x = fst a -> rnext pay join K st g1 x d = Some (y, t) -> False).
  { intros x d y t -> R. destruct (rnext_inv pay join K st g1 _ _ _ _ R) as (n' & _ & _ & _ & Hn' & _ & Hp' & _).
    assert (Q : Some n' = Some n) by (rewrite <- Hn'; exact Hn). injection Q as ->. congruence. }
  destruct q2 as [|b q2].
  - destruct q1 as [|c q1] using rev_ind; [reflexivity|]. exfalso. clear IHq1.
    pose proof (wp_linked _ Wp) as L. rewrite <- app_assoc in L. cbn [app] in L.
    apply Linked_mid, step_ok_inv in L. destruct L as [_ L]. exact (Hno _ _ _ _ eq_refl L).
  - exfalso. pose proof (wp_linked _ Wp) as L. apply Linked_mid, step_ok_inv in L. destruct L as [L _].
    destruct b as [u t]. exact (Hno _ _ _ _ eq_refl L).
Qed.

Lemma in_KS p x : In x (KS p) <-> exists a, In a p /\ In x (kmers K (nd_seq (onode a))).
Proof. unfold KS. apply in_flat_map. Qed.

Lemma endelt_in (p : list (nat * dir)) r : p <> [] -> exists v s, endelt p r = Some (v, s) /\ In (v, s) p.
Proof.
  destruct p as [|a p]; [congruence|]. intros _. unfold endelt. destruct r.
  - destruct a as [v s]. exists v, s. split; [reflexivity | now left].
  - destruct (last (a :: p) a) as [v s] eqn:E. exists v, s. split; [reflexivity|]. rewrite <- E.
    apply (last_in (a :: p) a). discriminate.
Qed.

(* the end of a result node = the end of the end node of its path, read in the direction of travel *)
Lemma op_end n p r : opath n p -> exists v s (n' : node_t), endelt p r = Some (v, s) /\ In (v, s) p /\ nth_error g1 v = Some n' /\
  term_kmer K (nd_seq n) r = term_kmer K (nd_seq (onode (v, s))) r /\
  forall c, (c < 4)%N -> e_has_ext (nd_exts n) (dirb r) c = e_has_ext (nd_exts (onode (v, s))) (dirb r) c.
Proof.
  intro O. pose proof (op_w n p O) as Wp. destruct (endelt_in p r (wp_ne p Wp)) as (v & s & He & Hin).
  destruct (nth_of_id v (wp_id p Wp (v, s) Hin)) as [n' Hn']. exists v, s, n'. split; [exact He|]. split; [exact Hin|]. split; [exact Hn'|].
  pose proof (Linked_valid_walk pay join K st g1 _ p HW (wp_id p Wp) (wp_linked p Wp)) as Vw. split.
  - rewrite (end_kmer pay K st g1 p (nd_seq n) r v s g1_wf_graph Vw (op_seq n p O) He).
    rewrite (onode_term (v, s) n' r Hn'). cbn [fst snd]. unfold EdgeSpec.node_seq. unfold graph, gnode, node_t in *. now rewrite Hn'.
  - intros c Hc. rewrite (path_exts_bit pay K g1 p (nd_exts n) r v s n' c (wi_ok _ _ _ _ _ HW) (op_exts n p O) He Hn' (in_bases4 c Hc)).
    now rewrite (onode_bit (v, s) n' r c Hn' Hc).
Qed.

Lemma op_lnode n p : opath n p -> lnode_ok n.
Proof.
  intro O. pose proof (op_w n p O) as Wp. destruct (op_ks n p O) as [Eks Wn]. constructor.
  - exact Wn.
  - exact (op_lt n p O).
  - intros [x y] H. rewrite Eks in H. exact (KS_pairs_merge p x y Wp H).
  - intros r c Hc. destruct (op_end n p r O) as (v & s & n' & He & Hin & Hn' & Et & Hb).
    destruct (ln_ends _ _ _ _ _ (block_lnode p (v, s) Wp Hin) r c Hc) as [H1 H2]. rewrite Et, (Hb c Hc). split; [exact H1|].
    intro P. 
    assert (Pn : RecompCheck.pal_single pay K st n' = true).
    { apply (pal_single_iff n' (eside s r) (node_in v n' Hn')). rewrite (onode_term (v, s) n' r Hn'), kpal_osq in P; [exact P|].
      now destruct (term_facts n' (eside s r) (node_in v n' Hn')) as (_ & ? & _). }
    pose proof (pal_block_single p (v, s) n' Wp Hin Hn' Pn) as Ep.
    destruct (op_end n p (dflip r) O) as (v2 & s2 & n2 & He2 & _ & _ & _ & Hb2).
    rewrite Ep in He2. assert (Q : (v2, s2) = (v, s)) by (destruct r; cbn in He2; congruence). injection Q as -> ->.
    rewrite (Hb2 (comp c) (comp_lt4 c)). exact (H2 P).
  - intros w Hw P. rewrite Eks in Hw. apply in_KS in Hw as (a & Ha & Hw).
    pose proof (block_lnode p a Wp Ha) as La. pose proof (ln_pal _ _ _ _ _ La w Hw P) as Llen.
    destruct (nth_of_id (fst a) (wp_id p Wp a Ha)) as [n' Hn'].
    assert (Pn : RecompCheck.pal_single pay K st n' = true).
    { apply (pal_single_iff n' DLeft (node_in _ n' Hn')). 
      destruct (ln_wf _ _ _ _ _ La) as [Wa _]. rewrite (kmers_exact K _ HK Llen) in Hw. destruct Hw as [<-|[]].
      rewrite (onode_seq a n' Hn'), kpal_osq in P by (apply (nwf K g1 Hwf n' (node_in _ n' Hn'))).
      rewrite (onode_seq a n' Hn'), osq_length in Llen. now rewrite (GraphQueryProofs.term_kmer_single K _ DLeft Llen). }
    pose proof (pal_block_single p a n' Wp Ha Hn' Pn) as Ep. rewrite Ep in Eks. unfold KS in Eks. cbn [flat_map] in Eks. rewrite app_nil_r in Eks.
    destruct Wn as [_ Ln]. destruct (ln_wf _ _ _ _ _ La) as [_ La'].
    rewrite (UnitigSeqUnique.kmers_inj K _ _ HK Ln La' Eks). exact Llen.
Qed.

Lemma KS_last p q a : wpath p -> p = q ++ [a] -> last (KS p) [] = last_kmer K (nd_seq (onode a)).
Proof.
  intros Wp E. unfold KS.
  etransitivity; [exact (last_flat_map _ p a [] a (wp_ne p Wp) (fun a0 Ha0 => block_ne p a0 Wp Ha0))|]. cbv beta.
  assert (El : last p a = a) by (rewrite E; apply last_last). rewrite El.
  apply (block_last p a Wp). rewrite E. apply in_or_app. right. now left.
Qed.
Lemma KS_hd p q a : wpath p -> p = a :: q -> hd [] (KS p) = first_kmer K (nd_seq (onode a)).
Proof.
  intros Wp E. assert (Ha : In a p) by (rewrite E; now left). unfold KS. rewrite E.
  etransitivity; [exact (hd_flat_map _ a q [] (block_ne p a Wp Ha))|]. exact (block_hd p a Wp Ha).
Qed.
Lemma KS_pair_block p a x y : wpath p -> In a p -> In (x, y) (pairs (kmers K (nd_seq (onode a)))) -> In (x, y) (pairs (KS p)).
Proof.
  intros Wp Ha H. unfold KS. apply (in_pairs_flat_map _ p [] x y (fun a0 Ha0 => block_ne p a0 Wp Ha0)). left. eauto.
Qed.
Lemma KS_pair_junction p a b : wpath p -> In (a, b) (pairs p) ->
  In (last_kmer K (nd_seq (onode a)), first_kmer K (nd_seq (onode b))) (pairs (KS p)).
Proof.
  intros Wp H. destruct (in_pairs_in p a b H) as [Ha Hb]. unfold KS.
  apply (in_pairs_flat_map _ p [] _ _ (fun a0 Ha0 => block_ne p a0 Wp Ha0)). right. exists a, b. split; [exact H|].
  split; [symmetry; exact (block_last p a Wp Ha) | symmetry; exact (block_hd p b Wp Hb)].
Qed.

(* U3 along a node path, forward: a merge leaving a k-mer of the path is a step of the path, or closes it *)
Definition rclosed (p : list (nat * dir)) : Prop :=
  forall x d w t, In x (map fst p) -> rnext pay join K st g1 x d = Some (w, t) -> In w (map fst p).
Lemma path_max_fwd p x y : wpath p -> rclosed p -> In x (KS p) -> mergeableb st kj SL x y = true ->
  In (x, y) (pairs (KS p)) \/ (x = last (KS p) [] /\ y = hd [] (KS p)).
Proof.
  intros Wp Hmax Hx Hmg. apply in_KS in Hx as (a & Ha & Hx).
  pose proof (block_lnode p a Wp Ha) as La. destruct (ln_wf _ _ _ _ _ La) as [WA LA].
  apply kmers_in in Hx as [i [Hi ->]].
  destruct (Nat.eq_dec (i + K) (length (nd_seq (onode a)))) as [El|El].
  2:{ left. pose proof (in_combine_tl (kmers K (nd_seq (onode a))) [] i) as Hp. rewrite kmers_len, !kmers_nth in Hp by lia.
      specialize (Hp ltac:(lia)). fold (pairs (kmers K (nd_seq (onode a)))) in Hp.
      pose proof (ln_unb _ _ _ _ _ La _ Hp) as Hm2. cbn [fst snd] in Hm2.
      destruct (mergeable_inv st kj SL _ _ Hmg) as (b & _ & Er & _ & Ey & _).
      destruct (mergeable_inv st kj SL _ _ Hm2) as (b' & _ & Er' & _ & Ey' & _).
      assert (b' = b) by congruence. subst b'. rewrite Ey, <- Ey'. exact (KS_pair_block p a _ _ Wp Ha Hp). }
  assert (Ex : kmer_at K (nd_seq (onode a)) i = last_kmer K (nd_seq (onode a))) by (unfold last_kmer; f_equal; lia).
  rewrite Ex in *. destruct (nth_of_id (fst a) (wp_id p Wp a Ha)) as [n0 Hn0].
  destruct (merge_rnext a n0 y Hn0 (wp_S p Wp a Ha) (fun E => wp_st p Wp E a Ha) Hmg) as (u & t & R & Ey & Hst' & HSu).
  destruct a as [v d]. cbn [fst snd] in *. set (s := dflip d) in *.
  assert (Hno : ~ In (v, s) p).
  { intro H. pose proof (nodup_fst_dir p v s d (wp_nodup p Wp) H Ha) as E. unfold s in E. destruct d; discriminate. }
  destruct (uses_or_ext p v d s Ha) as [Hu|He].
  - destruct Hu as (q1 & q2 & u0 & [Hu|Hu]).
    + exfalso. apply Hno. rewrite Hu. apply in_or_app. right. right. now left.
    + unfold s in Hu. rewrite dflip_dflip in Hu. left.
      pose proof (wp_linked p Wp) as L. rewrite Hu in L. apply Linked_mid, step_ok_inv in L. destruct L as [L _]. cbn [fst snd] in L.
      fold s in L. rewrite R in L. injection L as <-. rewrite <- Ey. apply KS_pair_junction; [exact Wp|]. rewrite Hu. apply in_pairs_mid.
  - destruct He as [[q He]|[q He]]; [exfalso; apply Hno; rewrite He; now left|]. unfold s in He. rewrite dflip_dflip in He.
    assert (Hu : In u (map fst p)).
    { apply (Hmax v s u t); [change v with (fst (v, d)); now apply in_map | exact R]. }
    apply in_map_iff in Hu as [[u' tu] [Eu Hu]]. cbn [fst] in Eu. subst u'.
    assert (Rs : rnext pay join K st g1 u t = Some (v, s)).
    { apply (rnext_sym pay join K st (E2eGraph.join_sym mode) g1 Sv v s u t HW); [|exact R].
      exact (wp_S p Wp (v, d) Ha). }
    destruct (uses_or_ext p u tu t Hu) as [Hu2|He2].
    + exfalso. destruct (uses_rnext pay join K st g1 p u t (wp_linked p Wp) Hu2) as (w & tw & R1 & _ & Hu3).
      rewrite Rs in R1. injection R1 as <- <-.
      apply (uses_not_ext p v s (wp_nodup p Wp) Hu3). right. exists q. unfold s. now rewrite dflip_dflip.
    + right. destruct He2 as [[q' He2]|[q' He2]].
      * split; [symmetry; exact (KS_last p q (v, d) Wp He) | rewrite (KS_hd p q' (u, t) Wp He2); now symmetry].
      * exfalso. rewrite He in He2. apply app_inj_tail in He2 as [_ E2]. injection E2 as -> E2.
        assert (Et : t = s) by (unfold s; rewrite E2; now rewrite dflip_dflip).
        assert (Hs : st = false).
        { destruct (Bool.bool_dec st true) as [Est|Est]; [exfalso | now apply not_true_is_false].
          specialize (Hst' Est). pose proof (wp_st p Wp Est (u, d) Ha) as Hd. cbn [snd] in Hd.
          rewrite Et in Hst'. unfold s in Hst'. rewrite Hd in Hst'. discriminate. }
        destruct (mergeable_inv st kj SL _ _ Hmg) as (_ & _ & _ & _ & _ & _ & _ & Hne & _). apply Hne.
        rewrite <- Ey, Et. rewrite (exit_kmer (u, d) n0 Hn0), (entry_kmer (u, s) n0 Hn0). cbn [fst snd]. fold s.
        destruct (term_facts n0 s (node_in u n0 Hn0)) as (_ & WX & _).
        rewrite !cn_osq; auto; intro E; congruence.
Qed.

(* ---- the same path walked backwards ---- *)
Definition rpath (p : list (nat * dir)) : list (nat * dir) := rev (map flipc p).
Lemma onode_flipc a : fst a < length g1 -> nd_seq (onode (flipc a)) = rc (nd_seq (onode a)).
Proof.
  intro H. destruct (nth_of_id (fst a) H) as [n Hn]. rewrite (onode_seq a n Hn), (onode_seq (flipc a) n Hn).
  unfold flipc. cbn [snd]. destruct (snd a); cbn [dflip osq]; [reflexivity|]. symmetry. apply ListFacts.rc_involutive.
  apply (nwf K g1 Hwf n (node_in _ n Hn)).
Qed.
Lemma KS_rpath p : (forall a, In a p -> fst a < length g1) -> KS (rpath p) = rev (map rc (KS p)).
Proof.
  unfold rpath, KS. induction p as [|a p IH]; intro Hid; [reflexivity|]. cbn [map rev flat_map].
  rewrite flat_map_app, IH by (intros b Hb; apply Hid; now right). cbn [flat_map]. rewrite app_nil_r.
  rewrite (onode_flipc a (Hid a (or_introl eq_refl))), RecompKmers.kmers_rc, map_app, rev_app_distr. reflexivity.
Qed.
Lemma opt_nd_eqb_refl a : opt_nd_eqb (Some a) (Some a) = true.
Proof. destruct a as [x d]. cbn. rewrite Nat.eqb_refl. now destruct d. Qed.
Lemma step_ok_flip a b : RecompCheck.step_ok pay join K st g1 a b = true -> RecompCheck.step_ok pay join K st g1 (flipc b) (flipc a) = true.
Proof.
  intro H. destruct (step_ok_inv pay join K st g1 a b H) as [R1 R2]. pose proof (step_ok_ne a b H) as Hne.
  unfold RecompCheck.step_ok, flipc. cbn [fst snd]. rewrite !dflip_dflip, R1, R2.
  destruct b as [u t]. cbn [fst snd]. rewrite !opt_nd_eqb_refl. cbn [andb]. apply negb_true_iff, Nat.eqb_neq. cbn [fst] in Hne. congruence.
Qed.
Lemma Linked_rpath p : Linked pay join K st g1 p -> Linked pay join K st g1 (rpath p).
Proof.
  unfold Linked, rpath. intro H. rewrite Forall_forall in *. intros [x y] Hxy. fold (pairs (rev (map flipc p))) in Hxy.
  apply (proj1 (pairs_rev _ _ _)) in Hxy. rewrite pairs_map in Hxy. apply in_map_iff in Hxy as [[a b] [E Hab]]. cbn [fst snd] in E. injection E as <- <-.
  cbn [fst snd]. apply step_ok_flip. exact (H (a, b) Hab).
Qed.
Lemma rpath_fst p : map fst (rpath p) = rev (map fst p).
Proof. unfold rpath. rewrite map_rev, map_map. reflexivity. Qed.
Lemma wpath_rpath p : st = false -> wpath p -> wpath (rpath p).
Proof.
  intros Hs [A1 A2 A3 A4 A5 A6]. constructor.
  - intros a Ha. unfold rpath in Ha. apply in_rev, in_map_iff in Ha as [b [<- Hb]]. cbn [flipc fst]. now apply A1.
  - now apply Linked_rpath.
  - intro E. congruence.
  - rewrite rpath_fst. now apply NoDup_rev.
  - unfold rpath. intro E. apply (f_equal (@length _)) in E. rewrite rev_length, map_length in E. destruct p; [congruence | discriminate].
  - intros a Ha. unfold rpath in Ha. apply in_rev, in_map_iff in Ha as [b [<- Hb]]. cbn [flipc fst]. now apply A6.
Qed.
Lemma rclosed_rpath p : rclosed p -> rclosed (rpath p).
Proof. unfold rclosed. intros H x d w t Hx R. rewrite rpath_fst in *. apply in_rev in Hx. apply -> in_rev. exact (H x d w t Hx R). Qed.

(* U3 along a node path, for the reverse complement of a k-mer of the path *)
Lemma path_max_bwd p x y : st = false -> wpath p -> rclosed p -> In (rc x) (KS p) -> wf_dna x -> mergeableb st kj SL x y = true ->
  In (rc y, rc x) (pairs (KS p)) \/ (rc x = hd [] (KS p) /\ rc y = last (KS p) []).
Proof.
  intros Hs Wp Hmax Hx Wx Hmg. pose proof (wpath_rpath p Hs Wp) as Wr.
  assert (Hx' : In x (KS (rpath p))).
  { rewrite (KS_rpath p (wp_id p Wp)). apply -> in_rev. apply in_map_iff. exists (rc x). split; [now apply ListFacts.rc_involutive | exact Hx]. }
  assert (Wks : forall z, In z (KS p) -> wf_dna z).
  { intros z Hz. apply in_KS in Hz as (a & Ha & Hz). eapply kmers_wf; [|exact Hz]. exact (proj1 (ln_wf _ _ _ _ _ (block_lnode p a Wp Ha))). }
  destruct (path_max_fwd (rpath p) x y Wr (rclosed_rpath p Hmax) Hx' Hmg) as [H|[H1 H2]].
  - left. rewrite (KS_rpath p (wp_id p Wp)) in H. apply (proj1 (pairs_rev _ _ _)) in H. rewrite pairs_map in H. apply in_map_iff in H as [[a b] [E Hab]].
    cbn [fst snd] in E. injection E as <- <-. destruct (in_pairs_in _ _ _ Hab) as [Ha Hb].
    rewrite !ListFacts.rc_involutive by auto. exact Hab.
  - right. rewrite (KS_rpath p (wp_id p Wp)) in H1, H2.
    assert (Hne : KS p <> []) by (apply flat_map_ne; [exact (wp_ne p Wp) | intros a Ha; exact (block_ne p a Wp Ha)]).
    destruct (KS p) as [|k0 ks] eqn:Ek; [congruence|]. split.
    + rewrite H1. cbn [map rev]. rewrite last_last. cbn [hd]. apply ListFacts.rc_involutive. apply Wks. now left.
    + rewrite H2. destruct (exists_last (l := k0 :: ks)) as (q & z & Eq); [discriminate|]. rewrite Eq, map_app, rev_app_distr. cbn [map rev app hd].
      rewrite last_last. apply ListFacts.rc_involutive. apply Wks. rewrite Eq. apply in_or_app. right. now left.
Qed.

(* ---- payloads ---- *)
Definition idsv (v : nat) : list N := match nth_error g1 v with Some m => nd_ids m | None => [] end.
Definition colv (v : nat) : N := match nth_error g1 v with Some m => nd_colour m | None => 0%N end.
Definition nkv (v : nat) : list dna := match nth_error g1 v with Some m => PipelineCheck.node_kmers K st m | None => [] end.

Lemma datas_ids vs : forall ds, datas pay g1 vs = Some ds -> concat (map snd ds) = flat_map idsv vs.
Proof.
  induction vs as [|v vs IH]; intros ds H; cbn [datas] in H; [injection H as <-; reflexivity|].
  cbn [flat_map].
  destruct (@nth_error (gnode pay) g1 v) as [m|] eqn:Em; [|discriminate]. destruct (datas pay g1 vs) as [t|]; [|discriminate].
  injection H as <-. cbn [map concat]. rewrite (IH t eq_refl). f_equal. unfold idsv. unfold graph, gnode, node_t in *. now rewrite Em.
Qed.
Lemma flat_map_perm_pw {A B} (f h : A -> list B) l : (forall a, In a l -> Permutation (f a) (h a)) -> Permutation (flat_map f l) (flat_map h l).
Proof.
  induction l as [|a l IH]; intro H; [constructor|]. cbn [flat_map]. apply Permutation_app; [apply H; now left | apply IH; intros b Hb; apply H; now right].
Qed.
Lemma block_perm a (n' : node_t) : nth_error g1 (fst a) = Some n' -> (st = true -> snd a = DLeft) ->
  Permutation (map (cn st) (kmers K (nd_seq (onode a)))) (PipelineCheck.node_kmers K st n').
Proof.
  intros Hn Hs. rewrite (onode_seq a n' Hn). unfold PipelineCheck.node_kmers. destruct (snd a) eqn:E; cbn [osq]; [reflexivity|].
  assert (Hst : st = false) by (destruct (Bool.bool_dec st true) as [H|H]; [specialize (Hs H); discriminate | now apply not_true_is_false]).
  rewrite RecompKmers.kmers_rc, map_rev, map_map. rewrite <- Permutation_rev.
  rewrite (map_ext_in (fun x => cn st (rc x)) (cn st)); [reflexivity|]. intros x Hx. apply cn_rc_; auto.
  eapply kmers_wf; [apply (nwf K g1 Hwf n' (node_in _ n' Hn)) | exact Hx].
Qed.
Lemma nkv_perm p : wpath p -> Permutation (map (cn st) (KS p)) (flat_map nkv (map fst p)).
Proof.
  intro Wp. unfold KS. rewrite <- flat_map_map_out, flat_map_map'. apply flat_map_perm_pw. intros a Ha.
  destruct (nth_of_id (fst a) (wp_id p Wp a Ha)) as [n' Hn']. unfold nkv. rewrite Hn'.
  apply (block_perm a n' Hn'). intro E. exact (wp_st p Wp E a Ha).
Qed.
Lemma path_colour p : wpath p -> mode <> 0%N -> forall a b, In a p -> In b p -> colv (fst a) = colv (fst b).
Proof.
  intros Wp Hm. pose proof (wp_linked p Wp) as L. clear Wp.
  assert (G : forall q, Linked pay join K st g1 q -> forall a b, In a q -> In b q -> colv (fst a) = colv (fst b)).
  { induction q as [|a q IH]; intros Lq x y Hx Hy; [destruct Hx|]. destruct q as [|b q].
    - destruct Hx as [<-|[]], Hy as [<-|[]]. reflexivity.
    - apply (Linked_cons2 pay join K st) in Lq as [Hs Lq].
      assert (Hab : colv (fst a) = colv (fst b)).
      { destruct (step_ok_inv pay join K st g1 a b Hs) as [R _]. destruct b as [u t].
        destruct (rnext_inv pay join K st g1 _ _ _ _ R) as (n' & _ & _ & m' & Hn' & _ & _ & _ & _ & Hm' & _ & Hj & _).
        unfold colv. cbn [fst]. unfold graph, gnode, node_t in *. rewrite Hn', Hm'. unfold pay_join in Hj.
        destruct (mode =? 0)%N eqn:E; [apply N.eqb_eq in E; contradiction|]. now apply N.eqb_eq in Hj. }
      assert (Hq : forall z, In z (b :: q) -> colv (fst z) = colv (fst a)).
      { intros z Hz. rewrite Hab. apply (IH Lq); [exact Hz | now left]. }
      destruct Hx as [<-|Hx], Hy as [<-|Hy]; [reflexivity | symmetry; auto | auto | now rewrite (Hq x Hx), (Hq y Hy)]. }
  exact (G p L).
Qed.

Lemma op_payload n p lp seed rp sd0 ds : opath n p -> p = assemble lp seed rp ->
  option_map (n_data pay) (nth_error g1 seed) = Some sd0 -> datas pay g1 (verts nat lp ++ verts nat rp) = Some ds ->
  snd n = fold_left pay_reduce ds sd0 ->
  Permutation (nd_ids n) (map idf (PipelineCheck.node_kmers K st n)) /\
  (mode <> 0%N -> forall k, In k (PipelineCheck.node_kmers K st n) -> colf k = nd_colour n) /\
  (mode = 0%N -> exists k, In k (PipelineCheck.node_kmers K st n) /\ colf k = nd_colour n).
Proof.
  intros O Ep Hsd Hds Hd. pose proof (op_w n p O) as Wp. destruct (op_ks n p O) as [Eks _].
  assert (Hseed : In (seed, DLeft) p) by (rewrite Ep; unfold assemble; apply in_or_app; right; now left).
  destruct (nth_of_id seed (wp_id p Wp _ Hseed)) as [ns Hns]. pose proof (node_in seed ns Hns) as Hins.
  assert (Esd : sd0 = snd ns).
  { unfold graph, gnode, node_t in *. rewrite Hns in Hsd. cbn in Hsd. now injection Hsd as <-. }
  assert (Pk : Permutation (PipelineCheck.node_kmers K st n) (flat_map nkv (map fst p))).
  { unfold PipelineCheck.node_kmers. rewrite Eks. now apply nkv_perm. }
  assert (Hnd' : snd n = (fst (snd ns), idsv seed ++ flat_map idsv (verts nat lp ++ verts nat rp))).
  { assert (Eids : idsv seed = snd (snd ns)) by (unfold idsv; now rewrite Hns).
    rewrite Hd, fold_pay, (datas_ids _ ds Hds), Esd, Eids. reflexivity. }
  assert (Hin_nk : forall v k, In v (map fst p) -> In k (nkv v) -> In k (PipelineCheck.node_kmers K st n)).
  { intros v k Hv0 Hk. eapply Permutation_in; [symmetry; exact Pk|]. apply in_flat_map. eauto. }
  unfold nd_ids, nd_colour. rewrite Hnd'. cbn [fst snd]. split; [|split].
  - transitivity (flat_map idsv (map fst p)).
    + change (idsv seed ++ flat_map idsv (verts nat lp ++ verts nat rp)) with (flat_map idsv (seed :: verts nat lp ++ verts nat rp)).
      apply UnitigUnique.perm_concat_map. rewrite Ep, assemble_verts. unfold node_verts.
      rewrite Permutation_middle. apply Permutation_app_tail. apply Permutation_rev.
    + rewrite (Permutation_map idf Pk), <- flat_map_map_out. apply flat_map_perm_pw. intros v Hv0.
      apply in_map_iff in Hv0 as [a [<- Ha]]. destruct (nth_of_id (fst a) (wp_id p Wp a Ha)) as [m Hm].
      unfold idsv, nkv. rewrite Hm. exact (proj1 (Hpay m (node_in _ m Hm))).
  - intros Hm k Hk. apply (Permutation_in _ Pk) in Hk. apply in_flat_map in Hk as [v [Hv0 Hk]].
    apply in_map_iff in Hv0 as [a [<- Ha]]. destruct (nth_of_id (fst a) (wp_id p Wp a Ha)) as [m Hma].
    unfold nkv in Hk. rewrite Hma in Hk. destruct (Hpay m (node_in _ m Hma)) as (_ & C & _). rewrite (C Hm k Hk).
    pose proof (path_colour p Wp Hm a (seed, DLeft) Ha Hseed) as E. unfold colv in E. cbn [fst] in E. rewrite Hma, Hns in E. exact E.
  - intros Hm. destruct (Hpay ns Hins) as (_ & _ & C). destruct (C Hm) as (k & Hk & Ek). exists k. split; [|exact Ek].
    apply (Hin_nk seed k); [change seed with (fst (seed, DLeft)); now apply in_map | unfold nkv; now rewrite Hns].
Qed.

Lemma kmers_of_paths (o : list node_t) ps : Forall2 (fun n p => opath n p) o ps ->
  Permutation (gk K st o) (flat_map nkv (concat (map (map fst) ps))).
Proof.
  unfold PipelineCheck.graph_kmers. induction 1 as [|n p o ps O F IH]; [constructor|].
  cbn [flat_map map concat]. rewrite flat_map_app. apply Permutation_app; [|exact IH].
  unfold PipelineCheck.node_kmers. rewrite (proj1 (op_ks n p O)). apply nkv_perm. exact (op_w n p O).
Qed.

(* ---- the result of compress_graph: its node-level description ---- *)
Variable out : list node_t.
Variable paths : list (list (nat * dir)).
Hypothesis HSnd : NoDup Sv.
Hypothesis Hnodes : Forall2 (node_of_path pay pay_reduce join K st g1) out paths.
Hypothesis Hexts : Forall2 (fun n p => sequence_of_path pay K g1 p = Some (n_seq pay n) /\ path_exts pay g1 p = Some (n_exts pay n)) out paths.
Hypothesis Hmax : forall p, In p paths -> forall x d w t, In x (map fst p) -> rnext pay join K st g1 x d = Some (w, t) -> In w (map fst p).
Hypothesis Hndp : NoDup (concat (map (map fst) paths)).
Hypothesis Hcov : forall x, In x (concat (map (map fst) paths)) <-> In x Sv.

Definition pay_of (n : node_t) (p : list (nat * dir)) : Prop :=
  exists lp seed rp sd0 ds, p = assemble lp seed rp /\ option_map (n_data pay) (nth_error g1 seed) = Some sd0 /\
    datas pay g1 (verts nat lp ++ verts nat rp) = Some ds /\ snd n = fold_left pay_reduce ds sd0.

Lemma out_paths : Forall2 (fun n p => opath n p /\ pay_of n p) out paths.
Proof.
  pose proof (RecompUnitig.Forall2_and _ _ _ _ Hnodes Hexts) as F.
  assert (G : forall (n : node_t) p, In p paths ->
              node_of_path pay pay_reduce join K st g1 n p /\
              (sequence_of_path pay K g1 p = Some (n_seq pay n) /\ path_exts pay g1 p = Some (n_exts pay n)) -> opath n p /\ pay_of n p).
  { intros n p Hp [(lp & seed & rp & n0 & Ep & (Hseq & (sd0 & ds & D1 & D2 & D3) & _) & HL & Hndp' & Es & Ed & Hlt' & _) [Hs He]].
    assert (Hseed : In (seed, DLeft) p) by (rewrite Ep; unfold assemble; apply in_or_app; right; now left).
    assert (HinS : forall a, In a p -> In (fst a) Sv).
    { intros a Ha. apply Hcov. apply in_concat. exists (map fst p). split; [now apply in_map | now apply in_map]. }
    assert (Wp : wpath p).
    { constructor; auto.
      - intros a Ha. exact (wi_S _ _ _ _ _ HW _ (HinS a Ha)).
      - intros St a Ha. exact (Linked_stranded pay join K st g1 p St HL a (seed, DLeft) Ha Hseed).
      - intro E. rewrite E in Hseed. destruct Hseed. }
    split.
    - constructor; auto. intros x d w t Hx R. exact (Hmax p Hp x d w t Hx R).
    - exists lp, seed, rp, sd0, ds. repeat split; auto. change (snd n) with (n_data pay n). now rewrite Ed. }
  eapply Forall2_impl_in; [exact F|]. intros n p _ Hp Hnp. exact (G n p Hp Hnp).
Qed.

(* the k-mers of the result = those of the surviving nodes *)
Theorem out_kmers : Permutation (gk K st out) (flat_map nkv Sv).
Proof.
  pose proof out_paths as F.
  transitivity (flat_map nkv (concat (map (map fst) paths))).
  - apply kmers_of_paths. eapply Forall2_impl_in; [exact F|]. intros n p _ _ [O _]. exact O.
  - apply UnitigUnique.perm_concat_map. apply NoDup_Permutation; [exact Hndp | exact HSnd | exact Hcov].
Qed.

Lemma out_opath n : In n out -> exists p, In p paths /\ opath n p /\ pay_of n p.
Proof.
  intro Hn. destruct (Forall2_in_l _ _ _ out_paths n Hn) as (p & Hp & H). exists p. split; [exact Hp | exact H].
Qed.

Theorem out_lgraph_ok : lgraph_ok K st kj SL out.
Proof.
  constructor.
  - apply Forall_forall. intros n Hn. destruct (out_opath n Hn) as (p & _ & O & _). exact (ln_wf _ _ _ _ _ (op_lnode n p O)).
  - intros n Hn. destruct (out_opath n Hn) as (p & _ & O & _). exact (op_lt n p O).
  - intros n q Hn Hq. destruct (out_opath n Hn) as (p & _ & O & _). exact (ln_unb _ _ _ _ _ (op_lnode n p O) q Hq).
  - intros n Hn. destruct (out_opath n Hn) as (p & _ & O & _). exact (ln_ends _ _ _ _ _ (op_lnode n p O)).
  - intros n Hn. destruct (out_opath n Hn) as (p & _ & O & _). exact (ln_pal _ _ _ _ _ (op_lnode n p O)).
Qed.

Lemma surv_nodup : NoDup (flat_map nkv Sv).
Proof.
  apply (NoDup_flat_map_sub nkv Sv (seq 0 (length g1)) HSnd).
  - intros x Hx. apply in_seq. pose proof (wi_S _ _ _ _ _ HW x Hx) as H. unfold graph, gnode, node_t in *. lia.
  - unfold nkv. rewrite (RecompUnitig.flat_map_seq_nth (PipelineCheck.node_kmers K st) g1). exact Hnd.
Qed.

Lemma out_nodup : NoDup (gk K st out).
Proof. eapply Permutation_NoDup; [symmetry; exact out_kmers | exact surv_nodup]. Qed.

Hypothesis Hcl : forall w, In w SL -> both_in K st (fun k => In k (flat_map nkv Sv)) w.
Hypothesis HSwf : forall w, In w SL -> exists v, wf_dna v /\ length v = S K /\ w = cn st v.

Theorem out_links w : In w (graph_links K st out) <-> In w SL.
Proof.
  assert (Hclo : forall w', In w' SL -> both_in K st (fun k => In k (gk K st out)) w').
  { intros w' Hw'. destruct (Hcl w' Hw') as [H1 H2]. split; (eapply Permutation_in; [symmetry; exact out_kmers|]); assumption. }
  eapply (lgraph_links_iff K st kj SL out); eauto using out_lgraph_ok, out_nodup.
Qed.

Theorem out_unitig : unitig_graph K st mode colf out.
Proof.
  pose proof out_lgraph_ok as Hlo. split; [exact HK|]. split; [exact (lg_wf _ _ _ _ _ Hlo)|].
  assert (Hext : forall x y, mergeableb st kj (graph_links K st out) x y = mergeableb st kj SL x y).
  { intros x y. apply (mergeableb_ext st mode colf). exact out_links. }
  split.
  - intros n q Hn Hq. rewrite Hext. exact (lg_unb _ _ _ _ _ Hlo n q Hn Hq).
  - intros n x y Hn Hx Hm. rewrite Hext in Hm. destruct (out_opath n Hn) as (p & _ & O & _).
    pose proof (op_w n p O) as Wp. destruct (op_ks n p O) as [Eks Wn].
    assert (Hmaxp : rclosed p) by (exact (op_max n p O)).
    assert (Hclose : (last (kmers K (nd_seq n)) [], hd [] (kmers K (nd_seq n))) = (last (KS p) [], hd [] (KS p))) by (now rewrite Eks).
    unfold okmers in Hx. apply in_app_or in Hx as [Hx|Hx].
    + rewrite Eks in Hx. exists n, (x, y). split; [exact Hn|]. split; [|auto]. unfold opairs. apply in_or_app. left.
      unfold node_pairs, inner_pairs. cbv zeta. fold (pairs (kmers K (nd_seq n))). rewrite Hclose, Eks. apply in_or_app.
      destruct (path_max_fwd p x y Wp Hmaxp Hx Hm) as [H|[-> ->]]; [now left | right; now left].
    + assert (Hs : st = false) by (destruct (Bool.bool_dec st true) as [E|E]; [rewrite E in Hx; destruct Hx | now apply not_true_is_false]).
      rewrite Hs in Hx. apply in_map_iff in Hx as [z [<- Hz]]. rewrite Eks in Hz.
      assert (Wz : wf_dna z).
      { apply in_KS in Hz as (a & Ha & Hz). eapply kmers_wf; [|exact Hz]. exact (proj1 (ln_wf _ _ _ _ _ (block_lnode p a Wp Ha))). }
      assert (Wy : wf_dna y).
      { destruct (mergeable_inv st kj SL _ _ Hm) as (b & Hb & _ & _ & -> & _). apply KmerAlgebra.wf_app. split; [apply KmerAlgebra.wf_tl, rc_wf | constructor; auto]. }
      assert (Hz' : In (rc (rc z)) (KS p)) by (rewrite ListFacts.rc_involutive; auto).
      exists n, (rc z, y). split; [exact Hn|]. split; [|auto]. unfold opairs. rewrite Hs. apply in_or_app. right.
      apply in_map_iff. exists (rc y, z). cbn [fst snd]. split; [now rewrite ListFacts.rc_involutive|].
      unfold node_pairs, inner_pairs. cbv zeta. fold (pairs (kmers K (nd_seq n))). rewrite Hclose, Eks. apply in_or_app.
      destruct (path_max_bwd p (rc z) y Hs Wp Hmaxp Hz' (rc_wf z) Hm) as [H|[H1 H2]].
      * left. now rewrite ListFacts.rc_involutive in H.
      * right. left. rewrite ListFacts.rc_involutive in H1 by exact Wz. now rewrite H1, H2.
Qed.

Theorem out_payload : PipelineCheck.payload_ok K st mode idf colf out.
Proof.
  intros n Hn. destruct (out_opath n Hn) as (p & _ & O & (lp & seed & rp & sd0 & ds & Ep & D1 & D2 & D3)).
  exact (op_payload n p lp seed rp sd0 ds O Ep D1 D2 D3).
Qed.
End CMain.
Print Assumptions out_kmers.
Print Assumptions out_links.
Print Assumptions out_unitig.
Print Assumptions out_payload.
