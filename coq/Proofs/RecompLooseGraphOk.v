(* C09 <- C03 <- C01: the graphs that compress_kmers builds are [rvalid_loose], so compress_graph is fully specified
   on them (Proofs/RecompLooseMain.v) whether or not their extensions all resolve.
     graph_ok (EdgeSpec, C03) + extension BYTES + [pal_ends]  ->  rvalid_loose        (graph_ok_rvalid_loose)
     valid_graph (graph_ok + exts_resolvable) + bytes + pal_ends -> rvalid            (valid_graph_rvalid)
     compress_kmers of a table with tbl_ok, exts_sym, exts_sym_pal -> rvalid_loose    (compress_kmers_rvalid_loose)
   [links_sym] is C03's edges_symmetric read on extensions instead of edge lists; [pal_ends] (a palindromic k-mer is a
   node of its own) is NOT part of graph_ok - for compress_kmers outputs it comes from C01 (a palindromic k-mer is never
   merged), as does the byte bound (the extension byte is e_from_single_dirs of two nibbles). *)
From Coq Require Import NArith List Bool Arith Lia Permutation.
From DBG Require Import Proofs.AbstractWalk.
From DBG Require Import Spec.Dna Spec.GraphIndex Spec.Unitig Spec.CompressSpec Packed.ExtsModel Algo.Compress
  Algo.GraphModel Algo.Recompress Spec.EdgeSpec Check.RecompCheck Check.RecompLooseCheck
  Proofs.ListFacts Proofs.DnaFacts Proofs.GraphQueryProofs Proofs.CompressGraphOk Proofs.RecompCheckProofs
  Proofs.RecompressProofs Proofs.RecompExts Proofs.RecompLoose Proofs.RecompLooseMain.
Import ListNotations.
Local Open Scope nat_scope.

Section GraphOkLoose.
Variable D : Type.
Variable K : nat.
Variable stranded : bool.
Local Notation graph := (graph D).

Lemma first_kmer_whole (s : dna) : length s = K -> first_kmer K s = s.
Proof. intro H. rewrite first_kmer_firstn. rewrite <- H. apply firstn_all. Qed.

(* the two notions of "palindromic single-k-mer node" *)
Lemma pal_single_bridge (g : graph) v n :
  nth_error g v = Some n -> EdgeSpec.pal_single D K stranded g v -> RecompCheck.pal_single D K stranded n = true.
Proof.
  intros Hn (Hs & _ & Hl & Hp). unfold EdgeSpec.node_seq in Hl, Hp. rewrite Hn in Hl, Hp.
  unfold RecompCheck.pal_single. rewrite Hs, Hl, Nat.eqb_refl. cbn [negb andb].
  rewrite (first_kmer_whole _ Hl). now apply palindrome_iff.
Qed.

Lemma ext_link_in_edges (g : graph) x d b l :
  In b bases4 -> ext_link D K stranded g x d b = Some l -> In l (edges_of D K stranded g x d).
Proof.
  intros Hb He. apply in_edges_of. unfold ext_link in He. unfold EdgeSpec.node_exts, EdgeSpec.node_seq.
  destruct (nth_error g x) as [n|] eqn:En; [|discriminate].
  split; [apply nth_error_Some; congruence|]. exists b. split; [exact Hb|].
  destruct (e_has_ext (n_exts D n) (dirb d) b); [|discriminate]. split; [reflexivity | exact He].
Qed.
Lemma in_edges_ext_link (g : graph) x d l :
  In l (edges_of D K stranded g x d) -> exists b, In b bases4 /\ ext_link D K stranded g x d b = Some l.
Proof.
  intro H. apply in_edges_of in H as (Hx & b & Hb & He & Hl). exists b. split; [exact Hb|].
  unfold ext_link. unfold EdgeSpec.node_exts, EdgeSpec.node_seq in *.
  destruct (nth_error g x) as [n|] eqn:En; [|apply nth_error_None in En; lia]. now rewrite He.
Qed.

Theorem graph_ok_links_sym (g : graph) : graph_ok D K stranded g -> links_sym D K stranded g.
Proof.
  intros G x d b y t f n m Hn Hm Hb He.
  assert (Hx : x < length g) by (apply nth_error_Some; congruence).
  pose proof (ext_link_in_edges g x d b _ Hb He) as Hin.
  destruct (edges_symmetric D K stranded g G x d y t f Hx Hin) as (s' & t' & f' & Hback & Ht & Hs & _).
  destruct (in_edges_ext_link g y t' _ Hback) as (b' & Hb' & He').
  exists t', b', s', f'. split; [exact Hb'|]. split; [exact He'|]. split.
  - intro Hp. destruct Ht as [Ht|Ht]; [exact Ht|]. rewrite (pal_single_bridge g y m Hm Ht) in Hp. discriminate.
  - intro Hp. destruct Hs as [Hs|Hs]; [exact Hs|]. rewrite (pal_single_bridge g x n Hn Hs) in Hp. discriminate.
Qed.

Theorem graph_ok_rvalid_loose (g : graph) :
  graph_ok D K stranded g -> (forall n, In n g -> (n_exts D n < 256)%N) -> pal_ends D K stranded g ->
  rvalid_loose D K stranded g.
Proof.
  intros G Hb Hp. pose proof G as ((HK & Hwf) & (HL & HR & _) & _).
  split; [|split; [exact HL | split; [exact HR | split; [exact Hp | now apply graph_ok_links_sym]]]].
  apply Forall_forall. intros n Hn. destruct (Hwf n Hn) as [H1 H2]. split; [exact H2|]. split; [lia | now apply Hb].
Qed.

Lemma exts_resolvable_resolvable (g : graph) : exts_resolvable D K stranded g -> resolvable D K stranded g.
Proof.
  intros R x d b n Hn Hb Hh. unfold ext_link. rewrite Hn, Hh.
  assert (Hx : x < length g) by (apply nth_error_Some; congruence).
  pose proof (R x d b Hx Hb) as H. unfold EdgeSpec.node_exts, EdgeSpec.node_seq in H. rewrite Hn in H. now apply H.
Qed.

Theorem valid_graph_rvalid (g : graph) :
  valid_graph D K stranded g -> (forall n, In n g -> (n_exts D n < 256)%N) -> pal_ends D K stranded g ->
  rvalid D K stranded g.
Proof.
  intros [G R] Hb Hp. apply rvalid_iff_loose. split; [now apply graph_ok_rvalid_loose | now apply exts_resolvable_resolvable].
Qed.
End GraphOkLoose.

(* ---------------------------------------------------------------- compress_kmers outputs *)
Section CompressKmersLoose.
Variable D : Type.
Variable reduce : D -> D -> D.
Variable join : D -> D -> bool.
Variable K : nat.
Variable stranded : bool.

Theorem compress_kmers_rvalid_loose : 1 <= K -> forall T : table D,
  tbl_ok D K stranded T -> CompressSpec.exts_sym D stranded T -> exts_sym_pal D stranded T ->
  exists nodes, compress_kmers D reduce join stranded T = Some nodes /\
    graph_ok D K stranded nodes /\ rvalid_loose D K stranded nodes.
Proof.
  intros HK T Hok Hsym Hpal.
  destruct (compress_graph_ok D reduce join K stranded HK T Hok Hsym Hpal) as (nodes & Hc & G).
  exists nodes. split; [exact Hc|]. split; [exact G|].
  apply graph_ok_rvalid_loose; [exact G | |].
  - intros n Hn. destruct (nodes_facts D reduce join K stranded HK T Hok Hsym Hpal nodes Hc n Hn) as [_ _ _ _ (el & er & _ & _ & He)].
    change (GraphModel.n_exts D n) with (CompressSpec.n_exts D n). rewrite He. apply from_single_dirs_lt.
  - intros Hs n d Hn Hp.
    destruct (nodes_facts D reduce join K stranded HK T Hok Hsym Hpal nodes Hc n Hn) as [Fl _ _ Fp _].
    apply (Fp (term_kmer K (GraphModel.n_seq D n) d)).
    + apply term_in_kmers; [exact HK | exact Fl].
    + unfold CompressSpec.kpal. rewrite Hs. exact Hp.
Qed.

(* hence compress_graph, with any censor list, is total and fully specified on what compress_kmers returns *)
Corollary compress_kmers_then_compress_graph : 1 <= K -> (forall a b, join a b = join b a) -> forall T : table D,
  tbl_ok D K stranded T -> CompressSpec.exts_sym D stranded T -> exts_sym_pal D stranded T ->
  exists nodes, compress_kmers D reduce join stranded T = Some nodes /\
    forall censor, exists out paths,
      compress_graph_paths D reduce join K stranded nodes censor = Some (out, paths).
Proof.
  intros HK Hj T Hok Hsym Hpal.
  destruct (compress_kmers_rvalid_loose HK T Hok Hsym Hpal) as (nodes & Hc & _ & V).
  exists nodes. split; [exact Hc|]. intro censor.
  exact (RecompLooseMain.recompress_total_loose D reduce join K stranded Hj nodes censor V).
Qed.
End CompressKmersLoose.
