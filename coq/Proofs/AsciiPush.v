(* C16: DnaString::push on the packed representation: pushing base b onto the packing of l gives the
   packing of l ++ [b] (used by the strict and the hashed-N constructors, which build base by base). *)
From Coq Require Import NArith List Bool Arith Lia.
From DBG Require Import Gen.SourceConsts Spec.Dna Spec.Ascii Packed.KmerModel Packed.Avx2Model Packed.AsciiModel
  Proofs.ListFacts Proofs.KmerLanes Proofs.AsciiPaths Proofs.AsciiRender.
Import ListNotations.
Open Scope N_scope.

(* ------------------------------------------------------------------ chunks without fuel *)
Lemma chunks_fuel_indep {A} f1 : forall f2 (l : list A), (length l <= f1)%nat -> (length l <= f2)%nat ->
  chunks_fuel f1 32 l = chunks_fuel f2 32 l.
Proof.
  induction f1 as [|f1 IH]; intros f2 l H1 H2.
  - destruct l; [now rewrite !chunks_fuel_nil | cbn in H1; lia].
  - destruct l as [|x l']; [now rewrite !chunks_fuel_nil|].
    destruct f2 as [|f2]; [cbn in H2; lia|].
    rewrite !chunks_fuel_S by discriminate. f_equal.
    apply IH; rewrite skipn_length; cbn [length] in *; lia.
Qed.
Lemma chunks_cons {A} (l : list A) : l <> [] -> chunks 32 l = firstn 32 l :: chunks 32 (skipn 32 l).
Proof.
  intro H. unfold chunks. destruct l as [|x l']; [congruence|]. cbn [length].
  rewrite chunks_fuel_S by discriminate. f_equal. apply chunks_fuel_indep; rewrite skipn_length; cbn [length]; lia.
Qed.
Lemma chunks_one {A} (l : list A) : l <> [] -> (length l <= 32)%nat -> chunks 32 l = [l].
Proof. intros H Hl. rewrite chunks_cons by exact H. now rewrite firstn_all2, skipn_all2. Qed.

Lemma chunks_snoc (b : N) f : forall l, (length l <= f)%nat ->
  ((length l mod 32 = 0)%nat ->
     chunks 32 (l ++ [b]) = chunks 32 l ++ [[b]] /\ length (chunks 32 l) = (length l / 32)%nat) /\
  ((length l mod 32 <> 0)%nat ->
     exists cs g, chunks 32 l = cs ++ [g] /\ length cs = (length l / 32)%nat /\ length g = (length l mod 32)%nat /\
                  chunks 32 (l ++ [b]) = cs ++ [g ++ [b]]).
Proof.
  induction f as [|f IH]; intros l Hl.
  - destruct l; [| cbn in Hl; lia]. split; [intros _; split; reflexivity | intro H; cbn in H; congruence].
  - destruct (Nat.ltb (length l) 32) eqn:E.
    + apply Nat.ltb_lt in E. destruct l as [|x l'].
      * split; [intros _; split; reflexivity | intro H; cbn in H; congruence].
      * set (L := x :: l') in *. rewrite Nat.mod_small, Nat.div_small by exact E. split.
        -- intro H. unfold L in H. cbn in H. lia.
        -- intros _. exists [], L. rewrite chunks_one by (discriminate || lia).
           rewrite chunks_one; [auto | destruct L; discriminate | rewrite app_length; cbn [length]; lia].
    + apply Nat.ltb_ge in E.
      assert (HL : l <> []) by (destruct l; [cbn in E; lia | discriminate]).
      assert (HL' : l ++ [b] <> []) by (destruct l; discriminate).
      rewrite (chunks_cons l HL), (chunks_cons (l ++ [b]) HL').
      rewrite firstn_app, skipn_app. replace (32 - length l)%nat with 0%nat by lia.
      rewrite firstn_O, skipn_O, app_nil_r.
      destruct (div32_step (length l) E) as [Hd Hm]. rewrite Hd, Hm.
      destruct (IH (skipn 32 l)) as [IH0 IH1]; [rewrite skipn_length; lia|].
      rewrite skipn_length in IH0, IH1. split.
      * intro H. destruct (IH0 H) as [A B]. rewrite A. cbn [length app]. now rewrite B.
      * intro H. destruct (IH1 H) as (cs & g & A & B & C & D).
        exists (firstn 32 l :: cs), g. rewrite A, D. cbn [length app]. now rewrite B.
Qed.

Lemma concat_chunks {A} f : forall (l : list A), (length l <= f)%nat -> concat (chunks_fuel f 32 l) = l.
Proof.
  induction f as [|f IH]; intros l Hl.
  - destruct l; [reflexivity | cbn in Hl; lia].
  - destruct l as [|x l']; [reflexivity|]. rewrite chunks_fuel_S by discriminate. cbn [concat].
    rewrite IH by (rewrite skipn_length; cbn [length] in *; lia). apply firstn_skipn.
Qed.

(* ------------------------------------------------------------------ set_by_addr on one block *)
Lemma lxor_lor_disjoint s m : N.land s m = 0 -> N.lxor (N.lor s m) m = s.
Proof.
  intro H. apply N.bits_inj. intro i. rewrite N.lxor_spec, N.lor_spec.
  assert (Hi : N.testbit s i && N.testbit m i = false) by (now rewrite <- N.land_spec, H, N.bits_0).
  destruct (N.testbit s i), (N.testbit m i); cbn in *; congruence.
Qed.

Lemma set_lane g b : (length g < 32)%nat -> wf_dna g -> b < 4 ->
  let sh := N.of_nat (62 - length g * 2) in
  let mask := N.shiftl 3 sh mod 2 ^ 64 in
  N.lor (N.lxor (N.lor (pack_be g) mask) mask) (N.shiftl (N.land b 3) sh mod 2 ^ 64) = pack_be (g ++ [b]).
Proof.
  intros Hk Hw Hb sh mask.
  assert (Hsh : sh + 2 <= 64) by (unfold sh; lia).
  assert (Hp : 2 ^ (sh + 2) <= 2 ^ 64) by (apply N.pow_le_mono_r; lia).
  assert (Hlt : forall x, x < 4 -> N.shiftl x sh mod 2 ^ 64 = x * 2 ^ sh /\ x * 2 ^ sh < 2 ^ (sh + 2)).
  { intros x Hx. rewrite N.shiftl_mul_pow2.
    assert (x * 2 ^ sh < 2 ^ (sh + 2)).
    { rewrite N.pow_add_r. change (2 ^ 2) with 4. rewrite (N.mul_comm (2 ^ sh)).
      apply N.mul_lt_mono_pos_r; [apply N.neq_0_lt_0, N.pow_nonzero; lia | exact Hx]. }
    split; [apply N.mod_small; lia | assumption]. }
  destruct (Hlt 3 eq_refl) as [Em Hm]. fold mask in Em.
  change 3 with (N.ones 2) at 1. rewrite N.land_ones. change (2 ^ 2) with 4. rewrite (N.mod_small b 4 Hb).
  destruct (Hlt b Hb) as [Eb _]. rewrite Eb.
  assert (Es : pack_be g = rank g * 2 ^ (sh + 2)).
  { unfold pack_be. f_equal. rewrite pow4. f_equal. unfold sh. lia. }
  rewrite lxor_lor_disjoint by (rewrite Es, Em; apply land_shifted; exact Hm).
  rewrite <- N.shiftl_mul_pow2. unfold sh. replace (length g * 2)%nat with (2 * length g)%nat by lia.
  now apply pack_be_snoc.
Qed.

(* ------------------------------------------------------------------ push *)
Theorem push_spec l b : wf_dna l -> b < 4 -> ds_push (ds_of_dna l) b = Some (ds_of_dna (l ++ [b])).
Proof.
  intros Hw Hb. unfold ds_push. rewrite addr_eq. cbn [ds_len ds_storage ds_of_dna]. unfold dna in *.
  destruct (chunks_snoc b (length l) l (le_n _)) as [C0 C1].
  unfold ds_of_dna at 1. rewrite app_length. cbn [length]. rewrite Nat.add_1_r.
  destruct (Nat.eq_dec (length l mod 32) 0) as [E|E].
  - destruct (C0 E) as [A B]. rewrite E. cbn [Nat.mul Nat.eqb andb]. rewrite map_length.
    replace (Nat.leb (length (chunks 32 l)) (length l / 32)) with true by (symmetry; apply Nat.leb_le; lia).
    cbn [andb]. unfold set_by_addr. rewrite app_length, map_length. cbn [length].
    replace (Nat.ltb (length l / 32) (length (chunks 32 l) + 1)) with true by (symmetry; apply Nat.ltb_lt; lia).
    rewrite <- B. rewrite <- (map_length pack_be (chunks 32 l)) at 1 2.
    rewrite nth_middle. unfold upd. rewrite firstn_app_exact by reflexivity.
    rewrite skipn_all2 by (rewrite app_length; cbn [length]; lia).
    pose proof (set_lane [] b) as S. cbn [length] in S. change (pack_be []) with 0 in S.
    cbn [Nat.mul Nat.sub] in *. rewrite S by (cbn; lia || constructor || exact Hb).
    cbn [obind app]. rewrite A, map_app. reflexivity.
  - destruct (C1 E) as (cs & g & A & B & C & D).
    replace (Nat.eqb (length l mod 32 * 2) 0) with false by (symmetry; apply Nat.eqb_neq; lia).
    cbn [andb]. rewrite A, map_app. cbn [map]. unfold set_by_addr. rewrite app_length, map_length. cbn [length].
    replace (Nat.ltb (length l / 32) (length cs + 1)) with true by (symmetry; apply Nat.ltb_lt; lia).
    rewrite <- B. rewrite <- (map_length pack_be cs) at 1 2.
    rewrite nth_middle. unfold upd. rewrite firstn_app_exact by reflexivity.
    rewrite skipn_all2 by (rewrite app_length; cbn [length]; lia).
    assert (Hg : wf_dna g).
    { assert (Hin : forall x, In x g -> In x l).
      { intros x Hx. rewrite <- (concat_chunks (length l) l (le_n _)). apply in_concat. exists g. split; [| exact Hx].
        fold (chunks 32 l). rewrite A. apply in_or_app. right. now left. }
      unfold wf_dna in *. rewrite Forall_forall in *. auto. }
    assert (Hk : (length g < 32)%nat) by (rewrite C; apply Nat.mod_upper_bound; lia).
    rewrite <- C. rewrite set_lane by assumption.
    cbn [obind app]. rewrite D, map_app. reflexivity.
Qed.

Lemma push_all l : forall acc, wf_dna acc -> wf_dna l ->
  fold_left (fun a b => do d <- a; ds_push d b) l (Some (ds_of_dna acc)) = Some (ds_of_dna (acc ++ l)).
Proof.
  induction l as [|b l IH]; intros acc Ha Hl; [now rewrite app_nil_r|].
  inversion Hl; subst. cbn [fold_left obind]. rewrite push_spec by assumption.
  rewrite IH; [now rewrite <- app_assoc | | assumption].
  unfold wf_dna. apply Forall_app. split; [exact Ha | now constructor].
Qed.
