(* C10 (neighbors): pure list facts about Spec/Neighbors.v [neighbors]: it enumerates, without repetition, exactly the
   well-formed strings of the same length at Hamming distance 1 (3 * length of them). *)
From Coq Require Import NArith List Bool Arith Lia.
From DBG Require Import Spec.Dna Spec.Neighbors Proofs.ListFacts.
Import ListNotations.
Open Scope N_scope.

(* ------------------------------------------------------------------ small facts *)
Lemma lt4_cases b : b < 4 -> b = 0 \/ b = 1 \/ b = 2 \/ b = 3.
Proof. lia. Qed.

Lemma other_bases_length b : b < 4 -> length (other_bases b) = 3%nat.
Proof. intro H. destruct (lt4_cases b H) as [->|[->|[->| ->]]]; reflexivity. Qed.

Lemma other_bases_NoDup b : NoDup (other_bases b).
Proof.
  unfold other_bases. apply NoDup_filter.
  repeat constructor; cbn; intuition discriminate.
Qed.

Lemma other_bases_In b ch : In ch (other_bases b) <-> ch < 4 /\ ch <> b.
Proof.
  unfold other_bases. rewrite filter_In. split.
  - intros [Hin Hne]. apply negb_true_iff, N.eqb_neq in Hne. split; [|exact Hne].
    cbn in Hin. lia.
  - intros [Hlt Hne]. split.
    + cbn. lia.
    + now apply negb_true_iff, N.eqb_neq.
Qed.

Lemma upd_cons_0 {A} (x : A) l v : upd 0 (x :: l) v = v :: l.
Proof. reflexivity. Qed.
Lemma upd_cons_S {A} i (x : A) l v : upd (S i) (x :: l) v = x :: upd i l v.
Proof. reflexivity. Qed.

Lemma nth_upd_same {A} i (l : list A) x d : (i < length l)%nat -> nth i (upd i l x) d = x.
Proof. intro H. rewrite nth_upd by exact H. now rewrite Nat.eqb_refl. Qed.
Lemma nth_upd_other {A} i j (l : list A) x d : (i < length l)%nat -> j <> i -> nth j (upd i l x) d = nth j l d.
Proof. intros H Hne. rewrite nth_upd by exact H. apply Nat.eqb_neq in Hne. now rewrite Hne. Qed.

Lemma upd_nth_same {A} i (l : list A) d : (i < length l)%nat -> upd i l (nth i l d) = l.
Proof.
  intro H. unfold upd. rewrite <- (skipn_S_nth i l d H). apply firstn_skipn.
Qed.

(* ------------------------------------------------------------------ count_diff *)
Lemma count_diff_refl a : count_diff a a = 0.
Proof. induction a as [|x a IH]; [reflexivity|]. cbn [count_diff]. now rewrite N.eqb_refl, IH. Qed.

Lemma count_diff_zero a : forall b, length a = length b -> count_diff a b = 0 -> a = b.
Proof.
  induction a as [|x a IH]; intros [|y b] Hlen H0; try discriminate; [reflexivity|].
  cbn [count_diff] in H0. injection Hlen as Hlen.
  destruct (N.eqb_spec x y) as [->|Hne].
  - f_equal. apply IH; [exact Hlen|lia].
  - lia.
Qed.

Lemma count_diff_upd a : forall i v, (i < length a)%nat -> v <> nth i a 0 -> count_diff a (upd i a v) = 1.
Proof.
  induction a as [|x a IH]; intros i v Hi Hne; [cbn in Hi; lia|].
  destruct i as [|i].
  - rewrite upd_cons_0. cbn [count_diff]. cbn [nth] in Hne.
    destruct (N.eqb_spec x v) as [->|_]; [congruence|]. now rewrite count_diff_refl.
  - rewrite upd_cons_S. cbn [count_diff]. rewrite N.eqb_refl. cbn [nth] in Hne. cbn [length] in Hi.
    rewrite IH by (lia || exact Hne). reflexivity.
Qed.

Lemma count_diff_one a : forall b, length b = length a -> count_diff a b = 1 ->
  exists i, (i < length a)%nat /\ nth i b 0 <> nth i a 0 /\ b = upd i a (nth i b 0).
Proof.
  induction a as [|x a IH]; intros [|y b] Hlen H1; try discriminate.
  cbn [count_diff] in H1. injection Hlen as Hlen.
  destruct (N.eqb_spec x y) as [->|Hne].
  - destruct (IH b Hlen) as (i & Hi & Hd & Hu); [lia|].
    exists (S i). cbn [length nth]. split; [lia|]. split; [exact Hd|].
    rewrite upd_cons_S. now f_equal.
  - exists 0%nat. cbn [length nth]. split; [lia|]. split; [congruence|].
    rewrite upd_cons_0. f_equal. symmetry. apply count_diff_zero; [now symmetry|lia].
Qed.

(* ------------------------------------------------------------------ generic list lemmas *)
Lemma flat_map_length_const {A B} (f : A -> list B) n : forall l,
  (forall x, In x l -> length (f x) = n) -> length (flat_map f l) = (n * length l)%nat.
Proof.
  induction l as [|x l IH]; intro H; cbn [flat_map length]; [lia|].
  rewrite app_length, IH, H; [lia|now left|]. intros y Hy. apply H. now right.
Qed.

Lemma NoDup_app_mk {A} (a b : list A) : NoDup a -> NoDup b -> (forall x, In x a -> In x b -> False) -> NoDup (a ++ b).
Proof.
  induction a as [|x a IH]; intros Ha Hb Hd; [exact Hb|].
  inversion Ha as [|? ? Hx Ha']; subst. cbn. constructor.
  - rewrite in_app_iff. intros [H|H]; [now apply Hx|]. apply (Hd x); [now left|exact H].
  - apply IH; [exact Ha'|exact Hb|]. intros y Hy. apply Hd. now right.
Qed.

Lemma NoDup_flat_map_mk {A B} (f : A -> list B) : forall l, NoDup l ->
  (forall x, In x l -> NoDup (f x)) ->
  (forall x y z, In x l -> In y l -> In z (f x) -> In z (f y) -> x = y) ->
  NoDup (flat_map f l).
Proof.
  induction l as [|x l IH]; intros Hl Hf Hd; [constructor|].
  inversion Hl as [|? ? Hx Hl']; subst. cbn [flat_map]. apply NoDup_app_mk.
  - apply Hf. now left.
  - apply IH; [exact Hl'| |].
    + intros y Hy. apply Hf. now right.
    + intros y y' z Hy Hy'. apply Hd; now right.
  - intros z Hz Hz'. apply in_flat_map in Hz' as (y & Hy & Hzy).
    assert (x = y) by (apply (Hd x y z); [now left|now right|exact Hz|exact Hzy]).
    subst y. now apply Hx.
Qed.

Lemma NoDup_map_inj_in {A B} (f : A -> B) : forall l, NoDup l ->
  (forall x y, In x l -> In y l -> f x = f y -> x = y) -> NoDup (map f l).
Proof.
  induction l as [|x l IH]; intros Hl Hinj; [constructor|].
  inversion Hl as [|? ? Hx Hl']; subst. cbn [map]. constructor.
  - intro H. apply in_map_iff in H as (y & Hy & Hin).
    assert (y = x) by (apply Hinj; [now right|now left|exact Hy]). subst y. now apply Hx.
  - apply IH; [exact Hl'|]. intros y y' Hy Hy'. apply Hinj; now right.
Qed.

(* ------------------------------------------------------------------ neighbors *)
Lemma wf_dna_nth s i : wf_dna s -> nth i s 0 < 4.
Proof.
  intro H. destruct (Nat.lt_ge_cases i (length s)) as [Hi|Hi].
  - unfold wf_dna in H. rewrite Forall_forall in H. apply H. now apply nth_In.
  - rewrite nth_overflow by exact Hi. lia.
Qed.

Lemma neighbors_at_In s i y : In y (neighbors_at s i) <-> exists ch, ch < 4 /\ ch <> nth i s 0 /\ y = upd i s ch.
Proof.
  unfold neighbors_at. rewrite in_map_iff. split.
  - intros (ch & Hy & Hin). apply other_bases_In in Hin as [H4 Hne]. exists ch. now repeat split.
  - intros (ch & H4 & Hne & Hy). exists ch. split; [now symmetry|]. now apply other_bases_In.
Qed.

Lemma neighbors_In_pos s y : In y (neighbors s) <->
  exists i ch, (i < length s)%nat /\ ch < 4 /\ ch <> nth i s 0 /\ y = upd i s ch.
Proof.
  unfold neighbors. rewrite in_flat_map. split.
  - intros (i & Hi & Hy). apply in_seq in Hi. apply neighbors_at_In in Hy as (ch & H). exists i, ch.
    split; [lia|exact H].
  - intros (i & ch & Hi & H). exists i. split; [apply in_seq; lia|]. apply neighbors_at_In. now exists ch.
Qed.

(* 2a *)
Theorem neighbors_length s : wf_dna s -> length (neighbors s) = (3 * length s)%nat.
Proof.
  intro Hs. unfold neighbors. rewrite (flat_map_length_const _ 3%nat).
  - now rewrite seq_length.
  - intros i _. unfold neighbors_at. rewrite map_length. apply other_bases_length. now apply wf_dna_nth.
Qed.

(* 2b: no hypothesis on s needed *)
Theorem neighbors_NoDup s : NoDup (neighbors s).
Proof.
  unfold neighbors. apply NoDup_flat_map_mk.
  - apply seq_NoDup.
  - intros i Hi. apply in_seq in Hi. unfold neighbors_at. apply NoDup_map_inj_in; [apply other_bases_NoDup|].
    intros a b _ _ Hab. apply (f_equal (fun l => nth i l 0)) in Hab.
    now rewrite !nth_upd_same in Hab by lia.
  - intros i j z Hi Hj Hzi Hzj. apply in_seq in Hi. apply in_seq in Hj.
    apply neighbors_at_In in Hzi as (a & _ & Hna & ->). apply neighbors_at_In in Hzj as (b & _ & _ & Hzj).
    destruct (Nat.eq_dec i j) as [E|Hne]; [exact E|exfalso].
    apply (f_equal (fun l => nth i l 0)) in Hzj.
    rewrite nth_upd_same in Hzj by lia. rewrite nth_upd_other in Hzj by lia. now apply Hna.
Qed.

(* 2c *)
Theorem neighbors_In s y : wf_dna s ->
  (In y (neighbors s) <-> length y = length s /\ wf_dna y /\ count_diff s y = 1).
Proof.
  intro Hs. rewrite neighbors_In_pos. split.
  - intros (i & ch & Hi & H4 & Hne & ->). split; [now apply upd_length|]. split.
    + now apply Forall_upd.
    + now apply count_diff_upd.
  - intros (Hlen & Hy & H1). destruct (count_diff_one s y Hlen H1) as (i & Hi & Hd & Hu).
    exists i, (nth i y 0). split; [exact Hi|]. split; [now apply wf_dna_nth|]. now split.
Qed.

(* 2d *)
Theorem neighbors_not_self s : ~ In s (neighbors s).
Proof.
  intro H. apply neighbors_In_pos in H as (i & ch & Hi & _ & Hne & Hu).
  apply Hne. apply (f_equal (fun l => nth i l 0)) in Hu. now rewrite nth_upd_same in Hu by exact Hi.
Qed.

Theorem neighbors_wf s : wf_dna s -> Forall wf_dna (neighbors s).
Proof. intro Hs. apply Forall_forall. intros y Hy. now apply (neighbors_In s y Hs) in Hy. Qed.

Theorem neighbors_all_length s : Forall (fun y => length y = length s) (neighbors s).
Proof.
  apply Forall_forall. intros y Hy. apply neighbors_In_pos in Hy as (i & ch & Hi & _ & _ & ->). now apply upd_length.
Qed.
