(* C05: finite facts closed by computation (kept apart from FilterProofs.v so that proof iteration stays fast). *)
From Coq Require Import NArith List Bool Arith Lia.
From DBG Require Import Spec.Dna Packed.ExtsMini Algo.KmerHist Algo.Filter.
Import ListNotations.
Open Scope N_scope.

Fixpoint list_eqbN (a b : list N) : bool :=
  match a, b with
  | [], [] => true
  | x :: a', y :: b' => (x =? y) && list_eqbN a' b'
  | _, _ => false
  end.
Lemma list_eqbN_eq a : forall b, list_eqbN a b = true -> a = b.
Proof.
  induction a as [|x a IH]; destruct b as [|y b]; cbn; try discriminate; auto.
  intros H. apply andb_true_iff in H. destruct H as [H1 H2]. apply N.eqb_eq in H1. subst. f_equal. auto.
Qed.

(* the bucket indices a pass with range r works on, and the whole schedule of a plan *)
Definition pass_buckets (r : N * N) : list N := filter (in_range r) buckets256.
Definition schedule (rs : list (N * N)) : list N := flat_map pass_buckets rs.

(* contiguous: starts at 0, each range starts where the previous one ended, every start is below 256 *)
Fixpoint contiguous (start : N) (rs : list (N * N)) : bool :=
  match rs with
  | [] => n_buckets <=? start
  | (a, b) :: t => (a =? start) && (a <? b) && (a <? n_buckets) && contiguous b t
  end.

Definition sizes : list N := map N.of_nat (seq 1 257).
Definition tile_ok (sz : N) : bool :=
  match bucket_ranges sz with
  | Some rs => list_eqbN (schedule rs) buckets256 && contiguous 0 rs &&
               (N.of_nat (length rs) =? (n_buckets + sz - 1) / sz)
  | None => false
  end.
Lemma tile_sweep : forallb tile_ok sizes = true.
Proof. vm_compute. reflexivity. Qed.

(* Exts facts over all 256 (x 256) values *)
Definition all_exts : list N := map N.of_nat (seq 0 256).
Lemma ex_rc_invol_sweep : forallb (fun e => (ex_rc (ex_rc e) =? e) && (ex_rc e <? 256)) all_exts = true.
Proof. vm_compute. reflexivity. Qed.
Lemma ex_rc_add_sweep : forallb (fun a => forallb (fun b => ex_rc (ex_add a b) =? ex_add (ex_rc a) (ex_rc b)) all_exts) all_exts = true.
Proof. vm_compute. reflexivity. Qed.
Lemma ex_rc_merge_sweep : forallb (fun a => forallb (fun b => ex_rc (ex_merge a b) =? ex_merge (ex_rc b) (ex_rc a)) all_exts) all_exts = true.
Proof. vm_compute. reflexivity. Qed.
Lemma ex_merge_lt_sweep : forallb (fun a => forallb (fun b => ex_merge a b <? 256) all_exts) all_exts = true.
Proof. vm_compute. reflexivity. Qed.
Lemma ex_rc_mk_sweep : forallb (fun b => (ex_rc (ex_mk_left b) =? ex_mk_right (comp b)) && (ex_rc (ex_mk_right b) =? ex_mk_left (comp b))
                                          && (ex_mk_left b <? 256) && (ex_mk_right b <? 256)) [0; 1; 2; 3] = true.
Proof. vm_compute. reflexivity. Qed.
Lemma ex_add_lt_sweep : forallb (fun a => forallb (fun b => ex_add a b <? 256) all_exts) all_exts = true.
Proof. vm_compute. reflexivity. Qed.
