(* C14, remaining observables: renderings of a DnaString, ndiffs (Proofs/HammingProofs.v) and the packed set of
   strings: every added sequence is returned unchanged at its index. *)
From Coq Require Import NArith List Bool Arith Lia.
From DBG Require Import Spec.Dna Packed.KmerModel Packed.Blocks Packed.DnaStringModel Packed.SliceModel Packed.PackedSet
  Proofs.ListFacts Proofs.DnaStringProofs Proofs.SliceProofs.
Import ListNotations.
Open Scope N_scope.

Theorem d_to_ascii_spec s : d_inv s -> d_to_ascii s = Some (text (d_abs s)).
Proof.
  intro I. unfold d_to_ascii. rewrite (d_to_bytes_spec s I). cbn [obind]. f_equal. unfold text.
  apply map_ext_in. intros b Hb. apply (bits_to_ascii_char s I).
  pose proof (d_abs_wf s) as W. unfold wf_dna in W. rewrite Forall_forall in W. exact (W b Hb).
Qed.
Theorem d_to_text_spec s : d_inv s -> d_to_text s = Some (text (d_abs s)).
Proof.
  intro I. unfold d_to_text. rewrite (d_to_bytes_spec s I). cbn [obind]. f_equal. unfold text.
  apply map_ext_in. intros b Hb. apply (bits_to_base_char' s I).
  pose proof (d_abs_wf s) as W. unfold wf_dna in W. rewrite Forall_forall in W. exact (W b Hb).
Qed.

(* ---- PackedDnaStringSet *)
Definition p_ok (p : pset) (seqs : list dna) : Prop :=
  d_inv (p_seq p) /\ d_abs (p_seq p) = concat seqs /\
  length (p_start p) = length seqs /\ length (p_length p) = length seqs /\
  forall i, (i < length seqs)%nat ->
    nth i (p_start p) 0%nat = length (concat (firstn i seqs)) /\ nth i (p_length p) 0%nat = length (nth i seqs []).

Lemma u32_small n : N.of_nat n < 2 ^ 32 -> u32_of_nat n = n.
Proof. intro H. unfold u32_of_nat. rewrite N.mod_small by exact H. apply Nat2N.id. Qed.

Lemma concat_snoc {A} (ls : list (list A)) l : concat (ls ++ [l]) = concat ls ++ l.
Proof. rewrite concat_app. cbn [concat]. now rewrite app_nil_r. Qed.

Lemma p_add_ok p seqs l : p_ok p seqs -> wf_dna l -> N.of_nat (length l) < 2 ^ 32 ->
  exists p', p_add_u32 p l = Some p' /\ p_ok p' (seqs ++ [l]).
Proof.
  intros [I [A [Ls [Ll Hi]]]] W Hlen.
  destruct (d_push_all_spec l (p_seq p) I) as [s' [E [I' A']]].
  { unfold wf_dna in W. rewrite Forall_forall in *. intros b Hb. specialize (W b Hb). lia. }
  unfold p_add_u32. rewrite E. cbn [obind]. eexists. split; [reflexivity|].
  unfold p_ok. cbn [p_seq p_start p_length].
  split; [exact I'|]. split.
  { rewrite A', A. replace (concat (seqs ++ [l])) with (concat seqs ++ l) by (symmetry; apply concat_snoc). f_equal. apply map_mod4_id. exact W. }
  rewrite !app_length. cbn [length]. split; [lia|]. split; [lia|].
  intros i Hlt.
  destruct (Nat.eq_dec i (length seqs)) as [->|Hne].
  - rewrite !app_nth2 by lia. rewrite Ls, Ll, Nat.sub_diag. cbn [nth].
    rewrite firstn_app_exact by reflexivity.
    split; [|apply u32_small; exact Hlen].
    rewrite <- A. rewrite (d_abs_length (p_seq p) I). reflexivity.
  - assert (Hi' : (i < length seqs)%nat) by lia.
    rewrite !app_nth1 by lia. destruct (Hi i Hi') as [H1 H2]. rewrite H1, H2.
    rewrite firstn_app. replace (i - length seqs)%nat with 0%nat by lia. cbn [firstn]. rewrite app_nil_r. auto.
Qed.

Lemma p_ok_new : p_ok p_new [].
Proof.
  unfold p_ok, p_new. cbn. split; [exact d_inv_new|]. split; [reflexivity|]. split; [reflexivity|]. split; [reflexivity|].
  intros i Hi. inversion Hi.
Qed.

Theorem p_add_all_ok more : forall p seqs, p_ok p seqs -> Forall wf_dna more ->
  Forall (fun l => N.of_nat (length l) < 2 ^ 32) more ->
  exists p', p_add_all p more = Some p' /\ p_ok p' (seqs ++ more).
Proof.
  induction more as [|l more IH]; intros p seqs Hok W L.
  - exists p. rewrite app_nil_r. auto.
  - inversion W; inversion L; subst.
    destruct (p_add_ok p seqs l Hok) as [p1 [E1 O1]]; [assumption|assumption|].
    destruct (IH p1 (seqs ++ [l]) O1) as [p2 [E2 O2]]; [assumption|assumption|].
    exists p2. cbn [p_add_all]. rewrite E1. cbn [obind]. split; [exact E2|]. now rewrite <- app_assoc in O2.
Qed.

Lemma sub_concat {A} (ls : list (list A)) i : (i < length ls)%nat ->
  sub (length (concat (firstn i ls))) (length (nth i ls [])) (concat ls) = nth i ls [].
Proof.
  revert i. induction ls as [|l ls IH]; intros i Hi; [inversion Hi|].
  destruct i as [|i].
  - cbn [firstn concat length nth]. unfold sub. cbn [skipn]. apply firstn_app_exact. reflexivity.
  - cbn [firstn concat nth]. rewrite app_length. unfold sub.
    rewrite <- skipn_skipn. rewrite skipn_app_exact by reflexivity. apply IH. cbn [length] in Hi. lia.
Qed.

(* every added sequence is returned unchanged at its index: the slice denotes it, and reading it (C15) gives it *)
Theorem p_get_spec p seqs i : p_ok p seqs -> (i < length seqs)%nat ->
  exists sl, p_get p i = Some sl /\ sl_ok (d_len (p_seq p)) sl /\ s_rc sl = false /\
             sl_view (d_abs (p_seq p)) sl = nth i seqs [] /\ sl_bytes (p_seq p) sl = Some (nth i seqs []).
Proof.
  intros [I [A [Ls [Ll Hi]]]] Hlt. destruct (Hi i Hlt) as [H1 H2].
  unfold p_get.
  rewrite (nth_error_nth' (p_start p) 0%nat) by lia. rewrite (nth_error_nth' (p_length p) 0%nat) by lia.
  cbn [obind]. eexists. split; [reflexivity|].
  assert (Hview : sl_view (d_abs (p_seq p)) {| s_start := nth i (p_start p) 0%nat; s_length := nth i (p_length p) 0%nat; s_rc := false |}
                  = nth i seqs []).
  { unfold sl_view. cbn [s_start s_length s_rc]. rewrite A, H1, H2. apply sub_concat. exact Hlt. }
  assert (Hok : sl_ok (d_len (p_seq p)) {| s_start := nth i (p_start p) 0%nat; s_length := nth i (p_length p) 0%nat; s_rc := false |}).
  { unfold sl_ok. cbn [s_start s_length]. rewrite H1, H2. rewrite <- (d_abs_length (p_seq p) I), A.
    rewrite <- (firstn_skipn i seqs) at 3. rewrite concat_app, app_length.
    assert (Hsk : skipn i seqs = nth i seqs [] :: skipn (S i) seqs) by (apply skipn_S_nth; exact Hlt).
    rewrite Hsk. cbn [concat]. rewrite app_length. lia. }
  split; [exact Hok|]. split; [reflexivity|]. split; [exact Hview|].
  rewrite (sl_bytes_spec (p_seq p) I _ Hok). now rewrite Hview.
Qed.

Corollary packed_set_get seqs : Forall wf_dna seqs -> Forall (fun l => N.of_nat (length l) < 2 ^ 32) seqs ->
  exists p, p_add_all p_new seqs = Some p /\ p_len p = length seqs /\
    forall i, (i < length seqs)%nat ->
      exists sl, p_get p i = Some sl /\ sl_bytes (p_seq p) sl = Some (nth i seqs []).
Proof.
  intros W L. destruct (p_add_all_ok seqs p_new [] p_ok_new W L) as [p [E O]]. cbn [app] in O.
  exists p. split; [exact E|]. split; [destruct O as [_ [_ [Ls _]]]; exact Ls|].
  intros i Hi. destruct (p_get_spec p seqs i O Hi) as [sl [G [_ [_ [_ B]]]]]. exists sl. auto.
Qed.
