(* C03 edges_are_observed at model level, for the direct pipeline, in the terms of Spec/EdgeSpec.v: the (K+1)-mers
   inside node sequences together with one (K+1)-mer per edge REPORTED BY find_edges ([edge_mer], read on the strand of
   the source node) are, as a set of canonical (K+1)-mers, exactly the (K+1)-windows of the reads whose two k-mers are
   retained.  Graph-level part: in a graph of well-formed nodes whose end extensions all resolve ([exts_resolvable]) the
   adjacencies denoted through find_edges coincide with those denoted by the extension bytes ([graph_links]). *)
From Coq Require Import NArith List Bool Arith Lia Permutation.
From DBG Require Import Spec.Dna Spec.GraphIndex Spec.Unitig Spec.CompressSpec Packed.ExtsModel Algo.Compress
  Algo.KmerHist Algo.GraphModel Algo.Pipeline Spec.EdgeSpec Check.GraphCheck Check.EdgeCheck Check.PipelineCheck
  Proofs.ListFacts Proofs.DnaFacts Proofs.KmerAlgebra Proofs.ExtsProofs Proofs.FilterProofs Proofs.GraphQueryProofs
  Proofs.CompressGraphOk Proofs.UnitigUnique Proofs.PipelineCheckProofs
  Proofs.E2eDefs Proofs.E2eSym Proofs.E2eGraph Proofs.E2eTable Proofs.E2eDirect Proofs.E2eCorollaries Proofs.CompressValid.
Import ListNotations.
Local Open Scope nat_scope.

(* the edge lists the model reports: (left edges, right edges) per node *)
Definition model_el (K : nat) (st : bool) (g : list node_t) : edge_lists :=
  map (fun u => (edges_of pay K st g u DLeft, edges_of pay K st g u DRight)) (seq 0 (length g)).

Lemma in_E_list (el : edge_lists) u s ls : In (u, s, ls) (E_list el) <-> u < length el /\ ls = E_of el u s.
Proof.
  unfold E_list, E_of. rewrite in_flat_map. split.
  - intros [[i p] [Hin H]]. cbn [fst snd] in H.
    assert (Hi : i < length el /\ nth_error el i = Some p).
    { apply (In_nth _ _ (0, ([], []))) in Hin as [j [Hj Ej]]. rewrite combine_length, seq_length, Nat.min_id in Hj.
      rewrite combine_nth in Ej by (now rewrite seq_length). injection Ej as Ei Ep. rewrite seq_nth in Ei by exact Hj. cbn in Ei. subst i.
      split; [exact Hj|]. rewrite <- Ep. now apply nth_error_nth'. }
    destruct Hi as [Hi Ep]. destruct H as [H|[H|[]]]; injection H as <- <- <-; rewrite Ep; auto.
  - intros [Hu ->]. destruct (nth_error el u) as [p|] eqn:Ep; [|apply nth_error_None in Ep; lia].
    exists (u, p). split.
    + apply (nth_error_In _ u).
      assert (G : forall (l : list (list link * list link)) a k, nth_error l k = Some p -> nth_error (combine (seq a (length l)) l) k = Some (a + k, p)).
      { induction l as [|x l IH]; intros a k Hk; [now destruct k|]. destruct k as [|k]; cbn in *.
        - injection Hk as ->. now rewrite Nat.add_0_r.
        - rewrite (IH (S a) k Hk). f_equal. f_equal. lia. }
      exact (G el 0 u Ep).
    + cbn [fst snd]. destruct s; cbn; auto.
Qed.
Lemma E_of_model K st g u s : u < length g -> E_of (model_el K st g) u s = edges_of pay K st g u s.
Proof.
  intro H. unfold E_of, model_el. rewrite nth_error_map. rewrite (nth_error_nth' _ 0) by (now rewrite seq_length).
  rewrite seq_nth by exact H. cbn. now destruct s.
Qed.

Section Adj.
Variable K : nat.
Variable st : bool.
Variable g : list node_t.
Hypothesis Hwf : wf_graph pay K g.
Local Notation seqs := (g_seqs pay g).
Local Notation nsq := (EdgeSpec.node_seq pay g).

Lemma HK_ : 1 <= K. Proof. exact (proj1 Hwf). Qed.
Lemma nsq_nth v (n : node_t) : nth_error g v = Some n -> nsq v = nd_seq n /\ EdgeSpec.node_exts pay g v = nd_exts n.
Proof.
  intro E. unfold EdgeSpec.node_seq, EdgeSpec.node_exts. unfold graph, gnode, node_t in *.
  rewrite E. split; reflexivity.
Qed.
Lemma nsq_none v : nth_error g v = None -> nsq v = [].
Proof. intro E. unfold EdgeSpec.node_seq. unfold graph, gnode, node_t in *. now rewrite E. Qed.
Lemma nth_node v : v < length g -> exists n : node_t, nth_error g v = Some n /\ In n g.
Proof.
  intro H. destruct (nth_error g v) as [n|] eqn:E; [|apply nth_error_None in E; lia]. exists n. split; [reflexivity|].
  eapply nth_error_In; eauto.
Qed.
Lemma nsq_ok v : v < length g -> K <= length (nsq v) /\ wf_dna (nsq v).
Proof.
  intro H. destruct (nth_node v H) as (n & E & Hn). rewrite (proj1 (nsq_nth v n E)). exact (proj2 Hwf n Hn).
Qed.
Lemma nth_seqs v : nth v seqs [] = nsq v.
Proof.
  destruct (nth_error g v) as [n|] eqn:E.
  - rewrite (proj1 (nsq_nth v n E)). apply nth_error_nth. unfold g_seqs. rewrite nth_error_map.
    unfold graph, gnode, node_t in *. now rewrite E.
  - rewrite (nsq_none v E). apply nth_overflow. unfold g_seqs. rewrite map_length. now apply nth_error_None.
Qed.

(* an edge found for the extension (s, b) of node u spells, on the strand of u, the (K+1)-mer of u's end k-mer and b *)
Lemma edge_mer_lk u s b l : u < length g -> (b < 4)%N ->
  find_link pay K st g (extend (term_kmer K (nsq u) s) b s) s = Some l ->
  edge_mer K seqs u s l = lk (term_kmer K (nsq u) s) s b.
Proof.
  intros Hu Hb Hl. destruct l as [[v t] f]. pose proof HK_ as HK.
  destruct (nsq_ok u Hu) as [Lu Wu]. destruct (term_kmer_ok K _ s Wu Lu) as [Lx Wx].
  set (x := term_kmer K (nsq u) s) in *. set (y := extend x b s) in *.
  assert (Nx : x <> []) by (intro E; rewrite E in Lx; cbn in Lx; lia).
  assert (Wy : wf_dna y) by (apply extend_wf; auto).
  assert (Ny : y <> []) by (intro E; assert (L : length y = length x) by (apply KmerAlgebra.extend_length; auto); rewrite E in L; cbn in L; lia).
  apply find_link_some in Hl.
  assert (Hfirst : first_kmer K (oseq_l seqs v t) = match s with DRight => y | DLeft => rc y end).
  { destruct Hl as [(-> & -> & Hv & Ev)|(-> & Hst & -> & (Hv & Ev) & _)]; destruct (nsq_ok v Hv) as [Lv Wv]; unfold oseq_l; rewrite nth_seqs.
    - destruct s; cbn [dflip] in *.
      + change (first_kmer K (rc (nsq v))) with (term_kmer K (rc (nsq v)) DLeft). rewrite term_kmer_rc by exact Lv. cbn [dflip]. now rewrite Ev.
      + exact Ev.
    - destruct s.
      + exact Ev.
      + change (first_kmer K (rc (nsq v))) with (term_kmer K (rc (nsq v)) DLeft). rewrite term_kmer_rc by exact Lv. cbn [dflip].
        rewrite Ev. now apply ListFacts.rc_involutive. }
  unfold edge_mer. cbn [fst snd]. rewrite Hfirst. unfold oseq_l. rewrite nth_seqs. unfold adj_mer.
  destruct s; cbn [dflip lk].
  - change (last_kmer K (rc (nsq u))) with (term_kmer K (rc (nsq u)) DRight). rewrite term_kmer_rc by exact Lu. cbn [dflip]. fold x.
    assert (El : last (rc y) 0%N = comp b).
    { change (last (rc y) 0%N) with (outer (rc y) DRight). rewrite outer_rc by exact Ny. cbn [dflip outer]. unfold y. cbn [extend]. reflexivity. }
    rewrite El, <- rc_cons. apply ListFacts.rc_involutive. constructor; auto.
  - change (last_kmer K (nsq u)) with (term_kmer K (nsq u) DRight). fold x.
    unfold y. cbn [extend]. unfold extend_right. now rewrite last_last.
Qed.

Lemma in_edges_of u s l : u < length g ->
  (In l (edges_of pay K st g u s) <->
   exists b, In b bases4 /\ e_has_ext (EdgeSpec.node_exts pay g u) (dirb s) b = true /\
             find_link pay K st g (extend (term_kmer K (nsq u) s) b s) s = Some l).
Proof.
  intro Hu. destruct (nth_node u Hu) as (n & E & Hn). destruct (nsq_nth u n E) as [E1 E2]. rewrite E1, E2.
  unfold EdgeSpec.edges_of, find_edges. unfold graph, gnode, node_t in *. rewrite E.
  rewrite in_flat_map. unfold bases4. split.
  - intros [b [Hb H]]. exists b. split; [exact Hb|]. change (GraphModel.n_exts pay n) with (nd_exts n) in H. change (GraphModel.n_seq pay n) with (nd_seq n) in H.
    destruct (e_has_ext (nd_exts n) (dirb s) b); [|destruct H].
    split; [reflexivity|]. destruct (find_link pay K st g _ s) as [x|]; [|destruct H]. destruct H as [->|[]]. reflexivity.
  - intros [b [Hb [Hh Hl]]]. exists b. split; [exact Hb|]. change (GraphModel.n_exts pay n) with (nd_exts n). change (GraphModel.n_seq pay n) with (nd_seq n).
    rewrite Hh, Hl. now left.
Qed.

Hypothesis Hres : exts_resolvable pay K st g.

Theorem adjs_links w : In w (graph_adjs K st seqs (E_list (model_el K st g))) <-> In w (graph_links K st g).
Proof.
  unfold graph_adjs. rewrite in_map_iff. split.
  - intros [v [<- Hv]]. change (canon_s st v) with (cn st v). apply in_app_or in Hv as [Hv|Hv].
    + apply in_flat_map in Hv as [sq [Hs Hv]]. unfold g_seqs in Hs. apply in_map_iff in Hs as [n [<- Hn]].
      unfold graph_links. apply in_flat_map. exists n. split; [exact Hn|]. unfold node_links. apply in_or_app. left. now apply in_map.
    + apply in_flat_map in Hv as [[[u s] ls] [He Hv]]. cbn [fst snd] in Hv. apply in_E_list in He as [Hu ->].
      unfold model_el in Hu. rewrite map_length, seq_length in Hu. rewrite (E_of_model K st g u s Hu) in Hv.
      apply in_map_iff in Hv as [l [<- Hl]]. apply (in_edges_of u s l Hu) in Hl as [b [Hb [Hh Hf]]].
      rewrite (edge_mer_lk u s b l Hu (in_bases4_lt b Hb) Hf).
      destruct (nth_node u Hu) as (n & En & Hn). destruct (nsq_nth u n En) as [E1 E2]. rewrite E1 in *. rewrite E2 in Hh.
      unfold graph_links. apply in_flat_map. exists n. split; [exact Hn|]. unfold node_links.
      apply in_or_app. right. destruct s; cbn [dirb lk term_kmer] in *.
      * apply in_or_app. left. apply in_map_iff. exists b. split; [reflexivity|]. apply e_get_has. auto.
      * apply in_or_app. right. apply in_map_iff. exists b. split; [reflexivity|]. apply e_get_has. auto.
  - intro Hw. unfold graph_links in Hw. apply in_flat_map in Hw as [n [Hn Hw]].
    destruct (In_nth_error _ _ Hn) as [u Eu]. assert (Hu : u < length g) by (apply nth_error_Some; congruence).
    assert (Hend : forall s b, In b bases4 -> e_has_ext (nd_exts n) (dirb s) b = true ->
              exists v, canon_s st v = cn st (lk (term_kmer K (nd_seq n) s) s b) /\
                        In v (flat_map (kmers (S K)) seqs ++
                              flat_map (fun e => map (edge_mer K seqs (fst (fst e)) (snd (fst e))) (snd e)) (E_list (model_el K st g)))).
    { intros s b Hb Hh.
      assert (Hne : find_link pay K st g (extend (term_kmer K (nsq u) s) b s) s <> None).
      { apply Hres; auto. now rewrite (proj2 (nsq_nth u n Eu)). }
      destruct (find_link pay K st g (extend (term_kmer K (nsq u) s) b s) s) as [l|] eqn:Hf; [|congruence].
      exists (edge_mer K seqs u s l). split.
      - rewrite (edge_mer_lk u s b l Hu (in_bases4_lt b Hb) Hf). now rewrite (proj1 (nsq_nth u n Eu)).
      - apply in_or_app. right. apply in_flat_map. exists (u, s, edges_of pay K st g u s). split.
        + apply in_E_list. split; [unfold model_el; now rewrite map_length, seq_length | now rewrite E_of_model].
        + cbn [fst snd]. apply in_map. apply (in_edges_of u s l Hu). exists b. repeat split; auto.
          now rewrite (proj2 (nsq_nth u n Eu)). }
    unfold node_links in Hw. apply in_app_or in Hw as [Hw|Hw]; [|apply in_app_or in Hw as [Hw|Hw]].
    + apply in_map_iff in Hw as [v [<- Hv]]. exists v. split; [reflexivity|]. apply in_or_app. left.
      apply in_flat_map. exists (nd_seq n). split; [unfold g_seqs; now apply in_map | exact Hv].
    + apply in_map_iff in Hw as [b [<- Hb]]. apply e_get_has in Hb as [Hb Hh]. exact (Hend DLeft b Hb Hh).
    + apply in_map_iff in Hw as [b [<- Hb]]. apply e_get_has in Hb as [Hb Hh]. exact (Hend DRight b Hb Hh).
Qed.
End Adj.

(* ---- the direct pipeline ---- *)
Theorem direct_valid_graph K st thr mode (lreads : list lread) order g :
  4 <= K -> Forall (fun r => wf_dna (fst r)) lreads -> NoDup order ->
  direct K st thr mode 0 lreads order = Some g -> valid_graph pay K st g.
Proof.
  intros HK Hwf Hnd Hd. unfold direct in Hd.
  destruct (table_of K st thr (if (1 <? thr)%N then 1%N else 0%N) (whole_reads lreads) order) as [T|] eqn:ET; [|discriminate].
  cbn [N.eqb] in Hd. destruct (direct_table_hyps K st thr lreads order T HK Hwf Hnd ET) as (Hok & Hsym & Hpal & Hcl).
  apply (nodes_valid_graph pay pay_reduce (pay_join mode) K st ltac:(lia) (join_sym mode) T Hok Hsym Hpal Hcl g Hd).
Qed.

Theorem edges_are_observed_direct_full K st thr mode (lreads : list lread) order g :
  4 <= K -> Forall (fun r => wf_dna (fst r)) lreads -> NoDup order ->
  direct K st thr mode 0 lreads order = Some g ->
  edges_are_observed K st (N.to_nat thr) (map fst lreads) (g_seqs pay g) (E_list (model_el K st g)).
Proof.
  intros HK Hwf Hnd Hd w. destruct (direct_valid_graph K st thr mode lreads order g HK Hwf Hnd Hd) as [[Hg _] Hres].
  rewrite (adjs_links K st g Hg Hres w). now apply (edges_are_observed_direct' K st thr mode lreads order g).
Qed.
Print Assumptions direct_valid_graph.
Print Assumptions edges_are_observed_direct_full.
