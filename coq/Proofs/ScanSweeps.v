(* vm_compute facts about the scanner model: non-vacuity examples and the refutation of the unguarded
   length claim (the u16 wrap of finding F7) on a small instance of the same model. *)
From Coq Require Import NArith List Bool Arith.
From DBG Require Import Spec.Dna Spec.ScanSpec Algo.Scan Algo.Msp Check.ScanCheck.
Import ListNotations.
Open Scope nat_scope.

Definition lex_score (x : dna) : N := rank x.
Definition const_score (x : dna) : N := 7%N.

(* ACGTTGCAACCA, k = 5, p = 2, lexicographic score: five intervals *)
Example scan_example_lex :
  scan lex_score [0;1;2;3;3;2;1;0;0;1;1;0]%N 5 2 =
  Some [mkInterval [0;1]%N 0 0 5; mkInterval [1;2]%N 1 1 5; mkInterval [2;1]%N 5 2 5; mkInterval [1;0]%N 6 3 5; mkInterval [0;0]%N 7 4 8].
Proof. vm_compute. reflexivity. Qed.

(* constant score on 12 A's, k = 5, p = 2: ties go to the rightmost p-mer; intervals of maximal length 2k-p *)
Example scan_example_const :
  scan const_score (repeat 0%N 12) 5 2 =
  Some [mkInterval [0;0]%N 3 0 8; mkInterval [0;0]%N 7 4 8].
Proof. vm_compute. reflexivity. Qed.

(* the same model with a 4-bit length field: k = 9, p = 2 (2k-p = 16 = 2^4), 16 A's: ONE interval whose
   reported length is 0.  With the real 16-bit field the same happens at k = 32772, p = 8, 65536 A's
   (2k-p = 65536), finding F7 - replayed on the implementation by the harness. *)
Lemma scan_len_wrap_small :
  scan_w const_score (repeat 0%N 16) 9 2 4 = Some [mkInterval [0;0]%N 7 0 0].
Proof. vm_compute. reflexivity. Qed.

Lemma scan_len_wrap_refuted :
  exists score sq k p ivs, 1 <= p <= k /\ k <= length sq /\
    scan_checked_w score sq k p 4 = Some ivs /\ exists x, In x ivs /\ (iv_len x < N.of_nat k)%N.
Proof.
  exists const_score, (repeat 0%N 16), 9, 2, [mkInterval [0;0]%N 7 0 0].
  split; [split; repeat constructor|]. split; [cbn; repeat constructor|].
  split; [vm_compute; reflexivity|].
  exists (mkInterval [0;0]%N 7 0 0). split; [now left|reflexivity].
Qed.

(* the checker accepts the model's output on the examples (and rejects a shortened interval) *)
Example check_scan_example :
  let sq := [0;1;2;3;3;2;1;0;0;1;1;0]%N in
  let scs := map (fun j => lex_score (sub j 2 sq)) (seq 0 11) in
  check_scan sq 5 2 scs (scan_raw lex_score sq 5 2) = true /\
  check_scan sq 5 2 scs [mkS [0;1]%N 0 0 5; mkS [1;2]%N 1 1 5; mkS [2;1]%N 5 2 5; mkS [1;0]%N 6 3 5; mkS [0;0]%N 7 4 7] = false.
Proof. vm_compute. split; reflexivity. Qed.
