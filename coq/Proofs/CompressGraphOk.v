(* C03 <- C01: every graph produced by compress_kmers satisfies [graph_ok] (EdgeSpec), the hypothesis of
   edges_symmetric / max_path_valid.  From C01's refinement (node structure), partition, spelling and terminal
   extensions, under C01's hypotheses [tbl_ok], [exts_sym] and the one thing C01's [exts_sym] leaves open - the
   return extension of a PALINDROMIC target ([exts_sym_pal]: it is recorded on one of the two sides). *)
From Coq Require Import NArith List Bool Arith Lia Permutation.
From DBG Require Import Proofs.AbstractWalk.
From DBG Require Import Spec.Dna Spec.GraphIndex Spec.Unitig Spec.CompressSpec Packed.ExtsModel Algo.Compress
  Algo.GraphModel Spec.EdgeSpec Proofs.ListFacts Proofs.DnaFacts Proofs.KmerAlgebra Proofs.ExtsProofs Proofs.ExtsWalk
  Proofs.CompressBasics Proofs.CompressRefine Proofs.CompressWalk Proofs.CompressProofs Proofs.GraphQueryProofs
  Proofs.ValidGraphProofs Proofs.DeriveExts Proofs.CompressEntry Proofs.ComposeSweeps.
Import ListNotations.
Local Open Scope nat_scope.

Section PalHyp.
Variable D : Type.
Variable stranded : bool.
(* the return extension at a palindromic target y of an extension (d, b) of key x: y records the base x loses on the
   facing side, or - reading y on its other strand, which is the same k-mer - its complement on the other side *)
Definition exts_sym_pal (T : table D) : Prop :=
  forall ent d b yent, In ent T -> (b < 4)%N -> e_has_ext (e_exts D ent) (dirb d) b = true ->
    let yf := kcanon_flip stranded (extend (e_key D ent) b d) in
    get_entry D T (fst yf) = Some yent -> kpal stranded (fst yf) = true ->
    let c := outer (e_key D ent) (dflip d) in
    e_has_ext (e_exts D yent) (dirb (dflip d)) c = true \/ e_has_ext (e_exts D yent) (dirb d) (comp c) = true.
Definition exts_sym_palb (T : table D) : bool :=
  forallb (fun ent => forallb (fun d => forallb (fun b =>
    negb (e_has_ext (e_exts D ent) (dirb d) b) ||
    let yf := kcanon_flip stranded (extend (e_key D ent) b d) in
    match get_entry D T (fst yf) with
    | Some yent =>
        negb (kpal stranded (fst yf)) ||
        let c := outer (e_key D ent) (dflip d) in
        e_has_ext (e_exts D yent) (dirb (dflip d)) c || e_has_ext (e_exts D yent) (dirb d) (comp c)
    | None => true end) [0; 1; 2; 3]%N) [DLeft; DRight]) T.
Lemma exts_sym_palb_sound T : exts_sym_palb T = true -> exts_sym_pal T.
Proof.
  unfold exts_sym_palb. intros H ent d b yent Hin Hb He yf Hg Hp c.
  rewrite forallb_forall in H. specialize (H ent Hin). rewrite forallb_forall in H.
  specialize (H d ltac:(destruct d; cbn; auto)). rewrite forallb_forall in H.
  specialize (H b (in_bases4 b Hb)). rewrite He in H. cbn [negb orb] in H. fold yf in H. rewrite Hg, Hp in H.
  cbn [negb orb] in H. fold c in H. apply orb_prop in H. exact H.
Qed.
End PalHyp.

Lemma wf_kmers_ K (s : dna) k : wf_dna s -> In k (kmers K s) -> wf_dna k.
Proof.
  intros W H. unfold kmers in H. apply in_map_iff in H as [i [<- _]]. unfold kmer_at, sub.
  apply Forall_forall. intros x Hx. apply in_firstn, in_skipn in Hx. unfold wf_dna in W. rewrite Forall_forall in W. auto.
Qed.
Lemma is_pal_rc (k : dna) : wf_dna k -> is_palindrome (rc k) = is_palindrome k.
Proof.
  intro W. destruct (is_palindrome k) eqn:E.
  - apply palindrome_iff in E. rewrite <- E. now apply palindrome_iff.
  - destruct (is_palindrome (rc k)) eqn:E2; [|reflexivity]. apply palindrome_iff in E2.
    rewrite ListFacts.rc_involutive in E2 by exact W. symmetry in E2. apply palindrome_iff in E2. congruence.
Qed.
Lemma term_in_kmers K (s : dna) d : 1 <= K -> K <= length s -> In (term_kmer K s d) (kmers K s).
Proof.
  intros HK L. unfold kmers. apply in_map_iff. destruct d; cbn [term_kmer]; unfold first_kmer, last_kmer.
  - exists 0. split; [reflexivity | apply in_seq; lia].
  - exists (length s - K). split; [reflexivity | apply in_seq; lia].
Qed.

Section GOK.
Variable D : Type.
Variable reduce : D -> D -> D.
Variable join : D -> D -> bool.
Variable K : nat.
Variable stranded : bool.
Hypothesis HK : 1 <= K.
Variable T : table D.
Hypothesis Hok : tbl_ok D K stranded T.
Hypothesis Hsym : CompressSpec.exts_sym D stranded T.
Hypothesis Hpal : exts_sym_pal D stranded T.
Local Notation kkey := (kkey D T).
Local Notation anext := (anext D join stranded T).
Local Notation ck := (canon_k stranded).
Local Notation cstruct := (compress_struct D join stranded T).
Local Notation U := (seq 0 (length T)).
Local Notation oexts := (oexts D stranded T).
Local Notation kpal := (kpal stranded).

(* ---- oexts: the extensions of a k-mer occurrence in its own frame --------------------------------------- *)
Lemma ck_cases w : ck w = w \/ (stranded = false /\ ck w = rc w).
Proof. unfold canon_k. destruct stranded; auto. destruct (canon_choice w); auto. Qed.
Lemma ck_rc w : wf_dna w -> stranded = false -> ck (rc w) = ck w.
Proof. intros W ->. unfold canon_k. now apply canon_rc. Qed.

Lemma oexts_inv w e : oexts w = Some e ->
  exists ent, In ent T /\ get_entry D T (ck w) = Some ent /\ e_key D ent = ck w /\
    ((w = e_key D ent /\ e = e_exts D ent) \/
     (w <> e_key D ent /\ stranded = false /\ e_key D ent = rc w /\ e = e_rc (e_exts D ent))).
Proof.
  unfold Unitig.oexts. destruct (get_entry D T (ck w)) as [ent|] eqn:E; [|discriminate].
  destruct (get_entry_Some D T _ _ E) as [Hin Hk]. intro H. injection H as <-. exists ent. repeat split; auto.
  destruct (dna_eqb w (e_key D ent)) eqn:Eq.
  - apply dna_eqb_eq in Eq. left. auto.
  - right. assert (Hne : w <> e_key D ent) by (intro Hx; apply dna_eqb_eq in Hx; congruence).
    destruct (ck_cases w) as [Hc|[Hs Hc]]; [congruence|]. repeat split; auto. congruence.
Qed.
Lemma oexts_key ent : In ent T -> oexts (e_key D ent) = Some (e_exts D ent).
Proof.
  intro Hin. destruct (In_nth_error _ _ Hin) as [i Hi]. unfold Unitig.oexts.
  assert (Hc : ck (e_key D ent) = e_key D ent).
  { unfold canon_k. destruct stranded eqn:S; [reflexivity|]. now apply (ok_canon _ _ _ _ Hok). }
  rewrite Hc, (get_entry_key D K stranded T Hok _ _ Hi). now rewrite (proj2 (dna_eqb_eq _ _) eq_refl).
Qed.
Lemma oexts_rckey ent : In ent T -> stranded = false -> e_key D ent <> rc (e_key D ent) ->
  oexts (rc (e_key D ent)) = Some (e_rc (e_exts D ent)).
Proof.
  intros Hin Hs Hne. destruct (In_nth_error _ _ Hin) as [i Hi]. unfold Unitig.oexts.
  assert (Hc : ck (rc (e_key D ent)) = e_key D ent).
  { rewrite ck_rc by (auto; now apply (ok_wf _ _ _ _ Hok)). unfold canon_k. rewrite Hs. now apply (ok_canon _ _ _ _ Hok). }
  rewrite Hc, (get_entry_key D K stranded T Hok _ _ Hi).
  destruct (dna_eqb (rc (e_key D ent)) (e_key D ent)) eqn:E; [|reflexivity].
  apply dna_eqb_eq in E. congruence.
Qed.
Lemma oexts_lt w e : oexts w = Some e -> (e < 256)%N.
Proof.
  intro H. destruct (oexts_inv w e H) as (ent & Hin & _ & _ & [[_ ->]|(_ & _ & _ & ->)]).
  - now apply (ok_exts _ _ _ _ Hok).
  - apply rc_lt256. now apply (ok_exts _ _ _ _ Hok).
Qed.
(* reading a non-palindromic occurrence on the other strand reverse-complements its extensions *)
Lemma oexts_rc w e : wf_dna w -> stranded = false -> w <> rc w -> oexts w = Some e -> oexts (rc w) = Some (e_rc e).
Proof.
  intros W Hs Hne H. destruct (oexts_inv w e H) as (ent & Hin & _ & _ & [[-> ->]|(_ & _ & Hk & ->)]).
  - now apply oexts_rckey.
  - rewrite <- Hk. rewrite oexts_key by exact Hin. f_equal. symmetry. apply ExtsProofs.rc_involutive.
    now apply (ok_exts _ _ _ _ Hok).
Qed.
Lemma kpal_iff w : kpal w = true <-> stranded = false /\ w = rc w.
Proof.
  unfold CompressSpec.kpal. rewrite andb_true_iff, negb_true_iff, palindrome_iff. tauto.
Qed.
Lemma kpal_ck w : wf_dna w -> kpal (ck w) = kpal w.
Proof.
  intro W. destruct (ck_cases w) as [->|[Hs ->]]; [reflexivity|]. unfold CompressSpec.kpal. rewrite Hs. cbn [negb andb].
  destruct (is_palindrome w) eqn:E.
  - apply palindrome_iff in E. rewrite <- E. now apply palindrome_iff.
  - destruct (is_palindrome (rc w)) eqn:E2; [|reflexivity]. apply palindrome_iff in E2.
    rewrite ListFacts.rc_involutive in E2 by exact W. symmetry in E2. apply palindrome_iff in E2. congruence.
Qed.

Lemma has_ext_rc' e s b : (e < 256)%N -> (b < 4)%N ->
  e_has_ext (e_rc e) (dirb s) b = e_has_ext e (dirb (dflip s)) (comp b).
Proof.
  intros He Hb. rewrite <- (has_ext_rc e (dirb (dflip s)) (comp b) He (comp_lt4 b)).
  rewrite dirb_dflip, negb_involutive, comp_involutive by exact Hb. reflexivity.
Qed.

(* ---- the return extension, in the frames of the two occurrences --------------------------------------------- *)
(* key frame: x is the key of its entry *)
Lemma osym_key ent s b ey : In ent T -> (b < 4)%N -> e_has_ext (e_exts D ent) (dirb s) b = true ->
  let x := e_key D ent in let y := extend x b s in let c := outer x (dflip s) in
  oexts y = Some ey ->
  (kpal y = false -> e_has_ext ey (dirb (dflip s)) c = true) /\
  (kpal y = true -> e_has_ext ey (dirb (dflip s)) c = true \/ e_has_ext ey (dirb s) (comp c) = true).
Proof.
  intros Hin Hb He x y c Hy.
  assert (Wx : wf_dna x) by now apply (ok_wf _ _ _ _ Hok).
  assert (Wy : wf_dna y) by (apply extend_wf; auto).
  assert (Hc : (c < 4)%N) by (apply (outer_lt4 D K stranded HK T Hok); auto).
  destruct (oexts_inv y ey Hy) as (yent & Hyin & Hg & Hyk & Hcase).
  destruct (kcanon_flip stranded y) as [yk fl] eqn:Ef.
  assert (Hfst : fst (kcanon_flip stranded y) = ck y).
  { unfold kcanon_flip, canon_k, canon_flip, canon. destruct stranded; [reflexivity|]. now destruct (dna_ltb y (rc y)). }
  rewrite Ef in Hfst. cbn [fst] in Hfst. subst yk.
  pose proof (Hsym ent s b yent Hin Hb He) as S1. cbv zeta in S1. fold x y in S1. rewrite Ef in S1. cbn [fst snd] in S1.
  specialize (S1 Hg). rewrite kpal_ck in S1 by exact Wy.
  pose proof (Hpal ent s b yent Hin Hb He) as S2. cbv zeta in S2. fold x y c in S2. rewrite Ef in S2. cbn [fst snd] in S2.
  specialize (S2 Hg). rewrite kpal_ck in S2 by exact Wy.
  assert (Hey : (e_exts D yent < 256)%N) by now apply (ok_exts _ _ _ _ Hok).
  split.
  - intro Hnp. destruct S1 as [S1|S1]; [congruence|]. fold c in S1.
    destruct (kcanon_flip_cases _ _ _ _ Ef) as [[-> Hck]|(Hs & -> & Hck)]; cbn [cond_flip] in S1.
    + destruct Hcase as [[_ ->]|(Hne & _)]; [exact S1 | congruence].
    + destruct Hcase as [[Hyy _]|(_ & _ & _ & ->)].
      * exfalso. assert (y = rc y) by congruence. assert (kpal y = true) by (apply kpal_iff; auto). congruence.
      * rewrite has_ext_rc' by auto. rewrite !dflip_dflip in *. exact S1.
  - intro Hp. specialize (S2 Hp). apply kpal_iff in Hp as [Hs Hyy].
    destruct Hcase as [[_ ->]|(Hne & _ & Hk & _)]; [exact S2|]. congruence.
Qed.

(* any frame *)
Lemma osym_frame x s b ex ey : wf_dna x -> length x = K -> (b < 4)%N ->
  oexts x = Some ex -> e_has_ext ex (dirb s) b = true ->
  let y := extend x b s in let c := outer x (dflip s) in
  oexts y = Some ey ->
  (kpal y = false -> e_has_ext ey (dirb (dflip s)) c = true) /\
  (kpal y = true -> e_has_ext ey (dirb (dflip s)) c = true \/ e_has_ext ey (dirb s) (comp c) = true).
Proof.
  intros Wx Lx Hb Hx He y c Hy.
  assert (Hxne : x <> []) by (intro E; subst x; cbn in Lx; lia).
  assert (Wy : wf_dna y) by (apply extend_wf; auto).
  destruct (oexts_inv x ex Hx) as (ent & Hin & _ & _ & [[E1 E2]|(Hne & Hs & Hk & E2)]).
  - subst ex. subst x. now apply (osym_key ent s b ey Hin Hb He).
  - subst ex. assert (Hex : (e_exts D ent < 256)%N) by now apply (ok_exts _ _ _ _ Hok).
    rewrite has_ext_rc' in He by auto.
    assert (Hyr : rc y = extend (e_key D ent) (comp b) (dflip s)) by (unfold y; rewrite rc_extend by auto; now rewrite Hk).
    assert (Hc : outer (e_key D ent) (dflip (dflip s)) = comp c).
    { rewrite Hk, dflip_dflip, outer_rc by auto. reflexivity. }
    assert (Hc4 : (c < 4)%N).
    { unfold c. destruct (dflip s); cbn [outer]; [apply wf_hd | apply wf_last]; auto. }
    assert (Hpr : kpal (rc y) = kpal y).
    { rewrite <- (kpal_ck (rc y)) by apply rc_wf. rewrite ck_rc by auto. now apply kpal_ck. }
    destruct (kpal y) eqn:Hp.
    + pose proof (proj1 (kpal_iff y) Hp) as [_ Hyy].
      assert (Hy' : oexts (extend (e_key D ent) (comp b) (dflip s)) = Some ey) by (rewrite <- Hyr, <- Hyy; exact Hy).
      destruct (osym_key ent (dflip s) (comp b) ey Hin (comp_lt4 b) He Hy') as [_ P].
      rewrite <- Hyr in P. specialize (P Hpr). rewrite Hc, !dflip_dflip, comp_involutive in P by exact Hc4.
      split; [discriminate|]. intros _. tauto.
    + assert (Hyne : y <> rc y) by (intro E; assert (kpal y = true) by (apply kpal_iff; auto); congruence).
      pose proof (oexts_rc y ey Wy Hs Hyne Hy) as Hy'. rewrite Hyr in Hy'.
      destruct (osym_key ent (dflip s) (comp b) (e_rc ey) Hin (comp_lt4 b) He Hy') as [P _].
      rewrite <- Hyr in P. specialize (P Hpr). rewrite Hc, !dflip_dflip in P.
      rewrite has_ext_rc' in P by (eauto using oexts_lt, comp_lt4). rewrite comp_involutive in P by exact Hc4.
      split; [intros _; exact P | discriminate].
Qed.

(* ---- node structure --------------------------------------------------------------------------------------------- *)
Lemma kkey_wf i : wf_dna (kkey i).
Proof.
  unfold CompressRefine.kkey. destruct (nth_error T i) as [e|] eqn:E; [|constructor].
  apply (ok_wf _ _ _ _ Hok). eapply nth_error_In; eauto.
Qed.
Lemma orient_wf D0 d x : wf_dna x -> wf_dna (orient D0 d x).
Proof. intro W. unfold orient. destruct (dir_eqb d D0); [exact W | apply rc_wf]. Qed.
Lemma hd_lt4 (w : dna) : wf_dna w -> (hd 0%N w < 4)%N.
Proof. destruct w; cbn; [lia|]. intro H. now inversion H. Qed.
Lemma last_lt4 (w : dna) : wf_dna w -> (last w 0%N < 4)%N.
Proof. intro H. destruct w as [|a w]; [cbn; lia|]. apply wf_last; [exact H | discriminate]. Qed.

Lemma node_seq_wf lp i rp : wf_dna (node_seq D T lp i rp).
Proof.
  unfold CompressRefine.node_seq. apply wf_app; [|apply wf_app; [apply kkey_wf|]].
  - apply Forall_rev. apply Forall_forall. intros x Hx. apply in_map_iff in Hx as [wt [<- _]].
    apply hd_lt4. unfold CompressRefine.owin. apply orient_wf, kkey_wf.
  - apply Forall_forall. intros x Hx. apply in_map_iff in Hx as [wt [<- _]].
    apply last_lt4. unfold CompressRefine.owin. apply orient_wf, kkey_wf.
Qed.

Lemma chain_nonpal i s p : AbstractWalk.chain nat anext i s p ->
  (p <> [] -> kpal (kkey i) = false) /\ forall wt, In wt p -> kpal (kkey (fst wt)) = false.
Proof.
  induction 1 as [v s | v s w t p Hn Hc IH].
  - split; [congruence | intros wt []].
  - apply (anext_knext D join stranded T) in Hn.
    destruct (knext_inv D join K stranded T Hok _ _ _ _ Hn) as (ent & yent & b & fl & Hi & Hj & Hpx & _ & _ & _ & _ & _ & _ & _ & _ & Hpy).
    split.
    + intros _. unfold CompressRefine.kkey. now rewrite Hi.
    + intros wt [<-|Hin]; [cbn [fst]; unfold CompressRefine.kkey; now rewrite Hj | now apply (proj2 IH)].
Qed.

Lemma verts_nonpal lp i rp v : AbstractWalk.chain nat anext i L lp -> AbstractWalk.chain nat anext i R rp ->
  lp <> [] \/ rp <> [] -> In v (node_verts nat lp i rp) -> kpal (kkey v) = false.
Proof.
  intros HcL HcR Hne Hv. destruct (chain_nonpal _ _ _ HcL) as [P1 P2]. destruct (chain_nonpal _ _ _ HcR) as [P3 P4].
  apply in_node in Hv. destruct Hv as [Hv|[->|Hv]].
  - unfold verts in Hv. apply in_map_iff in Hv as [wt [<- Hwt]]. now apply P2.
  - destruct Hne; auto.
  - unfold verts in Hv. apply in_map_iff in Hv as [wt [<- Hwt]]. now apply P4.
Qed.

(* ---- facts about the output nodes, as far as graph_ok needs them ------------------------------------------------ *)
Variable nodes : list (node D).
Hypothesis Hc : compress_kmers D reduce join stranded T = Some nodes.

Lemma nodes_rel : Forall2 (node_rel D reduce T) nodes (cstruct U U).
Proof.
  destruct (compress_refines D reduce join K stranded HK T Hok Hsym) as [nodes' [Hc' Hrel]].
  assert (nodes' = nodes) by congruence. now subst.
Qed.

Record node_fact (n : node D) : Prop := {
  nf_len : K <= length (CompressSpec.n_seq D n);
  nf_wf : wf_dna (CompressSpec.n_seq D n);
  nf_key : forall w, In w (kmers K (CompressSpec.n_seq D n)) -> In (ck w) (keys D T);
  nf_pal : forall w, In w (kmers K (CompressSpec.n_seq D n)) -> kpal w = true -> length (CompressSpec.n_seq D n) = K;
  nf_term : exists el er,
    oexts (first_kmer K (CompressSpec.n_seq D n)) = Some el /\ oexts (last_kmer K (CompressSpec.n_seq D n)) = Some er /\
    CompressSpec.n_exts D n = e_from_single_dirs (e_single_dir el false) (e_single_dir er true) }.

Lemma in_keys_kkey k : In k (keys D T) -> exists i, i < length T /\ kkey i = k.
Proof.
  unfold Unitig.keys. intro H. apply in_map_iff in H as [e [<- He]]. destruct (In_nth_error _ _ He) as [i Hi].
  exists i. split; [apply nth_error_Some; congruence|]. unfold CompressRefine.kkey. now rewrite Hi.
Qed.

Lemma nodes_facts n : In n nodes -> node_fact n.
Proof.
  intro Hn. destruct (Forall2_in_l _ _ _ nodes_rel n Hn) as [[[lp i] rp] [Hin Hr]].
  destruct (node_facts D reduce join K stranded HK T Hok Hsym n lp i rp Hr Hin) as (F1 & F2 & F3 & _ & _).
  destruct (struct_chains D join stranded T U U (seq_NoDup _ _) _ _ _ Hin) as (HcL & HcR & Hi).
  pose proof Hr as [ent [Hent Heq]].
  constructor.
  - rewrite F3. lia.
  - subst n. unfold CompressSpec.n_seq. cbn [fst]. apply node_seq_wf.
  - intros w Hw. assert (Hk : In (ck w) (node_keys D K stranded n)) by (unfold node_keys, node_windows; now apply in_map).
    rewrite F2 in Hk. apply in_map_iff in Hk as [v [<- Hv]]. rewrite <- (map_kkey_U D K HK T). apply in_map.
    assert (Hvs : AbstractWalk.chain nat anext i L lp /\ AbstractWalk.chain nat anext i R rp) by auto.
    unfold node_verts, verts in Hv. apply in_app_or in Hv as [Hv|[<-|Hv]].
    + apply in_rev, in_map_iff in Hv as [wt [<- Hwt]].
      destruct (chain_valid D join stranded T _ _ _ HcL wt Hwt) as [e He]. apply in_seq. split; [lia|]. cbn.
      apply nth_error_Some. congruence.
    + exact Hi.
    + apply in_map_iff in Hv as [wt [<- Hwt]].
      destruct (chain_valid D join stranded T _ _ _ HcR wt Hwt) as [e He]. apply in_seq. split; [lia|]. cbn.
      apply nth_error_Some. congruence.
  - intros w Hw Hp. rewrite F3.
    destruct lp as [|a lp]; [destruct rp as [|a rp]; [cbn; lia|]|]; exfalso.
    + assert (Hk : In (ck w) (node_keys D K stranded n)) by (unfold node_keys, node_windows; now apply in_map).
      rewrite F2 in Hk. apply in_map_iff in Hk as [v [Hv1 Hv]].
      assert (Ww : wf_dna w) by (apply (wf_kmers_ K (CompressSpec.n_seq D n)); auto; subst n; apply node_seq_wf).
      rewrite <- kpal_ck, <- Hv1 in Hp by exact Ww.
      rewrite (verts_nonpal [] i (a :: rp) v HcL HcR) in Hp; [discriminate | right; discriminate | exact Hv].
    + assert (Hk : In (ck w) (node_keys D K stranded n)) by (unfold node_keys, node_windows; now apply in_map).
      rewrite F2 in Hk. apply in_map_iff in Hk as [v [Hv1 Hv]].
      assert (Ww : wf_dna w) by (apply (wf_kmers_ K (CompressSpec.n_seq D n)); auto; subst n; apply node_seq_wf).
      rewrite <- kpal_ck, <- Hv1 in Hp by exact Ww.
      rewrite (verts_nonpal (a :: lp) i rp v HcL HcR) in Hp; [discriminate | left; discriminate | exact Hv].
  - destruct (node_terminal D join K stranded HK T Hok Hsym lp i rp ent Hent HcL HcR) as (el & er & H1 & H2 & H3).
    subst n. unfold CompressSpec.n_seq, CompressSpec.n_exts. cbn [fst snd]. exists el, er. auto.
Qed.

(* ---- graph_ok ------------------------------------------------------------------------------------------------------ *)
Lemma nodes_wf_graph : wf_graph D K nodes.
Proof. split; [exact HK|]. intros n Hn. destruct (nodes_facts n Hn) as [F1 F2 _ _ _]. split; [exact F1 | exact F2]. Qed.

Lemma nodes_kmers_once : kmers_once D K stranded nodes.
Proof.
  destruct (compress_c01 D reduce join K stranded HK T Hok Hsym) as [nodes' [Hc' [Hp _]]].
  assert (nodes' = nodes) by congruence. subst nodes'. unfold kmers_once, g_seqs. rewrite map_map.
  unfold partition_ok in Hp. eapply Permutation_NoDup; [apply Permutation_sym; exact Hp|]. apply (ok_nodup _ _ _ _ Hok).
Qed.

Lemma nodes_ends_ok : ends_ok D K stranded nodes.
Proof. apply kmers_once_ends_ok; [apply nodes_wf_graph | apply nodes_kmers_once]. Qed.

(* the extensions of node n on side s are those of its terminal k-mer on that side, in the node's frame *)
Lemma node_term_exts n s : In n nodes -> exists e, oexts (term_kmer K (GraphModel.n_seq D n) s) = Some e /\
  forall b, In b bases4 -> e_has_ext (GraphModel.n_exts D n) (dirb s) b = e_has_ext e (dirb s) b.
Proof.
  intro Hn. destruct (nodes_facts n Hn) as [_ _ _ _ (el & er & H1 & H2 & H3)].
  pose proof (oexts_lt _ _ H1) as L1. pose proof (oexts_lt _ _ H2) as L2.
  change (GraphModel.n_exts D n) with (CompressSpec.n_exts D n). rewrite H3.
  destruct s; cbn [term_kmer dirb]; [exists el | exists er]; (split; [assumption|]); intros b Hb;
    now rewrite ComposeSweeps.has_from_singles.
Qed.

Lemma outer_back x s : outer x (dflip s) = back_base x s false.
Proof. destruct s; reflexivity. Qed.

Theorem nodes_exts_sym : EdgeSpec.exts_sym D K stranded nodes.
Proof.
  intros u s b v t f Hu Hb He Hl b'.
  unfold EdgeSpec.node_exts, EdgeSpec.node_seq in *. unfold graph, gnode, node in *.
  destruct (@nth_error (dna * N * D)%type nodes u) as [n|] eqn:En; [|exfalso; apply nth_error_None in En; exact (Nat.lt_irrefl _ (Nat.lt_le_trans _ _ _ Hu En))].
  assert (Hn : In n nodes) by (eapply nth_error_In; eauto).
  destruct (nodes_facts n Hn) as [Fl Fw _ _ _].
  set (x := term_kmer K (GraphModel.n_seq D n) s) in *.
  destruct (term_kmer_ok K _ s Fw Fl) as [Lx Wx]. change (length x = K) in Lx. change (wf_dna x) in Wx.
  assert (Hb4 : (b < 4)%N) by (unfold bases in Hb; cbn in Hb; destruct Hb as [<-|[<-|[<-|[<-|[]]]]]; lia).
  assert (Hbb : In b bases4) by exact Hb.
  destruct (node_term_exts n s Hn) as (ex & Hex & Hexb). change (oexts x = Some ex) in Hex. rewrite (Hexb b Hbb) in He.
  set (y := extend x b s) in *.
  assert (Hxne : x <> []) by (intro E; rewrite E in Lx; cbn in Lx; lia).
  assert (Wy : wf_dna y) by (apply extend_wf; auto).
  set (c := outer x (dflip s)).
  assert (Hc4 : (c < 4)%N) by (unfold c; destruct (dflip s); cbn [outer]; [apply wf_hd | apply wf_last]; auto).
  (* the node found *)
  apply find_link_some in Hl.
  assert (Hv : v < length nodes /\
                 ((f = false /\ t = dflip s /\ term_kmer K (EdgeSpec.node_seq D nodes v) t = y) \/
                  (f = true /\ stranded = false /\ t = s /\ term_kmer K (EdgeSpec.node_seq D nodes v) t = rc y))).
  { destruct Hl as [(Hf & Ht & Hv & Hz)|(Hf & Hs & Ht & (Hv & Hz) & _)]; (split; [exact Hv|]); [left|right]; auto. }
  destruct Hv as [Hv Hcase]. unfold EdgeSpec.node_seq in Hcase. unfold graph, gnode, node in *.
  destruct (@nth_error (dna * N * D)%type nodes v) as [m|] eqn:Em;
    [|exfalso; apply nth_error_None in Em; exact (Nat.lt_irrefl _ (Nat.lt_le_trans _ _ _ Hv Em))].
  assert (Hm : In m nodes) by (eapply nth_error_In; eauto).
  remember (term_kmer K (GraphModel.n_seq D m) t) as z eqn:Hz.
  destruct (nodes_facts m Hm) as [Flm Fwm _ Fpm _].
  destruct (node_term_exts m t Hm) as (ez & Hez & Hezb). rewrite <- Hz in Hez.
  assert (Hzin : In z (kmers K (GraphModel.n_seq D m))) by (rewrite Hz; now apply term_in_kmers).
  assert (Hpr : kpal (rc y) = kpal y) by (unfold CompressSpec.kpal; f_equal; now apply is_pal_rc).
  (* a palindromic target is a node of its own: both of its terminal k-mers are z *)
  assert (Hsingle : kpal z = true -> EdgeSpec.pal_single D K stranded nodes v /\
            forall t', exists e', oexts z = Some e' /\
              forall b0, In b0 bases4 -> e_has_ext (GraphModel.n_exts D m) (dirb t') b0 = e_has_ext e' (dirb t') b0).
  { intro Hp. pose proof (Fpm z Hzin Hp) as Lm. change (CompressSpec.n_seq D m) with (GraphModel.n_seq D m) in Lm.
    assert (Ez : forall t', term_kmer K (GraphModel.n_seq D m) t' = z).
    { intro t'. rewrite Hz. rewrite !term_kmer_single by exact Lm. reflexivity. }
    apply kpal_iff in Hp as [Hs Hzz]. split.
    - unfold EdgeSpec.pal_single, EdgeSpec.node_seq. unfold graph, gnode, node. rewrite Em. repeat split; auto.
      rewrite <- (term_kmer_single K _ t Lm), <- Hz. exact Hzz.
    - intro t'. destruct (node_term_exts m t' Hm) as (e' & He' & Heb'). rewrite Ez in He'. eauto. }
  unfold b'. destruct Hcase as [(-> & -> & Ezy)|(-> & Hs & -> & Ezy)].
  - (* no strand change: z = y *)
    rewrite Ezy in *. destruct (osym_frame x s b ex ez Wx Lx Hb4 Hex He Hez) as [P1 P2]. fold c in P1, P2.
    rewrite <- outer_back. fold c.
    destruct (kpal y) eqn:Hp.
    + destruct (Hsingle eq_refl) as [Hps Hboth]. destruct (P2 Hp) as [P|P].
      * left. now rewrite (Hezb c (in_bases4 c Hc4)).
      * right. split; [exact Hps|]. rewrite dflip_dflip. destruct (Hboth s) as (e' & He' & Heb').
        assert (e' = ez) by congruence. subst e'. now rewrite (Heb' _ (in_bases4 _ (comp_lt4 c))).
    + left. rewrite (Hezb c (in_bases4 c Hc4)). now apply P1.
  - (* strand change: z = rc y, found on side s *)
    assert (Hbk : back_base x s true = comp c) by (unfold c; destruct s; reflexivity). rewrite Hbk.
    destruct (kpal y) eqn:Hp.
    + pose proof (proj1 (kpal_iff y) Hp) as [_ Hyy]. rewrite <- Hyy in Ezy. rewrite Ezy in *.
      destruct (osym_frame x s b ex ez Wx Lx Hb4 Hex He Hez) as [_ P2]. fold c in P2.
      destruct (Hsingle Hp) as [Hps Hboth]. destruct (P2 Hp) as [P|P].
      * right. split; [exact Hps|]. rewrite comp_involutive by exact Hc4. destruct (Hboth (dflip s)) as (e' & He' & Heb').
        assert (e' = ez) by congruence. subst e'. now rewrite (Heb' _ (in_bases4 _ Hc4)).
      * left. now rewrite (Hezb _ (in_bases4 _ (comp_lt4 c))).
    + assert (Hyne : y <> rc y) by (intro E; assert (kpal y = true) by (apply kpal_iff; auto); congruence).
      assert (Hzne : z <> rc z).
      { rewrite Ezy, ListFacts.rc_involutive by exact Wy. congruence. }
      assert (Wz : wf_dna z) by (rewrite Ezy; apply rc_wf).
      pose proof (oexts_rc z ez Wz Hs Hzne Hez) as Hey. rewrite Ezy, ListFacts.rc_involutive in Hey by exact Wy.
      destruct (osym_frame x s b ex (e_rc ez) Wx Lx Hb4 Hex He Hey) as [P1 _]. fold c in P1. specialize (P1 Hp).
      rewrite has_ext_rc' in P1 by (eauto using oexts_lt). rewrite dflip_dflip in P1.
      left. now rewrite (Hezb _ (in_bases4 _ (comp_lt4 c))).
Qed.

Theorem nodes_graph_ok : graph_ok D K stranded nodes.
Proof. split; [apply nodes_wf_graph|]. split; [apply nodes_ends_ok | apply nodes_exts_sym]. Qed.
End GOK.

(* closed form: for every table satisfying the hypotheses compress_kmers returns a graph_ok graph *)
Theorem compress_graph_ok D reduce join K stranded : 1 <= K -> forall T : table D,
  tbl_ok D K stranded T -> CompressSpec.exts_sym D stranded T -> exts_sym_pal D stranded T ->
  exists nodes, compress_kmers D reduce join stranded T = Some nodes /\ graph_ok D K stranded nodes.
Proof.
  intros HK T Hok Hsym Hpal.
  destruct (compress_refines D reduce join K stranded HK T Hok Hsym) as [nodes [Hc _]].
  exists nodes. split; [exact Hc|]. exact (nodes_graph_ok D reduce join K stranded HK T Hok Hsym Hpal nodes Hc).
Qed.

(* ---- the third entry point (compress_kmers_no_exts): extensions derived from set membership also meet [exts_sym_pal],
   so every graph it builds is graph_ok ---- *)
Section DerivedPal.
Variable D : Type.
Variable K : nat.
Variable stranded : bool.
Hypothesis HK : 1 <= K.
Variable kds : list (dna * D).
Hypothesis Hnd : NoDup (map fst kds).
Hypothesis Hkeys : forall k, In k (map fst kds) -> length k = K /\ wf_dna k /\ (stranded = false -> canon k = k).
Local Notation T := (derived_table D stranded kds).

Theorem derive_exts_sym_pal : exts_sym_pal D stranded T.
Proof.
  intros ent d b yent Hin Hb Hh. cbv zeta. intros Hg _.
  destruct (derived_in D stranded kds _ Hin) as [Hk He].
  apply (get_entry_Some D T) in Hg. destruct Hg as [Hyin Hyk].
  destruct (derived_in D stranded kds _ Hyin) as [Hyk' Hye]. rewrite Hye, Hyk.
  set (k := e_key D ent) in *.
  destruct (Hkeys k Hk) as (Hlen & Hwf & Hcan).
  assert (Hne : k <> []) by (intro E; rewrite E in Hlen; cbn in Hlen; lia).
  assert (Ho4 : (outer k (dflip d) < 4)%N).
  { destruct d; cbn [dflip outer]; [apply wf_last | apply wf_hd]; auto. }
  destruct (kcanon_flip stranded (extend k b d)) as [y fl] eqn:Hyf. cbn [fst snd] in *.
  rewrite !derive_has_ext by (try apply comp_lt4; exact Ho4).
  unfold present.
  destruct (kcanon_flip_cases _ _ _ _ Hyf) as [[-> Hy]|[Hst [-> Hy]]].
  - left. rewrite Hy, KmerAlgebra.extend_back by auto. rewrite (canon_k_key D K stranded kds Hkeys k Hk).
    now apply present_key.
  - right. rewrite Hy, rc_extend by auto. rewrite <- (outer_rc k d Hne).
    assert (Hrne : rc k <> []) by (intro E; apply (proj1 (rc_nil_iff k)) in E; exact (Hne E)).
    pose proof (KmerAlgebra.extend_back (rc k) (comp b) (dflip d) Hrne) as EB. rewrite dflip_dflip in EB. rewrite EB.
    unfold canon_k. rewrite Hst. rewrite canon_rc by auto. rewrite (Hcan Hst). now apply present_key.
Qed.

Corollary no_exts_graph_ok reduce join :
  exists nodes, compress_kmers D reduce join stranded T = Some nodes /\ graph_ok D K stranded nodes.
Proof.
  destruct (derived_ok D K stranded HK kds Hnd Hkeys) as [Hok Hsym].
  apply compress_graph_ok; auto. exact derive_exts_sym_pal.
Qed.
End DerivedPal.
