(* Bridge between the packed p-mer type and the score / bucket functions of the MSP scanner model.
   msp.rs scores a p-mer through `permutation[pi.to_u64() as usize]` (optionally the min with the score of `pi.rc()`) and
   names a bucket through `minimizer.min_rc().to_u64()`.  Algo/Scan.v states both on base lists (perm_score, bucket_of).
   Here the same computations are written on the packed storage value with the packed operations of Packed/KmerModel.v
   (to_u64, krc, min_rc) and proved equal to the list-level functions on the decoded p-mer, for every shipped k-mer
   configuration of width <= 32 (to_u64 panics beyond), every well-formed storage value and EVERY table. *)
From Coq Require Import NArith List Bool Arith Lia.
From DBG Require Import Spec.Dna Packed.KmerModel Proofs.KmerLanes Proofs.KmerOps Proofs.KmerDefaults Algo.Scan Algo.Msp.
Import ListNotations.
Open Scope N_scope.

Definition packed_perm_score (c : kcfg) (perm : list N) (rcmode : bool) (s : N) : option N :=
  match to_u64 s with
  | Some u =>
      let a := nth (N.to_nat u) perm 0 in
      if rcmode then
        match krc c s with
        | Some r => match to_u64 r with Some v => Some (N.min a (nth (N.to_nat v) perm 0)) | None => None end
        | None => None
        end
      else Some a
  | None => None
  end.

Definition packed_bucket (c : kcfg) (s : N) : option N :=
  match min_rc c s with Some m => to_u64 m | None => None end.

Theorem packed_perm_score_spec c perm rcmode s : In c shipped -> wf (kK c) s -> (kK c <= 32)%nat ->
  packed_perm_score c perm rcmode s = Some (perm_score perm rcmode (decode (kK c) s)).
Proof.
  intros Hc Hs Hk. unfold packed_perm_score, perm_score.
  rewrite (to_u64_spec c s Hc Hs Hk).
  destruct rcmode; [|reflexivity].
  destruct (rc_spec c s Hc Hs) as [r [E [W D]]]. rewrite E.
  rewrite (to_u64_spec c r Hc W Hk), D. reflexivity.
Qed.

Theorem packed_bucket_spec c s : In c shipped -> wf (kK c) s -> (kK c <= 32)%nat ->
  packed_bucket c s = Some (bucket_of (decode (kK c) s)).
Proof.
  intros Hc Hs Hk. unfold packed_bucket, bucket_of.
  destruct (min_rc_spec c Hc s Hs) as [m [E [W D]]]. rewrite E.
  rewrite (to_u64_spec c m Hc W Hk), D. reflexivity.
Qed.

(* the score of the scanner's public scan_kmer/`msp_sequence` entry (`score = |p| p.to_u64()`): the rank itself *)
Theorem packed_rank_score_spec c s : In c shipped -> wf (kK c) s -> (kK c <= 32)%nat ->
  to_u64 s = Some (rank (decode (kK c) s)).
Proof. exact (to_u64_spec c s). Qed.

(* the score closure of msp_sequence (explicit table, or the default identity table = the rank itself) on the packed p-mer *)
Definition packed_msp_score (c : kcfg) (perm : option (list N)) (rcmode : bool) (s : N) : option N :=
  match perm with
  | Some t => packed_perm_score c t rcmode s
  | None =>
      match to_u64 s with
      | Some u =>
          if rcmode then
            match krc c s with
            | Some r => match to_u64 r with Some v => Some (N.min u v) | None => None end
            | None => None
            end
          else Some u
      | None => None
      end
  end.

Theorem packed_msp_score_spec c perm rcmode s : In c shipped -> wf (kK c) s -> (kK c <= 32)%nat ->
  packed_msp_score c perm rcmode s = Some (msp_score (kK c) perm rcmode (decode (kK c) s)).
Proof.
  intros Hc Hs Hk. unfold packed_msp_score, msp_score. destruct perm as [t|].
  - now apply packed_perm_score_spec.
  - rewrite (to_u64_spec c s Hc Hs Hk). destruct rcmode; [|reflexivity].
    destruct (rc_spec c s Hc Hs) as [r [E [W D]]]. rewrite E.
    rewrite (to_u64_spec c r Hc W Hk), D. reflexivity.
Qed.
