(* e2e (direct pipeline = THE assembly of its reads): shared definitions and small facts.
   [lk x d b] is the (K+1)-mer formed by the oriented k-mer x and the base b on its side d.
   [links_ok T S]: the extension bytes of the table T are exactly the membership of the corresponding canonical
   (K+1)-mers in the set S (the two sides of a palindromic key being identified), every recorded extension leads to
   a key, and every element of S is such a (K+1)-mer. *)
From Coq Require Import NArith List Bool Arith Lia Permutation.
From DBG Require Import Spec.Dna Spec.GraphIndex Spec.Unitig Spec.CompressSpec Packed.ExtsModel Algo.Compress
  Algo.KmerHist Check.GraphCheck Check.PipelineCheck
  Proofs.ListFacts Proofs.DnaFacts Proofs.KmerAlgebra.
Import ListNotations.
Local Open Scope nat_scope.

Definition lk (x : dna) (d : dir) (b : N) : dna := match d with DLeft => b :: x | DRight => x ++ [b] end.

Lemma lk_length x d b : length (lk x d b) = S (length x).
Proof. destruct d; cbn [lk length]; [reflexivity|]. rewrite app_length. cbn. lia. Qed.
Lemma lk_wf x d b : wf_dna x -> (b < 4)%N -> wf_dna (lk x d b).
Proof.
  intros W Hb. destruct d; cbn [lk]; [constructor; auto|]. apply wf_app. split; [exact W|]. constructor; auto.
Qed.
Lemma rc_lk x d b : rc (lk x d b) = lk (rc x) (dflip d) (comp b).
Proof. destruct d; cbn [lk dflip]; [apply rc_cons | apply rc_snoc]. Qed.
Lemma removelast_last_ (x : dna) : x <> [] -> removelast x ++ [last x 0%N] = x.
Proof. intro H. symmetry. now apply app_removelast_last. Qed.
(* the same (K+1)-mer seen from its other k-mer *)
Lemma lk_back x d b : x <> [] -> lk (extend x b d) (dflip d) (outer x (dflip d)) = lk x d b.
Proof.
  intro H. destruct d; cbn [lk extend dflip outer]; unfold extend_left, extend_right.
  - cbn [app]. f_equal. now apply removelast_last_.
  - destruct x as [|a x]; [congruence|]. reflexivity.
Qed.
Lemma firstn_snoc_ {A} (x : list A) b : firstn (length x) (x ++ [b]) = x.
Proof. now apply firstn_app_exact. Qed.
Lemma firstn_removelast_ {A} (x : list A) : forall a, firstn (length x) (a :: x) = removelast (a :: x).
Proof. induction x as [|c x IH]; intro a; [reflexivity|]. cbn [length firstn removelast]. f_equal. apply IH. Qed.
(* the two k-mers of a (K+1)-mer *)
Lemma lk_first x d b : x <> [] -> firstn (length x) (lk x d b) = match d with DRight => x | DLeft => extend x b DLeft end.
Proof.
  intro H. destruct d; cbn [lk extend]; unfold extend_left.
  - destruct x as [|a x]; [congruence|]. cbn [length]. rewrite <- firstn_removelast_. reflexivity.
  - apply firstn_snoc_.
Qed.
Lemma lk_second x d b : x <> [] -> skipn 1 (lk x d b) = match d with DRight => extend x b DRight | DLeft => x end.
Proof. intro H. destruct d; cbn [lk extend skipn]; unfold extend_right; [reflexivity|]. destruct x; [congruence|reflexivity]. Qed.
Lemma lk_inj x d b x' b' : length x = length x' -> lk x d b = lk x' d b' -> x = x' /\ b = b'.
Proof.
  intros L H. destruct d; cbn [lk] in H.
  - injection H as -> ->. auto.
  - apply app_inj_length in H; [|exact L]. destruct H as [-> H]. injection H as ->. auto.
Qed.
(* equal (K+1)-mers built on opposite sides: each k-mer is the other's neighbour *)
Lemma lk_cross x b x' b' : x <> [] -> length x = length x' -> lk x DRight b = lk x' DLeft b' ->
  x' = extend x b DRight /\ b' = outer x DLeft /\ x = extend x' b' DLeft /\ b = outer x' DRight.
Proof.
  intros Hx L H. cbn [lk] in H. destruct x as [|a x]; [congruence|]. cbn [app] in H. injection H as <- H.
  cbn [extend outer hd tl]. unfold extend_right, extend_left. cbn [tl]. subst x'. repeat split.
  - rewrite removelast_last. reflexivity.
  - now rewrite last_last.
Qed.

Section LinksOk.
Variable D : Type.
Variable K : nat.
Variable st : bool.
Record links_ok (T : table D) (S : list dna) : Prop := {
  lo_np : forall ent d b, In ent T -> (b < 4)%N -> kpal st (e_key D ent) = false ->
    (e_has_ext (e_exts D ent) (dirb d) b = true <-> In (cn st (lk (e_key D ent) d b)) S);
  lo_pal : forall ent d b, In ent T -> (b < 4)%N -> kpal st (e_key D ent) = true ->
    (e_has_ext (e_exts D ent) (dirb d) b = true \/ e_has_ext (e_exts D ent) (dirb (dflip d)) (comp b) = true
     <-> In (cn st (lk (e_key D ent) d b)) S);
  lo_closed : forall ent d b, In ent T -> (b < 4)%N -> e_has_ext (e_exts D ent) (dirb d) b = true ->
    In (canon_k st (extend (e_key D ent) b d)) (keys D T);
  lo_src : forall w, In w S -> exists ent d b, In ent T /\ (b < 4)%N /\ w = cn st (lk (e_key D ent) d b) }.
(* the same without closure and without the source clause: what holds of a table whose recorded extensions may lead to
   absent k-mers (count-filtered tables, shard tables), w.r.t. a link set that may be larger than the table's own *)
Record links_loose (T : table D) (S : list dna) : Prop := {
  ll_np : forall ent d b, In ent T -> (b < 4)%N -> kpal st (e_key D ent) = false ->
    (e_has_ext (e_exts D ent) (dirb d) b = true <-> In (cn st (lk (e_key D ent) d b)) S);
  ll_pal : forall ent d b, In ent T -> (b < 4)%N -> kpal st (e_key D ent) = true ->
    (e_has_ext (e_exts D ent) (dirb d) b = true \/ e_has_ext (e_exts D ent) (dirb (dflip d)) (comp b) = true
     <-> In (cn st (lk (e_key D ent) d b)) S) }.
Lemma links_ok_loose T S : links_ok T S -> links_loose T S.
Proof. intros [H1 H2 _ _]. constructor; assumption. Qed.
End LinksOk.
