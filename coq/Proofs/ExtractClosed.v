(* C13 composed with C14 / C17: no representation-invariant hypothesis left.  A DnaString (an Lmer) reached by ANY in-range
   history of construction / mutation operations yields, at every position, by get_kmer and by the k-mer iterator, the
   k-mers of the plain list obtained by applying the same operations to a list. *)
From Coq Require Import NArith List Bool Arith Lia.
From DBG Require Import Spec.Dna Packed.KmerModel Packed.ExtsModel Packed.Blocks Packed.DnaStringModel Packed.SliceModel
  Packed.LmerModel Algo.Iter Algo.SeqHist Proofs.KmerDefaults Proofs.LmerProofs Proofs.IterProofs Proofs.DnaStringProofs.
Import ListNotations.
Open Scope N_scope.

Theorem dnastring_history_kmers : forall c, In c shipped -> forall ops, dops_ok 0 ops = true ->
  let l := fold_left sdstep ops [] in
  exists s, dsteps d_new ops = Some s /\ d_len s = length l /\
    (forall pos, (pos + kK c <= length l)%nat ->
       exists r, d_get_kmer c s pos = Some r /\ wf (kK c) r /\ decode (kK c) r = kmer_at (kK c) l pos) /\
    (exists ks, iter_kmers c (d_len s) (d_get s) (d_get_kmer c s) = Some ks /\ Forall (wf (kK c)) ks /\
                map (decode (kK c)) ks = kmers (kK c) l) /\
    (* every window of it, forward or reverse-complemented *)
    (forall sl pos, (s_start sl + s_length sl <= length l)%nat -> (pos + kK c <= s_length sl)%nat ->
       exists r, sl_get_kmer c s sl pos = Some r /\ wf (kK c) r /\
                 decode (kK c) r = kmer_at (kK c) (sl_view l sl) pos).
Proof.
  intros c Hc ops Hok l.
  destruct (d_history ops Hok) as (s & Hs & Hinv & Habs).
  pose proof (d_abs_length s Hinv) as HL. fold l in Habs.
  exists s. split; [exact Hs|]. split; [rewrite <- Habs; symmetry; exact HL|].
  split; [|split].
  - intros pos Hp. rewrite <- Habs. apply d_get_kmer_spec; [exact Hc | exact Hinv |]. rewrite <- HL, Habs. exact Hp.
  - rewrite <- Habs. apply d_iter_kmers_spec; [exact Hc | exact Hinv].
  - intros sl pos H1 H2. rewrite <- Habs. apply sl_get_kmer_spec; [exact Hc | exact Hinv | | exact H2].
    rewrite <- HL, Habs. exact H1.
Qed.

Theorem lmer_history_kmers : forall c, In c shipped -> forall n len ops,
  (1 <= n <= 6)%nat -> (len <= l_max_len n)%nat -> forallb (lop_ok len) ops = true ->
  let l := fold_left slstep ops (repeat 0 len) in
  exists x0 x, l_new n len = Some x0 /\ lsteps x0 ops = Some x /\
    (forall pos, (pos + kK c <= len)%nat ->
       exists r, l_get_kmer c x pos = Some r /\ wf (kK c) r /\ decode (kK c) r = kmer_at (kK c) l pos) /\
    (exists ks, iter_kmers c len (l_get x) (l_get_kmer c x) = Some ks /\ Forall (wf (kK c)) ks /\
                map (decode (kK c)) ks = kmers (kK c) l).
Proof.
  intros c Hc n len ops Hn Hlen Hok l.
  destruct (l_history n len ops Hn Hlen Hok) as (x0 & x & H0 & Hx & _ & Hinv & Hl & Habs).
  fold l in Habs. exists x0, x. split; [exact H0|]. split; [exact Hx|]. split.
  - intros pos Hp. rewrite <- Habs. apply (l_get_kmer_spec c Hc x len pos Hinv Hl Hp).
  - rewrite <- Habs. apply (l_iter_kmers_spec c Hc x len Hinv Hl).
Qed.
