(* C05: filter_kmers = reference grouping, for every pass count.  Proof skeleton: DESIGN.md appendix A.4. *)
From Coq Require Import NArith List Bool Arith Lia Sorting.Sorted Permutation.
From DBG Require Import Spec.Dna Packed.ExtsMini Algo.KmerHist Algo.Filter Proofs.ListFacts Proofs.KmerLanes
  Proofs.KmerHistProofs Proofs.FilterSweeps.
Import ListNotations.
Open Scope N_scope.

(* ------------------------------------------------------------------ (a),(e): the pass plan tiles 0..255 *)
Lemma plan_sz_range ik so m u sz : plan_sz ik so m u = Some sz -> 1 <= sz <= 257.
Proof.
  unfold plan_sz. destruct (m * eff_unit u =? 0); [discriminate|]. intros H. injection H as <-.
  unfold n_buckets.
  assert (256 / (ik * so / (m * eff_unit u) + 1) <= 256).
  { set (d := ik * so / (m * eff_unit u) + 1). apply N.div_le_upper_bound; [|replace 256 with (1 * 256) at 1 by reflexivity;
      apply N.mul_le_mono_r]; subst d; set (q := ik * so / (m * eff_unit u)); lia. }
  set (q := 256 / _) in *. lia.
Qed.
Lemma plan_sz_some ik so m u : 1 <= m * eff_unit u -> exists sz, plan_sz ik so m u = Some sz.
Proof.
  intros H. unfold plan_sz. destruct (m * eff_unit u =? 0) eqn:E; [apply N.eqb_eq in E; lia|]. eauto.
Qed.
Lemma plan_sz_none ik so m u : m * eff_unit u = 0 -> plan_sz ik so m u = None.
Proof. intros H. unfold plan_sz. rewrite H. reflexivity. Qed.

Theorem ranges_tile sz : 1 <= sz <= 257 ->
  exists rs, bucket_ranges sz = Some rs /\ schedule rs = buckets256 /\ contiguous 0 rs = true /\
             N.of_nat (length rs) = (256 + sz - 1) / sz.
Proof.
  intros H. pose proof tile_sweep as S. rewrite forallb_forall in S.
  assert (I : In sz sizes).
  { unfold sizes. replace sz with (N.of_nat (N.to_nat sz)) by apply N2Nat.id. apply in_map, in_seq. lia. }
  specialize (S _ I). unfold tile_ok in S. destruct (bucket_ranges sz) as [rs|]; [|discriminate].
  apply andb_true_iff in S. destruct S as [S S3]. apply andb_true_iff in S. destruct S as [S1 S2].
  exists rs. repeat split; auto. now apply list_eqbN_eq. now apply N.eqb_eq in S3.
Qed.

(* ------------------------------------------------------------------ the lexicographic order on dna *)
Lemma dna_compare_refl a : dna_compare a a = Eq.
Proof. induction a as [|x a IH]; cbn; auto. now rewrite N.compare_refl. Qed.
Lemma dna_compare_antisym a : forall b, dna_compare b a = CompOpp (dna_compare a b).
Proof.
  induction a as [|x a IH]; destruct b as [|y b]; cbn; auto.
  rewrite (N.compare_antisym x y). destruct (x ?= y); cbn; auto.
Qed.
Lemma dna_compare_lt_trans a : forall b c, dna_compare a b = Lt -> dna_compare b c = Lt -> dna_compare a c = Lt.
Proof.
  induction a as [|x a IH]; destruct b as [|y b]; destruct c as [|z c]; cbn; try discriminate; auto.
  destruct (N.compare_spec x y) as [e1|l1|g1]; try discriminate; destruct (N.compare_spec y z) as [e2|l2|g2]; try discriminate;
    intros H1 H2; subst.
  - rewrite N.compare_refl. eauto.
  - apply N.compare_lt_iff in l2. now rewrite l2.
  - apply N.compare_lt_iff in l1. now rewrite l1.
  - assert (l3 : x < z) by lia. apply N.compare_lt_iff in l3. now rewrite l3.
Qed.
Lemma dna_eqb_eq a b : dna_eqb a b = true <-> a = b.
Proof.
  unfold dna_eqb. split.
  - destruct (dna_compare a b) eqn:E; try discriminate. intros _. now apply dna_compare_eq.
  - intros ->. now rewrite dna_compare_refl.
Qed.
Lemma dna_eqb_refl a : dna_eqb a a = true.
Proof. now apply dna_eqb_eq. Qed.
Lemma dna_eqb_neq a b : dna_eqb a b = false <-> a <> b.
Proof. rewrite <- dna_eqb_eq. destruct (dna_eqb a b); split; congruence. Qed.
Lemma dna_eqb_sym a b : dna_eqb a b = dna_eqb b a.
Proof. unfold dna_eqb. rewrite (dna_compare_antisym a b). destruct (dna_compare a b); reflexivity. Qed.
Lemma dna_leb_refl a : dna_leb a a = true.
Proof. unfold dna_leb. now rewrite dna_compare_refl. Qed.
Lemma dna_leb_total a b : dna_leb a b = false -> dna_ltb b a = true.
Proof. unfold dna_leb, dna_ltb. rewrite (dna_compare_antisym a b). destruct (dna_compare a b); cbn; congruence. Qed.
Lemma dna_ltb_leb a b : dna_ltb a b = true -> dna_leb a b = true.
Proof. unfold dna_leb, dna_ltb. destruct (dna_compare a b); congruence. Qed.
Lemma dna_ltb_neq a b : dna_ltb a b = true -> a <> b.
Proof. unfold dna_ltb. intros H ->. now rewrite dna_compare_refl in H. Qed.
Lemma dna_leb_cases a b : dna_leb a b = true -> a = b \/ dna_ltb a b = true.
Proof.
  unfold dna_leb, dna_ltb. destruct (dna_compare a b) eqn:E; try discriminate; auto. left. now apply dna_compare_eq.
Qed.
Lemma dna_ltb_trans a b c : dna_ltb a b = true -> dna_ltb b c = true -> dna_ltb a c = true.
Proof.
  unfold dna_ltb. destruct (dna_compare a b) eqn:E1; try discriminate. destruct (dna_compare b c) eqn:E2; try discriminate.
  now rewrite (dna_compare_lt_trans _ _ _ E1 E2).
Qed.
Lemma dna_leb_trans a b c : dna_leb a b = true -> dna_leb b c = true -> dna_leb a c = true.
Proof.
  intros H1 H2. destruct (dna_leb_cases _ _ H1) as [->|L1]; auto. destruct (dna_leb_cases _ _ H2) as [<-|L2]; auto.
  apply dna_ltb_leb. eapply dna_ltb_trans; eauto.
Qed.
Lemma dna_ltb_leb_trans a b c : dna_ltb a b = true -> dna_leb b c = true -> dna_ltb a c = true.
Proof. intros H1 H2. destruct (dna_leb_cases _ _ H2) as [<-|L2]; auto. eapply dna_ltb_trans; eauto. Qed.
Lemma dna_ltb_irrefl a : dna_ltb a a = false.
Proof. unfold dna_ltb. now rewrite dna_compare_refl. Qed.
Lemma dna_ltb_antisym a b : dna_ltb a b = true -> dna_leb b a = false.
Proof. unfold dna_ltb, dna_leb. rewrite (dna_compare_antisym a b). destruct (dna_compare a b); cbn; congruence. Qed.

(* ------------------------------------------------------------------ generic list facts *)
Lemma filter_filter {A} (p q : A -> bool) l : filter p (filter q l) = filter (fun x => q x && p x) l.
Proof. induction l as [|x l IH]; cbn; auto. destruct (q x); cbn; [destruct (p x)|]; now rewrite IH. Qed.
Lemma filter_ext_in' {A} (p q : A -> bool) l : (forall x, In x l -> p x = q x) -> filter p l = filter q l.
Proof.
  induction l as [|x l IH]; cbn; auto. intros H. rewrite (H x) by auto. rewrite IH; auto.
Qed.
Lemma filter_none {A} (p : A -> bool) l : (forall x, In x l -> p x = false) -> filter p l = [].
Proof. induction l as [|x l IH]; cbn; auto. intros H. rewrite (H x) by auto. auto. Qed.
Lemma filter_all {A} (p : A -> bool) l : (forall x, In x l -> p x = true) -> filter p l = l.
Proof. induction l as [|x l IH]; cbn; auto. intros H. rewrite (H x) by auto. f_equal. auto. Qed.
Lemma map_filter_comm {A B} (f : A -> B) (p : B -> bool) l : map f (filter (fun x => p (f x)) l) = filter p (map f l).
Proof. induction l as [|x l IH]; cbn; auto. destruct (p (f x)); cbn; now rewrite IH. Qed.

(* a list sorted by a key f is the concatenation of its f-classes in ascending order *)
Section Partition.
Context {A : Type} (f : A -> N).
Definition fle (a b : A) : Prop := f a <= f b.
Lemma partition_step (m : N) (L : list A) : StronglySorted fle L ->
  filter (fun a => f a <? m) L ++ filter (fun a => f a =? m) L = filter (fun a => f a <? m + 1) L.
Proof.
  induction 1 as [|x L' HS IH HF]; cbn; auto.
  destruct (N.ltb_spec (f x) m) as [L|L].
  - replace (f x =? m) with false by (symmetry; apply N.eqb_neq; lia).
    replace (f x <? m + 1) with true by (symmetry; apply N.ltb_lt; lia). cbn. now rewrite IH.
  - destruct (N.eqb_spec (f x) m) as [E|E].
    + replace (f x <? m + 1) with true by (symmetry; apply N.ltb_lt; lia).
      rewrite <- IH. rewrite (filter_none (fun a => f a <? m)); auto.
      intros y Hy. rewrite Forall_forall in HF. specialize (HF y Hy). unfold fle in HF. apply N.ltb_ge. lia.
    + replace (f x <? m + 1) with false by (symmetry; apply N.ltb_ge; lia). exact IH.
Qed.
Lemma partition_prefix (L : list A) : StronglySorted fle L -> forall n,
  flat_map (fun b => filter (fun a => f a =? b) L) (map N.of_nat (seq 0 n)) = filter (fun a => f a <? N.of_nat n) L.
Proof.
  intros HS. induction n as [|n IH].
  - cbn. symmetry. apply filter_none. intros x _. apply N.ltb_ge. lia.
  - rewrite seq_S, map_app, flat_map_app, IH. cbn [map flat_map Nat.add]. rewrite app_nil_r.
    rewrite partition_step by auto. replace (N.of_nat n + 1) with (N.of_nat (Datatypes.S n)) by lia. reflexivity.
Qed.
Lemma partition_sorted (L : list A) n : StronglySorted fle L -> Forall (fun a => f a < N.of_nat n) L ->
  flat_map (fun b => filter (fun a => f a =? b) L) (map N.of_nat (seq 0 n)) = L.
Proof.
  intros HS HF. rewrite partition_prefix by auto. apply filter_all. rewrite Forall_forall in HF.
  intros x Hx. apply N.ltb_lt. auto.
Qed.
End Partition.

(* strictly sorted lists with the same members are equal *)
Definition dlt (a b : dna) : Prop := dna_ltb a b = true.
Definition dle (a b : dna) : Prop := dna_leb a b = true.
Lemma ssorted_unique (l1 : list dna) : forall l2, StronglySorted dlt l1 -> StronglySorted dlt l2 ->
  (forall k, In k l1 <-> In k l2) -> l1 = l2.
Proof.
  induction l1 as [|x l1 IH]; intros l2 S1 S2 HI.
  - destruct l2 as [|y l2]; auto. exfalso. apply (proj2 (HI y)). now left.
  - destruct l2 as [|y l2]. { exfalso. apply (proj1 (HI x)). now left. }
    apply StronglySorted_inv in S1. destruct S1 as [S1 F1]. apply StronglySorted_inv in S2. destruct S2 as [S2 F2].
    rewrite Forall_forall in F1, F2.
    assert (E : x = y).
    { destruct (proj1 (HI x) (or_introl eq_refl)) as [->|Hx]; auto.
      destruct (proj2 (HI y) (or_introl eq_refl)) as [->|Hy]; auto.
      specialize (F1 _ Hy). specialize (F2 _ Hx). unfold dlt in *.
      apply dna_ltb_antisym in F1. apply dna_ltb_leb in F2. congruence. }
    subst y. f_equal. apply IH; auto. intros k. split; intros Hk.
    + destruct (proj1 (HI k) (or_intror Hk)) as [<-|]; auto. specialize (F1 _ Hk). unfold dlt in F1.
      now rewrite dna_ltb_irrefl in F1.
    + destruct (proj2 (HI k) (or_intror Hk)) as [<-|]; auto. specialize (F2 _ Hk). unfold dlt in F2.
      now rewrite dna_ltb_irrefl in F2.
Qed.
Lemma ssorted_filter {A} (R : A -> A -> Prop) (p : A -> bool) l : StronglySorted R l -> StronglySorted R (filter p l).
Proof.
  induction 1 as [|x l HS IH HF]; cbn; [constructor|]. destruct (p x); auto. constructor; auto.
  rewrite Forall_forall in *. intros y Hy. apply filter_In in Hy. apply HF. tauto.
Qed.

(* ------------------------------------------------------------------ sorting and deduplicating keys *)
Lemma insert_sorted x l : StronglySorted dle l -> StronglySorted dle (insert_by dna_leb x l).
Proof.
  induction 1 as [|y r HS IH HF]; cbn; [repeat constructor|].
  destruct (dna_leb x y) eqn:E.
  - constructor; [constructor; auto|]. constructor; [exact E|]. rewrite Forall_forall in *. intros z Hz.
    unfold dle in *. eapply dna_leb_trans; eauto.
  - constructor; auto. rewrite Forall_forall in *. intros z Hz. apply insert_by_in in Hz. destruct Hz as [->|Hz]; auto.
    unfold dle. apply dna_ltb_leb. now apply dna_leb_total.
Qed.
Lemma sort_sorted l : StronglySorted dle (sort_by dna_leb l).
Proof. induction l as [|x l IH]; cbn; [constructor|]. now apply insert_sorted. Qed.
Lemma insert_by_in_rev {A} (leb : A -> A -> bool) x l y : y = x \/ In y l -> In y (insert_by leb x l).
Proof.
  induction l as [|z l IH]; cbn; [intuition|]. destruct (leb x z); cbn; [intuition|]. intros [H|[H|H]]; auto.
Qed.
Lemma sort_by_in_rev {A} (leb : A -> A -> bool) l y : In y l -> In y (sort_by leb l).
Proof. induction l as [|x l IH]; cbn; [auto|]. intros [->|H]; apply insert_by_in_rev; auto. Qed.

Lemma dedup_in l k : In k (dedup_by dna_eqb l) <-> In k l.
Proof.
  induction l as [|x l IH]; cbn [dedup_by]; [tauto|]. destruct (dedup_by dna_eqb l) as [|y t] eqn:E.
  - cbn in *. intuition.
  - destruct (dna_eqb x y) eqn:Exy.
    + apply dna_eqb_eq in Exy. subst y. rewrite IH. cbn. split; [auto|]. intros [<-|H]; auto. apply IH. now left.
    + cbn [In]. rewrite <- IH. cbn [In]. tauto.
Qed.
Lemma dedup_ssorted l : StronglySorted dle l -> StronglySorted dlt (dedup_by dna_eqb l).
Proof.
  induction 1 as [|x r HS IH HF]; cbn [dedup_by]; [constructor|].
  destruct (dedup_by dna_eqb r) as [|y t] eqn:E; [repeat constructor|].
  destruct (dna_eqb x y) eqn:Exy; auto.
  assert (Hy : dlt x y).
  { rewrite Forall_forall in HF. assert (Iy : In y r) by (apply dedup_in; rewrite E; now left).
    specialize (HF _ Iy). destruct (dna_leb_cases _ _ HF) as [->|]; auto. now rewrite dna_eqb_refl in Exy. }
  constructor; auto. constructor; auto. apply StronglySorted_inv in IH. destruct IH as [_ IH].
  rewrite Forall_forall in *. intros z Hz. unfold dlt in *. eapply dna_ltb_trans; eauto.
Qed.
Definition sort_dedup (l : list dna) : list dna := dedup_by dna_eqb (sort_by dna_leb l).
Lemma sort_dedup_ssorted l : StronglySorted dlt (sort_dedup l).
Proof. apply dedup_ssorted, sort_sorted. Qed.
Lemma sort_dedup_in l k : In k (sort_dedup l) <-> In k l.
Proof. unfold sort_dedup. rewrite dedup_in. split; [apply sort_by_in | apply sort_by_in_rev]. Qed.
Lemma sort_dedup_filter (p : dna -> bool) l : sort_dedup (filter p l) = filter p (sort_dedup l).
Proof.
  apply ssorted_unique; [apply sort_dedup_ssorted | apply ssorted_filter, sort_dedup_ssorted |].
  intros k. rewrite sort_dedup_in, !filter_In, sort_dedup_in. tauto.
Qed.

(* ------------------------------------------------------------------ (c): stable sort + adjacent grouping *)
Section SortGroup.
Context {D : Type}.
Notation obs := (@obs D).
Definition keq (k : dna) (o : obs) : bool := dna_eqb (key o) k.
Definition kle (a b : obs) : bool := dna_leb (key a) (key b).

Lemma insert_keq x l k : filter (keq k) (insert_by kle x l) = if keq k x then x :: filter (keq k) l else filter (keq k) l.
Proof.
  induction l as [|y r IH]; cbn [insert_by filter]; [reflexivity|].
  destruct (kle x y) eqn:E; cbn [filter]; [reflexivity|]. rewrite IH.
  destruct (keq k x) eqn:Ex; [|reflexivity].
  replace (keq k y) with false; [reflexivity|]. symmetry. unfold keq, kle in *. apply dna_eqb_eq in Ex.
  apply dna_eqb_neq. intros Ey. rewrite Ex, Ey, dna_leb_refl in E. discriminate.
Qed.
Theorem sort_stable k (l : list obs) : filter (keq k) (sort_by_key l) = filter (keq k) l.
Proof.
  induction l as [|x l IH]; [reflexivity|]. unfold sort_by_key in *. cbn [sort_by fold_right].
  fold (sort_by (fun a b => dna_leb (key a) (key b)) l). change (fun a b : obs => dna_leb (key a) (key b)) with kle in *.
  rewrite insert_keq, IH. cbn [filter]. reflexivity.
Qed.
Lemma sort_keys (l : list obs) : map key (sort_by_key l) = sort_by dna_leb (map key l).
Proof. unfold sort_by_key. apply sort_by_map. reflexivity. Qed.

Definition grp (s : list obs) (k : dna) : dna * list obs := (k, filter (keq k) s).
Lemma grp_cons x r k : grp (x :: r) k = if dna_eqb (key x) k then (k, x :: filter (keq k) r) else grp r k.
Proof. unfold grp. cbn [filter]. unfold keq at 1. destruct (dna_eqb (key x) k); reflexivity. Qed.
Lemma group_adj_sorted (s : list obs) : StronglySorted dle (map key s) ->
  group_adj s = map (grp s) (dedup_by dna_eqb (map key s)).
Proof.
  induction s as [|x r IH]; [reflexivity|]. cbn [map]. intros HS. apply StronglySorted_inv in HS. destruct HS as [HS HF].
  specialize (IH HS). cbn [group_adj dedup_by]. rewrite IH. clear IH.
  pose proof (dedup_ssorted _ HS) as SS. pose proof (dedup_in (map key r)) as DI.
  destruct (dedup_by dna_eqb (map key r)) as [|y t] eqn:E.
  - destruct r as [|o r]; [|exfalso; apply (proj2 (DI (key o))); now left].
    cbn [map]. unfold grp. cbn [filter]. unfold keq. now rewrite dna_eqb_refl.
  - cbn [map]. unfold grp at 1. apply StronglySorted_inv in SS. destruct SS as [_ SF]. rewrite Forall_forall in SF, HF.
    assert (Iy : In y (map key r)) by (apply DI; now left).
    assert (Hxy : dle (key x) y) by auto.
    destruct (dna_eqb (key x) y) eqn:Exy.
    + cbn [map]. rewrite grp_cons, Exy. f_equal. apply dna_eqb_eq in Exy.
      apply map_ext_in. intros k Hk. rewrite grp_cons, Exy.
      specialize (SF _ Hk). replace (dna_eqb y k) with false; auto. symmetry. apply dna_eqb_neq. now apply dna_ltb_neq.
    + assert (Lxy : dlt (key x) y).
      { destruct (dna_leb_cases _ _ Hxy) as [Q|]; auto. rewrite Q, dna_eqb_refl in Exy. discriminate. }
      assert (Hall : forall k, In k (y :: t) -> dna_eqb (key x) k = false).
      { intros k [<-|Hk]; auto. apply dna_eqb_neq. apply dna_ltb_neq. unfold dlt in *. eapply dna_ltb_trans; eauto. }
      cbn [map]. rewrite grp_cons, dna_eqb_refl. f_equal.
      * f_equal. f_equal. symmetry. apply filter_none.
        intros o Ho. unfold keq. rewrite dna_eqb_sym. apply Hall. apply DI. now apply in_map.
      * change ((y, filter (keq y) r) :: map (grp r) t) with (map (grp r) (y :: t)).
        change (grp (x :: r) y :: map (grp (x :: r)) t) with (map (grp (x :: r)) (y :: t)). apply map_ext_in.
        intros k Hk. now rewrite grp_cons, (Hall _ Hk).
Qed.
End SortGroup.

(* ------------------------------------------------------------------ (d): bucket is monotone in the key *)
Definition key_ok (k : dna) : Prop := (4 <= length k)%nat /\ wf_dna k.
Lemma bucket_arith a b c d r : a < 4 -> b < 4 -> c < 4 -> d < 4 ->
  bucket (a :: b :: c :: d :: r) = 64 * a + 16 * b + 4 * c + d.
Proof.
  intros Ha Hb Hc Hd. unfold bucket. cbn [nth].
  assert (E : forall x, x < 4 -> x = 0 \/ x = 1 \/ x = 2 \/ x = 3) by (intros; lia).
  destruct (E a Ha) as [-> | [-> | [-> | -> ]]]; destruct (E b Hb) as [-> | [-> | [-> | -> ]]];
  destruct (E c Hc) as [-> | [-> | [-> | -> ]]]; destruct (E d Hd) as [-> | [-> | [-> | -> ]]]; reflexivity.
Qed.
Lemma bucket_lt k : key_ok k -> bucket k < 256.
Proof.
  intros [L W]. destruct k as [|a [|b [|c [|d r]]]]; cbn in L; try lia.
  inversion W as [|? ? Ha W1]; subst. inversion W1 as [|? ? Hb W2]; subst. inversion W2 as [|? ? Hc W3]; subst.
  inversion W3 as [|? ? Hd W4]; subst. rewrite bucket_arith by auto. lia.
Qed.
Theorem bucket_monotone x y : key_ok x -> key_ok y -> dna_leb x y = true -> bucket x <= bucket y.
Proof.
  intros [Lx Wx] [Ly Wy]. destruct x as [|a [|b [|c [|d r]]]]; cbn in Lx; try lia.
  destruct y as [|a' [|b' [|c' [|d' r']]]]; cbn in Ly; try lia.
  inversion Wx as [|? ? Ha W1]; subst. inversion W1 as [|? ? Hb W2]; subst. inversion W2 as [|? ? Hc W3]; subst.
  inversion W3 as [|? ? Hd W4]; subst.
  inversion Wy as [|? ? Ha' V1]; subst. inversion V1 as [|? ? Hb' V2]; subst. inversion V2 as [|? ? Hc' V3]; subst.
  inversion V3 as [|? ? Hd' V4]; subst.
  rewrite !bucket_arith by auto. unfold dna_leb. cbn [dna_compare].
  destruct (N.compare_spec a a'); [subst| lia | discriminate].
  destruct (N.compare_spec b b'); [subst| lia | discriminate].
  destruct (N.compare_spec c c'); [subst| lia | discriminate].
  destruct (N.compare_spec d d'); [subst| lia | discriminate]. lia.
Qed.

(* ------------------------------------------------------------------ algebra of the output accumulators *)
Section Out.
Context {DS : Type}.
Notation out := (@out DS).
Definition out_nil : out := ([], []).
Lemma out_app_nil_l (a : out) : out_app out_nil a = a.
Proof. destruct a; reflexivity. Qed.
Lemma out_app_nil_r (a : out) : out_app a out_nil = a.
Proof. destruct a; unfold out_app; cbn. now rewrite !app_nil_r. Qed.
Lemma out_app_assoc (a b c : out) : out_app a (out_app b c) = out_app (out_app a b) c.
Proof. unfold out_app; cbn. now rewrite !app_assoc. Qed.
Lemma out_concat_app (l1 l2 : list out) : out_concat (l1 ++ l2) = out_app (out_concat l1) (out_concat l2).
Proof.
  induction l1 as [|a l1 IH]; cbn [app out_concat fold_right]; [now rewrite out_app_nil_l|].
  fold (out_concat (l1 ++ l2)). fold (out_concat l1). now rewrite IH, out_app_assoc.
Qed.
Lemma out_concat_flat {A B} (F : B -> out) (g : A -> list B) l :
  out_concat (map (fun x => out_concat (map F (g x))) l) = out_concat (map F (flat_map g l)).
Proof.
  induction l as [|x l IH]; [reflexivity|]. cbn [map flat_map]. rewrite map_app, out_concat_app, <- IH. reflexivity.
Qed.
Lemma out_concat_filter {A} (F : A -> out) (p : A -> bool) l :
  out_concat (map (fun x => if p x then F x else out_nil) l) = out_concat (map F (filter p l)).
Proof.
  induction l as [|x l IH]; [reflexivity|]. cbn [map filter]. destruct (p x); cbn [map out_concat fold_right].
  - f_equal. exact IH.
  - rewrite out_app_nil_l. exact IH.
Qed.
Lemma out_concat_ext {A} (F G : A -> out) l : (forall x, In x l -> F x = G x) -> out_concat (map F l) = out_concat (map G l).
Proof. intros H. f_equal. now apply map_ext_in. Qed.
End Out.

(* ------------------------------------------------------------------ the main theorem *)
Section Main.
Context {D DS : Type}.
Variable summarize : list (@obs D) -> bool * N * DS.
Variable report_all : bool.
Notation obs := (@obs D).
Notation do_group := (do_group summarize report_all).
Notation do_bucket := (do_bucket summarize report_all).
Notation do_pass := (do_pass summarize report_all).
Notation reference_obs := (reference_obs summarize report_all).

(* one vector, sorted and grouped, is the reference grouping of that vector *)
Lemma do_bucket_ref (vec : list obs) : do_bucket vec = reference_obs vec.
Proof.
  unfold Filter.do_bucket, Filter.reference_obs, ref_keys. rewrite group_adj_sorted.
  - rewrite sort_keys, map_map. apply out_concat_ext. intros k _. unfold grp, obs_of. f_equal. f_equal. apply sort_stable.
  - rewrite sort_keys. apply sort_sorted.
Qed.

Definition bkt (b : N) (o : obs) : bool := bucket (key o) =? b.
Definition keys_ok (os : list obs) : Prop := Forall (fun o => key_ok (key o)) os.

Lemma ref_keys_in (os : list obs) k : In k (ref_keys os) <-> exists o, key o = k /\ In o os.
Proof. unfold ref_keys. fold (sort_dedup (map key os)). rewrite sort_dedup_in. apply in_map_iff. Qed.
Lemma ref_keys_ssorted (os : list obs) : StronglySorted dlt (ref_keys os).
Proof. apply sort_dedup_ssorted. Qed.

(* the reference grouping is the concatenation over b = 0..255 of the reference groupings of the bucket classes *)
Lemma reference_by_bucket (os : list obs) : keys_ok os ->
  out_concat (map (fun b => reference_obs (filter (bkt b) os)) buckets256) = reference_obs os.
Proof.
  intros OK. unfold Filter.reference_obs at 2.
  set (G := fun k => do_group (k, obs_of os k)).
  rewrite (out_concat_ext _ (fun b => out_concat (map G (filter (fun k => bucket k =? b) (ref_keys os))))).
  - rewrite out_concat_flat. f_equal. f_equal. unfold buckets256. apply partition_sorted.
    + pose proof (ref_keys_ssorted os) as SS.
      assert (HI : forall k, In k (ref_keys os) -> key_ok k).
      { intros k Hk. apply ref_keys_in in Hk. destruct Hk as [o [<- Ho]].
        unfold keys_ok in OK. rewrite Forall_forall in OK. auto. }
      revert SS HI. generalize (ref_keys os). induction 1 as [|x l HS IH HF]; intros HI; constructor.
      * apply IH. intros k Hk. apply HI. now right.
      * rewrite Forall_forall in *. intros z Hz. unfold fle. apply bucket_monotone; [apply HI; now left | apply HI; now right|].
        apply dna_ltb_leb. now apply HF.
    + rewrite Forall_forall. intros k Hk. apply ref_keys_in in Hk. destruct Hk as [o [<- Ho]].
      apply bucket_lt. unfold keys_ok in OK. rewrite Forall_forall in OK. auto.
  - intros b _. unfold Filter.reference_obs. unfold ref_keys.
    replace (map key (filter (bkt b) os)) with (filter (fun k => bucket k =? b) (map key os))
      by (symmetry; apply (map_filter_comm key (fun k => bucket k =? b))).
    fold (sort_dedup (filter (fun k : dna => bucket k =? b) (map key os))). rewrite sort_dedup_filter.
    apply out_concat_ext. intros k Hk. apply filter_In in Hk. destruct Hk as [_ Hb]. unfold G. f_equal. f_equal.
    unfold obs_of. rewrite filter_filter. apply filter_ext_in'. intros o _. unfold bkt.
    destruct (dna_eqb (key o) k) eqn:E; [|apply andb_false_r]. apply dna_eqb_eq in E. rewrite E, Hb. reflexivity.
Qed.

Lemma do_bucket_nil : do_bucket [] = out_nil.
Proof. reflexivity. Qed.

(* (b): what one pass produces *)
Lemma do_pass_spec (os : list obs) r :
  do_pass os r = out_concat (map (fun b => reference_obs (filter (bkt b) os)) (pass_buckets r)).
Proof.
  unfold Filter.do_pass, pass_buckets. rewrite <- out_concat_filter. apply out_concat_ext. intros b _.
  unfold bucket_vec, pass_fill. rewrite filter_filter. destruct (in_range r b) eqn:E.
  - rewrite do_bucket_ref. f_equal. apply filter_ext_in'. intros o _. unfold bkt.
    destruct (N.eqb_spec (bucket (key o)) b) as [->|]; [now rewrite E | apply andb_false_r].
  - rewrite (filter_none (fun x => in_range r (bucket (key x)) && (bucket (key x) =? b))); [apply do_bucket_nil|].
    intros o _. destruct (N.eqb_spec (bucket (key o)) b) as [->|]; [now rewrite E | apply andb_false_r].
Qed.

Notation filter_kmers := (filter_kmers summarize report_all).
Notation reference := (reference summarize report_all).

Theorem filter_obs_spec (os : list obs) rs : keys_ok os -> schedule rs = buckets256 ->
  out_concat (map (do_pass os) rs) = reference_obs os.
Proof.
  intros OK HS. rewrite <- (reference_by_bucket os OK), <- HS. unfold schedule. rewrite <- out_concat_flat.
  apply out_concat_ext. intros r _. apply do_pass_spec.
Qed.
End Main.

(* ------------------------------------------------------------------ observations have well-formed keys of length K *)
Lemma in_skipn' {A} (x : A) n l : In x (skipn n l) -> In x l.
Proof. revert l. induction n as [|n IH]; intros [|y l]; cbn; auto. Qed.
Lemma in_firstn' {A} (x : A) n l : In x (firstn n l) -> In x l.
Proof. revert l. induction n as [|n IH]; intros [|y l]; cbn; try tauto. intros [H|H]; auto. Qed.
Lemma kmer_at_ok K s i : wf_dna s -> (i + K <= length s)%nat -> length (kmer_at K s i) = K /\ wf_dna (kmer_at K s i).
Proof.
  intros W L. split; [now apply sub_length|]. unfold kmer_at, sub, wf_dna in *. rewrite Forall_forall in *.
  intros x Hx. apply W. eapply in_skipn', in_firstn'; eauto.
Qed.
Lemma canon_flip_cases x : canon_flip x = (x, false) \/ canon_flip x = (rc x, true).
Proof. unfold canon_flip. destruct (dna_ltb x (rc x)); auto. Qed.
Lemma canon_obs_key st (o : dna * N) K : length (fst o) = K -> wf_dna (fst o) ->
  length (fst (canon_obs st o)) = K /\ wf_dna (fst (canon_obs st o)).
Proof.
  intros L W. unfold canon_obs. destruct st; [split; assumption|]. destruct (canon_flip_cases (fst o)) as [E | E]; rewrite E; simpl; auto.
  split; [now rewrite rc_length | apply rc_wf].
Qed.
Definition reads_ok {D} (reads : list (dna * N * D)) : Prop := Forall (fun r => wf_dna (fst (fst r))) reads.
Lemma kmer_exts_in K s e o : In o (kmer_exts K s e) -> exists i, (i + K <= length s)%nat /\ fst o = kmer_at K s i.
Proof.
  unfold kmer_exts. intros H. apply in_map_iff in H. destruct H as [i [<- Hi]]. apply in_seq in Hi. exists i. cbn [fst].
  split; [lia | reflexivity].
Qed.
Lemma observations_keys {D} K st (reads : list (dna * N * D)) : reads_ok reads ->
  Forall (fun o => length (key o) = K /\ wf_dna (key o)) (observations K st reads).
Proof.
  intros OK. rewrite Forall_forall. intros o Ho. unfold observations in Ho. apply in_flat_map in Ho.
  destruct Ho as [r [Hr Ho]]. apply in_map_iff in Ho. destruct Ho as [o' [<- Ho']]. unfold key. cbn [fst].
  apply kmer_exts_in in Ho'. destruct Ho' as [i [Li Ei]]. unfold reads_ok in OK. rewrite Forall_forall in OK.
  specialize (OK _ Hr). destruct (kmer_at_ok K _ i OK Li). apply canon_obs_key; now rewrite Ei.
Qed.
Lemma observations_keys_ok {D} K st (reads : list (dna * N * D)) : (4 <= K)%nat -> reads_ok reads ->
  keys_ok (observations K st reads).
Proof.
  intros HK OK. pose proof (observations_keys K st reads OK) as H. unfold keys_ok. rewrite Forall_forall in *.
  intros o Ho. destruct (H o Ho) as [L W]. split; auto. lia.
Qed.

(* ------------------------------------------------------------------ filter_spec and pass_independent *)
Section Spec.
Context {D DS : Type}.
Variable summarize : list (@obs D) -> bool * N * DS.
Variable report_all : bool.

(* the number of passes: ceil(256 / sz) with sz = 256 / (kmer_mem / max_mem + 1) + 1 *)
Definition pass_count (ik size_of memory_size unit : N) : N :=
  let sz := 256 / (ik * size_of / (memory_size * eff_unit unit) + 1) + 1 in (256 + sz - 1) / sz.

Theorem filter_spec K stranded size_of memory_size unit (reads : list (dna * N * D)) :
  (4 <= K)%nat -> 1 <= memory_size * eff_unit unit -> reads_ok reads ->
  exists passes, filter_kmers summarize report_all K stranded size_of memory_size unit reads
                 = Some (reference summarize report_all K stranded reads, passes) /\
                 N.of_nat passes = pass_count (input_kmers K reads) size_of memory_size unit.
Proof.
  intros HK HM OK. unfold filter_kmers.
  destruct (plan_sz_some (input_kmers K reads) size_of _ _ HM) as [sz Hsz]. rewrite Hsz.
  destruct (ranges_tile sz (plan_sz_range _ _ _ _ _ Hsz)) as [rs [Hrs [Hsch [_ Hlen]]]]. rewrite Hrs.
  exists (length rs). split.
  - f_equal. f_equal. unfold reference. apply filter_obs_spec; auto. now apply observations_keys_ok.
  - rewrite Hlen. unfold plan_sz in Hsz. destruct (memory_size * eff_unit unit =? 0); [discriminate|].
    injection Hsz as <-. reflexivity.
Qed.

(* the result does not depend on the memory budget, the unit or the element size *)
Corollary pass_independent K stranded (reads : list (dna * N * D)) so1 m1 u1 so2 m2 u2 :
  (4 <= K)%nat -> reads_ok reads -> 1 <= m1 * eff_unit u1 -> 1 <= m2 * eff_unit u2 ->
  option_map fst (filter_kmers summarize report_all K stranded so1 m1 u1 reads) =
  option_map fst (filter_kmers summarize report_all K stranded so2 m2 u2 reads).
Proof.
  intros HK OK H1 H2. destruct (filter_spec K stranded so1 m1 u1 reads HK H1 OK) as [p1 [E1 _]].
  destruct (filter_spec K stranded so2 m2 u2 reads HK H2 OK) as [p2 [E2 _]]. now rewrite E1, E2.
Qed.
(* a zero budget is the division-by-zero panic *)
Lemma filter_zero_budget K stranded so m u (reads : list (dna * N * D)) : m * eff_unit u = 0 ->
  filter_kmers summarize report_all K stranded so m u reads = None.
Proof. intros H. unfold filter_kmers. now rewrite plan_sz_none. Qed.
End Spec.
