(* C05: filter_kmers = reference grouping, for every pass count.  Proof skeleton: DESIGN.md appendix A.4. *)
From Coq Require Import NArith List Bool Arith Lia Sorting.Sorted Permutation.
From DBG Require Import Spec.Dna Packed.ExtsMini Algo.KmerHist Algo.Filter Proofs.ListFacts Proofs.KmerLanes
  Proofs.KmerHistProofs Proofs.FilterSweeps.
Import ListNotations.
Open Scope N_scope.

(* ------------------------------------------------------------------ (a),(e): the pass plan tiles 0..255 *)
Lemma plan_sz_range ik so m u sz : plan_sz ik so m u = Some sz -> 1 <= sz <= 257.
Proof.
  unfold plan_sz. destruct (m * eff_unit u =? 0); [discriminate|]. intros H. injection H as <-.
  unfold n_buckets.
  assert (256 / (ik * so / (m * eff_unit u) + 1) <= 256).
  { set (d := ik * so / (m * eff_unit u) + 1). apply N.div_le_upper_bound; [|replace 256 with (1 * 256) at 1 by reflexivity;
      apply N.mul_le_mono_r]; subst d; set (q := ik * so / (m * eff_unit u)); lia. }
  set (q := 256 / _) in *. lia.
Qed.
Lemma plan_sz_some ik so m u : 1 <= m * eff_unit u -> exists sz, plan_sz ik so m u = Some sz.
Proof.
  intros H. unfold plan_sz. destruct (m * eff_unit u =? 0) eqn:E; [apply N.eqb_eq in E; lia|]. eauto.
Qed.
Lemma plan_sz_none ik so m u : m * eff_unit u = 0 -> plan_sz ik so m u = None.
Proof. intros H. unfold plan_sz. rewrite H. reflexivity. Qed.

Theorem ranges_tile sz : 1 <= sz <= 257 ->
  exists rs, bucket_ranges sz = Some rs /\ schedule rs = buckets256 /\ contiguous 0 rs = true /\
             N.of_nat (length rs) = (256 + sz - 1) / sz.
Proof.
  intros H. pose proof tile_sweep as S. rewrite forallb_forall in S.
  assert (I : In sz sizes).
  { unfold sizes. replace sz with (N.of_nat (N.to_nat sz)) by apply N2Nat.id. apply in_map, in_seq. lia. }
  specialize (S _ I). unfold tile_ok in S. destruct (bucket_ranges sz) as [rs|]; [|discriminate].
  apply andb_true_iff in S. destruct S as [S S3]. apply andb_true_iff in S. destruct S as [S1 S2].
  exists rs. repeat split; auto. now apply list_eqbN_eq. now apply N.eqb_eq in S3.
Qed.
