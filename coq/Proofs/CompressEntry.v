(* C01: the three entry points.  compress_kmers_with_hash and compress_kmers (sorted slice) hand CompressFromHash
   the caller's table; compress_kmers_no_exts hands it [derived_table]. *)
From Coq Require Import NArith List Bool Arith.
From DBG Require Import Proofs.AbstractWalk.
From DBG Require Import Spec.Dna Spec.GraphIndex Spec.Unitig Spec.CompressSpec Packed.ExtsModel Algo.Compress
  Check.CompressHyp Proofs.CompressProofs Proofs.DeriveExts Proofs.CompressHypProofs.
Import ListNotations.
Local Open Scope nat_scope.

Lemma derived_ok D K stranded : 1 <= K -> forall kds : list (dna * D),
  NoDup (map fst kds) ->
  (forall k, In k (map fst kds) -> length k = K /\ wf_dna k /\ (stranded = false -> canon k = k)) ->
  tbl_ok D K stranded (derived_table D stranded kds) /\ exts_sym D stranded (derived_table D stranded kds).
Proof. intros HK kds Hnd Hk. split; [now apply derived_tbl_ok | now apply (derive_exts_sym D K)]. Qed.

Lemma no_exts_c01 D reduce join K stranded : 1 <= K -> forall kds : list (dna * D),
  NoDup (map fst kds) ->
  (forall k, In k (map fst kds) -> length k = K /\ wf_dna k /\ (stranded = false -> canon k = k)) ->
  let T := derived_table D stranded kds in
  exists nodes, compress_kmers D reduce join stranded T = Some nodes /\
    partition_ok D K stranded T nodes /\ steps_ok D K stranded T nodes /\ payload_ok D K stranded reduce T nodes.
Proof.
  intros HK kds Hnd Hk T. destruct (derived_ok D K stranded HK kds Hnd Hk). apply compress_c01; auto.
Qed.

Lemma hyp_decidable D K stranded (T : table D) :
  (tbl_okb D K stranded T = true -> tbl_ok D K stranded T) /\
  (exts_symb D stranded T = true -> exts_sym D stranded T).
Proof. split; [apply tbl_okb_sound | apply exts_symb_sound]. Qed.
