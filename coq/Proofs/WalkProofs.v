(* C03: walks along reported edges spell the walked nodes' k-mers (path_spelling); max_path returns a valid
   walk without repeated node, for every score and solid function (max_path_valid). *)
From Coq Require Import NArith ZArith List Bool Arith Lia.
From DBG Require Import Spec.Dna Spec.GraphIndex Packed.ExtsModel Algo.Compress Algo.GraphModel Spec.EdgeSpec
  Proofs.ListFacts Proofs.DnaFacts Proofs.GraphQueryProofs.
Import ListNotations.
Local Open Scope nat_scope.

(* ------------------------------------------------------------------ k-mers of glued sequences *)
Lemma skipn_app_le {A} n (a y : list A) : n <= length a -> skipn n (a ++ y) = skipn n a ++ y.
Proof. intro H. rewrite skipn_app. replace (n - length a) with 0 by lia. reflexivity. Qed.
Lemma firstn_app_le {A} n (a y : list A) : n <= length a -> firstn n (a ++ y) = firstn n a.
Proof. intro H. rewrite firstn_app. replace (n - length a) with 0 by lia. cbn. apply app_nil_r. Qed.
Lemma tl_skipn {A} n : forall (l : list A), tl (skipn n l) = skipn (S n) l.
Proof. induction n as [|n IH]; intros [|x l]; cbn [skipn tl]; auto. apply IH. Qed.

Lemma seq_plus c : forall n, seq c n = map (fun j => c + j) (seq 0 n).
Proof.
  intro n. revert c. induction n as [|n IH]; intro c; [reflexivity|]. cbn [seq map]. f_equal; [lia|].
  rewrite (IH (S c)). rewrite <- (seq_shift n 0), map_map. apply map_ext. intro j. lia.
Qed.
Lemma kmers_app K (a y : dna) : 1 <= K -> K <= length a ->
  kmers K (a ++ y) = kmers K a ++ kmers K (skipn (length a + 1 - K) a ++ y).
Proof.
  intros HK L. unfold kmers. set (c := length a + 1 - K).
  rewrite !app_length, skipn_length.
  replace (length a + length y + 1 - K) with (c + length y) by lia.
  replace (length a - c + length y + 1 - K) with (length y) by lia.
  rewrite seq_app, map_app. f_equal.
  - apply map_ext_in. intros i Hi. apply in_seq in Hi. unfold kmer_at, sub.
    rewrite skipn_app_le by lia. apply firstn_app_le. rewrite skipn_length. lia.
  - cbn [plus]. rewrite (seq_plus c). rewrite map_map. apply map_ext. intro j. unfold kmer_at, sub. f_equal.
    rewrite <- (skipn_app_le c a y) by lia. now rewrite ListFacts.skipn_skipn.
Qed.

Definition glue (K : nat) (ss : list dna) : dna := concat (map (skipn (K - 1)) ss).
Definition seq_overlap (K : nat) (x y : dna) : Prop := skipn (length x + 1 - K) x = firstn (K - 1) y.

Lemma spell_chain K : 1 <= K -> forall ss a, K <= length a -> (forall s, In s ss -> K <= length s) ->
  chain (seq_overlap K) (a :: ss) -> kmers K (a ++ glue K ss) = flat_map (kmers K) (a :: ss).
Proof.
  intro HK. induction ss as [|b r IH]; intros a La Ls C.
  - unfold glue. cbn. now rewrite !app_nil_r.
  - destruct C as [C1 C2]. unfold glue. cbn [map concat]. fold (glue K r).
    rewrite kmers_app by assumption. unfold seq_overlap in C1. rewrite C1.
    rewrite app_assoc, firstn_skipn. cbn [flat_map]. f_equal.
    apply IH; [apply Ls; now left|intros s Hs; apply Ls; now right|exact C2].
Qed.

Lemma mem_nat_iff i l : mem_nat i l = true <-> In i l.
Proof.
  unfold mem_nat. rewrite existsb_exists. split.
  - intros [x [Hx E]]. apply Nat.eqb_eq in E. now subst.
  - intro H. exists i. split; [exact H|apply Nat.eqb_refl].
Qed.
Lemma NoDup_app' {A} (l1 l2 : list A) : NoDup l1 -> NoDup l2 -> (forall x, In x l1 -> ~ In x l2) -> NoDup (l1 ++ l2).
Proof.
  induction l1 as [|a l1 IH]; intros N1 N2 H; [exact N2|]. inversion N1; subst. cbn. constructor.
  - intro Hin. apply in_app_or in Hin as [Hin|Hin]; [contradiction|]. apply (H a); [now left|exact Hin].
  - apply IH; auto. intros x Hx. apply H. now right.
Qed.

Section Walk.
Variable D : Type.
Variable K : nat.
Variable stranded : bool.
Local Notation graph := (graph D).
Local Notation node_seq := (node_seq D).
Local Notation edges_of := (edges_of D K stranded).
Local Notation pal_single := (pal_single D K stranded).
Local Notation oseq := (oseq D).
Local Notation step_ok := (step_ok D K stranded).
Local Notation valid_walk := (valid_walk D K stranded).

Lemma oseq_ok (g : graph) x : wf_graph D K g -> fst x < length g -> K <= length (oseq g x) /\ wf_dna (oseq g x).
Proof.
  intros W H. destruct (node_seq_ok D K g (fst x) W H) as [L Wf]. unfold EdgeSpec.oseq. destruct (snd x).
  - auto.
  - rewrite rc_length. split; [exact L|apply rc_wf].
Qed.
Lemma oseq_pal (g : graph) v d d' : pal_single g v -> oseq g (v, d) = oseq g (v, d').
Proof. intros [_ [_ [_ P]]]. unfold EdgeSpec.oseq. destruct d, d'; cbn [fst snd]; congruence. Qed.

(* consecutive nodes of a walk overlap by K-1 bases in the direction of travel *)
Lemma step_overlap (g : graph) a b : wf_graph D K g -> step_ok g a b -> seq_overlap K (oseq g a) (oseq g b).
Proof.
  intros W [s [t [f [Hin [Hs Ht]]]]]. pose proof (proj1 W) as HK.
  pose proof (edges_overlap D K stranded g (fst a) s _ W Hin) as [Hv [_ [O _]]].
  apply in_edges_of in Hin as [Hu _].
  assert (Ea : oseq g (fst a, dflip s) = oseq g a).
  { destruct Hs as [->|P]; [rewrite dflip_invol; now destruct a|]. rewrite (oseq_pal g _ _ (snd a) P). now destruct a. }
  assert (Eb : oseq g (fst b, t) = oseq g b).
  { destruct Ht as [->|P]; [now destruct b|]. rewrite (oseq_pal g _ _ (snd b) P). now destruct b. }
  unfold overlaps, out_kmer, in_kmer in O. rewrite Ea, Eb in O.
  destruct (oseq_ok g a W Hu) as [La _]. destruct (oseq_ok g b W Hv) as [Lb _].
  unfold seq_overlap. unfold last_kmer, first_kmer, kmer_at, sub in O. cbn [skipn] in O.
  rewrite (firstn_all2 (n := K)) in O by (rewrite skipn_length; lia).
  rewrite tl_skipn in O. replace (length (oseq g a) + 1 - K) with (S (length (oseq g a) - K)) by lia.
  rewrite O. destruct K as [|k]; [lia|]. replace (S k - 1) with k by lia. apply removelast_firstn. lia.
Qed.

Lemma seq_from_false (g : graph) : forall r, (forall x, In x r -> fst x < length g) ->
  sequence_of_path_from D K g false r = Some (glue K (map (oseq g) r)).
Proof.
  induction r as [|[id d] r IH]; intro H; [reflexivity|]. cbn [sequence_of_path_from].
  assert (Hid : id < length g) by (apply (H (id, d)); now left).
  destruct (nth_error g id) as [n|] eqn:E; [|apply nth_error_None in E; lia].
  rewrite IH by (intros x Hx; apply H; now right). unfold glue. cbn [map concat]. f_equal. f_equal.
  unfold EdgeSpec.oseq, EdgeSpec.node_seq, oriented. cbn [fst snd]. rewrite E. now destruct d.
Qed.
Lemma seq_of_path_eq (g : graph) x r : (forall y, In y (x :: r) -> fst y < length g) ->
  sequence_of_path D K g (x :: r) = Some (oseq g x ++ glue K (map (oseq g) r)).
Proof.
  intro H. unfold sequence_of_path. destruct x as [id d]. cbn [sequence_of_path_from].
  assert (Hid : id < length g) by (apply (H (id, d)); now left).
  destruct (nth_error g id) as [n|] eqn:E; [|apply nth_error_None in E; lia].
  rewrite seq_from_false by (intros y Hy; apply H; now right). cbn [skipn]. f_equal. f_equal.
  unfold EdgeSpec.oseq, EdgeSpec.node_seq, oriented. cbn [fst snd]. rewrite E. now destruct d.
Qed.

(* the sequence of a valid walk exists and its k-mers are the walked nodes' oriented k-mers, in order *)
Theorem path_spelling (g : graph) p : wf_graph D K g -> valid_walk g p ->
  exists s, sequence_of_path D K g p = Some s /\ kmers K s = walk_kmers D K g p.
Proof.
  intros W [Hid C]. pose proof (proj1 W) as HK. destruct p as [|x r].
  - exists []. split; [reflexivity|]. unfold kmers. cbn [length]. replace (0 + 1 - K) with 0 by lia. reflexivity.
  - exists (oseq g x ++ glue K (map (oseq g) r)). split; [now apply seq_of_path_eq|].
    rewrite spell_chain.
    + unfold walk_kmers. rewrite <- (map_cons (oseq g)). generalize (x :: r). intro l.
      induction l as [|y l IH]; [reflexivity|]. cbn [map flat_map]. now rewrite IH.
    + exact HK.
    + apply (oseq_ok g x W). apply Hid. now left.
    + intros s Hs. apply in_map_iff in Hs as [y [<- Hy]]. apply (oseq_ok g y W). apply Hid. now right.
    + rewrite <- (map_cons (oseq g)). revert C. generalize (x :: r). intro l.
      induction l as [|a l IH]; intro C; [exact I|]. destruct C as [C1 C2]. cbn [map]. split; [|now apply IH].
      destruct l as [|b l]; [exact I|]. cbn [map]. now apply step_overlap.
Qed.

(* ------------------------------------------------------------------ max_path *)
Definition flipd (x : nat * dir) : nat * dir := (fst x, dflip (snd x)).

(* walking an edge backwards: by the symmetry of a valid graph *)
Lemma step_ok_rev (g : graph) a b : graph_ok D K stranded g -> step_ok g a b -> step_ok g (flipd b) (flipd a).
Proof.
  intros G [s [t [f [Hin [Hs Ht]]]]].
  assert (Hu : fst a < length g) by (apply in_edges_of in Hin; tauto).
  destruct (edges_symmetric D K stranded g G _ _ _ _ _ Hu Hin) as [s' [t' [f' [Hin' [Ht' [Hs' _]]]]]].
  exists t', s', f'. cbn [flipd fst snd]. rewrite dflip_invol. split; [exact Hin'|]. split.
  - destruct Ht' as [->|P]; [|now right]. destruct Ht as [->|P]; [now left|now right].
  - destruct Hs' as [->|P]; [|now right]. destruct Hs as [->|P]; [now left|now right].
Qed.

Variable score : D -> Z.
Variable solid : D -> bool.
Local Notation mp_walk := (mp_walk D K stranded score solid).

Definition pick_step (g : graph) (acc : option (nat * dir) * nat) (e : link) : option (nat * dir) * nat :=
  let cand := Some (fst (fst e), snd (fst e)) in
  let ns := if osolid D solid g cand then S (snd acc) else snd acc in
  ((if (oscore D score g (fst acc) <? oscore D score g cand)%Z then cand else fst acc), ns).
Lemma pick_from_edges (g : graph) : forall edges acc,
  fst (fold_left (pick_step g) edges acc) = fst acc \/
  exists e, In e edges /\ fst (fold_left (pick_step g) edges acc) = Some (fst (fst e), snd (fst e)).
Proof.
  induction edges as [|e r IH]; intro acc; [now left|]. cbn [fold_left].
  destruct (IH (pick_step g acc e)) as [H|[e' [He' H]]].
  - rewrite H. unfold pick_step. cbn [fst]. destruct (_ <? _)%Z.
    + right. exists e. split; [now left|reflexivity].
    + now left.
  - right. exists e'. split; [now right|exact H].
Qed.

Lemma stop_ok (g : graph) (used : list nat) (cur : nat * dir) :
  chain (step_ok g) (cur :: []) /\ NoDup (map fst (@nil (nat * dir))) /\
  (forall x, In x (@nil (nat * dir)) -> ~ In (fst x) used /\ fst x < length g) /\
  (forall i, In i used <-> In i used \/ In i (map fst (@nil (nat * dir)))).
Proof. split; [cbn; auto|]. split; [constructor|]. split; [intros x []|]. intro i. cbn. tauto. Qed.
Lemma mp_walk_spec : forall fuel (g : graph) used cur, fst cur < length g ->
  exists p u, mp_walk fuel g used cur = Some (p, u) /\
    chain (step_ok g) (cur :: p) /\ NoDup (map fst p) /\
    (forall x, In x p -> ~ In (fst x) used /\ fst x < length g) /\
    (forall i, In i u <-> In i used \/ In i (map fst p)).
Proof.
  induction fuel as [|fuel IH]; intros g used cur Hc.
  - exists [], used. split; [reflexivity|apply stop_ok].
  - cbn [GraphModel.mp_walk]. rewrite (edges_of_Some D K stranded g _ _ Hc).
    change (fun (acc : option (nat * dir) * nat) (e : link) => _) with (pick_step g).
    pose proof (pick_from_edges g (edges_of g (fst cur) (dflip (snd cur))) (None, 0)) as P.
    destruct (fold_left (pick_step g) (edges_of g (fst cur) (dflip (snd cur))) (None, 0)) as [next ns].
    cbn [fst] in P.
    assert (Stop : exists p u, Some (@nil (nat * dir), used) = Some (p, u) /\
              chain (step_ok g) (cur :: p) /\ NoDup (map fst p) /\
              (forall x, In x p -> ~ In (fst x) used /\ fst x < length g) /\
              (forall i, In i u <-> In i used \/ In i (map fst p))).
    { exists [], used. split; [reflexivity|apply stop_ok]. }
    destruct (Nat.ltb 1 ns); [exact Stop|]. destruct next as [[nid ninc]|]; [|exact Stop].
    destruct (mem_nat nid used) eqn:M; [exact Stop|].
    destruct P as [P|[e [He P]]]; [discriminate|]. inversion P; subst nid ninc. destruct e as [[v t] f]. cbn [fst snd] in *.
    assert (Hv : v < length g).
    { apply in_edges_of in He as [_ [b [_ [_ Hl]]]].
      destruct (find_link_some _ _ _ _ _ _ _ _ _ Hl) as [[_ [_ [H _]]]|[_ [_ [_ [[H _] _]]]]]; exact H. }
    destruct (IH g (v :: used) (v, t) Hv) as [p [u [E [C [ND [Hx Hu]]]]]].
    rewrite E. exists ((v, t) :: p), u. split; [reflexivity|]. split; [|split; [|split]].
    + split; [|exact C]. exists (dflip (snd cur)), t, f. cbn [fst snd]. auto.
    + cbn [map fst]. constructor; [|exact ND]. intro Hin. apply in_map_iff in Hin as [x [Ex Hin]].
      apply Hx in Hin as [Hin _]. apply Hin. rewrite Ex. now left.
    + intros x [<-|Hin].
      * cbn [fst]. split; [|exact Hv]. intro Hin. apply mem_nat_iff in Hin. congruence.
      * destruct (Hx x Hin) as [H1 H2]. split; [|exact H2]. intro H. apply H1. now right.
    + intro i. rewrite Hu. cbn [map fst In]. tauto.
Qed.

Lemma best_node_lt (g : graph) : g <> [] -> best_node D score g < length g.
Proof.
  intro H. unfold best_node.
  assert (G : forall l acc, fst acc < length g -> (forall p, In p l -> fst p < length g) ->
     fst (fold_left (fun (acc : nat * option Z) (p : nat * gnode D) =>
                    let s := score (n_data D (snd p)) in
                    match snd acc with
                    | None => (fst p, Some s)
                    | Some b => if (b <? s)%Z then (fst p, Some s) else acc
                    end) l acc) < length g).
  { induction l as [|p l IH]; intros acc Ha Hl; [exact Ha|]. cbn [fold_left]. apply IH.
    - cbn zeta. destruct (snd acc); [destruct (_ <? _)%Z|]; cbn [fst]; auto; apply Hl; now left.
    - intros q Hq. apply Hl. now right. }
  apply G.
  - cbn. destruct g; [congruence|cbn; lia].
  - intros [i n] Hp. apply in_combine_l in Hp. apply in_seq in Hp. cbn. lia.
Qed.

Lemma max_path_nonempty (g : graph) : g <> [] ->
  max_path D K stranded score solid g =
  let b := best_node D score g in
  match mp_walk (S (length g)) g [b] (b, DLeft) with
  | None => None
  | Some (p1, u1) =>
    match mp_walk (S (length g)) g u1 (b, DRight) with
    | None => None
    | Some (p2, _) => Some (rev (map (fun x => (fst x, dflip (snd x))) p2) ++ (b, DLeft) :: p1)
    end
  end.
Proof. destruct g; [congruence|reflexivity]. Qed.
(* for EVERY score and solid function: max_path does not fail and returns a valid walk without repeated node *)
Theorem max_path_valid (g : graph) : graph_ok D K stranded g ->
  exists p, max_path D K stranded score solid g = Some p /\ valid_walk g p /\ NoDup (map fst p).
Proof.
  intro G. destruct g as [|n0 g0] eqn:Eg.
  - exists []. split; [reflexivity|]. split; [split; [intros x []|exact I]|constructor].
  - rewrite <- Eg in *. assert (Ne : g <> []) by congruence. clear Eg n0 g0.
    rewrite (max_path_nonempty g Ne). cbn zeta.
    assert (Hb : best_node D score g < length g) by (now apply best_node_lt).
    set (b := best_node D score g) in *.
    destruct (mp_walk_spec (S (length g)) g [b] (b, DLeft) Hb) as [p1 [u1 [E1 [C1 [N1 [X1 U1]]]]]].
    destruct (mp_walk_spec (S (length g)) g u1 (b, DRight) Hb) as [p2 [u2 [E2 [C2 [N2 [X2 _]]]]]].
    rewrite E1, E2.
    exists (rev (map (fun x => (fst x, dflip (snd x))) p2) ++ (b, DLeft) :: p1). split; [reflexivity|]. split; [split|].
    + intros x Hx. apply in_app_or in Hx as [Hx|[<-|Hx]].
      * apply in_rev, in_map_iff in Hx as [y [<- Hy]]. cbn [fst]. now apply X2.
      * exact Hb.
      * now apply X1.
    + apply chain_app; [|exact C1].
      change (rev (map (fun x => (fst x, dflip (snd x))) p2) ++ [(b, DLeft)]) with (rev (map flipd ((b, DRight) :: p2))).
      apply (chain_rev (step_ok g) (step_ok g) flipd); [|exact C2]. intros x y. now apply step_ok_rev.
    + rewrite map_app, map_rev, map_map. cbn [map fst]. rewrite map_ext with (g := fst) by reflexivity.
      apply NoDup_app'.
      * apply NoDup_rev. exact N2.
      * constructor; [|exact N1]. intro Hin. apply in_map_iff in Hin as [x [Ex Hin]]. apply X1 in Hin as [Hin _].
        apply Hin. rewrite Ex. now left.
      * intros i Hi Hi2. apply in_rev, in_map_iff in Hi as [x [<- Hx]]. apply X2 in Hx as [Hx _]. apply Hx.
        apply U1. destruct Hi2 as [<-|Hi2]; [left; now left|now right].
Qed.
End Walk.
